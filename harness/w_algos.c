// wrapper TU: replaces algos.c in the harness link; reaches its statics
#include "algos.c"
#include "verif_dump.h"
void verif_dump_algos(FILE *f) {
    VD_1D(f, "DIRECTIONS", DIRECTIONS, 6);
    VD_2D(f, "NEW_DIGIT_II", NEW_DIGIT_II, 7, 7);
    VD_2D(f, "NEW_ADJUSTMENT_II", NEW_ADJUSTMENT_II, 7, 7);
    VD_2D(f, "NEW_DIGIT_III", NEW_DIGIT_III, 7, 7);
    VD_2D(f, "NEW_ADJUSTMENT_III", NEW_ADJUSTMENT_III, 7, 7);
    fprintf(f, "def K_ALL_CELLS_AT_RES_15 : Int := %lld\n\n", (long long)K_ALL_CELLS_AT_RES_15);
    fprintf(f, "def POLYGON_TO_CELLS_BUFFER : Int := %d\n\n", (int)POLYGON_TO_CELLS_BUFFER);
}
