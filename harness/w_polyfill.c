// wrapper TU: replaces polyfill.c; reaches its static tables
#include "polyfill.c"
#include "verif_dump.h"
void verif_dump_polyfill(FILE *f) {
    fprintf(f, "def NORTH_POLE_CELLS : List Nat := [");
    for (int r = 0; r <= MAX_H3_RES; r++) fprintf(f, "%s0x%llx", r ? ", " : "", (unsigned long long)NORTH_POLE_CELLS[r]);
    fprintf(f, "]\n\ndef SOUTH_POLE_CELLS : List Nat := [");
    for (int r = 0; r <= MAX_H3_RES; r++) fprintf(f, "%s0x%llx", r ? ", " : "", (unsigned long long)SOUTH_POLE_CELLS[r]);
    fprintf(f, "]\n\ndef MAX_EDGE_LENGTH_RADS_Bits : List Nat := [");
    for (int r = 0; r <= MAX_H3_RES; r++) { if (r) fprintf(f, ", "); vd_dbl(f, MAX_EDGE_LENGTH_RADS[r]); }
    fprintf(f, "]\n\ndef RES0_BBOXES_Bits : List (List Nat) := [\n");
    for (int b = 0; b < NUM_BASE_CELLS; b++) {
        fprintf(f, "  ["); vd_dbl(f, RES0_BBOXES[b].north); fprintf(f, ", ");
        vd_dbl(f, RES0_BBOXES[b].south); fprintf(f, ", ");
        vd_dbl(f, RES0_BBOXES[b].east); fprintf(f, ", ");
        vd_dbl(f, RES0_BBOXES[b].west);
        fprintf(f, "]%s\n", b + 1 < NUM_BASE_CELLS ? "," : "");
    }
    fprintf(f, "]\n\n");
    fprintf(f, "def MAX_SIZE_CELL_THRESHOLD : Int := %d\n\n", MAX_SIZE_CELL_THRESHOLD);
}
