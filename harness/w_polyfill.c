// wrapper TU: replaces polyfill.c; reaches its static tables
#include "polyfill.c"
#include "verif_dump.h"
void verif_dump_polyfill(FILE *f) {
    fprintf(f, "def NORTH_POLE_CELLS : List Nat := [");
    for (int r = 0; r <= MAX_H3_RES; r++) fprintf(f, "%s0x%llx", r ? ", " : "", (unsigned long long)NORTH_POLE_CELLS[r]);
    fprintf(f, "]\n\ndef SOUTH_POLE_CELLS : List Nat := [");
    for (int r = 0; r <= MAX_H3_RES; r++) fprintf(f, "%s0x%llx", r ? ", " : "", (unsigned long long)SOUTH_POLE_CELLS[r]);
    fprintf(f, "]\n\ndef MAX_EDGE_LENGTH_RADS_Bits : List Nat := [");
    for (int r = 0; r <= MAX_H3_RES; r++) { if (r) fprintf(f, ", "); vd_dbl(f, MAX_EDGE_LENGTH_RADS[r]); }
    fprintf(f, "]\n\ndef RES0_BBOXES_Bits : List (List Nat) := [\n");
    for (int b = 0; b < NUM_BASE_CELLS; b++) {
        fprintf(f, "  ["); vd_dbl(f, RES0_BBOXES[b].north); fprintf(f, ", ");
        vd_dbl(f, RES0_BBOXES[b].south); fprintf(f, ", ");
        vd_dbl(f, RES0_BBOXES[b].east); fprintf(f, ", ");
        vd_dbl(f, RES0_BBOXES[b].west);
        fprintf(f, "]%s\n", b + 1 < NUM_BASE_CELLS ? "," : "");
    }
    fprintf(f, "]\n\n");
    fprintf(f, "def MAX_SIZE_CELL_THRESHOLD : Int := %d\n\n", MAX_SIZE_CELL_THRESHOLD);
}

// C15: the primitive predicates that iterStepPolygonCompact (polyfill.c:435-546) combines at the
// target resolution, computed with the library's own functions for one cell
H3Error verif_polyprims(const GeoPolygon *polygon, H3Index cell, int out[8]) {
    for (int i = 0; i < 8; i++) out[i] = 0;
    BBox *bboxes = calloc((size_t)polygon->numHoles + 1, sizeof(BBox));
    bboxesFromGeoPolygon(polygon, bboxes);
    int cellRes = H3_GET_RESOLUTION(cell);
    LatLng center;
    H3Error e = H3_EXPORT(cellToLatLng)(cell, &center);
    if (e) { free(bboxes); return e; }
    out[0] = pointInsidePolygon(polygon, bboxes, &center);
    LatLng firstVertex = polygon->geoloop.verts[0];
    if (bboxContains(&VALID_RANGE_BBOX, &firstVertex)) {
        H3Index polygonCell;
        if (!H3_EXPORT(latLngToCell)(&firstVertex, cellRes, &polygonCell)) out[1] = (polygonCell == cell);
    }
    // (first vertex of a hole in the cell: same predicate, polyfill.c handles holes like the outer loop)
    for (int i = 0; i < polygon->numHoles; i++) {
        if (polygon->holes[i].numVerts == 0 || !bboxContains(&VALID_RANGE_BBOX, &polygon->holes[i].verts[0])) continue;
        H3Index hc;
        if (!H3_EXPORT(latLngToCell)(&polygon->holes[i].verts[0], cellRes, &hc) && hc == cell) out[1] = 1;
    }
    CellBoundary boundary;
    e = H3_EXPORT(cellToBoundary)(cell, &boundary);
    if (e) { free(bboxes); return e; }
    BBox bbox;
    e = cellToBBox(cell, &bbox, false);
    if (e) { free(bboxes); return e; }
    out[2] = cellBoundaryInsidePolygon(polygon, bboxes, &boundary, &bbox);
    out[3] = cellBoundaryCrossesPolygon(polygon, bboxes, &boundary, &bbox);
    BBox cb;
    e = cellToBBox(cell, &cb, true);
    if (e) { free(bboxes); return e; }
    out[4] = bboxOverlapsBBox(&bboxes[0], &cb);
    CellBoundary bb = bboxToCellBoundary(&cb);
    out[5] = bboxContainsBBox(&cb, &bboxes[0]);
    out[6] = pointInsidePolygon(polygon, bboxes, &bb.verts[0]);
    out[7] = cellBoundaryCrossesPolygon(polygon, bboxes, &bb, &cb);
    free(bboxes);
    return E_SUCCESS;
}

// C07/C15: ten primitive predicates for ANY cell (coarser than or at the target resolution); 0..7 as in
// verif_polyprims, 8 = bboxContainsBBox(polygon bbox, covering cell bbox), 9 = cellBoundaryInsidePolygon(outline of
// the covering bbox) -- what the `cellRes < iter->_res` block of iterStepPolygonCompact combines
static H3Error verif_polyprims2(const GeoPolygon *polygon, const BBox *bboxes, H3Index cell, int out[10]) {
    for (int i = 0; i < 10; i++) out[i] = 0;
    int cellRes = H3_GET_RESOLUTION(cell);
    LatLng center;
    H3Error e = H3_EXPORT(cellToLatLng)(cell, &center);
    if (e) return e;
    out[0] = pointInsidePolygon(polygon, bboxes, &center);
    LatLng firstVertex = polygon->geoloop.verts[0];
    if (bboxContains(&VALID_RANGE_BBOX, &firstVertex)) {
        H3Index polygonCell;
        if (!H3_EXPORT(latLngToCell)(&firstVertex, cellRes, &polygonCell)) out[1] = (polygonCell == cell);
    }
    for (int i = 0; i < polygon->numHoles; i++) {
        if (polygon->holes[i].numVerts == 0 || !bboxContains(&VALID_RANGE_BBOX, &polygon->holes[i].verts[0])) continue;
        H3Index hc;
        if (!H3_EXPORT(latLngToCell)(&polygon->holes[i].verts[0], cellRes, &hc) && hc == cell) out[1] = 1;
    }
    CellBoundary boundary;
    e = H3_EXPORT(cellToBoundary)(cell, &boundary);
    if (e) return e;
    BBox bbox;
    e = cellToBBox(cell, &bbox, false);
    if (e) return e;
    out[2] = cellBoundaryInsidePolygon(polygon, bboxes, &boundary, &bbox);
    out[3] = cellBoundaryCrossesPolygon(polygon, bboxes, &boundary, &bbox);
    BBox cb;
    e = cellToBBox(cell, &cb, true);
    if (e) return e;
    out[4] = bboxOverlapsBBox(&bboxes[0], &cb);
    CellBoundary bb = bboxToCellBoundary(&cb);
    out[5] = bboxContainsBBox(&cb, &bboxes[0]);
    out[6] = pointInsidePolygon(polygon, bboxes, &bb.verts[0]);
    out[7] = cellBoundaryCrossesPolygon(polygon, bboxes, &bb, &cb);
    out[8] = bboxContainsBBox(&bboxes[0], &cb);
    out[9] = cellBoundaryInsidePolygon(polygon, bboxes, &bb, &cb);
    return E_SUCCESS;
}

static void verif_pt_visit(const GeoPolygon *p, const BBox *bb, H3Index cell, int res, int64_t *count) {
    if (*count > 300000) return;
    int pr[10];
    (*count)++;
    if (verif_polyprims2(p, bb, cell, pr)) { printf(" %llx:E", (unsigned long long)cell); return; }
    printf(" %llx:", (unsigned long long)cell);
    for (int i = 0; i < 10; i++) putchar('0' + pr[i]);
    int r = H3_GET_RESOLUTION(cell);
    if (r < res && pr[4]) {
        H3Index kids[7] = {0};
        if (H3_EXPORT(cellToChildren)(cell, r + 1, kids)) return;
        for (int i = 0; i < 7; i++) if (kids[i]) verif_pt_visit(p, bb, kids[i], res, count);
    }
}

// the geometry answers for every cell a traversal that descends wherever the covering bounding box overlaps can
// reach (a superset of what iterStepPolygonCompact examines)
void verif_polytable(const GeoPolygon *polygon, int res) {
    BBox *bboxes = calloc((size_t)polygon->numHoles + 1, sizeof(BBox));
    bboxesFromGeoPolygon(polygon, bboxes);
    int64_t count = 0;
    printf("ok");
    for (int bc = 0; bc < NUM_BASE_CELLS; bc++) verif_pt_visit(polygon, bboxes, baseCellNumToCell(bc), res, &count);
    printf("\n");
    free(bboxes);
}

// the sequence of cells the real compact iterator yields
void verif_polycompact(const GeoPolygon *polygon, int res, uint32_t flags) {
    IterCellsPolygonCompact it = iterInitPolygonCompact(polygon, res, flags);
    int64_t n = 0, cap = 300000;
    H3Index *buf = calloc((size_t)cap, sizeof(H3Index));
    for (; it.cell; iterStepPolygonCompact(&it)) {
        if (n >= cap) { iterDestroyPolygonCompact(&it); break; }
        buf[n++] = it.cell;
    }
    if (it.error) printf("err %d\n", (int)it.error);
    else {
        printf("ok %lld", (long long)n);
        for (int64_t i = 0; i < n; i++) printf(" %llx", (unsigned long long)buf[i]);
        printf("\n");
    }
    free(buf);
}
