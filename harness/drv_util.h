#ifndef DRV_UTIL_H
#define DRV_UTIL_H
#include <stdio.h>
#include <stdlib.h>
#include <string.h>
#include <stdint.h>
#include <inttypes.h>
#include "h3api.h"
static inline uint64_t pH(const char *s) { return strtoull(s, NULL, 16); }
static inline long long pI(const char *s) { return strtoll(s, NULL, 10); }
static inline double pD(const char *s) { uint64_t u = strtoull(s, NULL, 16); double d; memcpy(&d, &u, 8); return d; }
static inline void outD(double d) { uint64_t u; memcpy(&u, &d, 8); printf("%016" PRIx64, u); }
static inline int isop(const char *a, const char *b) { return strcmp(a, b) == 0; }
static inline void outErr(H3Error e) { printf("err %d\n", (int)e); }
// print list in given order
static inline void outHs(const H3Index *a, int64_t n) {
    printf("%" PRId64, n);
    for (int64_t i = 0; i < n; i++) printf(" %" PRIx64, a[i]);
}
static int cmpH(const void *a, const void *b) {
    uint64_t x = *(const uint64_t *)a, y = *(const uint64_t *)b;
    return x < y ? -1 : x > y;
}
// print sorted non-zero entries
static inline void outHsSorted(const H3Index *a, int64_t n) {
    H3Index *c = malloc((n ? n : 1) * sizeof(H3Index));
    int64_t m = 0;
    for (int64_t i = 0; i < n; i++) if (a[i]) c[m++] = a[i];
    qsort(c, m, sizeof(H3Index), cmpH);
    outHs(c, m);
    free(c);
}
// exact-size heap buffer (never size 0 so that the pointer is valid)
static inline void *xbuf(size_t n, size_t sz) { void *p = calloc(n ? n : 1, sz); if (!p) abort(); return p; }
#endif
