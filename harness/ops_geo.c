#include "drv_util.h"
int ops_geo(int n, char **a) { (void)n; (void)a; return 0; }
