// ops: geometry (lat/lng, boundaries, areas, lengths, polygons, multipolygons).
// Doubles cross the protocol as 16-hex-digit IEEE bit patterns.
#include <stdio.h>
#include <stdlib.h>
#include <string.h>
#include <math.h>
#include "h3api.h"
#include "h3Index.h"
#include "iterators.h"
#include "latLng.h"
#include "faceijk.h"
#include "polygon.h"
#include "polyfill.h"
#include "bbox.h"
#include "vec2d.h"
#include "coordijk.h"
#include "linkedGeo.h"
#include "drv_util.h"
#include "valloc.h"

static void outLL(const LatLng *g) { outD(g->lat); printf(" "); outD(g->lng); }
static void outCB(const CellBoundary *cb) {
    printf("%d", cb->numVerts);
    for (int i = 0; i < cb->numVerts; i++) { printf(" "); outLL(&cb->verts[i]); }
}

// parse polygon: nloops, then for each loop: nverts, lat lng pairs (bit patterns). loop 0 = outer.
static int parsePolygon(int n, char **a, int at, GeoPolygon *p) {
    if (at >= n) return -1;
    int nl = (int)pI(a[at++]);
    if (nl < 1) return -1;
    GeoLoop *loops = xbuf((size_t)nl, sizeof(GeoLoop));
    for (int l = 0; l < nl; l++) {
        if (at >= n) return -1;
        int nv = (int)pI(a[at++]);
        if (at + 2 * nv > n) return -1;
        loops[l].numVerts = nv;
        loops[l].verts = xbuf((size_t)nv, sizeof(LatLng));   // exact size
        for (int v = 0; v < nv; v++) { loops[l].verts[v].lat = pD(a[at++]); loops[l].verts[v].lng = pD(a[at++]); }
    }
    p->geoloop = loops[0];
    p->numHoles = nl - 1;
    p->holes = nl > 1 ? xbuf((size_t)(nl - 1), sizeof(GeoLoop)) : NULL;
    for (int l = 1; l < nl; l++) p->holes[l - 1] = loops[l];
    free(loops);
    return at;
}
static void freePolygon(GeoPolygon *p) {
    free(p->geoloop.verts);
    for (int i = 0; i < p->numHoles; i++) free(p->holes[i].verts);
    free(p->holes);
}

int ops_geo(int n, char **a) {
    const char *op = a[0];
    if (isop(op, "ll2c") && n == 4) {
        LatLng g = {pD(a[1]), pD(a[2])}; H3Index out = 0x5a5a5a5a5a5a5a5aULL;
        H3Error e = H3_EXPORT(latLngToCell)(&g, (int)pI(a[3]), &out);
        if (e) { if (out != 0x5a5a5a5a5a5a5a5aULL) printf("err %d wrote-result\n", (int)e); else outErr(e); }
        else printf("ok %" PRIx64 "\n", out);
        return 1;
    }
    if (isop(op, "c2ll") && n == 2) {
        LatLng g; H3Error e = H3_EXPORT(cellToLatLng)(pH(a[1]), &g);
        if (e) outErr(e); else { printf("ok "); outLL(&g); printf("\n"); }
        return 1;
    }
    if (isop(op, "rt") && n == 2) {   // latLngToCell(cellToLatLng(h), res(h))
        H3Index h = pH(a[1]); LatLng g; H3Error e = H3_EXPORT(cellToLatLng)(h, &g);
        if (e) { outErr(e); return 1; }
        H3Index out = 0; e = H3_EXPORT(latLngToCell)(&g, H3_GET_RESOLUTION(h), &out);
        if (e) outErr(e); else printf("ok %" PRIx64 "\n", out);
        return 1;
    }
    if (isop(op, "boundary") && n == 2) {
        CellBoundary *cb = xbuf(1, sizeof(CellBoundary));
        H3Error e = H3_EXPORT(cellToBoundary)(pH(a[1]), cb);
        if (e) outErr(e); else { printf("ok "); outCB(cb); printf("\n"); }
        free(cb);
        return 1;
    }
    if (isop(op, "area") && n == 2) {
        double r = 0, k = 0, m = 0; H3Index h = pH(a[1]);
        H3Error e = H3_EXPORT(cellAreaRads2)(h, &r);
        if (e) { outErr(e); return 1; }
        H3Error e2 = H3_EXPORT(cellAreaKm2)(h, &k), e3 = H3_EXPORT(cellAreaM2)(h, &m);
        if (e2 || e3) { printf("err %d\n", (int)(e2 ? e2 : e3)); return 1; }
        printf("ok "); outD(r); printf(" "); outD(k); printf(" "); outD(m); printf("\n");
        return 1;
    }
    if (isop(op, "edgeboundary") && n == 2) {
        CellBoundary *cb = xbuf(1, sizeof(CellBoundary));
        H3Error e = H3_EXPORT(directedEdgeToBoundary)(pH(a[1]), cb);
        if (e) outErr(e); else { printf("ok "); outCB(cb); printf("\n"); }
        free(cb);
        return 1;
    }
    if (isop(op, "edgelen") && n == 2) {
        double r = 0, k = 0, m = 0; H3Index h = pH(a[1]);
        H3Error e = H3_EXPORT(edgeLengthRads)(h, &r);
        if (e) { outErr(e); return 1; }
        H3Error e2 = H3_EXPORT(edgeLengthKm)(h, &k), e3 = H3_EXPORT(edgeLengthM)(h, &m);
        if (e2 || e3) { printf("err %d\n", (int)(e2 ? e2 : e3)); return 1; }
        printf("ok "); outD(r); printf(" "); outD(k); printf(" "); outD(m); printf("\n");
        return 1;
    }
    if (isop(op, "v2ll") && n == 2) {
        LatLng g; H3Error e = H3_EXPORT(vertexToLatLng)(pH(a[1]), &g);
        if (e) outErr(e); else { printf("ok "); outLL(&g); printf("\n"); }
        return 1;
    }
    if (isop(op, "facecenters") && n == 1) {
        printf("ok %d", NUM_ICOSA_FACES);
        for (int f = 0; f < NUM_ICOSA_FACES; f++) { printf(" "); outLL(&faceCenterGeo[f]); }
        printf("\n");
        return 1;
    }
    if (isop(op, "pentagons") && n == 2) {
        H3Index *out = xbuf(12, sizeof(H3Index));
        H3Error e = H3_EXPORT(getPentagons)((int)pI(a[1]), out);
        if (e) outErr(e); else { printf("ok "); outHs(out, 12); printf("\n"); }
        free(out);
        return 1;
    }
    if (isop(op, "res0") && n == 1) {
        H3Index *out = xbuf(122, sizeof(H3Index));
        H3Error e = H3_EXPORT(getRes0Cells)(out);
        if (e) outErr(e); else { printf("ok "); outHs(out, 122); printf("\n"); }
        free(out);
        return 1;
    }
    if (isop(op, "counts") && n == 1) { printf("ok %d %d\n", H3_EXPORT(res0CellCount)(), H3_EXPORT(pentagonCount)()); return 1; }
    if (isop(op, "countall") && n == 2) {
        // iterate all cells of a resolution with the library's own iterator: count, #pentagons,
        // strictly increasing?, all valid?, xor of indexes
        int res = (int)pI(a[1]); int64_t cnt = 0, pent = 0; int sorted = 1, valid = 1; H3Index prev = 0, x = 0;
        for (IterCellsResolution it = iterInitRes(res); it.h; iterStepRes(&it)) {
            cnt++; if (H3_EXPORT(isPentagon)(it.h)) pent++;
            if (it.h <= prev) sorted = 0;
            if (!H3_EXPORT(isValidCell)(it.h) || H3_GET_RESOLUTION(it.h) != res) valid = 0;
            prev = it.h; x ^= it.h;
        }
        printf("ok %" PRId64 " %" PRId64 " %d %d %" PRIx64 "\n", cnt, pent, sorted, valid, x);
        return 1;
    }
    if (isop(op, "hex2d") && n == 3) {
        Vec2d v = {pD(a[1]), pD(a[2])}; CoordIJK c;
        _hex2dToCoordIJK(&v, &c);
        printf("ok %d %d %d\n", c.i, c.j, c.k);
        return 1;
    }
    if (isop(op, "geo2fijk") && n == 4) {
        LatLng g = {pD(a[1]), pD(a[2])}; FaceIJK f;
        _geoToFaceIjk(&g, (int)pI(a[3]), &f);
        printf("ok %d %d %d %d\n", f.face, f.coord.i, f.coord.j, f.coord.k);
        return 1;
    }
    if (isop(op, "polyflags") && n == 2) { H3Error e = validatePolygonFlags((uint32_t)pI(a[1])); if (e) outErr(e); else printf("ok\n"); return 1; }
    if ((isop(op, "polyfill") || isop(op, "polyfillx") || isop(op, "maxpolyfill") || isop(op, "maxpolyfillx")) && n >= 4) {
        // polyfill res flags <polygon> ; polyfillx res flags capdelta <polygon>
        int res = (int)pI(a[1]); uint32_t flags = (uint32_t)pI(a[2]);
        int at = 3; long long capdelta = 0;
        if (isop(op, "polyfillx")) { capdelta = pI(a[3]); at = 4; }
        GeoPolygon p;
        if (parsePolygon(n, a, at, &p) < 0) return 0;
        int legacy = isop(op, "polyfill") || isop(op, "maxpolyfill");
        int64_t sz = 0;
        H3Error e = legacy ? H3_EXPORT(maxPolygonToCellsSize)(&p, res, flags, &sz)
                           : H3_EXPORT(maxPolygonToCellsSizeExperimental)(&p, res, flags, &sz);
        if (e) { outErr(e); freePolygon(&p); return 1; }
        if (isop(op, "maxpolyfill") || isop(op, "maxpolyfillx")) { printf("ok %" PRId64 "\n", sz); freePolygon(&p); return 1; }
        if (sz > 20000000) { printf("skip-too-large %" PRId64 "\n", sz); freePolygon(&p); return 1; }
        int64_t cap = sz;
        if (!legacy && capdelta != 0) cap = capdelta < 0 ? 0 : capdelta;   // explicit capacity
        H3Index *out = xbuf((size_t)cap, sizeof(H3Index));
        e = legacy ? H3_EXPORT(polygonToCells)(&p, res, flags, out)
                   : H3_EXPORT(polygonToCellsExperimental)(&p, res, flags, cap, out);
        if (e) outErr(e); else { printf("ok %" PRId64 " ", sz); outHsSorted(out, cap); printf("\n"); }
        free(out); freePolygon(&p);
        return 1;
    }
    if ((isop(op, "polytable") || isop(op, "polycompact")) && n >= 5) {
        // polytable res flags <polygon> ; polycompact res flags <polygon>
        void verif_polytable(const GeoPolygon *polygon, int res);
        void verif_polycompact(const GeoPolygon *polygon, int res, uint32_t flags);
        int res = (int)pI(a[1]); uint32_t flags = (uint32_t)pI(a[2]);
        GeoPolygon p;
        if (parsePolygon(n, a, 3, &p) < 0 || p.geoloop.numVerts == 0 || res < 0 || res > 15) return 0;
        if (isop(op, "polytable")) verif_polytable(&p, res); else verif_polycompact(&p, res, flags);
        freePolygon(&p);
        return 1;
    }
    if (isop(op, "polyprims") && n >= 4) {
        // polyprims <cell> <polygon>
        H3Error verif_polyprims(const GeoPolygon *polygon, H3Index cell, int out[8]);
        GeoPolygon p;
        if (parsePolygon(n, a, 2, &p) < 0 || p.geoloop.numVerts == 0) return 0;
        int pr[8]; H3Error e = verif_polyprims(&p, pH(a[1]), pr);
        if (e) outErr(e); else printf("ok %d %d %d %d %d %d %d %d\n", pr[0], pr[1], pr[2], pr[3], pr[4], pr[5], pr[6], pr[7]);
        freePolygon(&p);
        return 1;
    }
    if (isop(op, "multipoly") && n >= 2) {
        int64_t cnt = pI(a[1]);
        if (2 + cnt != n) return 0;
        H3Index *cells = xbuf((size_t)cnt, sizeof(H3Index));
        for (int64_t i = 0; i < cnt; i++) cells[i] = pH(a[2 + i]);
        LinkedGeoPolygon poly;
        verif_alloc_reset();
        H3Error e = H3_EXPORT(cellsToLinkedMultiPolygon)(cells, (int)cnt, &poly);
        if (e) { printf("err %d live=%ld\n", (int)e, verif_alloc_live); free(cells); return 1; }
        // ok <npolys> then per polygon: <nloops> then per loop: <nverts> lat lng ...
        int np = 0; for (LinkedGeoPolygon *q = &poly; q; q = q->next) np++;
        if (poly.first == NULL && poly.next == NULL) np = 0;
        printf("ok %d", np);
        if (np) for (LinkedGeoPolygon *q = &poly; q; q = q->next) {
            int nl = 0; for (LinkedGeoLoop *l = q->first; l; l = l->next) nl++;
            printf(" %d", nl);
            for (LinkedGeoLoop *l = q->first; l; l = l->next) {
                int nv = 0; for (LinkedLatLng *v = l->first; v; v = v->next) nv++;
                printf(" %d", nv);
                for (LinkedLatLng *v = l->first; v; v = v->next) { printf(" "); outLL(&v->vertex); }
            }
        }
        H3_EXPORT(destroyLinkedMultiPolygon)(&poly);
        printf(" live=%ld badfree=%ld\n", verif_alloc_live, verif_alloc_bad_free);
        free(cells);
        return 1;
    }
    if (isop(op, "avgs") && n == 2) {
        int r = (int)pI(a[1]); double v[4] = {0}; H3Error e[4];
        e[0] = H3_EXPORT(getHexagonAreaAvgKm2)(r, &v[0]); e[1] = H3_EXPORT(getHexagonAreaAvgM2)(r, &v[1]);
        e[2] = H3_EXPORT(getHexagonEdgeLengthAvgKm)(r, &v[2]); e[3] = H3_EXPORT(getHexagonEdgeLengthAvgM)(r, &v[3]);
        printf("ok");
        for (int i = 0; i < 4; i++) { if (e[i]) printf(" e%d", (int)e[i]); else { printf(" "); outD(v[i]); } }
        printf("\n");
        return 1;
    }
    if (isop(op, "misc") && n == 2) {
        H3Index h = pH(a[1]);
        printf("ok %d %d %d %d %d %d %d\n", H3_EXPORT(getResolution)(h), H3_EXPORT(getBaseCellNumber)(h),
               H3_EXPORT(isResClassIII)(h), H3_EXPORT(isPentagon)(h), H3_EXPORT(isValidCell)(h),
               H3_EXPORT(isValidDirectedEdge)(h), H3_EXPORT(isValidVertex)(h));
        return 1;
    }
    if (isop(op, "gcd") && n == 5) {
        LatLng p = {pD(a[1]), pD(a[2])}, q = {pD(a[3]), pD(a[4])};
        double r = H3_EXPORT(greatCircleDistanceRads)(&p, &q), km = H3_EXPORT(greatCircleDistanceKm)(&p, &q),
               m = H3_EXPORT(greatCircleDistanceM)(&p, &q);
        printf("ok "); outD(r); printf(" "); outD(km); printf(" "); outD(m); printf(" ");
        outD(H3_EXPORT(degsToRads)(p.lat)); printf(" "); outD(H3_EXPORT(radsToDegs)(p.lng)); printf("\n");
        return 1;
    }
    if (isop(op, "disksunsafe") && n >= 3) {
        // disksunsafe k n cells...
        int k = (int)pI(a[1]); int64_t cnt = pI(a[2]);
        if (3 + cnt != n) return 0;
        int64_t seg = 0; H3Error e = H3_EXPORT(maxGridDiskSize)(k, &seg);
        if (e) { outErr(e); return 1; }
        H3Index *cells = xbuf((size_t)cnt, sizeof(H3Index));
        for (int64_t i = 0; i < cnt; i++) cells[i] = pH(a[3 + i]);
        H3Index *out = xbuf((size_t)(seg * cnt), sizeof(H3Index));
        e = H3_EXPORT(gridDisksUnsafe)(cells, (int)cnt, k, out);
        if (e) outErr(e); else { printf("ok "); outHs(out, seg * cnt); printf("\n"); }
        free(out); free(cells);
        return 1;
    }
    if (isop(op, "describe") && n == 2) { printf("ok %s\n", H3_EXPORT(describeH3Error)((H3Error)pI(a[1]))); return 1; }
    return 0;
}
