// wrapper TU: replaces baseCells.c; reaches static faceIjkBaseCells
#include "baseCells.c"
#include "verif_dump.h"
void verif_dump_baseCells(FILE *f) {
    VD_2D(f, "baseCellNeighbors", baseCellNeighbors, NUM_BASE_CELLS, 7);
    VD_2D(f, "baseCellNeighbor60CCWRots", baseCellNeighbor60CCWRots, NUM_BASE_CELLS, 7);
    // baseCellData rows: face i j k isPentagon cw0 cw1
    fprintf(f, "def baseCellData : List (List Int) := [\n");
    for (int b = 0; b < NUM_BASE_CELLS; b++) {
        const BaseCellData *d = &baseCellData[b];
        fprintf(f, "  [%d, %d, %d, %d, %d, ", d->homeFijk.face, d->homeFijk.coord.i,
                d->homeFijk.coord.j, d->homeFijk.coord.k, d->isPentagon);
        vd_int(f, d->cwOffsetPent[0]); fprintf(f, ", ");
        vd_int(f, d->cwOffsetPent[1]);
        fprintf(f, "]%s\n", b + 1 < NUM_BASE_CELLS ? "," : "");
    }
    fprintf(f, "]\n\n");
    // faceIjkBaseCells flattened: index ((face*3+i)*3+j)*3+k -> [baseCell, ccwRot60]
    fprintf(f, "def faceIjkBaseCells : List (List Int) := [\n");
    for (int fa = 0; fa < NUM_ICOSA_FACES; fa++)
        for (int i = 0; i < 3; i++)
            for (int j = 0; j < 3; j++)
                for (int k = 0; k < 3; k++) {
                    const BaseCellRotation *r = &faceIjkBaseCells[fa][i][j][k];
                    int last = (fa == NUM_ICOSA_FACES - 1 && i == 2 && j == 2 && k == 2);
                    fprintf(f, "  [%d, %d]%s\n", r->baseCell, r->ccwRot60, last ? "" : ",");
                }
    fprintf(f, "]\n\n");
}
