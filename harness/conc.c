// C18 supporting run: N threads execute seeded mixed workloads (indexing, traversal, hierarchy,
// compaction, both polyfills, multipolygon) on caller-owned buffers; every thread's result hash must
// equal the hash of the same workload executed sequentially.  Built with -fsanitize=thread.
#include <pthread.h>
#include <stdio.h>
#include <stdlib.h>
#include <string.h>
#include <stdint.h>
#include <math.h>
#include "h3api.h"

typedef struct { uint64_t s; } Rng;
static uint64_t rnd(Rng *r) { r->s ^= r->s << 13; r->s ^= r->s >> 7; r->s ^= r->s << 17; return r->s; }
static double rndf(Rng *r) { return (double)(rnd(r) >> 11) / 9007199254740992.0; }
static uint64_t fnv(uint64_t h, const void *p, size_t n) {
    const unsigned char *b = p;
    for (size_t i = 0; i < n; i++) { h ^= b[i]; h *= 1099511628211ULL; }
    return h;
}

static uint64_t workload(uint64_t seed, int iters) {
    Rng r = {seed * 2654435761ULL + 88172645463325252ULL};
    uint64_t h = 1469598103934665603ULL;
    for (int it = 0; it < iters; it++) {
        LatLng g = {(rndf(&r) - 0.5) * 3.0, (rndf(&r) - 0.5) * 6.2};
        int res = (int)(rnd(&r) % 10);
        H3Index c = 0;
        H3Error e = latLngToCell(&g, res, &c);
        h = fnv(h, &e, sizeof e); h = fnv(h, &c, sizeof c);
        if (e) continue;
        switch (rnd(&r) % 11) {
            case 0: {   // traversal
                int k = (int)(rnd(&r) % 4); int64_t sz; maxGridDiskSize(k, &sz);
                H3Index *out = calloc(sz, sizeof(H3Index)); int *d = calloc(sz, sizeof(int));
                e = gridDiskDistances(c, k, out, d);
                h = fnv(h, &e, sizeof e); h = fnv(h, out, sz * sizeof(H3Index)); h = fnv(h, d, sz * sizeof(int));
                free(out); free(d); break;
            }
            case 1: {   // hierarchy
                int cr = res + (int)(rnd(&r) % 3); if (cr > 15) cr = 15;
                int64_t sz; cellToChildrenSize(c, cr, &sz);
                H3Index *out = calloc(sz, sizeof(H3Index));
                e = cellToChildren(c, cr, out);
                h = fnv(h, out, sz * sizeof(H3Index));
                H3Index p; e = cellToParent(c, res > 0 ? res - 1 : 0, &p); h = fnv(h, &p, sizeof p);
                int64_t pos; e = cellToChildPos(c, 0, &pos); h = fnv(h, &pos, sizeof pos);
                free(out); break;
            }
            case 2: {   // compaction round trip
                int cr = res + 2; if (cr > 15) cr = 15;
                int64_t sz; cellToChildrenSize(c, cr, &sz);
                H3Index *kids = calloc(sz, sizeof(H3Index)), *comp = calloc(sz, sizeof(H3Index));
                cellToChildren(c, cr, kids);
                e = compactCells(kids, comp, sz);
                h = fnv(h, &e, sizeof e); h = fnv(h, comp, sz * sizeof(H3Index));
                free(kids); free(comp); break;
            }
            case 3: case 4: {   // polyfills
                double rad = 0.002 + rndf(&r) * 0.02;
                LatLng v[5];
                for (int i = 0; i < 5; i++) { v[i].lat = g.lat + rad * sin(1.2566 * i); v[i].lng = g.lng + rad * cos(1.2566 * i); }
                GeoPolygon p = {{5, v}, 0, NULL};
                int pr = 3 + (int)(rnd(&r) % 4); uint32_t flags = (uint32_t)(rnd(&r) % 4);
                int64_t sz = 0;
                if (rnd(&r) & 1) {
                    e = maxPolygonToCellsSizeExperimental(&p, pr, flags, &sz);
                    h = fnv(h, &sz, sizeof sz);
                    if (!e && sz < 200000) { H3Index *out = calloc(sz ? sz : 1, sizeof(H3Index)); e = polygonToCellsExperimental(&p, pr, flags, sz, out);
                        h = fnv(h, &e, sizeof e); h = fnv(h, out, sz * sizeof(H3Index)); free(out); }
                } else {
                    e = maxPolygonToCellsSize(&p, pr, 0, &sz);
                    h = fnv(h, &sz, sizeof sz);
                    if (!e && sz < 200000) { H3Index *out = calloc(sz ? sz : 1, sizeof(H3Index)); e = polygonToCells(&p, pr, 0, out);
                        h = fnv(h, &e, sizeof e); h = fnv(h, out, sz * sizeof(H3Index)); free(out); }
                }
                break;
            }
            case 5: case 9: {   // multipolygon: filled disk, annulus (one hole), disk with random cells removed (holes, islands)
                int shape = (int)(rnd(&r) % 3);
                int kk = shape == 0 ? 2 : 3 + (int)(rnd(&r) % 2);
                int64_t sz; maxGridDiskSize(kk, &sz);
                H3Index *out = calloc(sz, sizeof(H3Index)); int *dd = calloc(sz, sizeof(int));
                if (!gridDiskDistances(c, kk, out, dd)) {
                    int n = 0;
                    for (int64_t i = 0; i < sz; i++) {
                        if (!out[i]) continue;
                        if (shape == 1 && dd[i] < 2) continue;              // annulus
                        if (shape == 2 && dd[i] > 0 && dd[i] < kk && (rnd(&r) % 4) == 0) continue;   // punched
                        out[n++] = out[i];
                    }
                    LinkedGeoPolygon poly;
                    e = cellsToLinkedMultiPolygon(out, n, &poly);
                    h = fnv(h, &e, sizeof e);
                    if (!e) {
                        for (LinkedGeoPolygon *q = &poly; q; q = q->next)
                            for (LinkedGeoLoop *l = q->first; l; l = l->next)
                                for (LinkedLatLng *x = l->first; x; x = x->next) h = fnv(h, &x->vertex, sizeof(LatLng));
                        destroyLinkedMultiPolygon(&poly);
                    }
                }
                free(out); free(dd); break;
            }
            case 10: {  // the rest of the API surface
                H3Index kids[7] = {0}; int cr = res < 15 ? res + 1 : 15; int64_t ksz = 0; cellToChildrenSize(c, cr, &ksz);
                if (ksz <= 7) cellToChildren(c, cr, kids);
                int64_t usz = 0; e = uncompactCellsSize(&c, 1, cr, &usz); h = fnv(h, &usz, sizeof usz);
                H3Index un[7] = {0}; if (!e && usz <= 7) { e = uncompactCells(&c, 1, un, usz, cr); h = fnv(h, un, sizeof un); }
                H3Index cc; e = childPosToCell(0, c, cr, &cc); h = fnv(h, &cc, sizeof cc);
                H3Index ring[6] = {0}; e = gridRingUnsafe(c, 1, ring); h = fnv(h, &e, sizeof e); if (!e) h = fnv(h, ring, sizeof ring);
                H3Index nb[7] = {0}; gridDisk(c, 1, nb);
                H3Index o = nb[1 + rnd(&r) % 6]; if (!o) o = nb[0];
                H3Index edge = 0; e = cellsToDirectedEdge(c, o, &edge); h = fnv(h, &edge, sizeof edge);
                if (!e) { CellBoundary eb; directedEdgeToBoundary(edge, &eb); h = fnv(h, eb.verts, eb.numVerts * sizeof(LatLng));
                          int v = isValidDirectedEdge(edge); h = fnv(h, &v, sizeof v); }
                int64_t psz = 0; e = gridPathCellsSize(c, o, &psz);
                if (!e && psz <= 4) { H3Index path[4] = {0}; e = gridPathCells(c, o, path); h = fnv(h, path, sizeof path); }
                H3Index vx = 0; e = cellToVertex(c, (int)(rnd(&r) % 5), &vx); h = fnv(h, &vx, sizeof vx);
                if (!e) { LatLng vl; vertexToLatLng(vx, &vl); h = fnv(h, &vl, sizeof vl); int v = isValidVertex(vx); h = fnv(h, &v, sizeof v); }
                CoordIJ ij = {(int)(rnd(&r) % 5) - 2, (int)(rnd(&r) % 5) - 2}; H3Index lc = 0;
                e = localIjToCell(c, &ij, 0, &lc); h = fnv(h, &e, sizeof e); h = fnv(h, &lc, sizeof lc);
                char buf[17]; h3ToString(c, buf, sizeof buf); H3Index back = 0; stringToH3(buf, &back); h = fnv(h, &back, sizeof back);
                int v = isValidCell(c) + isPentagon(c) + isResClassIII(c); h = fnv(h, &v, sizeof v);
                H3Index pents[12]; getPentagons(res, pents); h = fnv(h, pents, sizeof pents);
                int64_t nc; getNumCells(res, &nc); h = fnv(h, &nc, sizeof nc);
                double ar, el; getHexagonAreaAvgKm2(res, &ar); getHexagonEdgeLengthAvgM(res, &el); h = fnv(h, &ar, sizeof ar); h = fnv(h, &el, sizeof el);
                LatLng g2 = {g.lat * 0.5, g.lng * 0.5}; double gd = greatCircleDistanceKm(&g, &g2); h = fnv(h, &gd, sizeof gd);
                break;
            }
            case 6: {   // geometry
                CellBoundary cb; e = cellToBoundary(c, &cb); h = fnv(h, &cb.numVerts, sizeof(int));
                h = fnv(h, cb.verts, cb.numVerts * sizeof(LatLng));
                double a; e = cellAreaKm2(c, &a); h = fnv(h, &a, sizeof a);
                LatLng ctr; cellToLatLng(c, &ctr); h = fnv(h, &ctr, sizeof ctr);
                break;
            }
            case 7: {   // edges, vertexes, faces
                H3Index ed[6], vs[6]; originToDirectedEdges(c, ed); cellToVertexes(c, vs);
                h = fnv(h, ed, sizeof ed); h = fnv(h, vs, sizeof vs);
                int fc; maxFaceCount(c, &fc); int faces[5] = {0}; getIcosahedronFaces(c, faces); h = fnv(h, faces, fc * sizeof(int));
                for (int i = 0; i < 6; i++) if (ed[i]) { double len; edgeLengthRads(ed[i], &len); h = fnv(h, &len, sizeof len); }
                const char *d = describeH3Error((H3Error)(rnd(&r) % 17)); h = fnv(h, d, strlen(d));
                break;
            }
            default: {  // distance, path, local ij
                H3Index nb[7] = {0}; gridDisk(c, 1, nb);
                H3Index o = nb[rnd(&r) % 7]; if (!o) o = c;
                int64_t dist = -1; e = gridDistance(c, o, &dist); h = fnv(h, &dist, sizeof dist);
                CoordIJ ij; e = cellToLocalIj(c, o, 0, &ij); h = fnv(h, &e, sizeof e); if (!e) h = fnv(h, &ij, sizeof ij);
                char buf[17]; h3ToString(c, buf, sizeof buf); h = fnv(h, buf, strlen(buf));
            }
        }
    }
    return h;
}

typedef struct { uint64_t seed; int iters; uint64_t result; } Job;
static void *runner(void *p) { Job *j = p; j->result = workload(j->seed, j->iters); return NULL; }

int main(int argc, char **argv) {
    int nt = argc > 1 ? atoi(argv[1]) : 4;
    uint64_t seed = argc > 2 ? strtoull(argv[2], NULL, 10) : 1;
    int iters = argc > 3 ? atoi(argv[3]) : 200;
    if (nt > 64) nt = 64;
    // mode: "both" (sequential reference first, then the threads, in one process), "par" (threads only: the
    // process's very first library calls are concurrent, so lazily initialised state is first touched by several
    // threads at once), "seq" (sequential only); "par" and "seq" print the per-job hashes for comparison across
    // processes
    const char *mode = argc > 4 ? argv[4] : "both";
    Job seq[64], par[64]; pthread_t th[64];
    int doseq = strcmp(mode, "par") != 0, dopar = strcmp(mode, "seq") != 0;
    if (doseq) for (int t = 0; t < nt; t++) { seq[t].seed = seed * 1000 + t; seq[t].iters = iters; seq[t].result = workload(seq[t].seed, iters); }
    if (dopar) {
        for (int t = 0; t < nt; t++) { par[t].seed = seed * 1000 + t; par[t].iters = iters; pthread_create(&th[t], NULL, runner, &par[t]); }
        for (int t = 0; t < nt; t++) pthread_join(th[t], NULL);
    }
    int bad = 0;
    if (doseq && dopar) {
        for (int t = 0; t < nt; t++) if (seq[t].result != par[t].result) { printf("mismatch thread=%d seed=%llu\n", t, (unsigned long long)par[t].seed); bad = 1; }
        if (!bad) printf("ok threads=%d iters=%d\n", nt, iters);
    } else {
        printf("hashes");
        for (int t = 0; t < nt; t++) printf(" %016llx", (unsigned long long)(doseq ? seq[t].result : par[t].result));
        printf("\n");
    }
    return bad;
}
