// ops: bit fields, validity, strings, hierarchy
#include <stdio.h>
#include <stdlib.h>
#include <string.h>
#include "h3api.h"
#include "h3Index.h"
#include "iterators.h"
#include "drv_util.h"
H3Index makeDirectChild(H3Index h, int cellNumber);  // h3Index.c, not declared in a header

int verif_hasGoodTopBits(H3Index h);
int verif_hasAny7UptoRes(H3Index h, int res);
int verif_hasAll7AfterRes(H3Index h, int res);
int verif_hasDeletedSubsequence(H3Index h, int bc);

static int hexv(char c) { return c <= '9' ? c - '0' : (c | 32) - 'a' + 10; }

int ops_core(int n, char **a) {
    const char *op = a[0];
    if (isop(op, "valid") && n == 2) { printf("ok %d\n", H3_EXPORT(isValidCell)(pH(a[1]))); return 1; }
    if (isop(op, "vparts") && n == 2) {
        H3Index h = pH(a[1]);
        int res = H3_GET_RESOLUTION(h), bc = H3_GET_BASE_CELL(h);
        printf("ok %d %d %d %d\n", verif_hasGoodTopBits(h), verif_hasAny7UptoRes(h, res),
               verif_hasAll7AfterRes(h, res), verif_hasDeletedSubsequence(h, bc));
        return 1;
    }
    if (isop(op, "mac") && n == 5) {
        H3Index h = pH(a[1]); int r = (int)pI(a[2]), d = (int)pI(a[3]), v = (int)pI(a[4]);
        H3Index s1 = h, s2 = h, s3 = h, s4 = h, s5 = h, s6 = h;
        H3_SET_HIGH_BIT(s1, v % 2); H3_SET_MODE(s2, v % 16); H3_SET_RESERVED_BITS(s3, v % 8);
        H3_SET_RESOLUTION(s4, v % 16); H3_SET_BASE_CELL(s5, v % 128); H3_SET_INDEX_DIGIT(s6, r, d);
        printf("ok %d %d %d %d %d %d %" PRIx64 " %" PRIx64 " %" PRIx64 " %" PRIx64 " %" PRIx64 " %" PRIx64 "\n",
               H3_GET_HIGH_BIT(h), H3_GET_MODE(h), H3_GET_RESERVED_BITS(h), H3_GET_RESOLUTION(h),
               H3_GET_BASE_CELL(h), (int)H3_GET_INDEX_DIGIT(h, r), s1, s2, s3, s4, s5, s6);
        return 1;
    }
    if (isop(op, "zero") && n == 4) {
        printf("ok %" PRIx64 "\n", _zeroIndexDigits(pH(a[1]), (int)pI(a[2]), (int)pI(a[3])));
        return 1;
    }
    if (isop(op, "tostr") && n == 3) {
        H3Index h = pH(a[1]); size_t sz = (size_t)pI(a[2]);
        // exact-size buffer pre-filled with 0xA5; on error it must be untouched
        unsigned char *buf = malloc(sz ? sz : 1);
        memset(buf, 0xA5, sz ? sz : 1);
        H3Error e = H3_EXPORT(h3ToString)(h, (char *)buf, sz);
        if (e) {
            int touched = 0;
            for (size_t i = 0; i < sz; i++) if (buf[i] != 0xA5) touched = 1;
            if (touched) printf("err %d touched\n", (int)e); else outErr(e);
        } else {
            size_t len = strlen((char *)buf);
            printf("ok ");
            for (size_t i = 0; i <= len; i++) printf("%02x", buf[i]);
            // everything after the terminator must be untouched
            for (size_t i = len + 1; i < sz; i++) if (buf[i] != 0xA5) { printf(" touched-tail"); break; }
            printf("\n");
        }
        free(buf);
        return 1;
    }
    if (isop(op, "fromstr") && n == 2) {
        size_t len = isop(a[1], "-") ? 0 : strlen(a[1]) / 2;
        char *s = malloc(len + 1);  // exact size: ASan catches over-reads
        for (size_t i = 0; i < len; i++) s[i] = (char)(hexv(a[1][2 * i]) * 16 + hexv(a[1][2 * i + 1]));
        s[len] = 0;
        H3Index out = 0x5a5a5a5a5a5a5a5aULL;
        H3Error e = H3_EXPORT(stringToH3)(s, &out);
        if (e) { if (out != 0x5a5a5a5a5a5a5a5aULL) printf("err %d wrote-result\n", (int)e); else outErr(e); }
        else printf("ok %" PRIx64 "\n", out);
        free(s);
        return 1;
    }
    if (isop(op, "genfn") && n == 2) {
        // the loop functions that c2lean translates by unrolling
        H3Index h = pH(a[1]);
        printf("ok %d %" PRIx64 " %" PRIx64 "\n", (int)_h3LeadingNonZeroDigit(h), _h3Rotate60ccw(h), _h3Rotate60cw(h));
        return 1;
    }
    if (isop(op, "genfn2") && n == 4) {
        // the functions c2lean translates with out parameters: return code and the out value (preset by the caller,
        // so "untouched on error" is compared too); `-` where the C call would be undefined (shift by a negative
        // amount), exactly where the translation's definedness companion says so
        H3Index h = pH(a[1]); int r = (int)pI(a[2]); H3Index o = pH(a[3]);
        H3Index o1 = o, o2 = o; int64_t o3 = (int64_t)o;
        H3Error e1 = H3_EXPORT(cellToParent)(h, r, &o1);
        H3Error e2 = H3_EXPORT(cellToCenterChild)(h, r, &o2);
        H3Error e3 = H3_EXPORT(cellToChildrenSize)(h, r, &o3);
        printf("ok %d %" PRIx64 " %d %" PRIx64 " %d %" PRIx64 " %d %" PRIx64 " %" PRIx64, (int)e1, o1, (int)e2, o2, (int)e3,
               (uint64_t)o3, H3_EXPORT(isPentagon)(h), _h3RotatePent60ccw(h), _h3RotatePent60cw(h));
        if (H3_GET_RESOLUTION(h) < 15) printf(" %" PRIx64, makeDirectChild(h, r)); else printf(" -");
        if (r <= 15) {
            H3Index o4 = o; setH3Index(&o4, r, H3_GET_BASE_CELL(h), (Direction)H3_GET_INDEX_DIGIT(h, 1));
            printf(" %" PRIx64, o4);
        } else printf(" -");
        printf(" 111111\n");
        return 1;
    }
    if (isop(op, "genfn3") && n == 4) {
        H3Index h = pH(a[1]); H3Index o = pH(a[2]);
        H3Index o1 = o; int o2 = (int)(uint32_t)o;
        H3Error e1 = H3_EXPORT(getDirectedEdgeOrigin)(h, &o1);
        H3Error e2 = H3_EXPORT(maxFaceCount)(h, &o2);
        printf("ok %d %d %" PRIx64 " %d %u 111\n", H3_EXPORT(isValidDirectedEdge)(h), (int)e1, o1, (int)e2, (unsigned)o2);
        return 1;
    }
    if (isop(op, "genfn4") && n == 6) {
        int verif_validateChildPos(int64_t p, H3Index parent, int r);
        int64_t pos = (int64_t)pI(a[1]); H3Index parent = pH(a[2]); int r = (int)pI(a[3]); int k = (int)pI(a[4]);
        H3Index o = pH(a[5]);
        int64_t o1 = (int64_t)o, o2 = (int64_t)o;
        H3Error e1 = H3_EXPORT(getNumCells)(r, &o1);
        H3Error e2 = H3_EXPORT(maxGridDiskSize)(k, &o2);
        // validateChildPos asserts (NEVER) that the child resolution is one the parent has
        if (r >= H3_GET_RESOLUTION(parent) && r <= 15) printf("ok %d", verif_validateChildPos(pos, parent, r)); else printf("ok -");
        printf(" %d %" PRIx64 " %d %" PRIx64 " 11\n", (int)e1, (uint64_t)o1, (int)e2, (uint64_t)o2);
        return 1;
    }
    if (isop(op, "genfn5") && n == 6) {
        H3Index h = pH(a[1]); int r = (int)pI(a[2]); int64_t o = (int64_t)pH(a[3]);
        H3Error e = H3_EXPORT(cellToChildPos)(h, r, &o);
        printf("ok %d %" PRIx64 "\n", (int)e, (uint64_t)o);
        return 1;
    }
    if (isop(op, "genfn6") && n == 2) {
        H3Index h = pH(a[1]);
        printf("ok %d %d %d %d %d\n", H3_EXPORT(getResolution)(h), H3_EXPORT(getBaseCellNumber)(h), H3_EXPORT(isResClassIII)(h),
               H3_EXPORT(pentagonCount)(), H3_EXPORT(res0CellCount)());
        return 1;
    }
    if (isop(op, "ispent") && n == 2) { printf("ok %d\n", H3_EXPORT(isPentagon)(pH(a[1]))); return 1; }
    if (isop(op, "parent") && n == 3) {
        H3Index out = 0; H3Error e = H3_EXPORT(cellToParent)(pH(a[1]), (int)pI(a[2]), &out);
        if (e) outErr(e); else printf("ok %" PRIx64 "\n", out);
        return 1;
    }
    if (isop(op, "csize") && n == 3) {
        int64_t out = 0; H3Error e = H3_EXPORT(cellToChildrenSize)(pH(a[1]), (int)pI(a[2]), &out);
        if (e) outErr(e); else printf("ok %" PRId64 "\n", out);
        return 1;
    }
    if (isop(op, "center") && n == 3) {
        H3Index out = 0; H3Error e = H3_EXPORT(cellToCenterChild)(pH(a[1]), (int)pI(a[2]), &out);
        if (e) outErr(e); else printf("ok %" PRIx64 "\n", out);
        return 1;
    }
    if ((isop(op, "children") || isop(op, "childrenS")) && n == 3) {
        H3Index h = pH(a[1]); int r = (int)pI(a[2]);
        int64_t sz = 0; H3Error e = H3_EXPORT(cellToChildrenSize)(h, r, &sz);
        if (e) { outErr(e); return 1; }
        H3Index *buf = xbuf((size_t)sz, sizeof(H3Index));  // exactly the announced size
        e = H3_EXPORT(cellToChildren)(h, r, buf);
        if (e) outErr(e);
        else {
            // count written (non-zero) prefix; zeros inside would be reported as entries
            int64_t m = sz; while (m > 0 && buf[m - 1] == 0) m--;
            printf("ok "); outHs(buf, m); printf("\n");
        }
        free(buf);
        return 1;
    }
    if (isop(op, "iterhead") && n == 4) {
        // the first n cells of the child iterator (any depth; cellToChildren runs exactly this loop)
        H3Index h = pH(a[1]); int r = (int)pI(a[2]); int64_t lim = (int64_t)pI(a[3]);
        if (lim < 0) lim = 0;
        if (lim > 100000) lim = 100000;
        H3Index *buf = xbuf((size_t)lim, sizeof(H3Index));
        int64_t m = 0;
        for (IterCellsChildren it = iterInitParent(h, r); it.h && m < lim; iterStepChild(&it)) buf[m++] = it.h;
        printf("ok "); outHs(buf, m); printf("\n");
        free(buf);
        return 1;
    }
    if ((isop(op, "cpos") || isop(op, "cposS")) && n == 3) {
        int64_t out = 0; H3Error e = H3_EXPORT(cellToChildPos)(pH(a[1]), (int)pI(a[2]), &out);
        if (e) outErr(e); else printf("ok %" PRId64 "\n", out);
        return 1;
    }
    if ((isop(op, "pos2cell") || isop(op, "pos2cellS")) && n == 4) {
        H3Index out = 0; H3Error e = H3_EXPORT(childPosToCell)((int64_t)pI(a[1]), pH(a[2]), (int)pI(a[3]), &out);
        if (e) outErr(e); else printf("ok %" PRIx64 "\n", out);
        return 1;
    }
    return 0;
}
