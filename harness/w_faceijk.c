// wrapper TU: replaces faceijk.c; reaches its static tables
#include "faceijk.c"
#include "verif_dump.h"
void verif_dump_faceijk(FILE *f) {
    // faceNeighbors flattened: index face*4+q -> [face, ti, tj, tk, ccwRot60]
    fprintf(f, "def faceNeighbors : List (List Int) := [\n");
    for (int fa = 0; fa < NUM_ICOSA_FACES; fa++)
        for (int q = 0; q < 4; q++) {
            const FaceOrientIJK *o = &faceNeighbors[fa][q];
            int last = (fa == NUM_ICOSA_FACES - 1 && q == 3);
            fprintf(f, "  [%d, %d, %d, %d, %d]%s\n", o->face, o->translate.i,
                    o->translate.j, o->translate.k, o->ccwRot60, last ? "" : ",");
        }
    fprintf(f, "]\n\n");
    VD_2D(f, "adjacentFaceDir", adjacentFaceDir, NUM_ICOSA_FACES, NUM_ICOSA_FACES);
    VD_1D(f, "maxDimByCIIres", maxDimByCIIres, 17);
    VD_1D(f, "unitScaleByCIIres", unitScaleByCIIres, 17);
    fprintf(f, "/-- float tables as IEEE-754 bit patterns (pinned only) -/\n");
    fprintf(f, "def faceCenterGeoBits : List (List Nat) := [\n");
    for (int fa = 0; fa < NUM_ICOSA_FACES; fa++) {
        fprintf(f, "  ["); vd_dbl(f, faceCenterGeo[fa].lat); fprintf(f, ", ");
        vd_dbl(f, faceCenterGeo[fa].lng);
        fprintf(f, "]%s\n", fa + 1 < NUM_ICOSA_FACES ? "," : "");
    }
    fprintf(f, "]\n\n");
    fprintf(f, "def faceCenterPointBits : List (List Nat) := [\n");
    for (int fa = 0; fa < NUM_ICOSA_FACES; fa++) {
        fprintf(f, "  ["); vd_dbl(f, faceCenterPoint[fa].x); fprintf(f, ", ");
        vd_dbl(f, faceCenterPoint[fa].y); fprintf(f, ", ");
        vd_dbl(f, faceCenterPoint[fa].z);
        fprintf(f, "]%s\n", fa + 1 < NUM_ICOSA_FACES ? "," : "");
    }
    fprintf(f, "]\n\n");
    fprintf(f, "def faceAxesAzRadsCIIBits : List (List Nat) := [\n");
    for (int fa = 0; fa < NUM_ICOSA_FACES; fa++) {
        fprintf(f, "  [");
        for (int a = 0; a < 3; a++) { if (a) fprintf(f, ", "); vd_dbl(f, faceAxesAzRadsCII[fa][a]); }
        fprintf(f, "]%s\n", fa + 1 < NUM_ICOSA_FACES ? "," : "");
    }
    fprintf(f, "]\n\n");
}
// accessors for correspondence
