#ifndef VALLOC_H
#define VALLOC_H
#include <stddef.h>
extern long verif_alloc_fail_at, verif_alloc_calls, verif_alloc_failed, verif_alloc_live, verif_alloc_bad_free;
extern int verif_alloc_fail_from, verif_alloc_trace_on;
extern char verif_alloc_trace[];
void verif_alloc_reset(void);
long verif_alloc_trace_events(void);
void *verif_malloc(size_t size);
void *verif_calloc(size_t num, size_t size);
void *verif_realloc(void *ptr, size_t size);
void verif_free(void *ptr);
#endif
