// wrapper TU: replaces h3Index.c; exposes its static helpers for the
// differential validation of the translated (c2lean) functions
#include "h3Index.c"
int verif_hasGoodTopBits(H3Index h) { return _hasGoodTopBits(h); }
int verif_hasAny7UptoRes(H3Index h, int res) { return _hasAny7UptoRes(h, res); }
int verif_hasAll7AfterRes(H3Index h, int res) { return _hasAll7AfterRes(h, res); }
int verif_hasDeletedSubsequence(H3Index h, int bc) { return _hasDeletedSubsequence(h, bc); }
int verif_validateChildPos(int64_t p, H3Index parent, int r) { return (int)validateChildPos(p, parent, r); }
