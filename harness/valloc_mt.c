// thread-safe pass-through allocator for the concurrency harness (C18): verif_* -> libc
#include <stdlib.h>
void *verif_malloc(size_t size) { return malloc(size); }
void *verif_calloc(size_t num, size_t size) { return calloc(num, size); }
void *verif_realloc(void *ptr, size_t size) { return realloc(ptr, size); }
void verif_free(void *ptr) { free(ptr); }
