// h3drv: line-protocol driver of the REAL library (built from /repo's working tree).
// One op per line on stdin, one answer per line on stdout ("ok ..." / "err N").
// Every output buffer is an exact-size heap block (ASan red zones on both sides).
#include <stdio.h>
#include <stdlib.h>
#include <string.h>
#include <stdint.h>
#include <inttypes.h>
#include <math.h>
#include "h3api.h"
#include "h3Index.h"
#include "valloc.h"
#include "drv_util.h"

int ops_core(int argc, char **argv);
int ops_trav(int argc, char **argv);
int ops_geo(int argc, char **argv);
int ops_alloc(int argc, char **argv);

int main(int argc, char **argv) {
    (void)argc; (void)argv;
    static char line[1 << 22];
    static char *tok[1 << 20];
    setvbuf(stdout, NULL, _IOFBF, 1 << 16);
    while (fgets(line, sizeof line, stdin)) {
        int n = 0;
        for (char *p = strtok(line, " \t\r\n"); p && n < (1 << 20); p = strtok(NULL, " \t\r\n")) tok[n++] = p;
        if (n == 0) { printf("bad-op\n"); fflush(stdout); continue; }
        if (!ops_core(n, tok) && !ops_trav(n, tok) && !ops_geo(n, tok) && !ops_alloc(n, tok)) printf("bad-op\n");
        fflush(stdout);
    }
    return 0;
}
