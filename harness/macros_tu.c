// One-line functions whose bodies are the H3_GET_*/H3_SET_* macros of h3Index.h,
// so that clang's AST (macros expanded) can be translated to Lean by tools/c2lean.py
#include "h3Index.h"
int m_get_high_bit(uint64_t h) { return H3_GET_HIGH_BIT(h); }
int m_get_mode(uint64_t h) { return H3_GET_MODE(h); }
int m_get_reserved(uint64_t h) { return H3_GET_RESERVED_BITS(h); }
int m_get_resolution(uint64_t h) { return H3_GET_RESOLUTION(h); }
int m_get_base_cell(uint64_t h) { return H3_GET_BASE_CELL(h); }
int m_get_digit(uint64_t h, int res) { return H3_GET_INDEX_DIGIT(h, res); }
uint64_t m_set_high_bit(uint64_t h, int v) { H3_SET_HIGH_BIT(h, v); return h; }
uint64_t m_set_mode(uint64_t h, int v) { H3_SET_MODE(h, v); return h; }
uint64_t m_set_reserved(uint64_t h, int v) { H3_SET_RESERVED_BITS(h, v); return h; }
uint64_t m_set_resolution(uint64_t h, int v) { H3_SET_RESOLUTION(h, v); return h; }
uint64_t m_set_base_cell(uint64_t h, int v) { H3_SET_BASE_CELL(h, v); return h; }
uint64_t m_set_digit(uint64_t h, int res, int digit) { H3_SET_INDEX_DIGIT(h, res, digit); return h; }
uint64_t m_reserved_mask_negative(void) { return H3_RESERVED_MASK_NEGATIVE; }
uint64_t m_h3_init(void) { return H3_INIT; }
