// ops: allocation-failure schedules (C17). Output: "<result> live=<n> calls=<n> failed=<n> badfree=<n> | <trace>"
#include <stdio.h>
#include <stdlib.h>
#include <string.h>
#include "h3api.h"
#include "h3Index.h"
#include "drv_util.h"
#include "valloc.h"

static void begin(char **a) {
    verif_alloc_reset(); verif_alloc_trace_on = 1;
    verif_alloc_fail_at = pI(a[1]); verif_alloc_fail_from = (int)pI(a[2]);
}
static void finish(void) {
    verif_alloc_fail_at = 0; verif_alloc_trace_on = 0;
    printf(" live=%ld calls=%ld failed=%ld badfree=%ld | %s\n", verif_alloc_live, verif_alloc_calls,
           verif_alloc_failed, verif_alloc_bad_free, verif_alloc_trace);
}
static int parsePolygonA(int n, char **a, int at, GeoPolygon *p) {
    if (at >= n) return -1;
    int nl = (int)pI(a[at++]);
    if (nl < 1) return -1;
    GeoLoop *loops = xbuf((size_t)nl, sizeof(GeoLoop));
    for (int l = 0; l < nl; l++) {
        if (at >= n) return -1;
        int nv = (int)pI(a[at++]);
        if (at + 2 * nv > n) return -1;
        loops[l].numVerts = nv;
        loops[l].verts = xbuf((size_t)nv, sizeof(LatLng));
        for (int v = 0; v < nv; v++) { loops[l].verts[v].lat = pD(a[at++]); loops[l].verts[v].lng = pD(a[at++]); }
    }
    p->geoloop = loops[0]; p->numHoles = nl - 1;
    p->holes = nl > 1 ? xbuf((size_t)(nl - 1), sizeof(GeoLoop)) : NULL;
    for (int l = 1; l < nl; l++) p->holes[l - 1] = loops[l];
    free(loops);
    return at;
}
static void freePolygonA(GeoPolygon *p) {
    free(p->geoloop.verts);
    for (int i = 0; i < p->numHoles; i++) free(p->holes[i].verts);
    free(p->holes);
}

int ops_alloc(int n, char **a) {
    const char *op = a[0];
    if (isop(op, "adisk") && n == 6) {
        // adisk failAt from h k wantDistances
        H3Index h = pH(a[3]); int k = (int)pI(a[4]); int want = (int)pI(a[5]);
        int64_t sz = 0; if (H3_EXPORT(maxGridDiskSize)(k, &sz)) { printf("err-size\n"); return 1; }
        H3Index *out = xbuf((size_t)sz, sizeof(H3Index)); int *dist = xbuf((size_t)sz, sizeof(int));
        begin(a);
        H3Error e = want ? H3_EXPORT(gridDiskDistances)(h, k, out, dist) : H3_EXPORT(gridDisk)(h, k, out);
        if (e) printf("err %d", (int)e); else { printf("ok "); outHs(out, sz); }
        finish();
        free(out); free(dist);
        return 1;
    }
    if (isop(op, "aneighbors") && n == 5) {
        int out = -7;
        begin(a);
        H3Error e = H3_EXPORT(areNeighborCells)(pH(a[3]), pH(a[4]), &out);
        if (e) printf("err %d", (int)e); else printf("ok %d", out);
        finish();
        return 1;
    }
    if ((isop(op, "apolyfill") || isop(op, "apolyfillx") || isop(op, "amaxpolyfillx")) && n >= 6) {
        // apolyfill failAt from res flags <polygon>
        int res = (int)pI(a[3]); uint32_t flags = (uint32_t)pI(a[4]);
        GeoPolygon p;
        if (parsePolygonA(n, a, 5, &p) < 0) return 0;
        int legacy = isop(op, "apolyfill");
        int64_t sz = 0;
        if (isop(op, "amaxpolyfillx")) {
            begin(a);
            H3Error e = H3_EXPORT(maxPolygonToCellsSizeExperimental)(&p, res, flags, &sz);
            if (e) printf("err %d", (int)e); else printf("ok %" PRId64, sz);
            finish(); freePolygonA(&p);
            return 1;
        }
        H3Error e = legacy ? H3_EXPORT(maxPolygonToCellsSize)(&p, res, flags, &sz)
                           : H3_EXPORT(maxPolygonToCellsSizeExperimental)(&p, res, flags, &sz);
        if (e) { printf("err-size %d\n", (int)e); freePolygonA(&p); return 1; }
        H3Index *out = xbuf((size_t)sz, sizeof(H3Index));
        begin(a);
        e = legacy ? H3_EXPORT(polygonToCells)(&p, res, flags, out)
                   : H3_EXPORT(polygonToCellsExperimental)(&p, res, flags, sz, out);
        if (e) printf("err %d", (int)e); else { printf("ok "); outHsSorted(out, sz); }
        finish();
        free(out); freePolygonA(&p);
        return 1;
    }
    if ((isop(op, "apolyxs") && n >= 10) || (isop(op, "amaxpolyxs") && n >= 8)) {
        // apolyxs failAt from res flags size <ncells> <itErr> <polygon>      (ncells / itErr: hints for the model only)
        // amaxpolyxs failAt from res flags <itErr> <polygon>
        int isMax = isop(op, "amaxpolyxs");
        int res = (int)pI(a[3]); uint32_t flags = (uint32_t)pI(a[4]);
        int64_t size = isMax ? 0 : pI(a[5]);
        GeoPolygon p;
        if (parsePolygonA(n, a, isMax ? 6 : 8, &p) < 0) return 0;
        if (isMax) {
            int64_t sz = 0;
            begin(a);
            H3Error e = H3_EXPORT(maxPolygonToCellsSizeExperimental)(&p, res, flags, &sz);
            if (e) printf("err %d", (int)e); else printf("ok");
            finish(); freePolygonA(&p);
            return 1;
        }
        H3Index *out = xbuf((size_t)(size > 0 ? size : 0), sizeof(H3Index));
        begin(a);
        H3Error e = H3_EXPORT(polygonToCellsExperimental)(&p, res, flags, size, out);
        if (e) printf("err %d", (int)e);
        else { int64_t m = 0; for (int64_t i = 0; i < size; i++) if (out[i]) m++; printf("ok %" PRId64, m); }
        finish();
        free(out); freePolygonA(&p);
        return 1;
    }
    return 0;
}
