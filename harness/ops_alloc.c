#include "drv_util.h"
int ops_alloc(int n, char **a) { (void)n; (void)a; return 0; }
