// ops: traversal, local ij, faces, edges, vertexes, compaction
#include <stdio.h>
#include <stdlib.h>
#include <string.h>
#include "h3api.h"
#include "h3Index.h"
#include "algos.h"
#include "coordijk.h"
#include "faceijk.h"
#include "localij.h"
#include "vertex.h"
#include "baseCells.h"
#include "drv_util.h"
#include "valloc.h"

H3Error verif_vertexRotations(H3Index cell, int *out);

static void outPairs(const H3Index *o, const int *d, int64_t n) {
    printf("%" PRId64, n);
    for (int64_t i = 0; i < n; i++) printf(" %" PRIx64 " %d", o[i], d[i]);
}
static int parseHList(int n, char **a, int at, H3Index **cells, int64_t *cnt) {
    // a[at] = count, then cells
    if (at >= n) return -1;
    int64_t k = pI(a[at]);
    if (at + 1 + k > n) return -1;
    *cells = xbuf((size_t)k, sizeof(H3Index));
    for (int64_t i = 0; i < k; i++) (*cells)[i] = pH(a[at + 1 + i]);
    *cnt = k;
    return at + 1 + (int)k;
}

int ops_trav(int n, char **a) {
    const char *op = a[0];
    if (isop(op, "nbr") && n == 4) {
        int rot = (int)pI(a[3]); H3Index out = 0;
        H3Error e = h3NeighborRotations(pH(a[1]), (Direction)pI(a[2]), &rot, &out);
        if (e) outErr(e); else printf("ok %" PRIx64 " %d\n", out, rot);
        return 1;
    }
    if (isop(op, "dirfor") && n == 3) { printf("ok %d\n", (int)directionForNeighbor(pH(a[1]), pH(a[2]))); return 1; }
    if (isop(op, "maxdisk") && n == 2) {
        int64_t out = 0; H3Error e = H3_EXPORT(maxGridDiskSize)((int)pI(a[1]), &out);
        if (e) outErr(e); else printf("ok %" PRId64 "\n", out);
        return 1;
    }
    if (isop(op, "numcells") && n == 2) {
        int64_t out = 0; H3Error e = H3_EXPORT(getNumCells)((int)pI(a[1]), &out);
        if (e) outErr(e); else printf("ok %" PRId64 "\n", out);
        return 1;
    }
    if ((isop(op, "disk") || isop(op, "disk0") || isop(op, "disksafe") || isop(op, "diskunsafe")) && n == 3) {
        H3Index h = pH(a[1]); int k = (int)pI(a[2]);
        int64_t sz = 0; H3Error e = H3_EXPORT(maxGridDiskSize)(k, &sz);
        if (e) {
            // the entry points that validate k themselves must report it too
            if (isop(op, "diskunsafe")) {
                H3Index o1[1]; int d1[1];
                H3Error e2 = H3_EXPORT(gridDiskDistancesUnsafe)(h, k, o1, d1);
                if (e2) outErr(e2); else printf("ok-unexpected\n");
            } else outErr(e);
            return 1;
        }
        H3Index *out = xbuf((size_t)sz, sizeof(H3Index));
        int *dist = xbuf((size_t)sz, sizeof(int));
        if (isop(op, "disk")) e = H3_EXPORT(gridDiskDistances)(h, k, out, dist);
        else if (isop(op, "disk0")) e = H3_EXPORT(gridDisk)(h, k, out);
        else if (isop(op, "disksafe")) e = H3_EXPORT(gridDiskDistancesSafe)(h, k, out, dist);
        else e = H3_EXPORT(gridDiskDistancesUnsafe)(h, k, out, dist);
        if (e) outErr(e);
        else {
            printf("ok ");
            if (isop(op, "disk0")) outHs(out, sz); else outPairs(out, dist, sz);
            printf("\n");
        }
        free(out); free(dist);
        return 1;
    }
    if (isop(op, "diskcheck") && n == 3) {
        // the C05 statement evaluated in-process on one (possibly very large) disk: an independent breadth-first search
        // whose only primitive is gridDisk(k = 1), against gridDisk, gridDiskDistances and gridDiskDistancesSafe.
        // "ok <bfs cells> then per function: <err or 0> <distinct cells> <cells not in the bfs ball or with a wrong distance>
        //  <bfs cells missing> <duplicates>"
        H3Index h = pH(a[1]); int k = (int)pI(a[2]);
        int64_t sz = 0; H3Error e = H3_EXPORT(maxGridDiskSize)(k, &sz);
        if (e) { outErr(e); return 1; }
        if (sz > 4000000) { printf("skip-too-large\n"); return 1; }
        size_t cap = 16; while (cap < (size_t)sz * 3) cap <<= 1;
        H3Index *hk = xbuf(cap, sizeof(H3Index)); int *hd = xbuf(cap, sizeof(int)); unsigned char *seen = xbuf(cap, 1);
        H3Index *queue = xbuf((size_t)sz + 8, sizeof(H3Index));
        #define SLOT(x, s) for (s = (size_t)(((x) * 0x9E3779B97F4A7C15ull) >> 20) & (cap - 1); hk[s] && hk[s] != (x); s = (s + 1) & (cap - 1)) {}
        int64_t qh = 0, qt = 0, nb = 0; size_t sl; int overflow = 0;
        if (H3_EXPORT(isValidCell)(h)) { SLOT(h, sl); hk[sl] = h; hd[sl] = 0; queue[qt++] = h; nb = 1; }
        while (qh < qt) {
            H3Index c = queue[qh++]; SLOT(c, sl); int d = hd[sl];
            if (d >= k) continue;
            H3Index n7[7] = {0};
            if (H3_EXPORT(gridDisk)(c, 1, n7)) { overflow = 2; break; }
            for (int i = 0; i < 7; i++) if (n7[i] && n7[i] != c) {
                SLOT(n7[i], sl);
                if (!hk[sl]) { if (qt >= sz + 8) { overflow = 1; break; } hk[sl] = n7[i]; hd[sl] = d + 1; queue[qt++] = n7[i]; nb++; }
            }
            if (overflow) break;
        }
        printf("ok %" PRId64 " %d", nb, overflow);
        H3Index *out = xbuf((size_t)sz, sizeof(H3Index)); int *dist = xbuf((size_t)sz, sizeof(int));
        // gridDiskDistancesSafe on its own is skipped for k > 200 (its depth-first search is the slow part, and it is
        // what the other two fall back to wherever a pentagon is in reach)
        for (int f = 0; f < (k > 200 ? 2 : 3); f++) {
            memset(out, 0, (size_t)sz * sizeof(H3Index)); memset(dist, 0, (size_t)sz * sizeof(int)); memset(seen, 0, cap);
            e = f == 0 ? H3_EXPORT(gridDisk)(h, k, out) : f == 1 ? H3_EXPORT(gridDiskDistances)(h, k, out, dist)
                                                                    : H3_EXPORT(gridDiskDistancesSafe)(h, k, out, dist);
            int64_t distinct = 0, wrong = 0, dups = 0;
            if (!e) for (int64_t i = 0; i < sz; i++) if (out[i]) {
                SLOT(out[i], sl);
                if (!hk[sl]) { wrong++; continue; }
                if (seen[sl]) { dups++; continue; }
                seen[sl] = 1; distinct++;
                if (f > 0 && dist[i] != hd[sl]) wrong++;
            }
            printf(" | %d %" PRId64 " %" PRId64 " %" PRId64 " %" PRId64, (int)e, distinct, wrong, e ? 0 : nb - distinct, dups);
        }
        printf("\n");
        #undef SLOT
        free(hk); free(hd); free(seen); free(queue); free(out); free(dist);
        return 1;
    }
    if (isop(op, "diskmap") && n == 3) {
        // gridDiskDistancesSafe with canonical output: (cell, distance) pairs sorted by cell, zero slots removed
        H3Index h = pH(a[1]); int k = (int)pI(a[2]);
        int64_t sz = 0; H3Error e = H3_EXPORT(maxGridDiskSize)(k, &sz);
        if (e) { outErr(e); return 1; }
        H3Index *out = xbuf((size_t)sz, sizeof(H3Index)); int *dist = xbuf((size_t)sz, sizeof(int));
        e = H3_EXPORT(gridDiskDistancesSafe)(h, k, out, dist);
        if (e) outErr(e);
        else {
            // selection sort on indexes (small disks)
            int64_t m = 0;
            for (int64_t i = 0; i < sz; i++) if (out[i]) { out[m] = out[i]; dist[m] = dist[i]; m++; }
            for (int64_t i = 1; i < m; i++) { H3Index x = out[i]; int dd = dist[i]; int64_t j = i - 1;
                while (j >= 0 && out[j] > x) { out[j + 1] = out[j]; dist[j + 1] = dist[j]; j--; }
                out[j + 1] = x; dist[j + 1] = dd; }
            printf("ok "); outPairs(out, dist, m); printf("\n");
        }
        free(out); free(dist);
        return 1;
    }
    if (isop(op, "ring") && n == 3) {
        H3Index h = pH(a[1]); int k = (int)pI(a[2]);
        int64_t sz = k == 0 ? 1 : (k > 0 ? 6 * (int64_t)k : 0);
        H3Index *out = sz ? xbuf((size_t)sz, sizeof(H3Index)) : malloc(0);   // k < 0: zero-length buffer
        H3Error e = H3_EXPORT(gridRingUnsafe)(h, k, out);
        if (e) outErr(e); else { printf("ok "); outHs(out, sz); printf("\n"); }
        free(out);
        return 1;
    }
    if (isop(op, "areneighbors") && n == 3) {
        int out = -7; H3Error e = H3_EXPORT(areNeighborCells)(pH(a[1]), pH(a[2]), &out);
        if (e) outErr(e); else printf("ok %d\n", out);
        return 1;
    }
    if (isop(op, "edge") && n == 3) {
        H3Index out = 0; H3Error e = H3_EXPORT(cellsToDirectedEdge)(pH(a[1]), pH(a[2]), &out);
        if (e) outErr(e); else printf("ok %" PRIx64 "\n", out);
        return 1;
    }
    if (isop(op, "edgeorigin") && n == 2) {
        H3Index out = 0; H3Error e = H3_EXPORT(getDirectedEdgeOrigin)(pH(a[1]), &out);
        if (e) outErr(e); else printf("ok %" PRIx64 "\n", out);
        return 1;
    }
    if (isop(op, "edgedest") && n == 2) {
        H3Index out = 0; H3Error e = H3_EXPORT(getDirectedEdgeDestination)(pH(a[1]), &out);
        if (e) outErr(e); else printf("ok %" PRIx64 "\n", out);
        return 1;
    }
    if (isop(op, "edgevalid") && n == 2) { printf("ok %d\n", H3_EXPORT(isValidDirectedEdge)(pH(a[1]))); return 1; }
    if (isop(op, "edgecells") && n == 2) {
        H3Index *od = xbuf(2, sizeof(H3Index));
        H3Error e = H3_EXPORT(directedEdgeToCells)(pH(a[1]), od);
        if (e) outErr(e); else printf("ok %" PRIx64 " %" PRIx64 "\n", od[0], od[1]);
        free(od);
        return 1;
    }
    if (isop(op, "edgesfrom") && n == 2) {
        H3Index *ed = xbuf(6, sizeof(H3Index));
        memset(ed, 0xA5, 6 * sizeof(H3Index));   // all six slots are outputs: whatever was there must be overwritten
        H3Error e = H3_EXPORT(originToDirectedEdges)(pH(a[1]), ed);
        if (e) outErr(e); else { printf("ok "); outHs(ed, 6); printf("\n"); }
        free(ed);
        return 1;
    }
    if (isop(op, "vrot") && n == 2) {
        int out = 0; H3Error e = verif_vertexRotations(pH(a[1]), &out);
        if (e) outErr(e); else printf("ok %d\n", out);
        return 1;
    }
    if (isop(op, "vnumfordir") && n == 3) { printf("ok %d\n", vertexNumForDirection(pH(a[1]), (Direction)pI(a[2]))); return 1; }
    if (isop(op, "dirforvnum") && n == 3) { printf("ok %d\n", (int)directionForVertexNum(pH(a[1]), (int)pI(a[2]))); return 1; }
    if (isop(op, "c2v") && n == 3) {
        H3Index out = 0; H3Error e = H3_EXPORT(cellToVertex)(pH(a[1]), (int)pI(a[2]), &out);
        if (e) outErr(e); else printf("ok %" PRIx64 "\n", out);
        return 1;
    }
    if (isop(op, "c2vs") && n == 2) {
        H3Index *vs = xbuf(6, sizeof(H3Index));
        memset(vs, 0xA5, 6 * sizeof(H3Index));   // all six slots are outputs
        H3Error e = H3_EXPORT(cellToVertexes)(pH(a[1]), vs);
        if (e) outErr(e); else { printf("ok "); outHs(vs, 6); printf("\n"); }
        free(vs);
        return 1;
    }
    if (isop(op, "vvalid") && n == 2) { printf("ok %d\n", H3_EXPORT(isValidVertex)(pH(a[1]))); return 1; }
    if (isop(op, "lijk") && n == 3) {
        CoordIJK c = {0, 0, 0}; H3Error e = cellToLocalIjk(pH(a[1]), pH(a[2]), &c);
        if (e) outErr(e); else printf("ok %d %d %d\n", c.i, c.j, c.k);
        return 1;
    }
    if (isop(op, "ijk2cell") && n == 5) {
        CoordIJK c = {(int)pI(a[2]), (int)pI(a[3]), (int)pI(a[4])}; H3Index out = 0;
        H3Error e = localIjkToCell(pH(a[1]), &c, &out);
        if (e) outErr(e); else printf("ok %" PRIx64 "\n", out);
        return 1;
    }
    if (isop(op, "lij") && n == 4) {
        CoordIJ c = {0, 0}; H3Error e = H3_EXPORT(cellToLocalIj)(pH(a[1]), pH(a[2]), (uint32_t)pI(a[3]), &c);
        if (e) outErr(e); else printf("ok %d %d\n", c.i, c.j);
        return 1;
    }
    if (isop(op, "ij2cell") && n == 5) {
        CoordIJ c = {(int)pI(a[2]), (int)pI(a[3])}; H3Index out = 0;
        H3Error e = H3_EXPORT(localIjToCell)(pH(a[1]), &c, (uint32_t)pI(a[4]), &out);
        if (e) outErr(e); else printf("ok %" PRIx64 "\n", out);
        return 1;
    }
    if (isop(op, "dist") && n == 3) {
        int64_t out = 0; H3Error e = H3_EXPORT(gridDistance)(pH(a[1]), pH(a[2]), &out);
        if (e) outErr(e); else printf("ok %" PRId64 "\n", out);
        return 1;
    }
    if (isop(op, "pathsize") && n == 3) {
        int64_t out = 0; H3Error e = H3_EXPORT(gridPathCellsSize)(pH(a[1]), pH(a[2]), &out);
        if (e) outErr(e); else printf("ok %" PRId64 "\n", out);
        return 1;
    }
    if (isop(op, "path") && n == 3) {
        int64_t sz = 0; H3Error e = H3_EXPORT(gridPathCellsSize)(pH(a[1]), pH(a[2]), &sz);
        if (e) { outErr(e); return 1; }
        if (sz > 2000000) { printf("skip-too-large\n"); return 1; }
        H3Index *out = xbuf((size_t)sz, sizeof(H3Index));
        e = H3_EXPORT(gridPathCells)(pH(a[1]), pH(a[2]), out);
        if (e) outErr(e);  // slot contents after an error are unspecified; bounds are watched by ASan
        else { printf("ok "); outHs(out, sz); printf("\n"); }
        free(out);
        return 1;
    }
    if (isop(op, "pathcheck") && n == 3) {
        // the C14 statement evaluated in-process on one (possibly very long) path:
        // "ok <size> <index of the first step that is not a neighbour step, or -1> <first==a> <last==b> <all valid>"
        H3Index A = pH(a[1]), B = pH(a[2]);
        int64_t sz = 0; H3Error e = H3_EXPORT(gridPathCellsSize)(A, B, &sz);
        if (e) { outErr(e); return 1; }
        if (sz > 3000000) { printf("skip-too-large\n"); return 1; }
        H3Index *out = xbuf((size_t)sz, sizeof(H3Index));
        e = H3_EXPORT(gridPathCells)(A, B, out);
        if (e) { outErr(e); free(out); return 1; }
        int64_t bad = -1; int valid = 1;
        for (int64_t i = 0; i < sz; i++) {
            if (!H3_EXPORT(isValidCell)(out[i])) valid = 0;
            if (i + 1 < sz && bad < 0) {
                int nb = 0;
                if (H3_EXPORT(areNeighborCells)(out[i], out[i + 1], &nb) || !nb) bad = i;
            }
        }
        printf("ok %" PRId64 " %" PRId64 " %d %d %d\n", sz, bad, out[0] == A, out[sz - 1] == B, valid);
        free(out);
        return 1;
    }
    if (isop(op, "h2fijk") && n == 2) {
        FaceIJK f; H3Error e = _h3ToFaceIjk(pH(a[1]), &f);
        if (e) outErr(e); else printf("ok %d %d %d %d\n", f.face, f.coord.i, f.coord.j, f.coord.k);
        return 1;
    }
    if (isop(op, "fijk2h") && n == 6) {
        FaceIJK f = {(int)pI(a[1]), {(int)pI(a[2]), (int)pI(a[3]), (int)pI(a[4])}};
        printf("ok %" PRIx64 "\n", _faceIjkToH3(&f, (int)pI(a[5])));
        return 1;
    }
    if (isop(op, "overage") && n == 8) {
        FaceIJK f = {(int)pI(a[1]), {(int)pI(a[2]), (int)pI(a[3]), (int)pI(a[4])}};
        Overage ov = _adjustOverageClassII(&f, (int)pI(a[5]), (int)pI(a[6]), (int)pI(a[7]));
        printf("ok %d %d %d %d %d\n", (int)ov, f.face, f.coord.i, f.coord.j, f.coord.k);
        return 1;
    }
    if (isop(op, "verts") && n == 2) {
        H3Index h = pH(a[1]); FaceIJK f; H3Error e = _h3ToFaceIjk(h, &f);
        if (e) { outErr(e); return 1; }
        int res = H3_GET_RESOLUTION(h); FaceIJK v[NUM_HEX_VERTS]; int nv;
        if (H3_EXPORT(isPentagon)(h)) { _faceIjkPentToVerts(&f, &res, v); nv = NUM_PENT_VERTS; }
        else { _faceIjkToVerts(&f, &res, v); nv = NUM_HEX_VERTS; }
        printf("ok %d", res);
        for (int i = 0; i < nv; i++) printf(" %d %d %d %d", v[i].face, v[i].coord.i, v[i].coord.j, v[i].coord.k);
        printf("\n");
        return 1;
    }
    if (isop(op, "maxfaces") && n == 2) {
        int out = 0; H3Error e = H3_EXPORT(maxFaceCount)(pH(a[1]), &out);
        if (e) outErr(e); else printf("ok %d\n", out);
        return 1;
    }
    if (isop(op, "faces") && n == 2) {
        H3Index h = pH(a[1]); int cnt = 0; H3_EXPORT(maxFaceCount)(h, &cnt);
        int *out = xbuf((size_t)cnt, sizeof(int));
        H3Error e = H3_EXPORT(getIcosahedronFaces)(h, out);
        if (e) outErr(e);
        else { printf("ok %d", cnt); for (int i = 0; i < cnt; i++) printf(" %d", out[i]); printf("\n"); }
        free(out);
        return 1;
    }
    if (isop(op, "compact")) {
        H3Index *cells; int64_t cnt;
        if (parseHList(n, a, 1, &cells, &cnt) < 0) return 0;
        H3Index *out = xbuf((size_t)cnt, sizeof(H3Index));
        H3Error e = H3_EXPORT(compactCells)(cells, out, cnt);
        if (e) outErr(e); else { printf("ok "); outHs(out, cnt); printf("\n"); }
        free(out); free(cells);
        return 1;
    }
    if (isop(op, "compactS")) {
        /* compactCells as a set: sorted non-zero outputs (compared with the set-level specification) */
        H3Index *cells; int64_t cnt;
        if (parseHList(n, a, 1, &cells, &cnt) < 0) return 0;
        H3Index *out = xbuf((size_t)cnt, sizeof(H3Index));
        H3Error e = H3_EXPORT(compactCells)(cells, out, cnt);
        if (e) outErr(e);
        else {
            int64_t w = 0;
            for (int64_t i = 0; i < cnt; i++) if (out[i]) out[w++] = out[i];
            for (int64_t i = 1; i < w; i++) { H3Index x = out[i]; int64_t j = i; while (j > 0 && out[j - 1] > x) { out[j] = out[j - 1]; j--; } out[j] = x; }
            printf("ok "); outHs(out, w); printf("\n");
        }
        free(out); free(cells);
        return 1;
    }
    if (isop(op, "uncompact")) {
        H3Index *cells; int64_t cnt;
        int at = parseHList(n, a, 1, &cells, &cnt);
        if (at < 0 || at + 2 != n) return 0;
        int res = (int)pI(a[at]); int64_t cap = pI(a[at + 1]);
        H3Index *out = xbuf((size_t)(cap > 0 ? cap : 0), sizeof(H3Index));
        H3Error e = H3_EXPORT(uncompactCells)(cells, cnt, out, cap, res);
        if (e) outErr(e);
        else { int64_t w = cap > 0 ? cap : 0; while (w > 0 && out[w - 1] == 0) w--; printf("ok "); outHs(out, w); printf("\n"); }
        free(out); free(cells);
        return 1;
    }
    if (isop(op, "uncompactsize")) {
        H3Index *cells; int64_t cnt;
        int at = parseHList(n, a, 1, &cells, &cnt);
        if (at < 0 || at + 1 != n) return 0;
        int64_t out = 0; H3Error e = H3_EXPORT(uncompactCellsSize)(cells, cnt, (int)pI(a[at]), &out);
        if (e) outErr(e); else printf("ok %" PRId64 "\n", out);
        free(cells);
        return 1;
    }
    if (isop(op, "acompact") && n >= 4) {
        H3Index *cells; int64_t cnt;
        if (parseHList(n, a, 3, &cells, &cnt) < 0) return 0;
        H3Index *out = xbuf((size_t)cnt, sizeof(H3Index));
        verif_alloc_reset(); verif_alloc_trace_on = 1;
        verif_alloc_fail_at = pI(a[1]); verif_alloc_fail_from = (int)pI(a[2]);
        H3Error e = H3_EXPORT(compactCells)(cells, out, cnt);
        verif_alloc_fail_at = 0; verif_alloc_trace_on = 0;
        if (e) printf("err %d", (int)e); else printf("ok");
        printf(" live=%ld calls=%ld failed=%ld badfree=%ld | %s\n", verif_alloc_live, verif_alloc_calls, verif_alloc_failed, verif_alloc_bad_free, verif_alloc_trace);
        free(out); free(cells);
        return 1;
    }
    return 0;
}
