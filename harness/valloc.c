// Fault-injecting, tracing allocator bound through -DH3_ALLOC_PREFIX=verif_
#include <stdio.h>
#include <stdlib.h>
#include <string.h>
#include <stdint.h>
#include "valloc.h"

// configuration
long verif_alloc_fail_at = 0;      // 1-based allocation call index that fails (0: none)
int verif_alloc_fail_from = 0;     // if set: every call with index >= fail_at fails
// state
long verif_alloc_calls = 0;        // number of malloc/calloc/realloc calls so far
long verif_alloc_failed = 0;       // number of injected failures
long verif_alloc_live = 0;         // live blocks
long verif_alloc_bad_free = 0;     // frees of unknown / already freed blocks
int verif_alloc_trace_on = 0;
#define MAXLIVE 65536
static void *live_ptr[MAXLIVE];
static long live_id[MAXLIVE];
static size_t live_sz[MAXLIVE];
static long nlive_slots = 0;
// trace
#define MAXTRACE 4096
char verif_alloc_trace[MAXTRACE * 40];
static size_t trace_len = 0;
static long trace_events = 0;

static void tr(const char *kind, long id, size_t sz) {
    if (!verif_alloc_trace_on) return;
    trace_events++;
    if (trace_len + 40 >= sizeof(verif_alloc_trace)) return;
    // canonical form shared with the Lean model: a<id>:<bytes>  F<id>:<bytes>  f<id>  (X = bad free)
    const char *sep = trace_len ? " " : "";
    if (kind[0] == 'f') trace_len += (size_t)snprintf(verif_alloc_trace + trace_len, 40, "%sf%ld", sep, id);
    else if (kind[0] == 'X') trace_len += (size_t)snprintf(verif_alloc_trace + trace_len, 40, "%sX", sep);
    else if (kind[0] == 'F') trace_len += (size_t)snprintf(verif_alloc_trace + trace_len, 40, "%sF%ld:%zu", sep, id, sz);
    else trace_len += (size_t)snprintf(verif_alloc_trace + trace_len, 40, "%sa%ld:%zu", sep, id, sz);
}
void verif_alloc_reset(void) {
    verif_alloc_calls = verif_alloc_failed = verif_alloc_live = verif_alloc_bad_free = 0;
    nlive_slots = 0; trace_len = 0; trace_events = 0; verif_alloc_trace[0] = 0;
}
long verif_alloc_trace_events(void) { return trace_events; }
static int should_fail(void) {
    if (verif_alloc_fail_at <= 0) return 0;
    if (verif_alloc_fail_from) return verif_alloc_calls >= verif_alloc_fail_at;
    return verif_alloc_calls == verif_alloc_fail_at;
}
static void reg(void *p, size_t sz, const char *kind) {
    if (nlive_slots < MAXLIVE) {
        live_ptr[nlive_slots] = p; live_id[nlive_slots] = verif_alloc_calls; live_sz[nlive_slots] = sz;
        nlive_slots++;
    }
    verif_alloc_live++;
    tr(kind, verif_alloc_calls, sz);
}
void *verif_malloc(size_t size) {
    verif_alloc_calls++;
    if (should_fail()) { verif_alloc_failed++; tr("F", verif_alloc_calls, size); return NULL; }
    void *p = malloc(size ? size : 1);
    reg(p, size, "m");
    return p;
}
void *verif_calloc(size_t num, size_t size) {
    verif_alloc_calls++;
    if (should_fail()) { verif_alloc_failed++; tr("F", verif_alloc_calls, num * size); return NULL; }
    void *p = calloc(num ? num : 1, size ? size : 1);
    reg(p, num * size, "c");
    return p;
}
void verif_free(void *ptr) {
    if (!ptr) { return; }
    for (long i = nlive_slots - 1; i >= 0; i--) {
        if (live_ptr[i] == ptr) {
            tr("f", live_id[i], live_sz[i]);
            live_ptr[i] = live_ptr[nlive_slots - 1]; live_id[i] = live_id[nlive_slots - 1];
            live_sz[i] = live_sz[nlive_slots - 1];
            nlive_slots--; verif_alloc_live--;
            free(ptr);
            return;
        }
    }
    verif_alloc_bad_free++;  // double free or foreign pointer: do NOT free again
    tr("X", -1, 0);
}
void *verif_realloc(void *ptr, size_t size) {
    if (!ptr) return verif_malloc(size);
    verif_alloc_calls++;
    if (should_fail()) { verif_alloc_failed++; tr("F", verif_alloc_calls, size); return NULL; }
    void *p = realloc(ptr, size ? size : 1);
    for (long i = 0; i < nlive_slots; i++) if (live_ptr[i] == ptr) { live_ptr[i] = p; live_sz[i] = size; break; }
    tr("r", verif_alloc_calls, size);
    return p;
}
