// helpers shared by the wrapper translation units: print C tables as Lean source
#ifndef VERIF_DUMP_H
#define VERIF_DUMP_H
#include <stdio.h>
#include <stdint.h>
#include <string.h>
static inline void vd_int(FILE *f, long long v) {
    if (v < 0) fprintf(f, "(%lld)", v); else fprintf(f, "%lld", v);
}
#define VD_1D(f, name, arr, n)                                   \
    do {                                                         \
        fprintf(f, "def %s : List Int := [", name);              \
        for (int _i = 0; _i < (int)(n); _i++) {                  \
            if (_i) fprintf(f, ", ");                            \
            vd_int(f, (long long)(arr)[_i]);                     \
        }                                                        \
        fprintf(f, "]\n\n");                                     \
    } while (0)
#define VD_2D(f, name, arr, n, m)                                \
    do {                                                         \
        fprintf(f, "def %s : List (List Int) := [\n", name);     \
        for (int _i = 0; _i < (int)(n); _i++) {                  \
            fprintf(f, "  [");                                   \
            for (int _j = 0; _j < (int)(m); _j++) {              \
                if (_j) fprintf(f, ", ");                        \
                vd_int(f, (long long)(arr)[_i][_j]);             \
            }                                                    \
            fprintf(f, "]%s\n", _i + 1 < (int)(n) ? "," : "");   \
        }                                                        \
        fprintf(f, "]\n\n");                                     \
    } while (0)
static inline void vd_dbl(FILE *f, double d) {
    uint64_t u; memcpy(&u, &d, 8);
    fprintf(f, "0x%016llx", (unsigned long long)u);
}
#endif
