// wrapper TU: replaces vertex.c; reaches its static tables and vertexRotations
#include "vertex.c"
#include "verif_dump.h"
void verif_dump_vertex(FILE *f) {
    fprintf(f, "def pentagonDirectionFaces : List (List Int) := [\n");
    for (int p = 0; p < NUM_PENTAGONS; p++) {
        fprintf(f, "  [%d", pentagonDirectionFaces[p].baseCell);
        for (int a = 0; a < NUM_PENT_VERTS; a++) fprintf(f, ", %d", pentagonDirectionFaces[p].faces[a]);
        fprintf(f, "]%s\n", p + 1 < NUM_PENTAGONS ? "," : "");
    }
    fprintf(f, "]\n\n");
    VD_1D(f, "directionToVertexNumHex", directionToVertexNumHex, NUM_DIGITS);
    VD_1D(f, "directionToVertexNumPent", directionToVertexNumPent, NUM_DIGITS);
    VD_1D(f, "vertexNumToDirectionHex", vertexNumToDirectionHex, NUM_HEX_VERTS);
    VD_1D(f, "vertexNumToDirectionPent", vertexNumToDirectionPent, NUM_PENT_VERTS);
    VD_1D(f, "VERTEX_DIRECTIONS", DIRECTIONS, NUM_HEX_VERTS);
    VD_1D(f, "revNeighborDirectionsHex", revNeighborDirectionsHex, NUM_DIGITS);
}
H3Error verif_vertexRotations(H3Index cell, int *out) { return vertexRotations(cell, out); }
