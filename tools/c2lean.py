#!/usr/bin/env python3
"""c2lean: translate straight-line C bit-twiddling functions (clang JSON AST) to Lean 4
`BitVec` definitions.

Supported subset (anything else raises Unsupported -> reported as a broken
correspondence, never skipped silently):
  * scalar integer parameters / locals (uint64_t, int, _Bool, enums),
  * DeclStmt with initialiser, assignment, compound assignment (as statements),
  * if (c) <block that always returns> [else <block that always returns>], return e,
  * integer operators with the implicit casts the compiler inserted,
  * calls to other translated functions, __builtin_clzll,
  * reads of function-local `static const` integer arrays.
For every shift and array read a side condition (amount < width, index < length)
is collected into a companion `<fn>_defined` Boolean function which mirrors the
control flow, so that "no undefined shift / out-of-range read on any path" is a
Lean theorem about the translated function.

C values are modelled uniformly as `BitVec w` (w = 64 for uint64_t/unsigned long,
32 for int/unsigned/enum, 1 for _Bool).
"""
import json, subprocess, sys, os


class Unsupported(Exception):
    pass


def ctype(node):
    t = node.get("type", {})
    q = t.get("desugaredQualType", t.get("qualType"))
    return q


def tinfo(q):
    """-> (width, signed)"""
    q = q.replace("const ", "").replace("volatile ", "").strip()
    if q in ("unsigned long", "uint64_t", "H3Index", "unsigned long long", "size_t"):
        return (64, False)
    if q in ("long", "long long", "int64_t"):
        return (64, True)
    if q in ("int",):
        return (32, True)
    if q in ("unsigned int", "uint32_t") or q.startswith("enum ") or q in ("Direction", "H3Error"):
        return (32, False)
    if q in ("_Bool", "bool"):
        return (1, False)
    if q in ("unsigned char", "uint8_t"):
        return (8, False)
    raise Unsupported(f"type {q!r}")


def lit(v, w):
    v = int(v)
    if v < 0:
        v += 1 << w
    return f"{v}#{w}"


class Fn:
    def __init__(self, name, node, tr):
        self.name = name
        self.node = node
        self.tr = tr
        self.tables = {}   # local static const arrays: name -> (elemwidth, [values])
        self.params = []
        self.ret = None
        self.outs = {}     # scalar out-pointer parameters: name -> (w, signed)
        self.mode = None   # None: the function's return value; a name: the final value of that out parameter
        self.locals = set()
        self.pending = []  # (lean variable, type, term): locals written through `&x` by the call just translated
        self.uninit = {}   # locals declared without initialiser: their indeterminate value is an extra parameter `u_x`

    # ---- expressions: return (lean_term, (w, signed), [definedness conditions]) ----
    def cast(self, term, src, dst):
        (ws, ss), (wd, sd) = src, dst
        if wd == 1 and ws != 1:
            return f"(if {term} == {lit(0, ws)} then 0#1 else 1#1)"
        if ws == wd:
            return term
        if wd < ws:
            return f"(BitVec.setWidth {wd} {term})"
        if ss:
            return f"(BitVec.signExtend {wd} {term})"
        return f"(BitVec.setWidth {wd} {term})"

    def expr(self, n):
        k = n["kind"]
        if k in ("ParenExpr", "ConstantExpr"):
            return self.expr(n["inner"][0])
        if k == "IntegerLiteral":
            ti = tinfo(ctype(n))
            return lit(n["value"], ti[0]), ti, []
        if k == "DeclRefExpr":
            name = n["referencedDecl"]["name"]
            rk = n["referencedDecl"]["kind"]
            if rk == "EnumConstantDecl":
                ti = tinfo(ctype(n))
                return lit(self.tr.enum_value(name), ti[0]), ti, []
            if rk == "VarDecl" and name not in self.locals and not any(p == self.var(name) for p, _ in self.params):
                ti = tinfo(ctype(n))
                return lit(self.tr.global_const(name), ti[0]), ti, []
            return self.var(name), tinfo(ctype(n)), []
        if k == "ImplicitCastExpr" or k == "CStyleCastExpr":
            ck = n["castKind"]
            inner = n["inner"][0]
            if ck in ("LValueToRValue", "NoOp", "FunctionToPointerDecay", "ArrayToPointerDecay"):
                return self.expr(inner)
            if ck == "ToVoid":
                t, ti, c = self.expr(inner)
                return "()", None, c
            if ck in ("IntegralCast", "IntegralToBoolean", "BooleanToSignedIntegral"):
                t, ti, c = self.expr(inner)
                to = tinfo(ctype(n))
                return self.cast(t, ti, to), to, c
            raise Unsupported(f"cast kind {ck}")
        if k == "UnaryOperator" and n["opcode"] == "*":
            nm = self.out_name(n)
            if nm is None:
                raise Unsupported("dereference of something that is not a scalar out parameter")
            return "o_" + nm, self.outs[nm], []
        if k == "MemberExpr":
            return self.member(n)
        if k == "UnaryOperator":
            op = n["opcode"]
            t, ti, c = self.expr(n["inner"][0])
            to = tinfo(ctype(n))
            if op == "~":
                return f"(~~~{t})", to, c
            if op == "-":
                return f"(-{t})", to, c
            if op == "!":
                return f"(if {t} == {lit(0, ti[0])} then {lit(1, to[0])} else {lit(0, to[0])})", to, c
            if op == "+":
                return t, to, c
            raise Unsupported(f"unary {op}")
        if k == "BinaryOperator" and n["opcode"] == ",":
            # comma: the left operand only contributes its definedness conditions (assert expansions)
            a, ta, ca = self.expr(n["inner"][0])
            b, tb, cb = self.expr(n["inner"][1])
            return b, tb, ca + cb
        if k == "BinaryOperator":
            op = n["opcode"]
            a, ta, ca = self.expr(n["inner"][0])
            b, tb, cb = self.expr(n["inner"][1])
            to = tinfo(ctype(n))
            return self.binop(op, a, ta, b, tb, to, ca, cb)
        if k == "ConditionalOperator":
            c0, tc, cc = self.expr(n["inner"][0])
            a, ta, ca = self.expr(n["inner"][1])
            b, tb, cb = self.expr(n["inner"][2])
            cond = f"({c0} != {lit(0, tc[0])})"
            conds = cc + [f"(if {cond} then {conj(ca)} else {conj(cb)})"] if (ca or cb) else cc
            if ta is None or tb is None:
                return "()", None, conds      # void conditional (assert expansion)
            return f"(if {cond} then {a} else {b})", tinfo(ctype(n)), conds
        if k == "CallExpr":
            callee = n["inner"][0]
            while callee["kind"] in ("ImplicitCastExpr", "ParenExpr"):
                callee = callee["inner"][0]
            fname = callee["referencedDecl"]["name"]
            if fname in ("__assert_fail", "abort"):
                # a failing assertion (NEVER / ALWAYS / assert): not a value, the path is "undefined"
                return "()", None, ["false"]
            if fname != "__builtin_clzll":
                self.tr.require(fname)
                info = self.tr.fninfo.get(fname)
                if info is None:
                    raise Unsupported(f"recursive call of {fname}")
                if info["outs"]:
                    return self.call_with_outs(n, fname, info)
            args = [self.expr(a) for a in n["inner"][1:]]
            conds = [c for (_, _, cs) in args for c in cs]
            to = tinfo(ctype(n))
            if fname == "__builtin_clzll":
                a, ta, _ = args[0]
                # undefined for 0
                conds.append(f"({a} != {lit(0, 64)})")
                return f"(BitVec.setWidth 32 (BitVec.clz {a}))", to, conds
            self.tr.require(fname)
            argstr = " ".join([a for (a, _, _) in args] + self.callee_uninit(fname))
            conds.append(f"({self.tr.lean_name(fname)}_defined {argstr})")
            return f"({self.tr.lean_name(fname)} {argstr})", to, conds
        if k == "ArraySubscriptExpr":
            base = n["inner"][0]
            while base["kind"] in ("ImplicitCastExpr", "ParenExpr"):
                base = base["inner"][0]
            if base["kind"] != "DeclRefExpr":
                raise Unsupported("array base")
            an = base["referencedDecl"]["name"]
            if an not in self.tables:
                raise Unsupported(f"array {an} is not a local static const table")
            i, ti, ci = self.expr(n["inner"][1])
            ew, vals = self.tables[an]
            cmp = "BitVec.slt" if ti[1] else "BitVec.ult"
            conds = ci + [f"({cmp} {i} {lit(len(vals), ti[0])})"]
            if ti[1]:
                conds.append(f"(BitVec.sle {lit(0, ti[0])} {i})")
            return f"({self.tr.lean_name(self.name)}_{an} {i})", tinfo(ctype(n)), conds
        raise Unsupported(f"expression kind {k}")

    def binop(self, op, a, ta, b, tb, to, ca, cb):
        w = to[0]
        conds = ca + cb
        if op in ("<<", ">>"):
            # shift amount must be non-negative and < width of promoted lhs
            if tb[1]:
                conds = conds + [f"(BitVec.sle {lit(0, tb[0])} {b})"]
            conds = conds + [f"(BitVec.ult {b} {lit(ta[0], tb[0])})"]
            if op == "<<":
                if ta[1]:
                    raise Unsupported("left shift of signed value")
                return f"({a} <<< {b})", to, conds
            if ta[1]:
                return f"(BitVec.sshiftRight' {a} {b})", to, conds
            return f"({a} >>> {b})", to, conds
        if op in ("+", "-", "*", "&", "|", "^"):
            assert ta[0] == tb[0] == w, (op, ta, tb, to)
            if to[1] and op in ("+", "-", "*"):
                # signed overflow is undefined: require the exact result to fit
                wide = w * 2
                ea = f"(BitVec.signExtend {wide} {a})"
                eb = f"(BitVec.signExtend {wide} {b})"
                r = f"({ea} {op} {eb})"
                conds = conds + [f"({r} == BitVec.signExtend {wide} ({a} {op} {b}))"]
            lop = {"&": "&&&", "|": "|||", "^": "^^^"}.get(op, op)
            return f"({a} {lop} {b})", to, conds
        if op in ("/", "%"):
            assert ta == tb
            conds = conds + [f"({b} != {lit(0, tb[0])})"]
            if ta[1]:
                # INT_MIN / -1 (and INT_MIN % -1) overflow: undefined
                conds = conds + [f"(!(({a} == {lit(1 << (ta[0] - 1), ta[0])}) && ({b} == {lit(-1, tb[0])})))"]
                f = "BitVec.sdiv" if op == "/" else "BitVec.srem"
                return f"({f} {a} {b})", to, conds
            return f"({a} {op} {b})", to, conds
        if op in ("==", "!=", "<", ">", "<=", ">="):
            assert ta[0] == tb[0], (op, ta, tb)
            s = ta[1]
            if op == "==":
                c = f"({a} == {b})"
            elif op == "!=":
                c = f"({a} != {b})"
            else:
                fn = {"<": "lt", "<=": "le"}.get(op)
                x, y = a, b
                if op in (">", ">="):
                    x, y = b, a
                    fn = {">": "lt", ">=": "le"}[op]
                c = f"(BitVec.{'s' if s else 'u'}{fn} {x} {y})"
            return f"(if {c} then {lit(1, w)} else {lit(0, w)})", to, conds
        if op in ("&&", "||"):
            za = f"({a} != {lit(0, ta[0])})"
            zb = f"({b} != {lit(0, tb[0])})"
            lop = "&&" if op == "&&" else "||"
            # short circuit: rhs conditions only matter when evaluated
            if cb:
                guard = za if op == "&&" else f"(!{za})"
                conds = ca + [f"(if {guard} then {conj(cb)} else true)"]
            return f"(if ({za} {lop} {zb}) then {lit(1, w)} else {lit(0, w)})", to, conds
        raise Unsupported(f"binary {op}")

    def var(self, name):
        return "v_" + name

    def call_with_outs(self, n, fname, info):
        """call of a translated function that has scalar out parameters: each such argument must be `&x` for a
        scalar variable x of this function; x takes the callee's `<fn>_out_<p>` result afterwards"""
        terms, conds, outs = [], [], []
        for a, (pname, pt, is_out) in zip(n["inner"][1:], info["params"]):
            if not is_out:
                t, ti, c = self.expr(a)
                terms.append(self.cast(t, ti, pt) if ti != pt else t)
                conds += c
                continue
            x = a
            while x["kind"] in ("ParenExpr", "ImplicitCastExpr"):
                x = x["inner"][0]
            if x["kind"] == "DeclRefExpr" and x["referencedDecl"]["name"] in self.outs:
                # the caller's own out pointer handed on
                nm, tl = "o_" + x["referencedDecl"]["name"], self.outs[x["referencedDecl"]["name"]]
            elif x["kind"] != "UnaryOperator" or x.get("opcode") != "&":
                raise Unsupported(f"out argument of {fname} that is not &variable")
            else:
                nm, tl = self.lhs(x["inner"][0])
            if tl != pt:
                raise Unsupported("out argument type")
            terms.append(nm)
            outs.append((nm, tl, pname))
        argstr = " ".join(terms + self.callee_uninit(fname))
        ln = self.tr.lean_name(fname)
        conds.append(f"({ln}_defined {argstr})")
        for nm, tl, pname in outs:
            self.pending.append((nm, tl, f"({ln}_out_{pname[2:]} {argstr})"))
        if info["ret"] is None:
            return "()", None, conds
        return f"({ln} {argstr})", info["ret"], conds

    def callee_uninit(self, fname):
        """the callee's uninitialised locals become uninitialised values of this function too (one per callee local;
        every theorem quantifies over them)"""
        info = self.tr.fninfo.get(fname) or {}
        out = []
        for u, t in info.get("uninit_t", []):
            nm = f"{self.tr.lean_name(fname)}_{u}"
            self.uninit[nm] = t
            out.append("u_" + nm)
        return out

    def take_pending(self):
        p, self.pending = self.pending, []
        return p

    def no_pending(self, where):
        if self.pending:
            self.pending = []
            raise Unsupported(f"call with &variable arguments in {where}")

    def out_name(self, n):
        """n is `*p` (possibly parenthesised) with p an out parameter -> its name"""
        while n["kind"] == "ParenExpr":
            n = n["inner"][0]
        if n["kind"] != "UnaryOperator" or n.get("opcode") != "*":
            return None
        x = n["inner"][0]
        while x["kind"] in ("ParenExpr", "ImplicitCastExpr"):
            x = x["inner"][0]
        if x["kind"] == "DeclRefExpr" and x["referencedDecl"]["name"] in self.outs:
            return x["referencedDecl"]["name"]
        return None

    def lhs(self, n):
        """assignment target -> (lean variable name, (w, signed))"""
        while n["kind"] == "ParenExpr":
            n = n["inner"][0]
        if n["kind"] == "DeclRefExpr":
            if n["referencedDecl"]["name"] in self.outs:
                raise Unsupported("assignment to an out pointer itself")
            return self.var(n["referencedDecl"]["name"]), tinfo(ctype(n))
        o = self.out_name(n)
        if o is not None:
            return "o_" + o, self.outs[o]
        raise Unsupported("assignment target")

    def member(self, n):
        """`table[i].field` for a file-scope const array of structs"""
        base = n["inner"][0]
        while base["kind"] in ("ImplicitCastExpr", "ParenExpr"):
            base = base["inner"][0]
        if n.get("isArrow") or base["kind"] != "ArraySubscriptExpr":
            raise Unsupported("member access other than table[i].field")
        arr = base["inner"][0]
        while arr["kind"] in ("ImplicitCastExpr", "ParenExpr"):
            arr = arr["inner"][0]
        if arr["kind"] != "DeclRefExpr" or arr["referencedDecl"]["kind"] != "VarDecl":
            raise Unsupported("member access base")
        an = arr["referencedDecl"]["name"]
        field = n["name"]
        to = tinfo(ctype(n))
        vals = self.tr.global_field_table(an, field)
        key = f"{an}_{field}"
        self.tr.global_tables[key] = (to[0], vals)
        i, ti, ci = self.expr(base["inner"][1])
        cmp = "BitVec.slt" if ti[1] else "BitVec.ult"
        conds = ci + [f"({cmp} {i} {lit(len(vals), ti[0])})"]
        if ti[1]:
            conds.append(f"(BitVec.sle {lit(0, ti[0])} {i})")
        if ti[0] != 32:
            raise Unsupported("table index width")
        return f"(tbl_{key} {i})", to, conds

    # ---- statements: produce (value_term, defined_term) for "rest of function" ----
    def block(self, stmts):
        """stmts: list of statement nodes which must end in a return on every path.
        returns (lean value term, lean definedness term) as multi-line strings."""
        if not stmts:
            if self.ret is None and self.mode is not None:
                return "o_" + self.mode, "true"
            if self.ret is None:
                return "()", "true"
            raise Unsupported("control reaches end of non-void function")
        s, rest = stmts[0], stmts[1:]
        k = s["kind"]
        if k == "__yield":
            return s["term"], "true"
        if k == "__loop_end":
            return self.block(rest)
        if k == "BreakStmt":
            # leave the innermost loop: skip everything up to and including its end marker
            for i_, x in enumerate(rest):
                if x.get("kind") == "__loop_end":
                    return self.block(rest[i_ + 1:])
            raise Unsupported("break outside a loop")
        if k == "CompoundStmt":
            return self.block(list(s.get("inner", [])) + rest)
        if k == "NullStmt":
            return self.block(rest)
        if k == "ReturnStmt":
            if not s.get("inner"):
                if self.mode is None:
                    raise Unsupported("void return in value mode")
                return "o_" + self.mode, "true"
            t, ti, c = self.expr(s["inner"][0])
            pend = self.take_pending()
            t = self.cast(t, ti, self.ret)
            if self.mode is not None:
                t = "o_" + self.mode
            pre = "".join(f"let t_{pn} : BitVec {pt[0]} := {ptm}\n" for pn, pt, ptm in pend)
            post = "".join(f"let {pn} : BitVec {pt[0]} := t_{pn}\n" for pn, pt, ptm in pend)
            return f"{pre}{post}{t}", conj(c)
        if k == "DeclStmt":
            out_v, out_d = None, None
            binds = []
            for d in s["inner"]:
                if d["kind"] != "VarDecl":
                    raise Unsupported("decl " + d["kind"])
                self.locals.add(d["name"])
                if d.get("storageClass") == "static":
                    self.add_table(d)
                    continue
                if "inner" not in d:
                    # indeterminate value: an extra parameter of the translated function, universally quantified in
                    # every theorem about it
                    to = tinfo(ctype(d))
                    self.uninit[d["name"]] = to
                    binds.append((self.var(d["name"]), to, "u_" + d["name"], [], []))
                    continue
                init = d["inner"][0]
                while init["kind"] == "ParenExpr":
                    init = init["inner"][0]
                if init["kind"] == "BinaryOperator" and init.get("opcode") == "=":
                    # `T x = (y = e);` (the H3_SET_* macros are assignment expressions): first the assignment,
                    # then x takes the assigned variable's value
                    if len(s["inner"]) != 1:
                        raise Unsupported("assignment expression among several declarators")
                    d2 = dict(d); d2["inner"] = [init["inner"][0]]
                    s2 = dict(s); s2["inner"] = [d2]
                    return self.block([init, s2] + rest)
                t, ti, c = self.expr(d["inner"][0])
                to = tinfo(ctype(d))
                t = self.cast(t, ti, to)
                binds.append((self.var(d["name"]), to, t, c, self.take_pending()))
            v, dfn = self.block(rest)
            for (nm, to, t, c, pend) in reversed(binds):
                pre = "".join(f"let t_{pn} : BitVec {pt[0]} := {ptm}\n" for pn, pt, ptm in pend)
                post = "".join(f"let {pn} : BitVec {pt[0]} := t_{pn}\n" for pn, pt, ptm in pend)
                v = f"{pre}let {nm} : BitVec {to[0]} := {t}\n{post}{v}"
                dfn = f"{conj(c)} &&\n({pre}let {nm} : BitVec {to[0]} := {t}\n{post}{dfn})"
            return v, dfn
        if k in ("BinaryOperator", "CompoundAssignOperator"):
            nm, tl = self.lhs(s["inner"][0])
            if k == "BinaryOperator":
                if s["opcode"] != "=":
                    raise Unsupported("expression statement " + s["opcode"])
                t, ti, c = self.expr(s["inner"][1])
                t = self.cast(t, ti, tl)
            else:
                op = s["opcode"][:-1]
                b, tb, cb = self.expr(s["inner"][1])
                cl = tinfo(s["computeLHSType"].get("desugaredQualType", s["computeLHSType"]["qualType"]))
                cr = tinfo(s["computeResultType"].get("desugaredQualType", s["computeResultType"]["qualType"]))
                a = self.cast(nm, tl, cl)
                t, ti, c = self.binop(op, a, cl, b, tb, cr, [], cb)
                t = self.cast(t, ti, tl)
            pend = self.take_pending()
            pre = "".join(f"let t_{pn} : BitVec {pt[0]} := {ptm}\n" for pn, pt, ptm in pend)
            post = "".join(f"let {pn} : BitVec {pt[0]} := t_{pn}\n" for pn, pt, ptm in pend)
            v, dfn = self.block(rest)
            return (f"{pre}let {nm} : BitVec {tl[0]} := {t}\n{post}{v}",
                    f"{conj(c)} &&\n({pre}let {nm} : BitVec {tl[0]} := {t}\n{post}{dfn})")
        if k == "CallExpr":
            # call as a statement: only its effects through `&x` arguments remain
            t, ti, c = self.expr(s)
            pend = self.take_pending()
            pre = "".join(f"let t_{pn} : BitVec {pt[0]} := {ptm}\n" for pn, pt, ptm in pend)
            post = "".join(f"let {pn} : BitVec {pt[0]} := t_{pn}\n" for pn, pt, ptm in pend)
            v, dfn = self.block(rest)
            return f"{pre}{post}{v}", f"{conj(c)} &&\n({pre}{post}{dfn})"
        if k == "ForStmt":
            # for (init; cond; inc) body  with a bounded trip count: unrolled `--unroll fn=N` times; running out of
            # unrollings makes `<fn>_defined` false, so "N suffices for every input" is a theorem about the translation
            inner = s["inner"]
            if len(inner) != 5 or inner[1].get("kind") is not None:
                raise Unsupported("for statement with a condition variable")
            n = self.tr.unroll.get(self.name)
            if n is None:
                raise Unsupported(f"loop in {self.name} without --unroll bound")
            loop = {"kind": "__loop", "cond": inner[2], "inc": inner[3], "body": inner[4], "n": n}
            return self.block([inner[0], loop, {"kind": "__loop_end"}] + rest)
        if k == "WhileStmt":
            inner = s["inner"]
            if len(inner) != 2:
                raise Unsupported("while statement with a condition variable")
            n = self.tr.unroll.get(self.name)
            if n is None:
                raise Unsupported(f"loop in {self.name} without --unroll bound")
            loop = {"kind": "__loop", "cond": inner[0], "inc": {"kind": "NullStmt"}, "body": inner[1], "n": n}
            return self.block([loop, {"kind": "__loop_end"}] + rest)
        if k == "__loop":
            if s["n"] == 0:
                w = self.outs[self.mode][0] if self.mode is not None else self.ret[0]
                return lit(0, w), "false"
            c0, tc, cc = self.expr(s["cond"])
            self.no_pending("a loop condition")
            cond = f"({c0} != {lit(0, tc[0])})"
            nxt = dict(s); nxt["n"] = s["n"] - 1
            tv, td = self.block([s["body"], s["inc"], nxt] + rest)
            ev, ed = self.block(rest)
            return (f"if {cond} then\n{indent(tv)}\nelse\n{ev}",
                    f"{conj(cc)} &&\n(if {cond} then\n{indent(td)}\nelse\n{ed})")
        if k == "UnaryOperator" and s.get("opcode") in ("++", "--"):
            nm, tl = self.lhs(s["inner"][0])
            one = lit(1, tl[0])
            t = f"({nm} + {one})" if s["opcode"] == "++" else f"({nm} - {one})"
            c = []
            if tl[1]:   # signed overflow is undefined
                lim = lit((1 << (tl[0] - 1)) - 1, tl[0]) if s["opcode"] == "++" else lit(1 << (tl[0] - 1), tl[0])
                c = [f"({nm} != {lim})"]
            v, dfn = self.block(rest)
            return (f"let {nm} : BitVec {tl[0]} := {t}\n{v}",
                    f"{conj(c)} &&\n(let {nm} : BitVec {tl[0]} := {t}\n{dfn})")
        if k == "SwitchStmt":
            # switch (x) { case A: return a; ... default: return d; }  every label followed by statements that return
            inner = s["inner"]
            x, tx, cx = self.expr(inner[0])
            body = inner[1]
            if body["kind"] != "CompoundStmt":
                raise Unsupported("switch body")
            cases, default = [], None
            for c in body.get("inner", []):
                if c["kind"] == "CaseStmt":
                    val = const_eval_enum(self.tr, c["inner"][0])
                    sub = c["inner"][1]
                    if not always_returns(sub):
                        raise Unsupported("case that falls through")
                    cases.append((val, sub))
                elif c["kind"] == "DefaultStmt":
                    sub = c["inner"][0]
                    if not always_returns(sub):
                        raise Unsupported("default that falls through")
                    default = sub
                else:
                    raise Unsupported("statement between case labels: " + c["kind"])
            if default is not None:
                v, dfn = self.block([default])
            else:
                v, dfn = self.block(rest)
            for val, sub in reversed(cases):
                tv, td = self.block([sub])
                cond = f"({x} == {lit(val, tx[0])})"
                v = f"if {cond} then\n{indent(tv)}\nelse\n{v}"
                dfn = f"(if {cond} then\n{indent(td)}\nelse\n{dfn})"
            return v, f"{conj(cx)} &&\n{dfn}"
        if k == "IfStmt":
            inner = s["inner"]
            c0, tc, cc = self.expr(inner[0])
            self.no_pending("an if condition")
            cond = f"({c0} != {lit(0, tc[0])})"
            then = inner[1]
            els = inner[2] if len(inner) > 2 else None
            if not always_returns(then):
                return self.if_merge(cond, cc, then, els, rest)
            tv, td = self.block([then])
            if els is not None:
                if not always_returns(els):
                    ev, ed = self.block([els] + rest)
                else:
                    ev, ed = self.block([els])
                    if rest:
                        raise Unsupported("dead code after if/else")
            else:
                ev, ed = self.block(rest)
            return (f"if {cond} then\n{indent(tv)}\nelse\n{ev}",
                    f"{conj(cc)} &&\n(if {cond} then\n{indent(td)}\nelse\n{ed})")
        raise Unsupported(f"statement kind {k}")

    def if_merge(self, cond, cc, then, els, rest):
        """`if (c) A [else B]` where A (and B) fall through: the variables assigned in A or B take, after the
        statement, the value the taken branch leaves in them"""
        if contains_return(then) or (els is not None and contains_return(els)):
            # a branch that returns (or breaks) on some paths only: each branch continues with its own copy of the
            # rest of the function
            tv, td = self.block([then] + rest)
            ev, ed = self.block(([els] if els is not None else []) + rest)
            return (f"if {cond} then\n{indent(tv)}\nelse\n{ev}",
                    f"{conj(cc)} &&\n(if {cond} then\n{indent(td)}\nelse\n{ed})")
        vs = {}
        assigned(self, then, vs, set())
        if els is not None:
            assigned(self, els, vs, set())
        names = sorted(vs)
        if len(rest) == 1 and rest[0].get("kind") == "__yield":
            # nothing follows but the value of one variable: only that variable needs a merged binding
            names = [nm for nm in names if nm == rest[0]["term"]]
        _, td = self.block([then, {"kind": "__yield", "term": "()"}])
        ed = "true"
        if els is not None:
            _, ed = self.block([els, {"kind": "__yield", "term": "()"}])
        binds = []
        for nm in names:
            tv, _ = self.block([then, {"kind": "__yield", "term": nm}])
            ev = nm
            if els is not None:
                ev, _ = self.block([els, {"kind": "__yield", "term": nm}])
            binds.append((nm, vs[nm], f"if {cond} then\n{indent(tv)}\nelse\n{indent(ev)}"))
        v, dfn = self.block(rest)
        pre = ""
        for nm, ti, t in binds:
            pre += f"let t_{nm} : BitVec {ti[0]} :=\n{indent(t)}\n"
        for nm, ti, t in binds:
            pre += f"let {nm} : BitVec {ti[0]} := t_{nm}\n"
        return (pre + v,
                f"{conj(cc)} &&\n(if {cond} then\n{indent(td)}\nelse\n{indent(ed)}) &&\n({pre}{dfn})")

    def add_table(self, d):
        q = ctype(d)
        # e.g. "const bool[128]"
        import re
        m = re.match(r"^const (\w+|_Bool)\s*\[(\d+)\]$", q.replace("  ", " "))
        if not m:
            raise Unsupported(f"static local {q}")
        ew = tinfo(m.group(1))[0]
        n = int(m.group(2))
        init = d["inner"][0]
        if init["kind"] != "InitListExpr":
            raise Unsupported("table initialiser")
        vals = []
        elems = init.get("inner", [])
        if "array_filler" in init and not elems:
            # clang 14 JSON: array_filler = [filler marker, element 0, element 1, ...]
            elems = init["array_filler"][1:]
        for e in elems:
            vals.append(const_eval(e))
        if len(vals) != n:
            # clang prints explicit elements then filler; pad with zeros
            if len(vals) > n:
                raise Unsupported("table length")
            vals += [0] * (n - len(vals))
        self.tables[d["name"]] = (ew, vals)

    def translate(self):
        n = self.node
        rq = n["type"]["qualType"].split("(")[0].strip()
        self.ret = None if rq == "void" else tinfo(rq)
        body = None
        for c in n.get("inner", []):
            if c["kind"] == "ParmVarDecl":
                q = ctype(c)
                if q.rstrip().endswith("*"):
                    # scalar out parameter: the function additionally yields the final value of *p; the value *p had
                    # on entry is a parameter, so "untouched on this path" is expressible
                    pt = tinfo(q.rstrip()[:-1].strip())
                    self.outs[c["name"]] = pt
                    self.params.append(("o_" + c["name"], pt))
                else:
                    self.params.append((self.var(c["name"]), tinfo(q)))
            elif c["kind"] == "CompoundStmt":
                body = c
        if body is None:
            raise Unsupported("no body")
        ln = self.tr.lean_name(self.name)
        out = []
        variants = []
        if self.ret is not None:
            self.mode = None
            v, dfn = self.block([body])
            variants.append((ln, self.ret[0], v, f"translated from C `{self.name}`"))
        for o, pt in self.outs.items():
            self.mode = o
            v, dfn = self.block([body])
            variants.append((f"{ln}_out_{o}", pt[0], v, f"translated from C `{self.name}`: the value of `*{o}` when it returns"))
        self.mode = None
        if not variants:
            raise Unsupported("function without a result")
        ps = " ".join(f"({p} : BitVec {t[0]})" for p, t in self.params + [("u_" + u, t) for u, t in self.uninit.items()])
        self.tr.fninfo[self.name] = {
            "params": [(p, t, p.startswith("o_")) for p, t in self.params],
            "outs": [p[2:] for p, t in self.params if p.startswith("o_")],
            "ret": self.ret, "uninit": list(self.uninit), "uninit_t": list(self.uninit.items())}
        for an, (ew, vals) in self.tables.items():
            # index type is not known here: emit for 32-bit index (int promotions)
            chain = ""
            for i, x in enumerate(vals):
                if x != 0:
                    chain += f"  if i == {lit(i, 32)} then {lit(x, ew)} else\n"
            out.append(f"def {ln}_{an} (i : BitVec 32) : BitVec {ew} :=\n{chain}  {lit(0, ew)}\n")
        for (nm, w, v, doc) in variants:
            out.append(f"/-- {doc} -/\ndef {nm} {ps} : BitVec {w} :=\n{indent(v)}\n")
        out.append(f"/-- no undefined shift / table read / signed overflow on the path taken by `{self.name}` -/\n"
                   f"def {ln}_defined {ps} : Bool :=\n{indent(dfn)}\n")
        return "\n".join(out)


def const_eval(e):
    k = e["kind"]
    if k in ("ImplicitCastExpr", "ParenExpr", "ConstantExpr", "CStyleCastExpr"):
        return const_eval(e["inner"][0])
    if k == "IntegerLiteral":
        return int(e["value"])
    if k == "ImplicitValueInitExpr":
        return 0
    raise Unsupported(f"constant {k}")


def const_eval_enum(tr, e):
    k = e["kind"]
    if k in ("ImplicitCastExpr", "ParenExpr", "CStyleCastExpr"):
        return const_eval_enum(tr, e["inner"][0])
    if k == "ConstantExpr":
        if "value" in e:
            return int(e["value"])
        return const_eval_enum(tr, e["inner"][0])
    if k == "IntegerLiteral":
        return int(e["value"])
    if k == "DeclRefExpr" and e["referencedDecl"]["kind"] == "EnumConstantDecl":
        return tr.enum_value(e["referencedDecl"]["name"])
    raise Unsupported(f"case label {k}")


def contains_return(s):
    if isinstance(s, dict):
        if s.get("kind") in ("ReturnStmt", "BreakStmt"):
            return True
        return any(contains_return(c) for c in s.get("inner", []))
    return False


def assigned(fn, s, out, local):
    """collect into `out` (lean name -> type) the variables a statement may assign, other than its own locals"""
    if not isinstance(s, dict):
        return
    k = s.get("kind")
    if k == "VarDecl":
        local.add(fn.var(s["name"]))
    if (k == "BinaryOperator" and s.get("opcode") == "=") or k == "CompoundAssignOperator" or \
            (k == "UnaryOperator" and s.get("opcode") in ("++", "--")):
        nm, ti = fn.lhs(s["inner"][0])
        if nm not in local:
            out[nm] = ti
    if k == "UnaryOperator" and s.get("opcode") == "&":
        nm, ti = fn.lhs(s["inner"][0])
        if nm not in local:
            out[nm] = ti
    for c in s.get("inner", []):
        assigned(fn, c, out, local)


def always_returns(s):
    k = s["kind"]
    if k == "ReturnStmt":
        return True
    if k == "CompoundStmt":
        inner = s.get("inner", [])
        return bool(inner) and always_returns(inner[-1])
    if k == "IfStmt":
        inner = s["inner"]
        return len(inner) > 2 and always_returns(inner[1]) and always_returns(inner[2])
    if k == "SwitchStmt":
        body = s["inner"][1]
        labs = body.get("inner", [])
        return any(c["kind"] == "DefaultStmt" for c in labs) and \
            all(always_returns(c["inner"][-1]) for c in labs if c["kind"] in ("CaseStmt", "DefaultStmt"))
    return False


def conj(cs):
    cs = [c for c in cs if c != "true"]
    if not cs:
        return "true"
    return "(" + " && ".join(cs) + ")"


def indent(s, n=2):
    return "\n".join(" " * n + l for l in s.split("\n"))


class Translator:
    def __init__(self, clang_args):
        self.clang_args = clang_args
        self.done = {}     # name -> lean text
        self.order = []
        self.files = []
        self.rename = {}
        self.unroll = {}
        self.global_tables = {}   # "<array>_<field>" -> (elemwidth, [values])
        self.fninfo = {}
        self.full = {}

    def lean_name(self, cname):
        return self.rename.get(cname, cname.lstrip("_"))

    def load(self, path):
        self.files.append(path)

    def ast_for(self, fname):
        for path in self.files:
            cmd = ["clang", "-std=c11", "-fsyntax-only", "-Xclang", "-ast-dump=json",
                   "-Xclang", f"-ast-dump-filter={fname}"] + self.clang_args + [path]
            r = subprocess.run(cmd, capture_output=True, text=True)
            if r.returncode != 0:
                raise Unsupported(f"clang failed on {path}: {r.stderr[:500]}")
            s = r.stdout
            dec = json.JSONDecoder()
            i = 0
            while i < len(s):
                while i < len(s) and s[i].isspace():
                    i += 1
                if i >= len(s):
                    break
                d, j = dec.raw_decode(s, i)
                i = j
                if d.get("kind") == "FunctionDecl" and d.get("name") == fname and \
                        any(c.get("kind") == "CompoundStmt" for c in d.get("inner", [])):
                    return d
        raise Unsupported(f"function {fname} not found with a body")

    def enum_value(self, name):
        """value of an enumeration constant, from clang's own evaluation in the AST"""
        for path in self.files:
            cmd = ["clang", "-std=c11", "-fsyntax-only", "-Xclang", "-ast-dump=json",
                   "-Xclang", f"-ast-dump-filter={name}"] + self.clang_args + [path]
            r = subprocess.run(cmd, capture_output=True, text=True)
            if r.returncode != 0:
                continue
            s = r.stdout
            dec = json.JSONDecoder()
            i = 0
            while i < len(s):
                while i < len(s) and s[i].isspace():
                    i += 1
                if i >= len(s):
                    break
                d, j = dec.raw_decode(s, i)
                i = j
                if d.get("kind") == "EnumConstantDecl" and d.get("name") == name:
                    def find(x):
                        if isinstance(x, dict):
                            if x.get("kind") == "ConstantExpr" and "value" in x:
                                return int(x["value"])
                            if x.get("kind") == "IntegerLiteral":
                                return int(x["value"])
                            for c in x.get("inner", []):
                                v = find(c)
                                if v is not None:
                                    return v
                        return None
                    v = find(d)
                    if v is not None:
                        return v
        raise Unsupported(f"value of enumeration constant {name}")

    def full_ast(self, path):
        if path not in self.full:
            cmd = ["clang", "-std=c11", "-fsyntax-only", "-Xclang", "-ast-dump=json"] + self.clang_args + [path]
            r = subprocess.run(cmd, capture_output=True, text=True)
            if r.returncode != 0:
                raise Unsupported(f"clang failed on {path}: {r.stderr[:500]}")
            self.full[path] = json.loads(r.stdout)
        return self.full[path]

    def global_const(self, name):
        """value of a file-scope `const` integer variable with a constant initialiser"""
        for path in self.files:
            tu = self.full_ast(path)
            for d in tu.get("inner", []):
                if d.get("kind") == "VarDecl" and d.get("name") == name and d.get("inner"):
                    if not ctype(d).startswith("const "):
                        raise Unsupported(f"file-scope variable {name} is not const")
                    return const_eval(d["inner"][0])
        raise Unsupported(f"file-scope constant {name} not found")

    def global_field_table(self, arr, field):
        """values of `field` over the initialiser of the file-scope const array of structs `arr`"""
        for path in self.files:
            tu = self.full_ast(path)
            fields = {}     # record decl id -> [field names]
            def walk(x):
                if isinstance(x, dict):
                    if x.get("kind") == "RecordDecl" and x.get("completeDefinition"):
                        fields[x["id"]] = [c["name"] for c in x.get("inner", []) if c.get("kind") == "FieldDecl"]
                    for c in x.get("inner", []):
                        walk(c)
            walk(tu)
            for d in tu.get("inner", []):
                if d.get("kind") == "VarDecl" and d.get("name") == arr and d.get("inner"):
                    q = ctype(d)
                    if not q.startswith("const "):
                        raise Unsupported(f"table {arr} is not const")
                    init = d["inner"][0]
                    if init["kind"] != "InitListExpr":
                        raise Unsupported("table initialiser")
                    vals = []
                    for e in init.get("inner", []):
                        if e["kind"] != "InitListExpr":
                            raise Unsupported("table element initialiser")
                        # field order of the element's record type
                        names = None
                        for fl in fields.values():
                            if field in fl and len(fl) == len(e.get("inner", [])):
                                if names is not None and names != fl:
                                    raise Unsupported("ambiguous record type for " + arr)
                                names = fl
                        if names is None:
                            raise Unsupported(f"record type of {arr} not found")
                        vals.append(const_eval(e["inner"][names.index(field)]))
                    m = __import__("re").search(r"\[(\d+)\]", q)
                    if not m or int(m.group(1)) != len(vals):
                        raise Unsupported(f"table {arr}: {len(vals)} initialisers")
                    return vals
        raise Unsupported(f"file-scope table {arr} not found with an initialiser")

    def require(self, fname):
        if fname in self.done:
            return
        self.done[fname] = None  # recursion guard
        fn = Fn(fname, self.ast_for(fname), self)
        text = fn.translate()
        self.done[fname] = text
        self.order.append(fname)


def main():
    import argparse
    ap = argparse.ArgumentParser()
    ap.add_argument("--out", required=True)
    ap.add_argument("--file", action="append", required=True)
    ap.add_argument("--fn", action="append", required=True)
    ap.add_argument("--unroll", action="append", default=[], help="fn=N: unroll the loops of fn N times")
    ap.add_argument("clang_args", nargs="*")
    a = ap.parse_args()
    tr = Translator(a.clang_args)
    for u in a.unroll:
        k_, v_ = u.split("=")
        tr.unroll[k_] = int(v_)
    for f in a.file:
        tr.load(f)
    for fn in a.fn:
        tr.require(fn)
    with open(a.out, "w") as f:
        f.write("/- GENERATED by tools/c2lean.py from the uber/h3 working tree (clang AST). Do not edit. -/\n")
        f.write("set_option linter.unusedVariables false\nset_option maxHeartbeats 4000000\nset_option maxRecDepth 16000\nnamespace H3.Gen.Bits\n\n")
        for key, (ew, vals) in tr.global_tables.items():
            chain = ""
            for i, x in enumerate(vals):
                if x != 0:
                    chain += f"  if i == {lit(i, 32)} then {lit(x, ew)} else\n"
            f.write(f"/-- `{key}`: read from the initialiser in the C source -/\n"
                    f"def tbl_{key} (i : BitVec 32) : BitVec {ew} :=\n{chain}  {lit(0, ew)}\n\n")
        for name in tr.order:
            f.write(tr.done[name] + "\n")
        f.write("end H3.Gen.Bits\n")


if __name__ == "__main__":
    try:
        main()
    except Unsupported as e:
        print(f"c2lean: unsupported construct: {e}", file=sys.stderr)
        sys.exit(3)
