#!/usr/bin/env python3
"""C18: list every object with static storage duration in src/h3lib/lib/*.c (file-scope variables and
function-local statics) together with the syntactic kind of every reference to it, from clang's JSON AST
(optimisation independent), and emit it as Lean data (Generated/Globals.lean).

access kinds:  read        the object (or an element / member of it) is only loaded
               addr_const  its address (or a decayed array pointer) flows into a pointer-to-const
               store       assignment / compound assignment / ++ / --
               addr_mut    its address flows into a pointer to non-const (could be written through)
               other       anything the scan does not understand (treated as not read-only)
"""
import argparse, glob, json, os, subprocess, sys

REPO = os.environ.get("H3_REPO", "/repo")
LIBSRC = os.path.join(REPO, "src/h3lib/lib")
LIBINC = os.path.join(REPO, "src/h3lib/include")


def ast(path, inc):
    cmd = ["clang", "-std=c11", "-fsyntax-only", "-Xclang", "-ast-dump=json", "-I", inc, "-I", LIBINC,
           "-DH3_PREFIX=", "-UNDEBUG", path]
    r = subprocess.run(cmd, capture_output=True, text=True)
    if r.returncode != 0:
        raise SystemExit(f"clang failed on {path}: {r.stderr[:500]}")
    return json.loads(r.stdout)


def qual(n):
    t = n.get("type", {})
    return t.get("qualType", "")


def is_const_object(q):
    """top-level const of the object / of the array elements (e.g. `const int[122][7]`, `char *const`)"""
    q = q.strip()
    base = q.split("[")[0].strip()
    if base.endswith("*"):
        return False          # pointer object itself not const  (e.g. `char *` elements)
    if base.endswith("*const") or base.endswith("* const"):
        return True
    return base.startswith("const ") or " const" in base.split("*")[-1]


def pointee_const(q):
    """is `q` a pointer type whose pointee is const"""
    q = q.strip()
    if not q.endswith("*") and "(*)" not in q:
        # strip trailing qualifiers of the pointer itself
        q2 = q
        for suf in ("const", "restrict", "volatile"):
            if q2.endswith(suf):
                q2 = q2[: -len(suf)].strip()
        q = q2
    if "(*)" in q:            # pointer to array, e.g. `const int (*)[7]`
        return q.startswith("const ")
    if not q.endswith("*"):
        return False
    inner = q[:-1].strip()
    # the pointee is itself a pointer: it is const only when that pointer is (`T *const *`); `const T **` points
    # to a writable `const T *`
    if inner.endswith("*const") or inner.endswith("* const"):
        return True
    if inner.endswith("*") or "*" in inner:
        return False
    return inner.startswith("const ") or inner.endswith(" const")


def scan_file(path, inc):
    tree = ast(path, inc)
    statics = {}   # id -> dict
    fname = os.path.basename(path)

    def collect(n, in_func, main_file):
        k = n.get("kind")
        loc = n.get("loc", {})
        if k == "VarDecl":
            sc = n.get("storageClass")
            is_static_storage = (not in_func and sc != "extern") or (in_func and sc == "static")
            # only objects defined in this translation unit's own file or its headers' statics
            # (function-local statics count with or without an initialiser: `static T scratch[16];`)
            if is_static_storage and sc != "extern":
                statics[n["id"]] = {"name": n.get("name", "?"), "type": qual(n), "local": in_func,
                                    "const": is_const_object(qual(n)), "accesses": {}}
        for c in n.get("inner", []):
            collect(c, in_func or k == "FunctionDecl", main_file)

    collect(tree, False, True)

    def classify(stack):
        """stack: ancestors from root to the DeclRefExpr (last)"""
        i = len(stack) - 1
        while i > 0:
            node, parent = stack[i], stack[i - 1]
            pk = parent.get("kind")
            if pk == "ParenExpr":
                i -= 1; continue
            if pk == "MemberExpr":
                i -= 1; continue
            if pk == "ArraySubscriptExpr":
                if parent["inner"][0] is node:
                    i -= 1; continue
                return "read"     # used as the index
            if pk == "ImplicitCastExpr":
                ck = parent.get("castKind")
                if ck == "LValueToRValue":
                    return "read"
                if ck == "ArrayToPointerDecay":
                    # base of a subscript -> keep climbing, else the pointer value escapes
                    if i - 2 >= 0 and stack[i - 2].get("kind") == "ArraySubscriptExpr" and stack[i - 2]["inner"][0] is parent:
                        i -= 1; continue
                    # follow NoOp casts to the final pointer type
                    j = i - 1
                    q = qual(parent)
                    while j - 1 >= 0 and stack[j - 1].get("kind") in ("ImplicitCastExpr", "ParenExpr", "CStyleCastExpr") \
                            and stack[j - 1].get("castKind", "NoOp") in ("NoOp", "BitCast"):
                        j -= 1
                        q = qual(stack[j])
                    return "addr_const" if pointee_const(q) else "addr_mut"
                if ck in ("NoOp",):
                    i -= 1; continue
                return "other"
            if pk == "UnaryOperator":
                op = parent.get("opcode")
                if op in ("++", "--"):
                    return "store"
                if op == "&":
                    j = i - 1
                    q = qual(parent)
                    while j - 1 >= 0 and stack[j - 1].get("kind") in ("ImplicitCastExpr", "ParenExpr", "CStyleCastExpr") \
                            and stack[j - 1].get("castKind", "NoOp") in ("NoOp", "BitCast"):
                        j -= 1
                        q = qual(stack[j])
                    return "addr_const" if pointee_const(q) else "addr_mut"
                return "other"
            if pk in ("BinaryOperator", "CompoundAssignOperator"):
                op = parent.get("opcode", "")
                if (op == "=" or pk == "CompoundAssignOperator") and parent["inner"][0] is node:
                    return "store"
                return "other"
            if pk == "UnaryExprOrTypeTraitExpr":     # sizeof(x)
                return "read"
            return "other"
        return "other"

    def walk(n, stack):
        stack.append(n)
        if n.get("kind") == "DeclRefExpr":
            rid = n.get("referencedDecl", {}).get("id")
            if rid in statics:
                kind = classify(stack)
                acc = statics[rid]["accesses"]
                acc[kind] = acc.get(kind, 0) + 1
        for c in n.get("inner", []):
            walk(c, stack)
        stack.pop()

    walk(tree, [])
    out = []
    for s in statics.values():
        s["file"] = fname
        out.append(s)
    return out


def main():
    ap = argparse.ArgumentParser()
    ap.add_argument("--out", required=True)
    ap.add_argument("--inc", required=True)
    a = ap.parse_args()
    rows = []
    seen = set()
    for path in sorted(glob.glob(os.path.join(LIBSRC, "*.c"))):
        for s in scan_file(path, a.inc):
            # header-defined statics (UNIT_VECS) appear in several TUs: merge by (name, type)
            key = (s["name"], s["type"], s["file"] if s["local"] or not s["name"].isupper() else "")
            rows.append(s)
    # merge duplicates coming from headers
    merged = {}
    for s in rows:
        key = (s["name"], s["type"]) if s["name"] == "UNIT_VECS" else (s["file"], s["name"], s["type"])
        if key in merged:
            for k, v in s["accesses"].items():
                merged[key]["accesses"][k] = merged[key]["accesses"].get(k, 0) + v
        else:
            merged[key] = s
    with open(a.out, "w") as f:
        f.write("/- GENERATED by tools/globals_scan.py from the uber/h3 working tree (clang AST). Do not edit. -/\n")
        f.write("namespace H3.Gen\n\n")
        f.write("structure Global where\n  file : String\n  name : String\n  ctype : String\n  isConst : Bool\n"
                "  isLocalStatic : Bool\n  reads : Nat\n  addrConst : Nat\n  stores : Nat\n  addrMut : Nat\n  other : Nat\n"
                "  deriving Repr, DecidableEq\n\n")
        f.write("def globals : List Global := [\n")
        items = sorted(merged.values(), key=lambda s: (s["file"], s["name"]))
        for i, s in enumerate(items):
            acc = s["accesses"]
            f.write('  { file := "%s", name := "%s", ctype := "%s", isConst := %s, isLocalStatic := %s, reads := %d, '
                    'addrConst := %d, stores := %d, addrMut := %d, other := %d }%s\n' % (
                        s["file"], s["name"], s["type"].replace('"', "'"), "true" if s["const"] else "false",
                        "true" if s["local"] else "false", acc.get("read", 0), acc.get("addr_const", 0),
                        acc.get("store", 0), acc.get("addr_mut", 0), acc.get("other", 0),
                        "," if i + 1 < len(items) else ""))
        f.write("]\n\nend H3.Gen\n")


if __name__ == "__main__":
    main()
