/-
cellsToLinkedMultiPolygon — the combinatorial core, over exact vertex identities.

`h3SetToVertexGraph` (algos.c) adds every directed boundary edge of every cell unless its reverse is
already present, in which case it removes the reverse; `_vertexGraphToLinkedGeo` then repeatedly takes a
remaining edge, and walks: emit the edge's start vertex, remove the edge, continue with an edge that
starts where it ended, until there is none.  Vertices are abstract here (`V` with decidable
equality); the executable instance uses the canonical vertex indexes of `cellToVertex` (Class II
resolutions, where a cell boundary is exactly its topological vertices).  The floating-point vertex
matching of the C code (`_hashVertex`, `geoAlmostEqual`) is outside the model.
-/
import H3Model.EdgeVertex

namespace H3.MP

variable {V : Type} [DecidableEq V]

/-- directed boundary edges of a cell given as the cyclic list of its vertices -/
def cellEdges (vs : List V) : List (V × V) :=
  match vs with
  | [] => []
  | v :: rest => (v :: rest).zip (rest ++ [v])

/-- `h3SetToVertexGraph`'s treatment of one edge: cancel against the reverse if present -/
def addEdge (g : List (V × V)) (e : V × V) : List (V × V) :=
  if g.contains (e.2, e.1) then g.erase (e.2, e.1) else e :: g

def addCell (g : List (V × V)) (vs : List V) : List (V × V) := (cellEdges vs).foldl addEdge g

/-- the vertex graph after all cells -/
def vertexGraph (cells : List (List V)) : List (V × V) := cells.foldl addCell []

/-- the inner `do … while (edge)` of `_vertexGraphToLinkedGeo`: (loop vertices, remaining graph) -/
def walk (fuel : Nat) (g : List (V × V)) (e : V × V) : List V × List (V × V) :=
  match fuel with
  | 0 => ([e.1], g.erase e)
  | fuel + 1 =>
    let g' := g.erase e
    match g'.find? (fun x => x.1 == e.2) with
    | none => ([e.1], g')
    | some nx =>
      let r := walk fuel g' nx
      (e.1 :: r.1, r.2)

/-- the outer `while ((edge = firstVertexNode(graph)))` -/
def extract (fuel : Nat) (g : List (V × V)) : List (List V) :=
  match fuel with
  | 0 => []
  | fuel + 1 =>
    match g with
    | [] => []
    | e :: _ =>
      let r := walk g.length g e
      r.1 :: extract fuel r.2

def extractLoops (g : List (V × V)) : List (List V) := extract g.length g

end H3.MP

namespace H3
open H3.MP

/-- rotate a cyclic vertex list so that it starts at its least element (canonical form of a loop) -/
def canonLoop (vs : List (BitVec 64)) : List (BitVec 64) :=
  match vs with
  | [] => []
  | v :: rest =>
    let m := rest.foldl (fun a b => if b.toNat < a.toNat then b else a) v
    let i := (v :: rest).idxOf m
    (v :: rest).drop i ++ (v :: rest).take i

/-- loops of `cellsToLinkedMultiPolygon` before normalisation, as canonical cyclic lists of vertex
indexes (Class II resolutions: a cell's boundary is the cyclic list of its vertexes 0..5 / 0..4) -/
def multiPolyLoops (cells : List (BitVec 64)) : R (List (List (BitVec 64))) := do
  let vss ← cells.mapM (fun c => do
    let vs ← cellToVertexes c
    pure (vs.filter (· != 0#64)))
  pure ((extractLoops (vertexGraph vss)).map canonLoop)

end H3
