/-
localij.c: cellToLocalIjk, localIjkToCell, cellToLocalIj, localIjToCell, gridDistance,
gridPathCellsSize, gridPathCells (interpolation in IEEE doubles, as in C).
-/
import H3Model.Neighbor

namespace H3

def PENTAGON_ROTATIONS (a b : Nat) : Int := tbl2 H3.Gen.PENTAGON_ROTATIONS a b
def PENTAGON_ROTATIONS_REVERSE (a b : Nat) : Int := tbl2 H3.Gen.PENTAGON_ROTATIONS_REVERSE a b
def PENTAGON_ROTATIONS_REVERSE_NONPOLAR (a b : Nat) : Int := tbl2 H3.Gen.PENTAGON_ROTATIONS_REVERSE_NONPOLAR a b
def PENTAGON_ROTATIONS_REVERSE_POLAR (a b : Nat) : Int := tbl2 H3.Gen.PENTAGON_ROTATIONS_REVERSE_POLAR a b
def FAILED_DIRECTIONS (a b : Nat) : Bool := tbl2 H3.Gen.FAILED_DIRECTIONS a b != 0

/-- `_getBaseCellDirection`: 7 when not adjacent -/
def getBaseCellDirection (o n : Nat) : Nat :=
  match (List.range 7).find? (fun d => bcNeighbor o d == n) with
  | some d => d
  | none => 7

/-- `_h3ToFaceIjkWithInitializedFijk` on the coordinate part: digits applied from `c` -/
def h3ToIjkFrom (h : BitVec 64) (c : CoordIJK) : CoordIJK :=
  (List.range' 1 (getRes h)).foldl (fun c r =>
    let c := if isResClassIII r then downAp7 c else downAp7r c
    ijkNeighbor c (getDigit h r)) c

/-- `cellToLocalIjk` -/
def cellToLocalIjk (origin h3 : BitVec 64) : R CoordIJK := do
  let res := getRes origin
  if res != getRes h3 then throw .resMismatch
  let originBaseCell := getBaseCell origin
  let baseCell := getBaseCell h3
  if originBaseCell >= 122 then throw .cellInvalid
  if baseCell >= 122 then throw .cellInvalid
  let mut dir := 0
  let mut revDir := 0
  if originBaseCell != baseCell then
    dir := getBaseCellDirection originBaseCell baseCell
    if dir == 7 then throw .failed
    revDir := getBaseCellDirection baseCell originBaseCell
  let originOnPent := isBaseCellPentagon originBaseCell
  let indexOnPent := isBaseCellPentagon baseCell
  let mut h3 := h3
  if dir != 0 then
    let baseCellRotations := (bcNeighborRot originBaseCell dir).toNat
    if indexOnPent then
      for _ in [0:baseCellRotations] do
        h3 := h3RotatePent60cw h3
        revDir := rotate60cw revDir
        if revDir == 1 then revDir := rotate60cw revDir
    else
      for _ in [0:baseCellRotations] do
        h3 := h3Rotate60cw h3
        revDir := rotate60cw revDir
  let mut coord := h3ToIjkFrom h3 ⟨0, 0, 0⟩
  if dir != 0 then
    let mut pentagonRotations : Int := 0
    let mut directionRotations : Int := 0
    if originOnPent then
      let originLeadingDigit := leadingNonZeroDigit origin
      if originLeadingDigit == 7 then throw .cellInvalid
      if FAILED_DIRECTIONS originLeadingDigit dir then throw .failed
      directionRotations := PENTAGON_ROTATIONS originLeadingDigit dir
      pentagonRotations := directionRotations
    else if indexOnPent then
      let indexLeadingDigit := leadingNonZeroDigit h3
      if indexLeadingDigit == 7 then throw .cellInvalid
      if FAILED_DIRECTIONS indexLeadingDigit revDir then throw .failed
      pentagonRotations := PENTAGON_ROTATIONS revDir indexLeadingDigit
    if pentagonRotations < 0 || directionRotations < 0 then throw .cellInvalid
    coord := iterate ijkRotate60cw pentagonRotations.toNat coord
    let mut offset := ijkNeighbor ⟨0, 0, 0⟩ dir
    -- for (r = res-1; r >= 0; r--): level r+1 from res down to 1
    for k in [0:res] do
      let level := res - k
      offset := if isResClassIII level then downAp7 offset else downAp7r offset
    offset := iterate ijkRotate60cw directionRotations.toNat offset
    coord := (coord.add offset).normalize
  else if originOnPent && indexOnPent then
    let originLeadingDigit := leadingNonZeroDigit origin
    let indexLeadingDigit := leadingNonZeroDigit h3
    if originLeadingDigit == 7 || indexLeadingDigit == 7 then throw .cellInvalid
    if FAILED_DIRECTIONS originLeadingDigit indexLeadingDigit then throw .failed
    let w := PENTAGON_ROTATIONS originLeadingDigit indexLeadingDigit
    coord := iterate ijkRotate60cw w.toNat coord
  pure coord

/-- the digit-extraction loop of `localIjkToCell` / `_faceIjkToH3` with checked steps:
returns the index with digits set and the remaining base-cell level coordinate -/
def ijkToDigitsChecked (out : BitVec 64) (ijk : CoordIJK) (res : Nat) : R (BitVec 64 × CoordIJK) :=
  (List.range res).foldlM (init := (out, ijk)) fun (out, c) k => do
    let level := res - k     -- r + 1
    let last := c
    let (c', center) ←
      if isResClassIII level then do
        let u ← upAp7Checked c
        pure (u, downAp7 u)
      else do
        let u ← upAp7rChecked c
        pure (u, downAp7r u)
    let diff := (last.sub center).normalize
    pure (setDigit out level (unitIjkToDigit diff), c')

/-- `localIjkToCell` -/
def localIjkToCell (origin : BitVec 64) (ijk : CoordIJK) : R (BitVec 64) := do
  let res := getRes origin
  let originBaseCell := getBaseCell origin
  if originBaseCell >= 122 then throw .cellInvalid
  let originOnPent := isBaseCellPentagon originBaseCell
  let out0 := setRes (setMode H3_INIT 1) res
  if res == 0 then
    let dir := unitIjkToDigit ijk
    if dir == 7 then throw .failed
    let newBaseCell := bcNeighbor originBaseCell dir
    if newBaseCell == 127 then throw .failed
    return setBaseCell out0 newBaseCell
  let (out1, ijkCopy) ← ijkToDigitsChecked out0 ijk res
  if ijkCopy.i > 1 || ijkCopy.j > 1 || ijkCopy.k > 1 then throw .failed
  let mut out := out1
  let mut dir := unitIjkToDigit ijkCopy
  let mut baseCell := bcNeighbor originBaseCell dir
  let indexOnPent := if baseCell == 127 then false else isBaseCellPentagon baseCell
  if dir != 0 then
    let mut pentagonRotations : Int := 0
    if originOnPent then
      let originLeadingDigit := leadingNonZeroDigit origin
      if originLeadingDigit == 7 then throw .cellInvalid
      pentagonRotations := PENTAGON_ROTATIONS_REVERSE originLeadingDigit dir
      dir := iterate rotate60ccw pentagonRotations.toNat dir
      if dir == 1 then throw .pentagon
      baseCell := bcNeighbor originBaseCell dir
    let baseCellRotations := (bcNeighborRot originBaseCell dir).toNat
    if indexOnPent then
      let revDir := getBaseCellDirection baseCell originBaseCell
      out := iterate h3Rotate60ccw baseCellRotations out
      let indexLeadingDigit := leadingNonZeroDigit out
      if indexLeadingDigit == 7 then throw .cellInvalid
      pentagonRotations :=
        if isBaseCellPolarPentagon baseCell then PENTAGON_ROTATIONS_REVERSE_POLAR revDir indexLeadingDigit
        else PENTAGON_ROTATIONS_REVERSE_NONPOLAR revDir indexLeadingDigit
      if pentagonRotations < 0 then throw .cellInvalid
      out := iterate h3RotatePent60ccw pentagonRotations.toNat out
    else
      if pentagonRotations < 0 then throw .cellInvalid
      out := iterate h3Rotate60ccw pentagonRotations.toNat out
      out := iterate h3Rotate60ccw baseCellRotations out
  else if originOnPent && indexOnPent then
    let originLeadingDigit := leadingNonZeroDigit origin
    let indexLeadingDigit := leadingNonZeroDigit out
    if originLeadingDigit == 7 || indexLeadingDigit == 7 then throw .cellInvalid
    let w := PENTAGON_ROTATIONS_REVERSE originLeadingDigit indexLeadingDigit
    if w < 0 then throw .cellInvalid
    out := iterate h3Rotate60ccw w.toNat out
  if indexOnPent then
    if leadingNonZeroDigit out == 1 then throw .pentagon
  pure (setBaseCell out baseCell)

/-- `cellToLocalIj` (mode is a uint32) -/
def cellToLocalIj (origin index : BitVec 64) (mode : Nat) : R CoordIJ :=
  if mode != 0 then .error .optionInvalid
  else match cellToLocalIjk origin index with
    | .error e => .error e
    | .ok c => .ok (ijkToIj c)

/-- `localIjToCell` -/
def localIjToCell (origin : BitVec 64) (ij : CoordIJ) (mode : Nat) : R (BitVec 64) :=
  if mode != 0 then .error .optionInvalid
  else match ijToIjk ij with
    | .error e => .error e
    | .ok c => localIjkToCell origin c

/-- `gridDistance` -/
def gridDistance (origin index : BitVec 64) : R Int := do
  let a ← cellToLocalIjk origin origin
  let b ← cellToLocalIjk origin index
  pure (ijkDistance a b)

/-- `gridPathCellsSize` -/
def gridPathCellsSize (s e : BitVec 64) : R Int := do
  let d ← gridDistance s e
  pure (d + 1)

/-- the operations `cubeRound` uses, so that it can be instantiated with IEEE doubles (execution,
bit-identical to C) and with exact rationals (theorems) -/
class RoundField (α : Type) where
  ofInt : Int → α
  sub : α → α → α
  abs : α → α
  gt : α → α → Bool
  /-- C `(int)round(x)`: nearest integer, halves away from zero -/
  roundInt : α → Int

/-- `cubeRound` (localij.c:633), generic -/
def cubeRoundG {α : Type} [RoundField α] (i j k : α) : CoordIJK :=
  let ri := RoundField.roundInt i
  let rj := RoundField.roundInt j
  let rk := RoundField.roundInt k
  let iDiff := RoundField.abs (RoundField.sub (RoundField.ofInt ri : α) i)
  let jDiff := RoundField.abs (RoundField.sub (RoundField.ofInt rj : α) j)
  let kDiff := RoundField.abs (RoundField.sub (RoundField.ofInt rk : α) k)
  if RoundField.gt iDiff jDiff && RoundField.gt iDiff kDiff then ⟨-rj - rk, rj, rk⟩
  else if RoundField.gt jDiff kDiff then ⟨ri, -ri - rk, rk⟩
  else ⟨ri, rj, -ri - rj⟩

instance : RoundField Float where
  ofInt := Float.ofInt
  sub := (· - ·)
  abs := Float.abs
  gt a b := a > b
  roundInt x := (Float.round x).toInt64.toInt

/-- `cubeRound` on IEEE doubles exactly as in C -/
def cubeRound (i j k : Float) : CoordIJK := cubeRoundG i j k

/-- `gridPathCells`: (error?, cells written so far) -/
def gridPathCells (s e : BitVec 64) : Option H3Error × Array (BitVec 64) :=
  match gridDistance s e with
  | .error err => (some err, #[])
  | .ok distance =>
    match cellToLocalIjk s s, cellToLocalIjk s e with
    | .ok a, .ok b =>
      let a := ijkToCube a
      let b := ijkToCube b
      let inv : Float := if distance != 0 then 1.0 / Float.ofInt distance else 0
      let iStep := Float.ofInt (b.i - a.i) * inv
      let jStep := Float.ofInt (b.j - a.j) * inv
      let kStep := Float.ofInt (b.k - a.k) * inv
      let rec go (n : Nat) (fuel : Nat) (out : Array (BitVec 64)) : Option H3Error × Array (BitVec 64) :=
        match fuel with
        | 0 => (none, out)
        | fuel + 1 =>
          let nf := Float.ofNat n
          let c := cubeRound (Float.ofInt a.i + iStep * nf) (Float.ofInt a.j + jStep * nf)
                     (Float.ofInt a.k + kStep * nf)
          match localIjkToCell s (cubeToIjk c) with
          | .error err => (some err, out)
          | .ok cell => go (n + 1) fuel (out.push cell)
      go 0 (distance.toNat + 1) #[]
    | .error err, _ => (some err, #[])
    | _, .error err => (some err, #[])

end H3
