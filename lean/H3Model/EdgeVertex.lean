/-
directedEdge.c and vertex.c (topology): areNeighborCells, directed edges, vertexRotations,
vertexNumForDirection, directionForVertexNum, cellToVertex(es), isValidVertex.
-/
import H3Model.FaceIjk
import H3Model.Disk

namespace H3
open H3.Gen.Bits

@[inline] def setReservedInt (h : BitVec 64) (v : Int) : BitVec 64 := m_set_reserved h (BitVec.ofInt 32 v)

def neighborSetClockwise : List Nat := [0, 3, 6, 2, 5, 1, 4]
def neighborSetCounterclockwise : List Nat := [0, 5, 3, 1, 6, 4, 2]

/-- the sibling shortcut of `areNeighborCells`: `some answer` when it decides, `none` to fall
through to the gridDisk search -/
def neighborShortcut (origin destination : BitVec 64) : R (Option Bool) := do
  if getMode origin != 1 || getMode destination != 1 then throw .cellInvalid
  if origin == destination then return some false
  if getRes origin != getRes destination then throw .resMismatch
  let parentRes : Int := (getRes origin : Int) - 1
  if parentRes > 0 then
    let op := match cellToParent origin parentRes with | .ok p => p | .error _ => 0#64
    let dp := match cellToParent destination parentRes with | .ok p => p | .error _ => 0#64
    if op == dp then
      let od := getDigit origin (parentRes.toNat + 1)
      let dd := getDigit destination (parentRes.toNat + 1)
      if od == 0 || dd == 0 then return some true
      if od >= 7 then throw .cellInvalid
      if (od == 1 || dd == 1) && isPentagon op then throw .cellInvalid
      if neighborSetClockwise.getD od 0 == dd || neighborSetCounterclockwise.getD od 0 == dd then
        return some true
  return none

/-- `areNeighborCells` with its allocations (the inner `gridDisk(origin, 1, ring)`; its error is
propagated — uber/h3 after the `fix:` commit recorded in known_findings.txt) -/
def areNeighborCellsA (sched : Nat → Bool) (origin destination : BitVec 64) (a : AState) : R Bool × AState :=
  match neighborShortcut origin destination with
  | .error e => (.error e, a)
  | .ok (some b) => (.ok b, a)
  | .ok none =>
    match gridDiskDistancesA sched origin 1 false a with
    | (.error e, a) => (.error e, a)
    | (.ok (ring, _), a) => (.ok (ring.any (· == destination)), a)

/-- `areNeighborCells` -/
def areNeighborCells (origin destination : BitVec 64) : R Bool :=
  (areNeighborCellsA noFail origin destination {}).1

/-- `cellsToDirectedEdge` -/
def cellsToDirectedEdge (origin destination : BitVec 64) : R (BitVec 64) :=
  let d := directionForNeighbor origin destination
  if d == 7 then .error .notNeighbors
  else .ok (setReserved (setMode origin 2) d)

/-- `getDirectedEdgeOrigin` -/
def getDirectedEdgeOrigin (edge : BitVec 64) : R (BitVec 64) :=
  if getMode edge != 2 then .error .dirEdgeInvalid
  else .ok (setReserved (setMode edge 1) 0)

/-- `getDirectedEdgeDestination` -/
def getDirectedEdgeDestination (edge : BitVec 64) : R (BitVec 64) := do
  let direction := getReserved edge
  let origin ← getDirectedEdgeOrigin edge
  let (out, _) ← h3NeighborRotations origin direction 0
  pure out

/-- `isValidDirectedEdge` -/
def isValidDirectedEdge (edge : BitVec 64) : Bool :=
  let d := getReserved edge
  if d <= 0 || d >= 7 then false
  else match getDirectedEdgeOrigin edge with
    | .error _ => false
    | .ok origin =>
      if isPentagon origin && d == 1 then false else isValidCell origin

/-- `directedEdgeToCells` -/
def directedEdgeToCells (edge : BitVec 64) : R (BitVec 64 × BitVec 64) := do
  let o ← getDirectedEdgeOrigin edge
  let d ← getDirectedEdgeDestination edge
  pure (o, d)

/-- `originToDirectedEdges` -/
def originToDirectedEdges (origin : BitVec 64) : List (BitVec 64) :=
  let isPent := isPentagon origin
  (List.range 6).map fun i =>
    if isPent && i == 0 then 0#64 else setReserved (setMode origin 2) (i + 1)

/-! ### vertex.c -/

/-- `_baseCellToCCWrot60` -/
def baseCellToCCWrot60 (baseCell : Nat) (face : Int) : Int :=
  if face < 0 || face > 20 then -1
  else
    match (List.range 27).find? (fun n =>
        (H3.Gen.faceIjkBaseCells.getD (face.toNat * 27 + n) []).getD 0 (-1) == (baseCell : Int)) with
    | some n => (H3.Gen.faceIjkBaseCells.getD (face.toNat * 27 + n) []).getD 1 (-1)
    | none => -1

/-- `pentagonDirectionFaces` row of a pentagon base cell -/
def pentDirFaces (baseCell : Nat) : Option (List Int) :=
  (H3.Gen.pentagonDirectionFaces.find? (fun r => r.getD 0 (-1) == (baseCell : Int))).map (·.drop 1)

/-- `vertexRotations` -/
def vertexRotations (cell : BitVec 64) : R Int := do
  let fijk ← h3ToFaceIjk cell
  let baseCell := getBaseCell cell
  let cellLeadingDigit := leadingNonZeroDigit cell
  let baseFace := (homeFijk baseCell).face
  let mut ccwRot60 := baseCellToCCWrot60 baseCell fijk.face
  if isBaseCellPentagon baseCell then
    match pentDirFaces baseCell with
    | none => throw .failed
    | some faces =>
      let faceIK := faces.getD (5 - 2) (-2)
      let faceJK := faces.getD (3 - 2) (-2)
      if fijk.face != baseFace && (isBaseCellPolarPentagon baseCell || fijk.face == faceIK) then
        ccwRot60 := Int.tmod (ccwRot60 + 1) 6
      if cellLeadingDigit == 3 && fijk.face == faceIK then
        ccwRot60 := Int.tmod (ccwRot60 + 5) 6
      else if cellLeadingDigit == 5 && fijk.face == faceJK then
        ccwRot60 := Int.tmod (ccwRot60 + 1) 6
  pure ccwRot60

def directionToVertexNumHex (d : Nat) : Int := tbl1 H3.Gen.directionToVertexNumHex d
def directionToVertexNumPent (d : Nat) : Int := tbl1 H3.Gen.directionToVertexNumPent d
def vertexNumToDirectionHex (v : Nat) : Nat := (tbl1 H3.Gen.vertexNumToDirectionHex v).toNat
def vertexNumToDirectionPent (v : Nat) : Nat := (tbl1 H3.Gen.vertexNumToDirectionPent v).toNat
def VERTEX_DIRECTIONS (i : Nat) : Nat := (tbl1 H3.Gen.VERTEX_DIRECTIONS i).toNat
def revNeighborDirectionsHex (d : Nat) : Int := tbl1 H3.Gen.revNeighborDirectionsHex d

/-- `vertexNumForDirection`: −1 = INVALID_VERTEX_NUM -/
def vertexNumForDirection (origin : BitVec 64) (direction : Nat) : Int :=
  let isPent := isPentagon origin
  if direction == 0 || direction >= 7 || (isPent && direction == 1) then -1
  else match vertexRotations origin with
    | .error _ => -1
    | .ok rotations =>
      if isPent then Int.tmod (directionToVertexNumPent direction + 5 - rotations) 5
      else Int.tmod (directionToVertexNumHex direction + 6 - rotations) 6

/-- `directionForVertexNum`: 7 = INVALID_DIGIT -/
def directionForVertexNum (origin : BitVec 64) (vertexNum : Int) : Nat :=
  let isPent := isPentagon origin
  if vertexNum < 0 || vertexNum > (if isPent then 5 else 6) - 1 then 7
  else match vertexRotations origin with
    | .error _ => 7
    | .ok rotations =>
      if isPent then vertexNumToDirectionPent (Int.tmod (vertexNum + rotations) 5).toNat
      else vertexNumToDirectionHex (Int.tmod (vertexNum + rotations) 6).toNat

/-- `cellToVertex` -/
def cellToVertex (cell : BitVec 64) (vertexNum : Int) : R (BitVec 64) := do
  let cellIsPentagon := isPentagon cell
  let cellNumVerts : Int := if cellIsPentagon then 5 else 6
  let res := getRes cell
  if vertexNum < 0 || vertexNum > cellNumVerts - 1 then throw .domain
  let mut owner := cell
  let mut ownerVertexNum : Int := vertexNum
  if res == 0 || getDigit cell res != 0 then
    let left := directionForVertexNum cell vertexNum
    if left == 7 then throw .failed
    let (leftNeighbor, lRotations) ← h3NeighborRotations cell left 0
    if leftNeighbor.toNat < owner.toNat then owner := leftNeighbor
    if res == 0 || getDigit leftNeighbor res != 0 then
      let right := directionForVertexNum cell (Int.tmod (vertexNum - 1 + cellNumVerts) cellNumVerts)
      if right == 7 then throw .failed
      let (rightNeighbor, rRotations) ← h3NeighborRotations cell right 0
      if rightNeighbor.toNat < owner.toNat then
        owner := rightNeighbor
        let dir :=
          if isPentagon owner then directionForNeighbor owner cell
          else VERTEX_DIRECTIONS (Int.tmod (revNeighborDirectionsHex right + rRotations) 6).toNat
        ownerVertexNum := vertexNumForDirection owner dir
    if owner == leftNeighbor then
      let ownerIsPentagon := isPentagon owner
      let dir :=
        if ownerIsPentagon then directionForNeighbor owner cell
        else VERTEX_DIRECTIONS (Int.tmod (revNeighborDirectionsHex left + lRotations) 6).toNat
      ownerVertexNum := vertexNumForDirection owner dir + 1
      if ownerVertexNum == 6 || (ownerIsPentagon && ownerVertexNum == 5) then
        ownerVertexNum := 0
  pure (setReservedInt (setMode owner 4) ownerVertexNum)

/-- `cellToVertexes`: six slots -/
def cellToVertexes (cell : BitVec 64) : R (List (BitVec 64)) :=
  let isPent := isPentagon cell
  (List.range 6).mapM fun (i : Nat) =>
    if i == 5 && isPent then .ok 0#64 else cellToVertex cell (i : Int)

/-- `isValidVertex` -/
def isValidVertex (vertex : BitVec 64) : Bool :=
  if getMode vertex != 4 then false
  else
    let vertexNum := getReserved vertex
    let owner := setReserved (setMode vertex 1) 0
    if !isValidCell owner then false
    else match cellToVertex owner vertexNum with
      | .error _ => false
      | .ok canonical => vertex == canonical

end H3
