/-
Specification-level model of the hierarchy functions, written over digit strings (coarsest digit
first) instead of mirroring the C loops: child positions by rank/unrank, children by enumeration of
digit strings.  Tied to the code by the correspondence check exactly like the loop-faithful model
of H3Model/Index.lean (ops `cposS`, `pos2cellS`, `childrenS` are answered by the same C functions);
the theorems of C04/C13 are proved about these definitions.
-/
import H3Model.Index

namespace H3

/-- digits of levels p+1 .. p+m, coarsest first -/
def digitsBetween (h : BitVec 64) (p m : Nat) : List Nat := (List.range' (p + 1) m).map (getDigit h)

/-- write the digit string at levels p+1, p+2, … -/
def writeDigits (h : BitVec 64) (p : Nat) : List Nat → BitVec 64
  | [] => h
  | d :: ds => writeDigits (setDigit h (p + 1) d) (p + 1) ds

/-- 1 + 5(7^n − 1)/6 -/
def pentCountI (n : Nat) : Int := 1 + 5 * ((7 : Int) ^ n - 1) / 6

/-- position of a digit string below a parent; `P` = the parent is a pentagon -/
def posOfDigits (P : Bool) : List Nat → R Int
  | [] => .ok 0
  | d :: rest =>
    if d == 7 || (P && d == 1) then .error .cellInvalid
    else
      match posOfDigits (P && d == 0) rest with
      | .error e => .error e
      | .ok r =>
        let w : Int := 7 ^ rest.length
        let here : Int :=
          if P then (if d == 0 then 0 else pentCountI rest.length + ((d : Int) - 2) * w)
          else (d : Int) * w
        .ok (here + r)

def digitsOfPosH : Nat → Int → List Nat
  | 0, _ => []
  | m + 1, pos => (pos / 7 ^ m).toNat :: digitsOfPosH m (pos % 7 ^ m)

def digitsOfPosP : Nat → Int → List Nat
  | 0, _ => []
  | m + 1, pos =>
    if pos < pentCountI m then 0 :: digitsOfPosP m pos
    else (((pos - pentCountI m) / 7 ^ m).toNat + 2) :: digitsOfPosH m ((pos - pentCountI m) % 7 ^ m)

/-- `cellToChildPos`, specification level -/
def cellToChildPosS (child : BitVec 64) (parentRes : Int) : R Int :=
  match cellToParent child parentRes with
  | .error e => .error e
  | .ok parent => posOfDigits (isPentagon parent) (digitsBetween child parentRes.toNat (getRes child - parentRes.toNat))

/-- `childPosToCell`, specification level -/
def childPosToCellS (childPos : Int) (parent : BitVec 64) (childRes : Int) : R (BitVec 64) :=
  if childRes < 0 || childRes > 15 then .error .resDomain
  else if childRes < (getRes parent : Int) then .error .resMismatch
  else
    match validateChildPos childPos parent childRes with
    | .error e => .error e
    | .ok () =>
      let m := childRes.toNat - getRes parent
      let ds := if isPentagon parent then digitsOfPosP m childPos else digitsOfPosH m childPos
      .ok (writeDigits (setRes parent childRes.toNat) (getRes parent) ds)

/-- all digit strings of length m below a parent, in increasing order -/
def childDigitStrings (P : Bool) : Nat → List (List Nat)
  | 0 => [[]]
  | m + 1 =>
    ((List.range 7).filter (fun d => !(P && d == 1))).flatMap fun d =>
      (childDigitStrings (P && d == 0) m).map (d :: ·)

/-- `cellToChildren`, specification level -/
def cellToChildrenS (h : BitVec 64) (childRes : Int) : List (BitVec 64) :=
  if !hasChildAtRes h childRes || h == 0#64 then []
  else
    let m := childRes.toNat - getRes h
    (childDigitStrings (isPentagon h) m).map (writeDigits (setRes h childRes.toNat) (getRes h))

end H3

namespace H3

/-- all cells of a resolution: the children of the 122 base cells, base cell after base cell
(specification-level counterpart of iterInitRes / iterStepRes) -/
def cellsEnumS (res : Nat) : List (BitVec 64) :=
  (List.range 122).flatMap fun bc => cellToChildrenS (setH3Index 0 bc 0) (res : Int)

end H3
