/-
C17: an abstract allocator with a failure schedule, and the event trace of a call.
`sched c = true` means: the c-th allocation call (1-based, malloc/calloc alike) fails.
-/
import H3Model.Basic

namespace H3

inductive AEv where
  | alloc (id : Nat) (bytes : Nat)   -- successful malloc/calloc; id = call index
  | fail (id : Nat) (bytes : Nat)    -- injected failure
  | free (id : Nat)
  deriving DecidableEq, Repr

structure AState where
  calls : Nat := 0
  live : List Nat := []
  trace : List AEv := []
  deriving Repr

/-- `H3_MEMORY(malloc/calloc)(bytes)` -/
def AState.alloc (sched : Nat → Bool) (bytes : Nat) (s : AState) : Option Nat × AState :=
  let c := s.calls + 1
  if sched c then (none, { s with calls := c, trace := s.trace ++ [.fail c bytes] })
  else (some c, { calls := c, live := c :: s.live, trace := s.trace ++ [.alloc c bytes] })

/-- `H3_MEMORY(free)(p)` -/
def AState.free (id : Nat) (s : AState) : AState :=
  { s with live := s.live.erase id, trace := s.trace ++ [.free id] }

def AState.someAllocFailed (s : AState) : Bool :=
  s.trace.any fun e => match e with | .fail _ _ => true | _ => false

/-- no block is freed twice and only allocated blocks are freed -/
def traceWellFormed : List AEv → List Nat → Bool
  | [], _ => true
  | .alloc id _ :: t, live => traceWellFormed t (id :: live)
  | .fail _ _ :: t, live => traceWellFormed t live
  | .free id :: t, live => live.contains id && traceWellFormed t (live.erase id)

/-- the default allocator: nothing fails -/
def noFail : Nat → Bool := fun _ => false

def showEv : AEv → String
  | .alloc id b => s!"a{id}:{b}"
  | .fail id b => s!"F{id}:{b}"
  | .free id => s!"f{id}"

def showTrace (t : List AEv) : String := " ".intercalate (t.map showEv)

end H3
