/-
algos.c: maxGridDiskSize, the safe recursive disk (`_gridDiskDistancesInternal`) over an
open-addressing array exactly as in C, the unsafe ring walks, gridRingUnsafe, gridDisksUnsafe.
-/
import H3Model.Neighbor
import H3Model.Alloc

namespace H3

/-- `getNumCells` (latLng.c) -/
def getNumCells (res : Int) : R Int :=
  if res < 0 || res > 15 then .error .resDomain else .ok (2 + 120 * ipow 7 res.toNat)

def K_ALL_CELLS_AT_RES_15 : Int := H3.Gen.K_ALL_CELLS_AT_RES_15

/-- `maxGridDiskSize` -/
def maxGridDiskSize (k : Int) : R Int :=
  if k < 0 then .error .domain
  else if k >= K_ALL_CELLS_AT_RES_15 then getNumCells 15
  else .ok (3 * k * (k + 1) + 1)

structure DiskSt where
  out : Array (BitVec 64)
  dist : Array Int

/-- linear probing `while (out[off] != 0 && out[off] != origin) off = (off+1) % maxIdx`;
`none` = the table is full of other cells (the C loop would not terminate) -/
def probe (out : Array (BitVec 64)) (origin : BitVec 64) (maxIdx : Nat) (off : Nat) : Nat → Option Nat
  | 0 => none
  | fuel + 1 =>
    let v := out.getD off 0#64
    if v != 0#64 && v != origin then probe out origin maxIdx ((off + 1) % maxIdx) fuel
    else some off

/-- `_gridDiskDistancesInternal`; `fuel` = k - curK + 1 bounds the recursion depth -/
def diskInternal (k : Int) (maxIdx : Nat) : Nat → BitVec 64 → Int → DiskSt → R DiskSt
  | 0, _, _, st => .ok st
  | fuel + 1, origin, curK, st =>
    match probe st.out origin maxIdx (origin.toNat % maxIdx) (maxIdx + 1) with
    | none => .error .failed   -- C: infinite loop (full table); unreachable when the table was zeroed
    | some off =>
      if st.out.getD off 0#64 == origin && st.dist.getD off 0 <= curK then .ok st
      else
        let st : DiskSt := { out := st.out.setIfInBounds off origin, dist := st.dist.setIfInBounds off curK }
        if curK >= k then .ok st
        else
          (List.range 6).foldlM (init := st) fun st i =>
            match h3NeighborRotations origin (DIRECTIONS i) 0 with
            | .error .pentagon => .ok st
            | .error e => .error e
            | .ok (next, _) => diskInternal k maxIdx fuel next (curK + 1) st

/-- result buffers of the unsafe walk: cells and distances written so far (idx = length) -/
structure WalkSt where
  out : Array (BitVec 64)
  dist : Array Int
  origin : BitVec 64
  rot : Nat

/-- `gridDiskDistancesUnsafe`: returns the error (if any) together with what was written -/
def gridDiskDistancesUnsafe (origin : BitVec 64) (k : Int) : Option H3Error × Array (BitVec 64) × Array Int :=
  if k < 0 then (some .domain, #[], #[])
  else
    let out := #[origin]
    let dist : Array Int := #[0]
    if isPentagon origin then (some .pentagon, out, dist)
    else
      let kk := k.toNat
      -- iterate over (ring, direction, i) in the order of the C loop
      let rec go (ring dir i : Nat) (st : WalkSt) (fuel : Nat) : Option H3Error × Array (BitVec 64) × Array Int :=
        match fuel with
        | 0 => (none, st.out, st.dist)
        | fuel + 1 =>
          if ring > kk then (none, st.out, st.dist)
          else
            -- step to the next ring
            let pre : Except H3Error WalkSt :=
              if dir == 0 && i == 0 then
                match h3NeighborRotations st.origin 4 st.rot with
                | .error e => .error e
                | .ok (o, r) => if isPentagon o then .error .pentagon else .ok { st with origin := o, rot := r }
              else .ok st
            match pre with
            | .error e => (some e, st.out, st.dist)
            | .ok st =>
              match h3NeighborRotations st.origin (DIRECTIONS dir) st.rot with
              | .error e => (some e, st.out, st.dist)
              | .ok (o, r) =>
                let st : WalkSt := { out := st.out.push o, dist := st.dist.push ring, origin := o, rot := r }
                let i := i + 1
                let (ring, dir, i) :=
                  if i == ring then (if dir + 1 == 6 then (ring + 1, 0, 0) else (ring, dir + 1, 0)) else (ring, dir, i)
                if isPentagon o then (some .pentagon, st.out, st.dist)
                else go ring dir i st fuel
      go 1 0 0 { out := out, dist := dist, origin := origin, rot := 0 } (3 * kk * (kk + 1) + 1)

/-- `gridDisksUnsafe(h3Set, length, k, out)`: the unsafe disk of each cell into its own segment of
`maxGridDiskSize k` slots of the caller's zero-initialised buffer; stops at the first failing cell. -/
def gridDisksUnsafe (cells : List (BitVec 64)) (k : Int) : R (Array (BitVec 64)) :=
  match maxGridDiskSize k with
  | .error e => .error e
  | .ok m =>
    let seg := m.toNat
    let rec go (cs : List (BitVec 64)) (acc : Array (BitVec 64)) : R (Array (BitVec 64)) :=
      match cs with
      | [] => .ok acc
      | c :: cs =>
        match gridDiskDistancesUnsafe c k with
        | (some e, _, _) => .error e
        | (none, o, _) => go cs (acc ++ o ++ Array.replicate (seg - o.size) 0#64)
    go cells #[]

/-- `gridDiskDistances` (and `gridDisk`): (error?, out[maxIdx], distances[maxIdx]).
The arrays are the caller's buffers of `maxGridDiskSize k` slots, zero-initialised by the driver. -/
def gridDiskDistances (origin : BitVec 64) (k : Int) : R (Array (BitVec 64) × Array Int) :=
  match gridDiskDistancesUnsafe origin k with
  | (none, out, dist) =>
    match maxGridDiskSize k with
    | .error e => .error e
    | .ok m =>
      let n := m.toNat
      .ok (out ++ Array.replicate (n - out.size) 0#64, dist ++ Array.replicate (n - dist.size) 0)
  | (some _, _, _) =>
    match maxGridDiskSize k with
    | .error e => .error e
    | .ok m =>
      let n := m.toNat
      let st : DiskSt := { out := Array.replicate n 0#64, dist := Array.replicate n 0 }
      match diskInternal k n (k.toNat + 1) origin 0 st with
      | .error e => .error e
      | .ok st => .ok (st.out, st.dist)

/-- `gridDiskDistances(origin, k, out, distances)` with its allocation: when the fast walk fails
and the caller passed no `distances` array (`wantDist = false`, i.e. `gridDisk`), one calloc of
`maxIdx * sizeof(int)` bytes is made and released. -/
def gridDiskDistancesA (sched : Nat → Bool) (origin : BitVec 64) (k : Int) (wantDist : Bool) (a : AState) :
    R (Array (BitVec 64) × Array Int) × AState :=
  match gridDiskDistancesUnsafe origin k with
  | (none, out, dist) =>
    match maxGridDiskSize k with
    | .error e => (.error e, a)
    | .ok m =>
      let n := m.toNat
      (.ok (out ++ Array.replicate (n - out.size) 0#64, dist ++ Array.replicate (n - dist.size) 0), a)
  | (some _, _, _) =>
    match maxGridDiskSize k with
    | .error e => (.error e, a)
    | .ok m =>
      let n := m.toNat
      let st : DiskSt := { out := Array.replicate n 0#64, dist := Array.replicate n 0 }
      if wantDist then
        match diskInternal k n (k.toNat + 1) origin 0 st with
        | .error e => (.error e, a)
        | .ok st => (.ok (st.out, st.dist), a)
      else
        match a.alloc sched (n * 4) with
        | (none, a) => (.error .memoryAlloc, a)
        | (some d, a) =>
          match diskInternal k n (k.toNat + 1) origin 0 st with
          | .error e => (.error e, a.free d)
          | .ok st => (.ok (st.out, st.dist), a.free d)

/-- `gridDiskDistancesSafe` on zeroed buffers -/
def gridDiskDistancesSafe (origin : BitVec 64) (k : Int) : R (Array (BitVec 64) × Array Int) :=
  match maxGridDiskSize k with
  | .error e => .error e
  | .ok m =>
    let n := m.toNat
    let st : DiskSt := { out := Array.replicate n 0#64, dist := Array.replicate n 0 }
    match diskInternal k n (k.toNat + 1) origin 0 st with
    | .error e => .error e
    | .ok st => .ok (st.out, st.dist)

/-- `gridRingUnsafe`: (error?, cells written) -/
def gridRingUnsafe (origin : BitVec 64) (k : Int) : Option H3Error × Array (BitVec 64) :=
  if k < 0 then (some .domain, #[])
  else if k == 0 then (none, #[origin])
  else if isPentagon origin then (some .pentagon, #[])
  else
    let kk := k.toNat   -- k < 0: both loops are empty in C
    -- walk out k steps in direction I
    let start : Except H3Error (BitVec 64 × Nat) :=
      (List.range kk).foldlM (init := (origin, 0)) fun (o, r) _ =>
        match h3NeighborRotations o 4 r with
        | .error e => .error e
        | .ok (o', r') => if isPentagon o' then .error .pentagon else .ok (o', r')
    match start with
    | .error e => (some e, #[])
    | .ok (o, r) =>
      let lastIndex := o
      let init : Except (H3Error × Array (BitVec 64)) (BitVec 64 × Nat × Array (BitVec 64)) := .ok (o, r, #[o])
      let res := (List.range (6 * kk)).foldl (init := init) fun acc n =>
        match acc with
        | .error e => .error e
        | .ok (o, r, out) =>
          let direction := n / kk
          let pos := n % kk
          match h3NeighborRotations o (DIRECTIONS direction) r with
          | .error e => .error (e, out)
          | .ok (o', r') =>
            if pos != kk - 1 || direction != 5 then
              let out := out.push o'
              if isPentagon o' then .error (.pentagon, out) else .ok (o', r', out)
            else .ok (o', r', out)
      match res with
      | .error (e, out) => (some e, out)
      | .ok (o, _, out) => if lastIndex != o then (some .pentagon, out) else (none, out)

end H3
