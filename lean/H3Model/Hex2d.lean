/-
coordijk.c `_hex2dToCoordIJK` (planar point -> containing hexagon), written once, generic over
an ordered field `α`: instantiated with `Float` (IEEE doubles: bit-identical to C, used by the
executable and the correspondence check) and with `Rat` (exact; used by the theorems in
H3Proofs/Props/C02.lean).  The irrational constant M_RSIN60 = 1/sin 60° enters as a parameter.
-/
import H3Model.Coord

namespace H3

/-- the operations `_hex2dToCoordIJK` uses -/
class HexField (α : Type) where
  add : α → α → α
  sub : α → α → α
  mul : α → α → α
  div : α → α → α
  lt : α → α → Bool
  le : α → α → Bool
  ofInt : Int → α
  abs : α → α
  /-- C `(int)x` for x ≥ 0: truncation -/
  trunc : α → Int

namespace HexField
variable {α : Type} [HexField α]
instance : Add α := ⟨HexField.add⟩
instance : Sub α := ⟨HexField.sub⟩
instance : Mul α := ⟨HexField.mul⟩
instance : Div α := ⟨HexField.div⟩
end HexField

open HexField in
/-- the nine-case rounding of `_hex2dToCoordIJK` in the first quadrant: from (x1, x2) =
(a1 + x2/2, a2·rsin60) to (i, j) -/
def hexRound {α : Type} [HexField α] (x1 x2 : α) : Int × Int :=
  let one : α := ofInt 1
  let two : α := ofInt 2
  let three : α := ofInt 3
  let half : α := one / two
  let m1 := trunc x1
  let m2 := trunc x2
  let r1 := x1 - ofInt m1
  let r2 := x2 - ofInt m2
  if lt r1 half then
    if lt r1 (one / three) then
      if lt r2 ((one + r1) / two) then (m1, m2) else (m1, m2 + 1)
    else
      let j := if lt r2 (one - r1) then m2 else m2 + 1
      let i := if le (one - r1) r2 && lt r2 (two * r1) then m1 + 1 else m1
      (i, j)
  else
    if lt r1 (two / three) then
      let j := if lt r2 (one - r1) then m2 else m2 + 1
      let i := if lt (two * r1 - one) r2 && lt r2 (one - r1) then m1 else m1 + 1
      (i, j)
    else
      if lt r2 (r1 / two) then (m1 + 1, m2) else (m1 + 1, m2 + 1)

/-- folding across the axes (integer arithmetic; C `/` and `%` on the non-negative j) -/
def hexFold (xneg yneg : Bool) (i j : Int) : Int × Int :=
  let i :=
    if xneg then
      if j % 2 == 0 then
        let axisi := j / 2
        let diff := i - axisi
        i - 2 * diff
      else
        let axisi := (j + 1) / 2
        let diff := i - axisi
        i - (2 * diff + 1)
    else i
  if yneg then (i - (2 * j + 1) / 2, -j) else (i, j)

open HexField in
/-- `_hex2dToCoordIJK(v, h)` with `rsin60` = M_RSIN60 -/
def hex2dToCoordIJK {α : Type} [HexField α] (rsin60 : α) (x y : α) : CoordIJK :=
  let a1 := abs x
  let a2 := abs y
  let x2 := a2 * rsin60
  let x1 := a1 + x2 / ofInt 2
  let (i, j) := hexRound x1 x2
  let (i, j) := hexFold (lt x (ofInt 0)) (lt y (ofInt 0)) i j
  (⟨i, j, 0⟩ : CoordIJK).normalize

instance : HexField Float where
  add := (· + ·)
  sub := (· - ·)
  mul := (· * ·)
  div := (· / ·)
  lt a b := a < b
  le a b := a ≤ b
  ofInt := Float.ofInt
  abs := Float.abs
  trunc x := (Float.floor x).toInt64.toInt

/-- M_RSIN60 as the C compiler reads the literal 1.1547005383792515290182975610039149112953 -/
def M_RSIN60 : Float := 1.1547005383792515290182975610039149112953

def hex2dToCoordIJKFloat (x y : Float) : CoordIJK := hex2dToCoordIJK M_RSIN60 x y

/-- argument validation of `latLngToCell` (h3Index.c:948): resolution first, then finiteness;
`none` = proceed to the projection -/
def latLngToCellArgs (res : Int) (latFinite lngFinite : Bool) : Option H3Error :=
  if res < 0 || res > 15 then some .resDomain
  else if !latFinite || !lngFinite then some .latLngDomain
  else none

end H3
