/-
Integer part of faceijk.c and the FaceIJK <-> index conversions of h3Index.c:
_adjustOverageClassII, _adjustPentVertOverage, _faceIjkToVerts, _faceIjkPentToVerts,
_faceIjkToH3, _h3ToFaceIjk, maxFaceCount, getIcosahedronFaces.
-/
import H3Model.LocalIj

namespace H3

structure FaceIJK where
  face : Int
  coord : CoordIJK
  deriving DecidableEq, Repr, Inhabited

inductive Overage where
  | none | faceEdge | newFace
  deriving DecidableEq, Repr

def maxDimByCIIres (r : Nat) : Int := tbl1 H3.Gen.maxDimByCIIres r
def unitScaleByCIIres (r : Nat) : Int := tbl1 H3.Gen.unitScaleByCIIres r

/-- `faceNeighbors[face][q]` : (face, translate, ccwRot60) -/
def faceNeighbor (face : Int) (q : Nat) : Int × CoordIJK × Int :=
  let r := H3.Gen.faceNeighbors.getD (face.toNat * 4 + q) []
  (r.getD 0 0, ⟨r.getD 1 0, r.getD 2 0, r.getD 3 0⟩, r.getD 4 0)

/-- `_adjustOverageClassII` -/
def adjustOverageClassII (f : FaceIJK) (res : Nat) (pentLeading4 substrate : Bool) : Overage × FaceIJK :=
  let ijk := f.coord
  let maxDim := if substrate then maxDimByCIIres res * 3 else maxDimByCIIres res
  let s := ijk.i + ijk.j + ijk.k
  if substrate && s == maxDim then (.faceEdge, f)
  else if s > maxDim then
    let (q, ijk) : Nat × CoordIJK :=
      if ijk.k > 0 then
        if ijk.j > 0 then (3, ijk)          -- JK
        else
          -- KI
          if pentLeading4 then
            let origin : CoordIJK := ⟨maxDim, 0, 0⟩
            let tmp := ijkRotate60cw (ijk.sub origin)
            (2, tmp.add origin)
          else (2, ijk)
      else (1, ijk)                          -- IJ
    let (nface, trans, rot) := faceNeighbor f.face q
    let ijk := iterate ijkRotate60ccw rot.toNat ijk
    let unitScale := if substrate then unitScaleByCIIres res * 3 else unitScaleByCIIres res
    let ijk := (ijk.add (trans.scale unitScale)).normalize
    let ov := if substrate && ijk.i + ijk.j + ijk.k == maxDim then Overage.faceEdge else Overage.newFace
    (ov, ⟨nface, ijk⟩)
  else (.none, f)

/-- `_adjustPentVertOverage` (do … while NEW_FACE); fuel 8 > the ≤ 5 iterations that can occur -/
def adjustPentVertOverage (f : FaceIJK) (res : Nat) : Overage × FaceIJK :=
  let rec go (f : FaceIJK) : Nat → Overage × FaceIJK
    | 0 => (.newFace, f)
    | fuel + 1 =>
      let (ov, f') := adjustOverageClassII f res false true
      if ov == .newFace then go f' fuel else (ov, f')
  go f 8

def vertsCII : List CoordIJK := [⟨2, 1, 0⟩, ⟨1, 2, 0⟩, ⟨0, 2, 1⟩, ⟨0, 1, 2⟩, ⟨1, 0, 2⟩, ⟨2, 0, 1⟩]
def vertsCIII : List CoordIJK := [⟨5, 4, 0⟩, ⟨1, 5, 0⟩, ⟨0, 5, 4⟩, ⟨0, 1, 5⟩, ⟨4, 0, 5⟩, ⟨5, 0, 1⟩]

/-- `_faceIjkToVerts` / `_faceIjkPentToVerts` (n = 6 / 5): (adjusted res, centre in substrate
coordinates, vertices) -/
def faceIjkToVertsN (n : Nat) (f : FaceIJK) (res : Nat) : Nat × FaceIJK × List FaceIJK :=
  let verts := if isResClassIII res then vertsCIII else vertsCII
  let c := downAp3r (downAp3 f.coord)
  let (c, res') := if isResClassIII res then (downAp7r c, res + 1) else (c, res)
  (res', ⟨f.face, c⟩, (verts.take n).map fun v => ⟨f.face, (c.add v).normalize⟩)

/-- `faceIjkBaseCells[face][i][j][k]` : (baseCell, ccwRot60) -/
def faceIjkBaseCell (f : FaceIJK) : Int × Int :=
  let idx := ((f.face.toNat * 3 + f.coord.i.toNat) * 3 + f.coord.j.toNat) * 3 + f.coord.k.toNat
  let r := H3.Gen.faceIjkBaseCells.getD idx []
  (r.getD 0 0, r.getD 1 0)

/-- `_faceIjkToH3`: 0 (H3_NULL) on out-of-range input -/
def faceIjkToH3 (fijk : FaceIJK) (res : Nat) : BitVec 64 :=
  let h := setRes (setMode H3_INIT 1) res
  if res == 0 then
    if fijk.coord.i > 2 || fijk.coord.j > 2 || fijk.coord.k > 2 then 0#64
    else setBaseCell h (faceIjkBaseCell fijk).1.toNat
  else
    -- digits from the finest resolution up
    let (h, c) := (List.range res).foldl (init := (h, fijk.coord)) fun (h, c) k =>
      let level := res - k
      let last := c
      let (c', center) :=
        if isResClassIII level then (upAp7 c, downAp7 (upAp7 c)) else (upAp7r c, downAp7r (upAp7r c))
      let diff := (last.sub center).normalize
      (setDigit h level (unitIjkToDigit diff), c')
    if c.i > 2 || c.j > 2 || c.k > 2 then 0#64
    else
      let fbc : FaceIJK := ⟨fijk.face, c⟩
      let (bc, numRots) := faceIjkBaseCell fbc
      let baseCell := bc.toNat
      let h := setBaseCell h baseCell
      if isBaseCellPentagon baseCell then
        let h :=
          if leadingNonZeroDigit h == 1 then
            if baseCellIsCwOffset baseCell fbc.face then h3Rotate60cw h else h3Rotate60ccw h
          else h
        iterate h3RotatePent60ccw numRots.toNat h
      else iterate h3Rotate60ccw numRots.toNat h

def homeFijk (bc : Nat) : FaceIJK :=
  ⟨tbl2 H3.Gen.baseCellData bc 0, ⟨tbl2 H3.Gen.baseCellData bc 1, tbl2 H3.Gen.baseCellData bc 2,
    tbl2 H3.Gen.baseCellData bc 3⟩⟩

/-- `_h3ToFaceIjk` -/
def h3ToFaceIjk (h : BitVec 64) : R FaceIJK :=
  let baseCell := getBaseCell h
  if baseCell >= 122 then .error .cellInvalid
  else
    let pent := isBaseCellPentagon baseCell
    let h := if pent && leadingNonZeroDigit h == 5 then h3Rotate60cw h else h
    let home := homeFijk baseCell
    let res := getRes h
    let possibleOverage := !(!pent && (res == 0 || (home.coord.i == 0 && home.coord.j == 0 && home.coord.k == 0)))
    let fijk : FaceIJK := ⟨home.face, h3ToIjkFrom h home.coord⟩
    if !possibleOverage then .ok fijk
    else
      let origIJK := fijk.coord
      let (fijk, res') := if isResClassIII res then ((⟨fijk.face, downAp7r fijk.coord⟩ : FaceIJK), res + 1) else (fijk, res)
      let pentLeading4 := pent && leadingNonZeroDigit h == 4
      let (ov, fijk) := adjustOverageClassII fijk res' pentLeading4 false
      if ov != .none then
        let fijk :=
          if pent then
            let rec go (f : FaceIJK) : Nat → FaceIJK
              | 0 => f
              | fuel + 1 =>
                let (ov, f') := adjustOverageClassII f res' false false
                if ov != .none then go f' fuel else f'
            go fijk 8
          else fijk
        if res' != res then .ok ⟨fijk.face, upAp7r fijk.coord⟩ else .ok fijk
      else if res' != res then .ok ⟨fijk.face, origIJK⟩
      else .ok fijk

/-- `maxFaceCount` -/
def maxFaceCount (h : BitVec 64) : Nat := if isPentagon h then 5 else 2

/-- `getIcosahedronFaces`: the `maxFaceCount` output slots (−1 = unused) -/
def getIcosahedronFaces (h3 : BitVec 64) : Nat → R (List Int)
  | 0 => .error .failed   -- recursion fuel (depth ≤ 2)
  | fuel + 1 =>
    let res := getRes h3
    let isPent := isPentagon h3
    if isPent && !isResClassIII res then
      getIcosahedronFaces (makeDirectChild h3 0) fuel
    else
      match h3ToFaceIjk h3 with
      | .error e => .error e
      | .ok fijk =>
        let (res', _, verts) := faceIjkToVertsN (if isPent then 5 else 6) fijk res
        let faceCount := maxFaceCount h3
        let init : List Int := List.replicate faceCount (-1)
        verts.foldlM (init := init) fun out v =>
          let v' := if isPent then (adjustPentVertOverage v res').2 else (adjustOverageClassII v res' false true).2
          let face := v'.face
          -- first empty slot or slot already holding this face
          match out.findIdx? (fun x => x == -1 || x == face) with
          | some pos => .ok (out.set pos face)
          | none => .error .failed

end H3
