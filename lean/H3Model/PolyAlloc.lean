/-
polygonToCellsExperimental / maxPolygonToCellsSizeExperimental with their allocation structure (polyfill.c):
the only heap block is the bounding-box array of `_iterInitPolygonCompact` (`calloc(numHoles + 1, sizeof(BBox))`,
32 bytes per box), made AFTER the resolution and the flags have been validated, and released by
`iterDestroyPolygonCompact` on each of the three ways an iteration ends: the compact iterator is exhausted, it stops
with an error (`iterErrorPolygonCompact`), or the caller runs out of room (`iterDestroyPolygon` + E_MEMORY_BOUNDS).

What the floating-point geometry decides — how many cells the iterator delivers before it ends and whether it ends
with an error — is a parameter (`IterOutcome`); the theorems of H3Proofs/Props/C17Poly.lean hold for every value of
it. The correspondence stream `apolyxs` / `amaxpolyxs` feeds the outcome observed on the real library with the
default allocator and compares the allocator traces event by event at every failure index.
-/
import H3Model.Alloc
import H3Model.Poly

namespace H3

/-- how the iteration ends when no allocation fails: `ncells` cells of the target resolution are delivered, then the
compact iterator is exhausted (`err = none`) or stops with an error -/
structure IterOutcome where
  ncells : Nat
  err : Option H3Error
  deriving Repr

/-- `sizeof(BBox)` = four doubles -/
def bboxBytes (numHoles : Nat) : Nat := (numHoles + 1) * 32

/-- `_iterInitPolygonCompact`: argument checks first (`iterErrorPolygonCompact` then sees `_bboxes == NULL`: nothing is
freed), then the single calloc -/
def iterInitA (sched : Nat → Bool) (res : Int) (flags : BitVec 32) (numHoles : Nat) (a : AState) : R Nat × AState :=
  if res < 0 || res > 15 then (.error .resDomain, a)
  else match validatePolygonFlags flags with
    | some e => (.error e, a)
    | none =>
      match a.alloc sched (bboxBytes numHoles) with
      | (none, a1) => (.error .memoryAlloc, a1)
      | (some id, a1) => (.ok id, a1)

/-- `polygonToCellsExperimental(polygon, res, flags, size, out)`; the answer is the number of cells written -/
def polygonToCellsExperimentalA (sched : Nat → Bool) (res : Int) (flags : BitVec 32) (numHoles : Nat)
    (o : IterOutcome) (size : Int) (a : AState) : R Nat × AState :=
  match iterInitA sched res flags numHoles a with
  | (.error e, a1) => (.error e, a1)
  | (.ok id, a1) =>
    -- `for (; iter.cell; iterStepPolygon(&iter)) { if (i >= size) { iterDestroyPolygon(&iter); return E_MEMORY_BOUNDS; } … }`
    if o.ncells > size.toNat then (.error .memoryBounds, a1.free id)
    else match o.err with
      | some e => (.error e, a1.free id)     -- iterErrorPolygonCompact → iterDestroyPolygonCompact
      | none => (.ok o.ncells, a1.free id)   -- exhausted → iterDestroyPolygonCompact

/-- `maxPolygonToCellsSizeExperimental(polygon, res, flags, out)`; only the error code is modelled (the estimate is
geometry) -/
def maxPolygonToCellsSizeExperimentalA (sched : Nat → Bool) (res : Int) (flags : BitVec 32) (numVerts numHoles : Nat)
    (o : IterOutcome) (a : AState) : R Unit × AState :=
  if numVerts == 0 then
    if res < 0 || res > 15 then (.error .resDomain, a)
    else match validatePolygonFlags flags with
      | some e => (.error e, a)
      | none => (.ok (), a)
  else
    match iterInitA sched res flags numHoles a with
    | (.error e, a1) => (.error e, a1)
    | (.ok id, a1) =>
      match o.err with
      | some e => (.error e, a1.free id)
      | none => (.ok (), a1.free id)

end H3
