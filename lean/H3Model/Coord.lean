/-
coordijk.c (integer part): IJK coordinates, aperture-7/3 steps, rotations, distance.
C `int` is modelled as unbounded `Int`; the overflow guards of the *Checked functions are
modelled literally (they compare against INT32 bounds) and range lemmas live in H3Proofs.
-/
import H3Model.Basic

namespace H3

structure CoordIJK where
  i : Int
  j : Int
  k : Int
  deriving DecidableEq, Repr, Inhabited

structure CoordIJ where
  i : Int
  j : Int
  deriving DecidableEq, Repr, Inhabited

namespace CoordIJK

@[inline] def add (a b : CoordIJK) : CoordIJK := ⟨a.i + b.i, a.j + b.j, a.k + b.k⟩
@[inline] def sub (a b : CoordIJK) : CoordIJK := ⟨a.i - b.i, a.j - b.j, a.k - b.k⟩
@[inline] def scale (c : CoordIJK) (f : Int) : CoordIJK := ⟨c.i * f, c.j * f, c.k * f⟩

/-- `_ijkNormalize` -/
def normalize (c : CoordIJK) : CoordIJK :=
  let c := if c.i < 0 then (⟨0, c.j - c.i, c.k - c.i⟩ : CoordIJK) else c
  let c := if c.j < 0 then (⟨c.i - c.j, 0, c.k - c.j⟩ : CoordIJK) else c
  let c := if c.k < 0 then (⟨c.i - c.k, c.j - c.k, 0⟩ : CoordIJK) else c
  let m := min c.i (min c.j c.k)
  if m > 0 then ⟨c.i - m, c.j - m, c.k - m⟩ else c

end CoordIJK

def INT32_MAX : Int := 2147483647
def INT32_MIN : Int := -2147483648
def INT32_MAX_3 : Int := INT32_MAX / 3

/-- `ADD_INT32S_OVERFLOWS(a, b)` -/
def addOverflows (a b : Int) : Bool :=
  if a > 0 then INT32_MAX - a < b else INT32_MIN - a > b
/-- `SUB_INT32S_OVERFLOWS(a, b)` -/
def subOverflows (a b : Int) : Bool :=
  if a >= 0 then INT32_MIN + a >= b else INT32_MAX + a + 1 < b

/-- `UNIT_VECS[d]` from the regenerated table -/
def unitVec (d : Nat) : CoordIJK :=
  let r := H3.Gen.UNIT_VECS.getD d []
  ⟨r.getD 0 0, r.getD 1 0, r.getD 2 0⟩

/-- `_unitIjkToDigit`: 7 (INVALID_DIGIT) when not a unit vector -/
def unitIjkToDigit (c : CoordIJK) : Nat :=
  let c := c.normalize
  match (List.range 7).find? (fun d => unitVec d == c) with
  | some d => d
  | none => 7

/-- `_ijkNormalizeCouldOverflow` -/
def normalizeCouldOverflow (c : CoordIJK) : Bool :=
  let (mx, mn) := if c.i > c.j then (c.i, c.j) else (c.j, c.i)
  if mn < 0 then addOverflows mx mn || subOverflows 0 mn || subOverflows mx mn else false

/-- `lround(n * M_ONESEVENTH)` for a C `int` n: nearest integer to n/7 (ties cannot occur).
Trusted equality with the floating-point computation for |n| < 2^31, validated by the
correspondence run (and exhaustively by a C loop in the thorough tier). -/
def roundDiv7 (n : Int) : Int := (2 * n + 7) / 14

/-- `_upAp7` -/
def upAp7 (c : CoordIJK) : CoordIJK :=
  let i := c.i - c.k
  let j := c.j - c.k
  (⟨roundDiv7 (3 * i - j), roundDiv7 (i + 2 * j), 0⟩ : CoordIJK).normalize

/-- `_upAp7r` -/
def upAp7r (c : CoordIJK) : CoordIJK :=
  let i := c.i - c.k
  let j := c.j - c.k
  (⟨roundDiv7 (2 * i + j), roundDiv7 (3 * j - i), 0⟩ : CoordIJK).normalize

/-- `_upAp7Checked` -/
def upAp7Checked (c : CoordIJK) : R CoordIJK :=
  let i := c.i - c.k
  let j := c.j - c.k
  let bad :=
    if i >= INT32_MAX_3 || j >= INT32_MAX_3 || i < 0 || j < 0 then
      addOverflows i i || addOverflows (i + i) i || addOverflows j j ||
      subOverflows (i + i + i) j || addOverflows i (j + j)
    else false
  if bad then .error .failed
  else
    let r : CoordIJK := ⟨roundDiv7 (i * 3 - j), roundDiv7 (i + j * 2), 0⟩
    if normalizeCouldOverflow r then .error .failed else .ok r.normalize

/-- `_upAp7rChecked` -/
def upAp7rChecked (c : CoordIJK) : R CoordIJK :=
  let i := c.i - c.k
  let j := c.j - c.k
  let bad :=
    if i >= INT32_MAX_3 || j >= INT32_MAX_3 || i < 0 || j < 0 then
      addOverflows i i || addOverflows j j || addOverflows (j + j) j ||
      addOverflows (i + i) j || subOverflows (j + j + j) i
    else false
  if bad then .error .failed
  else
    let r : CoordIJK := ⟨roundDiv7 (i * 2 + j), roundDiv7 (j * 3 - i), 0⟩
    if normalizeCouldOverflow r then .error .failed else .ok r.normalize

/-- generic "unit vectors of the coarser system in the finer one" step -/
@[inline] def lin (iv jv kv : CoordIJK) (c : CoordIJK) : CoordIJK :=
  (((iv.scale c.i).add (jv.scale c.j)).add (kv.scale c.k)).normalize

def downAp7 (c : CoordIJK) : CoordIJK := lin ⟨3, 0, 1⟩ ⟨1, 3, 0⟩ ⟨0, 1, 3⟩ c
def downAp7r (c : CoordIJK) : CoordIJK := lin ⟨3, 1, 0⟩ ⟨0, 3, 1⟩ ⟨1, 0, 3⟩ c
def downAp3 (c : CoordIJK) : CoordIJK := lin ⟨2, 0, 1⟩ ⟨1, 2, 0⟩ ⟨0, 1, 2⟩ c
def downAp3r (c : CoordIJK) : CoordIJK := lin ⟨2, 1, 0⟩ ⟨0, 2, 1⟩ ⟨1, 0, 2⟩ c
def ijkRotate60ccw (c : CoordIJK) : CoordIJK := lin ⟨1, 1, 0⟩ ⟨0, 1, 1⟩ ⟨1, 0, 1⟩ c
def ijkRotate60cw (c : CoordIJK) : CoordIJK := lin ⟨1, 0, 1⟩ ⟨1, 1, 0⟩ ⟨0, 1, 1⟩ c

/-- `_neighbor` -/
def ijkNeighbor (c : CoordIJK) (digit : Nat) : CoordIJK :=
  if digit > 0 && digit < 7 then (c.add (unitVec digit)).normalize else c

/-- `_rotate60ccw` on digits -/
def rotate60ccw (d : Nat) : Nat :=
  match d with
  | 1 => 5 | 5 => 4 | 4 => 6 | 6 => 2 | 2 => 3 | 3 => 1 | d => d

/-- `_rotate60cw` on digits -/
def rotate60cw (d : Nat) : Nat :=
  match d with
  | 1 => 3 | 3 => 2 | 2 => 6 | 6 => 4 | 4 => 5 | 5 => 1 | d => d

/-- `ijkDistance` -/
def ijkDistance (a b : CoordIJK) : Int :=
  let d := (a.sub b).normalize
  max d.i.natAbs (max d.j.natAbs d.k.natAbs)

def ijkToIj (c : CoordIJK) : CoordIJ := ⟨c.i - c.k, c.j - c.k⟩

def ijToIjk (ij : CoordIJ) : R CoordIJK :=
  let c : CoordIJK := ⟨ij.i, ij.j, 0⟩
  if normalizeCouldOverflow c then .error .failed else .ok c.normalize

/-- `ijkToCube` (note the C code uses the already-updated i and j for k) -/
def ijkToCube (c : CoordIJK) : CoordIJK :=
  let i := -c.i + c.k
  let j := c.j - c.k
  ⟨i, j, -i - j⟩

def cubeToIjk (c : CoordIJK) : CoordIJK := (⟨-c.i, c.j, 0⟩ : CoordIJK).normalize

end H3
