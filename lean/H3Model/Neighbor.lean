/-
algos.c: index rotations (h3Index.c), h3NeighborRotations, directionForNeighbor,
the gridDisk family (safe recursive disk over an open-addressing array; unsafe ring walks).
-/
import H3Model.Index
import H3Model.Coord

namespace H3

/-! ### rotations of a whole index (h3Index.c) -/

def mapDigits (f : Nat → Nat) (h : BitVec 64) : BitVec 64 :=
  (List.range' 1 (getRes h)).foldl (fun h r => setDigit h r (f (getDigit h r))) h

/-- `_h3Rotate60ccw` -/
def h3Rotate60ccw (h : BitVec 64) : BitVec 64 := mapDigits rotate60ccw h
/-- `_h3Rotate60cw` -/
def h3Rotate60cw (h : BitVec 64) : BitVec 64 := mapDigits rotate60cw h

/-- `_h3RotatePent60ccw` / `_h3RotatePent60cw` (shared loop, `rot` on digits, `whole` on the index) -/
def rotatePentWith (rot : Nat → Nat) (whole : BitVec 64 → BitVec 64) (h : BitVec 64) : BitVec 64 :=
  let res := getRes h
  ((List.range' 1 res).foldl (fun (st : BitVec 64 × Bool) r =>
      let (h, found) := st
      let h := setDigit h r (rot (getDigit h r))
      if !found && getDigit h r != 0 then
        let h := if leadingNonZeroDigit h == 1 then whole h else h
        (h, true)
      else (h, found)) (h, false)).1

def h3RotatePent60ccw (h : BitVec 64) : BitVec 64 := rotatePentWith rotate60ccw h3Rotate60ccw h
def h3RotatePent60cw (h : BitVec 64) : BitVec 64 := rotatePentWith rotate60cw h3Rotate60cw h

def iterate {α} (f : α → α) : Nat → α → α
  | 0, x => x
  | n + 1, x => iterate f n (f x)

/-! ### tables -/

def bcNeighbor (bc d : Nat) : Nat := (tbl2 H3.Gen.baseCellNeighbors bc d 127).toNat
def bcNeighborRot (bc d : Nat) : Int := tbl2 H3.Gen.baseCellNeighbor60CCWRots bc d (-1)
def newDigitII (a d : Nat) : Nat := (tbl2 H3.Gen.NEW_DIGIT_II a d).toNat
def newAdjII (a d : Nat) : Nat := (tbl2 H3.Gen.NEW_ADJUSTMENT_II a d).toNat
def newDigitIII (a d : Nat) : Nat := (tbl2 H3.Gen.NEW_DIGIT_III a d).toNat
def newAdjIII (a d : Nat) : Nat := (tbl2 H3.Gen.NEW_ADJUSTMENT_III a d).toNat
def DIRECTIONS (i : Nat) : Nat := (tbl1 H3.Gen.DIRECTIONS i).toNat
def homeFace (bc : Nat) : Int := tbl2 H3.Gen.baseCellData bc 0
def baseCellIsCwOffset (bc : Nat) (face : Int) : Bool :=
  tbl2 H3.Gen.baseCellData bc 5 == face || tbl2 H3.Gen.baseCellData bc 6 == face
def isBaseCellPolarPentagon (bc : Nat) : Bool := bc == 4 || bc == 117

/-- the digit pass of `h3NeighborRotations`: walks from `level` (= r+1) towards the base cell.
Returns the updated index and `some dir` when the loop reached r == -1 (the direction that
is then applied to the base cell), `none` when it stopped inside the digits. -/
def digitPass (current : BitVec 64) (dir : Nat) : Nat → R (BitVec 64 × Option Nat)
  | 0 => .ok (current, some dir)
  | level + 1 =>
    let oldDigit := getDigit current (level + 1)
    if oldDigit == 7 then .error .cellInvalid
    else
      let (nd, nextDir) :=
        if isResClassIII (level + 1) then (newDigitII oldDigit dir, newAdjII oldDigit dir)
        else (newDigitIII oldDigit dir, newAdjIII oldDigit dir)
      let current := setDigit current (level + 1) nd
      if nextDir != 0 then digitPass current nextDir level
      else .ok (current, none)

/-- the base-cell switch at the end of the digit loop (`r == -1`): (index, newRotations, rotations) -/
def baseCellSwitch (oldBaseCell : Nat) (current : BitVec 64) (atBase : Option Nat) (rotations : Nat) :
    BitVec 64 × Int × Nat :=
  match atBase with
  | none => (current, (0 : Int), rotations)
  | some d =>
    let nb := bcNeighbor oldBaseCell d
    if nb == 127 then
      -- pentagon base cell, deleted k direction: go IK and rotate
      (h3Rotate60ccw (setBaseCell current (bcNeighbor oldBaseCell 5)),
        bcNeighborRot oldBaseCell 5, rotations + 1)
    else (setBaseCell current nb, bcNeighborRot oldBaseCell d, rotations)

/-- the part of `h3NeighborRotations` after the base-cell switch when the new base cell is a
pentagon (rotations out of the deleted k sub-sequence, polar special cases) -/
def finishPentagon (oldBaseCell newBaseCell oldLeadingDigit nrot : Nat) (current : BitVec 64) (rotations : Nat) :
    R (BitVec 64 × Nat) := do
  let mut current := current
  let mut rotations := rotations
  let mut alreadyAdjustedKSubsequence := false
  if leadingNonZeroDigit current == 1 then
    if oldBaseCell != newBaseCell then
      if baseCellIsCwOffset newBaseCell (homeFace oldBaseCell) then
        current := h3Rotate60cw current
      else
        current := h3Rotate60ccw current
      alreadyAdjustedKSubsequence := true
    else
      if oldLeadingDigit == 0 then throw .pentagon
      else if oldLeadingDigit == 3 then
        current := h3Rotate60ccw current
        rotations := rotations + 1
      else if oldLeadingDigit == 5 then
        current := h3Rotate60cw current
        rotations := rotations + 5
      else throw .failed
  current := iterate h3RotatePent60ccw nrot current
  if oldBaseCell != newBaseCell then
    if isBaseCellPolarPentagon newBaseCell then
      if oldBaseCell != 118 && oldBaseCell != 8 && leadingNonZeroDigit current != 3 then
        rotations := rotations + 1
    else if leadingNonZeroDigit current == 5 && !alreadyAdjustedKSubsequence then
      rotations := rotations + 1
  pure (current, (rotations + nrot) % 6)

/-- everything after the digit loop -/
def finishNeighbor (oldBaseCell oldLeadingDigit : Nat) (current : BitVec 64) (atBase : Option Nat) (rotations : Nat) :
    R (BitVec 64 × Nat) :=
  let sw := baseCellSwitch oldBaseCell current atBase rotations
  let current := sw.1
  let nrot := sw.2.1.toNat
  let rotations := sw.2.2
  let newBaseCell := getBaseCell current
  if isBaseCellPentagon newBaseCell then
    finishPentagon oldBaseCell newBaseCell oldLeadingDigit nrot current rotations
  else
    .ok (iterate h3Rotate60ccw nrot current, (rotations + nrot) % 6)

/-- `h3NeighborRotations(origin, dir, &rotations, &out)`: returns (out, rotations') -/
def h3NeighborRotations (origin : BitVec 64) (dir : Nat) (rotations : Nat) : R (BitVec 64 × Nat) :=
  if dir >= 7 then .error .failed
  else
    let rotations := rotations % 6
    let dir := iterate rotate60ccw rotations dir
    let oldBaseCell := getBaseCell origin
    if oldBaseCell >= 122 then .error .cellInvalid
    else
      match digitPass origin dir (getRes origin) with
      | .error e => .error e
      | .ok (current, atBase) =>
        finishNeighbor oldBaseCell (leadingNonZeroDigit origin) current atBase rotations

/-- `directionForNeighbor`: 7 (INVALID_DIGIT) if not a neighbour -/
def directionForNeighbor (origin destination : BitVec 64) : Nat :=
  let start := if isPentagon origin then 2 else 1
  match (List.range' start (7 - start)).find? (fun d =>
      match h3NeighborRotations origin d 0 with
      | .ok (n, _) => n == destination
      | .error _ => false) with
  | some d => d
  | none => 7

end H3
