/-
Basic types of the hand-written model: error codes, table access.
Core-only (no Mathlib): this library is compiled into the `h3model` executable.
-/
import H3Model.Generated.Tables
import H3Model.Generated.BitFns

namespace H3

/-- The fifteen non-zero documented error codes (`H3ErrorCodes`). Success is `Except.ok`. -/
inductive H3Error where
  | failed | domain | latLngDomain | resDomain | cellInvalid | dirEdgeInvalid
  | undirEdgeInvalid | vertexInvalid | pentagon | duplicateInput | notNeighbors
  | resMismatch | memoryAlloc | memoryBounds | optionInvalid
  deriving DecidableEq, Repr, Inhabited

/-- numeric code as in h3api.h -/
def H3Error.code : H3Error → Nat
  | .failed => 1 | .domain => 2 | .latLngDomain => 3 | .resDomain => 4 | .cellInvalid => 5
  | .dirEdgeInvalid => 6 | .undirEdgeInvalid => 7 | .vertexInvalid => 8 | .pentagon => 9
  | .duplicateInput => 10 | .notNeighbors => 11 | .resMismatch => 12 | .memoryAlloc => 13
  | .memoryBounds => 14 | .optionInvalid => 15

abbrev R (α : Type) := Except H3Error α

instance {ε α : Type} [DecidableEq ε] [DecidableEq α] : DecidableEq (Except ε α)
  | .ok a, .ok b => if h : a = b then isTrue (by rw [h]) else isFalse (by intro h'; cases h'; exact h rfl)
  | .error a, .error b => if h : a = b then isTrue (by rw [h]) else isFalse (by intro h'; cases h'; exact h rfl)
  | .ok _, .error _ => isFalse (by intro h; cases h)
  | .error _, .ok _ => isFalse (by intro h; cases h)

/-- 2-D table read with C semantics made total: out-of-range reads give `dflt`
(the model never relies on the default: range lemmas are proved where it matters). -/
@[inline] def tbl2 (t : List (List Int)) (i j : Nat) (dflt : Int := 0) : Int :=
  (t.getD i []).getD j dflt

@[inline] def tbl1 (t : List Int) (i : Nat) (dflt : Int := 0) : Int := t.getD i dflt

/-- array-backed copies of the generated tables for the executable (same contents). -/
def arr2 (t : List (List Int)) : Array (Array Int) := (t.map List.toArray).toArray

@[inline] def atbl2 (t : Array (Array Int)) (i j : Nat) (dflt : Int := 0) : Int :=
  (t.getD i #[]).getD j dflt

end H3
