/-
h3Index.c: compactCells exactly as implemented (remainingHexes / hashSetArray with
`parent % numRemaining` probing and reserved-bit counters / compactableHexes), with its
allocation events; uncompactCells, uncompactCellsSize.
-/
import H3Model.Index
import H3Model.Alloc

namespace H3
open H3.Gen.Bits

def RESERVED_MASK_NEGATIVE : BitVec 64 := m_reserved_mask_negative

@[inline] def clearReserved (h : BitVec 64) : BitVec 64 := h &&& RESERVED_MASK_NEGATIVE

/-- the probing `while (hashSetArray[loc] != 0)` loop of phase 1 for one parent.
Returns the updated table and parent-with-count stored, or the error. -/
def hashInsert (hs : Array (BitVec 64)) (n : Nat) (parent : BitVec 64) (loc loopCount : Nat) :
    Nat → R (Array (BitVec 64))
  | 0 => .error .failed
  | fuel + 1 =>
    let e := hs.getD loc 0#64
    if e != 0#64 then
      if loopCount > n then .error .failed     -- NEVER branch
      else
        let temp := clearReserved e
        if temp == parent then
          let count := getReserved e + 1
          let limit := if isPentagon (clearReserved temp) then 6 else 7
          if count + 1 > limit then .error .duplicateInput
          else
            -- parent gets the count in its reserved bits; the slot is emptied, loop ends, slot rewritten
            .ok (hs.setIfInBounds loc (setReserved parent count))
        else hashInsert hs n parent ((loc + 1) % n) (loopCount + 1) fuel
    else .ok (hs.setIfInBounds loc parent)

/-- phase 1: hash the parents of `remaining[0..n)` -/
def compactPhase1 (remaining : Array (BitVec 64)) (n : Nat) (parentRes : Int)
    (hs : Array (BitVec 64)) : R (Array (BitVec 64)) :=
  (List.range n).foldlM (init := hs) fun hs i =>
    let cur := remaining.getD i 0#64
    if cur == 0#64 then .ok hs
    else if getReserved cur != 0 then .error .cellInvalid
    else
      match cellToParent cur parentRes with
      | .error e => .error e
      | .ok parent => hashInsert hs n parent (parent.toNat % n) 0 (n + 2)

/-- phase 2: collect the complete parents; also rewrites pentagon counts in the table -/
def compactPhase2 (hs : Array (BitVec 64)) (n : Nat) : Array (BitVec 64) × Array (BitVec 64) :=
  (List.range n).foldl (init := (hs, (#[] : Array (BitVec 64)))) fun (hs, acc) i =>
    let e := hs.getD i 0#64
    if e == 0#64 then (hs, acc)
    else
      let count := getReserved e + 1
      let (hs, e, count) :=
        if isPentagon (clearReserved e) then
          let e' := setReserved e count
          (hs.setIfInBounds i e', e', count + 1)
        else (hs, e, count)
      if count == 7 then (hs, acc.push (clearReserved e)) else (hs, acc)

/-- the `do … while (hashSetArray[loc] != parent)` search of phase 3: is the parent complete? -/
def parentIsComplete (hs : Array (BitVec 64)) (n : Nat) (parent : BitVec 64) (loc loopCount : Nat) :
    Nat → R Bool
  | 0 => .error .failed
  | fuel + 1 =>
    if loopCount > n then .error .failed        -- NEVER branch
    else
      let e := hs.getD loc 0#64
      if clearReserved e == parent then .ok (getReserved e + 1 == 7)
      else
        let loc := (loc + 1) % n
        if hs.getD loc 0#64 != parent then parentIsComplete hs n parent loc (loopCount + 1) fuel
        else .ok false

/-- phase 3: the cells copied to the output in this round -/
def compactPhase3 (remaining : Array (BitVec 64)) (n : Nat) (parentRes : Int)
    (hs : Array (BitVec 64)) : R (Array (BitVec 64)) :=
  (List.range n).foldlM (init := (#[] : Array (BitVec 64))) fun acc i =>
    let cur := remaining.getD i 0#64
    if cur == 0#64 then .ok acc
    else if parentRes >= 0 then
      match cellToParent cur parentRes with
      | .error e => .error e                      -- NEVER branch
      | .ok parent =>
        match parentIsComplete hs n parent (parent.toNat % n) 0 (n + 2) with
        | .error e => .error e
        | .ok complete => if complete then .ok acc else .ok (acc.push cur)
    else .ok (acc.push cur)

/-- the rounds of `while (numRemainingHexes)`; blocks `r` (remainingHexes) and `h` (hashSetArray) are live.
`out` = cells written to compactedSet so far (compactedSetOffset = out.size). -/
def compactRounds (sched : Nat → Bool) (numHexes : Nat) (r h : Nat) :
    Nat → Array (BitVec 64) → Nat → Array (BitVec 64) → AState → R (Array (BitVec 64)) × AState
  | 0, _, _, out, a => (.ok out, (a.free r).free h)
  | fuel + 1, remaining, n, out, a =>
    if n == 0 then (.ok out, (a.free r).free h)
    else
      let res := getRes (remaining.getD 0 0#64)
      let parentRes : Int := (res : Int) - 1
      let hs0 : Array (BitVec 64) := Array.replicate numHexes 0#64
      let p1 := if parentRes >= 0 then compactPhase1 remaining n parentRes hs0 else .ok hs0
      match p1 with
      | .error e => (.error e, (a.free r).free h)
      | .ok hs =>
        let maxCompactable := n / 6
        if maxCompactable == 0 then
          (.ok (out ++ remaining.extract 0 n), (a.free r).free h)
        else
          match a.alloc sched (maxCompactable * 8) with
          | (none, a) => (.error .memoryAlloc, (a.free r).free h)
          | (some c, a) =>
            let (hs, compactable) := compactPhase2 hs n
            match compactPhase3 remaining n parentRes hs with
            | .error e => (.error e, ((a.free c).free r).free h)
            | .ok unc =>
              let a := a.free c
              compactRounds sched numHexes r h fuel compactable compactable.size (out ++ unc) a

/-- `compactCells(h3Set, compactedSet, numHexes)`: (result = cells written in order, allocator state) -/
def compactCells (sched : Nat → Bool) (cells : Array (BitVec 64)) : R (Array (BitVec 64)) × AState :=
  let a : AState := {}
  let numHexes := cells.size
  if numHexes == 0 then (.ok #[], a)
  else
    let res := getRes (cells.getD 0 0#64)
    if res == 0 then (.ok cells, a)
    else
      match a.alloc sched (numHexes * 8) with
      | (none, a) => (.error .memoryAlloc, a)
      | (some r, a) =>
        match a.alloc sched (numHexes * 8) with
        | (none, a) => (.error .memoryAlloc, a.free r)
        | (some h, a) => compactRounds sched numHexes r h 17 cells numHexes #[] a

/-- `uncompactCells`: cells written (in order) and the error if any -/
def uncompactCells (compacted : List (BitVec 64)) (numOut : Int) (res : Int) : Option H3Error × Array (BitVec 64) :=
  let rec go (l : List (BitVec 64)) (out : Array (BitVec 64)) : Option H3Error × Array (BitVec 64) :=
    match l with
    | [] => (none, out)
    | c :: rest =>
      if !hasChildAtRes c res then (some .resMismatch, out)
      else
        -- enumerate at most room+1 children (the C loop stops at the capacity check)
        let room := (numOut - out.size).toNat
        let fuel := match cellToChildrenSize c res with
          | .ok n => min n.toNat (room + 1)
          | .error _ => 0
        let kids := childrenFuel (iterInitParent c res) fuel
        if kids.length > room then (some .memoryBounds, out ++ (kids.take room).toArray)
        else go rest (out ++ kids.toArray)
  go compacted #[]

/-- `uncompactCellsSize` -/
def uncompactCellsSize (compacted : List (BitVec 64)) (res : Int) : R Int :=
  compacted.foldlM (init := (0 : Int)) fun acc c =>
    if c == 0#64 then .ok acc
    else match cellToChildrenSize c res with
      | .error _ => .error .resMismatch
      | .ok n => .ok (acc + n)

end H3
