/-
Specification-level compaction: the maximal *full* ancestors.  For a duplicate-free list of cells of
one resolution r, a cell q of resolution ≤ r is full when the number of input cells below it equals
cellToChildrenSize q r; the compacted set consists, for every input cell, of its coarsest ancestor
such that every ancestor on the way up to it is full.  This is `Compact` of H3Proofs/Props/C06Spec.lean
written with the library's parent / children-size functions; the op `compactS` compares it (as a
sorted set) with the real `compactCells`.
-/
import H3Model.Index

namespace H3

def parentOr (x : BitVec 64) (l : Nat) : BitVec 64 :=
  match cellToParent x (l : Int) with
  | .ok p => p
  | .error _ => 0#64

/-- all level-r descendants of q are in `cells` (cells duplicate-free, all of resolution r) -/
def isFull (cells : List (BitVec 64)) (r : Nat) (q : BitVec 64) : Bool :=
  match cellToChildrenSize q (r : Int) with
  | .ok n => ((cells.filter (fun y => parentOr y (getRes q) == q)).length : Int) == n
  | .error _ => false

/-- climb from `cur` (of resolution l) while the parent is full -/
def climbFull (cells : List (BitVec 64)) (r : Nat) : Nat → BitVec 64 → BitVec 64
  | 0, cur => cur
  | l + 1, cur =>
    let q := parentOr cur l
    if isFull cells r q then climbFull cells r l q else cur

def insertSorted (x : BitVec 64) : List (BitVec 64) → List (BitVec 64)
  | [] => [x]
  | y :: ys => if x.toNat < y.toNat then x :: y :: ys else if x == y then y :: ys else y :: insertSorted x ys

/-- the compacted set, sorted increasingly, without duplicates -/
def compactSpec (cells : List (BitVec 64)) : List (BitVec 64) :=
  match cells with
  | [] => []
  | c :: _ =>
    let r := getRes c
    cells.foldl (fun acc x => insertSorted (climbFull cells r r x) acc) []

end H3
