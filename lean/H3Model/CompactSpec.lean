/-
Specification-level compaction: the maximal *full* ancestors.  For a duplicate-free list of cells of
one resolution r, a cell q of resolution ≤ r is full when the number of input cells below it equals
cellToChildrenSize q r; the compacted set consists, for every input cell, of its coarsest ancestor
such that every ancestor on the way up to it is full.  This is `Compact` of H3Proofs/Props/C06Spec.lean
written with the library's parent / children-size functions; the op `compactS` compares it (as a
sorted set) with the real `compactCells`.
-/
import H3Model.Index

namespace H3

def parentOr (x : BitVec 64) (l : Nat) : BitVec 64 :=
  match cellToParent x (l : Int) with
  | .ok p => p
  | .error _ => 0#64

/-- `tbl[l]` = the resolution-l ancestors of the input cells, in input order -/
def ancTable (cells : List (BitVec 64)) (r : Nat) : Array (Array (BitVec 64)) :=
  (Array.range (r + 1)).map fun l => (cells.map (parentOr · l)).toArray

/-- all level-r descendants of q (an ancestor at level l) are among the input cells (duplicate-free,
all of resolution r): as many input cells have q as their level-l ancestor as q has descendants -/
def isFull (tbl : Array (Array (BitVec 64))) (r l : Nat) (q : BitVec 64) : Bool :=
  match cellToChildrenSize q (r : Int) with
  | .ok n => (((tbl[l]!).filter (· == q)).size : Int) == n
  | .error _ => false

/-- climb from the level-l ancestor of input cell number i while the parent is full -/
def climbFull (tbl : Array (Array (BitVec 64))) (r i : Nat) : Nat → BitVec 64
  | 0 => (tbl[0]!)[i]!
  | l + 1 =>
    if isFull tbl r l ((tbl[l]!)[i]!) then climbFull tbl r i l else (tbl[l + 1]!)[i]!

def insertSorted (x : BitVec 64) : List (BitVec 64) → List (BitVec 64)
  | [] => [x]
  | y :: ys => if x.toNat < y.toNat then x :: y :: ys else if x == y then y :: ys else y :: insertSorted x ys

/-- the compacted set, sorted increasingly, without duplicates -/
def compactSpec (cells : List (BitVec 64)) : List (BitVec 64) :=
  match cells with
  | [] => []
  | c :: _ =>
    let r := getRes c
    let tbl := ancTable cells r
    (List.range cells.length).foldl (fun acc i => insertSorted (climbFull tbl r i r) acc) []

end H3
