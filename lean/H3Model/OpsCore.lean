/- ops of the model driver: bit fields, validity, strings, hierarchy -/
import H3Model.Proto
import H3Model.Index
import H3Model.Str
import H3Model.HierSpec

namespace H3.Ops
open H3 H3.Proto

def bv1 (b : BitVec 1) : String := if b == 1#1 then "1" else "0"

def opsCore (op : String) (a : List String) : Option String :=
  match op, a with
  | "valid", [h] => do
    let h ← parseH h
    pure ("ok " ++ b2s (isValidCell h))
  | "vparts", [h] => do
    -- the static helpers of h3Index.c as translated by c2lean, on the (res, bc) the C code passes
    let h ← parseH h
    let res := H3.Gen.Bits.m_get_resolution h
    let bc := H3.Gen.Bits.m_get_base_cell h
    pure ("ok " ++ bv1 (H3.Gen.Bits.hasGoodTopBits h) ++ " " ++ bv1 (H3.Gen.Bits.hasAny7UptoRes h res)
      ++ " " ++ bv1 (H3.Gen.Bits.hasAll7AfterRes h res) ++ " " ++ bv1 (H3.Gen.Bits.hasDeletedSubsequence h bc))
  | "genfn", [h] => do
    -- loop functions of h3Index.c as translated (unrolled) by c2lean
    let h ← parseH h
    pure ("ok " ++ toString (H3.Gen.Bits.h3LeadingNonZeroDigit h).toNat ++ " " ++ showH (H3.Gen.Bits.h3Rotate60ccw h)
      ++ " " ++ showH (H3.Gen.Bits.h3Rotate60cw h))
  | "genfn2", [h, r, o] => do
    -- functions with out parameters / conditionals in loops / table columns, as translated by c2lean: return code,
    -- final value of the out parameter (preset to `o` by the caller), and the definedness companion
    let h ← parseH h
    let r ← parseInt r
    let o ← parseH o
    let rb := BitVec.ofInt 32 r
    let b := fun (x : Bool) => if x then "1" else "0"
    let mdc := if H3.Gen.Bits.makeDirectChild_defined h rb then showH (H3.Gen.Bits.makeDirectChild h rb) else "-"
    let sh := if H3.Gen.Bits.setH3Index_defined o rb (BitVec.ofNat 32 (getBaseCell h)) (BitVec.ofNat 32 (getDigit h 1))
      then showH (H3.Gen.Bits.setH3Index_out_hp o rb (BitVec.ofNat 32 (getBaseCell h)) (BitVec.ofNat 32 (getDigit h 1))) else "-"
    pure ("ok " ++ toString (H3.Gen.Bits.cellToParent h rb o).toNat ++ " " ++ showH (H3.Gen.Bits.cellToParent_out_out h rb o)
      ++ " " ++ toString (H3.Gen.Bits.cellToCenterChild h rb o).toNat ++ " " ++ showH (H3.Gen.Bits.cellToCenterChild_out_child h rb o)
      ++ " " ++ toString (H3.Gen.Bits.cellToChildrenSize h rb o).toNat ++ " " ++ showH (H3.Gen.Bits.cellToChildrenSize_out_out h rb o)
      ++ " " ++ toString (H3.Gen.Bits.isPentagon h).toNat
      ++ " " ++ showH (H3.Gen.Bits.h3RotatePent60ccw h) ++ " " ++ showH (H3.Gen.Bits.h3RotatePent60cw h)
      ++ " " ++ mdc ++ " " ++ sh
      ++ " " ++ b (H3.Gen.Bits.cellToParent_defined h rb o) ++ b (H3.Gen.Bits.cellToCenterChild_defined h rb o)
      ++ b (H3.Gen.Bits.cellToChildrenSize_defined h rb o) ++ b (H3.Gen.Bits.isPentagon_defined h)
      ++ b (H3.Gen.Bits.h3RotatePent60ccw_defined h) ++ b (H3.Gen.Bits.h3RotatePent60cw_defined h))
  | "genfn3", [h, o, u] => do
    -- translations that pass `&local` to a callee / have an uninitialised local (`u` is its indeterminate value)
    let h ← parseH h
    let o ← parseH o
    let u ← parseH u
    let b := fun (x : Bool) => if x then "1" else "0"
    let o32 := BitVec.setWidth 32 o
    pure ("ok " ++ toString (H3.Gen.Bits.isValidDirectedEdge h u).toNat
      ++ " " ++ toString (H3.Gen.Bits.getDirectedEdgeOrigin h o).toNat ++ " " ++ showH (H3.Gen.Bits.getDirectedEdgeOrigin_out_out h o)
      ++ " " ++ toString (H3.Gen.Bits.maxFaceCount h o32).toNat ++ " " ++ toString (H3.Gen.Bits.maxFaceCount_out_out h o32).toNat
      ++ " " ++ b (H3.Gen.Bits.isValidDirectedEdge_defined h u) ++ b (H3.Gen.Bits.getDirectedEdgeOrigin_defined h o)
      ++ b (H3.Gen.Bits.maxFaceCount_defined h o32))
  | "genfn4", [pos, parent, r, k, o] => do
    -- validateChildPos (static), getNumCells, maxGridDiskSize as translated by c2lean
    let pos ← parseInt pos
    let parent ← parseH parent
    let r ← parseInt r
    let k ← parseInt k
    let o ← parseH o
    let rb := BitVec.ofInt 32 r
    let kb := BitVec.ofInt 32 k
    let pb := BitVec.ofInt 64 pos
    let b := fun (x : Bool) => if x then "1" else "0"
    let vcp := if H3.Gen.Bits.validateChildPos_defined pb parent rb o then toString (H3.Gen.Bits.validateChildPos pb parent rb o).toNat else "-"
    pure ("ok " ++ vcp
      ++ " " ++ toString (H3.Gen.Bits.getNumCells rb o).toNat ++ " " ++ showH (H3.Gen.Bits.getNumCells_out_out rb o)
      ++ " " ++ toString (H3.Gen.Bits.maxGridDiskSize kb o).toNat ++ " " ++ showH (H3.Gen.Bits.maxGridDiskSize_out_out kb o)
      ++ " " ++ b (H3.Gen.Bits.getNumCells_defined rb o) ++ b (H3.Gen.Bits.maxGridDiskSize_defined kb o))
  | "genfn5", [h, r, o, uo, uv] => do
    -- cellToChildPos as translated by c2lean: return code and the value left in *out (partial sums on an error
    -- inside the loops included); uo, uv are the indeterminate values of its uninitialised locals
    let h ← parseH h
    let r ← parseInt r
    let o ← parseH o
    let uo ← parseH uo
    let uv ← parseH uv
    let rb := BitVec.ofInt 32 r
    pure ("ok " ++ toString (H3.Gen.Bits.cellToChildPos h rb o uo uv).toNat ++ " " ++ showH (H3.Gen.Bits.cellToChildPos_out_out h rb o uo uv))
  | "genfn6", [h] => do
    let h ← parseH h
    pure ("ok " ++ toString (H3.Gen.Bits.getResolution h).toNat ++ " " ++ toString (H3.Gen.Bits.getBaseCellNumber h).toNat
      ++ " " ++ toString (H3.Gen.Bits.isResClassIII h).toNat ++ " " ++ toString (H3.Gen.Bits.pentagonCount).toNat
      ++ " " ++ toString (H3.Gen.Bits.res0CellCount).toNat)
  | "mac", [h, r, d, v] => do
    let h ← parseH h
    let r ← r.toNat?
    let d ← d.toNat?
    let v ← v.toNat?
    pure ("ok " ++ toString (getHighBit h) ++ " " ++ toString (getMode h) ++ " " ++ toString (getReserved h)
      ++ " " ++ toString (getRes h) ++ " " ++ toString (getBaseCell h) ++ " " ++ toString (getDigit h r)
      ++ " " ++ showH (setHighBit h (v % 2)) ++ " " ++ showH (setMode h (v % 16)) ++ " " ++ showH (setReserved h (v % 8))
      ++ " " ++ showH (setRes h (v % 16)) ++ " " ++ showH (setBaseCell h (v % 128)) ++ " " ++ showH (setDigit h r d))
  | "zero", [h, s, e] => do
    let h ← parseH h
    let s ← parseInt s
    let e ← parseInt e
    pure ("ok " ++ showH (zeroIndexDigits h s e))
  | "tostr", [h, sz] => do
    let h ← parseH h
    let sz ← sz.toNat?
    pure (showR showBytes (Str.h3ToString h sz))
  | "fromstr", [s] => do
    let s ← parseBytes s
    pure (showR showH (Str.stringToH3 s))
  | "ispent", [h] => do
    let h ← parseH h
    pure ("ok " ++ b2s (isPentagon h))
  | "parent", [h, r] => do
    let h ← parseH h
    let r ← parseInt r
    pure (showR showH (cellToParent h r))
  | "csize", [h, r] => do
    let h ← parseH h
    let r ← parseInt r
    pure (showR toString (cellToChildrenSize h r))
  | "center", [h, r] => do
    let h ← parseH h
    let r ← parseInt r
    pure (showR showH (cellToCenterChild h r))
  | "children", [h, r] => do
    let h ← parseH h
    let r ← parseInt r
    -- C: size error -> nothing to enumerate; else the list (always E_SUCCESS)
    match cellToChildrenSize h r with
    | .error e => pure ("err " ++ toString e.code)
    | .ok _ => pure ("ok " ++ showHs (cellToChildren h r))
  | "iterhead", [h, r, n] => do
    let h ← parseH h
    let r ← parseInt r
    let n ← parseInt n
    let lim := if n < 0 then 0 else if n > 100000 then 100000 else n.toNat
    pure ("ok " ++ showHs (childrenFuel (iterInitParent h r) lim))
  | "cpos", [h, r] => do
    let h ← parseH h
    let r ← parseInt r
    pure (showR toString (cellToChildPos h r))
  | "pos2cell", [p, h, r] => do
    let p ← parseInt p
    let h ← parseH h
    let r ← parseInt r
    pure (showR showH (childPosToCell p h r))
  | "cposS", [h, r] => do
    let h ← parseH h
    let r ← parseInt r
    -- the C function additionally runs a defensive validation that never fires (theorem childPos_lt_size)
    pure (showR toString (cellToChildPosS h r))
  | "pos2cellS", [p, h, r] => do
    let p ← parseInt p
    let h ← parseH h
    let r ← parseInt r
    pure (showR showH (childPosToCellS p h r))
  | "childrenS", [h, r] => do
    let h ← parseH h
    let r ← parseInt r
    match cellToChildrenSize h r with
    | .error e => pure ("err " ++ toString e.code)
    | .ok _ => pure ("ok " ++ showHs (cellToChildrenS h r))
  | "rt", [h] => do
    -- specification-level answer: the centre round trip returns the cell itself
    let h ← parseH h
    if isValidCell h then pure ("ok " ++ showH h) else pure "skip"
  | "countall", [r] => do
    let r ← r.toNat?
    let cs := cellsEnum r
    let pent := (cs.filter isPentagon).length
    let sorted := (cs.zip (cs.drop 1)).all fun (a, b) => a.toNat < b.toNat
    let valid := cs.all fun c => isValidCell c && getRes c == r
    let x := cs.foldl (fun acc c => acc ^^^ c) 0#64
    pure (s!"ok {cs.length} {pent} {b2s sorted} {b2s valid} " ++ showH x)
  | "pentagons", [r] => do
    let r ← parseInt r
    pure (showR showHs (getPentagons r))
  | "res0", [] => pure ("ok " ++ showHs getRes0Cells)
  | "counts", [] => pure "ok 122 12"
  | _, _ => none

end H3.Ops
