/-
H3 index bit fields and the hierarchy functions of h3Index.c / iterators.c.
The field accessors are the *generated* translations of the C macros.
-/
import H3Model.Basic

namespace H3
open H3.Gen.Bits

abbrev H3Index := BitVec 64

def H3_NULL : BitVec 64 := 0#64
def MAX_RES : Nat := 15

@[inline] def getHighBit (h : BitVec 64) : Nat := (m_get_high_bit h).toNat
@[inline] def getMode (h : BitVec 64) : Nat := (m_get_mode h).toNat
@[inline] def getReserved (h : BitVec 64) : Nat := (m_get_reserved h).toNat
@[inline] def getRes (h : BitVec 64) : Nat := (m_get_resolution h).toNat
@[inline] def getBaseCell (h : BitVec 64) : Nat := (m_get_base_cell h).toNat
/-- `H3_GET_INDEX_DIGIT(h, r)`; meaningful for 1 ≤ r ≤ 15 -/
@[inline] def getDigit (h : BitVec 64) (r : Nat) : Nat := (m_get_digit h (BitVec.ofNat 32 r)).toNat
@[inline] def setMode (h : BitVec 64) (v : Nat) : BitVec 64 := m_set_mode h (BitVec.ofNat 32 v)
@[inline] def setReserved (h : BitVec 64) (v : Nat) : BitVec 64 := m_set_reserved h (BitVec.ofNat 32 v)
@[inline] def setRes (h : BitVec 64) (v : Nat) : BitVec 64 := m_set_resolution h (BitVec.ofNat 32 v)
@[inline] def setBaseCell (h : BitVec 64) (v : Nat) : BitVec 64 := m_set_base_cell h (BitVec.ofNat 32 v)
@[inline] def setDigit (h : BitVec 64) (r d : Nat) : BitVec 64 :=
  m_set_digit h (BitVec.ofNat 32 r) (BitVec.ofNat 32 d)
@[inline] def setHighBit (h : BitVec 64) (v : Nat) : BitVec 64 := m_set_high_bit h (BitVec.ofNat 32 v)

def H3_INIT : BitVec 64 := m_h3_init

/-- `isValidCell` as generated from C, as a Bool -/
@[inline] def isValidCell (h : BitVec 64) : Bool := H3.Gen.Bits.isValidCell h != 0#32

/-- `_isBaseCellPentagon` (baseCells.c): reads `baseCellData[bc].isPentagon`; the C code
guards the read with `baseCell < 0 || baseCell >= NUM_BASE_CELLS → false`. -/
def isBaseCellPentagon (bc : Nat) : Bool :=
  if bc ≥ 122 then false else tbl2 H3.Gen.baseCellData bc 4 != 0

/-- `_h3LeadingNonZeroDigit` -/
def leadingNonZeroDigit (h : BitVec 64) : Nat :=
  go 1 (getRes h)
where
  go (r : Nat) (fuel : Nat) : Nat :=
    match fuel with
    | 0 => 0
    | fuel + 1 => if getDigit h r != 0 then getDigit h r else go (r + 1) fuel

/-- `isPentagon` -/
def isPentagon (h : BitVec 64) : Bool :=
  isBaseCellPentagon (getBaseCell h) && leadingNonZeroDigit h == 0

/-- `isResClassIII` / `isResolutionClassIII` -/
@[inline] def isResClassIII (r : Nat) : Bool := r % 2 == 1

/-- `setH3Index` -/
def setH3Index (res bc digit : Nat) : BitVec 64 :=
  let h := setBaseCell (setRes (setMode H3_INIT 1) res) bc
  (List.range' 1 res).foldl (fun h r => setDigit h r digit) h

/-- `cellToParent` (parentRes is a C `int`) -/
def cellToParent (h : BitVec 64) (parentRes : Int) : R (BitVec 64) :=
  let childRes := getRes h
  if parentRes < 0 || parentRes > 15 then .error .resDomain
  else if parentRes > childRes then .error .resMismatch
  else if parentRes == childRes then .ok h
  else
    let p := parentRes.toNat
    let parentH := setRes h p
    .ok ((List.range' (p + 1) (childRes - p)).foldl (fun x i => setDigit x i 7) parentH)

/-- `_hasChildAtRes` -/
def hasChildAtRes (h : BitVec 64) (childRes : Int) : Bool :=
  !(childRes < (getRes h : Int) || childRes > 15)

/-- `_ipow` (mathExtensions.c): square-and-multiply on int64 (modelled on `Int`;
`ipow_no_overflow` in the proofs shows every call site stays below 2^63). -/
def ipow (base : Int) (exp : Nat) : Int :=
  go base exp 1 64
where
  go (base : Int) (exp : Nat) (result : Int) : Nat → Int
    | 0 => result
    | fuel + 1 =>
      if exp == 0 then result
      else
        let result := if exp % 2 == 1 then result * base else result
        go (base * base) (exp / 2) result fuel

/-- `cellToChildrenSize` -/
def cellToChildrenSize (h : BitVec 64) (childRes : Int) : R Int :=
  if !hasChildAtRes h childRes then .error .resDomain
  else
    let n := (childRes - getRes h).toNat
    if isPentagon h then .ok (1 + 5 * (ipow 7 n - 1) / 6) else .ok (ipow 7 n)

/-- `makeDirectChild` -/
def makeDirectChild (h : BitVec 64) (cellNumber : Nat) : BitVec 64 :=
  let childRes := getRes h + 1
  setDigit (setRes h childRes) childRes cellNumber

/-- `_zeroIndexDigits` (generated) with `int` arguments -/
@[inline] def zeroIndexDigits (h : BitVec 64) (s e : Int) : BitVec 64 :=
  H3.Gen.Bits.zeroIndexDigits h (BitVec.ofInt 32 s) (BitVec.ofInt 32 e)

/-- `cellToCenterChild` -/
def cellToCenterChild (h : BitVec 64) (childRes : Int) : R (BitVec 64) :=
  if !hasChildAtRes h childRes then .error .resDomain
  else .ok (setRes (zeroIndexDigits h (getRes h + 1) childRes) childRes.toNat)

/-! ### child iterator (iterators.c) -/

structure IterChildren where
  h : BitVec 64
  parentRes : Int
  skipDigit : Int
  deriving Repr

def nullIter : IterChildren := { h := 0#64, parentRes := -1, skipDigit := -1 }

/-- `_incrementResDigit`: add 1 at digit position `res` (64-bit wrap-around as in C) -/
@[inline] def incrementResDigit (h : BitVec 64) (res : Nat) : BitVec 64 :=
  h + ((1#64) <<< (3 * (15 - res)))

/-- `iterInitParent` -/
def iterInitParent (h : BitVec 64) (childRes : Int) : IterChildren :=
  let parentRes := getRes h
  if childRes < parentRes || childRes > 15 || h == 0#64 then nullIter
  else
    let h' := setRes (zeroIndexDigits h (parentRes + 1) childRes) childRes.toNat
    { h := h', parentRes := parentRes, skipDigit := if isPentagon h' then childRes else -1 }

/-- `iterStepChild` -/
def iterStepChild (it : IterChildren) : IterChildren :=
  if it.h == 0#64 then it
  else
    let childRes := getRes it.h
    let h := incrementResDigit it.h childRes
    loop { it with h := h } childRes (childRes + 1)
where
  /-- the `for (i = childRes; i >= parentRes; i--)` loop; `fuel` ≥ number of iterations -/
  loop (it : IterChildren) (i : Nat) : Nat → IterChildren
    | 0 => it
    | fuel + 1 =>
      if (i : Int) < it.parentRes then it
      else if (i : Int) == it.parentRes then nullIter
      else if (i : Int) == it.skipDigit && getDigit it.h i == 1 then
        { it with h := incrementResDigit it.h i, skipDigit := it.skipDigit - 1 }
      else if getDigit it.h i == 7 then
        loop { it with h := incrementResDigit it.h i } (i - 1) fuel
      else it

/-- all `iter.h` values produced by `for (it = iterInitParent(h, r); it.h; iterStepChild(&it))`,
at most `fuel` of them -/
def childrenFuel (it : IterChildren) : Nat → List (BitVec 64)
  | 0 => []
  | fuel + 1 => if it.h == 0#64 then [] else it.h :: childrenFuel (iterStepChild it) fuel

/-- `cellToChildren`: the list written to the output buffer (always E_SUCCESS in C).
Fuel: `cellToChildrenSize` when defined (proved sufficient in H3Proofs), else 0 children. -/
def cellToChildren (h : BitVec 64) (childRes : Int) : List (BitVec 64) :=
  match cellToChildrenSize h childRes with
  | .ok n => childrenFuel (iterInitParent h childRes) n.toNat
  | .error _ => []

/-- `iterInitBaseCellNum` -/
def iterInitBaseCellNum (bc : Int) (childRes : Int) : IterChildren :=
  if bc < 0 || bc >= 122 || childRes < 0 || childRes > 15 then nullIter
  else iterInitParent (setH3Index 0 bc.toNat 0) childRes

/-- all cells produced by `for (it = iterInitRes(res); it.h; iterStepRes(&it))`, in order:
base cell after base cell, each through the child iterator -/
def cellsEnum (res : Nat) : List (BitVec 64) :=
  (List.range 122).flatMap fun (bc : Nat) =>
    let it := iterInitBaseCellNum (bc : Int) (res : Int)
    match cellToChildrenSize (setH3Index 0 bc 0) (res : Int) with
    | .ok n => childrenFuel it n.toNat
    | .error _ => []

/-- `getPentagons` -/
def getPentagons (res : Int) : R (List (BitVec 64)) :=
  if res < 0 || res > 15 then .error .resDomain
  else .ok (((List.range 122).filter isBaseCellPentagon).map fun bc => setH3Index res.toNat bc 0)

/-- `getRes0Cells` -/
def getRes0Cells : List (BitVec 64) :=
  (List.range 122).map fun bc => setBaseCell (setMode H3_INIT 1) bc

/-! ### child positions -/

def validateChildPos (childPos : Int) (parent : BitVec 64) (childRes : Int) : R Unit :=
  match cellToChildrenSize parent childRes with
  | .error e => .error e
  | .ok maxCount => if childPos < 0 || childPos >= maxCount then .error .domain else .ok ()

/-- `cellToChildPos` -/
def cellToChildPos (child : BitVec 64) (parentRes : Int) : R Int := do
  let childRes := getRes child
  let originalParent ← cellToParent child parentRes
  let pRes := parentRes.toNat
  let out ←
    if isPentagon originalParent then
      -- for (res = childRes; res > parentRes; res--)
      (List.range' 0 (childRes - pRes)).foldlM (init := (0 : Int)) fun out k => do
        let res := childRes - k
        let parent ← cellToParent child ((res : Int) - 1)
        let parentIsPentagon := isPentagon parent
        let rawDigit := getDigit child res
        if rawDigit == 7 || (parentIsPentagon && rawDigit == 1) then
          throw .cellInvalid
        let digit := if parentIsPentagon && rawDigit > 0 then rawDigit - 1 else rawDigit
        if digit != 0 then
          let hexChildCount := ipow 7 (childRes - res)
          pure (out + (if parentIsPentagon then 1 + (5 * (hexChildCount - 1)) / 6 else hexChildCount)
                    + ((digit : Int) - 1) * hexChildCount)
        else pure out
    else
      (List.range' 0 (childRes - pRes)).foldlM (init := (0 : Int)) fun out k => do
        let res := childRes - k
        let digit := getDigit child res
        if digit == 7 then throw .cellInvalid
        pure (out + (digit : Int) * ipow 7 (childRes - res))
  match validateChildPos out originalParent childRes with
  | .error _ => .error .failed
  | .ok () => .ok out

/-- `childPosToCell` -/
def childPosToCell (childPos : Int) (parent : BitVec 64) (childRes : Int) : R (BitVec 64) := do
  if childRes < 0 || childRes > 15 then throw .resDomain
  let parentRes := getRes parent
  if childRes < parentRes then throw .resMismatch
  validateChildPos childPos parent childRes
  let cRes := childRes.toNat
  let resOffset := cRes - parentRes
  let child := setRes parent cRes
  if isPentagon parent then
    let (child, _, _) := (List.range' 1 resOffset).foldl (init := (child, childPos, true))
      fun (child, idx, inPent) res =>
        let resWidth := ipow 7 (resOffset - res)
        if inPent then
          let pentWidth := 1 + (5 * (resWidth - 1)) / 6
          if idx < pentWidth then (setDigit child (parentRes + res) 0, idx, true)
          else
            let idx := idx - pentWidth
            (setDigit child (parentRes + res) ((idx / resWidth).toNat + 2), idx % resWidth, false)
        else (setDigit child (parentRes + res) (idx / resWidth).toNat, idx % resWidth, false)
    pure child
  else
    let (child, _) := (List.range' 1 resOffset).foldl (init := (child, childPos))
      fun (child, idx) res =>
        let resWidth := ipow 7 (resOffset - res)
        (setDigit child (parentRes + res) (idx / resWidth).toNat, idx % resWidth)
    pure child

end H3
