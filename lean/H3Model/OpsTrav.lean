/- ops of the model driver: traversal, local ij, faces, edges, vertexes, compaction -/
import H3Model.Proto
import H3Model.EdgeVertex
import H3Model.Compact
import H3Model.CompactSpec
import H3Model.Hex2d
import H3Model.Poly
import H3Model.DiskSpec
import H3Model.MultiPoly

namespace H3.Ops
open H3 H3.Proto

def showPairs (out : Array (BitVec 64)) (dist : Array Int) : String :=
  toString out.size ++ (List.range out.size).foldl (fun acc i =>
    acc ++ " " ++ showH (out.getD i 0#64) ++ " " ++ toString (dist.getD i 0)) ""

def showArr (out : Array (BitVec 64)) : String := showHs out.toList

def padTo (a : Array (BitVec 64)) (n : Nat) : Array (BitVec 64) := a ++ Array.replicate (n - a.size) 0#64

def showFijk (f : FaceIJK) : String := s!"{f.face} {f.coord.i} {f.coord.j} {f.coord.k}"

def ovCode : Overage → Nat
  | .none => 0 | .faceEdge => 1 | .newFace => 2

def allocTail (a : AState) : String :=
  let nf := (a.trace.filter fun e => match e with | .fail _ _ => true | _ => false).length
  " live=" ++ toString a.live.length ++ " calls=" ++ toString a.calls ++ " failed=" ++ toString nf ++
    " badfree=0 | " ++ showTrace a.trace

def opsTrav (op : String) (a : List String) : Option String :=
  match op, a with
  | "nbr", [h, d, r] => do
    let h ← parseH h; let d ← d.toNat?; let r ← r.toNat?
    pure (showR (fun (o, r) => showH o ++ " " ++ toString r) (h3NeighborRotations h d r))
  | "dirfor", [x, y] => do
    let x ← parseH x; let y ← parseH y
    pure ("ok " ++ toString (directionForNeighbor x y))
  | "maxdisk", [k] => do
    let k ← parseInt k
    pure (showR toString (maxGridDiskSize k))
  | "numcells", [r] => do
    let r ← parseInt r
    pure (showR toString (getNumCells r))
  | "disk", [h, k] => do
    let h ← parseH h; let k ← parseInt k
    pure (showR (fun (o, d) => showPairs o d) (gridDiskDistances h k))
  | "disk0", [h, k] => do
    let h ← parseH h; let k ← parseInt k
    pure (showR (fun (o, _) => showArr o) (gridDiskDistances h k))
  | "disksafe", [h, k] => do
    let h ← parseH h; let k ← parseInt k
    pure (showR (fun (o, d) => showPairs o d) (gridDiskDistancesSafe h k))
  | "diskunsafe", [h, k] => do
    let h ← parseH h; let k ← parseInt k
    match gridDiskDistancesUnsafe h k with
    | (some e, _, _) => pure ("err " ++ toString e.code)
    | (none, o, d) => pure ("ok " ++ showPairs o d)
  | "disksunsafe", k :: n :: cs => do
    let k ← parseInt k; let n ← parseInt n
    if n != (cs.length : Int) then none
    let cs ← cs.mapM parseH
    pure (showR showArr (gridDisksUnsafe cs k))
  | "ring", [h, k] => do
    let h ← parseH h; let k ← parseInt k
    match gridRingUnsafe h k with
    | (some e, _) => pure ("err " ++ toString e.code)
    | (none, o) => pure ("ok " ++ showArr o)
  | "areneighbors", [x, y] => do
    let x ← parseH x; let y ← parseH y
    pure (showR b2s (areNeighborCells x y))
  | "edge", [x, y] => do
    let x ← parseH x; let y ← parseH y
    pure (showR showH (cellsToDirectedEdge x y))
  | "edgeorigin", [e] => do
    let e ← parseH e
    pure (showR showH (getDirectedEdgeOrigin e))
  | "edgedest", [e] => do
    let e ← parseH e
    pure (showR showH (getDirectedEdgeDestination e))
  | "edgevalid", [e] => do
    let e ← parseH e
    pure ("ok " ++ b2s (isValidDirectedEdge e))
  | "edgecells", [e] => do
    let e ← parseH e
    pure (showR (fun (o, d) => showH o ++ " " ++ showH d) (directedEdgeToCells e))
  | "edgesfrom", [x] => do
    let x ← parseH x
    pure ("ok " ++ showHs (originToDirectedEdges x))
  | "vrot", [h] => do
    let h ← parseH h
    pure (showR toString (vertexRotations h))
  | "vnumfordir", [h, d] => do
    let h ← parseH h; let d ← d.toNat?
    pure ("ok " ++ toString (vertexNumForDirection h d))
  | "dirforvnum", [h, v] => do
    let h ← parseH h; let v ← parseInt v
    pure ("ok " ++ toString (directionForVertexNum h v))
  | "c2v", [h, v] => do
    let h ← parseH h; let v ← parseInt v
    pure (showR showH (cellToVertex h v))
  | "c2vs", [h] => do
    let h ← parseH h
    pure (showR showHs (cellToVertexes h))
  | "mploops", n :: cs => do
    let n ← parseInt n
    if n != (cs.length : Int) then none
    let cs ← cs.mapM parseH
    pure (showR (fun lps => toString lps.length ++ String.join (lps.map (fun lp => " " ++ showHs lp))) (multiPolyLoops cs))
  | "vvalid", [v] => do
    let v ← parseH v
    pure ("ok " ++ b2s (isValidVertex v))
  | "lijk", [o, h] => do
    let o ← parseH o; let h ← parseH h
    pure (showR (fun c => s!"{c.i} {c.j} {c.k}") (cellToLocalIjk o h))
  | "ijk2cell", [o, i, j, k] => do
    let o ← parseH o; let i ← parseInt i; let j ← parseInt j; let k ← parseInt k
    pure (showR showH (localIjkToCell o ⟨i, j, k⟩))
  | "lij", [o, h, m] => do
    let o ← parseH o; let h ← parseH h; let m ← m.toNat?
    pure (showR (fun c => s!"{c.i} {c.j}") (cellToLocalIj o h m))
  | "ij2cell", [o, i, j, m] => do
    let o ← parseH o; let i ← parseInt i; let j ← parseInt j; let m ← m.toNat?
    pure (showR showH (localIjToCell o ⟨i, j⟩ m))
  | "dist", [x, y] => do
    let x ← parseH x; let y ← parseH y
    pure (showR toString (gridDistance x y))
  | "pathsize", [x, y] => do
    let x ← parseH x; let y ← parseH y
    pure (showR toString (gridPathCellsSize x y))
  | "path", [x, y] => do
    let x ← parseH x; let y ← parseH y
    match gridPathCellsSize x y with
    | .ok n =>
      if n > 2000000 then pure "skip-too-large"
      else
        match gridPathCells x y with
        | (some e, _) => pure ("err " ++ toString e.code)
        | (none, o) => pure ("ok " ++ showArr o)
    | .error e => pure ("err " ++ toString e.code)
  | "h2fijk", [h] => do
    let h ← parseH h
    pure (showR showFijk (h3ToFaceIjk h))
  | "fijk2h", [f, i, j, k, r] => do
    let f ← parseInt f; let i ← parseInt i; let j ← parseInt j; let k ← parseInt k; let r ← r.toNat?
    pure ("ok " ++ showH (faceIjkToH3 ⟨f, ⟨i, j, k⟩⟩ r))
  | "overage", [f, i, j, k, r, p, s] => do
    let f ← parseInt f; let i ← parseInt i; let j ← parseInt j; let k ← parseInt k; let r ← r.toNat?
    let (ov, g) := adjustOverageClassII ⟨f, ⟨i, j, k⟩⟩ r (p == "1") (s == "1")
    pure (s!"ok {ovCode ov} " ++ showFijk g)
  | "verts", [h] => do
    let h ← parseH h
    match h3ToFaceIjk h with
    | .error e => pure ("err " ++ toString e.code)
    | .ok f =>
      let (r, _, vs) := faceIjkToVertsN (if isPentagon h then 5 else 6) f (getRes h)
      pure (s!"ok {r}" ++ vs.foldl (fun acc v => acc ++ " " ++ showFijk v) "")
  | "maxfaces", [h] => do
    let h ← parseH h
    pure ("ok " ++ toString (maxFaceCount h))
  | "faces", [h] => do
    let h ← parseH h
    pure (showR showInts (getIcosahedronFaces h 3))
  | "compact", args => do
    let (cells, _) ← parseHList args
    let (r, _) := compactCells noFail cells.toArray
    pure (showR (fun o => showArr (padTo o cells.length)) r)
  | "compactS", args => do
    let (cells, _) ← parseHList args
    -- the specification answers only for small duplicate-free sets (quadratic)
    if cells.length > 400 then none
    pure ("ok " ++ showArr (compactSpec cells).toArray)
  | "uncompact", args => do
    let (cells, rest) ← parseHList args
    match rest with
    | [res, cap] =>
      let res ← parseInt res; let cap ← parseInt cap
      match uncompactCells cells cap res with
      | (some e, _) => pure ("err " ++ toString e.code)
      | (none, o) => pure ("ok " ++ showArr o)
    | _ => none
  | "uncompactsize", args => do
    let (cells, rest) ← parseHList args
    match rest with
    | [res] =>
      let res ← parseInt res
      pure (showR toString (uncompactCellsSize cells res))
    | _ => none
  | "acompact", failAt :: from_ :: args => do
    let failAt ← failAt.toNat?
    let (cells, _) ← parseHList args
    let sched : Nat → Bool := fun c => failAt != 0 && (if from_ == "1" then c >= failAt else c == failAt)
    let (r, a) := compactCells sched cells.toArray
    let rs := match r with | .ok _ => "ok" | .error e => "err " ++ toString e.code
    pure (rs ++ allocTail a)
  | "hex2d", [x, y] => do
    let x ← parseHexNat x; let y ← parseHexNat y
    let c := hex2dToCoordIJKFloat (Float.ofBits x.toUInt64) (Float.ofBits y.toUInt64)
    pure s!"ok {c.i} {c.j} {c.k}"
  | "ll2c", [lat, lng, r] => do
    -- argument validation only (the projection is not modelled): E_RES_DOMAIN before E_LATLNG_DOMAIN
    let lat ← parseHexNat lat; let lng ← parseHexNat lng; let r ← parseInt r
    let la := Float.ofBits lat.toUInt64
    let ln := Float.ofBits lng.toUInt64
    match latLngToCellArgs r la.isFinite ln.isFinite with
    | some e => pure ("err " ++ toString e.code)
    | none => pure "skip"
  | "polyaccept", [mode, a, b, c, d, e, f, g, h] => do
    let mode ← mode.toNat?
    let t := fun (x : String) => x == "1"
    pure ("ok " ++ b2s (acceptTarget mode ⟨t a, t b, t c, t d, t e, t f, t g, t h⟩))
  | "diskmap", [h, k] => do
    -- map-level algorithm (the subject of the BFS theorem), canonical output: sorted (cell, distance) pairs
    let h ← parseH h; let k ← k.toNat?
    let d := diskL cellNeighbors k h
    let sorted := (d.toArray.qsort (fun a b => a.1.toNat < b.1.toNat)).toList
    pure ("ok " ++ toString sorted.length ++ sorted.foldl (fun acc p => acc ++ " " ++ showH p.1 ++ " " ++ toString p.2) "")
  | "polyflags", [f] => do
    let f ← f.toNat?
    match validatePolygonFlags (BitVec.ofNat 32 f) with
    | none => pure "ok"
    | some e => pure ("err " ++ toString e.code)
  | "adisk", [failAt, from_, h, k, want] => do
    let failAt ← failAt.toNat?
    let h ← parseH h; let k ← parseInt k
    let sched : Nat → Bool := fun c => failAt != 0 && (if from_ == "1" then c >= failAt else c == failAt)
    let (r, a) := gridDiskDistancesA sched h k (want == "1") {}
    let rs := match r with | .ok (o, _) => "ok " ++ showArr o | .error e => "err " ++ toString e.code
    pure (rs ++ allocTail a)
  | "aneighbors", [failAt, from_, x, y] => do
    let failAt ← failAt.toNat?
    let x ← parseH x; let y ← parseH y
    let sched : Nat → Bool := fun c => failAt != 0 && (if from_ == "1" then c >= failAt else c == failAt)
    let (r, a) := areNeighborCellsA sched x y {}
    let rs := match r with | .ok b => "ok " ++ b2s b | .error e => "err " ++ toString e.code
    pure (rs ++ allocTail a)
  | _, _ => none

end H3.Ops
