/- Line-protocol helpers shared by the op tables of the model driver. -/
import H3Model.Basic

namespace H3.Proto

def hexDigitVal (c : Char) : Option Nat :=
  if '0' ≤ c && c ≤ '9' then some (c.toNat - 48)
  else if 'a' ≤ c && c ≤ 'f' then some (c.toNat - 87)
  else if 'A' ≤ c && c ≤ 'F' then some (c.toNat - 55)
  else none

def parseHexNat (s : String) : Option Nat :=
  if s.isEmpty then none else
  s.foldl (fun acc c => match acc, hexDigitVal c with
    | some a, some d => some (a * 16 + d)
    | _, _ => none) (some 0)

def parseH (s : String) : Option (BitVec 64) := (parseHexNat s).map (BitVec.ofNat 64)

def parseInt (s : String) : Option Int := s.toInt?

def hexOfNat (n : Nat) : String := String.ofList (Nat.toDigits 16 n)

def showH (h : BitVec 64) : String := hexOfNat h.toNat

def showHs (l : List (BitVec 64)) : String :=
  toString l.length ++ l.foldl (fun acc h => acc ++ " " ++ showH h) ""

def showInts (l : List Int) : String :=
  toString l.length ++ l.foldl (fun acc h => acc ++ " " ++ toString h) ""

def showR {α} (f : α → String) : R α → String
  | .ok a => "ok " ++ f a
  | .error e => "err " ++ toString e.code

/-- parse `n x1 .. xn` from a token list, returning the rest -/
def parseHList : List String → Option (List (BitVec 64) × List String)
  | [] => none
  | n :: rest => do
    let k ← n.toNat?
    if rest.length < k then none
    let xs ← (rest.take k).mapM parseH
    pure (xs, rest.drop k)

def parseIntList : List String → Option (List Int × List String)
  | [] => none
  | n :: rest => do
    let k ← n.toNat?
    if rest.length < k then none
    let xs ← (rest.take k).mapM parseInt
    pure (xs, rest.drop k)

/-- bytes encoded as hex pairs ("-" = empty) -/
def parseBytes (s : String) : Option (List Nat) :=
  if s == "-" then some [] else
  let cs := s.toList
  let rec go : List Char → Option (List Nat)
    | [] => some []
    | [_] => none
    | a :: b :: t => do
      let x ← hexDigitVal a
      let y ← hexDigitVal b
      let r ← go t
      pure ((x * 16 + y) :: r)
  go cs

def showBytes (l : List Nat) : String :=
  if l.isEmpty then "-" else
  l.foldl (fun acc b => acc ++ (if b < 16 then "0" else "") ++ hexOfNat b) ""

def b2s (b : Bool) : String := if b then "1" else "0"

end H3.Proto
