/-
polygon.c / polyfill.c decision logic that does not depend on floating point.
-/
import H3Model.Basic

namespace H3

/-- `validatePolygonFlags(uint32_t flags)`: the low four bits are the containment mode (0..3
valid, CONTAINMENT_INVALID = 4), every other bit must be clear -/
def validatePolygonFlags (flags : BitVec 32) : Option H3Error :=
  if (flags &&& ~~~15#32) != 0#32 || !(BitVec.ult (flags &&& 15#32) 4#32) then some .optionInvalid else none

/-- the primitive predicates `iterStepPolygonCompact` evaluates for a cell of the target resolution -/
structure CellPrims where
  centerIn : Bool          -- pointInsidePolygon(cell centre)
  firstVtx : Bool          -- first vertex of the outer loop or of a hole in valid range and latLngToCell(vertex) == cell
  boundaryInside : Bool    -- cellBoundaryInsidePolygon
  crosses : Bool           -- cellBoundaryCrossesPolygon
  bboxOverlap : Bool       -- bboxOverlapsBBox(polygon bbox, covering bbox of the cell)
  bboxContainsPoly : Bool  -- bboxContainsBBox(cell bbox, polygon bbox)
  bboxCornerIn : Bool      -- pointInsidePolygon(first corner of the cell bbox)
  bboxCrosses : Bool       -- cellBoundaryCrossesPolygon(cell bbox as boundary)
  deriving DecidableEq, Repr

/-- the per-mode decision of polyfill.c:435-546 at the target resolution
(modes: 0 CENTER, 1 FULL, 2 OVERLAPPING, 3 OVERLAPPING_BBOX) -/
def acceptTarget (mode : Nat) (p : CellPrims) : Bool :=
  ((mode == 0 || mode == 2 || mode == 3) && p.centerIn) ||
  ((mode == 2 || mode == 3) && p.firstVtx) ||
  ((mode == 1 || mode == 3) && p.boundaryInside) ||
  ((mode == 2 || mode == 3) && !((mode == 1 || mode == 3) && p.boundaryInside) && p.crosses) ||
  (mode == 3 && p.bboxOverlap && (p.bboxContainsPoly || p.bboxCornerIn || p.bboxCrosses))

end H3
