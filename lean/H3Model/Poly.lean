/-
polygon.c / polyfill.c decision logic that does not depend on floating point.
-/
import H3Model.Basic

namespace H3

/-- `validatePolygonFlags(uint32_t flags)`: the low four bits are the containment mode (0..3
valid, CONTAINMENT_INVALID = 4), every other bit must be clear -/
def validatePolygonFlags (flags : BitVec 32) : Option H3Error :=
  if (flags &&& ~~~15#32) != 0#32 || !(BitVec.ult (flags &&& 15#32) 4#32) then some .optionInvalid else none

end H3
