/-
polyfill.c — the traversal logic of the hierarchical polygon fill (`nextCell`,
`iterStepPolygonCompact`, `iterStepPolygon`, `polygonToCellsExperimental`,
`maxPolygonToCellsSizeExperimental`) over an ABSTRACT geometry: the floating-point predicates
(cellToBBox, bboxOverlapsBBox, bboxContainsBBox, cellBoundaryInsidePolygon, pointInsidePolygon,
cellBoundaryCrossesPolygon, latLngToCell of the first vertex) enter only through two functions of the
cell, `coarse` (for cells coarser than the target resolution) and `fine` (per-mode decision at the
target resolution, `acceptTarget` of H3Model/Poly.lean applied to the primitive predicates).
-/
import H3Model.Index

namespace H3

/-- outcome of the bounding-box test of a cell coarser than the target resolution
(polyfill.c: `if (cellRes < iter->_res)` block) -/
inductive Coarse where
  | skip        -- child bounding box does not overlap the polygon's
  | contained   -- polygon bbox contains the child bbox and the bbox outline is inside the polygon: output the cell
  | descend     -- otherwise: test the children, starting with the centre child
  deriving DecidableEq, Repr

structure PolyGeo where
  coarse : BitVec 64 → Coarse
  fine : BitVec 64 → Bool

/-- `baseCellNumToCell` -/
def baseCellNumToCell (n : Int) : BitVec 64 :=
  if n < 0 || n >= 122 then 0#64 else setH3Index 0 n.toNat 0

/-- `nextCell` (polyfill.c:290): next sibling, or the next sibling of the nearest ancestor that has
one, or the next base cell, or H3_NULL -/
def nextCell (cell : BitVec 64) : BitVec 64 :=
  go cell (getRes cell) 16
where
  go (cell : BitVec 64) (res : Nat) : Nat → BitVec 64
    | 0 => 0#64
    | fuel + 1 =>
      if res == 0 then baseCellNumToCell ((getBaseCell cell : Int) + 1)
      else
        let parent := setDigit (setRes cell (res - 1)) res 7
        let digit := getDigit cell res
        if digit < 6 then
          setDigit cell res (digit + (if isPentagon parent && digit == 0 then 2 else 1))
        else go parent (res - 1) fuel

/-- the cells that `iterStepPolygonCompact` yields one after the other, starting by examining `cell`
(the `while (cell)` loop of each step, continued from `nextCell` of the previous output); `fuel`
bounds the total number of cells examined -/
def polyRun (g : PolyGeo) (res : Nat) : Nat → BitVec 64 → List (BitVec 64)
  | 0, _ => []
  | fuel + 1, cell =>
    if cell == 0#64 then []
    else
      let cellRes := getRes cell
      if cellRes == res then
        if g.fine cell then cell :: polyRun g res fuel (nextCell cell)
        else polyRun g res fuel (nextCell cell)
      else if cellRes < res then
        match g.coarse cell with
        | .contained => cell :: polyRun g res fuel (nextCell cell)
        | .descend =>
          match cellToCenterChild cell ((cellRes : Int) + 1) with
          | .ok child => polyRun g res fuel child
          | .error _ => []
        | .skip => polyRun g res fuel (nextCell cell)
      else polyRun g res fuel (nextCell cell)

/-- `polygonToCellsExperimental` given the compact sequence: expand every compact cell to its
children at `res` (iterStepPolygon), stop with E_MEMORY_BOUNDS after `size` cells -/
def polyExpand (compact : List (BitVec 64)) (res : Nat) (size : Int) : Option H3Error × List (BitVec 64) :=
  let all := compact.flatMap fun c => cellToChildren c (res : Int)
  if (all.length : Int) > size then (some .memoryBounds, all.take size.toNat) else (none, all)

end H3
