/- ops of the model driver: the hierarchical polygon fill over geometry answers supplied by the C side -/
import H3Model.Proto
import H3Model.Poly
import H3Model.PolyIter
import H3Model.PolyAlloc
import Std.Data.HashMap

namespace H3.Ops
open H3 H3.Proto

/-- parse `cellhex:b0b1…b9` tokens into a table -/
def parsePolyTable (toks : List String) : Option (Std.HashMap UInt64 (Array Bool)) :=
  toks.foldlM (init := ({} : Std.HashMap UInt64 (Array Bool))) fun m t =>
    match t.splitOn ":" with
    | [c, bits] => do
      let h ← parseHexNat c
      if bits == "E" then pure m
      else pure (m.insert h.toUInt64 (bits.toList.map (· == '1')).toArray)
    | _ => none

/-- geometry from the table: the coarse decision is the `cellRes < iter->_res` block of
iterStepPolygonCompact over the library's own predicates, the fine decision is `acceptTarget` -/
def geoOfTable (m : Std.HashMap UInt64 (Array Bool)) (mode : Nat) : PolyGeo where
  coarse c :=
    match m.get? c.toNat.toUInt64 with
    | none => .skip
    | some p => if !(p.getD 4 false) then .skip else if p.getD 8 false && p.getD 9 false then .contained else .descend
  fine c :=
    match m.get? c.toNat.toUInt64 with
    | none => false
    | some p => acceptTarget mode ⟨p.getD 0 false, p.getD 1 false, p.getD 2 false, p.getD 3 false, p.getD 4 false,
        p.getD 5 false, p.getD 6 false, p.getD 7 false⟩

def allocTailP (a : AState) : String :=
  let nf := (a.trace.filter fun e => match e with | .fail _ _ => true | _ => false).length
  " live=" ++ toString a.live.length ++ " calls=" ++ toString a.calls ++ " failed=" ++ toString nf ++
    " badfree=0 | " ++ showTrace a.trace

def errOfCode (c : Nat) : Option H3Error :=
  [H3Error.failed, .domain, .latLngDomain, .resDomain, .cellInvalid, .dirEdgeInvalid, .undirEdgeInvalid, .vertexInvalid,
   .pentagon, .duplicateInput, .notNeighbors, .resMismatch, .memoryAlloc, .memoryBounds, .optionInvalid].find? (·.code == c)

def opsPoly (op : String) (a : List String) : Option String :=
  match op, a with
  | "apolyxs", failAt :: from_ :: res :: flags :: size :: ncells :: itErr :: nl :: nv0 :: _ => do
    -- apolyxs failAt from res flags size <ncells> <itErr> <polygon: nl nv0 …>; ncells / itErr = what the real iterator
    -- did with the default allocator (geometry), everything else is the model
    let failAt ← failAt.toNat?; let res ← parseInt res; let flags ← flags.toNat?; let size ← parseInt size
    let ncells ← ncells.toNat?; let itErr ← itErr.toNat?; let nl ← nl.toNat?; let _ ← nv0.toNat?
    let sched : Nat → Bool := fun c => failAt != 0 && (if from_ == "1" then c >= failAt else c == failAt)
    let (r, st) := polygonToCellsExperimentalA sched res (BitVec.ofNat 32 flags) (nl - 1) ⟨ncells, errOfCode itErr⟩ size {}
    let rs := match r with | .ok n => "ok " ++ toString n | .error e => "err " ++ toString e.code
    pure (rs ++ allocTailP st)
  | "amaxpolyxs", failAt :: from_ :: res :: flags :: itErr :: nl :: nv0 :: _ => do
    let failAt ← failAt.toNat?; let res ← parseInt res; let flags ← flags.toNat?
    let itErr ← itErr.toNat?; let nl ← nl.toNat?; let nv0 ← nv0.toNat?
    let sched : Nat → Bool := fun c => failAt != 0 && (if from_ == "1" then c >= failAt else c == failAt)
    let (r, st) := maxPolygonToCellsSizeExperimentalA sched res (BitVec.ofNat 32 flags) nv0 (nl - 1) ⟨0, errOfCode itErr⟩ {}
    let rs := match r with | .ok _ => "ok" | .error e => "err " ++ toString e.code
    pure (rs ++ allocTailP st)
  | "polyrun", res :: mode :: toks => do
    let res ← res.toNat?; let mode ← mode.toNat?
    let m ← parsePolyTable toks
    let seq := polyRun (geoOfTable m mode) res 100000000 (baseCellNumToCell 0)
    pure ("ok " ++ showHs seq)
  | "polyrunx", res :: mode :: size :: toks => do
    let res ← res.toNat?; let mode ← mode.toNat?; let size ← parseInt size
    let m ← parsePolyTable toks
    let seq := polyRun (geoOfTable m mode) res 100000000 (baseCellNumToCell 0)
    match polyExpand seq res size with
    | (some e, _) => pure ("err " ++ toString e.code)
    | (none, cells) => pure ("ok " ++ showHs cells)
  | _, _ => none

end H3.Ops
