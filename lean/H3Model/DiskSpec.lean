/-
Map-level model of `_gridDiskDistancesInternal` (algos.c:272): the recursive relax-and-recurse
algorithm over an association list instead of the open-addressing array, generic in the neighbour
function.  Tied to the code by the `diskmap` correspondence stream (canonical sorted output).
-/
import H3Model.Disk

namespace H3

section
variable {V : Type} [DecidableEq V]

/-- association list, latest binding first -/
def alookup (m : List (V × Nat)) (v : V) : Option Nat :=
  match m with
  | [] => none
  | (u, d) :: rest => if u = v then some d else alookup rest v

/-- `out[off] == origin && distances[off] <= curK`: already reached at least as cheaply -/
def seenLE (m : List (V × Nat)) (v : V) (c : Nat) : Bool :=
  match alookup m v with
  | some d => decide (d ≤ c)
  | none => false

/-- `_gridDiskDistancesInternal(origin = v, k, …, curK = c)`; `fuel` bounds the recursion depth -/
def visitL (nbr : V → List V) (k : Nat) : Nat → V → Nat → List (V × Nat) → List (V × Nat)
  | 0, _, _, m => m
  | fuel + 1, v, c, m =>
    if seenLE m v c then m
    else
      let m1 := (v, c) :: m
      if c ≥ k then m1
      else (nbr v).foldl (fun m n => visitL nbr k fuel n (c + 1) m) m1

/-- the disk: every vertex with its final distance entry (first binding wins) -/
def diskL (nbr : V → List V) (k : Nat) (origin : V) : List (V × Nat) :=
  let m := visitL nbr k (k + 1) origin 0 []
  let keys := (m.map (·.1)).eraseDups
  keys.filterMap fun v => (alookup m v).map fun d => (v, d)

end

/-- neighbour list of a cell as `_gridDiskDistancesInternal` sees it: the six directions in
`DIRECTIONS` order, E_PENTAGON directions skipped (other errors cannot occur on valid cells) -/
def cellNeighbors (h : BitVec 64) : List (BitVec 64) :=
  (List.range 6).filterMap fun i =>
    match h3NeighborRotations h (DIRECTIONS i) 0 with
    | .ok (n, _) => some n
    | .error _ => none

end H3
