/-
C20: string form of an index.  `h3ToString` = sprintf("%lx"), `stringToH3` = sscanf("%lx")
(glibc behaviour, modelled; validated differentially against the real libc on every run).
Strings are lists of byte values (no NUL inside).
-/
import H3Model.Basic

namespace H3.Str

/-- lowercase hex digit character for 0..15 -/
def hexChar (d : Nat) : Nat := if d < 10 then 48 + d else 87 + d   -- '0'.. / 'a'..

/-- digits of `n` in base 16, most significant first, no leading zeros, "0" for 0 (fuel = 16 digits) -/
def toHexAux : Nat → Nat → List Nat → List Nat
  | 0, _, acc => acc
  | fuel + 1, n, acc =>
    if n < 16 then hexChar n :: acc else toHexAux fuel (n / 16) (hexChar (n % 16) :: acc)

/-- `sprintf(str, "%lx", h)` without the terminator -/
def toHex (h : BitVec 64) : List Nat := toHexAux 16 h.toNat []

/-- `h3ToString(h, str, sz)`: the bytes written (terminator included), or the error with
nothing written. -/
def h3ToString (h : BitVec 64) (sz : Nat) : R (List Nat) :=
  if sz < 17 then .error .memoryBounds else .ok (toHex h ++ [0])

def isSpace (c : Nat) : Bool := c == 32 || (9 ≤ c && c ≤ 13)

/-- value of a hexadecimal digit character -/
def hexVal (c : Nat) : Option Nat :=
  if 48 ≤ c && c ≤ 57 then some (c - 48)
  else if 97 ≤ c && c ≤ 102 then some (c - 87)
  else if 65 ≤ c && c ≤ 70 then some (c - 55)
  else none

def isHex (c : Nat) : Bool := (hexVal c).isSome

/-- value of a run of hex digits -/
def hexRun (ds : List Nat) : Nat := ds.foldl (fun acc c => acc * 16 + (hexVal c).getD 0) 0

/-- optional sign: (negative?, rest) -/
def splitSign (s : List Nat) : Bool × List Nat :=
  match s with
  | 45 :: t => (true, t)
  | 43 :: t => (false, t)
  | _ => (false, s)

/-- optional `0x`/`0X` prefix; a lone `0` already counts as a number: (saw a zero?, rest) -/
def splitZero (s : List Nat) : Bool × List Nat :=
  match s with
  | 48 :: 120 :: t => (true, t)
  | 48 :: 88 :: t => (true, t)
  | 48 :: t => (true, t)
  | _ => (false, s)

/-- glibc `sscanf(s, "%lx", &h)`: white space, optional sign, optional `0x`/`0X` (the `0` alone
already counts as a number), hex digits; value saturates at 2^64-1; `-` negates modulo 2^64. -/
def scanHex (s : List Nat) : Option (BitVec 64) :=
  let ns := splitSign (s.dropWhile isSpace)
  let zs := splitZero ns.2
  let ds := zs.2.takeWhile isHex
  if !zs.1 && ds.isEmpty then none
  else
    let v := hexRun ds
    if v ≥ 2 ^ 64 then some (BitVec.ofNat 64 (2 ^ 64 - 1))
    else if ns.1 then some (BitVec.ofNat 64 (2 ^ 64 - v)) else some (BitVec.ofNat 64 v)

/-- `stringToH3` -/
def stringToH3 (s : List Nat) : R (BitVec 64) :=
  match scanHex s with
  | some h => .ok h
  | none => .error .failed

end H3.Str
