/-
Translation validation of `_h3Rotate60ccw` / `_h3Rotate60cw` (and the digit rotations `_rotate60ccw` /
`_rotate60cw` they call): the C text, translated by tools/c2lean.py with the loop unrolled sixteen times,
never runs out of unrollings, has no undefined shift, and equals the model's `h3Rotate60ccw` /
`h3Rotate60cw` — for all 2^64 index values.
-/
import H3Proofs.Lemmas.Bits
import H3Model.Neighbor
import Std.Tactic.BVDecide

namespace H3.C01R
open H3 H3.Bits

theorem h3Rotate60ccw_defined_all (h : BitVec 64) : Gen.Bits.h3Rotate60ccw_defined h = true := by
  simp only [Gen.Bits.h3Rotate60ccw_defined, Gen.Bits.rotate60ccw_defined]
  bv_decide

theorem h3Rotate60cw_defined_all (h : BitVec 64) : Gen.Bits.h3Rotate60cw_defined h = true := by
  simp only [Gen.Bits.h3Rotate60cw_defined, Gen.Bits.rotate60cw_defined]
  bv_decide

/-- guard form at the bit level: every position r ≤ res gets its digit replaced -/
def rotFrom (g : BitVec 32 → BitVec 32) (res : BitVec 32) (h : BitVec 64) : List (BitVec 32) → BitVec 64
  | [] => h
  | r :: rs =>
    rotFrom g res (if BitVec.ule r res then Gen.Bits.m_set_digit h r (g (Gen.Bits.m_get_digit h r)) else h) rs

def lits : List (BitVec 32) := [1#32, 2#32, 3#32, 4#32, 5#32, 6#32, 7#32, 8#32, 9#32, 10#32, 11#32, 12#32, 13#32, 14#32, 15#32]

set_option maxHeartbeats 4000000 in
theorem gen_ccw_eq (h : BitVec 64) :
    Gen.Bits.h3Rotate60ccw h = rotFrom Gen.Bits.rotate60ccw (Gen.Bits.m_get_resolution h) h lits := by
  unfold Gen.Bits.h3Rotate60ccw lits
  unfold rotFrom rotFrom rotFrom rotFrom rotFrom rotFrom rotFrom rotFrom rotFrom rotFrom rotFrom rotFrom rotFrom rotFrom rotFrom rotFrom
  unfold Gen.Bits.m_get_resolution Gen.Bits.m_get_digit Gen.Bits.m_set_digit Gen.Bits.rotate60ccw
  bv_decide


set_option maxHeartbeats 4000000 in
theorem gen_cw_eq (h : BitVec 64) :
    Gen.Bits.h3Rotate60cw h = rotFrom Gen.Bits.rotate60cw (Gen.Bits.m_get_resolution h) h lits := by
  unfold Gen.Bits.h3Rotate60cw lits
  unfold rotFrom rotFrom rotFrom rotFrom rotFrom rotFrom rotFrom rotFrom rotFrom rotFrom rotFrom rotFrom rotFrom rotFrom rotFrom rotFrom
  unfold Gen.Bits.m_get_resolution Gen.Bits.m_get_digit Gen.Bits.m_set_digit Gen.Bits.rotate60cw
  bv_decide

/-! ### the bit-level guard form is the model's fold -/

theorem lits_eq : lits = (List.range' 1 15).map (fun r => BitVec.ofNat 32 r) := by decide

theorem ule_ofNat (res : BitVec 32) (r : Nat) (hr : r < 16) :
    BitVec.ule (BitVec.ofNat 32 r) res = decide (r ≤ res.toNat) := by
  unfold BitVec.ule
  have : r % 2 ^ 32 = r := Nat.mod_eq_of_lt (by omega)
  simp [BitVec.toNat_ofNat, this]

theorem rotFrom_skip (G : BitVec 32 → BitVec 32) (res : BitVec 32) : ∀ (f r : Nat) (h : BitVec 64), res.toNat < r → r + f ≤ 16 →
    rotFrom G res h ((List.range' r f).map (fun r => BitVec.ofNat 32 r)) = h := by
  intro f
  induction f with
  | zero => intro r h _ _; rfl
  | succ f ih =>
    intro r h hr hf
    rw [List.range'_succ, List.map_cons]
    unfold rotFrom
    rw [ule_ofNat res r (by omega)]
    have : ¬ r ≤ res.toNat := by omega
    simp only [this, decide_false, Bool.false_eq_true, if_false]
    exact ih (r + 1) h (by omega) (by omega)

theorem rotFrom_fold (G : BitVec 32 → BitVec 32) (fN : Nat → Nat)
    (hG : ∀ x : BitVec 32, x.toNat < 8 → G x = BitVec.ofNat 32 (fN x.toNat)) (res : BitVec 32) :
    ∀ (f r : Nat) (h : BitVec 64), 1 ≤ r → r + f ≤ 16 → r ≤ res.toNat + 1 → res.toNat + 1 ≤ r + f →
    rotFrom G res h ((List.range' r f).map (fun r => BitVec.ofNat 32 r)) =
      (List.range' r (res.toNat + 1 - r)).foldl (fun h r => setDigit h r (fN (getDigit h r))) h := by
  intro f
  induction f with
  | zero =>
    intro r h _ _ h3 h4
    have : res.toNat + 1 - r = 0 := by omega
    rw [this]; rfl
  | succ f ih =>
    intro r h h1 h2 h3 h4
    rw [List.range'_succ, List.map_cons]
    unfold rotFrom
    rw [ule_ofNat res r (by omega)]
    by_cases c : r ≤ res.toNat
    · simp only [c, decide_true, if_true]
      have e : res.toNat + 1 - r = (res.toNat + 1 - (r + 1)) + 1 := by omega
      rw [e, List.range'_succ, List.foldl_cons]
      have hstep : Gen.Bits.m_set_digit h (BitVec.ofNat 32 r) (G (Gen.Bits.m_get_digit h (BitVec.ofNat 32 r))) =
          setDigit h r (fN (getDigit h r)) := by
        unfold setDigit getDigit
        rw [hG _ (by have := getDigit_lt h r; unfold getDigit at this; exact this)]
      rw [hstep]
      exact ih (r + 1) _ (by omega) (by omega) (by omega) (by omega)
    · simp only [c, decide_false, Bool.false_eq_true, if_false]
      have e : res.toNat + 1 - r = 0 := by omega
      rw [e]
      exact rotFrom_skip G res f (r + 1) h (by omega) (by omega)

theorem gen_rot_ccw : ∀ x : BitVec 32, x.toNat < 8 → Gen.Bits.rotate60ccw x = BitVec.ofNat 32 (H3.rotate60ccw x.toNat) := by
  intro x hx
  have key : ∀ d : Fin 8, Gen.Bits.rotate60ccw (BitVec.ofNat 32 d.val) = BitVec.ofNat 32 (H3.rotate60ccw d.val) := by decide
  have := key ⟨x.toNat, hx⟩
  simpa using this

theorem gen_rot_cw : ∀ x : BitVec 32, x.toNat < 8 → Gen.Bits.rotate60cw x = BitVec.ofNat 32 (H3.rotate60cw x.toNat) := by
  intro x hx
  have key : ∀ d : Fin 8, Gen.Bits.rotate60cw (BitVec.ofNat 32 d.val) = BitVec.ofNat 32 (H3.rotate60cw d.val) := by decide
  have := key ⟨x.toNat, hx⟩
  simpa using this

/-- **the C function `_h3Rotate60ccw` (translated from the source on every run) is the model's
`h3Rotate60ccw`, for all 2^64 index values** -/
theorem h3Rotate60ccw_eq_model (h : BitVec 64) : Gen.Bits.h3Rotate60ccw h = H3.h3Rotate60ccw h := by
  rw [gen_ccw_eq, lits_eq]
  have hr := getRes_lt h
  unfold getRes at hr
  rw [rotFrom_fold Gen.Bits.rotate60ccw H3.rotate60ccw gen_rot_ccw _ 15 1 h (by omega) (by omega) (by omega) (by omega)]
  unfold H3.h3Rotate60ccw mapDigits getRes
  simp

theorem h3Rotate60cw_eq_model (h : BitVec 64) : Gen.Bits.h3Rotate60cw h = H3.h3Rotate60cw h := by
  rw [gen_cw_eq, lits_eq]
  have hr := getRes_lt h
  unfold getRes at hr
  rw [rotFrom_fold Gen.Bits.rotate60cw H3.rotate60cw gen_rot_cw _ 15 1 h (by omega) (by omega) (by omega) (by omega)]
  unfold H3.h3Rotate60cw mapDigits getRes
  simp

end H3.C01R
