/-
C16 — cellsToLinkedMultiPolygon: the combinatorial core.
Cells are cyclic lists of (abstract) vertex identifiers; `h3SetToVertexGraph` adds every directed
boundary edge unless its reverse is already present, in which case it removes the reverse
(algos.c:1078).  Whatever the order of the cells, the residual graph is *balanced*: every vertex
has as many outgoing as incoming edges — the fact that makes `_vertexGraphToLinkedGeo` produce
closed loops that use every edge once.
-/
import H3Model.MultiPoly

namespace H3.C16
open H3.MP

variable {V : Type} [DecidableEq V]

/-- out-degree minus in-degree of `v` -/
def bal (g : List (V × V)) (v : V) : Int :=
  (g.filter (fun e => e.1 == v)).length - (g.filter (fun e => e.2 == v)).length

theorem bal_nil (v : V) : bal [] v = 0 := rfl

theorem bal_cons (e : V × V) (g : List (V × V)) (v : V) :
    bal (e :: g) v = bal g v + (if e.1 == v then 1 else 0) - (if e.2 == v then 1 else 0) := by
  unfold bal
  simp only [List.filter_cons]
  by_cases h1 : (e.1 == v) = true <;> by_cases h2 : (e.2 == v) = true <;> simp [h1, h2] <;> omega

theorem bal_erase (g : List (V × V)) (e : V × V) (h : e ∈ g) (v : V) :
    bal (g.erase e) v = bal g v - (if e.1 == v then 1 else 0) + (if e.2 == v then 1 else 0) := by
  induction g with
  | nil => simp at h
  | cons x xs ih =>
    by_cases hx : x = e
    · subst hx
      simp only [List.erase_cons_head]
      rw [bal_cons]; omega
    · have hne : (x == e) = false := by simpa using hx
      have hmem : e ∈ xs := by
        rcases List.mem_cons.mp h with h | h
        · exact absurd h.symm hx
        · exact h
      simp only [List.erase_cons, hne, Bool.false_eq_true, if_false]
      rw [bal_cons, bal_cons, ih hmem]; omega

/-- adding an edge (with cancellation) changes the balance exactly as adding it without
cancellation would: the reverse edge's removal contributes the same ±1 -/
theorem bal_addEdge (g : List (V × V)) (e : V × V) (v : V) :
    bal (addEdge g e) v = bal g v + (if e.1 == v then 1 else 0) - (if e.2 == v then 1 else 0) := by
  unfold addEdge
  by_cases h : g.contains (e.2, e.1) = true
  · simp only [h, if_true]
    rw [bal_erase g (e.2, e.1) (by simpa using h)]
    simp only []
    omega
  · simp only [h]
    exact bal_cons e g v

theorem bal_foldl_addEdge (es : List (V × V)) : ∀ (g : List (V × V)) (v : V),
    bal (es.foldl addEdge g) v = bal g v + bal es v := by
  induction es with
  | nil => intro g v; simp only [List.foldl_nil, bal_nil]; omega
  | cons e rest ih =>
    intro g v
    simp only [List.foldl_cons]
    rw [ih, bal_addEdge, bal_cons]; omega

/-- the boundary of a cell is a cycle: balanced at every vertex -/
theorem bal_zip_cycle : ∀ (l : List V) (a b : V) (v : V),
    bal ((a :: l).zip (l ++ [b])) v = (if a == v then 1 else 0) - (if b == v then 1 else 0) := by
  intro l
  induction l with
  | nil =>
    intro a b v
    simp only [List.nil_append, List.zip_cons_cons, List.zip_nil_right]
    rw [bal_cons, bal_nil]; dsimp only; omega
  | cons x xs ih =>
    intro a b v
    simp only [List.cons_append, List.zip_cons_cons]
    rw [bal_cons, ih x b v]
    dsimp only
    omega

theorem bal_cellEdges (vs : List V) (v : V) : bal (cellEdges vs) v = 0 := by
  unfold cellEdges
  cases vs with
  | nil => rfl
  | cons a rest => rw [bal_zip_cycle rest a a v]; omega

theorem bal_addCell (g : List (V × V)) (vs : List V) (v : V) : bal (addCell g vs) v = bal g v := by
  unfold addCell
  rw [bal_foldl_addEdge, bal_cellEdges]; omega

/-- **C16: the vertex graph is balanced** — after inserting any list of cells in any order,
every vertex has equally many outgoing and incoming residual edges; hence following outgoing
edges from any residual edge returns to its start: every extracted loop is closed. -/
theorem vertexGraph_balanced (cells : List (List V)) (v : V) : bal (vertexGraph cells) v = 0 := by
  unfold vertexGraph
  suffices h : ∀ g, bal (cells.foldl addCell g) v = bal g v by rw [h]; rfl
  induction cells with
  | nil => intro g; rfl
  | cons c rest ih => intro g; simp only [List.foldl_cons]; rw [ih, bal_addCell]

/-- every residual edge is a boundary edge of some input cell -/
theorem addEdge_subset (g : List (V × V)) (e x : V × V) (h : x ∈ addEdge g e) : x ∈ g ∨ x = e := by
  unfold addEdge at h
  split at h
  · exact Or.inl (List.mem_of_mem_erase h)
  · rcases List.mem_cons.mp h with h | h
    · exact Or.inr h
    · exact Or.inl h

theorem vertexGraph_edges_from_cells (cells : List (List V)) (x : V × V) (h : x ∈ vertexGraph cells) :
    ∃ c ∈ cells, x ∈ cellEdges c := by
  unfold vertexGraph at h
  suffices hg : ∀ (cs : List (List V)) (g : List (V × V)), x ∈ cs.foldl addCell g → x ∈ g ∨ ∃ c ∈ cs, x ∈ cellEdges c by
    rcases hg cells [] h with h | h
    · simp at h
    · exact h
  intro cs
  induction cs with
  | nil => intro g hx; exact Or.inl hx
  | cons c rest ih =>
    intro g hx
    simp only [List.foldl_cons] at hx
    rcases ih _ hx with h1 | ⟨c', hc', hx'⟩
    · -- x ∈ addCell g c
      have : ∀ (es : List (V × V)) (g : List (V × V)), x ∈ es.foldl addEdge g → x ∈ g ∨ x ∈ es := by
        intro es
        induction es with
        | nil => intro g h; exact Or.inl h
        | cons e es ihe =>
          intro g h
          simp only [List.foldl_cons] at h
          rcases ihe _ h with h | h
          · rcases addEdge_subset g e x h with h | h
            · exact Or.inl h
            · exact Or.inr (by simp [h])
          · exact Or.inr (by simp [h])
      rcases this (cellEdges c) g h1 with h | h
      · exact Or.inl h
      · exact Or.inr ⟨c, by simp, h⟩
    · exact Or.inr ⟨c', by simp [hc'], hx'⟩

-- non-vacuity: two hexagons sharing the edge (2,3)/(3,2): the shared edge cancels, 10 edges remain
example : (vertexGraph [[1, 2, 3, 4, 5, 6], [3, 2, 7, 8, 9, 10]]).length = 10 := by decide
example : (2, 3) ∉ vertexGraph [[1, 2, 3, 4, 5, 6], [3, 2, 7, 8, 9, 10]] := by decide

end H3.C16
