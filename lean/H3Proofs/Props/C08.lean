/-
C08 — cell boundaries tile the sphere.  Integer / topological part (model: H3Model/FaceIjk.lean):
on one icosahedron face the two substrate-grid vertices a cell lists towards direction d are
*identical integer triples* to the two vertices its neighbour in that direction lists towards the
opposite direction, in reverse order — so after the same projection the shared boundary stretch
coincides bit for bit.  Unbounded: every coordinate, every resolution, both grid classes.
-/
import H3Model.EdgeVertex
import H3Proofs.Lemmas.Axial

namespace H3.C08
open H3

/-- the six substrate vertex offsets are in counter-clockwise order: each is the previous one
rotated by 60 degrees (Class II and Class III tables of faceijk.c) -/
theorem verts_rotate_ccw :
    ∀ v : Fin 6, ijkRotate60ccw (vertsCII.getD v.val ⟨0, 0, 0⟩) = vertsCII.getD ((v.val + 1) % 6) ⟨0, 0, 0⟩ ∧
      ijkRotate60ccw (vertsCIII.getD v.val ⟨0, 0, 0⟩) = vertsCIII.getD ((v.val + 1) % 6) ⟨0, 0, 0⟩ := by
  decide +kernel

/-- substrate coordinates are 3× the cell coordinates (aperture 3, twice) -/
theorem ax_substrate (c : CoordIJK) : ax (downAp3r (downAp3 c)) = vsmul 3 (ax c) := by
  rw [ax_downAp3r, ax_downAp3]
  unfold M2.app M3r M3 vsmul
  simp only [Prod.mk.injEq]; constructor <;> omega

/-- the k-th vertex produced by `_faceIjkToVerts`, in axial coordinates -/
def vertAx (res : Nat) (c : CoordIJK) (k : Nat) : Int × Int :=
  if isResClassIII res then vadd (M7r.app (vsmul 3 (ax c))) (ax (vertsCIII.getD k ⟨0, 0, 0⟩))
  else vadd (vsmul 3 (ax c)) (ax (vertsCII.getD k ⟨0, 0, 0⟩))

theorem verts_getD (f : Int) (c : CoordIJK) (res k : Nat) (hk : k < 6) :
    ((faceIjkToVertsN 6 ⟨f, c⟩ res).2.2.getD k ⟨f, ⟨0, 0, 0⟩⟩).face = f ∧
    ax ((faceIjkToVertsN 6 ⟨f, c⟩ res).2.2.getD k ⟨f, ⟨0, 0, 0⟩⟩).coord = vertAx res c k ∧
    Normal ((faceIjkToVertsN 6 ⟨f, c⟩ res).2.2.getD k ⟨f, ⟨0, 0, 0⟩⟩).coord := by
  unfold faceIjkToVertsN vertAx
  by_cases h3 : isResClassIII res = true
  · simp only [h3, if_true]
    have hl : k < (List.take 6 vertsCIII).length := by simp [vertsCIII]; omega
    have hl2 : k < vertsCIII.length := by simp [vertsCIII]; omega
    rw [List.getD_eq_getElem?_getD, List.getElem?_map, List.getElem?_eq_getElem hl]
    simp only [Option.map_some, Option.getD_some]
    refine ⟨trivial, ?_, normalize_normal _⟩
    rw [ax_normalize, ax_add, ax_downAp7r, ax_substrate]
    congr 2
    simp [List.getD_eq_getElem?_getD, List.getElem?_eq_getElem hl2]
  · simp only [h3, Bool.false_eq_true, if_false]
    have hl : k < (List.take 6 vertsCII).length := by simp [vertsCII]; omega
    have hl2 : k < vertsCII.length := by simp [vertsCII]; omega
    rw [List.getD_eq_getElem?_getD, List.getElem?_map, List.getElem?_eq_getElem hl]
    simp only [Option.map_some, Option.getD_some]
    refine ⟨trivial, ?_, normalize_normal _⟩
    rw [ax_normalize, ax_add, ax_substrate]
    congr 2
    simp [List.getD_eq_getElem?_getD, List.getElem?_eq_getElem hl2]

/-- the finite heart of the matter (regenerated direction→vertex table of vertex.c, both classes):
with s = directionToVertexNumHex d and s' = directionToVertexNumHex (7 − d) (the opposite
direction), vertex s of a cell is vertex s'+1 of the neighbour and vertex s+1 is vertex s' -/
theorem shared_edge_offsets :
    ∀ d : Fin 7, 1 ≤ d.val →
      let s := (directionToVertexNumHex d.val).toNat
      let s' := (directionToVertexNumHex (7 - d.val)).toNat
      s < 6 ∧ s' < 6 ∧
      ax (vertsCII.getD s ⟨0, 0, 0⟩) = vadd (vsmul 3 (uax d.val)) (ax (vertsCII.getD ((s' + 1) % 6) ⟨0, 0, 0⟩)) ∧
      ax (vertsCII.getD ((s + 1) % 6) ⟨0, 0, 0⟩) = vadd (vsmul 3 (uax d.val)) (ax (vertsCII.getD s' ⟨0, 0, 0⟩)) ∧
      ax (vertsCIII.getD s ⟨0, 0, 0⟩) =
        vadd (M7r.app (vsmul 3 (uax d.val))) (ax (vertsCIII.getD ((s' + 1) % 6) ⟨0, 0, 0⟩)) ∧
      ax (vertsCIII.getD ((s + 1) % 6) ⟨0, 0, 0⟩) =
        vadd (M7r.app (vsmul 3 (uax d.val))) (ax (vertsCIII.getD s' ⟨0, 0, 0⟩)) := by
  decide +kernel

theorem vertAx_neighbor (res : Nat) (c : CoordIJK) (d k : Nat) (hd : d < 7) :
    vertAx res (ijkNeighbor c d) k =
      if isResClassIII res then
        vadd (vadd (M7r.app (vsmul 3 (ax c))) (M7r.app (vsmul 3 (uax d)))) (ax (vertsCIII.getD k ⟨0, 0, 0⟩))
      else vadd (vadd (vsmul 3 (ax c)) (vsmul 3 (uax d))) (ax (vertsCII.getD k ⟨0, 0, 0⟩)) := by
  unfold vertAx
  rw [ax_ijkNeighbor c d hd]
  split
  · congr 1
    have : vsmul 3 (vadd (ax c) (uax d)) = vadd (vsmul 3 (ax c)) (vsmul 3 (uax d)) := by
      unfold vsmul vadd; simp only [Prod.mk.injEq]; omega
    rw [this, M2.app_add]
  · congr 1
    unfold vsmul vadd; simp only [Prod.mk.injEq]; omega

theorem vadd_assoc' (a b c : Int × Int) : vadd (vadd a b) c = vadd a (vadd b c) := by
  unfold vadd; simp only [Prod.mk.injEq]; omega

/-- **C08 (integer part, unbounded): shared edges use the same substrate points.**
For every face `f`, every ijk coordinate `c`, every resolution and every direction d = 1..6: let
`b` be the neighbour of `c` in direction `d` on the same face.  The vertices number s and s+1 of
`c` (s = vertexNumForDirection's table entry for d) are the vertices number s'+1 and s' of `b`
(s' the entry for the opposite direction): the same two lattice points, in reverse order. -/
theorem shared_edge_same_substrate_points (f : Int) (c : CoordIJK) (res d : Nat) (h1 : 1 ≤ d) (h6 : d ≤ 6) :
    let s := (directionToVertexNumHex d).toNat
    let s' := (directionToVertexNumHex (7 - d)).toNat
    let va := (faceIjkToVertsN 6 ⟨f, c⟩ res).2.2
    let vb := (faceIjkToVertsN 6 ⟨f, ijkNeighbor c d⟩ res).2.2
    va.getD s ⟨f, ⟨0, 0, 0⟩⟩ = vb.getD ((s' + 1) % 6) ⟨f, ⟨0, 0, 0⟩⟩ ∧
    va.getD ((s + 1) % 6) ⟨f, ⟨0, 0, 0⟩⟩ = vb.getD s' ⟨f, ⟨0, 0, 0⟩⟩ := by
  intro s s' va vb
  obtain ⟨hs, hs', e1, e2, e3, e4⟩ := shared_edge_offsets ⟨d, by omega⟩ h1
  simp only [] at hs hs' e1 e2 e3 e4
  have key : ∀ (ka kb : Nat), ka < 6 → kb < 6 → vertAx res c ka = vertAx res (ijkNeighbor c d) kb →
      va.getD ka ⟨f, ⟨0, 0, 0⟩⟩ = vb.getD kb ⟨f, ⟨0, 0, 0⟩⟩ := by
    intro ka kb hka hkb hax
    obtain ⟨fa, aa, na⟩ := verts_getD f c res ka hka
    obtain ⟨fb, ab, nb⟩ := verts_getD f (ijkNeighbor c d) res kb hkb
    have hc : (va.getD ka ⟨f, ⟨0, 0, 0⟩⟩).coord = (vb.getD kb ⟨f, ⟨0, 0, 0⟩⟩).coord :=
      normal_ext na nb (by rw [aa, ab, hax])
    have hf : (va.getD ka ⟨f, ⟨0, 0, 0⟩⟩).face = (vb.getD kb ⟨f, ⟨0, 0, 0⟩⟩).face := by rw [fa, fb]
    cases hA : va.getD ka ⟨f, ⟨0, 0, 0⟩⟩
    cases hB : vb.getD kb ⟨f, ⟨0, 0, 0⟩⟩
    rw [hA, hB] at hc hf
    simp only [] at hc hf
    rw [hc, hf]
  have hm1 : (s' + 1) % 6 < 6 := Nat.mod_lt _ (by omega)
  have hm2 : (s + 1) % 6 < 6 := Nat.mod_lt _ (by omega)
  constructor
  · apply key s ((s' + 1) % 6) hs hm1
    rw [vertAx_neighbor res c d _ (by omega)]
    unfold vertAx
    split
    · rw [vadd_assoc', ← e3]
    · rw [vadd_assoc', ← e1]
  · apply key ((s + 1) % 6) s' hm2 hs'
    rw [vertAx_neighbor res c d _ (by omega)]
    unfold vertAx
    split
    · rw [vadd_assoc', ← e4]
    · rw [vadd_assoc', ← e2]

-- non-vacuity: a concrete Class III cell and its I-neighbour share two substrate points
example :
    let va := (faceIjkToVertsN 6 ⟨3, ⟨5, 2, 0⟩⟩ 7).2.2
    let vb := (faceIjkToVertsN 6 ⟨3, ijkNeighbor ⟨5, 2, 0⟩ 4⟩ 7).2.2
    va.getD 5 ⟨3, ⟨0, 0, 0⟩⟩ = vb.getD 3 ⟨3, ⟨0, 0, 0⟩⟩ ∧ va.getD 0 ⟨3, ⟨0, 0, 0⟩⟩ = vb.getD 2 ⟨3, ⟨0, 0, 0⟩⟩ := by
  decide +kernel

end H3.C08
