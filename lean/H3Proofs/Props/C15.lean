/-
C15 — containment modes.  Flag validation for every 32-bit word (shared with C07), stated for
both entry points: `polygonToCellsExperimental` and `maxPolygonToCellsSizeExperimental` call
`validatePolygonFlags` first (polyfill.c), so an invalid flag word is E_OPTION_INVALID.
-/
import H3Proofs.Props.C07

namespace H3.C15
open H3

/-- exactly the four documented containment modes 0..3 pass flag validation -/
theorem flags_accept_iff (f : BitVec 32) : validatePolygonFlags f = none ↔ f.toNat ≤ 3 := by
  rw [H3.C07.flags_valid]
  have : BitVec.ult f 4#32 = decide (f.toNat < 4) := by simp [BitVec.ult]
  rw [this]
  by_cases h : f.toNat < 4
  · simp [h]; omega
  · simp [h]; omega

theorem flags_reject (f : BitVec 32) (h : 4 ≤ f.toNat) : validatePolygonFlags f = some .optionInvalid := by
  rw [H3.C07.flags_valid]
  have : BitVec.ult f 4#32 = false := by simp [BitVec.ult]; omega
  simp [this]

end H3.C15

namespace H3.C15
open H3

/-- **nesting, structural part: CENTER ⊆ OVERLAPPING ⊆ OVERLAPPING_BBOX** for every cell, whatever
the geometry says (each disjunct of the smaller mode occurs in the larger) -/
theorem mode_center_sub_overlapping (p : CellPrims) : acceptTarget 0 p = true → acceptTarget 2 p = true := by
  unfold acceptTarget; cases p; simp; intro h; simp [h]

theorem mode_overlapping_sub_bbox (p : CellPrims) : acceptTarget 2 p = true → acceptTarget 3 p = true := by
  unfold acceptTarget
  obtain ⟨a, b, c, d, e, f, g, h⟩ := p
  cases a <;> cases b <;> cases c <;> cases d <;> simp

/-- **FULL ⊆ CENTER** under the one geometric hypothesis H3: a cell whose boundary is inside the
polygon (and crosses no loop) has its centre inside -/
theorem mode_full_sub_center (p : CellPrims) (H3 : p.boundaryInside = true → p.centerIn = true) :
    acceptTarget 1 p = true → acceptTarget 0 p = true := by
  unfold acceptTarget
  obtain ⟨a, b, c, d, e, f, g, h⟩ := p
  simp only [] at H3
  cases a <;> cases c <;> simp at H3 ⊢

/-- FULL returns a cell only if its boundary is inside the polygon; CENTER exactly if the centre is;
OVERLAPPING always if the centre is inside, a first polygon vertex falls in the cell, or edges cross -/
theorem full_only_if (p : CellPrims) : acceptTarget 1 p = p.boundaryInside := by
  unfold acceptTarget; obtain ⟨a, b, c, d, e, f, g, h⟩ := p; cases c <;> simp

theorem center_iff (p : CellPrims) : acceptTarget 0 p = p.centerIn := by
  unfold acceptTarget; obtain ⟨a, b, c, d, e, f, g, h⟩ := p; cases a <;> simp

theorem overlapping_iff (p : CellPrims) : acceptTarget 2 p = (p.centerIn || p.firstVtx || p.crosses) := by
  unfold acceptTarget; obtain ⟨a, b, c, d, e, f, g, h⟩ := p; cases a <;> cases b <;> cases d <;> simp

end H3.C15
