/-
C15 — containment modes.  Flag validation for every 32-bit word (shared with C07), stated for
both entry points: `polygonToCellsExperimental` and `maxPolygonToCellsSizeExperimental` call
`validatePolygonFlags` first (polyfill.c), so an invalid flag word is E_OPTION_INVALID.
-/
import H3Proofs.Props.C07

namespace H3.C15
open H3

/-- exactly the four documented containment modes 0..3 pass flag validation -/
theorem flags_accept_iff (f : BitVec 32) : validatePolygonFlags f = none ↔ f.toNat ≤ 3 := by
  rw [H3.C07.flags_valid]
  have : BitVec.ult f 4#32 = decide (f.toNat < 4) := by simp [BitVec.ult]
  rw [this]
  by_cases h : f.toNat < 4
  · simp [h]; omega
  · simp [h]; omega

theorem flags_reject (f : BitVec 32) (h : 4 ≤ f.toNat) : validatePolygonFlags f = some .optionInvalid := by
  rw [H3.C07.flags_valid]
  have : BitVec.ult f 4#32 = false := by simp [BitVec.ult]; omega
  simp [this]

end H3.C15
