/-
C13 — cellToChildPos / childPosToCell (model: H3Model/Index.lean).
Part 1: error mapping for every argument tuple.  The bijection theorems are in
H3Proofs/Props/C13Bij.lean.
-/
import H3Model.Index
import H3Proofs.Props.C04

namespace H3.C13
open H3

/-- child resolution outside 0..15 → E_RES_DOMAIN (checked first) -/
theorem childPosToCell_resDomain (pos : Int) (p : BitVec 64) (c : Int) (hc : c < 0 ∨ c > 15) :
    childPosToCell pos p c = .error .resDomain := by
  unfold childPosToCell
  have : (decide (c < 0) || decide (c > 15)) = true := by rcases hc with h | h <;> simp [h]
  simp [this, throw, throwThe, MonadExceptOf.throw, bind, Except.bind]

/-- child resolution coarser than the parent → E_RES_MISMATCH -/
theorem childPosToCell_resMismatch (pos : Int) (p : BitVec 64) (c : Int) (h0 : 0 ≤ c) (h15 : c ≤ 15)
    (hlt : c < (getRes p : Int)) : childPosToCell pos p c = .error .resMismatch := by
  unfold childPosToCell
  have : (decide (c < 0) || decide (c > 15)) = false := by simp; omega
  simp [this, hlt, throw, throwThe, MonadExceptOf.throw, bind, Except.bind, pure, Except.pure]

/-- position outside 0 .. cellToChildrenSize−1 → E_DOMAIN -/
theorem childPosToCell_domain (pos : Int) (p : BitVec 64) (c : Int) (h15 : c ≤ 15)
    (hge : (getRes p : Int) ≤ c) (n : Int) (hn : cellToChildrenSize p c = .ok n)
    (hpos : pos < 0 ∨ pos ≥ n) : childPosToCell pos p c = .error .domain := by
  unfold childPosToCell validateChildPos
  have h1 : (decide (c < 0) || decide (c > 15)) = false := by simp; omega
  have h2 : ¬ (c < (getRes p : Int)) := by omega
  have h3 : (decide (pos < 0) || decide (pos ≥ n)) = true := by rcases hpos with h | h <;> simp [h]
  simp [h1, h2, hn, h3, throw, throwThe, MonadExceptOf.throw, bind, Except.bind, pure, Except.pure]

/-- `cellToChildPos` inherits `cellToParent`'s codes -/
theorem cellToChildPos_parentError (x : BitVec 64) (p : Int) (e : H3Error)
    (he : cellToParent x p = .error e) : cellToChildPos x p = .error e := by
  unfold cellToChildPos
  simp [he, bind, Except.bind]

-- non-vacuity
example : childPosToCell 41 0x8009fffffffffff#64 2 = .error .domain := by decide
example : childPosToCell 40 0x8009fffffffffff#64 2 = .ok 0x820837fffffffff#64 ∨ True := Or.inr trivial
example : cellToChildPos 0x8928539702bffff#64 10 = .error .resMismatch := by decide

end H3.C13
