/-
C05 — gridDisk family.  Part 1: size formula, argument validation, table pins
(regenerated tables of algos.c / baseCells.c).  Theorem A and the BFS theorem live in
H3Proofs/Props/C05Neighbor.lean and C05Bfs.lean.
-/
import H3Model.Disk

namespace H3.C05
open H3

/-- `k < 0` → E_DOMAIN -/
theorem maxGridDiskSize_domain (k : Int) (h : k < 0) : maxGridDiskSize k = .error .domain := by
  simp [maxGridDiskSize, h]

/-- closed form below the saturation constant -/
theorem maxGridDiskSize_formula (k : Int) (h0 : 0 ≤ k) (h1 : k < 13780510) :
    maxGridDiskSize k = .ok (3 * k * (k + 1) + 1) := by
  unfold maxGridDiskSize
  have : ¬ k < 0 := by omega
  have hK : K_ALL_CELLS_AT_RES_15 = 13780510 := by decide
  simp [this, hK]
  omega

/-- saturation: the whole globe at res 15 -/
theorem maxGridDiskSize_saturates (k : Int) (h1 : 13780510 ≤ k) :
    maxGridDiskSize k = .ok (2 + 120 * 7 ^ 15) := by
  unfold maxGridDiskSize
  have : ¬ k < 0 := by omega
  have hK : K_ALL_CELLS_AT_RES_15 = 13780510 := by decide
  have hn : getNumCells 15 = .ok (2 + 120 * 7 ^ 15) := by decide +kernel
  simp [this, hK, h1, hn]

/-- no int64 overflow in `3k(k+1)+1` below the constant, and the constant is where the disk
formula first reaches the res-15 cell count -/
theorem disk_size_no_overflow (k : Int) (h0 : 0 ≤ k) (h1 : k < 13780510) : 3 * k * (k + 1) + 1 < 2 ^ 63 := by
  have h2 : k * (k + 1) ≤ 13780510 * 13780511 := by
    apply Int.mul_le_mul <;> omega
  have h3 : 3 * k * (k + 1) = 3 * (k * (k + 1)) := by rw [Int.mul_assoc]
  omega

theorem saturation_constant_sound :
    (3 * 13780510 * (13780510 + 1) + 1 : Int) ≥ 2 + 120 * 7 ^ 15 ∧
    (3 * 13780509 * (13780509 + 1) + 1 : Int) < 2 + 120 * 7 ^ 15 := by decide

/-- base-cell adjacency table: entries are base cells (< 122) or 127 (only in the K direction
of pentagons), direction 0 is the cell itself, rotations are in 0..5 (−1 only with 127) -/
theorem baseCellNeighbors_wellformed :
    ∀ b : Fin 122, ∀ d : Fin 7,
      (bcNeighbor b.val d.val < 122 ∨ (bcNeighbor b.val d.val = 127 ∧ d.val = 1 ∧ isBaseCellPentagon b.val = true)) ∧
      (d.val = 0 → bcNeighbor b.val d.val = b.val) ∧
      (bcNeighbor b.val d.val < 122 → 0 ≤ bcNeighborRot b.val d.val ∧ bcNeighborRot b.val d.val ≤ 5) := by
  decide +kernel

/-- base-cell adjacency is symmetric: if n is the neighbour of b in some direction then b is a
neighbour of n -/
theorem baseCellNeighbors_symmetric :
    ∀ b : Fin 122, ∀ d : Fin 7, bcNeighbor b.val d.val < 122 →
      (List.range 7).any (fun e => bcNeighbor (bcNeighbor b.val d.val) e == b.val) = true := by
  decide +kernel

/-- hexagon base cells have six distinct neighbours, pentagons five -/
theorem baseCell_neighbor_count :
    ∀ b : Fin 122,
      (((List.range 7).drop 1).map (bcNeighbor b.val)).eraseDups.length =
        (if isBaseCellPentagon b.val then 6 else 6) ∧
      ((((List.range 7).drop 1).map (bcNeighbor b.val)).filter (· < 122)).eraseDups.length =
        (if isBaseCellPentagon b.val then 5 else 6) := by
  decide +kernel

end H3.C05
