/-
C17 — gridDisk / gridDiskDistances and areNeighborCells with a failing allocator
(model: `gridDiskDistancesA`, `areNeighborCellsA`; traces compared with the C allocator trace at
every failure index by the `adisk` / `aneighbors` correspondence streams).
-/
import H3Proofs.Props.C17
import H3Model.EdgeVertex

namespace H3.C17D
open H3 H3.C17

/-- what must hold when a call with result type α returns -/
structure PostG {α : Type} (r : R α) (a : AState) : Prop where
  no_leak : a.live = []
  no_bad_free : (replay a.trace []).isSome = true
  failure_reported : a.someAllocFailed = true → r = .error .memoryAlloc

theorem postG_untouched {α : Type} (r : R α) : PostG r ({} : AState) :=
  ⟨rfl, rfl, by intro h; simp [AState.someAllocFailed] at h⟩

/-- **C17, gridDisk / gridDiskDistances: for every failure schedule, origin, k and both calling
conventions** nothing is left allocated, nothing is freed twice, and an injected failure is reported
as E_MEMORY_ALLOC (the only allocation is the fallback distances array). -/
theorem gridDisk_alloc_clean (sched : Nat → Bool) (origin : BitVec 64) (k : Int) (wantDist : Bool) :
    PostG (gridDiskDistancesA sched origin k wantDist {}).1 (gridDiskDistancesA sched origin k wantDist {}).2 := by
  have hi0 : Inv ({} : AState) [] := ⟨rfl, rfl, rfl, by simp⟩
  unfold gridDiskDistancesA
  split
  · split <;> exact postG_untouched _
  · split
    · exact postG_untouched _
    · simp only []
      split
      · split <;> exact postG_untouched _
      · by_cases hs : sched (({} : AState).calls + 1) = true
        · rw [alloc_fail_eq _ sched _ hs]
          exact ⟨by simp [failState_live], by simp [failState_replay _ hi0], fun _ => rfl⟩
        · have hs' : sched (({} : AState).calls + 1) = false := by simpa using hs
          rw [alloc_ok_eq _ sched _ hs']
          simp only []
          generalize hb : (_ : Nat) * 4 = bytes
          have h2 := inv_ok bytes hi0
          have hfree := free_inv h2 (({} : AState).calls + 1) (by simp)
          simp only [List.erase_cons_head] at hfree
          split <;>
            exact ⟨hfree.live_eq, by simp [hfree.wf], by intro hf; rw [hfree.nofail] at hf; exact absurd hf (by simp)⟩

/-- **C17, areNeighborCells** (after the `fix:` commit that propagates the inner gridDisk error) -/
theorem areNeighborCells_alloc_clean (sched : Nat → Bool) (a b : BitVec 64) :
    PostG (areNeighborCellsA sched a b {}).1 (areNeighborCellsA sched a b {}).2 := by
  unfold areNeighborCellsA
  split
  · exact postG_untouched _
  · exact postG_untouched _
  · have h := gridDisk_alloc_clean sched a 1 false
    generalize gridDiskDistancesA sched a 1 false {} = res at *
    obtain ⟨r, st⟩ := res
    cases r with
    | error e =>
      simp only [] at h ⊢
      exact ⟨h.no_leak, h.no_bad_free, fun hf => by have := h.failure_reported hf; simp at this; rw [this]⟩
    | ok v =>
      obtain ⟨ring, d⟩ := v
      simp only [] at h ⊢
      exact ⟨h.no_leak, h.no_bad_free, fun hf => by have := h.failure_reported hf; simp at this⟩

end H3.C17D
