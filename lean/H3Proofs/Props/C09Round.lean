/-
C09 — `localIjkToCell` inverts `cellToLocalIjk` inside a hexagon base cell, at every resolution:
for an origin `o` and a valid cell `h` of the same resolution in the same hexagon base cell,
`cellToLocalIjk o h` succeeds with the cell's base-cell coordinate and `localIjkToCell o` of that
coordinate succeeds and returns exactly `h` (digit recovery by the rounding up-aperture steps, no
overflow guard fires for coordinates of this size).
-/
import H3Proofs.Lemmas.DigitRecover
import H3Proofs.Props.C09Hex
import H3Proofs.Lemmas.Valid
import H3Proofs.Props.C05Valid

namespace H3.C09R
open H3 H3.DP H3.DR H3.Bits H3.C09H

/-- one iteration of the digit-extraction loop -/
def stepD (res : Nat) : BitVec 64 × CoordIJK → Nat → R (BitVec 64 × CoordIJK) :=
  fun (out, c) k => do
    let level := res - k
    let last := c
    let (c', center) ←
      if isResClassIII level then do
        let u ← upAp7Checked c
        pure (u, downAp7 u)
      else do
        let u ← upAp7rChecked c
        pure (u, downAp7r u)
    let diff := (last.sub center).normalize
    pure (setDigit out level (unitIjkToDigit diff), c')

theorem ijkToDigitsChecked_eq (out : BitVec 64) (ijk : CoordIJK) (res : Nat) :
    ijkToDigitsChecked out ijk res = (List.range res).foldlM (stepD res) (out, ijk) := rfl

theorem stepD_spec (res k : Nat) (hk : k < res) (out : BitVec 64) (c : CoordIJK) (p : Int × Int) (d : Nat) (hd : d < 7)
    (hc : ax c = vadd ((levelM (res - k)).app p) (uax d)) (hp : hexN p ≤ 21523360) :
    ∃ u : CoordIJK, stepD res (out, c) k = .ok (setDigit out (res - k) d, u) ∧ ax u = p ∧ Normal u := by
  obtain ⟨u, h1, h2, hN, h3⟩ := up_step (res - k) c p d hd hc hp
  refine ⟨u, ?_, h2, hN⟩
  unfold stepD
  simp only []
  by_cases hl : isResClassIII (res - k) = true
  · simp only [hl, if_true] at h1 h3 ⊢
    simp only [bind, Except.bind, pure, Except.pure, h1, h3]
  · simp only [hl, Bool.false_eq_true, if_false] at h1 h3 ⊢
    simp only [bind, Except.bind, pure, Except.pure, h1, h3]

/-- the loop over the levels n, n−1, …, 1 recovers the digits of `h` and ends at the base-cell centre -/
theorem loop_spec (h : BitVec 64) (res : Nat) (hres : res ≤ 15) : ∀ (n k0 : Nat) (out : BitVec 64) (c : CoordIJK),
    k0 + n = res → Digits (revDigits h n) → ax c = coordR (revDigits h n) →
    ∃ out' c', (List.range' k0 n).foldlM (stepD res) (out, c) = .ok (out', c') ∧ ax c' = (0, 0) ∧
      ((1 ≤ n ∨ Normal c) → Normal c') ∧ SameOutside out out' n ∧ ∀ r, 1 ≤ r → r ≤ n → getDigit out' r = getDigit h r := by
  intro n
  induction n with
  | zero =>
    intro k0 out c _ _ hc
    exact ⟨out, c, rfl, by simpa [revDigits, coordR] using hc, fun hh => hh.elim (fun h => by omega) id, SameOutside.refl out 0, fun r h1 h2 => by omega⟩
  | succ n ih =>
    intro k0 out c hk hdig hc
    have hd : getDigit h (n + 1) < 7 := hdig _ (by simp [revDigits])
    have hrest : Digits (revDigits h n) := fun x hx => hdig x (by simp [revDigits, hx])
    have hlev : res - k0 = n + 1 := by omega
    simp only [revDigits, coordR, revDigits_length] at hc
    have hpb : hexN (coordR (revDigits h n)) ≤ 21523360 := by
      have := coordR_bound (revDigits h n) hrest
      rw [revDigits_length] at this
      have b := bnd_le ⟨n, by omega⟩
      simp only [] at b
      omega
    obtain ⟨u, hs, hu, hN⟩ := stepD_spec res k0 (by omega) out c (coordR (revDigits h n)) (getDigit h (n + 1)) hd
      (by rw [hlev]; exact hc) hpb
    rw [hlev] at hs
    obtain ⟨out', c', hf, hc', hNN, hso, hdg⟩ := ih (k0 + 1) (setDigit out (n + 1) (getDigit h (n + 1))) u (by omega) hrest hu
    refine ⟨out', c', ?_, hc', fun _ => hNN (Or.inr hN), ?_, ?_⟩
    · rw [List.range'_succ, List.foldlM_cons, hs]
      exact hf
    · have s := getRes_setDigit out (n + 1) (getDigit h (n + 1)) ⟨by omega, by omega⟩ (by omega)
      exact ⟨by rw [hso.res, s.1], by rw [hso.bc, s.2.1], by rw [hso.mode, s.2.2.1], by rw [hso.rsv, s.2.2.2.1],
        by rw [hso.high, s.2.2.2.2], fun r h1 h2 => by
          rw [hso.above r (by omega) h2, getDigit_setDigit out (n + 1) r _ ⟨by omega, by omega⟩ ⟨by omega, h2⟩ (by omega)]
          simp [show r ≠ n + 1 by omega]⟩
    · intro r h1 h2
      by_cases e : r = n + 1
      · subst e
        rw [hso.above (n + 1) (by omega) (by omega),
          getDigit_setDigit out (n + 1) (n + 1) _ ⟨by omega, by omega⟩ ⟨by omega, by omega⟩ (by omega)]
        simp
      · exact hdg r h1 (by omega)

theorem init_fields : getHighBit (setMode H3_INIT 1) = 0 ∧ getMode (setMode H3_INIT 1) = 1 ∧
    getReserved (setMode H3_INIT 1) = 0 ∧ ∀ r : Fin 16, 1 ≤ r.val → getDigit (setMode H3_INIT 1) r.val = 7 := by
  decide +kernel

theorem bcNeighbor_zero : ∀ bc : Fin 122, bcNeighbor bc.val 0 = bc.val := by decide +kernel

theorem unitDigit_zero (c : CoordIJK) (h : ax c = (0, 0)) : unitIjkToDigit c = 0 :=
  unitIjkToDigit_of_ax c 0 (by omega) (by rw [h]; exact uax_zero.symm)

theorem valid_digits (h : BitVec 64) (hv : Valid.ValidN h) : Digits (revDigits h (getRes h)) := by
  obtain ⟨v1, v2, v3, v4, v5, _⟩ := hv
  have : ∀ n, n ≤ getRes h → Digits (revDigits h n) := by
    intro n
    induction n with
    | zero => intro _ x hx; simp [revDigits] at hx
    | succ n ih =>
      intro hn x hx
      simp only [revDigits, List.mem_cons] at hx
      rcases hx with e | e
      · have := v5 (n + 1) (by omega) (by have := getRes_lt h; omega)
        rw [e]; simpa [hn] using this
      · exact ih (by omega) x e
  exact this _ (Nat.le_refl _)

/-- `localIjkToCell` of any coordinate triple whose axial value is the base-cell coordinate of `h` -/
theorem localIjkToCell_of_ax (o h : BitVec 64) (hv : Valid.ValidN h) (hro : getRes o = getRes h)
    (hbo : getBaseCell o = getBaseCell h) (hhex : isBaseCellPentagon (getBaseCell h) = false)
    (ijk : CoordIJK) (hax : ax ijk = coordR (revDigits h (getRes h))) : localIjkToCell o ijk = .ok h := by
  have hdig0 := valid_digits h hv
  obtain ⟨v1, v2, v3, v4, v5, _⟩ := hv
  have hres15 : getRes h ≤ 15 := by have := getRes_lt h; omega
  have hdig : Digits (revDigits h (getRes h)) := by
    have : ∀ n, n ≤ getRes h → Digits (revDigits h n) := by
      intro n
      induction n with
      | zero => intro _ x hx; simp [revDigits] at hx
      | succ n ih =>
        intro hn x hx
        simp only [revDigits, List.mem_cons] at hx
        rcases hx with e | e
        · have := v5 (n + 1) (by omega) (by omega)
          rw [e]; simpa [hn] using this
        · exact ih (by omega) x e
    exact this _ (Nat.le_refl _)
  by_cases h0 : getRes h = 0
  · -- resolution 0: the coordinate is the origin of the base cell
    unfold localIjkToCell
    have hb : ¬ getBaseCell h ≥ 122 := by omega
    have hd0 : unitIjkToDigit ijk = 0 := unitDigit_zero _ (by rw [hax, h0]; rfl)
    have hbn := bcNeighbor_zero ⟨getBaseCell h, v4⟩
    simp only [] at hbn
    simp only [hro, h0, hbo, hb, hd0, hbn, bind, Except.bind, pure, Except.pure, if_false, beq_self_eq_true, if_true]
    have : ((0 : Nat) == 7) = false := by decide
    simp only [this, Bool.false_eq_true, if_false]
    have hne : (getBaseCell h == 127) = false := by
      have : getBaseCell h ≠ 127 := by omega
      simpa using this
    simp only [hne, Bool.false_eq_true, if_false]
    congr 1
    -- equality of indexes by fields
    have I := init_fields
    have hs := getDigit_setRes (setMode H3_INIT 1) 0 1 (by omega) ⟨by omega, by omega⟩
    have hB := getDigit_setBaseCell (setRes (setMode H3_INIT 1) 0) (getBaseCell h) 1 (by omega) ⟨by omega, by omega⟩
    have hH : getHighBit (setBaseCell (setRes (setMode H3_INIT 1) 0) (getBaseCell h)) =
        getHighBit (setRes (setMode H3_INIT 1) 0) := by
      unfold getHighBit setBaseCell
      rw [C05V.high_set_base_cell_bv _ _ (ofNat_lt 128 (by omega) (by omega))]
    apply Bits.ext
    · rw [hH, hs.2.2.2.2, I.1, v1]
    · rw [hB.2.2.1, hs.2.2.1, I.2.1, v2]
    · rw [hB.2.2.2, hs.2.2.2.1, I.2.2.1, v3]
    · rw [hB.2.1, getRes_setRes _ 0 (by omega), h0]
    · rw [getBaseCell_setBaseCell _ _ (by omega)]
    · intro r h1 h15
      rw [(getDigit_setBaseCell _ (getBaseCell h) r (by omega) ⟨h1, h15⟩).1,
        (getDigit_setRes (setMode H3_INIT 1) 0 r (by omega) ⟨h1, h15⟩).1, I.2.2.2 ⟨r, by omega⟩ h1]
      have := v5 r h1 h15
      simp only [h0] at this
      have : ¬ r ≤ 0 := by omega
      simp_all
  · have hr1 : 1 ≤ getRes h := by omega
    have hb : ¬ getBaseCell h ≥ 122 := by omega
    obtain ⟨out', c', hf, hc', hNc, hso, hdg⟩ := loop_spec h (getRes h) hres15 (getRes h) 0
      (setRes (setMode H3_INIT 1) (getRes h)) ijk (by omega) hdig hax
    have hloop : ijkToDigitsChecked (setRes (setMode H3_INIT 1) (getRes h)) ijk (getRes h) = .ok (out', c') := by
      rw [ijkToDigitsChecked_eq, List.range_eq_range']; exact hf
    have hc0 : c' = ⟨0, 0, 0⟩ := by
      apply normal_ext (hNc (Or.inl hr1)) (by unfold Normal; simp)
      rw [hc']; rfl
    subst hc0
    have hd0 : unitIjkToDigit (⟨0, 0, 0⟩ : CoordIJK) = 0 := unitDigit_zero _ (by unfold ax; simp)
    have hbn := bcNeighbor_zero ⟨getBaseCell h, v4⟩
    simp only [] at hbn
    have hne : (getBaseCell h == 127) = false := by
      have : getBaseCell h ≠ 127 := by omega
      simpa using this
    have hr0 : (getRes h == 0) = false := by simpa using h0
    unfold localIjkToCell
    simp only [hro, hbo, hb, hloop, hd0, hbn, hne, hhex, hr0, bind, Except.bind, pure, Except.pure, if_false,
      Bool.false_eq_true, bne_self_eq_false, Bool.false_and, Bool.and_false]
    have hdec : (decide ((0 : Int) > 1) || decide ((0 : Int) > 1) || decide ((0 : Int) > 1)) = false := by decide
    simp only [hdec, Bool.false_eq_true, if_false]
    congr 1
    have I := init_fields
    have hs := fun r hr => getDigit_setRes (setMode H3_INIT 1) (getRes h) r (by omega) hr
    have hs1 := hs 1 ⟨by omega, by omega⟩
    have hB := fun r hr => getDigit_setBaseCell out' (getBaseCell h) r (by omega) hr
    have hB1 := hB 1 ⟨by omega, by omega⟩
    have hH : getHighBit (setBaseCell out' (getBaseCell h)) = getHighBit out' := by
      unfold getHighBit setBaseCell
      rw [C05V.high_set_base_cell_bv _ _ (ofNat_lt 128 (by omega) (by omega))]
    apply Bits.ext
    · rw [hH, hso.high, hs1.2.2.2.2, I.1, v1]
    · rw [hB1.2.2.1, hso.mode, hs1.2.2.1, I.2.1, v2]
    · rw [hB1.2.2.2, hso.rsv, hs1.2.2.2.1, I.2.2.1, v3]
    · rw [hB1.2.1, hso.res, getRes_setRes _ _ (by omega)]
    · rw [getBaseCell_setBaseCell _ _ (by omega)]
    · intro r h1 h15
      rw [(hB r ⟨h1, h15⟩).1]
      by_cases hr : r ≤ getRes h
      · exact hdg r h1 hr
      · rw [hso.above r (by omega) h15, (hs r ⟨h1, h15⟩).1, I.2.2.2 ⟨r, by omega⟩ h1]
        have := v5 r h1 h15
        simp only [hr, if_false] at this
        exact this.symm


/-- **C09: localIjkToCell ∘ cellToLocalIjk = id inside a hexagon base cell, every resolution** -/
theorem localIjk_roundtrip (o h : BitVec 64) (hv : Valid.ValidN h) (hro : getRes o = getRes h)
    (hbo : getBaseCell o = getBaseCell h) (hhex : isBaseCellPentagon (getBaseCell h) = false) :
    ∃ ijk, cellToLocalIjk o h = .ok ijk ∧ localIjkToCell o ijk = .ok h :=
  ⟨h3ToIjkFrom h ⟨0, 0, 0⟩, cellToLocalIjk_same_hex o h hro hbo hv.2.2.2.1 hhex,
    localIjkToCell_of_ax o h hv hro hbo hhex _ (ax_h3ToIjkFrom h (valid_digits h hv))⟩

theorem nco_small (p : Int × Int) (hp : hexN p ≤ 21523360) : normalizeCouldOverflow (⟨p.1, p.2, 0⟩ : CoordIJK) = false := by
  have hb := hexN_bounds p _ hp
  unfold normalizeCouldOverflow addOverflows subOverflows INT32_MAX INT32_MIN
  simp only []
  split <;> (simp only []; split <;> simp <;> (try (repeat' split)) <;> omega)

/-- **C09: localIjToCell ∘ cellToLocalIj = id inside a hexagon base cell, every resolution** (mode 0) -/
theorem localIj_roundtrip (o h : BitVec 64) (hv : Valid.ValidN h) (hro : getRes o = getRes h)
    (hbo : getBaseCell o = getBaseCell h) (hhex : isBaseCellPentagon (getBaseCell h) = false) :
    ∃ ij, cellToLocalIj o h 0 = .ok ij ∧ localIjToCell o ij 0 = .ok h := by
  have hd := valid_digits h hv
  have hres15 : getRes h ≤ 15 := by have := getRes_lt h; omega
  refine ⟨ijkToIj (h3ToIjkFrom h ⟨0, 0, 0⟩), ?_, ?_⟩
  · unfold cellToLocalIj
    simp [cellToLocalIjk_same_hex o h hro hbo hv.2.2.2.1 hhex]
  · unfold localIjToCell ijToIjk
    have hax := ax_h3ToIjkFrom h hd
    have hbnd : hexN (ax (h3ToIjkFrom h ⟨0, 0, 0⟩)) ≤ 21523360 := by
      rw [hax]
      have := coordR_bound (revDigits h (getRes h)) hd
      rw [revDigits_length] at this
      have b := bnd_le ⟨getRes h, by omega⟩
      simp only [] at b
      omega
    have hn := nco_small (ax (h3ToIjkFrom h ⟨0, 0, 0⟩)) hbnd
    unfold ax at hn
    simp only [ijkToIj, hn, bne_self_eq_false, Bool.false_eq_true, if_false]
    apply localIjkToCell_of_ax o h hv hro hbo hhex
    rw [ax_normalize, ← hax]
    unfold ax; simp

end H3.C09R

namespace H3.C09R
open H3 H3.DP H3.DR H3.Bits H3.C09H

/-! ### the converse: a successful `localIjkToCell` that stays in the origin's base cell is inverted by
`cellToLocalIjk` -/

theorem ax_of_unitDigit (c : CoordIJK) (d : Nat) (hd : d < 7) (h : unitIjkToDigit c = d) : ax c = uax d := by
  unfold unitIjkToDigit at h
  simp only [] at h
  cases hf : (List.range 7).find? (fun d' => unitVec d' == c.normalize) with
  | none => rw [hf] at h; simp only [] at h; omega
  | some d' =>
    rw [hf] at h
    simp only [] at h
    subst h
    have := List.find?_some hf
    have e : unitVec d' = c.normalize := by simpa using this
    rw [← ax_normalize c, ← e]; rfl

theorem lift_add (n : Nat) (u v : Int × Int) : lift n (vadd u v) = vadd (lift n u) (lift n v) := by
  induction n with
  | zero => rfl
  | succ n ih => simp only [lift, ih, M2.app_add]

/-- the loop on an arbitrary small coordinate: it succeeds, the digits it writes are proper digits and
the coordinate is their value plus the lifted remainder -/
theorem loop_any (res : Nat) (hres : res ≤ 15) : ∀ (n k0 : Nat) (out : BitVec 64) (c : CoordIJK),
    k0 + n = res → hexN (ax c) ≤ 21523360 →
    ∃ out' c', (List.range' k0 n).foldlM (stepD res) (out, c) = .ok (out', c') ∧
      Digits (revDigits out' n) ∧ ax c = vadd (coordR (revDigits out' n)) (lift n (ax c')) ∧
      SameOutside out out' n ∧ ((1 ≤ n ∨ Normal c) → Normal c') := by
  intro n
  induction n with
  | zero =>
    intro k0 out c _ _
    refine ⟨out, c, rfl, fun x hx => by simp [revDigits] at hx, ?_, SameOutside.refl out 0, fun hh => hh.elim (fun h => by omega) id⟩
    simp [revDigits, coordR, lift, vadd]
  | succ n ih =>
    intro k0 out c hk hb
    have hlev : res - k0 = n + 1 := by omega
    obtain ⟨p, d, hd, hdec⟩ := exists_decomp (n + 1) (ax c)
    have hp := parent_small (n + 1) (ax c) p d hd hdec 21523360 (by omega) hb
    obtain ⟨u, hs, hu, hN⟩ := stepD_spec res k0 (by omega) out c p d hd (by rw [hlev]; exact hdec) hp
    rw [hlev] at hs
    obtain ⟨out', c', hf, hdg, hax, hso, hNN⟩ := ih (k0 + 1) (setDigit out (n + 1) d) u (by omega) (by rw [hu]; exact hp)
    have hdn : getDigit out' (n + 1) = d := by
      rw [hso.above (n + 1) (by omega) (by omega),
        getDigit_setDigit out (n + 1) (n + 1) _ ⟨by omega, by omega⟩ ⟨by omega, by omega⟩ (by omega)]
      simp
    refine ⟨out', c', ?_, ?_, ?_, ?_, fun _ => hNN (Or.inr hN)⟩
    · rw [List.range'_succ, List.foldlM_cons, hs]; exact hf
    · intro x hx
      simp only [revDigits, List.mem_cons] at hx
      rcases hx with e | e
      · rw [e, hdn]; exact hd
      · exact hdg x e
    · simp only [revDigits, coordR, revDigits_length, lift, hdn]
      rw [hdec, ← hu, hax, M2.app_add]
      simp only [vadd, Prod.mk.injEq]
      constructor <;> omega
    · have s := getRes_setDigit out (n + 1) d ⟨by omega, by omega⟩ (by omega)
      exact ⟨by rw [hso.res, s.1], by rw [hso.bc, s.2.1], by rw [hso.mode, s.2.2.1], by rw [hso.rsv, s.2.2.2.1],
        by rw [hso.high, s.2.2.2.2], fun r h1 h2 => by
          rw [hso.above r (by omega) h2, getDigit_setDigit out (n + 1) r _ ⟨by omega, by omega⟩ ⟨by omega, h2⟩ (by omega)]
          simp [show r ≠ n + 1 by omega]⟩

theorem bcNeighbor_ne : ∀ bc : Fin 122, ∀ d : Fin 8, bcNeighbor bc.val d.val < 128 ∧ (1 ≤ d.val → bcNeighbor bc.val d.val ≠ bc.val) := by
  decide +kernel

theorem unitDigit_lt8 (c : CoordIJK) : unitIjkToDigit c < 8 := by
  unfold unitIjkToDigit
  simp only []
  split
  · next d hfd => have := List.mem_of_find?_eq_some hfd; simp at this; omega
  · omega

theorem localIjkToCell_inverse (o h : BitVec 64) (hbo : getBaseCell o < 122)
    (hhex : isBaseCellPentagon (getBaseCell o) = false) (ijk : CoordIJK) (hb : hexN (ax ijk) ≤ 21523360)
    (hs : localIjkToCell o ijk = .ok h) (hsame : getBaseCell h = getBaseCell o) :
    getRes h = getRes o ∧ Digits (revDigits h (getRes h)) ∧ ax ijk = coordR (revDigits h (getRes h)) := by
  have hres15 : getRes o ≤ 15 := by have := getRes_lt o; omega
  have hb122 : ¬ getBaseCell o ≥ 122 := by omega
  by_cases h0 : getRes o = 0
  · -- resolution 0
    unfold localIjkToCell at hs
    have hr0 : (getRes o == 0) = true := by simpa using h0
    have ht : ∀ e : H3Error, (throw e : Except H3Error Unit) = Except.error e := fun _ => rfl
    simp only [hb122, hr0, bind, Except.bind, pure, Except.pure, if_false, if_true, ht] at hs
    have hd7 := unitDigit_lt8 ijk
    have hboth := bcNeighbor_ne ⟨getBaseCell o, hbo⟩ ⟨unitIjkToDigit ijk, hd7⟩
    simp only [] at hboth
    have key : getBaseCell h = bcNeighbor (getBaseCell o) (unitIjkToDigit ijk) := by
      repeat' (split at hs)
      all_goals (try simp only [Except.ok.injEq] at hs)
      all_goals first
        | (rw [← hs]; exact getBaseCell_setBaseCell _ _ hboth.1)
        | (simp at hs)
    have hd0 : unitIjkToDigit ijk = 0 := by
      by_cases e : unitIjkToDigit ijk = 0
      · exact e
      · exfalso; rw [hsame] at key; exact hboth.2 (by omega) key.symm
    have hzero : ax ijk = (0, 0) := by rw [ax_of_unitDigit ijk 0 (by omega) hd0]; exact uax_zero
    have hrh : getRes h = getRes o := by
      have hlt : bcNeighbor (getBaseCell o) (unitIjkToDigit ijk) < 128 := hboth.1
      repeat' (split at hs)
      all_goals (try simp only [Except.ok.injEq] at hs)
      all_goals first
        | (rw [← hs, (getDigit_setBaseCell _ _ 1 hlt ⟨by omega, by omega⟩).2.1, getRes_setRes _ _ (by omega)])
        | (simp at hs)
    refine ⟨hrh, by rw [hrh, h0]; intro x hx; simp [revDigits] at hx, ?_⟩
    rw [hrh, h0, hzero]; rfl
  · obtain ⟨out', c', hf, hdg, hax, hso, hNc⟩ := loop_any (getRes o) hres15 (getRes o) 0
      (setRes (setMode H3_INIT 1) (getRes o)) ijk (by omega) hb
    have hloop : ijkToDigitsChecked (setRes (setMode H3_INIT 1) (getRes o)) ijk (getRes o) = .ok (out', c') := by
      rw [ijkToDigitsChecked_eq, List.range_eq_range']; exact hf
    have hr0 : (getRes o == 0) = false := by simpa using h0
    unfold localIjkToCell at hs
    simp only [hb122, hloop, hhex, hr0, bind, Except.bind, pure, Except.pure, if_false, Bool.false_eq_true, Bool.false_and] at hs
    have ht : ∀ e : H3Error, (throw e : Except H3Error Unit) = Except.error e := fun _ => rfl
    simp only [ht] at hs
    have hbn0 := bcNeighbor_zero ⟨getBaseCell o, hbo⟩
    simp only [] at hbn0
    by_cases hd0 : unitIjkToDigit c' = 0
    · have hne : (getBaseCell o == 127) = false := by
        have : getBaseCell o ≠ 127 := by omega
        simpa using this
      simp only [hd0, bne_self_eq_false, Bool.false_eq_true, if_false, hbn0, hne, hhex] at hs
      split at hs
      · simp at hs
      · simp only [Except.ok.injEq] at hs
        have hzero : ax c' = (0, 0) := by rw [ax_of_unitDigit c' 0 (by omega) hd0]; exact uax_zero
        have hB := fun r hr => getDigit_setBaseCell out' (getBaseCell o) r (by omega) hr
        have hrh : getRes h = getRes o := by
          rw [← hs, (hB 1 ⟨by omega, by omega⟩).2.1, hso.res, getRes_setRes _ _ (by omega)]
        have hrev : revDigits h (getRes o) = revDigits out' (getRes o) := by
          apply revDigits_congr
          intro r h1 h2
          rw [← hs, (hB r ⟨h1, by omega⟩).1]
        refine ⟨hrh, by rw [hrh, hrev]; exact hdg, ?_⟩
        rw [hrh, hrev, hax, hzero, lift_zero, vadd_zero]
    · exfalso
      have hd7 := unitDigit_lt8 c'
      have hboth := bcNeighbor_ne ⟨getBaseCell o, hbo⟩ ⟨unitIjkToDigit c', hd7⟩
      simp only [] at hboth
      have hne' := hboth.2 (by omega)
      have hlt := hboth.1
      have key : getBaseCell h = bcNeighbor (getBaseCell o) (unitIjkToDigit c') := by
        repeat' (split at hs)
        all_goals (try simp only [Except.ok.injEq] at hs)
        all_goals first
          | (rw [← hs]; exact getBaseCell_setBaseCell _ _ hlt)
          | (simp at hs)
      rw [hsame] at key
      exact hne' key.symm

/-- **C09: cellToLocalIjk inverts every successful localIjkToCell that stays in the origin's (hexagon)
base cell**, every resolution, coordinates up to 21 523 360 (more than any cell of a base cell has) -/
theorem localIjk_inverse (o h : BitVec 64) (hbo : getBaseCell o < 122)
    (hhex : isBaseCellPentagon (getBaseCell o) = false) (ijk : CoordIJK) (hb : hexN (ax ijk) ≤ 21523360)
    (hs : localIjkToCell o ijk = .ok h) (hsame : getBaseCell h = getBaseCell o) :
    ∃ c, cellToLocalIjk o h = .ok c ∧ ax c = ax ijk := by
  obtain ⟨hr, hd, hax⟩ := localIjkToCell_inverse o h hbo hhex ijk hb hs hsame
  refine ⟨h3ToIjkFrom h ⟨0, 0, 0⟩, cellToLocalIjk_same_hex o h hr.symm hsame.symm (by omega) (by rw [hsame]; exact hhex), ?_⟩
  rw [ax_h3ToIjkFrom h hd, hax]

/-- the IJ form (mode 0): `cellToLocalIj o (localIjToCell o ij) = ij` whenever the cell lies in the
origin's hexagon base cell -/
theorem localIj_inverse (o h : BitVec 64) (hbo : getBaseCell o < 122)
    (hhex : isBaseCellPentagon (getBaseCell o) = false) (ij : CoordIJ) (hb : hexN (ij.i, ij.j) ≤ 21523360)
    (hs : localIjToCell o ij 0 = .ok h) (hsame : getBaseCell h = getBaseCell o) :
    cellToLocalIj o h 0 = .ok ij := by
  unfold localIjToCell ijToIjk at hs
  have hn := nco_small (ij.i, ij.j) hb
  simp only [bne_self_eq_false, Bool.false_eq_true, if_false, hn] at hs
  have hax0 : ax (⟨ij.i, ij.j, 0⟩ : CoordIJK).normalize = (ij.i, ij.j) := by rw [ax_normalize]; unfold ax; simp
  obtain ⟨c, hc, hcax⟩ := localIjk_inverse o h hbo hhex _ (by rw [hax0]; exact hb) hs hsame
  unfold cellToLocalIj
  simp only [bne_self_eq_false, Bool.false_eq_true, if_false, hc]
  congr 1
  rw [hax0] at hcax
  unfold ax at hcax
  simp only [Prod.mk.injEq] at hcax
  unfold ijkToIj
  cases ij
  simp only [CoordIJ.mk.injEq]
  exact hcax

end H3.C09R

namespace H3.C09R
open H3
/-! non-vacuity: a concrete pair of resolution-9 cells of hexagon base cell 20 meets the hypotheses -/
example : ∃ ij, cellToLocalIj 0x8928308280fffff#64 0x8928308280bffff#64 0 = .ok ij ∧
    localIjToCell 0x8928308280fffff#64 ij 0 = .ok 0x8928308280bffff#64 :=
  localIj_roundtrip _ _ ((Valid.layoutSpec_iff _).mp (by decide +kernel)) (by decide +kernel) (by decide +kernel)
    (by decide +kernel)
end H3.C09R
