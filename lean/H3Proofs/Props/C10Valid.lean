/-
C10 / C01 (closure clause) — the cells a valid directed edge decodes to are valid cells: the origin by
the definition of isValidDirectedEdge (through the generated isValidCell = documented layout), the
destination because it is a neighbour step from the origin (C05Valid2), at the origin's resolution.
-/
import H3Proofs.Props.C05Valid2
import H3Proofs.Props.C01
import H3Model.EdgeVertex

namespace H3.C10V
open H3 H3.Bits H3.C05V

theorem isValidCell_layout (h : BitVec 64) (hv : H3.isValidCell h = true) : C01.layoutSpec h = true := by
  unfold H3.isValidCell at hv
  have e := C01.isValidCell_eq_layout h
  by_cases hl : C01.layoutSpec h = true
  · exact hl
  · simp only [hl, Bool.false_eq_true, if_false] at e
    rw [e] at hv
    simp at hv

theorem edge_cells_valid (e : BitVec 64) (hv : isValidDirectedEdge e = true) :
    ∃ o, getDirectedEdgeOrigin e = .ok o ∧ Valid.ValidN o ∧
      ∀ d, getDirectedEdgeDestination e = .ok d → Valid.ValidN d ∧ getRes d = getRes o := by
  unfold isValidDirectedEdge at hv
  simp only [] at hv
  split at hv
  · simp at hv
  · cases ho : getDirectedEdgeOrigin e with
    | error err => rw [ho] at hv; simp at hv
    | ok o =>
      rw [ho] at hv
      simp only [] at hv
      split at hv
      · simp at hv
      · have hvo := (Valid.layoutSpec_iff o).mp (isValidCell_layout o hv)
        refine ⟨o, rfl, hvo, ?_⟩
        intro d hd
        unfold getDirectedEdgeDestination at hd
        simp only [ho, bind, Except.bind, pure, Except.pure] at hd
        cases hn : h3NeighborRotations o (getReserved e) 0 with
        | error err => rw [hn] at hd; simp at hd
        | ok r =>
          obtain ⟨out, rot⟩ := r
          rw [hn] at hd
          simp only [Except.ok.injEq] at hd
          rw [← hd]
          exact h3NeighborRotations_valid o _ 0 out rot (validN_weak o hvo) hn

end H3.C10V
