/-
C13 — cellToChildPos / childPosToCell are inverse bijections, for every parent, every depth 0..15,
hexagon and pentagon parents alike (model: H3Model/HierSpec.lean, tied to the C functions by the
`cposS` / `pos2cellS` correspondence streams).
-/
import H3Proofs.Lemmas.Hier
import H3Proofs.Props.C04

namespace H3.C13
open H3 H3.Rank H3.Bits H3.Hier

/-- what a successful `posOfDigits` tells about the digit string -/
theorem posOfDigits_ok : ∀ (ds : List Nat) (P : Bool) (pos : Int), (∀ d ∈ ds, d < 8) →
    posOfDigits P ds = .ok pos →
    (P = true → PentDigits ds ∧ pos = rankP ds) ∧ (P = false → Rank.Digits ds ∧ pos = rankH ds) := by
  intro ds
  induction ds with
  | nil =>
    intro P pos _ h
    simp [posOfDigits] at h
    subst h
    exact ⟨fun _ => ⟨trivial, rfl⟩, fun _ => ⟨fun _ hx => by simp at hx, rfl⟩⟩
  | cons d rest ih =>
    intro P pos h8 h
    have hrest8 : ∀ x ∈ rest, x < 8 := fun x hx => h8 x (by simp [hx])
    unfold posOfDigits at h
    by_cases hbad : (d == 7 || (P && d == 1)) = true
    · simp [hbad] at h
    · simp only [hbad, Bool.false_eq_true, if_false] at h
      have hd7 : d ≠ 7 := by intro e; simp [e] at hbad
      have hd : d < 7 := by have := h8 d (by simp); omega
      cases hr : posOfDigits (P && d == 0) rest with
      | error e => simp [hr] at h
      | ok r =>
        simp only [hr, Except.ok.injEq] at h
        obtain ⟨ihP, ihH⟩ := ih (P && d == 0) r hrest8 hr
        constructor
        · intro hP
          subst hP
          have hd1 : d ≠ 1 := by intro e; simp [e] at hbad
          cases d with
          | zero =>
            obtain ⟨pd, pr⟩ := ihP (by simp)
            exact ⟨pd, by simp [rankP] at h ⊢; rw [← h, pr]⟩
          | succ d =>
            obtain ⟨dg, pr⟩ := ihH (by simp)
            refine ⟨⟨by omega, hd, dg⟩, ?_⟩
            simp only [rankP, pentCountI_eq] at h ⊢
            rw [← h, pr]
            have : ((d + 1 : Nat) == 0) = false := by simp
            simp only [this, Bool.false_eq_true, if_false, if_true]
            push_cast; ring
        · intro hP
          subst hP
          obtain ⟨dg, pr⟩ := ihH (by simp)
          refine ⟨fun x hx => ?_, ?_⟩
          · simp only [List.mem_cons] at hx
            rcases hx with hx | hx
            · rw [hx]; exact hd
            · exact dg x hx
          · simp only [rankH] at h ⊢
            rw [← h, pr]; simp

theorem digits_lt8 (h : BitVec 64) (p m : Nat) : ∀ d ∈ digitsBetween h p m, d < 8 := by
  intro d hd
  simp only [digitsBetween, List.mem_map] at hd
  obtain ⟨r, _, rfl⟩ := hd
  exact getDigit_lt h r

theorem size_of (q : BitVec 64) (c : Nat) (h1 : getRes q ≤ c) (h2 : c ≤ 15) :
    cellToChildrenSize q (c : Int) =
      .ok (if isPentagon q then pentCount (c - getRes q) else 7 ^ (c - getRes q)) := by
  rw [H3.C04.cellToChildrenSize_formula q c (by omega) (by omega)]
  have : ((c : Int) - (getRes q : Int)).toNat = c - getRes q := by omega
  rw [this]
  rfl

/-- **C13: the position is in range** — whenever `cellToChildPos x p` succeeds, 0 ≤ pos < cellToChildrenSize(parent, res x)
(so the library's defensive re-validation can never fire). -/
theorem childPos_lt_size (x : BitVec 64) (p : Nat) (hp : p ≤ getRes x) (pos : Int)
    (h : cellToChildPosS x p = .ok pos) :
    ∃ q n, cellToParent x p = .ok q ∧ cellToChildrenSize q (getRes x) = .ok n ∧ 0 ≤ pos ∧ pos < n := by
  obtain ⟨q, hq, qres, _⟩ := cellToParent_spec x p hp
  have hx15 : getRes x ≤ 15 := by have := getRes_lt x; omega
  unfold cellToChildPosS at h
  simp only [hq, Int.toNat_natCast] at h
  obtain ⟨hP, hH⟩ := posOfDigits_ok _ _ _ (digits_lt8 x p _) h
  refine ⟨q, _, hq, size_of q (getRes x) (by omega) hx15, ?_⟩
  rw [qres]
  by_cases hpent : isPentagon q = true
  · obtain ⟨pd, pr⟩ := hP hpent
    have := rankP_bounds _ pd
    rw [digitsBetween_length] at this
    simp only [hpent, if_true]
    rw [pr]; exact this
  · have hf : isPentagon q = false := by simpa using hpent
    obtain ⟨dg, pr⟩ := hH hf
    have := rankH_bounds _ dg
    rw [digitsBetween_length] at this
    simp only [hf, Bool.false_eq_true, if_false]
    rw [pr]; exact this

/-- **C13: childPosToCell (cellToChildPos x p) (parent x p) (res x) = x** -/
theorem childPosToCell_childPos (x : BitVec 64) (p : Nat) (hp : p ≤ getRes x) (pos : Int)
    (h : cellToChildPosS x p = .ok pos) :
    ∃ q, cellToParent x p = .ok q ∧ childPosToCellS pos q (getRes x) = .ok x := by
  obtain ⟨q, hq, qres, qbc, qmode, qrsv, qhigh, qdig⟩ := cellToParent_spec x p hp
  have hx15 : getRes x ≤ 15 := by have := getRes_lt x; omega
  obtain ⟨q', n, hq', hsize, h0, hn⟩ := childPos_lt_size x p hp pos h
  rw [hq] at hq'
  cases hq'
  refine ⟨q, hq, ?_⟩
  unfold cellToChildPosS at h
  simp only [hq, Int.toNat_natCast] at h
  obtain ⟨hP, hH⟩ := posOfDigits_ok _ _ _ (digits_lt8 x p _) h
  unfold childPosToCellS validateChildPos
  have c1 : (decide ((getRes x : Int) < 0) || decide ((getRes x : Int) > 15)) = false := by simp; omega
  have c2 : ¬ ((getRes x : Int) < (getRes q : Int)) := by rw [qres]; omega
  have c2' : ¬ ((getRes x : Int) < (p : Int)) := by omega
  have c3 : (decide (pos < 0) || decide (pos ≥ n)) = false := by simp; omega
  simp only [c1, Bool.false_eq_true, if_false, c2, c2', hsize, c3, Int.toNat_natCast, qres]
  congr 1
  -- the digit string written back is the one read
  have hds : (if isPentagon q = true then digitsOfPosP (getRes x - p) pos else digitsOfPosH (getRes x - p) pos) =
      digitsBetween x p (getRes x - p) := by
    by_cases hpent : isPentagon q = true
    · obtain ⟨pd, pr⟩ := hP hpent
      simp only [hpent, if_true, digitsOfPosP_eq]
      rw [pr]
      have := unrankP_rankP _ pd
      rwa [digitsBetween_length] at this
    · have hf : isPentagon q = false := by simpa using hpent
      obtain ⟨dg, pr⟩ := hH hf
      simp only [hf, Bool.false_eq_true, if_false, digitsOfPosH_eq]
      rw [pr]
      have := unrankH_rankH _ dg
      rwa [digitsBetween_length] at this
  rw [hds]
  -- writeDigits (setRes q (res x)) p (digits of x) = x, by extensionality
  have hr16 : getRes x < 16 := getRes_lt x
  obtain ⟨s1, s2, s3, s4, s5⟩ := getDigit_setRes q (getRes x) 1 hr16 ⟨by omega, by omega⟩
  have hlen : p + (digitsBetween x p (getRes x - p)).length ≤ 15 := by rw [digitsBetween_length]; omega
  obtain ⟨w1, w2, w3, w4, w5, w6⟩ := writeDigits_outside (digitsBetween x p (getRes x - p)) (setRes q (getRes x)) p hlen
    (digits_lt8 x p _)
  apply Bits.ext
  · rw [w5, s5, qhigh]
  · rw [w3, s3, qmode]
  · rw [w4, s4, qrsv]
  · rw [w1, getRes_setRes q _ hr16]
  · rw [w2, s2, qbc]
  · intro r hr1 hr15
    by_cases hin : p < r ∧ r ≤ getRes x
    · -- a level that was written: read it back
      have hrb := digitsBetween_writeDigits (digitsBetween x p (getRes x - p)) (setRes q (getRes x)) p hlen (digits_lt8 x p _)
      rw [digitsBetween_length] at hrb
      have e1 : getDigit (writeDigits (setRes q (getRes x)) p (digitsBetween x p (getRes x - p))) r =
          (digitsBetween (writeDigits (setRes q (getRes x)) p (digitsBetween x p (getRes x - p))) p (getRes x - p)).getD (r - p - 1) 0 := by
        simp only [digitsBetween, List.getD_eq_getElem?_getD, List.getElem?_map]
        rw [List.getElem?_range' (by omega)]
        simp only [Option.map_some, Option.getD_some]
        congr 1; omega
      rw [e1, hrb]
      simp only [digitsBetween, List.getD_eq_getElem?_getD, List.getElem?_map]
      rw [List.getElem?_range' (by omega)]
      simp only [Option.map_some, Option.getD_some]
      congr 1; omega
    · rw [w6 r hr1 hr15 (by rw [digitsBetween_length]; omega)]
      rw [(getDigit_setRes q (getRes x) r hr16 ⟨hr1, hr15⟩).1, qdig r hr1 hr15]
      simp [hin]

/-- a parent in normal form: the digits between its own resolution and `c` are 7 (every valid cell) -/
def ParentNormal (q : BitVec 64) (c : Nat) : Prop := ∀ r, getRes q < r → r ≤ c → getDigit q r = 7

/-- **C13: cellToChildPos (childPosToCell i p c) (res p) = i** for every 0 ≤ i < cellToChildrenSize(p, c) -/
theorem childPos_childPosToCell (q : BitVec 64) (c : Nat) (h1 : getRes q ≤ c) (h2 : c ≤ 15)
    (hq : ParentNormal q c) (pos n : Int) (hsize : cellToChildrenSize q c = .ok n) (h0 : 0 ≤ pos) (hn : pos < n) :
    ∃ y, childPosToCellS pos q c = .ok y ∧ getRes y = c ∧ cellToParent y (getRes q) = .ok q ∧
      cellToChildPosS y (getRes q) = .ok pos := by
  have hsz := size_of q c h1 h2
  rw [hsize] at hsz
  simp only [Except.ok.injEq] at hsz
  unfold childPosToCellS validateChildPos
  have c1 : (decide ((c : Int) < 0) || decide ((c : Int) > 15)) = false := by simp; omega
  have c2 : ¬ ((c : Int) < (getRes q : Int)) := by omega
  have c3 : (decide (pos < 0) || decide (pos ≥ n)) = false := by simp; omega
  simp only [c1, Bool.false_eq_true, if_false, c2, hsize, c3, Int.toNat_natCast]
  set m := c - getRes q with hm
  set ds := (if isPentagon q = true then digitsOfPosP m pos else digitsOfPosH m pos) with hds
  -- properties of the unranked digit string
  have hprops : ds.length = m ∧ (∀ d ∈ ds, d < 7) ∧
      posOfDigits (isPentagon q) ds = .ok pos := by
    by_cases hpent : isPentagon q = true
    · simp only [hpent, if_true] at hsz hds
      rw [hsz] at hn
      obtain ⟨l, pd, rk⟩ := rankP_unrankP m pos h0 hn
      rw [← digitsOfPosP_eq] at l pd rk
      rw [← hds] at l pd rk
      refine ⟨l, ?_, by rw [hpent, posOfDigits_pent ds pd, rk]⟩
      -- PentDigits implies digits < 7
      have : ∀ l : List Nat, PentDigits l → ∀ d ∈ l, d < 7 := by
        intro l
        induction l with
        | nil => intro _ d hd; simp at hd
        | cons a t ih =>
          intro hp d hd
          cases a with
          | zero =>
            simp only [List.mem_cons] at hd
            rcases hd with hd | hd
            · omega
            · exact ih hp d hd
          | succ a =>
            obtain ⟨_, p2, p3⟩ := hp
            simp only [List.mem_cons] at hd
            rcases hd with hd | hd
            · omega
            · exact p3 d hd
      exact this ds pd
    · have hf : isPentagon q = false := by simpa using hpent
      simp only [hf, Bool.false_eq_true, if_false] at hsz hds
      rw [hsz] at hn
      obtain ⟨l, dg, rk⟩ := rankH_unrankH m pos h0 hn
      rw [← digitsOfPosH_eq] at l dg rk
      rw [← hds] at l dg rk
      exact ⟨l, dg, by rw [hf, posOfDigits_hex ds dg, rk]⟩
  obtain ⟨hl, hd7, hpos⟩ := hprops
  have hd8 : ∀ d ∈ ds, d < 8 := fun d hd => by have := hd7 d hd; omega
  have hc16 : c < 16 := by omega
  have hlen : getRes q + ds.length ≤ 15 := by rw [hl]; omega
  obtain ⟨w1, w2, w3, w4, w5, w6⟩ := writeDigits_outside ds (setRes q c) (getRes q) hlen hd8
  obtain ⟨s1, s2, s3, s4, s5⟩ := getDigit_setRes q c 1 hc16 ⟨by omega, by omega⟩
  have yres : getRes (writeDigits (setRes q c) (getRes q) ds) = c := by rw [w1, getRes_setRes q c hc16]
  refine ⟨_, rfl, yres, ?_, ?_⟩
  · -- the parent of the result is q
    obtain ⟨q2, e, r1, r2, r3, r4, r5, r6⟩ := cellToParent_spec (writeDigits (setRes q c) (getRes q) ds) (getRes q)
      (by rw [yres]; exact h1)
    rw [e]
    congr 1
    apply Bits.ext
    · rw [r5, w5, s5]
    · rw [r3, w3, s3]
    · rw [r4, w4, s4]
    · rw [r1]
    · rw [r2, w2, s2]
    · intro r hr1 hr15
      rw [r6 r hr1 hr15, yres]
      by_cases hin : getRes q < r ∧ r ≤ c
      · simp only [hin, and_self, if_true]
        exact (hq r hin.1 hin.2).symm
      · simp only [hin, if_false]
        rw [w6 r hr1 hr15 (by rw [hl]; omega), (getDigit_setRes q c r hc16 ⟨hr1, hr15⟩).1]
  · -- and its position is pos
    obtain ⟨q2, e, r1, r2, r3, r4, r5, r6⟩ := cellToParent_spec (writeDigits (setRes q c) (getRes q) ds) (getRes q)
      (by rw [yres]; exact h1)
    have hq2 : q2 = q := by
      apply Bits.ext
      · rw [r5, w5, s5]
      · rw [r3, w3, s3]
      · rw [r4, w4, s4]
      · rw [r1]
      · rw [r2, w2, s2]
      · intro r hr1 hr15
        rw [r6 r hr1 hr15, yres]
        by_cases hin : getRes q < r ∧ r ≤ c
        · simp only [hin, and_self, if_true]
          exact (hq r hin.1 hin.2).symm
        · simp only [hin, if_false]
          rw [w6 r hr1 hr15 (by rw [hl]; omega), (getDigit_setRes q c r hc16 ⟨hr1, hr15⟩).1]
    unfold cellToChildPosS
    rw [e, hq2]
    simp only [Int.toNat_natCast, yres]
    have hrb := digitsBetween_writeDigits ds (setRes q c) (getRes q) hlen hd8
    rw [hl] at hrb
    rw [← hm, hrb]
    exact hpos

-- non-vacuity: a res-0 pentagon, depth 2
example : cellToChildPosS 0x820837fffffffff#64 0 = .ok 5 := by decide +kernel
example : childPosToCellS 5 0x8009fffffffffff#64 2 = .ok 0x820837fffffffff#64 := by decide +kernel
example : ParentNormal 0x8009fffffffffff#64 15 := by
  intro r h1 h2
  have : ∀ r : Fin 16, 0 < r.val → getDigit 0x8009fffffffffff#64 r.val = 7 := by decide +kernel
  have hr : getRes 0x8009fffffffffff#64 = 0 := by decide +kernel
  exact this ⟨r, by omega⟩ (by rw [hr] at h1; exact h1)

end H3.C13
