/-
C09 — gridDistance inside a hexagon base cell, at every resolution: it is the hexagonal norm of the
coordinate difference (hence symmetric), which is the graph distance of the ideal lattice
(Lemmas/HexNorm.lean), and it never exceeds the number of steps of any walk between the two cells that
stays inside the base cell.
-/
import H3Proofs.Lemmas.HexNorm
import H3Proofs.Props.C09Hex

namespace H3.C09D
open H3 H3.DP H3.Bits H3.C05N H3.C09H H3.L6

/-- a cell of resolution r ≥ 1 in hexagon base cell bc with proper digits -/
structure HexCell (bc r : Nat) (h : BitVec 64) : Prop where
  bc : getBaseCell h = bc
  res : getRes h = r
  dig : Digits (revDigits h r)

/-- axial coordinate of a cell relative to its base-cell centre -/
def coord (h : BitVec 64) : Int × Int := ax (h3ToIjkFrom h ⟨0, 0, 0⟩)

/-- `h'` is the neighbour of `h` in some direction 1..6 and the step does not leave the base cell -/
def InteriorStep (h h' : BitVec 64) : Prop :=
  ∃ dir, 1 ≤ dir ∧ dir < 7 ∧ (passR (revDigits h (getRes h)) dir).2 = 0 ∧ h3NeighborRotations h dir 0 = .ok (h', 0)

theorem hexNormI_eq (v : Int × Int) : hexNormI v = hexNorm v := rfl

/-- **C09: inside a hexagon base cell gridDistance is the hexagonal norm of the coordinate difference** -/
theorem gridDistance_lattice (bc r : Nat) (hb : bc < 122) (hhex : isBaseCellPentagon bc = false)
    (a b : BitVec 64) (ha : HexCell bc r a) (hb' : HexCell bc r b) :
    gridDistance a b = .ok (hexNorm (L6.vsub (coord b) (coord a))) := by
  have la := cellToLocalIjk_same_hex a a rfl rfl (by rw [ha.bc]; exact hb) (by rw [ha.bc]; exact hhex)
  have lb := cellToLocalIjk_same_hex a b (by rw [ha.res, hb'.res]) (by rw [ha.bc, hb'.bc]) (by rw [hb'.bc]; exact hb)
    (by rw [hb'.bc]; exact hhex)
  unfold gridDistance
  simp only [la, lb, bind, Except.bind, pure, Except.pure]
  congr 1
  rw [ijkDistance_eq, hexNormI_eq]
  unfold coord L6.vsub hexNorm
  simp only []
  omega

/-- symmetric (same hexagon base cell) -/
theorem gridDistance_symm (bc r : Nat) (hb : bc < 122) (hhex : isBaseCellPentagon bc = false)
    (a b : BitVec 64) (ha : HexCell bc r a) (hb' : HexCell bc r b) : gridDistance a b = gridDistance b a := by
  rw [gridDistance_lattice bc r hb hhex a b ha hb', gridDistance_lattice bc r hb hhex b a hb' ha]
  congr 1
  unfold L6.vsub hexNorm
  simp only []
  omega

/-- an interior step stays in the base cell and moves the coordinate by a unit step -/
theorem interiorStep_coord (bc r : Nat) (hb : bc < 122) (hhex : isBaseCellPentagon bc = false) (hr : 1 ≤ r)
    (h h' : BitVec 64) (hc : HexCell bc r h) (hs : InteriorStep h h') :
    HexCell bc r h' ∧ ∃ u ∈ L6.steps, coord h' = vadd (coord h) u := by
  obtain ⟨dir, d1, d7, hstay, hn⟩ := hs
  obtain ⟨h'', e1, e2, e3, _, e5, e6⟩ := neighbor_is_translation h dir (by rw [hc.bc]; exact hb)
    (by rw [hc.bc]; exact hhex) (by rw [hc.res]; exact hr) (by rw [hc.res]; exact hc.dig) d7 hstay
  rw [hn] at e1
  simp only [Except.ok.injEq, Prod.mk.injEq, and_true] at e1
  subst e1
  refine ⟨⟨by rw [e3, hc.bc], by rw [e2, hc.res], by rw [← hc.res, ← e2]; exact e5⟩, uax dir, ?_, e6⟩
  rw [steps_eq_uax]
  simp only [List.mem_map, List.mem_range']
  exact ⟨dir, ⟨dir - 1, by omega, by omega⟩, rfl⟩

/-- a chain of interior steps -/
def InteriorWalk : List (BitVec 64) → Prop
  | [] => True
  | [_] => True
  | a :: b :: t => InteriorStep a b ∧ InteriorWalk (b :: t)

/-- **C09: gridDistance is a lower bound for the length of every walk that stays inside the base
cell** (so a successful gridDistance never exceeds the true number of steps along such walks, and
equals the minimum over the ideal lattice, `walk_exists`) -/
theorem gridDistance_le_walk (bc r : Nat) (hb : bc < 122) (hhex : isBaseCellPentagon bc = false) (hr : 1 ≤ r) :
    ∀ (w : List (BitVec 64)) (a b : BitVec 64), HexCell bc r a → InteriorWalk (a :: w) →
      (a :: w).getLast? = some b →
      HexCell bc r b ∧ ∃ n : Int, gridDistance a b = .ok n ∧ n ≤ w.length := by
  intro w
  induction w with
  | nil =>
    intro a b ha _ hl
    simp at hl; subst hl
    refine ⟨ha, 0, ?_, by simp⟩
    rw [gridDistance_lattice bc r hb hhex a a ha ha]
    congr 1
    unfold L6.vsub hexNorm; simp
  | cons c t ih =>
    intro a b ha hw hl
    obtain ⟨hs, hw'⟩ := hw
    obtain ⟨hc, u, hu, hcu⟩ := interiorStep_coord bc r hb hhex hr a c ha hs
    have hl' : (c :: t).getLast? = some b := by rw [List.getLast?_cons_cons] at hl; exact hl
    obtain ⟨hbb, n, hn, hle⟩ := ih c b hc hw' hl'
    refine ⟨hbb, hexNorm (L6.vsub (coord b) (coord a)), gridDistance_lattice bc r hb hhex a b ha hbb, ?_⟩
    rw [gridDistance_lattice bc r hb hhex c b hc hbb] at hn
    have hn' : hexNorm (L6.vsub (coord b) (coord c)) = n := by
      simp only [Except.ok.injEq] at hn; exact hn
    have := (hexNorm_step (L6.vsub (coord b) (coord c)) u hu).1
    have e : vadd (L6.vsub (coord b) (coord c)) u = L6.vsub (coord b) (coord a) := by
      rw [hcu]; unfold vadd L6.vsub; simp only [Prod.mk.injEq]; constructor <;> omega
    rw [e] at this
    simp only [List.length_cons]
    omega

end H3.C09D
