/-
Translation validation of the small public getters: `getResolution`, `getBaseCellNumber`, `isResClassIII`,
`pentagonCount`, `res0CellCount` — translated from the C text on every run and proved to be the model's accessors.
-/
import H3Proofs.Lemmas.Bits
import H3Model.Index
import Std.Tactic.BVDecide

namespace H3.C01A
open H3 H3.Bits

theorem getResolution_eq_model (h : BitVec 64) : (Gen.Bits.getResolution h).toNat = getRes h := rfl
theorem getBaseCellNumber_eq_model (h : BitVec 64) : (Gen.Bits.getBaseCellNumber h).toNat = getBaseCell h := rfl

theorem srem2_tbl : ∀ r : Fin 16, BitVec.srem (BitVec.ofNat 32 r.val) 2#32 = (if H3.isResClassIII r.val then 1#32 else 0#32) := by
  decide

theorem isResClassIII_eq_model (h : BitVec 64) :
    Gen.Bits.isResClassIII h = (if H3.isResClassIII (getRes h) then 1#32 else 0#32) := by
  have e : Gen.Bits.isResClassIII h = BitVec.srem (Gen.Bits.m_get_resolution h) 2#32 := rfl
  have T := srem2_tbl ⟨getRes h, getRes_lt h⟩
  dsimp only at T
  unfold getRes at T ⊢
  rw [BitVec.ofNat_toNat, BitVec.setWidth_eq] at T
  rw [e, T]

theorem getters_defined_all (h : BitVec 64) :
    Gen.Bits.getResolution_defined h = true ∧ Gen.Bits.getBaseCellNumber_defined h = true ∧
    Gen.Bits.isResClassIII_defined h = true ∧ Gen.Bits.pentagonCount_defined = true ∧ Gen.Bits.res0CellCount_defined = true := by
  refine ⟨rfl, rfl, ?_, rfl, rfl⟩
  unfold Gen.Bits.isResClassIII_defined
  bv_decide

theorem counts : Gen.Bits.pentagonCount = 12#32 ∧ Gen.Bits.res0CellCount = 122#32 ∧ H3.getRes0Cells.length = 122 := by
  refine ⟨rfl, rfl, by decide⟩

end H3.C01A
