/-
Translation validation of the hierarchy functions of h3Index.c: `cellToParent`, `cellToCenterChild`,
`_hasChildAtRes`, `isPentagon` (with `_isBaseCellPentagon` and the `isPentagon` column of `baseCellData`, read
from the initialiser in baseCells.c), `makeDirectChild`.  The C text is translated by tools/c2lean.py on every
run (loops unrolled sixteen times, out parameters as extra results); here the translations are proved

* never to run out of unrollings, shift by an undefined amount, overflow a signed integer or read a table out of
  range (`*_defined_all`), and
* to compute exactly what the model's functions compute, error codes and "output untouched on error" included
  (`*_eq_model`),

for all 2^64 index values and all 2^32 `int` arguments.
-/
import H3Proofs.Lemmas.Bits
import H3Proofs.Props.C01Lnz
import H3Model.Index
import Std.Tactic.BVDecide

namespace H3.C04G
open H3 H3.Bits

/-! ### isPentagon -/

theorem isBaseCellPentagon_tbl : ∀ b : Fin 128,
    Gen.Bits.isBaseCellPentagon (BitVec.ofNat 32 b.val) = (if H3.isBaseCellPentagon b.val then 1#32 else 0#32) := by
  decide +kernel

theorem isBaseCellPentagon_eq (b : BitVec 32) (hb : b.toNat < 128) :
    Gen.Bits.isBaseCellPentagon b = (if H3.isBaseCellPentagon b.toNat then 1#32 else 0#32) := by
  have := isBaseCellPentagon_tbl ⟨b.toNat, hb⟩
  simpa using this

theorem getBaseCell_lt (h : BitVec 64) : (Gen.Bits.m_get_base_cell h).toNat < 128 := by
  have : BitVec.ult (Gen.Bits.m_get_base_cell h) 128#32 = true := by
    unfold Gen.Bits.m_get_base_cell
    bv_decide
  simpa [BitVec.ult] using this

theorem go_lt (h : BitVec 64) : ∀ (fuel r : Nat), leadingNonZeroDigit.go h r fuel < 8 := by
  intro fuel
  induction fuel with
  | zero => intro r; simp [leadingNonZeroDigit.go]
  | succ f ih =>
    intro r
    unfold leadingNonZeroDigit.go
    split
    · exact getDigit_lt h r
    · exact ih (r + 1)

theorem leadingNonZeroDigit_lt (h : BitVec 64) : leadingNonZeroDigit h < 8 := go_lt h _ _

/-- **the C function `isPentagon` is the model's `isPentagon`** -/
theorem isPentagon_eq_model (h : BitVec 64) :
    Gen.Bits.isPentagon h = (if H3.isPentagon h then 1#32 else 0#32) := by
  have e : Gen.Bits.isPentagon h =
      (if ((Gen.Bits.isBaseCellPentagon (Gen.Bits.m_get_base_cell h)) != 0#32) &&
          ((if (Gen.Bits.h3LeadingNonZeroDigit h) == 0#32 then 1#32 else 0#32) != 0#32) then 1#32 else 0#32) := rfl
  rw [e, isBaseCellPentagon_eq _ (getBaseCell_lt h), C01L.h3LeadingNonZeroDigit_eq_model]
  unfold H3.isPentagon getBaseCell
  have hl : leadingNonZeroDigit h < 8 := leadingNonZeroDigit_lt h
  have e2 : (BitVec.ofNat 32 (leadingNonZeroDigit h) == 0#32) = (leadingNonZeroDigit h == 0) := by
    by_cases c : leadingNonZeroDigit h = 0
    · rw [c]; rfl
    · have : BitVec.ofNat 32 (leadingNonZeroDigit h) ≠ 0#32 := by
        intro hh
        have := congrArg BitVec.toNat hh
        simp [BitVec.toNat_ofNat] at this
        omega
      have a : (BitVec.ofNat 32 (leadingNonZeroDigit h) == 0#32) = false := by simpa using this
      have b : (leadingNonZeroDigit h == 0) = false := by simpa using c
      rw [a, b]
  rw [e2]
  cases H3.isBaseCellPentagon (Gen.Bits.m_get_base_cell h).toNat <;> cases (leadingNonZeroDigit h == 0) <;> decide

theorem isBaseCellPentagon_defined_all (b : BitVec 32) : Gen.Bits.isBaseCellPentagon_defined b = true := by
  unfold Gen.Bits.isBaseCellPentagon_defined
  bv_decide

theorem isPentagon_defined_all (h : BitVec 64) : Gen.Bits.isPentagon_defined h = true := by
  unfold Gen.Bits.isPentagon_defined
  simp only [isBaseCellPentagon_defined_all, C01L.h3LeadingNonZeroDigit_defined_all]
  simp

/-! ### cellToParent -/

/-- the loop of `cellToParent` in the shape the translator unrolls it: at most `n` further condition checks -/
def parFrom (cr : BitVec 32) : Nat → BitVec 32 → BitVec 64 → BitVec 64
  | 0, _, _ => 0#64
  | n + 1, i, x =>
    if ((if BitVec.sle i cr then 1#32 else 0#32) != 0#32) then
      parFrom cr n (i + 1#32) (Gen.Bits.m_set_digit x i 7#32)
    else x

theorem cellToParent_out_shape (h : BitVec 64) (pr : BitVec 32) (o : BitVec 64) :
    Gen.Bits.cellToParent_out_out h pr o =
      (let cr := Gen.Bits.m_get_resolution h
       if BitVec.slt pr 0#32 || BitVec.slt 15#32 pr then o
       else if BitVec.slt cr pr then o
       else if pr == cr then h
       else parFrom cr 16 (pr + 1#32) (Gen.Bits.m_set_resolution h pr)) := by
  unfold Gen.Bits.cellToParent_out_out
  unfold parFrom parFrom parFrom parFrom parFrom parFrom parFrom parFrom parFrom parFrom parFrom parFrom parFrom parFrom parFrom parFrom parFrom
  unfold Gen.Bits.m_get_resolution Gen.Bits.m_set_resolution Gen.Bits.m_set_digit
  bv_decide

theorem cellToParent_code (h : BitVec 64) (pr : BitVec 32) (o : BitVec 64) :
    Gen.Bits.cellToParent h pr o =
      (let cr := Gen.Bits.m_get_resolution h
       if BitVec.slt pr 0#32 || BitVec.slt 15#32 pr then 4#32
       else if BitVec.slt cr pr then 12#32
       else 0#32) := by
  unfold Gen.Bits.cellToParent Gen.Bits.m_get_resolution
  bv_decide

theorem cellToParent_defined_all (h : BitVec 64) (pr : BitVec 32) (o : BitVec 64) :
    Gen.Bits.cellToParent_defined h pr o = true := by
  unfold Gen.Bits.cellToParent_defined
  bv_decide

theorem sle_ofNat (i : Nat) (cr : BitVec 32) (hi : i < 2 ^ 31) (hc : cr.toNat < 2 ^ 31) :
    BitVec.sle (BitVec.ofNat 32 i) cr = decide (i ≤ cr.toNat) := by
  unfold BitVec.sle
  have a : (BitVec.ofNat 32 i).toInt = (i : Int) := by
    rw [BitVec.toInt_eq_toNat_of_lt (by simp [BitVec.toNat_ofNat]; omega)]
    simp [BitVec.toNat_ofNat]; omega
  have b : cr.toInt = (cr.toNat : Int) := BitVec.toInt_eq_toNat_of_lt (by omega)
  rw [a, b]
  simp

theorem parFrom_fold (cr : BitVec 32) (hcr : cr.toNat < 16) : ∀ (n i : Nat) (x : BitVec 64), i ≤ cr.toNat + 1 →
    cr.toNat + 1 - i < n →
    parFrom cr n (BitVec.ofNat 32 i) x = (List.range' i (cr.toNat + 1 - i)).foldl (fun x i => setDigit x i 7) x := by
  intro n
  induction n with
  | zero => intro i x _ h2; omega
  | succ n ih =>
    intro i x h1 h2
    unfold parFrom
    rw [sle_ofNat i cr (by omega) (by omega)]
    by_cases c : i ≤ cr.toNat
    · simp only [c, decide_true, if_true]
      have e : cr.toNat + 1 - i = (cr.toNat + 1 - (i + 1)) + 1 := by omega
      rw [e, List.range'_succ, List.foldl_cons]
      have e2 : BitVec.ofNat 32 i + 1#32 = BitVec.ofNat 32 (i + 1) := by
        rw [BitVec.ofNat_add]
      have e3 : ((1#32 != 0#32) = true) := by decide
      simp only [e3, if_true, e2]
      exact ih (i + 1) _ (by omega) (by omega)
    · simp only [c, decide_false]
      have e : cr.toNat + 1 - i = 0 := by omega
      rw [e]
      rfl

/-- **the C function `cellToParent` is the model's `cellToParent`**: same error code, same parent, and `*out` is
left untouched exactly when an error is returned -/
theorem cellToParent_eq_model (h : BitVec 64) (pr : BitVec 32) (o : BitVec 64) :
    match H3.cellToParent h pr.toInt with
    | .ok p => Gen.Bits.cellToParent h pr o = 0#32 ∧ Gen.Bits.cellToParent_out_out h pr o = p
    | .error e => Gen.Bits.cellToParent h pr o = BitVec.ofNat 32 e.code ∧ Gen.Bits.cellToParent_out_out h pr o = o := by
  rw [cellToParent_code, cellToParent_out_shape]
  have hr := getRes_lt h
  unfold H3.cellToParent
  unfold getRes at hr ⊢
  have b : (Gen.Bits.m_get_resolution h).toInt = ((Gen.Bits.m_get_resolution h).toNat : Int) :=
    BitVec.toInt_eq_toNat_of_lt (by omega)
  simp only [BitVec.slt, b, show (0#32 : BitVec 32).toInt = 0 from rfl, show (15#32 : BitVec 32).toInt = 15 from rfl]
  by_cases c1 : pr.toInt < 0
  · simp [c1, H3Error.code]
  by_cases c2 : 15 < pr.toInt
  · simp [c2, H3Error.code]
  by_cases c3 : ((Gen.Bits.m_get_resolution h).toNat : Int) < pr.toInt
  · simp [c1, c2, c3, H3Error.code]
  have hp : pr.toInt = (pr.toNat : Int) := by
    have := BitVec.toInt_eq_toNat_cond pr
    split at this <;> omega
  by_cases c4 : pr = Gen.Bits.m_get_resolution h
  · subst c4
    have x1 : ¬ (((Gen.Bits.m_get_resolution h).toNat : Int) < 0) := by omega
    have x2 : ¬ (15 < ((Gen.Bits.m_get_resolution h).toNat : Int)) := by omega
    simp [b, x1, x2]
  · have c4' : ¬ pr.toInt = ((Gen.Bits.m_get_resolution h).toNat : Int) := by
      intro hh
      apply c4
      apply BitVec.eq_of_toNat_eq
      omega
    have c5 : ¬ (pr.toInt > ((Gen.Bits.m_get_resolution h).toNat : Int)) := by omega
    simp only [c1, c2, c3, c4, c4', decide_false, Bool.or_false, Bool.false_eq_true, if_false, beq_iff_eq, gt_iff_lt]
    refine ⟨trivial, ?_⟩
    have e : pr + 1#32 = BitVec.ofNat 32 (pr.toNat + 1) := by
      rw [BitVec.ofNat_add]; simp
    rw [e, parFrom_fold _ hr 16 (pr.toNat + 1) _ (by omega) (by omega)]
    have e2 : pr.toInt.toNat = pr.toNat := by omega
    rw [e2]
    have e3 : Gen.Bits.m_set_resolution h pr = setRes h pr.toNat := by
      unfold setRes; simp
    rw [e3]
    have e4 : (Gen.Bits.m_get_resolution h).toNat + 1 - (pr.toNat + 1) = (Gen.Bits.m_get_resolution h).toNat - pr.toNat := by omega
    rw [e4]

-- non-vacuity: a success and both error kinds
example : H3.cellToParent 0x8928308280fffff#64 (5#32 : BitVec 32).toInt = .ok 0x85283083fffffff#64 := by decide
example : H3.cellToParent 0x8928308280fffff#64 (12#32 : BitVec 32).toInt = .error .resMismatch := by decide
example : H3.cellToParent 0x8928308280fffff#64 (4294967295#32 : BitVec 32).toInt = .error .resDomain := by decide

/-! ### _hasChildAtRes, cellToCenterChild, makeDirectChild -/

theorem toInt_small (x : BitVec 32) (hx : x.toNat < 16) : x.toInt = (x.toNat : Int) :=
  BitVec.toInt_eq_toNat_of_lt (by omega)

theorem hasChildAtRes_eq_model (h : BitVec 64) (cr : BitVec 32) :
    Gen.Bits.hasChildAtRes h cr = (if H3.hasChildAtRes h cr.toInt then 1#1 else 0#1) := by
  have e : Gen.Bits.hasChildAtRes h cr =
      (if BitVec.slt cr (Gen.Bits.m_get_resolution h) || BitVec.slt 15#32 cr then 0#1 else 1#1) := by
    unfold Gen.Bits.hasChildAtRes Gen.Bits.m_get_resolution
    bv_decide
  rw [e]
  have hr := getRes_lt h
  unfold H3.hasChildAtRes
  unfold getRes at hr ⊢
  simp only [BitVec.slt, toInt_small _ hr, show (15#32 : BitVec 32).toInt = 15 from rfl]
  by_cases c1 : cr.toInt < ((Gen.Bits.m_get_resolution h).toNat : Int) <;>
    by_cases c2 : 15 < cr.toInt <;> simp [c1, c2]

theorem hasChildAtRes_defined_all (h : BitVec 64) (cr : BitVec 32) : Gen.Bits.hasChildAtRes_defined h cr = true := by
  unfold Gen.Bits.hasChildAtRes_defined
  bv_decide

theorem zeroIndexDigits_defined_of (h : BitVec 64) (s e : BitVec 32)
    (hs : BitVec.sle 1#32 s = true) (he : BitVec.sle e 15#32 = true) :
    Gen.Bits.zeroIndexDigits_defined h s e = true := by
  unfold Gen.Bits.zeroIndexDigits_defined
  bv_decide

theorem cellToCenterChild_defined_all (h : BitVec 64) (cr : BitVec 32) (o : BitVec 64) :
    Gen.Bits.cellToCenterChild_defined h cr o = true := by
  unfold Gen.Bits.cellToCenterChild_defined
  simp only [hasChildAtRes_defined_all]
  have e : Gen.Bits.hasChildAtRes h cr =
      (if BitVec.slt cr (Gen.Bits.m_get_resolution h) || BitVec.slt 15#32 cr then 0#1 else 1#1) := by
    unfold Gen.Bits.hasChildAtRes Gen.Bits.m_get_resolution
    bv_decide
  by_cases c : (BitVec.slt cr (Gen.Bits.m_get_resolution h) || BitVec.slt 15#32 cr) = true
  · rw [e]; simp only [c, if_true]
    have a : (((if (0#1 == 0#1) = true then 1#32 else 0#32) != 0#32) = true) := by decide
    simp only [a, if_true]; rfl
  · rw [e]; simp only [c, if_false, Bool.false_eq_true]
    have a : ¬ (((if (1#1 == 0#1) = true then 1#32 else 0#32) != 0#32) = true) := by decide
    simp only [a, if_false]
    have hz : Gen.Bits.zeroIndexDigits_defined h
        ((BitVec.setWidth 32 ((h &&& (15#64 <<< 52#32)) >>> 52#32)) + 1#32) cr = true := by
      apply zeroIndexDigits_defined_of
      · bv_decide
      · unfold Gen.Bits.m_get_resolution at c
        bv_decide
    simp only [hz]
    bv_decide

/-- **the C function `cellToCenterChild` is the model's `cellToCenterChild`** -/
theorem cellToCenterChild_eq_model (h : BitVec 64) (cr : BitVec 32) (o : BitVec 64) :
    match H3.cellToCenterChild h cr.toInt with
    | .ok c => Gen.Bits.cellToCenterChild h cr o = 0#32 ∧ Gen.Bits.cellToCenterChild_out_child h cr o = c
    | .error e => Gen.Bits.cellToCenterChild h cr o = BitVec.ofNat 32 e.code ∧
        Gen.Bits.cellToCenterChild_out_child h cr o = o := by
  have e1 : Gen.Bits.cellToCenterChild h cr o = (if Gen.Bits.hasChildAtRes h cr == 0#1 then 4#32 else 0#32) := by
    unfold Gen.Bits.cellToCenterChild
    bv_decide
  have e2 : Gen.Bits.cellToCenterChild_out_child h cr o = (if Gen.Bits.hasChildAtRes h cr == 0#1 then o else
      Gen.Bits.m_set_resolution (Gen.Bits.zeroIndexDigits h (Gen.Bits.m_get_resolution h + 1#32) cr) cr) := by
    unfold Gen.Bits.cellToCenterChild_out_child Gen.Bits.m_set_resolution Gen.Bits.m_get_resolution
    bv_decide
  rw [e1, e2, hasChildAtRes_eq_model]
  unfold H3.cellToCenterChild
  by_cases c : H3.hasChildAtRes h cr.toInt = true
  · have hc := c
    unfold H3.hasChildAtRes at hc
    simp only [Bool.not_eq_true', Bool.or_eq_false_iff, decide_eq_false_iff_not] at hc
    have hr := getRes_lt h
    have hnn : 0 ≤ cr.toInt := by omega
    have hcr : cr.toInt = (cr.toNat : Int) := by
      have := BitVec.toInt_eq_toNat_cond cr
      split at this <;> omega
    simp only [c, Bool.not_true, Bool.false_eq_true, if_false, if_true]
    refine ⟨by decide, ?_⟩
    have a : (1#1 == 0#1) = false := by decide
    simp only [a, Bool.false_eq_true, if_false]
    unfold H3.zeroIndexDigits setRes
    have b1 : BitVec.ofInt 32 ((getRes h : Int) + 1) = Gen.Bits.m_get_resolution h + 1#32 := by
      unfold getRes
      apply BitVec.eq_of_toInt_eq
      rw [BitVec.toInt_ofInt]
      have : ((Gen.Bits.m_get_resolution h + 1#32).toInt) = ((Gen.Bits.m_get_resolution h).toNat : Int) + 1 := by
        rw [BitVec.toInt_add, toInt_small _ (by unfold getRes at hr; exact hr)]
        unfold getRes at hr
        simp [Int.bmod]
        omega
      rw [this]
      unfold getRes at hr
      simp [Int.bmod]
      omega
    have b2 : BitVec.ofInt 32 cr.toInt = cr := BitVec.ofInt_toInt
    have b3 : BitVec.ofNat 32 cr.toInt.toNat = cr := by
      rw [hcr]; simp
    rw [b1, b2, b3]
  · simp only [c, Bool.not_false, if_true, Bool.false_eq_true, if_false]
    have a : (0#1 == 0#1) = true := by decide
    simp [a, H3Error.code]

theorem makeDirectChild_defined_of (h : BitVec 64) (c : BitVec 32) (hr : getRes h < 15) :
    Gen.Bits.makeDirectChild_defined h c = true := by
  have : BitVec.ult (Gen.Bits.m_get_resolution h) 15#32 = true := by
    unfold getRes at hr
    simp [BitVec.ult]; omega
  unfold Gen.Bits.m_get_resolution at this
  unfold Gen.Bits.makeDirectChild_defined
  bv_decide

/-- the guard is needed: at resolution 15 the C function shifts by a negative amount (its only caller,
`getIcosahedronFaces`, calls it on Class II cells, whose resolution is even) -/
theorem makeDirectChild_undefined_at_15 : Gen.Bits.makeDirectChild_defined 0x8f0800000000000#64 0#32 = false := by decide

theorem makeDirectChild_eq_model (h : BitVec 64) (c : Nat) :
    Gen.Bits.makeDirectChild h (BitVec.ofNat 32 c) = H3.makeDirectChild h c := by
  have e : Gen.Bits.makeDirectChild h (BitVec.ofNat 32 c) =
      Gen.Bits.m_set_digit (Gen.Bits.m_set_resolution h (Gen.Bits.m_get_resolution h + 1#32))
        (Gen.Bits.m_get_resolution h + 1#32) (BitVec.ofNat 32 c) := rfl
  rw [e]
  unfold H3.makeDirectChild setDigit setRes getRes
  have : BitVec.ofNat 32 ((Gen.Bits.m_get_resolution h).toNat + 1) = Gen.Bits.m_get_resolution h + 1#32 := by
    rw [BitVec.ofNat_add]; simp
  dsimp only
  rw [this]

/-! ### _ipow, cellToChildrenSize -/

/-- `_ipow(7, n)` for the sixteen exponents the library uses: the translation (six unrollings) is defined, and
equals the model's `ipow` -/
theorem ipow7_tbl : ∀ n : Fin 16,
    Gen.Bits.ipow_defined 7#64 (BitVec.ofNat 64 n.val) = true ∧
    Gen.Bits.ipow 7#64 (BitVec.ofNat 64 n.val) = BitVec.ofInt 64 (H3.ipow 7 n.val) ∧
    (1#64 + BitVec.sdiv (5#64 * (Gen.Bits.ipow 7#64 (BitVec.ofNat 64 n.val) - 1#64)) 6#64) =
      BitVec.ofInt 64 (1 + 5 * (H3.ipow 7 n.val - 1) / 6) ∧
    -- no signed overflow in `1 + 5 * (x - 1) / 6`
    (BitVec.signExtend 128 (Gen.Bits.ipow 7#64 (BitVec.ofNat 64 n.val)) - BitVec.signExtend 128 1#64 ==
      BitVec.signExtend 128 (Gen.Bits.ipow 7#64 (BitVec.ofNat 64 n.val) - 1#64)) = true ∧
    (BitVec.signExtend 128 5#64 * BitVec.signExtend 128 (Gen.Bits.ipow 7#64 (BitVec.ofNat 64 n.val) - 1#64) ==
      BitVec.signExtend 128 (5#64 * (Gen.Bits.ipow 7#64 (BitVec.ofNat 64 n.val) - 1#64))) = true ∧
    (BitVec.signExtend 128 1#64 + BitVec.signExtend 128 (BitVec.sdiv (5#64 * (Gen.Bits.ipow 7#64 (BitVec.ofNat 64 n.val) - 1#64)) 6#64) ==
      BitVec.signExtend 128 (1#64 + BitVec.sdiv (5#64 * (Gen.Bits.ipow 7#64 (BitVec.ofNat 64 n.val) - 1#64)) 6#64)) = true := by
  decide +kernel

theorem signExtend_small (n : BitVec 32) (hn : n.toNat < 16) : BitVec.signExtend 64 n = BitVec.ofNat 64 n.toNat := by
  have h1 : BitVec.ult n 16#32 = true := by simp [BitVec.ult]; omega
  have h2 : BitVec.signExtend 64 n = BitVec.setWidth 64 n := by bv_decide
  rw [h2, BitVec.ofNat_toNat]

/-- **the C function `cellToChildrenSize` is the model's `cellToChildrenSize`** -/
theorem cellToChildrenSize_eq_model (h : BitVec 64) (cr : BitVec 32) (o : BitVec 64) :
    match H3.cellToChildrenSize h cr.toInt with
    | .ok v => Gen.Bits.cellToChildrenSize h cr o = 0#32 ∧ Gen.Bits.cellToChildrenSize_out_out h cr o = BitVec.ofInt 64 v
    | .error e => Gen.Bits.cellToChildrenSize h cr o = BitVec.ofNat 32 e.code ∧
        Gen.Bits.cellToChildrenSize_out_out h cr o = o := by
  have e1 : Gen.Bits.cellToChildrenSize h cr o = (if Gen.Bits.hasChildAtRes h cr == 0#1 then 4#32 else 0#32) := by
    unfold Gen.Bits.cellToChildrenSize
    bv_decide
  have e2 : Gen.Bits.cellToChildrenSize_out_out h cr o = (if Gen.Bits.hasChildAtRes h cr == 0#1 then o else
      (if Gen.Bits.isPentagon h != 0#32 then
        1#64 + BitVec.sdiv (5#64 * (Gen.Bits.ipow 7#64 (BitVec.signExtend 64 (cr - Gen.Bits.m_get_resolution h)) - 1#64)) 6#64
       else Gen.Bits.ipow 7#64 (BitVec.signExtend 64 (cr - Gen.Bits.m_get_resolution h)))) := by
    unfold Gen.Bits.cellToChildrenSize_out_out Gen.Bits.m_get_resolution
    simp only [show BitVec.signExtend 64 7#32 = 7#64 from rfl, show BitVec.signExtend 64 1#32 = 1#64 from rfl,
      show BitVec.signExtend 64 5#32 = 5#64 from rfl, show BitVec.signExtend 64 6#32 = 6#64 from rfl]
    split <;> rfl
  rw [e1, e2, hasChildAtRes_eq_model, isPentagon_eq_model]
  unfold H3.cellToChildrenSize
  by_cases c : H3.hasChildAtRes h cr.toInt = true
  · have hc := c
    unfold H3.hasChildAtRes at hc
    simp only [Bool.not_eq_true', Bool.or_eq_false_iff, decide_eq_false_iff_not] at hc
    have hr := getRes_lt h
    have hcr : cr.toInt = (cr.toNat : Int) := by
      have := BitVec.toInt_eq_toNat_cond cr
      split at this <;> omega
    have a : (1#1 == 0#1) = false := by decide
    simp only [c, Bool.not_true, Bool.false_eq_true, if_false, if_true, a]
    have hle : Gen.Bits.m_get_resolution h ≤ cr := by
      rw [BitVec.le_def]; unfold getRes at hc hr; omega
    have hn : (cr - Gen.Bits.m_get_resolution h).toNat = cr.toNat - (Gen.Bits.m_get_resolution h).toNat :=
      BitVec.toNat_sub_of_le hle
    have hn16 : (cr - Gen.Bits.m_get_resolution h).toNat < 16 := by rw [hn]; omega
    have hN : (cr.toInt - (getRes h : Int)).toNat = (cr - Gen.Bits.m_get_resolution h).toNat := by
      rw [hn]; unfold getRes; omega
    rw [signExtend_small _ hn16, hN]
    have T := ipow7_tbl ⟨(cr - Gen.Bits.m_get_resolution h).toNat, hn16⟩
    dsimp only at T
    obtain ⟨_, t2, t3, _⟩ := T
    cases H3.isPentagon h
    · refine ⟨by decide, ?_⟩
      have b : ((0#32 != 0#32) = false) := by decide
      simp only [Bool.false_eq_true, if_false, b]
      exact t2
    · refine ⟨by decide, ?_⟩
      have b : ((1#32 != 0#32) = true) := by decide
      simp only [if_true, b]
      exact t3
  · simp only [c, Bool.not_false, if_true, Bool.false_eq_true, if_false]
    have a : (0#1 == 0#1) = true := by decide
    simp [a, H3Error.code]

theorem cellToChildrenSize_defined_all (h : BitVec 64) (cr : BitVec 32) (o : BitVec 64) :
    Gen.Bits.cellToChildrenSize_defined h cr o = true := by
  unfold Gen.Bits.cellToChildrenSize_defined
  simp only [hasChildAtRes_defined_all, isPentagon_defined_all]
  have e : Gen.Bits.hasChildAtRes h cr =
      (if BitVec.slt cr (Gen.Bits.m_get_resolution h) || BitVec.slt 15#32 cr then 0#1 else 1#1) := by
    unfold Gen.Bits.hasChildAtRes Gen.Bits.m_get_resolution
    bv_decide
  by_cases c : (BitVec.slt cr (Gen.Bits.m_get_resolution h) || BitVec.slt 15#32 cr) = true
  · rw [e]; simp only [c, if_true]
    have a : (((if (0#1 == 0#1) = true then 1#32 else 0#32) != 0#32) = true) := by decide
    simp only [a, if_true]; rfl
  · rw [e]; simp only [c, if_false, Bool.false_eq_true]
    have a : ¬ (((if (1#1 == 0#1) = true then 1#32 else 0#32) != 0#32) = true) := by decide
    simp only [a, if_false]
    have hn16 : BitVec.ult (cr - Gen.Bits.m_get_resolution h) 16#32 = true := by
      unfold Gen.Bits.m_get_resolution at c ⊢
      bv_decide
    have hn16' : (cr - Gen.Bits.m_get_resolution h).toNat < 16 := by simpa [BitVec.ult] using hn16
    have T := ipow7_tbl ⟨(cr - Gen.Bits.m_get_resolution h).toNat, hn16'⟩
    dsimp only at T
    obtain ⟨t1, _, _, t4, t5, t6⟩ := T
    have hs := signExtend_small _ hn16'
    unfold Gen.Bits.m_get_resolution at hs
    simp only [show BitVec.signExtend 64 7#32 = 7#64 from rfl, show BitVec.signExtend 64 1#32 = 1#64 from rfl,
      show BitVec.signExtend 64 5#32 = 5#64 from rfl, show BitVec.signExtend 64 6#32 = 6#64 from rfl, hs]
    unfold Gen.Bits.m_get_resolution at t1 t4 t5 t6
    simp only [t1, t4, t5, t6]
    have g : (BitVec.signExtend 64 cr - BitVec.signExtend 64 (BitVec.setWidth 32 ((h &&& 15#64 <<< 52#32) >>> 52#32)) ==
        BitVec.signExtend 64 (cr - BitVec.setWidth 32 ((h &&& 15#64 <<< 52#32) >>> 52#32))) = true := by
      unfold Gen.Bits.m_get_resolution at c
      bv_decide
    rw [hs] at g
    simp only [g, show (6#64 == 18446744073709551615#64) = false from rfl, Bool.and_false, Bool.not_false]
    cases (Gen.Bits.isPentagon h != 0#32) <;> decide

/-! ### setH3Index -/

def shFrom (res d : BitVec 32) : Nat → BitVec 32 → BitVec 64 → BitVec 64
  | 0, _, _ => 0#64
  | n + 1, r, h =>
    if ((if BitVec.sle r res then 1#32 else 0#32) != 0#32) then
      shFrom res d n (r + 1#32)
        ((h &&& (~~~((BitVec.signExtend 64 7#32) <<< ((15#32 - r) * 3#32)))) ||| ((BitVec.setWidth 64 d) <<< ((15#32 - r) * 3#32)))
    else h

theorem setH3Index_shape (o : BitVec 64) (res bc d : BitVec 32) :
    Gen.Bits.setH3Index_out_hp o res bc d =
      shFrom res d 16 1#32 (Gen.Bits.m_set_base_cell (Gen.Bits.m_set_resolution (Gen.Bits.m_set_mode Gen.Bits.m_h3_init 1#32) res) bc) := by
  unfold Gen.Bits.setH3Index_out_hp
  unfold shFrom shFrom shFrom shFrom shFrom shFrom shFrom shFrom shFrom shFrom shFrom shFrom shFrom shFrom shFrom shFrom shFrom
  unfold Gen.Bits.m_set_base_cell Gen.Bits.m_set_resolution Gen.Bits.m_set_mode Gen.Bits.m_h3_init
  bv_decide

theorem setH3Index_defined_of (o : BitVec 64) (res bc d : BitVec 32) (hr : BitVec.sle res 15#32 = true) :
    Gen.Bits.setH3Index_defined o res bc d = true := by
  unfold Gen.Bits.setH3Index_defined
  bv_decide

theorem zext_small8 (x : BitVec 32) (hx : x.toNat < 8) : BitVec.setWidth 64 x = BitVec.signExtend 64 x := by
  have : BitVec.ult x 8#32 = true := by simp [BitVec.ult]; omega
  bv_decide

theorem shFrom_fold (res : BitVec 32) (hres : res.toNat < 16) (d : Nat) (hd : d < 8) :
    ∀ (n r : Nat) (h : BitVec 64), r ≤ res.toNat + 1 → res.toNat + 1 - r < n →
      shFrom res (BitVec.ofNat 32 d) n (BitVec.ofNat 32 r) h =
        (List.range' r (res.toNat + 1 - r)).foldl (fun h r => setDigit h r d) h := by
  intro n
  induction n with
  | zero => intro r h _ h2; omega
  | succ n ih =>
    intro r h h1 h2
    unfold shFrom
    rw [sle_ofNat r res (by omega) (by omega)]
    by_cases c : r ≤ res.toNat
    · have e : res.toNat + 1 - r = (res.toNat + 1 - (r + 1)) + 1 := by omega
      rw [e, List.range'_succ, List.foldl_cons]
      have e3 : ((1#32 != 0#32) = true) := by decide
      simp only [c, decide_true, if_true, e3]
      have e2 : BitVec.ofNat 32 r + 1#32 = BitVec.ofNat 32 (r + 1) := by rw [BitVec.ofNat_add]
      rw [e2, zext_small8 _ (by simp [BitVec.toNat_ofNat]; omega)]
      exact ih (r + 1) _ (by omega) (by omega)
    · simp only [c, decide_false]
      have e : res.toNat + 1 - r = 0 := by omega
      rw [e]
      rfl

/-- **the C function `setH3Index` is the model's `setH3Index`** (resolutions 0..15, digits 0..7; beyond
resolution 15 the C loop shifts by a negative amount) -/
theorem setH3Index_eq_model (o : BitVec 64) (res bc d : Nat) (hres : res ≤ 15) (hd : d < 8) :
    Gen.Bits.setH3Index_out_hp o (BitVec.ofNat 32 res) (BitVec.ofNat 32 bc) (BitVec.ofNat 32 d) = H3.setH3Index res bc d := by
  rw [setH3Index_shape]
  have hr : (BitVec.ofNat 32 res).toNat = res := by simp [BitVec.toNat_ofNat]; omega
  have := shFrom_fold (BitVec.ofNat 32 res) (by omega) d hd 16 1 (Gen.Bits.m_set_base_cell (Gen.Bits.m_set_resolution (Gen.Bits.m_set_mode Gen.Bits.m_h3_init 1#32) (BitVec.ofNat 32 res)) (BitVec.ofNat 32 bc)) (by omega) (by omega)
  rw [show (BitVec.ofNat 32 1) = 1#32 from rfl] at this
  rw [this, hr]
  unfold H3.setH3Index
  simp only [Nat.add_sub_cancel]
  rfl

end H3.C04G
