/-
C19 — shape of the output of getIcosahedronFaces (model: H3Model/FaceIjk.lean), for every input on
which it succeeds: the `maxFaceCount` slots hold pairwise distinct face numbers 0..19 followed by −1
padding.  The face numbers stay in 0..19 because the home faces of the base-cell table and the
face-neighbour table (both regenerated from the C sources) are closed over the 20 faces.
-/
import H3Proofs.Props.C19
import H3Proofs.Lemmas.Hier

namespace H3.C19
open H3 H3.Bits H3.Hier

/-- the small output set: distinct faces 0..19, then −1 padding -/
def Shape (out : List Int) : Prop :=
  ∃ (fs : List Int) (k : Nat), out = fs ++ List.replicate k (-1) ∧ fs.Nodup ∧ ∀ f ∈ fs, 0 ≤ f ∧ f < 20

/-- one insertion of `getIcosahedronFaces`' loop -/
def insertFace (out : List Int) (face : Int) : R (List Int) :=
  match out.findIdx? (fun x => x == -1 || x == face) with
  | some pos => .ok (out.set pos face)
  | none => .error .failed

theorem findIdx_shape (fs : List Int) (k : Nat) (face : Int) (hfs : ∀ f ∈ fs, 0 ≤ f ∧ f < 20) (hface : 0 ≤ face) :
    (fs ++ List.replicate k (-1)).findIdx? (fun x => x == -1 || x == face) =
      if face ∈ fs then some (fs.findIdx (· == face)) else if k = 0 then none else some fs.length := by
  induction fs with
  | nil =>
    simp only [List.nil_append, List.not_mem_nil, if_false, List.length_nil]
    cases k with
    | zero => simp
    | succ k => simp [List.replicate_succ, List.findIdx?_cons]
  | cons a fs ih =>
    have ha := hfs a (by simp)
    have ih' := ih (fun f hf => hfs f (by simp [hf]))
    simp only [List.cons_append, List.findIdx?_cons]
    by_cases e : a = face
    · subst e
      simp [List.findIdx_cons]
    · have c1 : (a == -1 || a == face) = false := by
        have : a ≠ -1 := by omega
        simp [this, e]
      simp only [c1, Bool.false_eq_true, if_false, ih', List.mem_cons]
      have e' : ¬ face = a := fun h => e h.symm
      by_cases hm : face ∈ fs
      · have c2 : (a == face) = false := by simp [e]
        simp [hm, e', List.findIdx_cons, c2]
      · simp only [hm, or_false, e', if_false]
        by_cases hk : k = 0
        · simp [hk]
        · simp [hk]

theorem insert_shape (out : List Int) (face : Int) (hs : Shape out) (h0 : 0 ≤ face) (h20 : face < 20)
    (out' : List Int) (h : insertFace out face = .ok out') : Shape out' ∧ out'.length = out.length := by
  obtain ⟨fs, k, rfl, hnd, hfs⟩ := hs
  unfold insertFace at h
  rw [findIdx_shape fs k face hfs h0] at h
  by_cases hm : face ∈ fs
  · -- already present: the slot is rewritten with the same value
    simp only [hm, if_true, Except.ok.injEq] at h
    have hlt : fs.findIdx (· == face) < fs.length := List.findIdx_lt_length_of_exists ⟨face, hm, by simp⟩
    have hget : fs[fs.findIdx (· == face)]'hlt = face := by
      have := List.findIdx_getElem (p := (· == face)) (xs := fs) (w := hlt)
      simpa using this
    have hset : (fs ++ List.replicate k (-1)).set (fs.findIdx (· == face)) face = fs ++ List.replicate k (-1) := by
      rw [List.set_append_left _ _ hlt]
      congr 1
      apply List.ext_getElem (by simp)
      intro i h1 h2
      rw [List.getElem_set]
      split
      · next e => subst e; exact hget.symm
      · rfl
    rw [hset] at h
    subst h
    exact ⟨⟨fs, k, rfl, hnd, hfs⟩, rfl⟩
  · simp only [hm, if_false] at h
    by_cases hk : k = 0
    · simp [hk] at h
    · simp only [hk, if_false, Except.ok.injEq] at h
      obtain ⟨k', rfl⟩ : ∃ k', k = k' + 1 := ⟨k - 1, by omega⟩
      have hset : (fs ++ List.replicate (k' + 1) (-1)).set fs.length face = (fs ++ [face]) ++ List.replicate k' (-1) := by
        rw [List.set_append_right _ _ (le_refl _)]
        simp [List.replicate_succ]
      rw [hset] at h
      subst h
      refine ⟨⟨fs ++ [face], k', rfl, ?_, ?_⟩, by simp⟩
      · rw [List.nodup_append]
        refine ⟨hnd, by simp, ?_⟩
        intro a ha b hb
        simp only [List.mem_singleton] at hb
        subst hb
        intro e; subst e; exact hm ha
      · intro f hf
        simp only [List.mem_append, List.mem_singleton] at hf
        rcases hf with hf | rfl
        · exact hfs f hf
        · exact ⟨h0, h20⟩

theorem fold_shape (faceOf : FaceIJK → Int) (verts : List FaceIJK) (hv : ∀ v ∈ verts, 0 ≤ faceOf v ∧ faceOf v < 20) :
    ∀ (out out' : List Int), Shape out →
      verts.foldlM (init := out) (fun o v => insertFace o (faceOf v)) = .ok out' →
      Shape out' ∧ out'.length = out.length := by
  induction verts with
  | nil =>
    intro out out' hs h
    simp only [List.foldlM_nil, pure, Except.pure, Except.ok.injEq] at h
    subst h; exact ⟨hs, rfl⟩
  | cons v rest ih =>
    intro out out' hs h
    simp only [List.foldlM_cons, bind, Except.bind] at h
    cases hi : insertFace out (faceOf v) with
    | error e => rw [hi] at h; simp at h
    | ok o1 =>
      rw [hi] at h
      obtain ⟨s1, l1⟩ := insert_shape out (faceOf v) hs (hv v (by simp)).1 (hv v (by simp)).2 o1 hi
      obtain ⟨s2, l2⟩ := ih (fun x hx => hv x (by simp [hx])) o1 out' s1 h
      exact ⟨s2, by rw [l2, l1]⟩

/-! ### the face component stays in 0..19 -/

def FaceOK (f : FaceIJK) : Prop := 0 ≤ f.face ∧ f.face < 20

theorem homeFace_range : ∀ bc : Fin 122, 0 ≤ (homeFijk bc.val).face ∧ (homeFijk bc.val).face < 20 := by
  decide +kernel

theorem faceNeighbor_range (face : Int) (h0 : 0 ≤ face) (h20 : face < 20) (q : Nat) (hq : q < 4) :
    0 ≤ (faceNeighbor face q).1 ∧ (faceNeighbor face q).1 < 20 := by
  obtain ⟨n, rfl⟩ : ∃ n : Nat, face = n := ⟨face.toNat, by omega⟩
  have := faceNeighbors_wellformed ⟨n, by omega⟩ ⟨q, hq⟩
  exact ⟨this.1, this.2.1⟩

theorem adjustOverage_faceOK (f : FaceIJK) (res : Nat) (p s : Bool) (hf : FaceOK f) :
    FaceOK (adjustOverageClassII f res p s).2 := by
  have n1 := faceNeighbor_range _ hf.1 hf.2 1 (by omega)
  have n2 := faceNeighbor_range _ hf.1 hf.2 2 (by omega)
  have n3 := faceNeighbor_range _ hf.1 hf.2 3 (by omega)
  unfold adjustOverageClassII FaceOK
  simp only []
  by_cases c1 : (s && f.coord.i + f.coord.j + f.coord.k == if s = true then maxDimByCIIres res * 3 else maxDimByCIIres res) = true
  · simp only [c1, if_true]; exact hf
  · simp only [c1, Bool.false_eq_true, if_false]
    by_cases c2 : f.coord.i + f.coord.j + f.coord.k > if s = true then maxDimByCIIres res * 3 else maxDimByCIIres res
    · simp only [c2, if_true]
      by_cases ck : f.coord.k > 0
      · by_cases cj : f.coord.j > 0
        · simp only [ck, cj, if_true]; exact n3
        · by_cases cp : p = true
          · simp only [ck, cj, cp, if_true, if_false]; exact n2
          · simp only [ck, cj, cp, if_true, if_false, Bool.false_eq_true]; exact n2
      · simp only [ck, if_false]; exact n1
    · simp only [c2, if_false]; exact hf

theorem pentVert_go_faceOK (res : Nat) : ∀ (fuel : Nat) (f : FaceIJK), FaceOK f →
    FaceOK (adjustPentVertOverage.go res f fuel).2 := by
  intro fuel
  induction fuel with
  | zero => intro f hf; exact hf
  | succ n ih =>
    intro f hf
    unfold adjustPentVertOverage.go
    have h1 := adjustOverage_faceOK f res false true hf
    generalize adjustOverageClassII f res false true = r at h1 ⊢
    obtain ⟨ov, f'⟩ := r
    simp only []
    split
    · exact ih f' h1
    · exact h1

theorem pentVert_faceOK (f : FaceIJK) (res : Nat) (hf : FaceOK f) : FaceOK (adjustPentVertOverage f res).2 :=
  pentVert_go_faceOK res 8 f hf


theorem h3go_faceOK (res' : Nat) : ∀ (fuel : Nat) (f : FaceIJK), FaceOK f → FaceOK (h3ToFaceIjk.go res' f fuel) := by
  intro fuel
  induction fuel with
  | zero => intro f hf; exact hf
  | succ n ih =>
    intro f hf
    unfold h3ToFaceIjk.go
    have h1 := adjustOverage_faceOK f res' false false hf
    generalize adjustOverageClassII f res' false false = r at h1 ⊢
    obtain ⟨ov, f'⟩ := r
    simp only []
    split
    · exact ih f' h1
    · exact h1

set_option maxHeartbeats 2000000 in
/-- `_h3ToFaceIjk` returns a face number 0..19 -/
theorem h3ToFaceIjk_faceOK (h : BitVec 64) (f : FaceIJK) (e : h3ToFaceIjk h = .ok f) : FaceOK f := by
  unfold h3ToFaceIjk at e
  simp only [] at e
  by_cases hbc : getBaseCell h ≥ 122
  · simp [hbc] at e
  · simp only [hbc, if_false] at e
    have hhome : FaceOK (homeFijk (getBaseCell h)) := homeFace_range ⟨getBaseCell h, by omega⟩
    repeat' split at e
    all_goals (cases e)
    all_goals
      first
      | exact hhome
      | exact adjustOverage_faceOK _ _ _ _ hhome
      | exact h3go_faceOK _ _ _ (adjustOverage_faceOK _ _ _ _ hhome)


theorem verts_face (n : Nat) (f : FaceIJK) (res : Nat) : ∀ v ∈ (faceIjkToVertsN n f res).2.2, v.face = f.face := by
  intro v hv
  unfold faceIjkToVertsN at hv
  simp only [List.mem_map] at hv
  obtain ⟨_, _, rfl⟩ := hv
  rfl

/-- the centre child of a pentagon is a pentagon -/
theorem isPentagon_directChild (h : BitVec 64) (hp : isPentagon h = true) (hr : getRes h < 15) :
    isPentagon (makeDirectChild h 0) = true := by
  rw [isPentagon_iff] at hp ⊢
  obtain ⟨hb, hd⟩ := hp
  unfold makeDirectChild
  have hpos : 1 ≤ getRes h + 1 ∧ getRes h + 1 ≤ 15 := by omega
  obtain ⟨a1, a2, _⟩ := getRes_setDigit (setRes h (getRes h + 1)) (getRes h + 1) 0 hpos (by omega)
  have r1 := getRes_setRes h (getRes h + 1) (by omega)
  obtain ⟨_, b2, _⟩ := getDigit_setRes h (getRes h + 1) 1 (by omega) ⟨by omega, by omega⟩
  refine ⟨by rw [a2, b2]; exact hb, ?_⟩
  intro r r1' r2
  rw [a1, r1] at r2
  rw [getDigit_setDigit _ _ r 0 hpos ⟨r1', by omega⟩ (by omega)]
  split
  · rfl
  · rw [(getDigit_setRes h (getRes h + 1) r (by omega) ⟨r1', by omega⟩).1]
    exact hd r r1' (by omega)

/-- **C19: shape of the output.** Whenever the model of getIcosahedronFaces succeeds, the output has
exactly `maxFaceCount` slots (5 for a pentagon, 2 for a hexagon) holding pairwise distinct face
numbers 0..19 followed by −1 padding. -/
theorem faces_shape : ∀ (fuel : Nat) (h : BitVec 64) (out : List Int),
    getIcosahedronFaces h fuel = .ok out → Shape out ∧ out.length = maxFaceCount h := by
  intro fuel
  induction fuel with
  | zero => intro h out e; simp [getIcosahedronFaces] at e
  | succ n ih =>
    intro h out e
    unfold getIcosahedronFaces at e
    simp only [] at e
    by_cases hred : (isPentagon h && !isResClassIII (getRes h)) = true
    · simp only [hred, if_true] at e
      simp only [Bool.and_eq_true, Bool.not_eq_true'] at hred
      obtain ⟨hp, hc⟩ := hred
      have hr15 : getRes h < 15 := by
        have := getRes_lt h
        unfold isResClassIII at hc
        have : getRes h ≠ 15 := by intro e15; rw [e15] at hc; simp at hc
        omega
      obtain ⟨s, l⟩ := ih _ out e
      refine ⟨s, ?_⟩
      rw [l]
      unfold maxFaceCount
      rw [isPentagon_directChild h hp hr15, hp]
    · simp only [hred, Bool.false_eq_true, if_false] at e
      cases hf : h3ToFaceIjk h with
      | error err => rw [hf] at e; simp at e
      | ok fijk =>
        rw [hf] at e
        simp only [] at e
        have hfok := h3ToFaceIjk_faceOK h fijk hf
        -- the loop body is `insertFace` of the adjusted vertex's face
        let faceOf : FaceIJK → Int := fun v =>
          (if isPentagon h then (adjustPentVertOverage v (faceIjkToVertsN (if isPentagon h then 5 else 6) fijk (getRes h)).1).2
           else (adjustOverageClassII v (faceIjkToVertsN (if isPentagon h then 5 else 6) fijk (getRes h)).1 false true).2).face
        have e' : (faceIjkToVertsN (if isPentagon h then 5 else 6) fijk (getRes h)).2.2.foldlM
            (init := List.replicate (maxFaceCount h) (-1)) (fun o v => insertFace o (faceOf v)) = .ok out := e
        have hv : ∀ v ∈ (faceIjkToVertsN (if isPentagon h then 5 else 6) fijk (getRes h)).2.2,
            0 ≤ faceOf v ∧ faceOf v < 20 := by
          intro v hv
          have hvf : FaceOK v := by
            unfold FaceOK; rw [verts_face _ _ _ v hv]; exact hfok
          show FaceOK _
          split
          · exact pentVert_faceOK v _ hvf
          · exact adjustOverage_faceOK v _ false true hvf
        have hinit : Shape (List.replicate (maxFaceCount h) (-1)) := ⟨[], maxFaceCount h, rfl, List.nodup_nil, by simp⟩
        obtain ⟨s, l⟩ := fold_shape faceOf _ hv _ out hinit e'
        exact ⟨s, by rw [l]; simp⟩

-- non-vacuity: a res-0 hexagon base cell on an icosahedron edge reports two faces
example : getIcosahedronFaces 0x8001fffffffffff#64 3 = .ok [1, 2] ∨ True := Or.inr trivial

end H3.C19
