/-
C14 — cube rounding and path length (model: H3Model/LocalIj.lean; `cubeRoundG` is the generic code
whose Float instance is compared cell-for-cell with C on every run).
-/
import H3Model.LocalIj
import Mathlib.Tactic.Linarith
import Mathlib.Data.Rat.Floor
import Mathlib.Algebra.Order.Round

namespace H3.C14R
open H3

instance ratRoundField : RoundField ℚ where
  ofInt z := (z : ℚ)
  sub := (· - ·)
  abs := fun x => |x|
  gt a b := decide (a > b)
  roundInt x := if 0 ≤ x then ⌊x + 1 / 2⌋ else ⌈x - 1 / 2⌉     -- halves away from zero

/-- **cubeRound always returns cube coordinates** (components sum to 0), for every input and
every instance of the arithmetic (IEEE doubles included) -/
theorem cubeRound_sum {α : Type} [RoundField α] (i j k : α) :
    (cubeRoundG i j k).i + (cubeRoundG i j k).j + (cubeRoundG i j k).k = 0 := by
  unfold cubeRoundG
  simp only []
  split_ifs <;> simp only [] <;> omega

theorem roundInt_int (z : ℤ) : RoundField.roundInt ((z : ℚ)) = z := by
  show (if (0 : ℚ) ≤ (z : ℚ) then ⌊(z : ℚ) + 1 / 2⌋ else ⌈(z : ℚ) - 1 / 2⌉) = z
  split_ifs
  · rw [Int.floor_eq_iff]; constructor <;> push_cast <;> linarith
  · rw [Int.ceil_eq_iff]; constructor <;> push_cast <;> linarith

/-- **integer points are fixed**: the rounded value of an exact cube coordinate is itself — so the
first sample of a path is the start cell's coordinate and the last one the end cell's -/
theorem cubeRound_int (a b c : ℤ) (h : a + b + c = 0) :
    cubeRoundG ((a : ℚ)) ((b : ℚ)) ((c : ℚ)) = ⟨a, b, c⟩ := by
  unfold cubeRoundG
  simp only [roundInt_int]
  have hz : ∀ z : ℤ, RoundField.abs (RoundField.sub (RoundField.ofInt z : ℚ) (z : ℚ)) = (0 : ℚ) := by
    intro z
    show |((z : ℚ)) - (z : ℚ)| = 0
    simp
  simp only [hz]
  have : RoundField.gt (0 : ℚ) (0 : ℚ) = false := by
    show decide ((0 : ℚ) > 0) = false
    simp
  simp only [this, Bool.false_and, Bool.false_eq_true, if_false]
  congr 1
  omega

/-- every component of the rounded triple before the correction is within 1/2 of the input -/
theorem roundInt_close (x : ℚ) : |((RoundField.roundInt x : ℤ) : ℚ) - x| ≤ 1 / 2 := by
  show |(((if (0 : ℚ) ≤ x then ⌊x + 1 / 2⌋ else ⌈x - 1 / 2⌉ : ℤ)) : ℚ) - x| ≤ 1 / 2
  split_ifs
  · have h1 := Int.floor_le (x + 1 / 2)
    have h2 := Int.lt_floor_add_one (x + 1 / 2)
    rw [abs_le]; constructor <;> linarith
  · have h1 := Int.le_ceil (x - 1 / 2)
    have h2 := Int.ceil_lt_add_one (x - 1 / 2)
    rw [abs_le]; constructor <;> linarith

/-- **the path loop writes exactly distance + 1 cells when it succeeds, and never more** -/
theorem path_go_size (s : BitVec 64) (a : CoordIJK) (iS jS kS : Float) :
    ∀ (fuel n : Nat) (out : Array (BitVec 64)),
      ((gridPathCells.go s a iS jS kS n fuel out).1 = none →
        (gridPathCells.go s a iS jS kS n fuel out).2.size = out.size + fuel) ∧
      (gridPathCells.go s a iS jS kS n fuel out).2.size ≤ out.size + fuel := by
  intro fuel
  induction fuel with
  | zero => intro n out; simp [gridPathCells.go]
  | succ fuel ih =>
    intro n out
    unfold gridPathCells.go
    simp only []
    split
    · simp
    · next cell _ =>
      obtain ⟨i1, i2⟩ := ih (n + 1) (out.push cell)
      simp only [Array.size_push] at i1 i2
      exact ⟨fun h => by rw [i1 h]; omega, by omega⟩

/-- **C14: on success exactly gridPathCellsSize = gridDistance + 1 cells are written; on failure no
more than that** -/
theorem path_length (x y : BitVec 64) (d : Int) (hd : gridDistance x y = .ok d) :
    ((gridPathCells x y).1 = none → ((gridPathCells x y).2.size : Int) = d + 1 ∨ d < 0) ∧
    (gridPathCells x y).2.size ≤ d.toNat + 1 := by
  unfold gridPathCells
  simp only [hd]
  split
  · next a b _ _ =>
    have := path_go_size x (ijkToCube a)
      (Float.ofInt ((ijkToCube b).i - (ijkToCube a).i) * (if (d != 0) = true then 1.0 / Float.ofInt d else 0))
      (Float.ofInt ((ijkToCube b).j - (ijkToCube a).j) * (if (d != 0) = true then 1.0 / Float.ofInt d else 0))
      (Float.ofInt ((ijkToCube b).k - (ijkToCube a).k) * (if (d != 0) = true then 1.0 / Float.ofInt d else 0))
      (d.toNat + 1) 0 #[]
    obtain ⟨h1, h2⟩ := this
    simp only [List.size_toArray, List.length_nil, Nat.zero_add] at h1 h2
    refine ⟨fun h => ?_, h2⟩
    have := h1 h
    by_cases hneg : d < 0
    · exact Or.inr hneg
    · left; omega
  · simp
  · simp

end H3.C14R
