/-
C03 — the valid cells of resolution r are exactly the enumerated ones, without repetition:
there are exactly 2 + 120·7^r bit patterns the generated `isValidCell` accepts at resolution r.
-/
import H3Proofs.Lemmas.ValidHier
import H3Proofs.Props.C03Enum
import Mathlib.Data.List.Nodup

namespace H3.C03C
open H3 H3.Rank H3.Bits H3.Hier H3.C13 H3.C04C H3.Valid H3.C03E H3.C01

theorem base_layout : ∀ bc : Fin 122, layoutSpec (setH3Index 0 bc.val 0) = true := by decide +kernel

theorem base_fields : ∀ bc : Fin 122,
    getHighBit (setH3Index 0 bc.val 0) = 0 ∧ getMode (setH3Index 0 bc.val 0) = 1 ∧
    getReserved (setH3Index 0 bc.val 0) = 0 ∧
    ∀ q : Fin 16, 0 < q.val → getDigit (setH3Index 0 bc.val 0) q.val = 7 := by decide +kernel

/-- a valid cell of resolution 0 is the res-0 index of its base cell -/
theorem valid_res0 (q : BitVec 64) (hv : ValidN q) (h0 : getRes q = 0) : q = setH3Index 0 (getBaseCell q) 0 := by
  obtain ⟨v1, v2, v3, v4, v5, _⟩ := hv
  obtain ⟨b0, b1, _, b3⟩ := base_cells ⟨getBaseCell q, v4⟩
  obtain ⟨f1, f2, f3, f4⟩ := base_fields ⟨getBaseCell q, v4⟩
  simp only [] at b0 b1 b3 f1 f2 f3 f4
  apply Bits.ext
  · rw [v1, f1]
  · rw [v2, f2]
  · rw [v3, f3]
  · rw [h0, b1]
  · rw [b3]
  · intro r h1 h15
    rw [f4 ⟨r, by omega⟩ h1]
    have := v5 r h1 h15
    rw [if_neg (by omega)] at this
    exact this

/-- **C03 (membership): the enumeration lists exactly the valid cells of resolution r** -/
theorem mem_cellsEnum_iff (r : Nat) (hr : r ≤ 15) (x : BitVec 64) :
    x ∈ cellsEnumS r ↔ (layoutSpec x = true ∧ getRes x = r) := by
  constructor
  · intro hx
    have hres := cells_enum_res r hr x hx
    refine ⟨?_, hres⟩
    unfold cellsEnumS at hx
    simp only [List.mem_flatMap, List.mem_range] at hx
    obtain ⟨bc, hbc, hmem⟩ := hx
    have hbv : ValidN (setH3Index 0 bc 0) := (layoutSpec_iff _).mp (base_layout ⟨bc, hbc⟩)
    obtain ⟨_, b1, _, _⟩ := base_cells ⟨bc, hbc⟩
    simp only [] at b1
    exact (layoutSpec_iff x).mpr (valid_children _ hbv r (by rw [b1]; omega) hr x hmem).1
  · rintro ⟨hl, hres⟩
    have hv := (layoutSpec_iff x).mp hl
    obtain ⟨q, _, hqv, qres, hmem⟩ := valid_mem_children x hv 0 (by omega)
    rw [valid_res0 q hqv qres, hres] at hmem
    unfold cellsEnumS
    simp only [List.mem_flatMap, List.mem_range]
    exact ⟨getBaseCell q, hqv.2.2.2.1, hmem⟩

/-- **C03 (no repetition)** -/
theorem cellsEnum_nodup (r : Nat) (hr : r ≤ 15) : (cellsEnumS r).Nodup := by
  unfold cellsEnumS
  rw [List.nodup_flatMap]
  constructor
  · intro bc hbc
    have hbc' : bc < 122 := by simpa using hbc
    have hbv : ValidN (setH3Index 0 bc 0) := (layoutSpec_iff _).mp (base_layout ⟨bc, hbc'⟩)
    obtain ⟨b0, b1, _, _⟩ := base_cells ⟨bc, hbc'⟩
    simp only [] at b0 b1
    exact children_nodup _ r b0 (by rw [b1]; omega) hr (valid_parentNormal _ hbv r hr)
  · apply List.Pairwise.imp_of_mem (R := fun a b => a ≠ b)
    · intro a b ha hb hne
      have ha' : a < 122 := by simpa using ha
      have hb' : b < 122 := by simpa using hb
      simp only [Function.onFun]
      rw [List.disjoint_left]
      intro y hya hyb
      have key : ∀ bc, bc < 122 → y ∈ cellToChildrenS (setH3Index 0 bc 0) (r : Int) → getBaseCell y = bc := by
        intro bc hbc hy
        have hbv : ValidN (setH3Index 0 bc 0) := (layoutSpec_iff _).mp (base_layout ⟨bc, hbc⟩)
        obtain ⟨_, b1, _, b3⟩ := base_cells ⟨bc, hbc⟩
        simp only [] at b1 b3
        obtain ⟨_, yres, ypar⟩ := valid_children _ hbv r (by rw [b1]; omega) hr y hy
        rw [b1] at ypar
        obtain ⟨q, hq, _, qbc, _⟩ := cellToParent_spec y 0 (by omega)
        have hq' : cellToParent y ((0 : Nat) : Int) = .ok q := hq
        rw [ypar] at hq'
        cases hq'
        rw [← qbc, b3]
      exact hne ((key a ha' hya).symm.trans (key b hb' hyb))
    · exact List.nodup_range.pairwise_of_forall_ne fun a _ b _ h => h

/-- **C03 (count): for every r ≤ 15 there is a duplicate-free list of exactly 2 + 120·7^r indexes
which are precisely the 64-bit values the generated `isValidCell` accepts at resolution r** — and
`getNumCells r` returns that number. -/
theorem valid_cell_count (r : Nat) (hr : r ≤ 15) :
    ∃ l : List (BitVec 64), l.Nodup ∧
      (∀ x, x ∈ l ↔ (H3.Gen.Bits.isValidCell x = 1#32 ∧ getRes x = r)) ∧
      ((l.length : Int) = 2 + 120 * 7 ^ r) ∧ getNumCells r = .ok (l.length : Int) := by
  refine ⟨cellsEnumS r, cellsEnum_nodup r hr, ?_, (cells_enum_length r hr).1, (cells_enum_length r hr).2⟩
  intro x
  rw [mem_cellsEnum_iff r hr x, isValidCell_eq_layout]
  cases layoutSpec x <;> simp

/-! ### pentagons and resolution-0 cells -/

theorem center_fields : ∀ r : Fin 16, ∀ bc : Fin 122,
    getHighBit (setH3Index r.val bc.val 0) = 0 ∧ getMode (setH3Index r.val bc.val 0) = 1 ∧
    getReserved (setH3Index r.val bc.val 0) = 0 ∧ getRes (setH3Index r.val bc.val 0) = r.val ∧
    getBaseCell (setH3Index r.val bc.val 0) = bc.val ∧
    ∀ q : Fin 16, 0 < q.val → getDigit (setH3Index r.val bc.val 0) q.val = if q.val ≤ r.val then 0 else 7 := by
  decide +kernel

/-- **C03 (pentagons): the valid pentagons of resolution r are exactly the cells getPentagons returns**,
and there are twelve of them, pairwise distinct -/
theorem pentagons_exact (r : Nat) (hr : r ≤ 15) :
    ∃ l, getPentagons (r : Int) = .ok l ∧ l.length = 12 ∧ l.Nodup ∧
      ∀ x, x ∈ l ↔ (layoutSpec x = true ∧ getRes x = r ∧ isPentagon x = true) := by
  have hdom : (decide ((r : Int) < 0) || decide ((r : Int) > 15)) = false := by simp; omega
  refine ⟨_, by unfold getPentagons; simp only [hdom, Bool.false_eq_true, if_false, Int.toNat_natCast]; rfl, ?_, ?_, ?_⟩
  · rw [List.length_map]; exact H3.C03.twelve_pentagon_base_cells.1
  · rw [List.nodup_map_iff_inj_on (List.nodup_range.filter _)]
    intro a ha b hb hab
    simp only [List.mem_filter, List.mem_range] at ha hb
    have ea := (center_fields ⟨r, by omega⟩ ⟨a, ha.1⟩).2.2.2.2.1
    have eb := (center_fields ⟨r, by omega⟩ ⟨b, hb.1⟩).2.2.2.2.1
    simp only [] at ea eb
    rw [← ea, ← eb, hab]
  · intro x
    simp only [List.mem_map, List.mem_filter, List.mem_range]
    constructor
    · rintro ⟨bc, ⟨hbc, hp⟩, rfl⟩
      obtain ⟨f1, f2, f3, f4, f5, f6⟩ := center_fields ⟨r, by omega⟩ ⟨bc, hbc⟩
      simp only [] at f1 f2 f3 f4 f5 f6
      have hpent : isPentagon (setH3Index r bc 0) = true := by
        rw [isPentagon_iff, f5, f4]
        refine ⟨hp, fun q h1 h2 => ?_⟩
        rw [f6 ⟨q, by omega⟩ h1]; simp [h2]
      refine ⟨(layoutSpec_iff _).mpr ⟨f1, f2, f3, by rw [f5]; exact hbc, ?_, ?_⟩, f4, hpent⟩
      · intro q h1 h15
        rw [f4, f6 ⟨q, by omega⟩ h1]
        by_cases e : q ≤ r <;> simp [e]
      · intro _ q h1 h2 hd
        rw [f4] at h2
        rw [f6 ⟨q, by omega⟩ h1] at hd
        simp [h2] at hd
    · rintro ⟨hl, hres, hp⟩
      obtain ⟨v1, v2, v3, v4, v5, _⟩ := (layoutSpec_iff x).mp hl
      obtain ⟨hbp, hz⟩ := (isPentagon_iff x).mp hp
      refine ⟨getBaseCell x, ⟨v4, hbp⟩, ?_⟩
      obtain ⟨f1, f2, f3, f4, f5, f6⟩ := center_fields ⟨r, by omega⟩ ⟨getBaseCell x, v4⟩
      simp only [] at f1 f2 f3 f4 f5 f6
      symm
      apply Bits.ext
      · rw [v1, f1]
      · rw [v2, f2]
      · rw [v3, f3]
      · rw [hres, f4]
      · rw [f5]
      · intro q h1 h15
        rw [f6 ⟨q, by omega⟩ h1]
        by_cases e : q ≤ r
        · rw [if_pos e]; exact hz q h1 (by omega)
        · rw [if_neg e]
          have := v5 q h1 h15
          rw [if_neg (by omega)] at this
          exact this

theorem res0_eq_enum : getRes0Cells = cellsEnumS 0 := by decide +kernel

/-- **C03 (res-0 cells): getRes0Cells lists exactly the 122 valid cells of resolution 0** -/
theorem res0_exact : getRes0Cells.length = 122 ∧ getRes0Cells.Nodup ∧
    ∀ x, x ∈ getRes0Cells ↔ (layoutSpec x = true ∧ getRes x = 0) := by
  rw [res0_eq_enum]
  refine ⟨?_, cellsEnum_nodup 0 (by omega), fun x => mem_cellsEnum_iff 0 (by omega) x⟩
  have := (cells_enum_length 0 (by omega)).1
  norm_num at this
  exact_mod_cast this

end H3.C03C
