/-
C05 / C01 (closure clause) — `gridDiskDistances` / `gridDisk`: every non-empty slot of the buffers a
successful call returns holds a valid cell of the origin's resolution, whichever of the two algorithms
produced it (the ring walk, or the hash-set search after the walk failed).
-/
import H3Proofs.Props.C05Ring
import H3Proofs.Props.C05Mode

namespace H3.C05All
open H3 H3.Bits H3.C05V H3.C05R H3.C05M H3.C05A H3.Bfs

theorem gridDiskDistances_eq_safe (origin : BitVec 64) (k : Int) (e : H3Error) (o : Array (BitVec 64)) (d : Array Int)
    (h : gridDiskDistancesUnsafe origin k = (some e, o, d)) : gridDiskDistances origin k = gridDiskDistancesSafe origin k := by
  unfold gridDiskDistances gridDiskDistancesSafe
  rw [h]

theorem gridDiskDistances_valid (origin : BitVec 64) (k : Nat) (hv : Valid.ValidN origin)
    (out : Array (BitVec 64)) (dist : Array Int) (h : gridDiskDistances origin (k : Int) = .ok (out, dist)) :
    ∀ s, s < out.size → out.getD s 0#64 ≠ 0#64 → Valid.ValidN (out.getD s 0#64) ∧ getRes (out.getD s 0#64) = getRes origin := by
  cases hu : gridDiskDistancesUnsafe origin (k : Int) with
  | mk err rest =>
    obtain ⟨o, d⟩ := rest
    cases err with
    | some e =>
      rw [gridDiskDistances_eq_safe origin k e o d hu] at h
      obtain ⟨n, _, hsz, _, hslots, _⟩ := gridDiskDistancesSafe_bfs origin k hv.2.1 out dist h
      intro s hs hnz
      rw [hsz] at hs
      obtain ⟨_, _, w, _⟩ := hslots s hs hnz
      exact walk_valid origin hv _ _ w
    | none =>
      unfold gridDiskDistances at h
      rw [hu] at h
      simp only [] at h
      split at h
      · simp at h
      · simp only [Except.ok.injEq, Prod.mk.injEq] at h
        intro s hs hnz
        have hval := gridDiskDistancesUnsafe_valid origin k hv
        rw [hu] at hval
        simp only [] at hval
        rw [← h.1] at hs hnz ⊢
        generalize hz : Array.replicate (_ - o.size) 0#64 = z at hs hnz ⊢
        by_cases hso : s < o.size
        · have e1 : (o ++ z).getD s 0#64 = o[s] := by
            rw [Array.getD_eq_getD_getElem?, Array.getElem?_append_left hso]; simp [hso]
          rw [e1]
          exact hval _ (by simp [Array.mem_toList_iff])
        · exfalso
          apply hnz
          rw [Array.getD_eq_getD_getElem?]
          simp only [Array.size_append] at hs
          rw [Array.getElem?_append_right (by omega)]
          rw [← hz]
          simp only [Array.getElem?_replicate]
          split <;> rfl

end H3.C05All
