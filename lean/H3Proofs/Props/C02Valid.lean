/-
C02 / C01 (closure clause) — whatever `_faceIjkToH3` returns other than H3_NULL is a valid cell of the
requested resolution: for every face coordinate (any face number, any integers) and every resolution
0..15, the digit-extraction loop writes proper digits 0..6 (the seven digit vectors are a complete
residue system), the looked-up base cell is below 122, and in a pentagon base cell the rotations out
of the deleted sub-sequence leave a leading digit different from 1.  Hence `latLngToCell`, which returns
`_faceIjkToH3 (_geoToFaceIjk g res) res`, returns a valid cell of resolution `res` whenever it
succeeds, whatever the floating-point projection produced.
-/
import H3Proofs.Props.C03Round
import H3Proofs.Props.C05Valid2

namespace H3.C02V
open H3 H3.DP H3.DR H3.Bits H3.C09R H3.C03R H3.C05V H3.C05M

/-- digits above level `L` (up to `res`) written, the others still 7 -/
def PV (res L : Nat) (out : BitVec 64) : Prop :=
  getHighBit out = 0 ∧ getMode out = 1 ∧ getReserved out = 0 ∧ getRes out = res ∧
  ∀ r, 1 ≤ r → r ≤ 15 → if L < r ∧ r ≤ res then getDigit out r < 7 else getDigit out r = 7

theorem loopF_valid (res : Nat) (hres : res ≤ 15) : ∀ (n k0 : Nat) (out : BitVec 64) (c : CoordIJK),
    k0 + n = res → PV res n out → PV res 0 ((List.range' k0 n).foldl (stepF res) (out, c)).1 ∧
      ((1 ≤ n ∨ Normal c) → Normal ((List.range' k0 n).foldl (stepF res) (out, c)).2) := by
  intro n
  induction n with
  | zero => intro k0 out c _ hp; exact ⟨hp, fun hh => hh.elim (fun h => by omega) id⟩
  | succ n ih =>
    intro k0 out c hk hp
    have hlev : res - k0 = n + 1 := by omega
    obtain ⟨p, d, hd, hdec⟩ := exists_decomp (n + 1) (ax c)
    obtain ⟨_, hN, hdg0⟩ := up_unchecked (n + 1) c p d hd hdec
    have hs : stepF res (out, c) k0 = (setDigit out (n + 1) d, if isResClassIII (n + 1) then upAp7 c else upAp7r c) := by
      unfold stepF
      simp only [hlev]
      by_cases hl : isResClassIII (n + 1) = true
      · simp only [hl, if_true] at hdg0 ⊢; rw [hdg0]
      · simp only [hl, Bool.false_eq_true, if_false] at hdg0 ⊢; rw [hdg0]
    rw [List.range'_succ, List.foldl_cons, hs]
    suffices hpv : PV res n (setDigit out (n + 1) d) by
      obtain ⟨r1, r2⟩ := ih (k0 + 1) _ (if isResClassIII (n + 1) then upAp7 c else upAp7r c) (by omega) hpv
      exact ⟨r1, fun _ => r2 (Or.inr hN)⟩
    obtain ⟨a, b, c', e, g⟩ := hp
    obtain ⟨s1, s2, s3, s4, s5⟩ := getRes_setDigit out (n + 1) d ⟨by omega, by omega⟩ (by omega)
    refine ⟨by rw [s5]; exact a, by rw [s3]; exact b, by rw [s4]; exact c', by rw [s1]; exact e, ?_⟩
    intro r h1 h15
    rw [getDigit_setDigit out (n + 1) r d ⟨by omega, by omega⟩ ⟨h1, h15⟩ (by omega)]
    by_cases er : r = n + 1
    · subst er
      have : n < n + 1 ∧ n + 1 ≤ res := by omega
      simp [this, hd]
    · simp only [er, if_false]
      have := g r h1 h15
      by_cases c1 : n + 1 < r ∧ r ≤ res
      · have c2 : n < r ∧ r ≤ res := by omega
        simp only [c1, and_self, if_true] at this
        simp only [c2, and_self, if_true]; exact this
      · have c2 : ¬ (n < r ∧ r ≤ res) := by omega
        simp only [c1, if_false] at this
        simp only [c2, if_false]; exact this

theorem init_PV (res : Nat) (hres : res ≤ 15) : PV res res (setRes (setMode H3_INIT 1) res) := by
  have I := init_fields
  have hs := fun r hr => getDigit_setRes (setMode H3_INIT 1) res r (by omega) hr
  have hs1 := hs 1 ⟨by omega, by omega⟩
  refine ⟨by rw [hs1.2.2.2.2, I.1], by rw [hs1.2.2.1, I.2.1], by rw [hs1.2.2.2.1, I.2.2.1], getRes_setRes _ _ (by omega), ?_⟩
  intro r h1 h15
  have : ¬ (res < r ∧ r ≤ res) := by omega
  simp only [this, if_false]
  rw [(hs r ⟨h1, h15⟩).1, I.2.2.2 ⟨r, by omega⟩ h1]

theorem PV0_DV {res : Nat} {out : BitVec 64} (hp : PV res 0 out) (v : Nat) (hv : v < 128) :
    DV res v (setBaseCell out v) := by
  obtain ⟨a, b, c, e, g⟩ := hp
  have hb := getBaseCell_setBaseCell out v hv
  have hh : getHighBit (setBaseCell out v) = getHighBit out := by
    unfold getHighBit setBaseCell
    rw [high_set_base_cell_bv out _ (ofNat_lt 128 (by omega) hv)]
  obtain ⟨_, s2, s3, s4⟩ := getDigit_setBaseCell out v 1 hv ⟨by omega, by omega⟩
  refine ⟨by rw [hh]; exact a, by rw [s3]; exact b, by rw [s4]; exact c, by rw [s2]; exact e, hb, ?_⟩
  intro r h1 h15
  rw [(getDigit_setBaseCell out v r hv ⟨h1, h15⟩).1]
  have := g r h1 h15
  by_cases c1 : r ≤ res
  · have c2 : 0 < r ∧ r ≤ res := by omega
    simp only [c2, and_self, if_true] at this
    simp only [c1, if_true]; exact this
  · have c2 : ¬ (0 < r ∧ r ≤ res) := by omega
    simp only [c2, if_false] at this
    simp only [c1, if_false]; exact this

/-- every entry of the face/ijk lookup table is a base cell below 122 -/
theorem lookup_lt : ∀ (f : Fin 20) (i j k : Fin 3),
    (faceIjkBaseCell ⟨(f.val : Int), ⟨(i.val : Int), (j.val : Int), (k.val : Int)⟩⟩).1.toNat < 122 := by decide +kernel

theorem rotate_cw_ccw_one : rotate60cw 1 ≠ 1 ∧ rotate60ccw 1 ≠ 1 := by decide

/-- **C02 / C01: `_faceIjkToH3` returns H3_NULL or a valid cell of the requested resolution** -/
theorem lookup_lt' (f : Int) (c : CoordIJK) (hf : 0 ≤ f ∧ f < 20) (hc : 0 ≤ c.i ∧ c.i ≤ 2 ∧ 0 ≤ c.j ∧ c.j ≤ 2 ∧ 0 ≤ c.k ∧ c.k ≤ 2) :
    (faceIjkBaseCell ⟨f, c⟩).1.toNat < 122 := by
  obtain ⟨ci, cj, ck⟩ := c
  simp only [] at hc
  obtain ⟨n, rfl⟩ := Int.eq_ofNat_of_zero_le hf.1
  obtain ⟨a, rfl⟩ := Int.eq_ofNat_of_zero_le hc.1
  obtain ⟨b, rfl⟩ := Int.eq_ofNat_of_zero_le hc.2.2.1
  obtain ⟨e, rfl⟩ := Int.eq_ofNat_of_zero_le hc.2.2.2.2.1
  exact lookup_lt ⟨n, by omega⟩ ⟨a, by omega⟩ ⟨b, by omega⟩ ⟨e, by omega⟩

/-- the tail of `_faceIjkToH3` after the digit loop: base cell, pentagon adjustment, rotations -/
theorem tail_valid (res : Nat) (hres : res ≤ 15) (out : BitVec 64) (hp : PV res 0 out) (bc : Nat) (hbc : bc < 122)
    (face : Int) (k : Nat) :
    let h := setBaseCell out bc
    let r := if isBaseCellPentagon bc then
        iterate h3RotatePent60ccw k
          (if leadingNonZeroDigit h == 1 then (if baseCellIsCwOffset bc face then h3Rotate60cw h else h3Rotate60ccw h) else h)
      else iterate h3Rotate60ccw k h
    Valid.ValidN r ∧ getRes r = res := by
  simp only []
  have d := PV0_DV hp bc (by omega)
  by_cases hpent : isBaseCellPentagon bc = true
  · simp only [hpent, if_true]
    have key : ∀ x, DV res bc x → leadingNonZeroDigit x ≠ 1 →
        Valid.ValidN (iterate h3RotatePent60ccw k x) ∧ getRes (iterate h3RotatePent60ccw k x) = res := by
      intro x dx hx
      have D := iterate_inv (DV res bc) h3RotatePent60ccw (fun _ => h3RotatePent60ccw_DV hres) k x dx
      have L := iter_lnz k x hx
      obtain ⟨W, R⟩ := D.weak hbc
      exact ⟨⟨W.1, W.2.1, W.2.2.1, W.2.2.2.1, W.2.2.2.2, fun _ => pent_clause_of_lnz _ L⟩, R⟩
    by_cases hl : leadingNonZeroDigit (setBaseCell out bc) = 1
    · have : (leadingNonZeroDigit (setBaseCell out bc) == 1) = true := by simp [hl]
      simp only [this, if_true]
      by_cases hcw : baseCellIsCwOffset bc face = true
      · simp only [hcw, if_true]
        exact key _ (h3Rotate60cw_DV hres d) (by rw [lnz_rotate60cw, hl]; exact rotate_cw_ccw_one.1)
      · simp only [hcw, Bool.false_eq_true, if_false]
        exact key _ (h3Rotate60ccw_DV hres d) (by rw [lnz_rotate60ccw, hl]; exact rotate_cw_ccw_one.2)
    · have : (leadingNonZeroDigit (setBaseCell out bc) == 1) = false := by simp [hl]
      simp only [this, Bool.false_eq_true, if_false]
      exact key _ d hl
  · simp only [hpent, Bool.false_eq_true, if_false]
    have D := iterate_inv (DV res bc) h3Rotate60ccw (fun _ => h3Rotate60ccw_DV hres) k _ d
    obtain ⟨W, R⟩ := D.weak hbc
    have hb : getBaseCell (iterate h3Rotate60ccw k (setBaseCell out bc)) = bc := D.2.2.2.2.1
    exact ⟨weakValid_hexagon _ W (by rw [hb]; simpa using hpent), R⟩

/-- **C02 / C01: `_faceIjkToH3` returns H3_NULL or a valid cell of the requested resolution** -/
theorem faceIjkToH3_valid (fijk : FaceIJK) (res : Nat) (hres : res ≤ 15) (hface : 0 ≤ fijk.face ∧ fijk.face < 20)
    (hc0 : 0 ≤ fijk.coord.i ∧ 0 ≤ fijk.coord.j ∧ 0 ≤ fijk.coord.k)
    (hnn : faceIjkToH3 fijk res ≠ 0#64) :
    Valid.ValidN (faceIjkToH3 fijk res) ∧ getRes (faceIjkToH3 fijk res) = res := by
  rw [faceIjkToH3_unfold] at hnn ⊢
  by_cases h0 : res = 0
  · subst h0
    simp only [beq_self_eq_true, if_true] at hnn ⊢
    by_cases hg : (decide (fijk.coord.i > 2) || decide (fijk.coord.j > 2) || decide (fijk.coord.k > 2)) = true
    · simp only [hg, if_true] at hnn; exact absurd rfl hnn
    · simp only [hg, Bool.false_eq_true, if_false]
      have hle : fijk.coord.i ≤ 2 ∧ fijk.coord.j ≤ 2 ∧ fijk.coord.k ≤ 2 := by
        simp only [Bool.or_eq_true, decide_eq_true_eq, not_or, Int.not_lt] at hg
        omega
      have hbc : (faceIjkBaseCell fijk).1.toNat < 122 :=
        lookup_lt' fijk.face fijk.coord hface ⟨hc0.1, hle.1, hc0.2.1, hle.2.1, hc0.2.2, hle.2.2⟩
      have d := PV0_DV (init_PV 0 (by omega)) (faceIjkBaseCell fijk).1.toNat (by omega)
      obtain ⟨W, R⟩ := d.weak hbc
      exact ⟨⟨W.1, W.2.1, W.2.2.1, W.2.2.2.1, W.2.2.2.2, fun _ r h1 h2 => by rw [R] at h2; omega⟩, R⟩
  · have hr0 : (res == 0) = false := by simpa using h0
    simp only [hr0, Bool.false_eq_true, if_false] at hnn ⊢
    obtain ⟨hp, hN⟩ := loopF_valid res hres res 0 (setRes (setMode H3_INIT 1) res) fijk.coord (by omega) (init_PV res hres)
    rw [← List.range_eq_range'] at hp hN
    generalize (List.range res).foldl (stepF res) (setRes (setMode H3_INIT 1) res, fijk.coord) = r at hp hN hnn ⊢
    have hNr := hN (Or.inl (by omega))
    by_cases hg : (decide (r.2.i > 2) || decide (r.2.j > 2) || decide (r.2.k > 2)) = true
    · simp only [hg, if_true] at hnn; exact absurd rfl hnn
    · simp only [hg, Bool.false_eq_true, if_false]
      have hle : r.2.i ≤ 2 ∧ r.2.j ≤ 2 ∧ r.2.k ≤ 2 := by
        simp only [Bool.or_eq_true, decide_eq_true_eq, not_or, Int.not_lt] at hg
        omega
      have hbc := lookup_lt' fijk.face r.2 hface ⟨hNr.1, hle.1, hNr.2.1, hle.2.1, hNr.2.2.1, hle.2.2⟩
      exact tail_valid res hres r.1 hp _ hbc fijk.face _

end H3.C02V
