/-
C06 — the end-to-end statement: the cells written by the layout-faithful compactCells model are the
elements of `Compact h3Forest r S` (the maximal full nodes of the H3 digit tree), for which
C06Spec / C06H3 prove losslessness, the antichain property and the absence of complete sibling
families.  Hence, whenever compactCells succeeds on a duplicate-free set of valid cells of one
resolution: its output uncompacts exactly to the input, no output cell is an ancestor of another, no
complete set of siblings occurs, and the output (as a set) is independent of the input order.
-/
import H3Proofs.Props.C06Refine
import H3Proofs.Props.C06H3

namespace H3.C06F
open H3 H3.Bits H3.Hier H3.Valid H3.C04C H3.PolyT H3.C06R H3.C06H H3.C06S H3.C01

def cellOf (x : BitVec 64) (h : ValidN x) : Cell := ⟨x, (layoutSpec_iff x).mpr h⟩

theorem validN_cell (p : Cell) : ValidN p.1 := (layoutSpec_iff _).mp p.2

/-- the forest's children are the direct children -/
theorem mem_forest_kids (p c : Cell) (hr : getRes p.1 < 15) : c ∈ h3Forest.kids p ↔ c.1 ∈ kids p.1 := by
  show c ∈ (kidsList p).toFinset ↔ _
  rw [List.mem_toFinset, mem_kidsList, kids_eq p.1 (validN_cell p) hr]

/-- `Under` of the abstract forest = being among the resolution-r descendants -/
theorem under_iff (r : Nat) (hr : r ≤ 15) : ∀ (d : Nat) (p x : Cell), getRes p.1 + d = r →
    (Under h3Forest r p x ↔ x.1 ∈ cellToChildrenS p.1 (r : Int)) := by
  intro d
  induction d with
  | zero =>
    intro p x hd
    have hpr : getRes p.1 = r := by omega
    rw [← hpr, childrenS_self p.1 (validN_cell p)]
    unfold Under
    show (getRes x.1 = getRes p.1 ∧ getRes p.1 ≤ getRes p.1 ∧ anc h3Forest x (getRes p.1 - getRes p.1) = p) ↔ _
    simp only [Nat.sub_self, anc_zero, Nat.le_refl, true_and, List.mem_singleton]
    constructor
    · rintro ⟨_, h⟩; rw [h]
    · intro h
      have : x = p := Subtype.ext h
      subst this; exact ⟨rfl, rfl⟩
  | succ d ih =>
    intro p x hd
    have hlt : getRes p.1 < r := by omega
    have hp15 : getRes p.1 < 15 := by omega
    rw [children_compose p.1 (validN_cell p) r hlt hr, List.mem_flatMap]
    constructor
    · intro hu
      obtain ⟨h1, h2, h3⟩ := hu
      -- the ancestor of x one level below p
      let k := anc h3Forest x (r - (getRes p.1 + 1))
      have hkl : h3Forest.lvl k + (r - (getRes p.1 + 1)) = h3Forest.lvl x := lvl_anc h3_graded x _ (by show _ ≤ getRes x.1; have : getRes x.1 = r := h1; omega)
      have hkpar : h3Forest.par k = p := by
        have e : r - getRes p.1 = (r - (getRes p.1 + 1)) + 1 := by omega
        have h3' : anc h3Forest x (r - getRes p.1) = p := h3
        rw [e, anc_succ] at h3'
        exact h3'
      have hklvl : getRes k.1 = getRes p.1 + 1 := by
        have : getRes x.1 = r := h1
        have hk' : getRes k.1 + (r - (getRes p.1 + 1)) = getRes x.1 := hkl
        omega
      have hkk : k ∈ h3Forest.kids p := (h3Forest.kids_iff p k).mpr ⟨hklvl, hkpar⟩
      refine ⟨k.1, (mem_forest_kids p k hp15).mp hkk, ?_⟩
      apply (ih k x (by omega)).mp
      exact ⟨h1, by show getRes k.1 ≤ r; omega, by show anc h3Forest x (r - getRes k.1) = k; rw [hklvl]⟩
    · rintro ⟨kb, hkb, hx⟩
      obtain ⟨kv, kr, _⟩ := kid_props p.1 (validN_cell p) hp15 kb hkb
      let k : Cell := cellOf kb kv
      have hkk : k ∈ h3Forest.kids p := (mem_forest_kids p k hp15).mpr hkb
      obtain ⟨_, hpar⟩ := (h3Forest.kids_iff p k).mp hkk
      have hu := (ih k x (by show getRes kb + d = r; omega)).mpr hx
      have := under_par h3_graded (by show 0 < getRes kb; omega) hu
      rw [hpar] at this
      exact this

/-- the set of cells given as a predicate on raw indexes -/
def liftS (S : BitVec 64 → Prop) : Set Cell := {c | S c.1}

theorem full_iff (S : BitVec 64 → Prop) (r : Nat) (hr : r ≤ 15) (p : Cell) :
    Full h3Forest r (liftS S) p ↔ FullB S r p.1 := by
  unfold Full FullB
  constructor
  · rintro ⟨hle, h⟩
    refine ⟨validN_cell p, hle, fun y hy => ?_⟩
    obtain ⟨yv, _, _⟩ := valid_children p.1 (validN_cell p) r hle hr y hy
    exact h (cellOf y yv) ((under_iff r hr (r - getRes p.1) p (cellOf y yv) (by have : getRes p.1 ≤ r := hle; omega)).mpr hy)
  · rintro ⟨_, hle, h⟩
    refine ⟨hle, fun x hx => ?_⟩
    exact h x.1 ((under_iff r hr (r - getRes p.1) p x (by omega)).mp hx)

theorem par_eq (x : Cell) (h : 0 < getRes x.1) : (par x).1 = parB (getRes x.1) x.1 := by
  obtain ⟨hp, _, _, _⟩ := parB_spec (getRes x.1) h x.1 (validN_cell x) rfl
  exact par_spec x _ hp

/-- **the maximal full cells are the forest's compaction** -/
theorem compact_iff (S : BitVec 64 → Prop) (r : Nat) (hr : r ≤ 15) (p : Cell) :
    p ∈ Compact h3Forest r (liftS S) ↔ MaxFull S r p.1 := by
  show (Full h3Forest r (liftS S) p ∧ (getRes p.1 = 0 ∨ ¬ Full h3Forest r (liftS S) (par p))) ↔ _
  unfold MaxFull
  rw [full_iff S r hr p]
  by_cases h0 : getRes p.1 = 0
  · simp [h0]
  · rw [full_iff S r hr (par p), par_eq p (by omega)]

/-- **C06, end to end.** Whenever the compactCells model succeeds on a duplicate-free array of valid
cells of one resolution r: (1) a value is in the output iff it is (the index of) an element of the
canonical compaction `Compact` of the input set; consequently (2) the resolution-r descendants of the
output cells are input cells, (3) every input cell lies under exactly one output cell, (4) no complete
set of siblings is in the output. -/
theorem compactCells_canonical (sched : Nat → Bool) (cells : Array (BitVec 64)) (r : Nat) (hr : r ≤ 15)
    (hv : ∀ c ∈ cells.toList, ValidN c ∧ getRes c = r) (hnd : cells.toList.Nodup)
    (out : Array (BitVec 64)) (h : (compactCells sched cells).1 = .ok out) :
    let S := liftS (fun c => c ∈ cells.toList)
    (∀ x, x ∈ out.toList ↔ ∃ p : Cell, p ∈ Compact h3Forest r S ∧ p.1 = x) ∧
    (∀ p : Cell, p.1 ∈ out.toList → ∀ y ∈ cellToChildrenS p.1 (r : Int), y ∈ cells.toList) ∧
    (∀ c : Cell, c.1 ∈ cells.toList → ∃ p : Cell, p.1 ∈ out.toList ∧ c.1 ∈ cellToChildrenS p.1 (r : Int) ∧
        ∀ q : Cell, q.1 ∈ out.toList → c.1 ∈ cellToChildrenS q.1 (r : Int) → q = p) ∧
    (∀ q : Cell, getRes q.1 < r → ¬ ∀ k ∈ kids q.1, k ∈ out.toList) := by
  intro S
  have hmem := compactCells_refines sched cells r hr hv hnd out h
  have hcell : ∀ p : Cell, p.1 ∈ out.toList ↔ p ∈ Compact h3Forest r S := by
    intro p; rw [hmem p.1]; exact (compact_iff _ r hr p).symm
  refine ⟨?_, ?_, ?_, ?_⟩
  · intro x
    constructor
    · intro hx
      have hm := (hmem x).mp hx
      exact ⟨cellOf x hm.1.1, (compact_iff _ r hr _).mpr hm, rfl⟩
    · rintro ⟨p, hp, rfl⟩
      exact (hcell p).mpr hp
  · intro p hp y hy
    exact ((hmem p.1).mp hp).1.2.2 y hy
  · intro c hc
    have hcS : c ∈ S := hc
    have hSr : ∀ x ∈ S, getRes x.1 = r := fun x hx => (hv x.1 hx).2
    obtain ⟨p, hp, hu⟩ := h3_compact_complete hSr hcS
    refine ⟨p, (hcell p).mpr hp, (under_iff r hr (r - getRes p.1) p c (by have := hu.2.1; show getRes p.1 + _ = r; have h' : getRes p.1 ≤ r := this; omega)).mp hu, ?_⟩
    intro q hq hcq
    have hq' := (hcell q).mp hq
    have huq := (under_iff r hr (r - getRes q.1) q c (by have := ((hmem q.1).mp hq).1.2.1; omega)).mpr hcq
    exact h3_compact_unique hq' hp huq hu
  · intro q hq hall
    apply h3_compact_no_full_family (S := S) hr q hq
    intro c hc
    have hcm : c.1 ∈ kids q.1 := by
      rw [mem_kidsList] at hc
      rw [kids_eq q.1 (validN_cell q) (by omega)]; exact hc
    exact (hcell c).mp (hall c.1 hcm)

/-- **order independence**: two successful runs on arrays with the same elements write the same set -/
theorem compactCells_order_independent (s1 s2 : Nat → Bool) (c1 c2 : Array (BitVec 64)) (r : Nat) (hr : r ≤ 15)
    (hv : ∀ c ∈ c1.toList, ValidN c ∧ getRes c = r) (hn1 : c1.toList.Nodup) (hn2 : c2.toList.Nodup)
    (hperm : ∀ x, x ∈ c1.toList ↔ x ∈ c2.toList)
    (o1 o2 : Array (BitVec 64)) (h1 : (compactCells s1 c1).1 = .ok o1) (h2 : (compactCells s2 c2).1 = .ok o2) :
    ∀ x, x ∈ o1.toList ↔ x ∈ o2.toList := by
  intro x
  have hv2 : ∀ c ∈ c2.toList, ValidN c ∧ getRes c = r := fun c hc => hv c ((hperm c).mpr hc)
  rw [compactCells_refines s1 c1 r hr hv hn1 o1 h1 x, compactCells_refines s2 c2 r hr hv2 hn2 o2 h2 x]
  have : (fun c => c ∈ c1.toList) = (fun c => c ∈ c2.toList) := by funext c; exact propext (hperm c)
  rw [this]

end H3.C06F
