/-
C01 (closure clause) for the polygon fill: every 64-bit value that the traversal of polygonToCellsExperimental
(model: H3Model/PolyIter.lean; theorem `PolyT.polyfill_exact`) puts into its output is accepted by the translated C
function `isValidCell`, has the target resolution, and is listed once.  This closes the last cell-returning function
of the model for which the closure clause of C01 had no theorem (cellsToLinkedMultiPolygon returns no cells).
The statement is relative to the same abstract geometry as C07Iter (`Sound g res`: the two pruning assumptions);
whatever the floating-point predicates answer, the cells that come out are valid cells.
-/
import H3Proofs.Props.C07Iter
import H3Proofs.Props.C01

namespace H3.C01P
open H3 H3.Bits H3.PolyT

/-- the expanded output of the compact iterator, as in `polyfill_exact` -/
def polyOut (g : PolyGeo) (res : Nat) : List (BitVec 64) :=
  (polyRun g res (1 + ((List.range' 0 122).map fun bc => cost g res (setH3Index 0 bc 0)).sum)
    (setH3Index 0 0 0)).flatMap (fun y => cellToChildrenS y res)

/-- **C01 closure, polygon fill**: every cell of the output is a valid cell (by the C text of `isValidCell`, translated
on every run) of the requested resolution, and it satisfies the per-mode predicate. -/
theorem polyfill_valid (g : PolyGeo) (res : Nat) (hres : res ≤ 15) (hs : Sound g res) (x : BitVec 64)
    (hx : x ∈ polyOut g res) :
    Gen.Bits.isValidCell x = 1#32 ∧ getRes x = res ∧ g.fine x = true := by
  have h := (polyfill_mem g res hres hs x).mp hx
  have hl := (C03C.mem_cellsEnum_iff res hres x).mp h.1
  refine ⟨?_, hl.2, h.2⟩
  rw [C01.isValidCell_eq_layout, hl.1]; rfl

/-- the null index is never part of the output (the C function's callers rely on "no H3_NULL among the results"
of the experimental fill, unlike the legacy one) -/
theorem polyfill_no_null (g : PolyGeo) (res : Nat) (hres : res ≤ 15) (hs : Sound g res) : (0#64) ∉ polyOut g res := by
  intro h0
  have h := polyfill_valid g res hres hs _ h0
  have : Gen.Bits.isValidCell 0#64 = 0#32 := by decide
  rw [this] at h
  exact absurd h.1 (by decide)

/-- with a capacity: whatever prefix `polyExpand` writes consists of members of the full expansion -/
theorem polyExpand_subset (compact : List (BitVec 64)) (res : Nat) (size : Int) (x : BitVec 64)
    (hx : x ∈ (polyExpand compact res size).2) :
    x ∈ compact.flatMap fun c => cellToChildren c (res : Int) := by
  unfold polyExpand at hx
  simp only [] at hx
  split at hx
  · exact List.mem_of_mem_take hx
  · exact hx

end H3.C01P
