/-
C05 — complete resolution 1 (842 cells), decided in the kernel over the regenerated tables: every cell
has six (a pentagon five) distinct neighbours, all of them valid cells of resolution 1 different from
the cell.  A *family* result: it covers every base-cell boundary crossing, every pentagon special case
and every face once, and says nothing about finer resolutions (those are the unbounded theorems of
C05Valid2 / C05Symm / C05Pent and the correspondence runs).
-/
import H3Proofs.Props.C05Array
import H3Model.HierSpec

namespace H3.Small
open H3 H3.C05A

def cells1 : List (BitVec 64) := cellsEnumS 1

theorem res1_neighbor_counts :
    cells1.length = 842 ∧
    cells1.all (fun h => ((cellNeighbors h).eraseDups.length == (if isPentagon h then 5 else 6)) &&
      (cellNeighbors h).all (fun n => getRes n == 1 && n != h && isValidCell n)) = true := by
  decide +kernel

end H3.Small
