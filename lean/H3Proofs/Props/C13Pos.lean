/-
`cellToChildPos`: the unrolled shape (C13PosShape) is the model's function.
-/
import H3Proofs.Props.C13PosShape
import Mathlib.Tactic.IntervalCases

namespace H3.C13P
open H3 H3.Bits

/-! ### the model, with its loops named -/

def specH (child : BitVec 64) (cr : Nat) (out : Int) (k : Nat) : R Int :=
  if getDigit child (cr - k) == 7 then .error .cellInvalid
  else .ok (out + (getDigit child (cr - k) : Int) * ipow 7 (cr - (cr - k)))

def specP (child : BitVec 64) (cr : Nat) (out : Int) (k : Nat) : R Int :=
  match cellToParent child (((cr - k : Nat) : Int) - 1) with
  | .error e => .error e
  | .ok parent =>
    if getDigit child (cr - k) == 7 || (isPentagon parent && getDigit child (cr - k) == 1) then .error .cellInvalid
    else
      if (if isPentagon parent && decide (getDigit child (cr - k) > 0) then getDigit child (cr - k) - 1 else getDigit child (cr - k)) != 0 then
        .ok (out + (if isPentagon parent then 1 + 5 * (ipow 7 (cr - (cr - k)) - 1) / 6 else ipow 7 (cr - (cr - k)))
              + (((if isPentagon parent && decide (getDigit child (cr - k) > 0) then getDigit child (cr - k) - 1 else getDigit child (cr - k) : Nat) : Int) - 1) * ipow 7 (cr - (cr - k)))
      else .ok out

def fin (child op : BitVec 64) (r : R Int) : R Int :=
  match r with
  | .error e => .error e
  | .ok out =>
    match validateChildPos out op (getRes child) with
    | .error _ => .error .failed
    | .ok () => .ok out

theorem foldlM_congr' (f g : Int → Nat → R Int) (h : ∀ a b, f a b = g a b) (l : List Nat) (init : Int) :
    List.foldlM f init l = List.foldlM g init l := by
  have : f = g := funext fun a => funext fun b => h a b
  rw [this]

theorem cellToChildPos_unfold (child : BitVec 64) (pr : Int) :
    H3.cellToChildPos child pr =
      (match cellToParent child pr with
       | .error e => .error e
       | .ok op =>
         fin child op (if isPentagon op then (List.range' 0 (getRes child - pr.toNat)).foldlM (specP child (getRes child)) (0 : Int)
                else (List.range' 0 (getRes child - pr.toNat)).foldlM (specH child (getRes child)) (0 : Int))) := by
  unfold H3.cellToChildPos
  cases cellToParent child pr with
  | error e => rfl
  | ok op =>
    simp only [bind, Except.bind]
    cases hp : isPentagon op
    · simp only [Bool.false_eq_true, if_false]
      rw [foldlM_congr' _ (specH child (getRes child))]
      · generalize List.foldlM (specH child (getRes child)) 0 (List.range' 0 (getRes child - pr.toNat)) = r
        cases r with
        | error e => rfl
        | ok v => unfold fin; cases validateChildPos v op (getRes child) <;> rfl
      · intro a b
        unfold specH
        split <;> rfl
    · simp only [if_true]
      rw [foldlM_congr' _ (specP child (getRes child))]
      · generalize List.foldlM (specP child (getRes child)) 0 (List.range' 0 (getRes child - pr.toNat)) = r
        cases r with
        | error e => rfl
        | ok v => unfold fin; cases validateChildPos v op (getRes child) <;> rfl
      · intro a b
        unfold specP
        cases cellToParent child (((getRes child - b : Nat) : Int) - 1) with
        | error e => rfl
        | ok parent =>
          simp only []
          split
          · rfl
          · split <;> rfl

/-! ### arithmetic glue -/

theorem ipow7_pow : ∀ s : Fin 17, s.val < 16 → H3.ipow 7 s.val = 7 ^ s.val := by decide +kernel

theorem get_digit_ofNat (child : BitVec 64) (r : Nat) :
    Gen.Bits.m_get_digit child (BitVec.ofNat 32 r) = BitVec.ofNat 32 (getDigit child r) := by
  unfold getDigit
  rw [BitVec.ofNat_toNat, BitVec.setWidth_eq]

theorem ofNat_sub_one (a : Nat) (h1 : 1 ≤ a) (h2 : a < 2 ^ 31) : BitVec.ofNat 32 a - 1#32 = BitVec.ofNat 32 (a - 1) := by
  apply BitVec.eq_of_toNat_eq
  rw [BitVec.toNat_sub]
  simp [BitVec.toNat_ofNat]
  omega

theorem ofNat_sub_ofNat (a b : Nat) (h1 : b ≤ a) (h2 : a < 2 ^ 31) :
    BitVec.ofNat 32 a - BitVec.ofNat 32 b = BitVec.ofNat 32 (a - b) := by
  apply BitVec.eq_of_toNat_eq
  rw [BitVec.toNat_sub]
  simp [BitVec.toNat_ofNat]
  omega

theorem slt_ofNat (pr : BitVec 32) (p a : Nat) (hp : pr.toInt = (p : Int)) (ha : a < 2 ^ 31) :
    BitVec.slt pr (BitVec.ofNat 32 a) = decide (p < a) := by
  unfold BitVec.slt
  have e : (BitVec.ofNat 32 a).toInt = (a : Int) := by
    rw [BitVec.toInt_eq_toNat_of_lt (by simp [BitVec.toNat_ofNat]; omega)]
    simp [BitVec.toNat_ofNat]; omega
  rw [hp, e]
  simp

theorem hc7_eq (cr s : Nat) (hs : s ≤ cr) (hcr : cr < 16) :
    hc7 (BitVec.ofNat 32 cr) (BitVec.ofNat 32 (cr - s)) = BitVec.ofInt 64 (7 ^ s) := by
  unfold hc7
  rw [ofNat_sub_ofNat cr (cr - s) (by omega) (by omega)]
  have e : cr - (cr - s) = s := by omega
  have hsm : (BitVec.ofNat 32 s).toNat < 16 := by
    have : s % 2 ^ 32 = s := Nat.mod_eq_of_lt (by omega)
    rw [BitVec.toNat_ofNat, this]; omega
  rw [e, C04G.signExtend_small (BitVec.ofNat 32 s) hsm]
  have e2 : (BitVec.ofNat 32 s).toNat = s := by
    rw [BitVec.toNat_ofNat]; exact Nat.mod_eq_of_lt (by omega)
  rw [e2]
  have T := (C04G.ipow7_tbl ⟨s, by omega⟩).2.1
  dsimp only at T
  rw [show BitVec.signExtend 64 7#32 = 7#64 from rfl, T, ipow7_pow ⟨s, by omega⟩ (by simp; omega)]

theorem pent7_eq (cr s : Nat) (hs : s ≤ cr) (hcr : cr < 16) :
    (BitVec.signExtend 64 1#32) + (BitVec.sdiv ((BitVec.signExtend 64 5#32) * (hc7 (BitVec.ofNat 32 cr) (BitVec.ofNat 32 (cr - s)) - (BitVec.signExtend 64 1#32))) (BitVec.signExtend 64 6#32)) =
      BitVec.ofInt 64 (1 + 5 * (7 ^ s - 1) / 6) := by
  unfold hc7
  rw [ofNat_sub_ofNat cr (cr - s) (by omega) (by omega)]
  have e : cr - (cr - s) = s := by omega
  have hsm : (BitVec.ofNat 32 s).toNat < 16 := by
    have : s % 2 ^ 32 = s := Nat.mod_eq_of_lt (by omega)
    rw [BitVec.toNat_ofNat, this]; omega
  rw [e, C04G.signExtend_small (BitVec.ofNat 32 s) hsm]
  have e2 : (BitVec.ofNat 32 s).toNat = s := by
    rw [BitVec.toNat_ofNat]; exact Nat.mod_eq_of_lt (by omega)
  rw [e2]
  have T := (C04G.ipow7_tbl ⟨s, by omega⟩).2.2.1
  dsimp only at T
  rw [show BitVec.signExtend 64 7#32 = 7#64 from rfl, show BitVec.signExtend 64 1#32 = 1#64 from rfl,
    show BitVec.signExtend 64 5#32 = 5#64 from rfl, show BitVec.signExtend 64 6#32 = 6#64 from rfl, T,
    ipow7_pow ⟨s, by omega⟩ (by simp; omega)]

/-! ### the hexagon loop -/

theorem loopH (child : BitVec 64) (pr : BitVec 32) (p cr : Nat) (op uv : BitVec 64)
    (hpr : pr.toInt = (p : Int)) (hpc : p ≤ cr) (hcr : cr < 16) :
    ∀ (n s fuel : Nat) (acc : Int), s + n = cr - p → n < fuel → 0 ≤ acc → acc < 7 ^ s →
      match (List.range' s n).foldlM (specH child cr) acc with
      | .error e =>
          codeH child pr (BitVec.ofNat 32 cr) op uv fuel (BitVec.ofNat 32 (cr - s)) (BitVec.ofInt 64 acc) = BitVec.ofNat 32 e.code
      | .ok v =>
          codeH child pr (BitVec.ofNat 32 cr) op uv fuel (BitVec.ofNat 32 (cr - s)) (BitVec.ofInt 64 acc) =
            finalCode (BitVec.ofInt 64 v) op (BitVec.ofNat 32 cr) uv ∧
          outH child pr (BitVec.ofNat 32 cr) fuel (BitVec.ofNat 32 (cr - s)) (BitVec.ofInt 64 acc) = BitVec.ofInt 64 v ∧
          0 ≤ v ∧ v < 7 ^ (s + n) := by
  intro n
  induction n with
  | zero =>
    intro s fuel acc h1 h2 h3 h4
    obtain ⟨f, rfl⟩ : ∃ f, fuel = f + 1 := ⟨fuel - 1, by omega⟩
    simp only [List.range'_zero, List.foldlM_nil, pure, Except.pure]
    unfold codeH outH
    rw [slt_ofNat pr p (cr - s) hpr (by omega)]
    have c : ¬ p < cr - s := by omega
    have e0 : ((0#32 != 0#32) = false) := by decide
    simp only [c, decide_false, Bool.false_eq_true, if_false, e0]
    exact ⟨trivial, trivial, h3, by simpa using h4⟩
  | succ n ih =>
    intro s fuel acc h1 h2 h3 h4
    obtain ⟨f, rfl⟩ : ∃ f, fuel = f + 1 := ⟨fuel - 1, by omega⟩
    rw [List.range'_succ, List.foldlM_cons]
    unfold codeH outH
    rw [slt_ofNat pr p (cr - s) hpr (by omega)]
    have c : p < cr - s := by omega
    have e1 : ((1#32 != 0#32) = true) := by decide
    simp only [c, decide_true, if_true, e1]
    rw [get_digit_ofNat]
    have hd := getDigit_lt child (cr - s)
    unfold specH
    by_cases d7 : getDigit child (cr - s) = 7
    · have a : (BitVec.ofNat 32 (getDigit child (cr - s)) == 7#32) = true := by rw [d7]; rfl
      have b : (getDigit child (cr - s) == 7) = true := by rw [d7]; rfl
      simp only [a, b, if_true, e1, bind, Except.bind]
      rfl
    · have a : (BitVec.ofNat 32 (getDigit child (cr - s)) == 7#32) = false := by
        have : BitVec.ofNat 32 (getDigit child (cr - s)) ≠ 7#32 := by
          intro hh
          have := congrArg BitVec.toNat hh
          simp [BitVec.toNat_ofNat] at this
          omega
        simpa using this
      have b : (getDigit child (cr - s) == 7) = false := by simpa using d7
      have e0 : ((0#32 != 0#32) = false) := by decide
      simp only [a, b, Bool.false_eq_true, if_false, e0, bind, Except.bind]
      rw [hc7_eq cr s (by omega) hcr]
      have hse : BitVec.signExtend 64 (BitVec.ofNat 32 (getDigit child (cr - s))) = BitVec.ofInt 64 (getDigit child (cr - s) : Int) := by
        have hsm : (BitVec.ofNat 32 (getDigit child (cr - s))).toNat < 16 := by
          have : getDigit child (cr - s) % 2 ^ 32 = getDigit child (cr - s) := Nat.mod_eq_of_lt (by omega)
          rw [BitVec.toNat_ofNat, this]; omega
        rw [C04G.signExtend_small _ hsm]
        have : (BitVec.ofNat 32 (getDigit child (cr - s))).toNat = getDigit child (cr - s) := by
          rw [BitVec.toNat_ofNat]; exact Nat.mod_eq_of_lt (by omega)
        rw [this, BitVec.ofInt_natCast]
      rw [hse, ← BitVec.ofInt_mul, ← BitVec.ofInt_add]
      have e2 : cr - (cr - s) = s := by omega
      rw [e2, ipow7_pow ⟨s, by omega⟩ (by simp; omega)]
      rw [ofNat_sub_one (cr - s) (by omega) (by omega)]
      have e3 : cr - s - 1 = cr - (s + 1) := by omega
      rw [e3]
      have hp7 : (0 : Int) < 7 ^ s := Int.pow_pos (by decide)
      have hnn : (0 : Int) ≤ (getDigit child (cr - s) : Int) * 7 ^ s := Int.mul_nonneg (by omega) (by omega)
      have hup : (getDigit child (cr - s) : Int) * 7 ^ s ≤ 6 * 7 ^ s :=
        Int.mul_le_mul_of_nonneg_right (by omega) (by omega)
      have h7 : (7 : Int) ^ (s + 1) = 7 * 7 ^ s := by rw [Int.pow_succ]; omega
      have := ih (s + 1) f (acc + (getDigit child (cr - s) : Int) * 7 ^ s) (by omega) (by omega) (by omega) (by omega)
      have e4 : s + 1 + n = s + (n + 1) := by omega
      rw [e4] at this
      exact this

/-! ### the pentagon loop -/

def modelStep (ppb : Bool) (d : Nat) (acc hcI pentI : Int) : Int :=
  if (if ppb && decide (d > 0) then d - 1 else d) != 0 then
    acc + (if ppb then pentI else hcI) + (((if ppb && decide (d > 0) then d - 1 else d : Nat) : Int) - 1) * hcI
  else acc

theorem step_case (ppb : Bool) (d : Nat) (hd : d < 8) (acc hcI pentI : Int) (hc : BitVec 64) (hhc : hc = BitVec.ofInt 64 hcI)
    (hpent : (BitVec.signExtend 64 1#32) + (BitVec.sdiv ((BitVec.signExtend 64 5#32) * (hc - (BitVec.signExtend 64 1#32))) (BitVec.signExtend 64 6#32)) = BitVec.ofInt 64 pentI) :
    badP (if ppb then 1#32 else 0#32) (BitVec.ofNat 32 d) = (d == 7 || (ppb && d == 1)) ∧
    ((d == 7 || (ppb && d == 1)) = false →
      stepOut (if ppb then 1#32 else 0#32) (BitVec.ofNat 32 d) hc (BitVec.ofInt 64 acc) = BitVec.ofInt 64 (modelStep ppb d acc hcI pentI)) := by
  unfold stepOut
  rw [hpent]
  subst hhc
  cases ppb <;> interval_cases d <;> refine ⟨by decide, fun hbad => ?_⟩ <;> first
    | (exfalso; revert hbad; decide)
    | (simp [modelStep, BitVec.ofInt_add, BitVec.ofInt_mul]; try ac_rfl)

theorem modelStep_bound (ppb : Bool) (d : Nat) (acc x : Int) (hd : d < 7) (hx : 1 ≤ x) :
    acc ≤ modelStep ppb d acc x (1 + 5 * (x - 1) / 6) ∧ modelStep ppb d acc x (1 + 5 * (x - 1) / 6) ≤ acc + 6 * x := by
  cases ppb <;> interval_cases d <;> simp [modelStep] <;> omega

theorem loopP (child : BitVec 64) (pr : BitVec 32) (p cr : Nat) (op uv : BitVec 64)
    (hpr : pr.toInt = (p : Int)) (hpc : p ≤ cr) (hcr : cr < 16) :
    ∀ (n s fuel : Nat) (parent : BitVec 64) (acc : Int), s + n = cr - p → n < fuel → 0 ≤ acc → acc < 7 ^ s →
      match (List.range' s n).foldlM (specP child cr) acc with
      | .error e =>
          codeP child pr (BitVec.ofNat 32 cr) op uv fuel (BitVec.ofNat 32 (cr - s)) parent (BitVec.ofInt 64 acc) = BitVec.ofNat 32 e.code
      | .ok v =>
          codeP child pr (BitVec.ofNat 32 cr) op uv fuel (BitVec.ofNat 32 (cr - s)) parent (BitVec.ofInt 64 acc) =
            finalCode (BitVec.ofInt 64 v) op (BitVec.ofNat 32 cr) uv ∧
          outP child pr (BitVec.ofNat 32 cr) fuel (BitVec.ofNat 32 (cr - s)) parent (BitVec.ofInt 64 acc) = BitVec.ofInt 64 v ∧
          0 ≤ v ∧ v < 7 ^ (s + n) := by
  intro n
  induction n with
  | zero =>
    intro s fuel parent acc h1 h2 h3 h4
    obtain ⟨f, rfl⟩ : ∃ f, fuel = f + 1 := ⟨fuel - 1, by omega⟩
    simp only [List.range'_zero, List.foldlM_nil, pure, Except.pure]
    unfold codeP outP
    rw [slt_ofNat pr p (cr - s) hpr (by omega)]
    have c : ¬ p < cr - s := by omega
    have e0 : ((0#32 != 0#32) = false) := by decide
    simp only [c, decide_false, Bool.false_eq_true, if_false, e0]
    exact ⟨trivial, trivial, h3, by simpa using h4⟩
  | succ n ih =>
    intro s fuel parent acc h1 h2 h3 h4
    obtain ⟨f, rfl⟩ : ∃ f, fuel = f + 1 := ⟨fuel - 1, by omega⟩
    rw [List.range'_succ, List.foldlM_cons]
    unfold codeP outP
    rw [slt_ofNat pr p (cr - s) hpr (by omega)]
    have c : p < cr - s := by omega
    have e1 : ((1#32 != 0#32) = true) := by decide
    simp only [c, decide_true, if_true, e1]
    rw [get_digit_ofNat, ofNat_sub_one (cr - s) (by omega) (by omega)]
    have hd := getDigit_lt child (cr - s)
    have M := C04G.cellToParent_eq_model child (BitVec.ofNat 32 (cr - s - 1)) parent
    have hti : (BitVec.ofNat 32 (cr - s - 1)).toInt = ((cr - s : Nat) : Int) - 1 := by
      rw [BitVec.toInt_eq_toNat_of_lt (by rw [BitVec.toNat_ofNat]; omega)]
      rw [BitVec.toNat_ofNat, Nat.mod_eq_of_lt (by omega)]
      omega
    rw [hti] at M
    unfold specP
    generalize H3.cellToParent child (((cr - s : Nat) : Int) - 1) = q at M
    cases q with
    | error e =>
      simp only at M
      have a : (BitVec.ofNat 32 e.code != 0#32) = true := by simpa using C13G.code_ne_zero e
      simp only [M.1, a, if_true, e1, bind, Except.bind]
    | ok parent' =>
      simp only at M
      have e0 : ((0#32 != 0#32) = false) := by decide
      simp only [M.1, M.2, e0, Bool.false_eq_true, if_false]
      rw [C04G.isPentagon_eq_model]
      have S := step_case (H3.isPentagon parent') (getDigit child (cr - s)) hd acc (7 ^ s) (1 + 5 * (7 ^ s - 1) / 6)
        (hc7 (BitVec.ofNat 32 cr) (BitVec.ofNat 32 (cr - s))) (hc7_eq cr s (by omega) hcr) (pent7_eq cr s (by omega) hcr)
      rw [S.1]
      have e2 : cr - (cr - s) = s := by omega
      rw [e2, ipow7_pow ⟨s, by omega⟩ (by simp; omega)]
      cases hb : (getDigit child (cr - s) == 7 || (H3.isPentagon parent' && getDigit child (cr - s) == 1))
      · simp only [Bool.false_eq_true, if_false, bind, Except.bind]
        rw [S.2 hb]
        have e3 : cr - s - 1 = cr - (s + 1) := by omega
        rw [e3]
        have hd7 : getDigit child (cr - s) < 7 := by
          by_cases h7 : getDigit child (cr - s) = 7
          · rw [h7] at hb; simp at hb
          · omega
        have hp7 : (1 : Int) ≤ 7 ^ s := by
          have : (0 : Int) < 7 ^ s := Int.pow_pos (by decide)
          omega
        have B := modelStep_bound (H3.isPentagon parent') (getDigit child (cr - s)) acc (7 ^ s) hd7 hp7
        have h7 : (7 : Int) ^ (s + 1) = 7 * 7 ^ s := by rw [Int.pow_succ]; omega
        have I := ih (s + 1) f parent' (modelStep (H3.isPentagon parent') (getDigit child (cr - s)) acc (7 ^ s) (1 + 5 * (7 ^ s - 1) / 6))
          (by omega) (by omega) (by omega) (by omega)
        have e4 : s + 1 + n = s + (n + 1) := by omega
        rw [e4] at I
        have em : (if ((if (H3.isPentagon parent' && decide (getDigit child (cr - s) > 0)) = true then getDigit child (cr - s) - 1 else getDigit child (cr - s)) != 0) = true then
              (Except.ok (acc + (if H3.isPentagon parent' = true then 1 + 5 * (7 ^ s - 1) / 6 else 7 ^ s) +
                (((if (H3.isPentagon parent' && decide (getDigit child (cr - s) > 0)) = true then getDigit child (cr - s) - 1 else getDigit child (cr - s) : Nat) : Int) - 1) * 7 ^ s) : R Int)
            else Except.ok acc) = Except.ok (modelStep (H3.isPentagon parent') (getDigit child (cr - s)) acc (7 ^ s) (1 + 5 * (7 ^ s - 1) / 6)) := by
          unfold modelStep
          exact (apply_ite Except.ok _ _ _).symm
        rw [em]
        exact I
      · simp only [if_true, bind, Except.bind]
        rfl

/-! ### the function -/

theorem cellToParent_ok_range (c : BitVec 64) (r : Int) (op : BitVec 64) (h : H3.cellToParent c r = .ok op) :
    0 ≤ r ∧ r ≤ (getRes c : Int) := by
  unfold H3.cellToParent at h
  by_cases c1 : r < 0
  · simp [c1] at h
  by_cases c2 : r > 15
  · simp [c1, c2] at h
  by_cases c3 : r > (getRes c : Int)
  · simp [c1, c2, c3] at h
  omega

theorem finish (child op uv : BitVec 64) (cr : Nat) (hcr : cr < 16) (hres : getRes child = cr) (v : Int) (h0 : 0 ≤ v) (h1 : v < 7 ^ 16) :
    match fin child op (.ok v) with
    | .ok w => finalCode (BitVec.ofInt 64 v) op (BitVec.ofNat 32 cr) uv = 0#32 ∧ w = v
    | .error e => finalCode (BitVec.ofInt 64 v) op (BitVec.ofNat 32 cr) uv = BitVec.ofNat 32 e.code := by
  unfold fin finalCode
  have V := C13G.validateChildPos_eq_model (BitVec.ofInt 64 v) op (BitVec.ofNat 32 cr) uv
  have e1 : (BitVec.ofInt 64 v).toInt = v := by
    rw [BitVec.toInt_ofInt]
    have : (7 : Int) ^ 16 < 2 ^ 62 := by decide
    exact Int.bmod_eq_of_le (by omega) (by omega)
  have e2 : (BitVec.ofNat 32 cr).toInt = (cr : Int) := by
    rw [BitVec.toInt_eq_toNat_of_lt (by rw [BitVec.toNat_ofNat]; omega)]
    rw [BitVec.toNat_ofNat, Nat.mod_eq_of_lt (by omega)]
  rw [e1, e2] at V
  rw [hres]
  simp only
  generalize H3.validateChildPos v op (cr : Int) = q at V
  cases q with
  | error e =>
    simp only at V
    have a : (BitVec.ofNat 32 e.code != 0#32) = true := by simpa using C13G.code_ne_zero e
    have e1' : ((1#32 != 0#32) = true) := by decide
    simp only [V, a, if_true, e1']
    rfl
  | ok u =>
    simp only at V
    have e0 : ((0#32 != 0#32) = false) := by decide
    simp only [V, e0, Bool.false_eq_true, if_false]
    exact ⟨trivial, trivial⟩

/-- **the C function `cellToChildPos` is the model's `cellToChildPos`**: the same error code, and on success the same
position, for every index, every `int` parent resolution and every value of the uninitialised locals -/
theorem cellToChildPos_eq_model (c : BitVec 64) (pr : BitVec 32) (o uo uv : BitVec 64) :
    match H3.cellToChildPos c pr.toInt with
    | .ok v => Gen.Bits.cellToChildPos c pr o uo uv = 0#32 ∧ Gen.Bits.cellToChildPos_out_out c pr o uo uv = BitVec.ofInt 64 v
    | .error e => Gen.Bits.cellToChildPos c pr o uo uv = BitVec.ofNat 32 e.code := by
  rw [code_shape, out_shape, cellToChildPos_unfold]
  have M := C04G.cellToParent_eq_model c pr uo
  have hcr := getRes_lt c
  have hm : Gen.Bits.m_get_resolution c = BitVec.ofNat 32 (getRes c) := by
    unfold getRes; rw [BitVec.ofNat_toNat, BitVec.setWidth_eq]
  cases hq : H3.cellToParent c pr.toInt with
  | error e =>
    rw [hq] at M
    simp only at M
    have a : (BitVec.ofNat 32 e.code != 0#32) = true := by simpa using C13G.code_ne_zero e
    simp only [M.1, a, if_true]
  | ok op =>
    rw [hq] at M
    simp only at M
    obtain ⟨r0, r1⟩ := cellToParent_ok_range c pr.toInt op hq
    have hpr : pr.toInt = ((pr.toInt.toNat : Nat) : Int) := by omega
    have hpc : pr.toInt.toNat ≤ getRes c := by omega
    have e0 : ((0#32 != 0#32) = false) := by decide
    simp only [M.1, M.2, e0, Bool.false_eq_true, if_false, hm]
    rw [C04G.isPentagon_eq_model]
    have z0 : (0#64 : BitVec 64) = BitVec.ofInt 64 0 := rfl
    have zc : BitVec.ofNat 32 (getRes c) = BitVec.ofNat 32 (getRes c - 0) := rfl
    cases hp : H3.isPentagon op
    · simp only [Bool.false_eq_true, if_false, e0]
      have L := loopH c pr pr.toInt.toNat (getRes c) op uv hpr hpc hcr (getRes c - pr.toInt.toNat) 0 16 0
        (by omega) (by omega) (by omega) (by decide)
      rw [← zc, ← z0] at L
      generalize List.foldlM (specH c (getRes c)) 0 (List.range' 0 (getRes c - pr.toInt.toNat)) = r at L
      cases r with
      | error e => simp only at L; simp only [fin]; exact L
      | ok v =>
        simp only at L
        obtain ⟨l1, l2, l3, l4⟩ := L
        have hb : v < 7 ^ 16 := by
          have T : ∀ k : Fin 17, (7 : Int) ^ k.val ≤ 7 ^ 16 := by decide
          have := T ⟨0 + (getRes c - pr.toInt.toNat), by omega⟩
          dsimp only at this
          omega
        have F := finish c op uv (getRes c) hcr rfl v l3 hb
        rw [l1, l2]
        generalize fin c op (Except.ok v) = w at F
        cases w with
        | error e => exact F
        | ok w => simp only at F; rw [F.2]; exact ⟨F.1, rfl⟩
    · have e1 : ((1#32 != 0#32) = true) := by decide
      simp only [if_true, e1]
      have L := loopP c pr pr.toInt.toNat (getRes c) op uv hpr hpc hcr (getRes c - pr.toInt.toNat) 0 16 op 0
        (by omega) (by omega) (by omega) (by decide)
      rw [← zc, ← z0] at L
      generalize List.foldlM (specP c (getRes c)) 0 (List.range' 0 (getRes c - pr.toInt.toNat)) = r at L
      cases r with
      | error e => simp only at L; simp only [fin]; exact L
      | ok v =>
        simp only at L
        obtain ⟨l1, l2, l3, l4⟩ := L
        have hb : v < 7 ^ 16 := by
          have T : ∀ k : Fin 17, (7 : Int) ^ k.val ≤ 7 ^ 16 := by decide
          have := T ⟨0 + (getRes c - pr.toInt.toNat), by omega⟩
          dsimp only at this
          omega
        have F := finish c op uv (getRes c) hcr rfl v l3 hb
        rw [l1, l2]
        generalize fin c op (Except.ok v) = w at F
        cases w with
        | error e => exact F
        | ok w => simp only at F; rw [F.2]; exact ⟨F.1, rfl⟩

-- non-vacuity: a position under a pentagon, an invalid child, a resolution error
example : H3.cellToChildPos 0x8b0918000000fff#64 (0#32 : BitVec 32).toInt = .ok 921407360 := by decide
example : H3.cellToChildPos 0x8928308280fffff#64 (12#32 : BitVec 32).toInt = .error .resMismatch := by decide

end H3.C13P
