/-
C09 — local IJ and gridDistance inside one hexagon base cell (unbounded in the resolution):
`cellToLocalIjk o h` is the base-cell-relative coordinate of `h`, gridDistance is the hexagonal
norm of the coordinate difference, and a neighbour step (Theorem A) changes the local coordinate
by exactly one unit vector, so neighbouring cells are at gridDistance 1.
-/
import H3Proofs.Props.C05Neighbor

namespace H3.C09H
open H3 H3.DP H3.Bits H3.C05N

/-- same (hexagon) base cell, same resolution: the local coordinate is the cell's own coordinate -/
theorem cellToLocalIjk_same_hex (o h : BitVec 64) (hres : getRes o = getRes h)
    (hbc : getBaseCell o = getBaseCell h) (hb : getBaseCell h < 122)
    (hhex : isBaseCellPentagon (getBaseCell h) = false) :
    cellToLocalIjk o h = .ok (h3ToIjkFrom h ⟨0, 0, 0⟩) := by
  have hb' : ¬ getBaseCell h ≥ 122 := by omega
  unfold cellToLocalIjk
  simp [hres, hbc, hb', hhex, bind, Except.bind, pure, Except.pure]

/-- the hexagonal norm of an axial vector -/
def hexNormI (v : Int × Int) : Int := max (max v.1.natAbs v.2.natAbs) (v.1 - v.2).natAbs

theorem norm_arith (x y z : Int) (hx : 0 ≤ x) (hy : 0 ≤ y) (hz : 0 ≤ z) (h0 : x = 0 ∨ y = 0 ∨ z = 0) :
    max (x.natAbs : Int) (max (y.natAbs : Int) (z.natAbs : Int)) =
      max (max ((x - z).natAbs : Int) ((y - z).natAbs : Int)) ((x - z - (y - z)).natAbs : Int) := by
  rcases h0 with h | h | h <;> subst h <;> omega

/-- `ijkDistance` is the hexagonal norm of the axial difference -/
theorem ijkDistance_eq (a b : CoordIJK) :
    ijkDistance a b = hexNormI ((ax a).1 - (ax b).1, (ax a).2 - (ax b).2) := by
  unfold ijkDistance hexNormI
  have hn := normalize_normal (a.sub b)
  have ha := ax_normalize (a.sub b)
  rw [ax_sub] at ha
  unfold ax at ha
  simp only [Prod.mk.injEq] at ha
  obtain ⟨h1, h2⟩ := ha
  unfold Normal at hn
  obtain ⟨n1, n2, n3, n4⟩ := hn
  generalize (a.sub b).normalize = d at *
  have e1 : (ax a).1 - (ax b).1 = d.i - d.k := by unfold ax; omega
  have e2 : (ax a).2 - (ax b).2 = d.j - d.k := by unfold ax; omega
  simp only [e1, e2]
  exact norm_arith d.i d.j d.k n1 n2 n3 n4

theorem hexNorm_unit : ∀ d : Fin 7, 1 ≤ d.val → hexNormI (uax d.val) = 1 := by decide +kernel

/-- **neighbouring cells (inside a hexagon base cell) are at gridDistance 1, and their local
coordinates with respect to any origin of that base cell differ by exactly the unit vector** -/
theorem unit_step (o h : BitVec 64) (dir : Nat)
    (hbo : getBaseCell o = getBaseCell h) (hro : getRes o = getRes h)
    (hbc : getBaseCell h < 122) (hhex : isBaseCellPentagon (getBaseCell h) = false)
    (hres : 1 ≤ getRes h) (hdig : Digits (revDigits h (getRes h))) (hd1 : 1 ≤ dir) (hdir : dir < 7)
    (hstay : (passR (revDigits h (getRes h)) dir).2 = 0) :
    ∃ h' r a b, h3NeighborRotations h dir 0 = .ok (h', r) ∧
      cellToLocalIjk o h = .ok a ∧ cellToLocalIjk o h' = .ok b ∧
      ax b = vadd (ax a) (uax dir) ∧ gridDistance h h' = .ok 1 := by
  obtain ⟨h', e1, e2, e3, e4, e5, e6⟩ := neighbor_is_translation h dir hbc hhex hres hdig hdir hstay
  have la := cellToLocalIjk_same_hex o h hro hbo hbc hhex
  have lb := cellToLocalIjk_same_hex o h' (by rw [e2, hro]) (by rw [e3, hbo]) (by rw [e3]; exact hbc) (by rw [e3]; exact hhex)
  refine ⟨h', 0, _, _, e1, la, lb, e6, ?_⟩
  have lhh := cellToLocalIjk_same_hex h h rfl rfl hbc hhex
  have lhh' := cellToLocalIjk_same_hex h h' e2.symm e3.symm (by rw [e3]; exact hbc) (by rw [e3]; exact hhex)
  unfold gridDistance
  simp only [lhh, lhh', bind, Except.bind, pure, Except.pure]
  congr 1
  rw [ijkDistance_eq, e6]
  have : ((ax (h3ToIjkFrom h ⟨0, 0, 0⟩)).1 - (vadd (ax (h3ToIjkFrom h ⟨0, 0, 0⟩)) (uax dir)).1,
      (ax (h3ToIjkFrom h ⟨0, 0, 0⟩)).2 - (vadd (ax (h3ToIjkFrom h ⟨0, 0, 0⟩)) (uax dir)).2) =
      (-(uax dir).1, -(uax dir).2) := by
    unfold vadd; simp only [Prod.mk.injEq]; constructor <;> omega
  rw [this]
  have hu := hexNorm_unit ⟨dir, hdir⟩ hd1
  unfold hexNormI at hu ⊢
  simp only [] at hu ⊢
  omega

end H3.C09H
