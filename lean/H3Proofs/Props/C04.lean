/-
C04 — parent / children form an exact tree partition (model: H3Model/Index.lean).
Part 1: error codes and closed-form counts (all inputs).  The enumeration theorems are in
H3Proofs/Props/C04Children.lean.
-/
import H3Model.Index
import Std.Tactic.BVDecide

namespace H3.C04
open H3

/-- `_ipow(7, n)` is `7^n` for every exponent the library uses, and stays below 2^63 (int64). -/
theorem ipow7_eq : ∀ n : Fin 16, ipow 7 n.val = 7 ^ n.val ∧ ipow 7 n.val < 2 ^ 63 := by decide +kernel

theorem ipow7 (n : Nat) (h : n ≤ 15) : ipow 7 n = 7 ^ n := (ipow7_eq ⟨n, by omega⟩).1

/-- **C04 / C12: cellToParent error codes, for every 64-bit `h` and every C `int` resolution.**
`E_RES_DOMAIN` is checked first, then `E_RES_MISMATCH`. -/
theorem cellToParent_resDomain (h : BitVec 64) (p : Int) (hp : p < 0 ∨ p > 15) :
    cellToParent h p = .error .resDomain := by
  unfold cellToParent
  have : (decide (p < 0) || decide (p > 15)) = true := by
    rcases hp with hp | hp <;> simp [hp]
  simp [this]

theorem cellToParent_resMismatch (h : BitVec 64) (p : Int) (h0 : 0 ≤ p) (h15 : p ≤ 15)
    (hgt : p > (getRes h : Int)) : cellToParent h p = .error .resMismatch := by
  unfold cellToParent
  have h1 : (decide (p < 0) || decide (p > 15)) = false := by
    simp; omega
  simp [h1, hgt]

theorem cellToParent_self (h : BitVec 64) : cellToParent h (getRes h) = .ok h := by
  unfold cellToParent
  have hr : getRes h < 16 := by
    unfold getRes H3.Gen.Bits.m_get_resolution
    have : (BitVec.setWidth 32 ((h &&& 15#64 <<< 52#32) >>> 52#32)).toNat < 16 := by
      have : BitVec.setWidth 32 ((h &&& 15#64 <<< 52#32) >>> 52#32) < 16#32 := by bv_decide
      simpa [BitVec.lt_def] using this
    exact this
  have h1 : (decide ((getRes h : Int) < 0) || decide ((getRes h : Int) > 15)) = false := by
    simp; omega
  simp [h1]

/-- **cellToChildrenSize / cellToCenterChild reject coarser-than-self and out-of-range
resolutions with E_RES_DOMAIN.** -/
theorem cellToChildrenSize_resDomain (h : BitVec 64) (c : Int) (hc : c < (getRes h : Int) ∨ c > 15) :
    cellToChildrenSize h c = .error .resDomain := by
  unfold cellToChildrenSize hasChildAtRes
  have : (decide (c < (getRes h : Int)) || decide (c > 15)) = true := by
    rcases hc with hc | hc <;> simp [hc]
  simp [this]

theorem cellToCenterChild_resDomain (h : BitVec 64) (c : Int) (hc : c < (getRes h : Int) ∨ c > 15) :
    cellToCenterChild h c = .error .resDomain := by
  unfold cellToCenterChild hasChildAtRes
  have : (decide (c < (getRes h : Int)) || decide (c > 15)) = true := by
    rcases hc with hc | hc <;> simp [hc]
  simp [this]

/-- **closed-form child count**: 7^n for a hexagon, 1 + 5(7^n − 1)/6 for a pentagon. -/
theorem cellToChildrenSize_formula (h : BitVec 64) (c : Int) (h1 : (getRes h : Int) ≤ c) (h2 : c ≤ 15) :
    cellToChildrenSize h c =
      .ok (if isPentagon h then 1 + 5 * (7 ^ (c - getRes h).toNat - 1) / 6 else 7 ^ (c - getRes h).toNat) := by
  unfold cellToChildrenSize hasChildAtRes
  have : (decide (c < (getRes h : Int)) || decide (c > 15)) = false := by
    simp; omega
  have hn : (c - (getRes h : Int)).toNat ≤ 15 := by omega
  simp only [this, Bool.not_false, ipow7 _ hn]
  by_cases hp : isPentagon h = true <;> simp [hp]

-- non-vacuity
example : cellToParent 0x8928539702bffff#64 3 = .ok 0x832853fffffffff#64 := by decide
example : cellToChildrenSize 0x8009fffffffffff#64 2 = .ok 41 := by decide

end H3.C04
