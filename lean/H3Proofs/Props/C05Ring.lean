/-
C05 / C01 (closure clause) — every cell the unsafe ring walk of `gridDiskDistancesUnsafe` /
`gridDiskUnsafe` / `gridDisksUnsafe` writes (also when it stops with an error) is a valid cell of the
origin's resolution: each is the result of a neighbour step from a valid cell (C05Valid2).
-/
import H3Proofs.Props.C05Valid2
import H3Model.Disk

namespace H3.C05R
open H3 H3.Bits H3.C05V

def P (r0 : Nat) (c : BitVec 64) : Prop := Valid.ValidN c ∧ getRes c = r0

theorem step_P (r0 : Nat) (o : BitVec 64) (d rot : Nat) (o' : BitVec 64) (r' : Nat) (hp : P r0 o)
    (hn : h3NeighborRotations o d rot = .ok (o', r')) : P r0 o' := by
  have := h3NeighborRotations_valid o d rot o' r' (validN_weak o hp.1) hn
  exact ⟨this.1, by rw [this.2, hp.2]⟩

theorem pre_spec (r0 : Nat) (st st' : WalkSt) (b : Bool) (hor : P r0 st.origin)
    (h : (if b = true then
        match h3NeighborRotations st.origin 4 st.rot with
        | Except.error e => Except.error e
        | Except.ok (o, r) =>
          if isPentagon o = true then Except.error H3Error.pentagon
          else Except.ok ({ out := st.out, dist := st.dist, origin := o, rot := r } : WalkSt)
      else Except.ok st) = (Except.ok st' : Except H3Error WalkSt)) :
    st'.out = st.out ∧ P r0 st'.origin := by
  cases b with
  | false => simp only [Bool.false_eq_true, if_false, Except.ok.injEq] at h; rw [← h]; exact ⟨rfl, hor⟩
  | true =>
    simp only [if_true] at h
    cases hn : h3NeighborRotations st.origin 4 st.rot with
    | error e => rw [hn] at h; simp at h
    | ok x =>
      obtain ⟨o, r⟩ := x
      rw [hn] at h
      simp only [] at h
      split at h
      · simp at h
      · simp only [Except.ok.injEq] at h
        rw [← h]
        exact ⟨rfl, step_P r0 _ _ _ _ _ hor hn⟩

theorem go_valid (kk r0 : Nat) : ∀ (fuel ring dir i : Nat) (st : WalkSt),
    P r0 st.origin → (∀ c ∈ st.out.toList, P r0 c) →
    ∀ c ∈ (gridDiskDistancesUnsafe.go kk ring dir i st fuel).2.1.toList, P r0 c := by
  intro fuel
  induction fuel with
  | zero => intro ring dir i st _ ho; unfold gridDiskDistancesUnsafe.go; exact ho
  | succ fuel ih =>
    intro ring dir i st hor ho
    unfold gridDiskDistancesUnsafe.go
    simp only []
    split
    · exact ho
    · split
      · exact ho
      · next st' hpre =>
        obtain ⟨e1, e2⟩ := pre_spec r0 st st' _ hor hpre
        split
        · rw [e1]; exact ho
        · next o r hn =>
          have hPo := step_P r0 _ _ _ _ _ e2 hn
          have hpush : ∀ c ∈ (st'.out.push o).toList, P r0 c := by
            intro c hc
            simp only [Array.toList_push, List.mem_append, List.mem_singleton] at hc
            rcases hc with hc | hc
            · rw [e1] at hc; exact ho c hc
            · rw [hc]; exact hPo
          split
          · exact hpush
          · exact ih _ _ _ _ hPo hpush

/-- **C05 / C01: every cell `gridDiskDistancesUnsafe` writes is a valid cell of the origin's resolution** -/
theorem gridDiskDistancesUnsafe_valid (origin : BitVec 64) (k : Int) (hv : Valid.ValidN origin) :
    ∀ c ∈ (gridDiskDistancesUnsafe origin k).2.1.toList, Valid.ValidN c ∧ getRes c = getRes origin := by
  unfold gridDiskDistancesUnsafe
  split
  · simp
  · simp only []
    split
    · intro c hc; simp at hc; rw [hc]; exact ⟨hv, rfl⟩
    · exact go_valid _ (getRes origin) _ _ _ _ _ ⟨hv, rfl⟩ (by intro c hc; simp at hc; rw [hc]; exact ⟨hv, rfl⟩)

end H3.C05R

namespace H3.C05R
open H3 H3.Bits H3.C05V

/-- state invariant of the ring loop of `gridRingUnsafe` -/
def RInv (r0 : Nat) : Except (H3Error × Array (BitVec 64)) (BitVec 64 × Nat × Array (BitVec 64)) → Prop
  | .error (_, out) => ∀ c ∈ out.toList, P r0 c
  | .ok (o, _, out) => P r0 o ∧ ∀ c ∈ out.toList, P r0 c

theorem ring_start_valid (r0 : Nat) : ∀ (l : List Nat) (o : BitVec 64) (r : Nat) (o' : BitVec 64) (r' : Nat), P r0 o →
    l.foldlM (fun (x : BitVec 64 × Nat) (_ : Nat) =>
      match h3NeighborRotations x.1 4 x.2 with
      | .error e => (.error e : Except H3Error (BitVec 64 × Nat))
      | .ok (o', r') => if isPentagon o' then .error .pentagon else .ok (o', r')) (o, r) = .ok (o', r') → P r0 o' := by
  intro l
  induction l with
  | nil => intro o r o' r' hp h; simp only [List.foldlM_nil, pure, Except.pure, Except.ok.injEq, Prod.mk.injEq] at h; rw [← h.1]; exact hp
  | cons a rest ih =>
    intro o r o' r' hp h
    rw [List.foldlM_cons] at h
    simp only [] at h
    cases hn : h3NeighborRotations o 4 r with
    | error e => rw [hn] at h; simp [bind, Except.bind] at h
    | ok x =>
      obtain ⟨o1, r1⟩ := x
      rw [hn] at h
      simp only [] at h
      by_cases hpent : isPentagon o1 = true
      · simp [hpent, bind, Except.bind] at h
      · simp only [hpent, Bool.false_eq_true, if_false, bind, Except.bind] at h
        exact ih o1 r1 o' r' (step_P r0 _ _ _ _ _ hp hn) h


def ringStep (kk : Nat) (acc : Except (H3Error × Array (BitVec 64)) (BitVec 64 × Nat × Array (BitVec 64))) (n : Nat) :
    Except (H3Error × Array (BitVec 64)) (BitVec 64 × Nat × Array (BitVec 64)) :=
  match acc with
  | .error e => .error e
  | .ok (o, r, out) =>
    let direction := n / kk
    let pos := n % kk
    match h3NeighborRotations o (DIRECTIONS direction) r with
    | .error e => .error (e, out)
    | .ok (o', r') =>
      if pos != kk - 1 || direction != 5 then
        let out := out.push o'
        if isPentagon o' then .error (.pentagon, out) else .ok (o', r', out)
      else .ok (o', r', out)

theorem ring_step_inv (r0 kk : Nat) (acc : Except (H3Error × Array (BitVec 64)) (BitVec 64 × Nat × Array (BitVec 64))) (n : Nat)
    (h : RInv r0 acc) : RInv r0 (ringStep kk acc n) := by
  unfold ringStep
  cases acc with
  | error e => exact h
  | ok x =>
    obtain ⟨o, r, out⟩ := x
    obtain ⟨hpo, hout⟩ := h
    simp only []
    cases hn : h3NeighborRotations o (DIRECTIONS (n / kk)) r with
    | error e => exact hout
    | ok y =>
      obtain ⟨o', r'⟩ := y
      have hPo := step_P r0 _ _ _ _ _ hpo hn
      have hpush : ∀ c ∈ (out.push o').toList, P r0 c := by
        intro c hc
        simp only [Array.toList_push, List.mem_append, List.mem_singleton] at hc
        rcases hc with hc | hc
        · exact hout c hc
        · rw [hc]; exact hPo
      simp only []
      split
      · split
        · exact hpush
        · exact ⟨hPo, hpush⟩
      · exact ⟨hPo, hout⟩

theorem foldl_inv {α β : Type} (Q : α → Prop) (f : α → β → α) (hf : ∀ a b, Q a → Q (f a b)) : ∀ (l : List β) (a : α), Q a → Q (l.foldl f a) := by
  intro l
  induction l with
  | nil => intro a h; exact h
  | cons b rest ih => intro a h; exact ih _ (hf a b h)

/-- **C05 / C01: every cell `gridRingUnsafe` writes is a valid cell of the origin's resolution** -/
theorem gridRingUnsafe_valid (origin : BitVec 64) (k : Int) (hv : Valid.ValidN origin) :
    ∀ c ∈ (gridRingUnsafe origin k).2.toList, Valid.ValidN c ∧ getRes c = getRes origin := by
  unfold gridRingUnsafe
  split
  · simp
  · split
    · intro c hc; simp at hc; rw [hc]; exact ⟨hv, rfl⟩
    · split
      · simp
      · simp only []
        split
        · simp
        · next o r hstart =>
          have hPo : P (getRes origin) o := ring_start_valid (getRes origin) _ origin 0 o r ⟨hv, rfl⟩ hstart
          have hinit : RInv (getRes origin) (.ok (o, r, #[o])) := ⟨hPo, by intro c hc; simp at hc; rw [hc]; exact hPo⟩
          have hfin := foldl_inv (RInv (getRes origin)) (ringStep k.toNat) (fun a b ha => ring_step_inv (getRes origin) k.toNat a b ha)
            (List.range (6 * k.toNat)) _ hinit
          split
          · next e out hres =>
            rw [show List.foldl (ringStep k.toNat) (Except.ok (o, r, #[o])) (List.range (6 * k.toNat)) = _ from hres] at hfin
            exact hfin
          · next o2 r2 out hres =>
            rw [show List.foldl (ringStep k.toNat) (Except.ok (o, r, #[o])) (List.range (6 * k.toNat)) = _ from hres] at hfin
            split <;> exact hfin.2

end H3.C05R
