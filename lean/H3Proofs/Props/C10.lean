/-
C10 — directed edges.  Encode/decode theorems are generic in the neighbour function:
the direction returned by `directionForNeighbor` is by construction one whose neighbour is
the destination (model: H3Model/EdgeVertex.lean, Neighbor.lean).
-/
import H3Model.EdgeVertex
import Std.Tactic.BVDecide

namespace H3.C10
open H3 H3.Gen.Bits

/-- bit-level facts about mode / reserved-bit rewriting used by the edge functions
(generated macros, all 2^64 values) -/
theorem mode_after_set (h : BitVec 64) (v : BitVec 32) (hv : v.ult 16#32) :
    m_get_mode (m_set_mode h v) = v := by
  simp only [m_get_mode, m_set_mode] at *; bv_decide

theorem reserved_after_set (h : BitVec 64) (v : BitVec 32) (hv : v.ult 8#32) :
    m_get_reserved (m_set_reserved h v) = v := by
  simp only [m_get_reserved, m_set_reserved] at *; bv_decide

theorem reserved_after_set_mode (h : BitVec 64) (v : BitVec 32) (hv : v.ult 16#32) :
    m_get_reserved (m_set_mode h v) = m_get_reserved h := by
  simp only [m_get_reserved, m_set_mode] at *; bv_decide

theorem mode_after_set_reserved (h : BitVec 64) (v : BitVec 32) (hv : v.ult 8#32) :
    m_get_mode (m_set_reserved h v) = m_get_mode h := by
  simp only [m_get_mode, m_set_reserved] at *; bv_decide

/-- decoding the origin of an encoded edge gives back a cell-mode, reserved-0 index:
for an origin with mode 1 and reserved bits 0 it is the origin itself -/
theorem origin_roundtrip_bits (a : BitVec 64) (d : BitVec 32) (hd : d.ult 8#32)
    (hm : m_get_mode a = 1#32) (hr : m_get_reserved a = 0#32) :
    m_set_reserved (m_set_mode (m_set_reserved (m_set_mode a 2#32) d) 1#32) 0#32 = a := by
  simp only [m_get_mode, m_get_reserved, m_set_mode, m_set_reserved] at *; bv_decide

/-- `directionForNeighbor` returns either 7 or a direction 1..6 (2..6 for a pentagon origin)
whose neighbour is the destination -/
theorem directionForNeighbor_sound (a b : BitVec 64) (d : Nat) (h : directionForNeighbor a b = d) (hd : d ≠ 7) :
    1 ≤ d ∧ d ≤ 6 ∧ (isPentagon a = true → 2 ≤ d) ∧ ∃ r, h3NeighborRotations a d 0 = .ok (b, r) := by
  unfold directionForNeighbor at h
  simp only [] at h
  generalize hs : (if isPentagon a = true then 2 else 1) = start at h
  have hstart : 1 ≤ start ∧ start ≤ 2 ∧ (isPentagon a = true → start = 2) := by
    by_cases hp : isPentagon a = true
    · simp [hp] at hs; subst hs; simp
    · simp [hp] at hs; subst hs; simp [hp]
  split at h
  · next d' hfind =>
    subst h
    have hmem := List.mem_of_find?_eq_some hfind
    have hprop := List.find?_some hfind
    simp only [List.mem_range'_1] at hmem
    refine ⟨by omega, by omega, fun hp => by have := hstart.2.2 hp; omega, ?_⟩
    split at hprop
    · next n r heq =>
      simp at hprop
      exact ⟨r, by rw [heq, hprop]⟩
    · simp at hprop
  · exact absurd h.symm hd

/-- **cellsToDirectedEdge a b fails with E_NOT_NEIGHBORS exactly when no direction leads from a to b** -/
theorem cellsToDirectedEdge_notNeighbors (a b : BitVec 64) (h : directionForNeighbor a b = 7) :
    cellsToDirectedEdge a b = .error .notNeighbors := by
  simp [cellsToDirectedEdge, h]

/-- **encode/decode round trip**: if `cellsToDirectedEdge a b = ok e` for an origin with cell
mode and clear reserved bits then the origin decodes to `a` and the destination to `b`. -/
theorem edge_roundtrip (a b e : BitVec 64) (hm : getMode a = 1) (hr : getReserved a = 0)
    (he : cellsToDirectedEdge a b = .ok e) :
    getDirectedEdgeOrigin e = .ok a ∧ getDirectedEdgeDestination e = .ok b := by
  unfold cellsToDirectedEdge at he
  generalize hd : directionForNeighbor a b = d at he
  by_cases h7 : d = 7
  · simp [h7] at he
  · simp [h7] at he
    obtain ⟨h1, h6, _, r, hn⟩ := directionForNeighbor_sound a b d hd h7
    have hdlt : (BitVec.ofNat 32 d).ult 8#32 = true := by
      simp [BitVec.ult, BitVec.toNat_ofNat]; omega
    have hma : m_get_mode a = 1#32 := by
      unfold getMode at hm
      exact BitVec.eq_of_toNat_eq (by simpa using hm)
    have hra : m_get_reserved a = 0#32 := by
      unfold getReserved at hr
      exact BitVec.eq_of_toNat_eq (by simpa using hr)
    have hmode : getMode e = 2 := by
      rw [← he]; unfold getMode setReserved setMode
      rw [mode_after_set_reserved _ _ hdlt, mode_after_set _ _ (by decide)]; rfl
    have hres : getReserved e = d := by
      rw [← he]; unfold getReserved setReserved
      rw [reserved_after_set _ _ hdlt]
      simp [BitVec.toNat_ofNat]; omega
    have horig : getDirectedEdgeOrigin e = .ok a := by
      unfold getDirectedEdgeOrigin
      simp only [hmode, bne_self_eq_false, Bool.false_eq_true, if_false]
      rw [← he]
      unfold setReserved setMode
      have := origin_roundtrip_bits a (BitVec.ofNat 32 d) hdlt hma hra
      show Except.ok (m_set_reserved (m_set_mode (m_set_reserved (m_set_mode a (BitVec.ofNat 32 2)) (BitVec.ofNat 32 d)) (BitVec.ofNat 32 1)) (BitVec.ofNat 32 0)) = Except.ok a
      rw [show (BitVec.ofNat 32 2) = 2#32 from rfl, show (BitVec.ofNat 32 1) = 1#32 from rfl,
        show (BitVec.ofNat 32 0) = 0#32 from rfl, this]
    refine ⟨horig, ?_⟩
    unfold getDirectedEdgeDestination
    simp [horig, hres, hn, bind, Except.bind, pure, Except.pure]

/-- getDirectedEdgeOrigin rejects every index whose mode is not 2 -/
theorem getDirectedEdgeOrigin_mode (e : BitVec 64) (h : getMode e ≠ 2) :
    getDirectedEdgeOrigin e = .error .dirEdgeInvalid := by
  simp [getDirectedEdgeOrigin, h]

/-- **isValidDirectedEdge accepts exactly: mode 2, direction 1..6 (not 1 on a pentagon),
valid origin cell** — the decision formula, for all 64-bit values. -/
theorem isValidDirectedEdge_spec (e : BitVec 64) :
    isValidDirectedEdge e =
      (decide (1 ≤ getReserved e ∧ getReserved e ≤ 6) && decide (getMode e = 2) &&
        !(isPentagon (setReserved (setMode e 1) 0) && getReserved e == 1) &&
        isValidCell (setReserved (setMode e 1) 0)) := by
  unfold isValidDirectedEdge getDirectedEdgeOrigin
  by_cases h1 : getReserved e ≤ 0
  · have : getReserved e = 0 := by omega
    simp [this]
  · by_cases h2 : getReserved e ≥ 7
    · have : ¬ (getReserved e ≤ 6) := by omega
      simp [h1, h2, this]
    · have h16 : 1 ≤ getReserved e ∧ getReserved e ≤ 6 := by omega
      by_cases hm : getMode e = 2
      · simp only [h1, h2, h16, hm]
        by_cases hp1 : isPentagon (setReserved (setMode e 1) 0) = true <;>
          by_cases hd1 : getReserved e = 1 <;> simp [hp1, hd1]
      · simp [h1, h2, h16, hm]

/-- originToDirectedEdges: six slots, slot i = origin re-tagged with mode 2 and direction i+1,
slot 0 null for a pentagon -/
theorem originToDirectedEdges_shape (a : BitVec 64) :
    (originToDirectedEdges a).length = 6 ∧
    ∀ i, i < 6 → (originToDirectedEdges a)[i]? =
      some (if isPentagon a && i == 0 then 0#64 else setReserved (setMode a 2) (i + 1)) := by
  unfold originToDirectedEdges
  refine ⟨by simp, ?_⟩
  intro i hi
  simp [List.getElem?_map, List.getElem?_range hi]

end H3.C10
