/-
C06 — total correctness of the hash-table phases of compactCells: on duplicate-free valid input of
one resolution the probing loops find their slot within the table size (so the defensive
`loopCount > numRemainingHexes` branches and the fuel bound are never reached), the child counters
never exceed the number of children (no E_DUPLICATE_INPUT), and every phase returns.  Together with
C06Refine this gives: when no allocation fails, compactCells SUCCEEDS and returns the canonical
compaction.
-/
import H3Proofs.Props.C06Refine

namespace H3.C06T
open H3 H3.Bits H3.Hier H3.Valid H3.C04C H3.PolyT H3.C06Hash H3.C06R

/-- number of occupied slots among the first n -/
def occ (hs : Array (BitVec 64)) (n : Nat) : Nat := ((List.range n).filter (fun s => slot hs s != 0#64)).length

/-- every slot is some probe -/
theorem probe_surj (n home s : Nat) (hs : s < n) : ∃ k, k < n ∧ C06Hash.probe n home k = s := by
  refine ⟨(s + n - home % n) % n, Nat.mod_lt _ (by omega), ?_⟩
  unfold C06Hash.probe
  have hh : home % n < n := Nat.mod_lt _ (by omega)
  rw [Nat.add_mod_mod, ← Nat.mod_add_mod]
  have : home % n + (s + n - home % n) = s + n := by omega
  rw [this, Nat.add_mod_right, Nat.mod_eq_of_lt hs]

/-- if fewer than n slots are occupied there is an empty one -/
theorem exists_empty (hs : Array (BitVec 64)) (n : Nat) (h : occ hs n < n) : ∃ s, s < n ∧ slot hs s = 0#64 := by
  by_cases hall : ∀ s, s < n → slot hs s ≠ 0#64
  · exfalso
    have : (List.range n).filter (fun s => slot hs s != 0#64) = List.range n := by
      apply List.filter_eq_self.mpr
      intro s hs'
      simp only [List.mem_range] at hs'
      simpa using hall s hs'
    unfold occ at h
    rw [this] at h
    simp at h
  · by_cases hex : ∃ s, s < n ∧ slot hs s = 0#64
    · exact hex
    · exfalso
      apply hall
      intro s hs' h0
      exact hex ⟨s, hs', h0⟩

theorem occ_succ (hs : Array (BitVec 64)) (n : Nat) :
    occ hs (n + 1) = occ hs n + (if slot hs n = 0#64 then 0 else 1) := by
  unfold occ
  rw [List.range_succ, List.filter_append, List.length_append]
  congr 1
  by_cases h : slot hs n = 0#64
  · simp [h]
  · have : (slot hs n != 0#64) = true := by simpa using h
    simp [h, this]

theorem occ_set (hs : Array (BitVec 64)) (i : Nat) (v : BitVec 64) (hi : i < hs.size) (hv : v ≠ 0#64) :
    ∀ n, occ (hs.setIfInBounds i v) n =
      if i < n then (if slot hs i = 0#64 then occ hs n + 1 else occ hs n) else occ hs n := by
  have hsl : ∀ s, slot (hs.setIfInBounds i v) s = if s = i then v else slot hs s := slot_set hs i v hi
  intro n
  induction n with
  | zero => simp [occ]
  | succ n ih =>
    rw [occ_succ, occ_succ, ih, hsl n]
    by_cases e : n = i
    · subst e
      simp only [Nat.lt_irrefl, if_false, if_true, hv, Nat.lt_succ_self]
      by_cases hz : slot hs n = 0#64
      · simp [hz]
      · simp [hz]
    · simp only [e, if_false]
      by_cases hlt : i < n
      · have : i < n + 1 := by omega
        simp only [hlt, this, if_true]
        split <;> omega
      · have : ¬ i < n + 1 := by omega
        simp only [hlt, this, if_false]


theorem clearReserved_of_normal (p : BitVec 64) (hp : Normal p) : clearReserved p = p := by
  have := (getReserved_setReserved p 0 hp.2 (by omega)).2
  rw [setReserved_zero p hp.2] at this; exact this

/-- one insertion occupies at most one more slot -/
theorem hashInsert_occ (n : Nat) (hn : 0 < n) (p : BitVec 64) (hp : Normal p) :
    ∀ (fuel : Nat) (hs : Array (BitVec 64)) (loc k : Nat) (hs' : Array (BitVec 64)), n ≤ hs.size → loc < n →
      hashInsert hs n p loc k fuel = .ok hs' → occ hs' n ≤ occ hs n + 1 := by
  intro fuel
  induction fuel with
  | zero => intro hs loc k hs' _ _ h; simp [hashInsert] at h
  | succ fuel ih =>
    intro hs loc k hs' hsz hloc h
    unfold hashInsert at h
    simp only [] at h
    have hl : loc < hs.size := by omega
    obtain ⟨e, hE⟩ : ∃ e, hs.getD loc 0#64 = e := ⟨_, rfl⟩
    rw [hE] at h
    by_cases he : (e != 0#64) = true
    · simp only [he, if_true] at h
      by_cases hk : k > n
      · simp [hk] at h
      · simp only [hk, if_false] at h
        by_cases hfound : (clearReserved e == p) = true
        · simp only [hfound, if_true] at h
          by_cases hlim : getReserved e + 1 + 1 > (if isPentagon (clearReserved (clearReserved e)) = true then 6 else 7)
          · rw [if_pos hlim] at h; simp at h
          · rw [if_neg hlim] at h
            simp only [Except.ok.injEq] at h
            subst h
            have hc8 : getReserved e + 1 < 8 := by split at hlim <;> omega
            rw [occ_set hs loc _ hl (setReserved_ne_zero p _ hp hc8) n]
            simp only [hloc, if_true]
            split <;> omega
        · simp only [hfound, Bool.false_eq_true, if_false] at h
          exact ih hs _ _ hs' hsz (Nat.mod_lt _ hn) h
    · simp only [he, Bool.false_eq_true, if_false, Except.ok.injEq] at h
      subst h
      rw [occ_set hs loc p hl hp.1 n]
      simp only [hloc, if_true]
      split <;> omega

/-- **hashInsert terminates with a result**: as long as a slot is free and the counter stays within the
number of children -/
theorem hashInsert_total (n : Nat) (hn : 0 < n) (p : BitVec 64) (hp : Normal p) :
    ∀ (fuel : Nat) (hs : Array (BitVec 64)) (cnt : BitVec 64 → Nat) (k : Nat), Tab hs n cnt →
      (∀ j, j < k → slot hs (C06Hash.probe n (p.toNat % n) j) ≠ 0#64 ∧
        clearReserved (slot hs (C06Hash.probe n (p.toNat % n) j)) ≠ p) →
      occ hs n < n → cnt p + 1 ≤ (if isPentagon p then 6 else 7) → n + 2 ≤ fuel + k →
      ∃ hs', hashInsert hs n p (C06Hash.probe n (p.toNat % n) k) k fuel = .ok hs' := by
  intro fuel
  induction fuel with
  | zero =>
    intro hs cnt k T hmiss hocc _ hf
    exfalso
    obtain ⟨s0, hs0, hz⟩ := exists_empty hs n hocc
    obtain ⟨j, hj, e⟩ := probe_surj n (p.toNat % n) s0 hs0
    have := (hmiss j (by omega)).1
    rw [e] at this; exact this hz
  | succ fuel ih =>
    intro hs cnt k T hmiss hocc hlim hf
    have hkn : k < n := by
      by_cases h : k < n
      · exact h
      · exfalso
        obtain ⟨s0, hs0, hz⟩ := exists_empty hs n hocc
        obtain ⟨j, hj, e⟩ := probe_surj n (p.toNat % n) s0 hs0
        have := (hmiss j (by omega)).1
        rw [e] at this; exact this hz
    have hloc : C06Hash.probe n (p.toNat % n) k < n := C06Hash.probe_lt _ _ _ hn
    unfold hashInsert
    simp only []
    obtain ⟨e, hE⟩ : ∃ e, slot hs (C06Hash.probe n (p.toNat % n) k) = e := ⟨_, rfl⟩
    have hE' : hs.getD (C06Hash.probe n (p.toNat % n) k) 0#64 = e := hE
    rw [hE']
    by_cases he : (e != 0#64) = true
    · simp only [he, if_true]
      have hl : ¬ k > n := by omega
      simp only [hl, if_false]
      have he' : slot hs (C06Hash.probe n (p.toNat % n) k) ≠ 0#64 := by rw [hE]; simpa using he
      by_cases hfound : (clearReserved e == p) = true
      · simp only [hfound, if_true]
        have hcl : clearReserved (slot hs (C06Hash.probe n (p.toNat % n) k)) = p := by rw [hE]; simpa using hfound
        obtain ⟨_, _, _, hcount⟩ := T.clear_of_stored _ hloc he'
        rw [hcl, hE] at hcount
        have hcc : clearReserved (clearReserved e) = p := by
          have : clearReserved e = p := by simpa using hfound
          rw [this, clearReserved_of_normal p hp]
        rw [hcc]
        have : ¬ (getReserved e + 1 + 1 > if isPentagon p = true then 6 else 7) := by
          rw [hcount]; omega
        rw [if_neg this]
        exact ⟨_, rfl⟩
      · simp only [hfound, Bool.false_eq_true, if_false]
        rw [C06Hash.probe_succ]
        have hne : clearReserved (slot hs (C06Hash.probe n (p.toNat % n) k)) ≠ p := by rw [hE]; simpa using hfound
        apply ih hs cnt (k + 1) T _ hocc hlim (by omega)
        intro j hj
        by_cases ej : j = k
        · subst ej; exact ⟨he', hne⟩
        · exact hmiss j (by omega)
    · simp only [he, Bool.false_eq_true, if_false]
      exact ⟨_, rfl⟩


/-- the number of present cells below a parent never exceeds its number of children -/
theorem count_le_kids (ρ : Nat) (h1 : 1 ≤ ρ) (hρ15 : ρ ≤ 15) (L : List (BitVec 64)) (hnd : L.Nodup)
    (hL : ∀ c ∈ L, ValidN c ∧ getRes c = ρ) (p : BitVec 64) :
    (L.map (parB ρ)).count p ≤ (kids p).length := by
  have hcount : (L.map (parB ρ)).count p = (L.filter (fun c => parB ρ c == p)).length := by
    rw [List.count_eq_length_filter, List.filter_map, List.length_map]; rfl
  rw [hcount]
  apply (List.subperm_of_subset (hnd.filter _) _).length_le
  intro c hc
  rw [List.mem_filter] at hc
  obtain ⟨hcL, hcp⟩ := hc
  obtain ⟨cv, cr⟩ := hL c hcL
  have := (parB_spec ρ h1 c cv cr).2.2.2
  rw [beq_iff_eq] at hcp
  rw [hcp] at this; exact this

theorem parentsOf_take (remaining : Array (BitVec 64)) (ρ : Nat) (h1 : 1 ≤ ρ) (hin : RoundIn remaining ρ) :
    ∀ m, m ≤ remaining.size →
      parentsOf remaining ((ρ - 1 : Nat) : Int) m = (remaining.toList.take m).map (parB ρ) := by
  intro m
  induction m with
  | zero => intro _; simp [parentsOf]
  | succ m ih =>
    intro hm
    have hi : m < remaining.size := by omega
    rw [parentsOf_succ, ih (by omega), parentAt_eq remaining ρ h1 hin m hi]
    simp only [Option.toList_some]
    rw [List.take_add_one]
    simp only [List.map_append]
    congr 1
    rw [Array.getD_eq_getD_getElem?, Array.getElem?_eq_getElem hi]
    simp [hi]

/-- **phase 1 always returns** on a duplicate-free array of valid cells of one resolution ≥ 1 -/
theorem phase1_total (remaining : Array (BitVec 64)) (ρ numHexes : Nat) (h1 : 1 ≤ ρ) (hρ15 : ρ ≤ 15)
    (hin : RoundIn remaining ρ) (hn : 0 < remaining.size) (hsz : remaining.size ≤ numHexes) :
    ∃ hs, compactPhase1 remaining remaining.size ((ρ - 1 : Nat) : Int) (Array.replicate numHexes 0#64) = .ok hs := by
  have key : ∀ m, m ≤ remaining.size → ∃ hs, (List.range m).foldlM (init := Array.replicate numHexes 0#64) (fun hs i =>
        let cur := remaining.getD i 0#64
        if cur == 0#64 then Except.ok hs
        else if getReserved cur != 0 then Except.error H3Error.cellInvalid
        else
          match cellToParent cur ((ρ - 1 : Nat) : Int) with
          | .error e => Except.error e
          | .ok parent => hashInsert hs remaining.size parent (parent.toNat % remaining.size) 0 (remaining.size + 2)) = .ok hs ∧
      Tab hs remaining.size (fun q => (parentsOf remaining ((ρ - 1 : Nat) : Int) m).count q) ∧
      occ hs remaining.size ≤ m ∧ hs.size = numHexes := by
    intro m
    induction m with
    | zero =>
      intro _
      refine ⟨_, rfl, ?_, ?_, by simp⟩
      · simpa [parentsOf] using tab_empty remaining.size numHexes hsz
      · have : occ (Array.replicate numHexes 0#64) remaining.size = 0 := by
          unfold occ
          rw [List.length_eq_zero_iff, List.filter_eq_nil_iff]
          intro s _
          simp [slot_replicate]
        omega
    | succ m ih =>
      intro hm
      obtain ⟨hs1, hfold, T1, hocc, hsize⟩ := ih (by omega)
      have hi : m < remaining.size := by omega
      obtain ⟨cv, cr⟩ := hin.getD m hi
      obtain ⟨hpar, pv, pr, _⟩ := parB_spec ρ h1 _ cv cr
      have hne : (remaining.getD m 0#64 == 0#64) = false := by simpa using valid_ne_zero _ cv
      have hrsv : (getReserved (remaining.getD m 0#64) != 0) = false := by rw [cv.2.2.1]; rfl
      have hnorm := normal_of_valid _ pv
      -- the count stays within the number of children
      have hlimit : (parentsOf remaining ((ρ - 1 : Nat) : Int) m).count (parB ρ (remaining.getD m 0#64)) + 1 ≤
          (if isPentagon (parB ρ (remaining.getD m 0#64)) then 6 else 7) := by
        have hle := count_le_kids ρ h1 hρ15 (remaining.toList.take (m + 1)) (hin.nodup.sublist (List.take_sublist _ _))
          (fun c hc => hin.valid c (List.mem_of_mem_take hc)) (parB ρ (remaining.getD m 0#64))
        rw [← parentsOf_take remaining ρ h1 hin (m + 1) hm, parentsOf_succ, parentAt_eq remaining ρ h1 hin m hi,
          kids_length] at hle
        simp only [Option.toList_some, List.count_append, List.count_singleton, beq_self_eq_true, if_true] at hle
        exact hle
      have h0 : C06Hash.probe remaining.size ((parB ρ (remaining.getD m 0#64)).toNat % remaining.size) 0 =
          (parB ρ (remaining.getD m 0#64)).toNat % remaining.size := by
        unfold C06Hash.probe; simp [Nat.mod_mod]
      obtain ⟨hs2, hins⟩ := hashInsert_total remaining.size hn _ hnorm (remaining.size + 2) hs1 _ 0 T1
        (fun j hj => by omega) (by omega) hlimit (by omega)
      have hins' := hins
      rw [h0] at hins'
      obtain ⟨T2, sz2⟩ := hashInsert_spec remaining.size hn _ hnorm (remaining.size + 2) hs1 _ 0 hs2 T1
        (fun j hj => by omega) hins
      have hocc2 := hashInsert_occ remaining.size hn _ hnorm (remaining.size + 2) hs1 _ 0 hs2 (by omega)
        (Nat.mod_lt _ hn) hins'
      refine ⟨hs2, ?_, ?_, by omega, by rw [sz2, hsize]⟩
      · rw [List.range_succ, List.foldlM_append, hfold]
        simp only [List.foldlM_cons, List.foldlM_nil, bind, Except.bind, hne, Bool.false_eq_true, if_false, hrsv,
          hpar, hins', pure, Except.pure]
      · rw [parentsOf_succ, parentAt_eq remaining ρ h1 hin m hi]
        simp only [Option.toList_some]
        rw [count_bump]
        exact T2
  obtain ⟨hs, h, _⟩ := key remaining.size (Nat.le_refl _)
  exact ⟨hs, h⟩


/-- **the parent search of phase 3 always returns** when the parent is in the table -/
theorem parentIsComplete_total (hs hs' : Array (BitVec 64)) (n : Nat) (hn : 0 < n) (cnt : BitVec 64 → Nat)
    (T : Tab hs n cnt) (A : After hs hs' n cnt n) (p : BitVec 64) (hp : Normal p) (hc : 1 ≤ cnt p) :
    ∃ b, parentIsComplete hs' n p (p.toNat % n) 0 (n + 2) = .ok b := by
  obtain ⟨j0, hj0, jc, jnz, _⟩ := T.present p hc
  have hj0' : clearReserved (slot hs' (C06Hash.probe n (p.toNat % n) j0)) = p := by
    rw [(A.nz _ (C06Hash.probe_lt _ _ _ hn) jnz).1]; exact jc
  have key : ∀ (fuel k : Nat), k ≤ j0 → j0 + 2 ≤ fuel + k →
      ∃ b, parentIsComplete hs' n p (C06Hash.probe n (p.toNat % n) k) k fuel = .ok b := by
    intro fuel
    induction fuel with
    | zero => intro k hk hf; omega
    | succ fuel ih =>
      intro k hk hf
      unfold parentIsComplete
      have hl : ¬ k > n := by omega
      simp only [hl, if_false]
      have hE : hs'.getD (C06Hash.probe n (p.toNat % n) k) 0#64 = slot hs' (C06Hash.probe n (p.toNat % n) k) := rfl
      rw [hE]
      by_cases hf' : (clearReserved (slot hs' (C06Hash.probe n (p.toNat % n) k)) == p) = true
      · simp only [hf', if_true]; exact ⟨_, rfl⟩
      · simp only [hf', Bool.false_eq_true, if_false]
        have hkj : k < j0 := by
          by_cases e : k = j0
          · subst e; exfalso; apply hf'; simpa using hj0'
          · omega
        rw [C06Hash.probe_succ]
        have hE' : hs'.getD (C06Hash.probe n (p.toNat % n) (k + 1)) 0#64 = slot hs' (C06Hash.probe n (p.toNat % n) (k + 1)) := rfl
        rw [hE']
        by_cases hraw : (slot hs' (C06Hash.probe n (p.toNat % n) (k + 1)) != p) = true
        · simp only [hraw, if_true]
          exact ih (k + 1) (by omega) (by omega)
        · simp only [hraw, Bool.false_eq_true, if_false]; exact ⟨_, rfl⟩
  have h0 : C06Hash.probe n (p.toNat % n) 0 = p.toNat % n := by unfold C06Hash.probe; simp [Nat.mod_mod]
  have := key (n + 2) 0 (Nat.zero_le _) (by omega)
  rw [h0] at this
  exact this

/-- **phase 3 always returns** -/
theorem phase3_total (remaining : Array (BitVec 64)) (ρ : Nat) (h1 : 1 ≤ ρ) (hin : RoundIn remaining ρ)
    (hn : 0 < remaining.size) (hs hs' : Array (BitVec 64))
    (T : Tab hs remaining.size (fun q => (remaining.toList.map (parB ρ)).count q))
    (A : After hs hs' remaining.size (fun q => (remaining.toList.map (parB ρ)).count q) remaining.size) :
    ∃ unc, compactPhase3 remaining remaining.size ((ρ - 1 : Nat) : Int) hs' = .ok unc := by
  rw [compactPhase3_eq]
  have key : ∀ m, m ≤ remaining.size → ∃ unc, (List.range m).foldlM (init := (#[] : Array (BitVec 64)))
      (phase3Step remaining remaining.size ((ρ - 1 : Nat) : Int) hs') = .ok unc := by
    intro m
    induction m with
    | zero => intro _; exact ⟨_, rfl⟩
    | succ m ih =>
      intro hm
      obtain ⟨acc, hacc⟩ := ih (by omega)
      have hi : m < remaining.size := by omega
      obtain ⟨cv, cr⟩ := hin.getD m hi
      obtain ⟨hpar, pv, pr, _⟩ := parB_spec ρ h1 _ cv cr
      have hne : (remaining.getD m 0#64 == 0#64) = false := by simpa using valid_ne_zero _ cv
      have hc : 1 ≤ (remaining.toList.map (parB ρ)).count (parB ρ (remaining.getD m 0#64)) := by
        apply List.count_pos_iff.mpr
        apply List.mem_map.mpr
        refine ⟨remaining.getD m 0#64, ?_, rfl⟩
        rw [Array.getD_eq_getD_getElem?, Array.getElem?_eq_getElem hi]; simp
      obtain ⟨b, hb⟩ := parentIsComplete_total hs hs' remaining.size hn _ T A _ (normal_of_valid _ pv) hc
      rw [List.range_succ, List.foldlM_append, hacc]
      simp only [List.foldlM_cons, List.foldlM_nil, bind, Except.bind, phase3Step, hne, Bool.false_eq_true, if_false]
      have hge : (((ρ - 1 : Nat) : Int) ≥ 0) := by omega
      rw [if_pos hge, hpar]
      simp only [hb]
      cases b <;> exact ⟨_, rfl⟩
  exact key remaining.size (Nat.le_refl _)


theorem alloc_nofail (a : AState) (b : Nat) : ∃ id a', a.alloc (fun _ => false) b = (some id, a') := by
  unfold AState.alloc
  simp

/-- **the rounds always return** when no allocation fails -/
theorem rounds_total (numHexes rb hb : Nat) :
    ∀ (fuel ρ : Nat) (remaining out : Array (BitVec 64)) (a : AState), ρ ≤ 15 → RoundIn remaining ρ →
      (remaining.size = 0 ∨ ρ + 2 ≤ fuel) → remaining.size ≤ numHexes →
      ∃ result, (compactRounds (fun _ => false) numHexes rb hb fuel remaining remaining.size out a).1 = .ok result := by
  intro fuel
  induction fuel with
  | zero =>
    intro ρ remaining out a _ _ hf _
    exact ⟨out, by simp [compactRounds]⟩
  | succ fuel ih =>
    intro ρ remaining out a hρ15 hin hf hsz
    by_cases h0 : remaining.size = 0
    · rw [h0, compactRounds_empty]; exact ⟨_, rfl⟩
    · have hn : 0 < remaining.size := by omega
      obtain ⟨c0v, c0r⟩ := hin.getD 0 hn
      unfold compactRounds
      have hne : (remaining.size == 0) = false := by simpa using h0
      simp only [hne, Bool.false_eq_true, if_false, c0r]
      by_cases hρ : ρ = 0
      · subst hρ
        have hpr : ¬ (((0 : Nat) : Int) - 1 ≥ 0) := by omega
        simp only [hpr, if_false]
        by_cases hsmall : (remaining.size / 6 == 0) = true
        · simp only [hsmall, if_true]; exact ⟨_, rfl⟩
        · simp only [hsmall, Bool.false_eq_true, if_false]
          obtain ⟨id, a1, hal⟩ := alloc_nofail a (remaining.size / 6 * 8)
          rw [hal]
          simp only []
          have hz := phase2_zero numHexes remaining.size hsz
          generalize hp2 : compactPhase2 (Array.replicate numHexes 0#64) remaining.size = p2 at hz
          obtain ⟨hs2, compactable⟩ := p2
          simp only [] at hz ⊢
          have hcs : compactable.size = 0 := by
            have := congrArg List.length hz; simpa using this
          have hnz : ∀ c ∈ remaining.toList, c ≠ 0#64 := fun c hc => valid_ne_zero c (hin.valid c hc).1
          have hp3 := phase3_neg remaining hs2 (((0 : Nat) : Int) - 1) hpr hnz remaining.size (Nat.le_refl _)
          rw [compactPhase3_eq, hp3]
          simp only []
          rw [hcs, compactRounds_empty]
          exact ⟨_, rfl⟩
      · have h1 : 1 ≤ ρ := by omega
        have hcast : ((ρ : Nat) : Int) - 1 = ((ρ - 1 : Nat) : Int) := by omega
        have hpr' : (((ρ - 1 : Nat) : Int) ≥ 0) := by omega
        simp only [hcast]
        rw [if_pos hpr']
        obtain ⟨hs, hp1⟩ := phase1_total remaining ρ numHexes h1 hρ15 hin hn hsz
        rw [hp1]
        simp only []
        by_cases hsmall : (remaining.size / 6 == 0) = true
        · simp only [hsmall, if_true]; exact ⟨_, rfl⟩
        · simp only [hsmall, Bool.false_eq_true, if_false]
          obtain ⟨id, a1, hal⟩ := alloc_nofail a (remaining.size / 6 * 8)
          rw [hal]
          simp only []
          -- table facts for phase 3
          have hparN : ∀ i p, i < remaining.size → parentAt remaining ((ρ - 1 : Nat) : Int) i = some p → Normal p := by
            intro i p hi hp
            rw [parentAt_eq remaining ρ h1 hin i hi] at hp
            cases hp
            obtain ⟨cv, cr⟩ := hin.getD i hi
            exact normal_of_valid _ (parB_spec ρ h1 _ cv cr).2.1
          have T : Tab hs remaining.size (fun q => (remaining.toList.map (parB ρ)).count q) := by
            have := (phase1_spec remaining remaining.size hn ((ρ - 1 : Nat) : Int) hparN (fun i hi _ _ => by
              obtain ⟨cv, cr⟩ := hin.getD i hi
              exact ⟨_, (parB_spec ρ h1 _ cv cr).1⟩) remaining.size (Nat.le_refl _) _ hs
              (tab_empty remaining.size numHexes hsz) hp1).1
            rw [parentsOf_eq remaining ρ h1 hin] at this
            exact this
          generalize hp2 : compactPhase2 hs remaining.size = p2
          obtain ⟨hs2, compactable⟩ := p2
          simp only []
          have hp2' := hp2
          rw [compactPhase2_eq] at hp2'
          obtain ⟨A, _⟩ := phase2_spec hs remaining.size _ T remaining.size (Nat.le_refl _)
          simp only [hp2'] at A
          obtain ⟨unc, hp3⟩ := phase3_total remaining ρ h1 hin hn hs hs2 T A
          rw [hp3]
          simp only []
          obtain ⟨hcsz, hnd, hc, _⟩ := round_step remaining ρ numHexes h1 hρ15 hin hn hsz hs hs2 compactable unc hp1 hp2 hp3
          have hin' : RoundIn compactable (ρ - 1) := ⟨hnd, fun c hcm => ⟨((hc c).mp hcm).1, ((hc c).mp hcm).2.1⟩⟩
          exact ih (ρ - 1) compactable (out ++ unc) _ (by omega) hin' (Or.inr (by omega)) (by omega)

/-- **C06: compactCells succeeds and returns the canonical compaction.**  For a duplicate-free array of
valid cells of one resolution, when no allocation fails, the layout-faithful model returns
successfully, and what it returns is exactly the set of maximal full cells (C06Refine /
C06Final: lossless, antichain, no complete sibling family, independent of the input order). -/
theorem compactCells_total (cells : Array (BitVec 64)) (r : Nat)
    (hv : ∀ c ∈ cells.toList, ValidN c ∧ getRes c = r) (hnd : cells.toList.Nodup) :
    ∃ out, (compactCells (fun _ => false) cells).1 = .ok out := by
  unfold compactCells
  simp only []
  by_cases h0 : (cells.size == 0) = true
  · simp only [h0, if_true]; exact ⟨_, rfl⟩
  · simp only [h0, Bool.false_eq_true, if_false]
    have hn : 0 < cells.size := by
      have : cells.size ≠ 0 := by simpa using h0
      omega
    have hin : RoundIn cells r := ⟨hnd, hv⟩
    obtain ⟨c0v, c0r⟩ := hin.getD 0 hn
    have hr15 : r ≤ 15 := by rw [← c0r]; exact valid_res_le _
    rw [c0r]
    by_cases hr0 : (r == 0) = true
    · simp only [hr0, if_true]; exact ⟨_, rfl⟩
    · simp only [hr0, Bool.false_eq_true, if_false]
      obtain ⟨rb, a1, hal⟩ := alloc_nofail ({} : AState) (cells.size * 8)
      rw [hal]
      simp only []
      obtain ⟨hb, a2, hal2⟩ := alloc_nofail a1 (cells.size * 8)
      rw [hal2]
      simp only []
      exact rounds_total cells.size rb hb 17 r cells #[] a2 hr15 hin (Or.inr (by omega)) (Nat.le_refl _)

end H3.C06T
