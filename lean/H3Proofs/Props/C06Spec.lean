/-
C06 — compaction at the level of sets, for an abstract forest.

A forest is given by a level function, a parent function and finite child sets with
`c ∈ kids p ↔ lvl c = lvl p + 1 ∧ par c = p` (what C04's `children_props` / `mem_children_of_ancestor`
establish for the H3 digit tree).  For a set `S` of nodes of one level `r`, a node is *full* when all
its level-r descendants are in S, and `Compact S` is the set of maximal full nodes.  Theorems:
lossless (the level-r descendants of `Compact S` are exactly S, each covered once), antichain, no
complete sibling family — for every S, hence independent of any presentation order.
The executable counterpart `compactSpec` (H3Model/CompactSpec.lean) is compared with the C function.
-/
import Mathlib.Data.Finset.Basic
import Mathlib.Logic.Function.Iterate

namespace H3.C06S

variable {α : Type} [DecidableEq α]

structure Forest (α : Type) [DecidableEq α] where
  lvl : α → ℕ
  par : α → α
  kids : α → Finset α
  /-- the finest level (15 for H3) -/
  top : ℕ
  kids_iff : ∀ p c, c ∈ kids p ↔ (lvl c = lvl p + 1 ∧ par c = p)
  kids_nonempty : ∀ p, lvl p < top → (kids p).Nonempty

variable (F : Forest α)

/-- the ancestor n levels up -/
def anc (x : α) (n : ℕ) : α := F.par^[n] x

theorem anc_zero (x : α) : anc F x 0 = x := rfl
theorem anc_succ (x : α) (n : ℕ) : anc F x (n + 1) = F.par (anc F x n) := by
  unfold anc; rw [Function.iterate_succ_apply']
theorem anc_add (x : α) (m n : ℕ) : anc F x (m + n) = anc F (anc F x m) n := by
  unfold anc; rw [Nat.add_comm, Function.iterate_add_apply]

/-- x (of level r) lies under p -/
def Under (r : ℕ) (p x : α) : Prop := F.lvl x = r ∧ F.lvl p ≤ r ∧ anc F x (r - F.lvl p) = p

/-- all level-r descendants of p are in S -/
def Full (r : ℕ) (S : Set α) (p : α) : Prop := F.lvl p ≤ r ∧ ∀ x, Under F r p x → x ∈ S

/-- the maximal full nodes -/
def Compact (r : ℕ) (S : Set α) : Set α :=
  {p | Full F r S p ∧ (F.lvl p = 0 ∨ ¬ Full F r S (F.par p))}

/-- the forest is graded along ancestors of level-r nodes: the parent of a node of level l+1 has
level l (true of every node that is somebody's child) -/
def Graded : Prop := ∀ x, 0 < F.lvl x → F.lvl (F.par x) + 1 = F.lvl x

variable {F}

theorem lvl_anc (hg : Graded F) (x : α) : ∀ n, n ≤ F.lvl x → F.lvl (anc F x n) + n = F.lvl x := by
  intro n
  induction n with
  | zero => intro _; simp [anc_zero]
  | succ n ih =>
    intro h
    have h1 := ih (by omega)
    rw [anc_succ]
    have := hg (anc F x n) (by omega)
    omega

/-- every level-r node under `par p` … conversely a node under p is under `par p` -/
theorem under_par (hg : Graded F) {r : ℕ} {p x : α} (hp : 0 < F.lvl p) (h : Under F r p x) :
    Under F r (F.par p) x := by
  obtain ⟨h1, h2, h3⟩ := h
  have hl := hg p hp
  refine ⟨h1, by omega, ?_⟩
  have : r - F.lvl (F.par p) = (r - F.lvl p) + 1 := by omega
  rw [this, anc_succ, h3]

/-- **lossless, part 1**: the descendants of a compacted node are in S -/
theorem compact_sound {r : ℕ} {S : Set α} {p x : α} (hp : p ∈ Compact F r S) (hx : Under F r p x) : x ∈ S :=
  hp.1.2 x hx

/-- **lossless, part 2**: every element of S is covered by a compacted node -/
theorem compact_complete (hg : Graded F) {r : ℕ} {S : Set α} (hS : ∀ x ∈ S, F.lvl x = r) {x : α} (hx : x ∈ S) :
    ∃ p ∈ Compact F r S, Under F r p x := by
  have hr := hS x hx
  -- climb from x while the parent is full: induction on the level of the current full ancestor
  have key : ∀ n p, F.lvl p = n → Full F r S p → Under F r p x → ∃ q ∈ Compact F r S, Under F r q x := by
    intro n
    induction n with
    | zero => intro p hl hf hu; exact ⟨p, ⟨hf, Or.inl hl⟩, hu⟩
    | succ n ih =>
      intro p hl hf hu
      by_cases hpf : Full F r S (F.par p)
      · have hlp := hg p (by omega)
        exact ih (F.par p) (by omega) hpf (under_par hg (by omega) hu)
      · exact ⟨p, ⟨hf, Or.inr hpf⟩, hu⟩
  have hself : Under F r x x := ⟨hr, by omega, by rw [hr]; simp [anc_zero]⟩
  have hfull : Full F r S x := by
    refine ⟨by omega, fun y hy => ?_⟩
    obtain ⟨_, _, h3⟩ := hy
    rw [hr] at h3
    simp [anc_zero] at h3
    rw [h3]; exact hx
  exact key (F.lvl x) x rfl hfull hself

/-- two nodes above the same x: the lower one lies under the higher one -/
theorem under_chain (hg : Graded F) {r : ℕ} {p q x : α} (hp : Under F r p x) (hq : Under F r q x)
    (hle : F.lvl p ≤ F.lvl q) : anc F q (F.lvl q - F.lvl p) = p := by
  obtain ⟨h1, h2, h3⟩ := hp
  obtain ⟨_, k2, k3⟩ := hq
  have : r - F.lvl p = (r - F.lvl q) + (F.lvl q - F.lvl p) := by omega
  rw [this, anc_add, k3] at h3
  exact h3

/-- fullness is inherited downwards along the ancestor chain -/
theorem full_of_anc_full (hg : Graded F) {r : ℕ} {S : Set α} {p q : α} (hq : F.lvl q ≤ r)
    (hle : F.lvl p ≤ F.lvl q) (hanc : anc F q (F.lvl q - F.lvl p) = p) (hf : Full F r S p) : Full F r S q := by
  refine ⟨hq, fun x hx => hf.2 x ?_⟩
  obtain ⟨h1, h2, h3⟩ := hx
  refine ⟨h1, by omega, ?_⟩
  have : r - F.lvl p = (r - F.lvl q) + (F.lvl q - F.lvl p) := by omega
  rw [this, anc_add, h3, hanc]

/-- **antichain / each cell is covered once**: two compacted nodes above the same x are equal -/
theorem compact_unique (hg : Graded F) {r : ℕ} {S : Set α} {p q x : α}
    (hp : p ∈ Compact F r S) (hq : q ∈ Compact F r S) (hpx : Under F r p x) (hqx : Under F r q x) : p = q := by
  -- wlog lvl p ≤ lvl q
  have main : ∀ {p q : α}, p ∈ Compact F r S → q ∈ Compact F r S → Under F r p x → Under F r q x →
      F.lvl p ≤ F.lvl q → p = q := by
    intro p q hp hq hpx hqx hle
    by_cases heq : F.lvl p = F.lvl q
    · have := under_chain hg hpx hqx hle
      rw [heq] at this
      simpa [anc_zero] using this.symm
    · exfalso
      have hlt : F.lvl p < F.lvl q := by omega
      -- par q lies under p (or is p), hence is full, contradicting maximality of q
      rcases hq.2 with h0 | hnf
      · omega
      · apply hnf
        have hlq := hg q (by omega)
        have hchain := under_chain hg hpx hqx hle
        have hsplit : F.lvl q - F.lvl p = 1 + (F.lvl (F.par q) - F.lvl p) := by omega
        rw [hsplit, anc_add] at hchain
        have h1 : anc F q 1 = F.par q := by rw [anc_succ, anc_zero]
        rw [h1] at hchain
        exact full_of_anc_full hg (by have := hqx.2.1; omega) (by omega) hchain hp.1
  by_cases hle : F.lvl p ≤ F.lvl q
  · exact main hp hq hpx hqx hle
  · exact (main hq hp hqx hpx (by omega)).symm

/-- **no complete set of siblings** in the compacted set -/
theorem compact_no_full_family (hg : Graded F) {r : ℕ} (hr : r ≤ F.top) {S : Set α} (q : α) (hq : F.lvl q < r)
    (hall : ∀ c ∈ F.kids q, c ∈ Compact F r S) : False := by
  obtain ⟨c, hc⟩ := F.kids_nonempty q (by omega)
  have hcc := hall c hc
  obtain ⟨hl, hpar⟩ := (F.kids_iff q c).mp hc
  -- q is full: every level-r node under q is under the kid that is its ancestor at level lvl q + 1
  have hqfull : Full F r S q := by
    refine ⟨by omega, fun x hx => ?_⟩
    obtain ⟨h1, h2, h3⟩ := hx
    set d := anc F x (r - (F.lvl q + 1)) with hd
    have hdl : F.lvl d + (r - (F.lvl q + 1)) = F.lvl x := lvl_anc hg x _ (by omega)
    have hdpar : F.par d = q := by
      have : r - F.lvl q = (r - (F.lvl q + 1)) + 1 := by omega
      rw [this, anc_succ] at h3
      exact h3
    have hdk : d ∈ F.kids q := (F.kids_iff q d).mpr ⟨by omega, hdpar⟩
    have hdfull := (hall d hdk).1
    exact hdfull.2 x ⟨h1, by omega, by rw [show F.lvl d = F.lvl q + 1 by omega]⟩
  rcases hcc.2 with h0 | hnf
  · omega
  · exact hnf (by rw [hpar]; exact hqfull)

end H3.C06S
