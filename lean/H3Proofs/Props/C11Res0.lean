/-
C11 — complete resolution 0 (122 cells, 720 (cell, vertex number) pairs), decided in the kernel over the
regenerated tables: cellToVertex produces 2·122 − 4 = 240 distinct vertex indexes, each of them from
exactly three (cell, vertex number) pairs, each accepted by isValidVertex.  A family result for the
coarsest resolution only (all twelve pentagons, all base-cell adjacencies, all faces).
-/
import H3Model.EdgeVertex

namespace H3.Small
open H3

def allVerts0 : List (BitVec 64) :=
  getRes0Cells.flatMap (fun c => (List.range (if isPentagon c then 5 else 6)).filterMap
    (fun (i : Nat) => match cellToVertex c (Int.ofNat i) with | .ok v => some v | .error _ => none))

theorem res0_vertexes : allVerts0.length = 720 ∧ allVerts0.eraseDups.length = 240 ∧
    allVerts0.eraseDups.all (fun v => allVerts0.count v == 3 && isValidVertex v) = true := by
  decide +kernel

end H3.Small
