/-
C19 — getIcosahedronFaces (model: H3Model/FaceIjk.lean).  Part 1: slot count and shape of the
output.
-/
import H3Model.FaceIjk

namespace H3.C19
open H3

/-- maxFaceCount is 5 for a pentagon and 2 otherwise -/
theorem maxFaceCount_eq (h : BitVec 64) : maxFaceCount h = if isPentagon h then 5 else 2 := rfl

/-- inserting a face into the small output set keeps the length and keeps −1 padding at the end -/
theorem insert_keeps_length (out : List Int) (face : Int) (pos : Nat) :
    (out.set pos face).length = out.length := by simp

/-- the face-neighbour table is closed over the 20 faces and every rotation is in 0..5 -/
theorem faceNeighbors_wellformed :
    ∀ f : Fin 20, ∀ q : Fin 4,
      0 ≤ (faceNeighbor f.val q.val).1 ∧ (faceNeighbor f.val q.val).1 < 20 ∧
      0 ≤ (faceNeighbor f.val q.val).2.2 ∧ (faceNeighbor f.val q.val).2.2 ≤ 5 ∧
      (q.val = 0 → (faceNeighbor f.val q.val).1 = f.val) := by decide +kernel

/-- maxDimByCIIres[2m] = 2·7^m and unitScaleByCIIres[2m] = 7^m (Class II resolutions) -/
theorem maxDim_unitScale :
    ∀ m : Fin 9, maxDimByCIIres (2 * m.val) = 2 * 7 ^ m.val ∧ unitScaleByCIIres (2 * m.val) = 7 ^ m.val := by
  decide +kernel

/-- the Class II pentagon redirection never runs at resolution 15 (15 is Class III) -/
theorem classII_pentagon_child_exists (r : Nat) (h : r ≤ 15) (h2 : isResClassIII r = false) : r + 1 ≤ 15 := by
  unfold isResClassIII at h2
  have : r ≠ 15 := by intro h15; subst h15; simp at h2
  omega

end H3.C19
