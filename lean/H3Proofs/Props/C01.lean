/-
C01 — cell validity is exactly the documented 64-bit layout.

`layoutSpec` is written by hand from website/docs/library/index/cell.md (bit layout) and
the statement of the property; `H3.Gen.Bits.isValidCell` is *generated* from
src/h3lib/lib/h3Index.c by tools/c2lean.py on every run.
-/
import H3Model.Generated.BitFns
import H3Model.Generated.Tables
import Std.Tactic.BVDecide

namespace H3.C01

/-- digit `r` (1..15) of an index: three bits, digit 15 lowest -/
def digit (h : BitVec 64) (r : Nat) : BitVec 64 := (h >>> (3 * (15 - r))) &&& 7#64

/-- resolution field (bits 52..55) -/
def resF (h : BitVec 64) : BitVec 64 := (h >>> 52) &&& 15#64
/-- base cell field (bits 45..51) -/
def bcF (h : BitVec 64) : BitVec 64 := (h >>> 45) &&& 127#64

/-- the twelve pentagon base cells, as documented -/
def pentBC (b : BitVec 64) : Bool :=
  b == 4#64 || b == 14#64 || b == 24#64 || b == 38#64 || b == 49#64 || b == 58#64 ||
  b == 63#64 || b == 72#64 || b == 83#64 || b == 97#64 || b == 107#64 || b == 117#64

/-- digit `r` is as the layout demands: 0..6 inside the resolution, 7 after it -/
def okDigit (h : BitVec 64) (r : Nat) : Bool :=
  if BitVec.ule (BitVec.ofNat 64 r) (resF h) then digit h r != 7#64 else digit h r == 7#64

/-- digits 1..n are all 0 -/
def zerosUpTo (h : BitVec 64) : Nat → Bool
  | 0 => true
  | n + 1 => zerosUpTo h n && digit h (n + 1) == 0#64

/-- "the first non-zero digit among 1..res is 1, and it sits at position i+1" -/
def firstNonzeroIs1At (h : BitVec 64) (i : Nat) : Bool :=
  BitVec.ule (BitVec.ofNat 64 (i + 1)) (resF h) && digit h (i + 1) == 1#64 && zerosUpTo h i

/-- The documented layout of a valid cell index. -/
def layoutSpec (h : BitVec 64) : Bool :=
  (h >>> 63 == 0#64) &&                    -- high bit 0
  ((h >>> 59) &&& 15#64 == 1#64) &&        -- mode 1
  ((h >>> 56) &&& 7#64 == 0#64) &&         -- reserved 0
  BitVec.ult (bcF h) 122#64 &&             -- base cell < 122
  (List.range 15).all (fun i => okDigit h (i + 1)) &&
  (!(pentBC (bcF h)) || !((List.range 15).any (fun i => firstNonzeroIs1At h i)))

open H3.Gen.Bits in
/-- **C01 (predicate clause), all 2^64 values.** The function generated from the C text of
`isValidCell` returns 1 exactly on the documented layout, and never anything but 0/1. -/
theorem isValidCell_eq_layout (h : BitVec 64) :
    isValidCell h = (if layoutSpec h then 1#32 else 0#32) := by
  simp only [isValidCell, hasGoodTopBits, hasAny7UptoRes, hasAll7AfterRes, hasDeletedSubsequence,
    firstOneIndex, hasDeletedSubsequence_isBaseCellPentagonArr,
    layoutSpec, okDigit, firstNonzeroIs1At, zerosUpTo, digit, resF, bcF, pentBC,
    List.range, List.range.loop, List.all, List.any]
  bv_decide

open H3.Gen.Bits in
/-- **C12 for this function:** no undefined shift, no out-of-range table read, no signed overflow,
no `clz(0)` on any path of `isValidCell`, for every input. -/
theorem isValidCell_defined_all (h : BitVec 64) : isValidCell_defined h = true := by
  simp only [isValidCell_defined, hasGoodTopBits, hasAny7UptoRes, hasAll7AfterRes,
    hasDeletedSubsequence, firstOneIndex, hasDeletedSubsequence_isBaseCellPentagonArr,
    hasGoodTopBits_defined, hasAny7UptoRes_defined, hasAll7AfterRes_defined,
    hasDeletedSubsequence_defined, firstOneIndex_defined]
  bv_decide

/-- the pentagon set used by the spec is the base-cell table's (regenerated) pentagon flag -/
theorem pentBC_eq_table :
    ∀ b : Fin 128, pentBC (BitVec.ofNat 64 b.val) =
      (decide (b.val < 122) && ((H3.Gen.baseCellData.getD b.val []).getD 4 0 == 1)) := by
  decide +kernel

-- non-vacuity: concrete indexes on both sides of the predicate
example : layoutSpec 0x8928539702bffff#64 = true := by decide   -- res-9 hexagon, bc 20, digits 123456012
example : layoutSpec 0x8f0800000000000#64 = true := by decide   -- res-15 pentagon (bc 4)
example : layoutSpec 0x8508016bfffffff#64 = false := by decide  -- bc 4, digits 00132: first non-zero digit 1 (deleted)
example : layoutSpec 0x892853f702bffff#64 = false := by decide  -- digit 7 planted inside the resolution
example : layoutSpec 0x8928539702bfff0#64 = false := by decide  -- non-7 after the resolution

end H3.C01
