/-
C06 — the set-level compaction theorems instantiated with the H3 digit tree: nodes are the valid
cells (`layoutSpec`, = generated isValidCell), level = resolution, parent = cellToParent one level up,
kids = cellToChildren one level down.  The forest axioms are consequences of the C04 theorems.
-/
import H3Proofs.Props.C06Spec
import H3Proofs.Lemmas.ValidHier

namespace H3.C06H
open H3 H3.Rank H3.Bits H3.Hier H3.C13 H3.C04C H3.Valid H3.C01 H3.C06S

abbrev Cell := {h : BitVec 64 // layoutSpec h = true}

instance : DecidableEq Cell := inferInstance

/-- parent one level up (a resolution-0 cell is its own "parent"; never used by the theorems) -/
def par (x : Cell) : Cell :=
  match cellToParent x.1 ((getRes x.1 - 1 : Nat) : Int) with
  | .ok q => if h : layoutSpec q = true then ⟨q, h⟩ else x
  | .error _ => x

def kidsList (p : Cell) : List Cell :=
  (cellToChildrenS p.1 ((getRes p.1 + 1 : Nat) : Int)).filterMap fun y =>
    if h : layoutSpec y = true then some ⟨y, h⟩ else none

theorem par_spec (x : Cell) (q : BitVec 64) (hq : cellToParent x.1 ((getRes x.1 - 1 : Nat) : Int) = .ok q) :
    (par x).1 = q := by
  obtain ⟨q', hq', hv, _⟩ := valid_parent x.1 ((layoutSpec_iff _).mp x.2) (getRes x.1 - 1) (by omega)
  rw [hq] at hq'; cases hq'
  unfold par
  rw [hq]
  simp only [(layoutSpec_iff q).mpr hv, dite_true]

theorem mem_kidsList (p c : Cell) : c ∈ kidsList p ↔ c.1 ∈ cellToChildrenS p.1 ((getRes p.1 + 1 : Nat) : Int) := by
  unfold kidsList
  rw [List.mem_filterMap]
  constructor
  · rintro ⟨y, hy, hc⟩
    by_cases h : layoutSpec y = true
    · simp only [h, dite_true, Option.some.injEq] at hc
      rw [← hc]; exact hy
    · simp [h] at hc
  · intro h
    exact ⟨c.1, h, by simp [c.2]⟩

/-- the H3 digit tree over valid cells as a forest -/
def h3Forest : Forest Cell where
  lvl x := getRes x.1
  par := par
  kids p := (kidsList p).toFinset
  top := 15
  kids_iff := by
    intro p c
    rw [List.mem_toFinset, mem_kidsList]
    have hpv := (layoutSpec_iff _).mp p.2
    have hcv := (layoutSpec_iff _).mp c.2
    constructor
    · intro h
      by_cases h15 : getRes p.1 + 1 ≤ 15
      · obtain ⟨_, cres, cpar⟩ := valid_children p.1 hpv (getRes p.1 + 1) (by omega) h15 c.1 h
        refine ⟨cres, ?_⟩
        apply Subtype.ext
        apply par_spec
        rw [cres, Nat.add_sub_cancel]; exact cpar
      · exfalso
        unfold cellToChildrenS hasChildAtRes at h
        have : (decide (((getRes p.1 + 1 : Nat) : Int) < (getRes p.1 : Int)) || decide (((getRes p.1 + 1 : Nat) : Int) > 15)) = true := by
          simp; omega
        simp only [this, Bool.not_true, Bool.false_or, Bool.true_or, ite_true] at h
        simp at h
    · rintro ⟨hl, hp⟩
      obtain ⟨q, hq, _, _, hmem⟩ := valid_mem_children c.1 hcv (getRes c.1 - 1) (by omega)
      have := par_spec c q hq
      rw [hp] at this
      rw [← this] at hmem
      rw [hl] at hmem
      exact hmem
  kids_nonempty := by
    intro p hp
    have hpv := (layoutSpec_iff _).mp p.2
    have h0 := valid_ne_zero p.1 hpv
    have hlen := length_children p.1 (getRes p.1 + 1) h0 (by omega) (by omega)
    rw [size_of p.1 (getRes p.1 + 1) (by omega) (by omega)] at hlen
    simp only [Except.ok.injEq] at hlen
    have hpos : 0 < (cellToChildrenS p.1 ((getRes p.1 + 1 : Nat) : Int)).length := by
      have e : getRes p.1 + 1 - getRes p.1 = 1 := by omega
      rw [e] at hlen
      have : pentCount 1 = 6 := by decide
      split at hlen <;> omega
    obtain ⟨y, hy⟩ := List.exists_mem_of_length_pos hpos
    obtain ⟨yv, _, _⟩ := valid_children p.1 hpv (getRes p.1 + 1) (by omega) (by omega) y hy
    refine ⟨⟨y, (layoutSpec_iff y).mpr yv⟩, ?_⟩
    rw [List.mem_toFinset, mem_kidsList]
    exact hy

theorem h3_graded : Graded h3Forest := by
  intro x hx
  obtain ⟨q, hq, _, qres, _⟩ := valid_parent x.1 ((layoutSpec_iff _).mp x.2) (getRes x.1 - 1) (by omega)
  have := par_spec x q hq
  show getRes (par x).1 + 1 = getRes x.1
  rw [this, qres]
  have : 0 < getRes x.1 := hx
  omega

/-! ### the compaction theorems for H3 cells -/

variable {r : ℕ} {S : Set Cell}

/-- **C06 lossless (⊆)**: the resolution-r descendants of a compacted cell are in S -/
theorem h3_compact_sound {p x : Cell} (hp : p ∈ Compact h3Forest r S) (hx : Under h3Forest r p x) : x ∈ S :=
  compact_sound hp hx

/-- **C06 lossless (⊇)**: every cell of S lies under a compacted cell -/
theorem h3_compact_complete (hS : ∀ x ∈ S, getRes x.1 = r) {x : Cell} (hx : x ∈ S) :
    ∃ p ∈ Compact h3Forest r S, Under h3Forest r p x :=
  compact_complete h3_graded hS hx

/-- **C06 antichain**: each cell lies under only one compacted cell; in particular no compacted
cell is an ancestor of another -/
theorem h3_compact_unique {p q x : Cell} (hp : p ∈ Compact h3Forest r S) (hq : q ∈ Compact h3Forest r S)
    (hpx : Under h3Forest r p x) (hqx : Under h3Forest r q x) : p = q :=
  compact_unique h3_graded hp hq hpx hqx

/-- **C06 canonical**: the compacted set never contains all children of a cell -/
theorem h3_compact_no_full_family (hr : r ≤ 15) (q : Cell) (hq : getRes q.1 < r)
    (hall : ∀ c ∈ kidsList q, c ∈ Compact h3Forest r S) : False :=
  compact_no_full_family h3_graded (F := h3Forest) hr q hq (fun c hc => hall c (List.mem_toFinset.mp hc))

end H3.C06H
