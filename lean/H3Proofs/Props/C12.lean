/-
C12 — memory safety and totality, the part a Lean model can carry (DESIGN §5 C12):
* every modelled API function is a total function into `Except H3Error α`, and `H3Error` has exactly
  the fifteen documented non-zero codes;
* range theorems for the overflow guards (`_upAp7Checked`, `_upAp7rChecked`, `ijToIjk`) and `_ipow`;
* no undefined shift / out-of-range table read in the translated bit functions (C01 module);
* documented codes for out-of-domain scalars are proved per entry point in the property modules
  (C02 latLngToCell, C04 cellToParent/cellToChildrenSize/cellToCenterChild, C05 maxGridDiskSize,
  C06 uncompactCells, C07/C15 flags, C09 local IJ modes, C11 cellToVertex, C13 childPosToCell, C20 h3ToString).
-/
import H3Model.Coord
import H3Model.Index
import H3Model.Disk
import H3Proofs.Props.C01

namespace H3.C12
open H3

/-- the error codes are exactly 1..15 -/
theorem error_code_range (e : H3Error) : 1 ≤ e.code ∧ e.code ≤ 15 := by
  cases e <;> simp [H3Error.code]

theorem error_code_injective (a b : H3Error) (h : a.code = b.code) : a = b := by
  cases a <;> cases b <;> simp [H3Error.code] at h <;> rfl

def fitsInt32 (x : Int) : Prop := INT32_MIN ≤ x ∧ x ≤ INT32_MAX

/-- `ADD_INT32S_OVERFLOWS(a, b) = false` means a + b fits in int32 (for int32 a, b) -/
theorem addOverflows_false {a b : Int} (ha : fitsInt32 a) (hb : fitsInt32 b) (h : ¬ addOverflows a b = true) :
    fitsInt32 (a + b) := by
  unfold fitsInt32 INT32_MIN INT32_MAX at *
  unfold addOverflows INT32_MIN INT32_MAX at h
  by_cases hp : a > 0
  · simp [hp] at h; omega
  · simp [hp] at h; omega

/-- `SUB_INT32S_OVERFLOWS(a, b) = false` means a − b fits in int32 -/
theorem subOverflows_false {a b : Int} (ha : fitsInt32 a) (hb : fitsInt32 b) (h : ¬ subOverflows a b = true) :
    fitsInt32 (a - b) := by
  unfold fitsInt32 INT32_MIN INT32_MAX at *
  unfold subOverflows INT32_MIN INT32_MAX at h
  by_cases hp : a ≥ 0
  · simp [hp] at h; omega
  · simp [hp] at h; omega

/-- **`_upAp7Checked` guards**: for int32 inputs i = c.i − c.k, j = c.j − c.k, whenever the function does
not return E_FAILED every intermediate of the C expression `(i*3 − j)`, `(i + j*2)` fits in int32
(so the int arithmetic before `lround` cannot overflow). -/
theorem upAp7Checked_guards (c r : CoordIJK) (hi : fitsInt32 (c.i - c.k)) (hj : fitsInt32 (c.j - c.k))
    (h : upAp7Checked c = .ok r) :
    fitsInt32 ((c.i - c.k) * 3) ∧ fitsInt32 ((c.i - c.k) * 3 - (c.j - c.k)) ∧
    fitsInt32 ((c.j - c.k) * 2) ∧ fitsInt32 ((c.i - c.k) + (c.j - c.k) * 2) := by
  unfold upAp7Checked at h
  simp only [] at h
  generalize c.i - c.k = i at *
  generalize c.j - c.k = j at *
  by_cases hg : (decide (i ≥ INT32_MAX_3) || decide (j ≥ INT32_MAX_3) || decide (i < 0) || decide (j < 0)) = true
  · simp only [hg, if_true] at h
    by_cases hb : (addOverflows i i || addOverflows (i + i) i || addOverflows j j ||
        subOverflows (i + i + i) j || addOverflows i (j + j)) = true
    · simp [hb] at h
    · simp only [Bool.or_eq_true, not_or] at hb
      obtain ⟨⟨⟨⟨h1, h2⟩, h3⟩, h4⟩, h5⟩ := hb
      have f1 := addOverflows_false hi hi h1
      have f2 := addOverflows_false f1 hi h2
      have f3 := addOverflows_false hj hj h3
      have f4 := subOverflows_false f2 hj h4
      have f5 := addOverflows_false hi f3 h5
      unfold fitsInt32 at *
      omega
  · simp [INT32_MAX_3, INT32_MAX] at hg
    unfold fitsInt32 INT32_MIN INT32_MAX at *
    omega

/-- the same for `_upAp7rChecked`: `(i*2 + j)`, `(j*3 − i)` -/
theorem upAp7rChecked_guards (c r : CoordIJK) (hi : fitsInt32 (c.i - c.k)) (hj : fitsInt32 (c.j - c.k))
    (h : upAp7rChecked c = .ok r) :
    fitsInt32 ((c.i - c.k) * 2) ∧ fitsInt32 ((c.i - c.k) * 2 + (c.j - c.k)) ∧
    fitsInt32 ((c.j - c.k) * 3) ∧ fitsInt32 ((c.j - c.k) * 3 - (c.i - c.k)) := by
  unfold upAp7rChecked at h
  simp only [] at h
  generalize c.i - c.k = i at *
  generalize c.j - c.k = j at *
  by_cases hg : (decide (i ≥ INT32_MAX_3) || decide (j ≥ INT32_MAX_3) || decide (i < 0) || decide (j < 0)) = true
  · simp only [hg, if_true] at h
    by_cases hb : (addOverflows i i || addOverflows j j || addOverflows (j + j) j ||
        addOverflows (i + i) j || subOverflows (j + j + j) i) = true
    · simp [hb] at h
    · simp only [Bool.or_eq_true, not_or] at hb
      obtain ⟨⟨⟨⟨h1, h2⟩, h3⟩, h4⟩, h5⟩ := hb
      have f1 := addOverflows_false hi hi h1
      have f2 := addOverflows_false hj hj h2
      have f3 := addOverflows_false f2 hj h3
      have f4 := addOverflows_false f1 hj h4
      have f5 := subOverflows_false f3 hi h5
      unfold fitsInt32 at *
      omega
  · simp [INT32_MAX_3, INT32_MAX] at hg
    unfold fitsInt32 INT32_MIN INT32_MAX at *
    omega

/-- `ijToIjk` rejects exactly the inputs for which `_ijkNormalize` could overflow -/
theorem ijToIjk_failed (ij : CoordIJ) (h : normalizeCouldOverflow ⟨ij.i, ij.j, 0⟩ = true) :
    ijToIjk ij = .error .failed := by
  simp [ijToIjk, h]

/-- `_ipow(7, n)` for the exponents the library uses never overflows int64, and neither do the
pentagon child counts `1 + 5(7^n − 1)/6` -/
theorem ipow_no_overflow : ∀ n : Fin 16, ipow 7 n.val < 2 ^ 63 ∧ 5 * (ipow 7 n.val - 1) < 2 ^ 63 := by
  decide +kernel

/-- no undefined shift, out-of-range table read, signed overflow or clz(0) in isValidCell (re-export) -/
theorem isValidCell_no_ub (h : BitVec 64) : H3.Gen.Bits.isValidCell_defined h = true :=
  H3.C01.isValidCell_defined_all h

end H3.C12

namespace H3.C12
open H3

/-! ### documented codes of the traversal entry points (model: Neighbor.lean, Disk.lean) -/

theorem h3NeighborRotations_badDir (h : BitVec 64) (d r : Nat) (hd : d ≥ 7) :
    h3NeighborRotations h d r = .error .failed := by
  simp [h3NeighborRotations, hd]

theorem h3NeighborRotations_badBaseCell (h : BitVec 64) (d r : Nat) (hd : d < 7) (hb : getBaseCell h ≥ 122) :
    h3NeighborRotations h d r = .error .cellInvalid := by
  have : ¬ d ≥ 7 := by omega
  simp [h3NeighborRotations, this, hb]

theorem gridDiskDistancesUnsafe_domain (h : BitVec 64) (k : Int) (hk : k < 0) :
    (gridDiskDistancesUnsafe h k).1 = some .domain := by
  simp [gridDiskDistancesUnsafe, hk]

theorem gridRingUnsafe_domain (h : BitVec 64) (k : Int) (hk : k < 0) :
    (gridRingUnsafe h k).1 = some .domain ∧ (gridRingUnsafe h k).2 = #[] := by
  simp [gridRingUnsafe, hk]

theorem gridDiskDistances_domain (h : BitVec 64) (k : Int) (hk : k < 0) :
    gridDiskDistances h k = .error .domain := by
  have h1 : gridDiskDistancesUnsafe h k = (some .domain, #[], #[]) := by simp [gridDiskDistancesUnsafe, hk]
  have h2 : maxGridDiskSize k = .error .domain := by simp [maxGridDiskSize, hk]
  simp [gridDiskDistances, h1, h2]

theorem getPentagons_resDomain (r : Int) (h : r < 0 ∨ r > 15) : getPentagons r = .error .resDomain := by
  have : (decide (r < 0) || decide (r > 15)) = true := by rcases h with h | h <;> simp [h]
  simp [getPentagons, this]

end H3.C12
