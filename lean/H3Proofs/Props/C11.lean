/-
C11 — vertex indexes are canonical (model: H3Model/EdgeVertex.lean).
-/
import H3Model.EdgeVertex

namespace H3.C11
open H3

/-- **isValidVertex is re-derivation**: it accepts exactly the indexes of mode 4 whose owner
(mode 1, reserved 0) is a valid cell and for which `cellToVertex owner (reserved bits)` returns
the very same index — so every non-canonical naming of a corner is rejected. -/
theorem isValidVertex_iff (v : BitVec 64) :
    isValidVertex v = true ↔
      getMode v = 4 ∧ isValidCell (setReserved (setMode v 1) 0) = true ∧
      cellToVertex (setReserved (setMode v 1) 0) (getReserved v) = .ok v := by
  unfold isValidVertex
  by_cases hm : getMode v = 4
  · simp only [hm, bne_self_eq_false, Bool.false_eq_true, if_false, true_and]
    by_cases hv : isValidCell (setReserved (setMode v 1) 0) = true
    · simp only [hv, Bool.not_true, Bool.false_eq_true, if_false, true_and]
      cases hc : cellToVertex (setReserved (setMode v 1) 0) (getReserved v) with
      | error e => simp
      | ok c =>
        simp only [beq_iff_eq, Except.ok.injEq]
        exact ⟨fun h => h.symm, fun h => h.symm⟩
    · simp [hv]
  · simp [hm]

/-- **vertex numbers outside the cell's range give E_DOMAIN** (0..5, or 0..4 for a pentagon) -/
theorem cellToVertex_domain (c : BitVec 64) (n : Int)
    (h : n < 0 ∨ n > (if isPentagon c then 5 else 6) - 1) : cellToVertex c n = .error .domain := by
  unfold cellToVertex
  have : (decide (n < 0) || decide (n > (if isPentagon c = true then 5 else 6) - 1)) = true := by
    rcases h with h | h <;> simp [h]
  simp [this, throw, throwThe, MonadExceptOf.throw, bind, Except.bind]

/-- vertex-number <-> direction tables are mutually inverse (regenerated tables of vertex.c) -/
theorem vertexNum_direction_inverse_hex :
    ∀ v : Fin 6, directionToVertexNumHex (vertexNumToDirectionHex v.val) = v.val := by decide +kernel

theorem vertexNum_direction_inverse_pent :
    ∀ v : Fin 5, directionToVertexNumPent (vertexNumToDirectionPent v.val) = v.val := by decide +kernel

theorem direction_vertexNum_inverse_hex :
    ∀ d : Fin 7, 1 ≤ d.val → vertexNumToDirectionHex (directionToVertexNumHex d.val).toNat = d.val := by
  decide +kernel

theorem direction_vertexNum_inverse_pent :
    ∀ d : Fin 7, 2 ≤ d.val → vertexNumToDirectionPent (directionToVertexNumPent d.val).toNat = d.val := by
  decide +kernel

/-- `revNeighborDirectionsHex` composed with `DIRECTIONS` (vertex.c) maps each direction to the
opposite one: the reverse direction used when the owner is a neighbour -/
theorem rev_direction_is_opposite :
    ∀ d : Fin 7, 1 ≤ d.val →
      unitVec (VERTEX_DIRECTIONS (revNeighborDirectionsHex d.val).toNat) =
        (CoordIJK.sub ⟨0, 0, 0⟩ (unitVec d.val)).normalize := by decide +kernel

/-- the pentagon direction/face table lists, for each of the twelve pentagon base cells of
baseCells.c, five distinct faces among which the home face -/
theorem pentagonDirectionFaces_wellformed :
    ∀ b : Fin 122, isBaseCellPentagon b.val = true →
      ((pentDirFaces b.val).map fun fs =>
        fs.length == 5 && fs.eraseDups.length == 5 && fs.all (fun f => decide (0 ≤ f) && decide (f < 20)) &&
          fs.contains (homeFijk b.val).face) = some true := by decide +kernel

end H3.C11
