/-
C09 — gridDistance / local IJ.  Part 1: argument validation and the distance function on the
plane (model: H3Model/LocalIj.lean, Coord.lean).
-/
import H3Model.LocalIj

namespace H3.C09
open H3

/-- different resolutions → E_RES_MISMATCH, checked before anything else -/
theorem cellToLocalIjk_resMismatch (o h : BitVec 64) (hr : getRes o ≠ getRes h) :
    cellToLocalIjk o h = .error .resMismatch := by
  unfold cellToLocalIjk
  have : (getRes o != getRes h) = true := by simpa using hr
  simp [this, throw, throwThe, MonadExceptOf.throw, bind, Except.bind]

/-- **gridDistance of cells with different resolutions is E_RES_MISMATCH** (the origin/origin
call succeeds or fails first only for an invalid origin, so the statement is for the case the
origin call succeeds). -/
theorem gridDistance_resMismatch (o h : BitVec 64) (hr : getRes o ≠ getRes h) (c : CoordIJK)
    (ho : cellToLocalIjk o o = .ok c) : gridDistance o h = .error .resMismatch := by
  unfold gridDistance
  simp [ho, cellToLocalIjk_resMismatch o h hr, bind, Except.bind]

/-- gridDistance(a, a) = 0 whenever it succeeds -/
theorem gridDistance_self (a : BitVec 64) (d : Int) (h : gridDistance a a = .ok d) : d = 0 := by
  unfold gridDistance at h
  cases hc : cellToLocalIjk a a with
  | error e => simp [hc, bind, Except.bind] at h
  | ok c =>
    simp [hc, bind, Except.bind, pure, Except.pure] at h
    rw [← h]
    unfold ijkDistance CoordIJK.sub CoordIJK.normalize
    simp

/-- mode ≠ 0 → E_OPTION_INVALID for both local-IJ entry points -/
theorem cellToLocalIj_mode (o h : BitVec 64) (m : Nat) (hm : m ≠ 0) :
    cellToLocalIj o h m = .error .optionInvalid := by
  simp [cellToLocalIj, hm]

theorem localIjToCell_mode (o : BitVec 64) (ij : CoordIJ) (m : Nat) (hm : m ≠ 0) :
    localIjToCell o ij m = .error .optionInvalid := by
  simp [localIjToCell, hm]

/-- `_ijkNormalize` returns non-negative components with minimum 0 -/
theorem normalize_nonneg (c : CoordIJK) :
    0 ≤ c.normalize.i ∧ 0 ≤ c.normalize.j ∧ 0 ≤ c.normalize.k ∧
    (c.normalize.i = 0 ∨ c.normalize.j = 0 ∨ c.normalize.k = 0) := by
  unfold CoordIJK.normalize
  simp only []
  split <;> split <;> split <;> split <;> simp_all <;> omega

/-- `_ijkNormalize` preserves the axial coordinates (i−k, j−k) -/
theorem normalize_axial (c : CoordIJK) :
    c.normalize.i - c.normalize.k = c.i - c.k ∧ c.normalize.j - c.normalize.k = c.j - c.k := by
  unfold CoordIJK.normalize
  simp only []
  split <;> split <;> split <;> split <;> simp_all <;> omega

end H3.C09
