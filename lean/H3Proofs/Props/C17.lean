/-
C17 — allocation failure is reported cleanly and nothing leaks.
Model: H3Model/Alloc.lean (abstract allocator with a failure schedule, event trace) and
H3Model/Compact.lean (compactCells with its exact allocation structure and real data path).
All theorems are for EVERY failure schedule `sched : Nat → Bool` and EVERY input array.
-/
import H3Model.Compact

namespace H3.C17
open H3

/-- replay a trace from a live set: `none` if a block is freed that is not live (double free /
foreign pointer) -/
def replay : List AEv → List Nat → Option (List Nat)
  | [], live => some live
  | .alloc id _ :: t, live => replay t (id :: live)
  | .fail _ _ :: t, live => replay t live
  | .free id :: t, live => if live.contains id then replay t (live.erase id) else none

theorem replay_append (t1 t2 : List AEv) : ∀ live, replay (t1 ++ t2) live = (replay t1 live).bind (replay t2) := by
  induction t1 with
  | nil => intro live; simp [replay]
  | cons e t ih =>
    intro live
    cases e with
    | alloc id b => simp [replay, ih]
    | fail id b => simp [replay, ih]
    | free id =>
      simp only [List.cons_append, replay]
      split
      · exact ih _
      · simp

/-- invariant of the allocator state inside a call: the live set is `live`, the trace replays to
it without a bad free, no allocation has failed so far, ids are bounded by the call counter -/
structure Inv (a : AState) (live : List Nat) : Prop where
  live_eq : a.live = live
  wf : replay a.trace [] = some live
  nofail : a.someAllocFailed = false
  bound : ∀ id ∈ live, id ≤ a.calls

/-- what must hold when the function returns -/
structure Post (r : R (Array (BitVec 64))) (a : AState) : Prop where
  no_leak : a.live = []
  no_bad_free : (replay a.trace []).isSome = true
  failure_reported : a.someAllocFailed = true → r = .error .memoryAlloc

theorem someFailed_free (a : AState) (id : Nat) : (a.free id).someAllocFailed = a.someAllocFailed := by
  simp [AState.free, AState.someAllocFailed, List.any_append]

theorem free_inv {a : AState} {l : List Nat} (h : Inv a l) (id : Nat) (hid : id ∈ l) :
    Inv (a.free id) (l.erase id) := by
  refine ⟨by simp [AState.free, h.live_eq], ?_, by rw [someFailed_free]; exact h.nofail, ?_⟩
  · simp only [AState.free, replay_append, h.wf, Option.bind_some, replay]
    simp [hid]
  · intro x hx
    have := h.bound x (List.mem_of_mem_erase hx)
    simpa [AState.free] using this

def okState (a : AState) (b : Nat) : AState :=
  { calls := a.calls + 1, live := (a.calls + 1) :: a.live, trace := a.trace ++ [.alloc (a.calls + 1) b] }

def failState (a : AState) (b : Nat) : AState :=
  { a with calls := a.calls + 1, trace := a.trace ++ [.fail (a.calls + 1) b] }

theorem alloc_ok_eq (a : AState) (sched : Nat → Bool) (b : Nat) (hs : sched (a.calls + 1) = false) :
    a.alloc sched b = (some (a.calls + 1), okState a b) := by
  simp [AState.alloc, hs, okState]

theorem alloc_fail_eq (a : AState) (sched : Nat → Bool) (b : Nat) (hs : sched (a.calls + 1) = true) :
    a.alloc sched b = (none, failState a b) := by
  simp [AState.alloc, hs, failState]

theorem inv_ok {a : AState} {l : List Nat} (b : Nat) (h : Inv a l) : Inv (okState a b) ((a.calls + 1) :: l) := by
  constructor
  · simp [okState, h.live_eq]
  · simp [okState, replay_append, h.wf, replay]
  · have := h.nofail
    simp [okState, AState.someAllocFailed, List.any_append] at this ⊢
    exact this
  · intro x hx
    simp only [List.mem_cons] at hx
    show x ≤ a.calls + 1
    rcases hx with hx | hx
    · omega
    · have := h.bound x hx; omega

theorem failState_live {a : AState} (b : Nat) : (failState a b).live = a.live := rfl

theorem failState_replay {a : AState} {l : List Nat} (b : Nat) (h : Inv a l) :
    replay (failState a b).trace [] = some l := by
  simp [failState, replay_append, h.wf, replay]

theorem failState_failed {a : AState} (b : Nat) : (failState a b).someAllocFailed = true := by
  simp [failState, AState.someAllocFailed, List.any_append]

theorem erase_pair {r h : Nat} (hne : r ≠ h) : [h, r].erase r = [h] := by
  have : (h == r) = false := by simpa using hne.symm
  simp [this]

/-- leaving with both scratch arrays released, no failure so far -/
theorem post_free2 {a : AState} {r h : Nat} (res : R (Array (BitVec 64))) (hne : r ≠ h)
    (hi : Inv a [h, r]) : Post res ((a.free r).free h) := by
  have h1 := free_inv hi r (by simp)
  rw [erase_pair hne] at h1
  have h2 := free_inv h1 h (by simp)
  simp at h2
  exact ⟨h2.live_eq, by simp [h2.wf], by intro hf; rw [h2.nofail] at hf; exact absurd hf (by simp)⟩

/-- leaving after a failed allocation while the two scratch arrays are live -/
theorem post_fail2 {a : AState} {r h : Nat} (b : Nat) (hne : r ≠ h) (hi : Inv a [h, r]) :
    Post (.error .memoryAlloc) (((failState a b).free r).free h) := by
  refine ⟨?_, ?_, fun _ => rfl⟩
  · have hh : (h == r) = false := by simpa using hne.symm
    simp [AState.free, failState_live, hi.live_eq, hh]
  · have hh : (h == r) = false := by simpa using hne.symm
    simp [AState.free, replay_append, failState_replay b hi, replay, failState_live, hi.live_eq, hh]

/-- **C17 for the rounds of compactCells**: from any state in which exactly the two scratch
arrays are live, every exit path releases everything, frees nothing twice, and reports an
injected failure as E_MEMORY_ALLOC. -/
theorem rounds_post (sched : Nat → Bool) (numHexes r h : Nat) (hrh : r < h) :
    ∀ (fuel : Nat) (remaining : Array (BitVec 64)) (n : Nat) (out : Array (BitVec 64)) (a : AState),
      Inv a [h, r] →
      Post (compactRounds sched numHexes r h fuel remaining n out a).1
           (compactRounds sched numHexes r h fuel remaining n out a).2 := by
  have hne : r ≠ h := by omega
  intro fuel
  induction fuel with
  | zero => intro remaining n out a hi; exact post_free2 _ hne hi
  | succ fuel ih =>
    intro remaining n out a hi
    unfold compactRounds
    split
    · exact post_free2 _ hne hi
    · simp only []
      split
      · exact post_free2 _ hne hi
      · split
        · exact post_free2 _ hne hi
        · by_cases hs : sched (a.calls + 1) = true
          · -- the compactableHexes allocation fails
            rw [alloc_fail_eq a sched _ hs]
            exact post_fail2 _ hne hi
          · have hs' : sched (a.calls + 1) = false := by simpa using hs
            rw [alloc_ok_eq a sched _ hs']
            simp only []
            have h2 := inv_ok (n / 6 * 8) hi
            have hfree : Inv ((okState a (n / 6 * 8)).free (a.calls + 1)) [h, r] := by
              have := free_inv h2 (a.calls + 1) (by simp)
              simpa using this
            split
            · -- a defensive error after the allocation: all three blocks are released
              exact post_free2 _ hne hfree
            · exact ih _ _ _ _ hfree

/-- **C17, compactCells: for every failure schedule and every input**, when the call returns
nothing is left allocated, no block was freed twice, and if any allocation was made to fail the
result is E_MEMORY_ALLOC. -/
theorem compactCells_alloc_clean (sched : Nat → Bool) (cells : Array (BitVec 64)) :
    Post (compactCells sched cells).1 (compactCells sched cells).2 := by
  unfold compactCells
  have hi0 : Inv ({} : AState) [] := ⟨rfl, rfl, rfl, by simp⟩
  have hempty : Post (.ok #[]) ({} : AState) :=
    ⟨rfl, rfl, by intro h; simp [AState.someAllocFailed] at h⟩
  simp only []
  split
  · exact hempty
  · split
    · exact ⟨rfl, rfl, by intro h; simp [AState.someAllocFailed] at h⟩
    · by_cases hs1 : sched (({} : AState).calls + 1) = true
      · rw [alloc_fail_eq _ sched _ hs1]
        exact ⟨by simp [failState_live], by simp [failState_replay _ hi0], fun _ => rfl⟩
      · have hs1' : sched (({} : AState).calls + 1) = false := by simpa using hs1
        rw [alloc_ok_eq _ sched _ hs1']
        simp only []
        have h2 := inv_ok (cells.size * 8) hi0
        generalize okState ({} : AState) (cells.size * 8) = a1 at *
        by_cases hs2 : sched (a1.calls + 1) = true
        · rw [alloc_fail_eq _ sched _ hs2]
          simp only []
          refine ⟨?_, ?_, fun _ => rfl⟩
          · simp [AState.free, failState_live, h2.live_eq]
          · simp [AState.free, replay_append, failState_replay _ h2, replay, failState_live, h2.live_eq]
        · have hs2' : sched (a1.calls + 1) = false := by simpa using hs2
          rw [alloc_ok_eq _ sched _ hs2']
          simp only []
          have g2 := inv_ok (cells.size * 8) h2
          have hb := h2.bound (({} : AState).calls + 1) (by simp)
          exact rounds_post sched cells.size _ _ (by omega) 17 cells cells.size #[] _ g2

/-! ### results identical to the default allocator when nothing fails -/

theorem alloc_nofail_eq (a : AState) (b : Nat) : a.alloc noFail b = (some (a.calls + 1), okState a b) :=
  alloc_ok_eq a noFail b rfl

theorem failed_free2 (a : AState) (r h : Nat) :
    ((a.free r).free h).someAllocFailed = a.someAllocFailed := by
  rw [someFailed_free, someFailed_free]

theorem rounds_nofail (sched : Nat → Bool) (numHexes r h : Nat) :
    ∀ (fuel : Nat) (remaining : Array (BitVec 64)) (n : Nat) (out : Array (BitVec 64)) (a : AState),
      (compactRounds sched numHexes r h fuel remaining n out a).2.someAllocFailed = false →
      compactRounds sched numHexes r h fuel remaining n out a =
        compactRounds noFail numHexes r h fuel remaining n out a := by
  intro fuel
  induction fuel with
  | zero => intro remaining n out a _; simp [compactRounds]
  | succ fuel ih =>
    intro remaining n out a hnf
    unfold compactRounds at hnf ⊢
    by_cases hn : (n == 0) = true
    · simp [hn]
    · simp only [hn, Bool.false_eq_true, if_false] at hnf ⊢
      cases hp1 : (if (↑(getRes (remaining.getD 0 0#64)) : Int) - 1 ≥ 0 then
          compactPhase1 remaining n ((↑(getRes (remaining.getD 0 0#64)) : Int) - 1) (Array.replicate numHexes 0#64)
          else Except.ok (Array.replicate numHexes 0#64)) with
      | error e => rfl
      | ok hs =>
        simp only [hp1] at hnf ⊢
        by_cases hm : (n / 6 == 0) = true
        · simp [hm]
        · simp only [hm, Bool.false_eq_true, if_false] at hnf ⊢
          by_cases hsch : sched (a.calls + 1) = true
          · exfalso
            rw [alloc_fail_eq a sched _ hsch] at hnf
            simp only [] at hnf
            rw [failed_free2, failState_failed] at hnf
            exact absurd hnf (by simp)
          · have hs' : sched (a.calls + 1) = false := by simpa using hsch
            rw [alloc_ok_eq a sched _ hs'] at hnf ⊢
            rw [alloc_nofail_eq]
            simp only [] at hnf ⊢
            cases hp3 : compactPhase3 remaining n ((↑(getRes (remaining.getD 0 0#64)) : Int) - 1)
                (compactPhase2 hs n).1 with
            | error e => rfl
            | ok unc =>
              simp only [hp3] at hnf ⊢
              exact ih _ _ _ _ hnf

/-- **C17: when no allocation fails the result (and the whole allocation trace) is the one
obtained with the default allocator.** -/
theorem compactCells_nofail_same (sched : Nat → Bool) (cells : Array (BitVec 64))
    (h : (compactCells sched cells).2.someAllocFailed = false) :
    compactCells sched cells = compactCells noFail cells := by
  unfold compactCells at h ⊢
  simp only [] at h ⊢
  by_cases h0 : (cells.size == 0) = true
  · simp [h0]
  · simp only [h0, Bool.false_eq_true, if_false] at h ⊢
    by_cases hr0 : (getRes (cells.getD 0 0#64) == 0) = true
    · rw [if_pos hr0, if_pos hr0]
    · simp only [hr0, Bool.false_eq_true, if_false] at h ⊢
      by_cases hs1 : sched (({} : AState).calls + 1) = true
      · exfalso
        rw [alloc_fail_eq _ sched _ hs1] at h
        simp only [] at h
        rw [failState_failed] at h
        exact absurd h (by simp)
      · have hs1' : sched (({} : AState).calls + 1) = false := by simpa using hs1
        rw [alloc_ok_eq _ sched _ hs1'] at h ⊢
        rw [alloc_nofail_eq]
        simp only [] at h ⊢
        generalize okState ({} : AState) (cells.size * 8) = a1 at *
        by_cases hs2 : sched (a1.calls + 1) = true
        · exfalso
          rw [alloc_fail_eq _ sched _ hs2] at h
          simp only [] at h
          rw [someFailed_free, failState_failed] at h
          exact absurd h (by simp)
        · have hs2' : sched (a1.calls + 1) = false := by simpa using hs2
          rw [alloc_ok_eq _ sched _ hs2'] at h ⊢
          rw [alloc_nofail_eq]
          simp only [] at h ⊢
          exact rounds_nofail sched cells.size _ _ 17 cells cells.size #[] _ h

-- non-vacuity: a three-round compaction (all 343 res-3 descendants of a res-0 hexagon would be
-- large for the kernel; a 49-cell, two-round one is used) with the 1st, a middle and the last
-- allocation failing
def demoCells : Array (BitVec 64) :=
  ((cellToChildren 0x8001fffffffffff#64 2).toArray)

example : (compactCells noFail demoCells).2.calls = 4 := by decide +kernel
example : (compactCells (fun c => c == 1) demoCells).1 = .error .memoryAlloc := by decide +kernel
example : (compactCells (fun c => c == 3) demoCells).1 = .error .memoryAlloc := by decide +kernel
example : (compactCells (fun c => c == 4) demoCells).1 = .error .memoryAlloc := by decide +kernel
example : (compactCells (fun c => c == 4) demoCells).2.live = [] := by decide +kernel

end H3.C17
