/-
C06 — compactCells / uncompactCells.  Part 1: bounds and error mapping of uncompactCells /
uncompactCellsSize on the model (H3Model/Compact.lean).  The set-level theory
(compactSpec, losslessness, canonicity) is in H3Proofs/Props/C06Spec.lean.
-/
import H3Model.Compact

namespace H3.C06
open H3

/-- uncompactCells never writes more than `numOut` cells, whatever the input. -/
theorem uncompact_go_bounded (numOut res : Int) :
    ∀ (l : List (BitVec 64)) (out : Array (BitVec 64)), (out.size : Int) ≤ max numOut 0 →
      ((uncompactCells.go numOut res l out).2.size : Int) ≤ max numOut 0 := by
  intro l
  induction l with
  | nil => intro out h; simpa [uncompactCells.go] using h
  | cons c rest ih =>
    intro out h
    unfold uncompactCells.go
    split
    · simpa using h
    · simp only []
      generalize childrenFuel (iterInitParent c res) _ = kids
      split
      · -- capacity exceeded: exactly `room` more cells are written
        simp only [Array.size_append, List.size_toArray, List.length_take]
        omega
      · next hfit =>
        apply ih
        simp only [Array.size_append, List.size_toArray]
        omega

/-- **C06: uncompactCells never writes beyond the capacity it is given.** -/
theorem uncompact_bounds (cs : List (BitVec 64)) (numOut res : Int) :
    ((uncompactCells cs numOut res).2.size : Int) ≤ max numOut 0 := by
  unfold uncompactCells
  apply uncompact_go_bounded
  simp only [List.size_toArray, List.length_nil]
  omega

/-- **E_RES_MISMATCH when the first cell is finer than the target resolution (or the
resolution is out of range); nothing is written.** -/
theorem uncompact_resMismatch_head (c : BitVec 64) (rest : List (BitVec 64)) (numOut res : Int)
    (h : res < (getRes c : Int) ∨ res > 15) :
    uncompactCells (c :: rest) numOut res = (some .resMismatch, #[]) := by
  unfold uncompactCells uncompactCells.go hasChildAtRes
  have : (decide (res < (getRes c : Int)) || decide (res > 15)) = true := by
    rcases h with h | h <;> simp [h]
  simp [this]

/-- uncompactCellsSize skips H3_NULL entries and maps a size error to E_RES_MISMATCH -/
theorem uncompactCellsSize_nil (res : Int) : uncompactCellsSize [] res = .ok 0 := rfl

theorem uncompactCellsSize_single (c : BitVec 64) (res : Int) (hc : c ≠ 0#64) :
    uncompactCellsSize [c] res =
      (match cellToChildrenSize c res with | .error _ => .error .resMismatch | .ok n => .ok n) := by
  unfold uncompactCellsSize
  simp only [List.foldlM_cons, List.foldlM_nil]
  have : (c == 0#64) = false := by simpa using hc
  simp only [this, Bool.false_eq_true, if_false]
  cases cellToChildrenSize c res <;> simp [bind, Except.bind, pure, Except.pure]

-- non-vacuity
example : (uncompactCells [0x8009fffffffffff#64] 5 1).1 = some .memoryBounds := by decide
example : (uncompactCells [0x8009fffffffffff#64] 5 1).2.size = 5 := by decide
example : (uncompactCells [0x8009fffffffffff#64] 6 1).1 = none := by decide

end H3.C06
