/-
C05 / C01 (closure clause) — **every successful neighbour step returns a valid cell** (the whole
documented layout, pentagon clause included), for every origin that satisfies the layout up to the
pentagon clause, every direction and rotation count, every resolution, every base cell, across
base-cell boundaries and through all pentagon special cases of `h3NeighborRotations`.
-/
import H3Proofs.Props.C05Valid
import H3Proofs.Lemmas.Hier

namespace H3.C05V
open H3 H3.Bits H3.C05A H3.C05M H3.Gen.Bits H3.Bfs

/-! ### the leading non-zero digit -/

theorem leadingGo_spec (h : BitVec 64) : ∀ (fuel r : Nat),
    (leadingNonZeroDigit.go h r fuel = 0 ∧ ∀ i, i < fuel → getDigit h (r + i) = 0) ∨
    (∃ i, i < fuel ∧ getDigit h (r + i) ≠ 0 ∧ (∀ j, j < i → getDigit h (r + j) = 0) ∧
      leadingNonZeroDigit.go h r fuel = getDigit h (r + i)) := by
  intro fuel
  induction fuel with
  | zero => intro r; left; exact ⟨by simp [leadingNonZeroDigit.go], fun i hi => by omega⟩
  | succ fuel ih =>
    intro r
    unfold leadingNonZeroDigit.go
    by_cases h0 : getDigit h r = 0
    · have : (getDigit h r != 0) = false := by simp [h0]
      simp only [this, Bool.false_eq_true, if_false]
      rcases ih (r + 1) with ⟨a, b⟩ | ⟨i, hi, a, b, c⟩
      · left
        refine ⟨a, fun i hi => ?_⟩
        cases i with
        | zero => simpa using h0
        | succ i => have := b i (by omega); rwa [show r + 1 + i = r + (i + 1) by omega] at this
      · right
        refine ⟨i + 1, by omega, by rwa [show r + (i + 1) = r + 1 + i by omega], ?_, by rwa [show r + (i + 1) = r + 1 + i by omega]⟩
        intro j hj
        cases j with
        | zero => simpa using h0
        | succ j => have := b j (by omega); rwa [show r + 1 + j = r + (j + 1) by omega] at this
    · have : (getDigit h r != 0) = true := by simp [h0]
      simp only [this, if_true]
      right
      exact ⟨0, by omega, by simpa using h0, fun j hj => by omega, by simp⟩

/-- the leading digit is the first non-zero digit among 1..res -/
theorem lnz_of_first (h : BitVec 64) (p : Nat) (h1 : 1 ≤ p) (hp : p ≤ getRes h) (hd : getDigit h p ≠ 0)
    (hz : ∀ r, 1 ≤ r → r < p → getDigit h r = 0) : leadingNonZeroDigit h = getDigit h p := by
  unfold leadingNonZeroDigit
  rcases leadingGo_spec h (getRes h) 1 with ⟨_, b⟩ | ⟨i, hi, a, b, c⟩
  · have := b (p - 1) (by omega)
    rw [show 1 + (p - 1) = p by omega] at this
    exact absurd this hd
  · rw [c]
    by_cases e : 1 + i = p
    · rw [e]
    · exfalso
      by_cases lt : 1 + i < p
      · exact a (hz (1 + i) (by omega) lt)
      · have := b (p - 1) (by omega)
        rw [show 1 + (p - 1) = p by omega] at this
        exact hd this

theorem lnz_zero (h : BitVec 64) (hz : ∀ r, 1 ≤ r → r ≤ getRes h → getDigit h r = 0) : leadingNonZeroDigit h = 0 := by
  unfold leadingNonZeroDigit
  rw [Hier.leadingGo_zero_iff]
  intro i hi
  exact hz (1 + i) (by omega) (by omega)

/-- either all digits are zero or there is a first non-zero digit, which is the leading digit -/
theorem lnz_cases (h : BitVec 64) :
    (leadingNonZeroDigit h = 0 ∧ ∀ r, 1 ≤ r → r ≤ getRes h → getDigit h r = 0) ∨
    (∃ p, 1 ≤ p ∧ p ≤ getRes h ∧ getDigit h p ≠ 0 ∧ (∀ r, 1 ≤ r → r < p → getDigit h r = 0) ∧
      leadingNonZeroDigit h = getDigit h p) := by
  unfold leadingNonZeroDigit
  rcases leadingGo_spec h (getRes h) 1 with ⟨a, b⟩ | ⟨i, hi, a, b, c⟩
  · left
    refine ⟨a, fun r h1 hr => ?_⟩
    have := b (r - 1) (by omega)
    rwa [show 1 + (r - 1) = r by omega] at this
  · right
    refine ⟨1 + i, by omega, by omega, a, fun r h1 hr => ?_, c⟩
    have := b (r - 1) (by omega)
    rwa [show 1 + (r - 1) = r by omega] at this

/-- the pentagon clause of the layout follows from "the leading digit is not 1" -/
theorem pent_clause_of_lnz (h : BitVec 64) (hl : leadingNonZeroDigit h ≠ 1) :
    ∀ r, 1 ≤ r → r ≤ getRes h → getDigit h r = 1 → ∃ r', 1 ≤ r' ∧ r' < r ∧ getDigit h r' ≠ 0 := by
  intro r h1 hr hd
  rcases lnz_cases h with ⟨_, b⟩ | ⟨p, p1, pr, pd, pz, pl⟩
  · have := b r h1 hr; omega
  · by_cases lt : p < r
    · exact ⟨p, p1, lt, pd⟩
    · exfalso
      by_cases e : p = r
      · subst e; rw [pl] at hl; exact hl hd
      · have := pz r h1 (by omega); omega

/-! ### digits of a whole-index rotation -/

theorem fold_digit (g : Nat → Nat) (hg : ∀ d, d < 8 → g d < 8) : ∀ (n a : Nat) (h : BitVec 64), 1 ≤ a → a + n ≤ 16 →
    ∀ r', 1 ≤ r' → r' ≤ 15 →
    getDigit ((List.range' a n).foldl (fun h r => setDigit h r (g (getDigit h r))) h) r' =
      if a ≤ r' ∧ r' < a + n then g (getDigit h r') else getDigit h r' := by
  intro n
  induction n with
  | zero => intro a h _ _ r' _ _; simp
  | succ n ih =>
    intro a h ha hn r' h1 h15
    rw [List.range'_succ, List.foldl_cons, ih (a + 1) _ (by omega) (by omega) r' h1 h15]
    rw [getDigit_setDigit h a r' _ ⟨ha, by omega⟩ ⟨h1, h15⟩ (hg _ (getDigit_lt h a))]
    by_cases e : r' = a
    · subst e
      have c1 : ¬ (r' + 1 ≤ r' ∧ r' < r' + 1 + n) := by omega
      have c2 : r' ≤ r' ∧ r' < r' + (n + 1) := by omega
      simp [c2]
    · by_cases c : a + 1 ≤ r' ∧ r' < a + 1 + n
      · have c2 : a ≤ r' ∧ r' < a + (n + 1) := by omega
        simp [c, c2, e]
      · have c2 : ¬ (a ≤ r' ∧ r' < a + (n + 1)) := by omega
        simp [c, c2, e]

theorem getDigit_mapDigits (g : Nat → Nat) (hg : ∀ d, d < 8 → g d < 8) (h : BitVec 64) (r : Nat) (h1 : 1 ≤ r) (h15 : r ≤ 15) :
    getDigit (mapDigits g h) r = if r ≤ getRes h then g (getDigit h r) else getDigit h r := by
  unfold mapDigits
  have := getRes_lt h
  rw [fold_digit g hg (getRes h) 1 h (by omega) (by omega) r h1 h15]
  by_cases c : r ≤ getRes h
  · have : 1 ≤ r ∧ r < 1 + getRes h := by omega
    simp [c, this]
  · have : ¬ (1 ≤ r ∧ r < 1 + getRes h) := by omega
    simp [c, this]

/-- a digit map that fixes 0 and keeps non-zero digits non-zero maps the leading digit -/
theorem lnz_mapDigits (g : Nat → Nat) (hg : ∀ d, d < 8 → g d < 8) (g0 : g 0 = 0) (gn : ∀ d, d < 8 → d ≠ 0 → g d ≠ 0)
    (h : BitVec 64) : leadingNonZeroDigit (mapDigits g h) = g (leadingNonZeroDigit h) := by
  have hr : getRes (mapDigits g h) = getRes h := (mapDigits_hdr g hg h).2
  have hres := getRes_lt h
  rcases lnz_cases h with ⟨a, b⟩ | ⟨p, p1, pr, pd, pz, pl⟩
  · rw [a, g0]
    apply lnz_zero
    intro r h1 hrr
    rw [hr] at hrr
    rw [getDigit_mapDigits g hg h r h1 (by omega)]
    simp [hrr, b r h1 hrr, g0]
  · rw [pl]
    have dp : getDigit (mapDigits g h) p = g (getDigit h p) := by
      rw [getDigit_mapDigits g hg h p p1 (by omega)]; simp [pr]
    rw [← dp]
    apply lnz_of_first _ p p1 (by rw [hr]; exact pr)
    · rw [dp]; exact gn _ (getDigit_lt h p) pd
    · intro r h1 hlt
      rw [getDigit_mapDigits g hg h r h1 (by omega)]
      have : r ≤ getRes h := by omega
      simp [this, pz r h1 hlt, g0]

theorem rot_facts : (∀ d : Fin 8, rotate60ccw d.val < 8 ∧ rotate60cw d.val < 8) ∧ rotate60ccw 0 = 0 ∧ rotate60cw 0 = 0 ∧
    (∀ d : Fin 8, d.val ≠ 0 → rotate60ccw d.val ≠ 0 ∧ rotate60cw d.val ≠ 0) ∧
    rotate60ccw 1 ≠ 1 ∧ rotate60cw 1 ≠ 1 := by decide

theorem lnz_rotate60ccw (h : BitVec 64) : leadingNonZeroDigit (h3Rotate60ccw h) = rotate60ccw (leadingNonZeroDigit h) :=
  lnz_mapDigits _ (fun d hd => (rot_facts.1 ⟨d, hd⟩).1) rot_facts.2.1 (fun d hd hn => (rot_facts.2.2.2.1 ⟨d, hd⟩ hn).1) h
theorem lnz_rotate60cw (h : BitVec 64) : leadingNonZeroDigit (h3Rotate60cw h) = rotate60cw (leadingNonZeroDigit h) :=
  lnz_mapDigits _ (fun d hd => (rot_facts.1 ⟨d, hd⟩).2) rot_facts.2.2.1 (fun d hd hn => (rot_facts.2.2.2.1 ⟨d, hd⟩ hn).2) h

/-! ### the pentagon rotation never leaves the leading digit in the deleted sub-sequence -/

/-- state invariant of the loop of `_h3RotatePent60ccw` before level `a` -/
def PInv (res : Nat) (a : Nat) (st : BitVec 64 × Bool) : Prop :=
  getRes st.1 = res ∧
  (st.2 = false → ∀ r, 1 ≤ r → r < a → getDigit st.1 r = 0) ∧
  (st.2 = true → ∃ p, 1 ≤ p ∧ p < a ∧ getDigit st.1 p ≠ 0 ∧ getDigit st.1 p ≠ 1 ∧ ∀ r, 1 ≤ r → r < p → getDigit st.1 r = 0)

theorem rotatePent_lnz (h : BitVec 64) : leadingNonZeroDigit (h3RotatePent60ccw h) ≠ 1 := by
  unfold h3RotatePent60ccw rotatePentWith
  simp only []
  have hres := getRes_lt h
  have key : ∀ (n a : Nat) (st : BitVec 64 × Bool), 1 ≤ a → a + n = getRes h + 1 → PInv (getRes h) a st →
      PInv (getRes h) (getRes h + 1) ((List.range' a n).foldl (fun (st : BitVec 64 × Bool) r =>
        let (h, found) := st
        let h := setDigit h r (rotate60ccw (getDigit h r))
        if !found && getDigit h r != 0 then
          let h := if leadingNonZeroDigit h == 1 then h3Rotate60ccw h else h
          (h, true)
        else (h, found)) st) := by
    intro n
    induction n with
    | zero => intro a st _ hn I; have : a = getRes h + 1 := by omega
              subst this; exact I
    | succ n ih =>
      intro a st ha hn I
      rw [List.range'_succ, List.foldl_cons]
      obtain ⟨h0, found⟩ := st
      obtain ⟨Ir, If, It⟩ := I
      simp only [] at Ir If It
      have ha15 : a ≤ 15 := by omega
      have hrot8 : rotate60ccw (getDigit h0 a) < 8 := (rot_facts.1 ⟨_, getDigit_lt h0 a⟩).1
      have hs := getRes_setDigit h0 a (rotate60ccw (getDigit h0 a)) ⟨ha, ha15⟩ hrot8
      have hdg : ∀ r', 1 ≤ r' → r' ≤ 15 → getDigit (setDigit h0 a (rotate60ccw (getDigit h0 a))) r' =
          if r' = a then rotate60ccw (getDigit h0 a) else getDigit h0 r' :=
        fun r' h1 h15 => getDigit_setDigit h0 a r' _ ⟨ha, ha15⟩ ⟨h1, h15⟩ hrot8
      refine ih (a + 1) _ (by omega) (by omega) ?_
      simp only []
      cases found with
      | true =>
        simp only [Bool.not_true, Bool.false_and, Bool.false_eq_true, if_false]
        obtain ⟨p, p1, pa, pd, pn, pz⟩ := It rfl
        refine ⟨by rw [hs.1]; exact Ir, fun c => by simp at c, fun _ => ⟨p, p1, by omega, ?_, ?_, ?_⟩⟩
        · rw [hdg p p1 (by omega)]; simp [show p ≠ a by omega]; exact pd
        · rw [hdg p p1 (by omega)]; simp [show p ≠ a by omega]; exact pn
        · intro r h1 hr
          rw [hdg r h1 (by omega)]; simp [show r ≠ a by omega]; exact pz r h1 hr
      | false =>
        have Iz := If rfl
        simp only [Bool.not_false, Bool.true_and]
        have da : getDigit (setDigit h0 a (rotate60ccw (getDigit h0 a))) a = rotate60ccw (getDigit h0 a) := by
          rw [hdg a ha ha15]; simp
        have dz : ∀ r, 1 ≤ r → r < a → getDigit (setDigit h0 a (rotate60ccw (getDigit h0 a))) r = 0 := by
          intro r h1 hr
          rw [hdg r h1 (by omega)]; simp [show r ≠ a by omega]; exact Iz r h1 hr
        by_cases hnz : rotate60ccw (getDigit h0 a) = 0
        · have : (getDigit (setDigit h0 a (rotate60ccw (getDigit h0 a))) a != 0) = false := by rw [da]; simp [hnz]
          simp only [this, Bool.false_eq_true, if_false]
          refine ⟨by rw [hs.1]; exact Ir, fun _ r h1 hr => ?_, fun c => by simp at c⟩
          by_cases e : r = a
          · subst e; rw [da]; exact hnz
          · exact dz r h1 (by omega)
        · have : (getDigit (setDigit h0 a (rotate60ccw (getDigit h0 a))) a != 0) = true := by rw [da]; simp [hnz]
          simp only [this, if_true]
          have hl : leadingNonZeroDigit (setDigit h0 a (rotate60ccw (getDigit h0 a))) = rotate60ccw (getDigit h0 a) := by
            have := lnz_of_first _ a ha (by rw [hs.1, Ir]; omega) (by rw [da]; exact hnz) dz
            rw [this, da]
          by_cases h1 : rotate60ccw (getDigit h0 a) = 1
          · have : (leadingNonZeroDigit (setDigit h0 a (rotate60ccw (getDigit h0 a))) == 1) = true := by rw [hl]; simp [h1]
            simp only [this, if_true]
            have hr' : getRes (h3Rotate60ccw (setDigit h0 a (rotate60ccw (getDigit h0 a)))) = getRes h := by
              rw [(h3Rotate60ccw_hdr _).2, hs.1]; exact Ir
            have hdig : ∀ r, 1 ≤ r → r ≤ a → getDigit (h3Rotate60ccw (setDigit h0 a (rotate60ccw (getDigit h0 a)))) r =
                rotate60ccw (getDigit (setDigit h0 a (rotate60ccw (getDigit h0 a))) r) := by
              intro r hr1 hra
              unfold h3Rotate60ccw
              rw [getDigit_mapDigits _ (fun d hd => (rot_facts.1 ⟨d, hd⟩).1) _ r hr1 (by omega)]
              have : r ≤ getRes (setDigit h0 a (rotate60ccw (getDigit h0 a))) := by rw [hs.1, Ir]; omega
              simp [this]
            refine ⟨hr', fun c => by simp at c, fun _ => ⟨a, ha, by omega, ?_, ?_, ?_⟩⟩
            · rw [hdig a ha (Nat.le_refl _), da, h1]; decide
            · rw [hdig a ha (Nat.le_refl _), da, h1]; decide
            · intro r hr1 hra
              rw [hdig r hr1 (by omega), dz r hr1 hra]; decide
          · have : (leadingNonZeroDigit (setDigit h0 a (rotate60ccw (getDigit h0 a))) == 1) = false := by rw [hl]; simp [h1]
            simp only [this, Bool.false_eq_true, if_false]
            exact ⟨by rw [hs.1]; exact Ir, fun c => by simp at c, fun _ => ⟨a, ha, by omega, by rw [da]; exact hnz, by rw [da]; exact h1, dz⟩⟩
  have F := key (getRes h) 1 (h, false) (by omega) (by omega) ⟨rfl, fun _ r h1 hr => by omega, fun c => by simp at c⟩
  obtain ⟨Fr, Ff, Ft⟩ := F
  generalize ((List.range' 1 (getRes h)).foldl _ (h, false)) = fin at Fr Ff Ft ⊢
  obtain ⟨hf, found⟩ := fin
  simp only [] at Fr Ff Ft ⊢
  cases found with
  | false =>
    rw [lnz_zero hf (fun r h1 hr => Ff rfl r h1 (by omega))]; decide
  | true =>
    obtain ⟨p, p1, pa, pd, pn, pz⟩ := Ft rfl
    rw [lnz_of_first hf p p1 (by omega) pd pz]; exact pn


theorem iter_lnz (n : Nat) (x : BitVec 64) (hx : leadingNonZeroDigit x ≠ 1) :
    leadingNonZeroDigit (iterate h3RotatePent60ccw n x) ≠ 1 :=
  iterate_inv (fun y => leadingNonZeroDigit y ≠ 1) h3RotatePent60ccw (fun y _ => rotatePent_lnz y) n x hx

theorem finishPentagon_lnz (ob nb old nrot : Nat) (cur : BitVec 64) (rot : Nat) (out : BitVec 64) (r : Nat)
    (h : finishPentagon ob nb old nrot cur rot = .ok (out, r)) : leadingNonZeroDigit out ≠ 1 := by
  unfold finishPentagon at h
  have ht : ∀ e : H3Error, (throw e : Except H3Error Unit) = Except.error e := fun _ => rfl
  simp only [bind, Except.bind, pure, Except.pure, ht] at h
  by_cases hk : leadingNonZeroDigit cur = 1
  · have B := iter_lnz nrot (h3Rotate60cw cur) (by rw [lnz_rotate60cw, hk]; decide)
    have C := iter_lnz nrot (h3Rotate60ccw cur) (by rw [lnz_rotate60ccw, hk]; decide)
    simp only [hk, beq_self_eq_true, if_true] at h
    repeat' (split at h)
    all_goals first
      | (simp only [Except.ok.injEq, Prod.mk.injEq] at h; rw [← h.1]; first | exact B | exact C)
      | (simp at h)
  · have D := iter_lnz nrot cur hk
    have : (leadingNonZeroDigit cur == 1) = false := by simp [hk]
    simp only [this, Bool.false_eq_true, if_false] at h
    repeat' (split at h)
    all_goals (simp only [Except.ok.injEq, Prod.mk.injEq] at h; rw [← h.1]; exact D)

/-- **C01 closure / C05: every successful neighbour step returns a valid cell of the origin's
resolution.** -/
theorem h3NeighborRotations_valid (origin : BitVec 64) (dir rot : Nat) (out : BitVec 64) (r : Nat)
    (w : WeakValid origin) (h : h3NeighborRotations origin dir rot = .ok (out, r)) :
    Valid.ValidN out ∧ getRes out = getRes origin := by
  have W := h3NeighborRotations_weakValid origin dir rot out r w h
  refine ⟨⟨W.1.1, W.1.2.1, W.1.2.2.1, W.1.2.2.2.1, W.1.2.2.2.2, ?_⟩, W.2⟩
  intro hpent
  apply pent_clause_of_lnz
  -- the result lies in a pentagon base cell: it came out of `finishPentagon`
  have hres : getRes origin ≤ 15 := by have := getRes_lt origin; omega
  have d := w.dv
  unfold h3NeighborRotations at h
  split at h
  · simp at h
  · next hdir =>
    simp only [] at h
    split at h
    · simp at h
    · next hbc =>
      have hd7 : iterate rotate60ccw (rot % 6) dir < 7 := rotate60ccw_lt7 _ _ (by omega)
      split at h
      · simp at h
      · next cur ab hdp =>
        have S1 := digitPass_DV hres _ _ _ _ _ (Nat.le_refl _) hd7 d hdp
        have hab : ∀ d, ab = some d → d < 7 := fun d hd => digitPass_dir _ _ _ _ d hd7 (by rw [hdp, hd])
        unfold finishNeighbor at h
        simp only [] at h
        obtain ⟨bc', hb', S⟩ := baseCellSwitch_DV hres (getBaseCell origin) cur ab (rot % 6) (by omega) w.2.2.2.1 hab S1
        split at h
        · exact finishPentagon_lnz _ _ _ _ _ _ _ _ h
        · next hnp =>
          exfalso
          simp only [Except.ok.injEq, Prod.mk.injEq] at h
          have O := iterate_inv (DV (getRes origin) bc') h3Rotate60ccw (fun _ => h3Rotate60ccw_DV hres)
            (baseCellSwitch (getBaseCell origin) cur ab (rot % 6)).2.1.toNat _ S
          rw [h.1] at O
          have e1 : getBaseCell out = bc' := O.2.2.2.2.1
          have e2 : getBaseCell (baseCellSwitch (getBaseCell origin) cur ab (rot % 6)).1 = bc' := S.2.2.2.2.1
          rw [e2] at hnp
          rw [e1] at hpent
          exact hnp hpent

/-- in terms of the bit-level documented layout of C01 (`layoutSpec`, proved equal to the generated
`isValidCell` for all 2^64 values) -/
theorem h3NeighborRotations_layout (origin : BitVec 64) (dir rot : Nat) (out : BitVec 64) (r : Nat)
    (w : C01.layoutSpec origin = true) (h : h3NeighborRotations origin dir rot = .ok (out, r)) :
    C01.layoutSpec out = true ∧ getRes out = getRes origin := by
  have v := (Valid.layoutSpec_iff origin).mp w
  have := h3NeighborRotations_valid origin dir rot out r (validN_weak origin v) h
  exact ⟨(Valid.layoutSpec_iff out).mpr this.1, this.2⟩

/-- every cell within any number of neighbour steps of a valid cell is a valid cell of the same
resolution: in particular everything `gridDiskDistancesSafe` writes -/
theorem walk_valid (origin : BitVec 64) (w : Valid.ValidN origin) (d : Nat) (v : BitVec 64)
    (wk : Walk cellNeighbors d origin v) : Valid.ValidN v ∧ getRes v = getRes origin := by
  induction wk with
  | refl => exact ⟨w, rfl⟩
  | step _ hb ih =>
    have ih' := ih w
    rw [cellNeighbors_eq] at hb
    obtain ⟨i, _, hi⟩ := List.mem_filterMap.mp hb
    unfold nbrAt at hi
    split at hi
    · next n r hn =>
      simp only [Option.some.injEq] at hi
      subst hi
      have := h3NeighborRotations_valid _ _ _ _ _ (validN_weak _ ih'.1) hn
      exact ⟨this.1, by rw [this.2, ih'.2]⟩
    · simp at hi


/-! non-vacuity: the hypotheses are met by concrete steps — out of a pentagon, and from a hexagon
base cell into a pentagon base cell (the `finishPentagon` path) -/
example : (match h3NeighborRotations 0x81083ffffffffff#64 2 0 with | .ok (o, _) => o == 0x8108bffffffffff#64 | .error _ => false) = true := by
  decide +kernel
example : (match h3NeighborRotations 0x81013ffffffffff#64 4 0 with
    | .ok (o, _) => isBaseCellPentagon (getBaseCell o) && getBaseCell o != getBaseCell 0x81013ffffffffff#64
    | .error _ => false) = true := by
  decide +kernel
example : C01.layoutSpec 0x81013ffffffffff#64 = true := by decide +kernel

end H3.C05V
