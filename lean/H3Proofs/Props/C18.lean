/-
C18 — the library is re-entrant.
(1) `frame_ok`: a complete syntactic statement about the current source tree: every object with
    static storage duration (file-scope or function-local `static`) is either const-qualified or
    never the target of a store and never has its address passed to a pointer to non-const.
    The table `H3.Gen.globals` is regenerated from clang's AST on every run.
(2) `interleaving_eq_sequential`: threads whose steps read a shared component and write only their
    own private component compute, under every interleaving, exactly what they compute alone.
-/
import H3Model.Generated.Globals

namespace H3.C18
open H3.Gen

/-- an object can only ever be read -/
def readOnly (g : Global) : Bool := g.stores == 0 && g.addrMut == 0 && g.other == 0

/-- **frame condition**: no library-owned object with static storage can be written -/
theorem frame_ok : globals.all readOnly = true := by decide +kernel

/-- the scan saw the tables and the seven non-const statics the property names -/
theorem scan_nonvacuous :
    globals.length ≥ 30 ∧
    ["H3ErrorDescriptions", "MAX_EDGE_LENGTH_RADS", "NORTH_POLE_CELLS", "SOUTH_POLE_CELLS", "RES0_BBOXES",
      "VALID_RANGE_BBOX", "MAX_SIZE_CELL_THRESHOLD"].all
        (fun n => globals.any (fun g => g.name == n && !g.isConst)) = true ∧
    globals.any (fun g => g.name == "baseCellNeighbors" && g.isConst && g.reads > 0) = true := by
  decide +kernel

/-! ### abstract non-interference -/

section
variable {S P : Type} {T : Type} [DecidableEq T]

/-- a step of thread `t`: reads the shared state, rewrites only `t`'s private state -/
structure Step (S P T : Type) where
  tid : T
  run : S → P → P

/-- global state: the (never written) shared component and one private component per thread -/
structure World (S P T : Type) where
  shared : S
  priv : T → P

def exec (w : World S P T) (s : Step S P T) : World S P T :=
  { w with priv := fun t => if t = s.tid then s.run w.shared (w.priv t) else w.priv t }

/-- running a schedule (any interleaving of the threads' steps) -/
def execAll (w : World S P T) (sch : List (Step S P T)) : World S P T := sch.foldl exec w

/-- thread `t` running alone: only its own steps, in order -/
def alone (shared : S) (p : P) (t : T) (sch : List (Step S P T)) : P :=
  (sch.filter (fun s => s.tid = t)).foldl (fun p s => s.run shared p) p

/-- **every interleaving equals the sequential runs**: the shared component is unchanged and each
thread ends with exactly the private state it reaches when run alone. -/
theorem interleaving_eq_sequential (sch : List (Step S P T)) :
    ∀ (w : World S P T), (execAll w sch).shared = w.shared ∧
      ∀ t, (execAll w sch).priv t = alone w.shared (w.priv t) t sch := by
  induction sch with
  | nil => intro w; simp [execAll, alone]
  | cons s rest ih =>
    intro w
    have h := ih (exec w s)
    simp only [execAll, List.foldl_cons] at h ⊢
    refine ⟨by rw [h.1]; rfl, fun t => ?_⟩
    rw [h.2 t]
    unfold alone
    by_cases ht : s.tid = t
    · simp [List.filter_cons, ht, exec]
    · have ht' : ¬ t = s.tid := fun e => ht e.symm
      simp [List.filter_cons, ht, ht', exec]

/-- two steps of different threads commute (no conflict) -/
theorem steps_commute (w : World S P T) (a b : Step S P T) (h : a.tid ≠ b.tid) :
    exec (exec w a) b = exec (exec w b) a := by
  unfold exec
  simp only [World.mk.injEq, true_and]
  funext t
  by_cases h1 : t = a.tid <;> by_cases h2 : t = b.tid <;> simp_all
end

end H3.C18
