/-
Translation validation of `getNumCells` (latLng.c), `maxGridDiskSize` (algos.c) and `validateChildPos`
(h3Index.c, static): translated from the C text on every run by tools/c2lean.py and proved equal to the model's
functions.  `maxGridDiskSize` hands its own out pointer on to `getNumCells`; `validateChildPos` passes the address of
an uninitialised local to `cellToChildrenSize` and wraps the result in `NEVER(...)`, whose failing-assertion branch the
translation treats as undefined: `validateChildPos_defined_of` therefore proves that the assertion cannot fire when
the child resolution is one the parent has.
-/
import H3Proofs.Lemmas.Bits
import H3Proofs.Props.C04Gen
import H3Model.Disk
import Std.Tactic.BVDecide
import Mathlib.Tactic.Linarith

namespace H3.C13G
open H3 H3.Bits

/-! ### getNumCells -/

theorem getNumCells_tbl : ∀ r : Fin 16,
    Gen.Bits.getNumCells_out_out (BitVec.ofNat 32 r.val) 0#64 = BitVec.ofInt 64 (2 + 120 * H3.ipow 7 r.val) ∧
    Gen.Bits.getNumCells_defined (BitVec.ofNat 32 r.val) 0#64 = true := by
  decide +kernel

theorem getNumCells_code (r : BitVec 32) (o : BitVec 64) :
    Gen.Bits.getNumCells r o = (if BitVec.slt r 0#32 || BitVec.slt 15#32 r then 4#32 else 0#32) := by
  unfold Gen.Bits.getNumCells
  bv_decide

theorem getNumCells_out_indep (r : BitVec 32) (o : BitVec 64) :
    Gen.Bits.getNumCells_out_out r o = (if BitVec.slt r 0#32 || BitVec.slt 15#32 r then o else Gen.Bits.getNumCells_out_out r 0#64) := by
  unfold Gen.Bits.getNumCells_out_out
  bv_decide

theorem getNumCells_defined_indep (r : BitVec 32) (o : BitVec 64) :
    Gen.Bits.getNumCells_defined r o = Gen.Bits.getNumCells_defined r 0#64 := by
  unfold Gen.Bits.getNumCells_defined
  rfl

theorem small_of (r : BitVec 32) (h : ¬ (BitVec.slt r 0#32 || BitVec.slt 15#32 r) = true) :
    r.toNat < 16 ∧ r.toInt = (r.toNat : Int) := by
  have h1 : BitVec.ult r 16#32 = true := by bv_decide
  have h2 : r.toNat < 16 := by simpa [BitVec.ult] using h1
  exact ⟨h2, BitVec.toInt_eq_toNat_of_lt (by omega)⟩

/-- **the C function `getNumCells` is the model's** -/
theorem getNumCells_eq_model (r : BitVec 32) (o : BitVec 64) :
    (match H3.getNumCells r.toInt with
     | .ok v => Gen.Bits.getNumCells r o = 0#32 ∧ Gen.Bits.getNumCells_out_out r o = BitVec.ofInt 64 v
     | .error e => Gen.Bits.getNumCells r o = BitVec.ofNat 32 e.code ∧ Gen.Bits.getNumCells_out_out r o = o) ∧
    Gen.Bits.getNumCells_defined r o = true := by
  rw [getNumCells_code, getNumCells_out_indep, getNumCells_defined_indep]
  unfold H3.getNumCells
  by_cases c : (BitVec.slt r 0#32 || BitVec.slt 15#32 r) = true
  · have c' : (decide (r.toInt < 0) || decide (r.toInt > 15)) = true := by
      simpa [BitVec.slt] using c
    simp only [c, c', if_true]
    refine ⟨⟨rfl, trivial⟩, ?_⟩
    unfold Gen.Bits.getNumCells_defined
    simp only [c]
    have : ((if (((if (BitVec.slt r 0#32) then 1#32 else 0#32) != 0#32) || ((if (BitVec.slt 15#32 r) then 1#32 else 0#32) != 0#32)) then 1#32 else 0#32) != 0#32) = true := by
      revert c; cases BitVec.slt r 0#32 <;> cases BitVec.slt 15#32 r <;> decide
    simp only [this, if_true]; rfl
  · obtain ⟨hs, hi⟩ := small_of r c
    have c' : ¬ (decide (r.toInt < 0) || decide (r.toInt > 15)) = true := by
      simpa [BitVec.slt] using c
    simp only [c, c', if_false, Bool.false_eq_true]
    have T := getNumCells_tbl ⟨r.toNat, hs⟩
    dsimp only at T
    rw [BitVec.ofNat_toNat, BitVec.setWidth_eq] at T
    have e : r.toInt.toNat = r.toNat := by omega
    rw [e]
    exact ⟨⟨trivial, T.1⟩, T.2⟩

/-! ### maxGridDiskSize -/

theorem maxGridDiskSize_defined_all (k : BitVec 32) (o : BitVec 64) : Gen.Bits.maxGridDiskSize_defined k o = true := by
  unfold Gen.Bits.maxGridDiskSize_defined
  rw [getNumCells_defined_indep, (getNumCells_tbl ⟨15, by decide⟩).2]
  bv_decide

theorem maxGridDiskSize_shape (k : BitVec 32) (o : BitVec 64) :
    Gen.Bits.maxGridDiskSize k o = (if BitVec.slt k 0#32 then 2#32 else 0#32) ∧
    Gen.Bits.maxGridDiskSize_out_out k o =
      (if BitVec.slt k 0#32 then o
       else if BitVec.sle 13780510#32 k then Gen.Bits.getNumCells_out_out 15#32 0#64
       else 3#64 * BitVec.signExtend 64 k * (BitVec.signExtend 64 k + 1#64) + 1#64) := by
  constructor
  · unfold Gen.Bits.maxGridDiskSize
    rw [getNumCells_code]
    bv_decide
  · unfold Gen.Bits.maxGridDiskSize_out_out
    rw [getNumCells_out_indep]
    bv_decide

/-- **the C function `maxGridDiskSize` is the model's**: `E_DOMAIN` for negative k, the number of res-15 cells from
`K_ALL_CELLS_AT_RES_15` on, `3k(k+1)+1` below (computed in 64 bits without overflow: `maxGridDiskSize_defined_all`) -/
theorem maxGridDiskSize_eq_model (k : BitVec 32) (o : BitVec 64) :
    match H3.maxGridDiskSize k.toInt with
    | .ok v => Gen.Bits.maxGridDiskSize k o = 0#32 ∧ Gen.Bits.maxGridDiskSize_out_out k o = BitVec.ofInt 64 v
    | .error e => Gen.Bits.maxGridDiskSize k o = BitVec.ofNat 32 e.code ∧ Gen.Bits.maxGridDiskSize_out_out k o = o := by
  obtain ⟨s1, s2⟩ := maxGridDiskSize_shape k o
  rw [s1, s2]
  unfold H3.maxGridDiskSize
  by_cases c : BitVec.slt k 0#32 = true
  · have c' : k.toInt < 0 := by simpa [BitVec.slt] using c
    simp [c, c', H3Error.code]
  · have c' : ¬ k.toInt < 0 := by simpa [BitVec.slt] using c
    simp only [c, c', decide_false, Bool.false_eq_true, if_false]
    by_cases d : BitVec.sle 13780510#32 k = true
    · have d' : k.toInt ≥ H3.K_ALL_CELLS_AT_RES_15 := by
        have : (13780510#32 : BitVec 32).toInt ≤ k.toInt := by simpa [BitVec.sle] using d
        have e : (13780510#32 : BitVec 32).toInt = 13780510 := by decide
        unfold H3.K_ALL_CELLS_AT_RES_15 H3.Gen.K_ALL_CELLS_AT_RES_15
        omega
      simp only [d, d', decide_true, if_true]
      have T := (getNumCells_tbl ⟨15, by decide⟩).1
      have g : H3.getNumCells 15 = .ok (2 + 120 * H3.ipow 7 15) := by decide
      rw [g]
      exact ⟨trivial, T⟩
    · have d' : ¬ k.toInt ≥ H3.K_ALL_CELLS_AT_RES_15 := by
        have : ¬ (13780510#32 : BitVec 32).toInt ≤ k.toInt := by simpa [BitVec.sle] using d
        have e : (13780510#32 : BitVec 32).toInt = 13780510 := by decide
        unfold H3.K_ALL_CELLS_AT_RES_15 H3.Gen.K_ALL_CELLS_AT_RES_15
        omega
      simp only [d, d', decide_false, Bool.false_eq_true, if_false]
      refine ⟨trivial, ?_⟩
      have hk : BitVec.signExtend 64 k = BitVec.ofInt 64 k.toInt := by
        apply BitVec.eq_of_toInt_eq
        rw [BitVec.toInt_signExtend_of_le (by omega), BitVec.toInt_ofInt]
        have := BitVec.toInt_lt (x := k)
        have := BitVec.le_toInt (x := k)
        simp [Int.bmod]
        omega
      rw [hk]
      apply BitVec.eq_of_toInt_eq
      simp only [BitVec.toInt_add, BitVec.toInt_mul, BitVec.toInt_ofInt]
      have e : (13780510#32 : BitVec 32).toInt = 13780510 := by decide
      have hlt : k.toInt < 13780510 := by
        have : ¬ (13780510#32 : BitVec 32).toInt ≤ k.toInt := by simpa [BitVec.sle] using d
        omega
      have h0 : 0 ≤ k.toInt := by omega
      generalize k.toInt = z at *
      have b1 : 3 * z * (z + 1) + 1 < 2 ^ 62 := by nlinarith
      have b0 : 0 ≤ 3 * z * (z + 1) + 1 := by nlinarith
      have b2 : 3 * z < 2 ^ 62 := by omega
      have q1 : z.bmod (2 ^ 64) = z := Int.bmod_eq_of_le (by omega) (by omega)
      have q3 : (3#64 : BitVec 64).toInt = 3 := by decide
      have q4 : (1#64 : BitVec 64).toInt = 1 := by decide
      rw [q1, q3, q4]
      have q5 : (3 * z).bmod (2 ^ 64) = 3 * z := Int.bmod_eq_of_le (by omega) (by omega)
      have q6 : (z + 1).bmod (2 ^ 64) = z + 1 := Int.bmod_eq_of_le (by omega) (by omega)
      rw [q5, q6]
      have b3 : 0 ≤ 3 * z * (z + 1) := by nlinarith
      have q7 : (3 * z * (z + 1)).bmod (2 ^ 64) = 3 * z * (z + 1) := Int.bmod_eq_of_le (by omega) (by omega)
      rw [q7]

/-! ### validateChildPos -/

theorem ipow7_bounds : ∀ n : Fin 16, 0 ≤ H3.ipow 7 n.val ∧ H3.ipow 7 n.val < 2 ^ 62 ∧
    0 ≤ 1 + 5 * (H3.ipow 7 n.val - 1) / 6 ∧ 1 + 5 * (H3.ipow 7 n.val - 1) / 6 < 2 ^ 62 := by
  decide +kernel

theorem cellToChildrenSize_bound (h : BitVec 64) (r : Int) (v : Int) (hv : H3.cellToChildrenSize h r = .ok v) :
    0 ≤ v ∧ v < 2 ^ 62 := by
  unfold H3.cellToChildrenSize at hv
  by_cases c : H3.hasChildAtRes h r = true
  · have hc := c
    unfold H3.hasChildAtRes at hc
    simp only [Bool.not_eq_true', Bool.or_eq_false_iff, decide_eq_false_iff_not] at hc
    have hr := getRes_lt h
    have hn : (r - (getRes h : Int)).toNat < 16 := by omega
    have B := ipow7_bounds ⟨(r - (getRes h : Int)).toNat, hn⟩
    dsimp only at B
    simp only [c, Bool.not_true, Bool.false_eq_true, if_false] at hv
    split at hv
    · injection hv with hv; subst hv; exact ⟨B.2.2.1, B.2.2.2⟩
    · injection hv with hv; subst hv; exact ⟨B.1, B.2.1⟩
  · simp [c] at hv

theorem code_ne_zero (e : H3Error) : BitVec.ofNat 32 e.code ≠ 0#32 := by
  cases e <;> decide

/-- **the C function `validateChildPos` is the model's**, whatever the uninitialised local holds -/
theorem validateChildPos_eq_model (cp parent : BitVec 64) (cr : BitVec 32) (u : BitVec 64) :
    Gen.Bits.validateChildPos cp parent cr u =
      (match H3.validateChildPos cp.toInt parent cr.toInt with
       | .ok () => 0#32
       | .error e => BitVec.ofNat 32 e.code) := by
  have shape : Gen.Bits.validateChildPos cp parent cr u =
      (if Gen.Bits.cellToChildrenSize parent cr u != 0#32 then Gen.Bits.cellToChildrenSize parent cr u
       else if BitVec.slt cp 0#64 || BitVec.sle (Gen.Bits.cellToChildrenSize_out_out parent cr u) cp then 2#32 else 0#32) := by
    unfold Gen.Bits.validateChildPos
    bv_decide
  rw [shape]
  have M := C04G.cellToChildrenSize_eq_model parent cr u
  unfold H3.validateChildPos
  generalize hm : H3.cellToChildrenSize parent cr.toInt = m at M
  cases m with
  | error e =>
    simp only at M
    have a : (BitVec.ofNat 32 e.code != 0#32) = true := by simpa using code_ne_zero e
    simp only [M.1, a, if_true]
  | ok v =>
    simp only at M
    have hb := cellToChildrenSize_bound parent cr.toInt v hm
    have a : (Gen.Bits.cellToChildrenSize parent cr u != 0#32) = false := by rw [M.1]; rfl
    simp only [a, Bool.false_eq_true, if_false, M.2]
    have e1 : (BitVec.ofInt 64 v).toInt = v := by
      rw [BitVec.toInt_ofInt]
      exact Int.bmod_eq_of_le (by omega) (by omega)
    have e2 : BitVec.slt cp 0#64 = decide (cp.toInt < 0) := by simp [BitVec.slt]
    have e3 : BitVec.sle (BitVec.ofInt 64 v) cp = decide (v ≤ cp.toInt) := by simp [BitVec.sle, e1]
    rw [e2, e3]
    by_cases c1 : cp.toInt < 0 <;> by_cases c2 : v ≤ cp.toInt <;>
      simp [c1, c2, H3Error.code] <;> omega

/-- the `NEVER(sizeError)` assertion inside `validateChildPos` cannot fire (and nothing else is undefined) when the
child resolution is one the parent has — which `childPosToCell` and `cellToChildPos` establish before the call -/
theorem validateChildPos_defined_of (cp parent : BitVec 64) (cr : BitVec 32) (u : BitVec 64)
    (h : H3.hasChildAtRes parent cr.toInt = true) : Gen.Bits.validateChildPos_defined cp parent cr u = true := by
  unfold Gen.Bits.validateChildPos_defined
  have M := C04G.cellToChildrenSize_eq_model parent cr u
  have hm : ∃ v, H3.cellToChildrenSize parent cr.toInt = .ok v := by
    unfold H3.cellToChildrenSize
    simp only [h, Bool.not_true, Bool.false_eq_true, if_false]
    split <;> exact ⟨_, rfl⟩
  obtain ⟨v, hv⟩ := hm
  rw [hv] at M
  simp only at M
  simp only [C04G.cellToChildrenSize_defined_all, M.1]
  have a : ((0#32 : BitVec 32) != 0#32) = false := rfl
  simp [a]

end H3.C13G
