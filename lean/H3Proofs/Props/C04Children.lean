/-
C04 — children enumeration (model: `cellToChildrenS`, H3Model/HierSpec.lean; tied to the C iterator by
the `childrenS` correspondence stream and to the loop-faithful iterator model by the `children` stream).
For every parent and every depth 0..15: exactly cellToChildrenSize children, the i-th one is
childPosToCell(i), each has the requested resolution and the parent as its ancestor, they are pairwise
distinct, and every cell is among the children of each of its ancestors (partition).
-/
import H3Proofs.Lemmas.ChildStrings
import H3Proofs.Props.C13Bij

namespace H3.C04C
open H3 H3.Rank H3.Bits H3.Hier H3.CS H3.C13

/-- number of digit strings = closed-form child count -/
theorem strings_length (P : Bool) (m : Nat) :
    ((childDigitStrings P m).length : Int) = if P then pentCount m else 7 ^ m := by
  cases P with
  | true =>
    have := congrArg List.length (pent_strings m).2
    simp only [List.length_map, List.length_range] at this
    simp only [if_true]
    rw [this, pentCountN_cast]
  | false =>
    have := congrArg List.length (hex_strings m).2
    simp only [List.length_map, List.length_range] at this
    simp only [Bool.false_eq_true, if_false]
    rw [this]; push_cast; rfl

theorem childrenS_def (h : BitVec 64) (c : Nat) (h0 : h ≠ 0#64) (h1 : getRes h ≤ c) (h2 : c ≤ 15) :
    cellToChildrenS h c =
      (childDigitStrings (isPentagon h) (c - getRes h)).map (writeDigits (setRes h c) (getRes h)) := by
  unfold cellToChildrenS hasChildAtRes
  have c1 : (decide ((c : Int) < (getRes h : Int)) || decide ((c : Int) > 15)) = false := by simp; omega
  have c2 : (h == 0#64) = false := by simpa using h0
  simp only [c1, c2, Int.toNat_natCast]
  rfl

/-- **C04: exactly cellToChildrenSize children** — for every non-zero 64-bit `h` (valid or not) and
every child resolution res h ≤ c ≤ 15; never more than the announced size. -/
theorem length_children (h : BitVec 64) (c : Nat) (h0 : h ≠ 0#64) (h1 : getRes h ≤ c) (h2 : c ≤ 15) :
    cellToChildrenSize h c = .ok ((cellToChildrenS h c).length : Int) := by
  rw [size_of h c h1 h2, childrenS_def h c h0 h1 h2, List.length_map, strings_length]

/-- the i-th digit string is the unranking of i -/
theorem strings_get (P : Bool) (m i : Nat) (hi : i < (childDigitStrings P m).length) :
    (childDigitStrings P m)[i] = if P then unrankP m i else unrankH m i := by
  cases P with
  | true =>
    obtain ⟨v, rk⟩ := pent_strings m
    have hv := v _ (List.getElem_mem hi)
    have hr : rankP ((childDigitStrings true m)[i]) = (i : Int) := by
      have := congrArg (fun l => l[i]?) rk
      simp only [List.getElem?_map, List.getElem?_eq_getElem hi, Option.map_some] at this
      have hlen : i < pentCountN m := by
        have := congrArg List.length rk
        simp only [List.length_map, List.length_range] at this
        omega
      rw [List.getElem?_range hlen] at this
      simpa using this
    have := unrankP_rankP _ hv.2
    rw [hv.1, hr] at this
    simp only [if_true]
    exact this.symm
  | false =>
    obtain ⟨v, rk⟩ := hex_strings m
    have hv := v _ (List.getElem_mem hi)
    have hr : rankH ((childDigitStrings false m)[i]) = (i : Int) := by
      have := congrArg (fun l => l[i]?) rk
      simp only [List.getElem?_map, List.getElem?_eq_getElem hi, Option.map_some] at this
      have hlen : i < 7 ^ m := by
        have := congrArg List.length rk
        simp only [List.length_map, List.length_range] at this
        omega
      rw [List.getElem?_range hlen] at this
      simpa using this
    have := unrankH_rankH _ hv.2
    rw [hv.1, hr] at this
    simp only [Bool.false_eq_true, if_false]
    exact this.symm

/-- **C04 / C13: position i is the i-th element of cellToChildren** -/
theorem children_get (h : BitVec 64) (c : Nat) (h0 : h ≠ 0#64) (h1 : getRes h ≤ c) (h2 : c ≤ 15)
    (i : Nat) (hi : i < (cellToChildrenS h c).length) :
    childPosToCellS i h c = .ok (cellToChildrenS h c)[i] := by
  have hsize := length_children h c h0 h1 h2
  unfold childPosToCellS validateChildPos
  have c1 : (decide ((c : Int) < 0) || decide ((c : Int) > 15)) = false := by simp; omega
  have c2 : ¬ ((c : Int) < (getRes h : Int)) := by omega
  have c3 : (decide ((i : Int) < 0) || decide ((i : Int) ≥ ((cellToChildrenS h c).length : Int))) = false := by
    simp; omega
  simp only [c1, Bool.false_eq_true, if_false, c2, hsize, c3, Int.toNat_natCast]
  congr 1
  -- unfold the enumeration
  have hdef := childrenS_def h c h0 h1 h2
  have hi' : i < (childDigitStrings (isPentagon h) (c - getRes h)).length := by
    rw [hdef, List.length_map] at hi; exact hi
  have hget : (cellToChildrenS h c)[i] =
      writeDigits (setRes h c) (getRes h) ((childDigitStrings (isPentagon h) (c - getRes h))[i]) := by
    simp only [hdef, List.getElem_map]
  rw [hget, strings_get _ _ i hi', digitsOfPosP_eq, digitsOfPosH_eq]

/-- **C04: every child has the requested resolution, the parent as its ancestor at the parent's
resolution, and its own position; children are pairwise distinct.** (parent in normal form, e.g. valid) -/
theorem children_props (h : BitVec 64) (c : Nat) (h0 : h ≠ 0#64) (h1 : getRes h ≤ c) (h2 : c ≤ 15)
    (hn : ParentNormal h c) (i : Nat) (hi : i < (cellToChildrenS h c).length) :
    getRes (cellToChildrenS h c)[i] = c ∧ cellToParent (cellToChildrenS h c)[i] (getRes h) = .ok h ∧
    cellToChildPosS (cellToChildrenS h c)[i] (getRes h) = .ok (i : Int) := by
  have hsize := length_children h c h0 h1 h2
  obtain ⟨y, e1, e2, e3, e4⟩ := childPos_childPosToCell h c h1 h2 hn i _ hsize (by omega) (by omega)
  rw [children_get h c h0 h1 h2 i hi] at e1
  cases e1
  exact ⟨e2, e3, e4⟩

theorem children_nodup (h : BitVec 64) (c : Nat) (h0 : h ≠ 0#64) (h1 : getRes h ≤ c) (h2 : c ≤ 15)
    (hn : ParentNormal h c) : (cellToChildrenS h c).Nodup := by
  unfold List.Nodup
  rw [List.pairwise_iff_getElem]
  intro i j hi hj hij heq
  have pi := (children_props h c h0 h1 h2 hn i hi).2.2
  have pj := (children_props h c h0 h1 h2 hn j hj).2.2
  rw [heq] at pi
  rw [pi] at pj
  simp only [Except.ok.injEq] at pj
  have : i = j := by exact_mod_cast pj
  omega

theorem getDigit_zero (r : Nat) : getDigit (0#64) r = 0 := by
  have h := getDigit_lt (0#64) r
  unfold getDigit H3.Gen.Bits.m_get_digit at *
  simp

/-- **C04 (partition, converse): every cell whose digits below an ancestor resolution are proper is
among the children of that ancestor**, at the index given by cellToChildPos. -/
theorem mem_children_of_ancestor (x : BitVec 64) (p : Nat) (hp : p ≤ getRes x) (hx0 : x ≠ 0#64) (pos : Int)
    (hpos : cellToChildPosS x p = .ok pos) :
    ∃ q, cellToParent x p = .ok q ∧ x ∈ cellToChildrenS q (getRes x) := by
  obtain ⟨q, hq, hcell⟩ := childPosToCell_childPos x p hp pos hpos
  obtain ⟨q', n, hq', hsize, hp0, hpn⟩ := childPos_lt_size x p hp pos hpos
  rw [hq] at hq'; cases hq'
  obtain ⟨q2, e2, r1, r2, r3, r4, r5, r6⟩ := cellToParent_spec x p hp
  rw [hq] at e2; cases e2
  refine ⟨q, hq, ?_⟩
  have hx15 : getRes x ≤ 15 := by have := getRes_lt x; omega
  -- the parent is not H3_NULL
  have hq0 : q ≠ 0#64 := by
    intro e
    by_cases hlt : p < getRes x
    · have h7 := r6 (p + 1) (by omega) (by omega)
      have : (p < p + 1 ∧ p + 1 ≤ getRes x) := by omega
      simp only [this, and_self, if_true] at h7
      rw [e, getDigit_zero] at h7
      omega
    · have hpe : p = getRes x := by omega
      have : q = x := by
        apply Bits.ext _ _ r5 r3 r4 (by rw [r1, hpe]) r2
        intro r h1 h15
        rw [r6 r h1 h15]
        have : ¬ (p < r ∧ r ≤ getRes x) := by omega
        simp [this]
      exact hx0 (by rw [← this, e])
  have hlen := length_children q (getRes x) hq0 (by omega) hx15
  rw [hsize] at hlen
  simp only [Except.ok.injEq] at hlen
  have hi : pos.toNat < (cellToChildrenS q (getRes x)).length := by omega
  have hg := children_get q (getRes x) hq0 (by omega) hx15 pos.toNat hi
  rw [Int.toNat_of_nonneg hp0, hcell] at hg
  simp only [Except.ok.injEq] at hg
  have hm := List.getElem_mem hi
  rw [← hg] at hm
  exact hm

-- non-vacuity
example : (cellToChildrenS 0x8009fffffffffff#64 1).length = 6 := by decide +kernel
example : ParentNormal 0x8009fffffffffff#64 1 := by
  intro r h1 h2
  have hr : getRes 0x8009fffffffffff#64 = 0 := by decide +kernel
  have : r = 1 := by omega
  subst this; decide +kernel

end H3.C04C
