/-
C04 — cellToChildren lists the children in strictly increasing index order: the digit strings are
enumerated in lexicographic order, and lexicographic order of the digits below a common parent is
numeric order of the 64-bit indexes (Lemmas/Order.lean, all index pairs).
-/
import H3Proofs.Lemmas.Order
import H3Proofs.Props.C04Children
import H3Proofs.Lemmas.ValidHier
import Mathlib.Data.List.Pairwise

namespace H3.C04O
open H3 H3.Rank H3.Bits H3.Hier H3.CS H3.C13 H3.C04C

inductive LexLt : List Nat → List Nat → Prop
  | head (a b : Nat) (s t : List Nat) : a < b → s.length = t.length → LexLt (a :: s) (b :: t)
  | tail (a : Nat) (s t : List Nat) : LexLt s t → LexLt (a :: s) (a :: t)

theorem LexLt.length_eq {s t : List Nat} (h : LexLt s t) : s.length = t.length := by
  induction h with
  | head a b s t _ hl => simp [hl]
  | tail a s t _ ih => simp [ih]

theorem strings_len (P : Bool) : ∀ m, ∀ s ∈ childDigitStrings P m, s.length = m := by
  intro m s hs
  cases P with
  | true => exact ((pent_strings m).1 s hs).1
  | false => exact ((hex_strings m).1 s hs).1

/-- the digit strings below a parent are listed in lexicographic order -/
theorem strings_sorted : ∀ (m : Nat) (P : Bool), (childDigitStrings P m).Pairwise LexLt := by
  intro m
  induction m with
  | zero => intro P; simp [childDigitStrings]
  | succ m ih =>
    intro P
    unfold childDigitStrings
    rw [List.pairwise_flatMap]
    constructor
    · intro d _
      rw [List.pairwise_map]
      exact (ih _).imp (fun h => LexLt.tail d _ _ h)
    · have hr : ((List.range 7).filter (fun d => !(P && d == 1))).Pairwise (· < ·) :=
        List.Pairwise.filter _ List.pairwise_lt_range
      refine hr.imp ?_
      intro a b hab x hx y hy
      simp only [List.mem_map] at hx hy
      obtain ⟨s, hs, rfl⟩ := hx
      obtain ⟨t, ht, rfl⟩ := hy
      exact LexLt.head a b s t hab (by rw [strings_len _ m s hs, strings_len _ m t ht])

/-- lexicographic order of the strings written below a common prefix = numeric order of the indexes -/
theorem writeDigits_lt {s t : List Nat} (hlex : LexLt s t) : ∀ (base : BitVec 64) (p : Nat), p + s.length ≤ 15 →
    (∀ d ∈ s, d < 8) → (∀ d ∈ t, d < 8) → (writeDigits base p s).toNat < (writeDigits base p t).toNat := by
  induction hlex with
  | head a b s t hab hl =>
    intro base p hfit hs ht
    simp only [writeDigits]
    have ha : a < 8 := hs a (by simp)
    have hb : b < 8 := ht b (by simp)
    simp only [List.length_cons] at hfit
    obtain ⟨x1, x2, x3, x4, x5, x6⟩ := writeDigits_outside s (setDigit base (p + 1) a) (p + 1) (by omega)
      (fun d hd => hs d (by simp [hd]))
    obtain ⟨y1, y2, y3, y4, y5, y6⟩ := writeDigits_outside t (setDigit base (p + 1) b) (p + 1) (by omega)
      (fun d hd => ht d (by simp [hd]))
    obtain ⟨a1, a2, a3, a4, a5⟩ := getRes_setDigit base (p + 1) a ⟨by omega, by omega⟩ ha
    obtain ⟨b1, b2, b3, b4, b5⟩ := getRes_setDigit base (p + 1) b ⟨by omega, by omega⟩ hb
    apply lt_of_first_diff _ _ (p + 1) (by omega) (by omega)
    · rw [x5, y5, a5, b5]
    · rw [x3, y3, a3, b3]
    · rw [x4, y4, a4, b4]
    · rw [x1, y1, a1, b1]
    · rw [x2, y2, a2, b2]
    · intro k hk1 hk2
      rw [x6 k hk1 (by omega) (Or.inl (by omega)), y6 k hk1 (by omega) (Or.inl (by omega)),
        getDigit_setDigit base (p + 1) k a ⟨by omega, by omega⟩ ⟨hk1, by omega⟩ ha,
        getDigit_setDigit base (p + 1) k b ⟨by omega, by omega⟩ ⟨hk1, by omega⟩ hb]
      have : k ≠ p + 1 := by omega
      simp [this]
    · rw [x6 (p + 1) (by omega) (by omega) (Or.inl (by omega)), y6 (p + 1) (by omega) (by omega) (Or.inl (by omega)),
        getDigit_setDigit base (p + 1) (p + 1) a ⟨by omega, by omega⟩ ⟨by omega, by omega⟩ ha,
        getDigit_setDigit base (p + 1) (p + 1) b ⟨by omega, by omega⟩ ⟨by omega, by omega⟩ hb]
      simpa using hab
  | tail a s t _ ih =>
    intro base p hfit hs ht
    simp only [writeDigits]
    simp only [List.length_cons] at hfit
    exact ih (setDigit base (p + 1) a) (p + 1) (by omega) (fun d hd => hs d (by simp [hd])) (fun d hd => ht d (by simp [hd]))

/-- **C04: the children are listed in strictly increasing index order** -/
theorem children_increasing (h : BitVec 64) (c : Nat) (h0 : h ≠ 0#64) (h1 : getRes h ≤ c) (h2 : c ≤ 15) :
    (cellToChildrenS h c).Pairwise (fun x y => x.toNat < y.toNat) := by
  rw [childrenS_def h c h0 h1 h2, List.pairwise_map]
  have hdig : ∀ s ∈ childDigitStrings (isPentagon h) (c - getRes h), ∀ d ∈ s, d < 8 := by
    intro s hs d hd
    cases hP : isPentagon h with
    | true =>
      rw [hP] at hs
      have := H3.Valid.pentDigits_digits s ((pent_strings _).1 s hs).2 d hd
      omega
    | false =>
      rw [hP] at hs
      have := ((hex_strings _).1 s hs).2 d hd
      omega
  refine (List.Pairwise.and_mem.mp (strings_sorted (c - getRes h) (isPentagon h))).imp ?_
  rintro s t ⟨hs, ht, hlex⟩
  exact writeDigits_lt hlex _ _ (by rw [strings_len _ _ s hs]; omega) (hdig s hs) (hdig t ht)

end H3.C04O
