/-
C03 — the integer half of the centre round trip, `_faceIjkToH3 ∘ (home-face coordinate) = id`, for
every valid cell of a hexagon base cell at every resolution: the digit-extraction loop of `_faceIjkToH3`
(rounding up-aperture steps) recovers exactly the digits of the cell from its coordinate on the base
cell's home face, the remaining coordinate is the base cell's home coordinate, and the face/ijk lookup
table returns the base cell with zero rotations.  `_h3ToFaceIjk` returns exactly this coordinate when it
detects no overage (always for the base cells centred on a face).  The other half of the round trip
(gnomonic projection and its inverse, face choice, overage onto neighbouring faces) is floating-point
/ table geometry and stays with the differential run.
-/
import H3Proofs.Props.C09Round
import H3Model.FaceIjk

namespace H3.C03R
open H3 H3.DP H3.DR H3.Bits H3.C09R

/-- value of a digit string read from a starting coordinate `x0` -/
def coordFrom (x0 : Int × Int) : List Nat → Int × Int
  | [] => x0
  | d :: rest => vadd ((levelM (rest.length + 1)).app (coordFrom x0 rest)) (uax d)

theorem ax_h3ToIjkFrom_gen (h : BitVec 64) (c0 : CoordIJK) : ∀ (n : Nat), Digits (revDigits h n) →
    ax ((List.range' 1 n).foldl (fun c r =>
      ijkNeighbor (if isResClassIII r then downAp7 c else downAp7r c) (getDigit h r)) c0) = coordFrom (ax c0) (revDigits h n) := by
  intro n
  induction n with
  | zero => intro _; rfl
  | succ n ih =>
    intro hdig
    have hd : getDigit h (n + 1) < 7 := hdig _ (by simp [revDigits])
    have hrest : Digits (revDigits h n) := fun x hx => hdig x (by simp [revDigits, hx])
    rw [List.range'_1_concat, List.foldl_append]
    simp only [List.foldl_cons, List.foldl_nil]
    have e : 1 + n = n + 1 := by omega
    rw [e, ax_ijkNeighbor _ _ hd]
    simp only [revDigits, coordFrom, revDigits_length]
    congr 1
    unfold levelM
    by_cases hc : isResClassIII (n + 1) = true
    · simp only [hc, if_true]; rw [ax_downAp7, ih hrest]
    · simp only [hc, Bool.false_eq_true, if_false]; rw [ax_downAp7r, ih hrest]

/-- one (unchecked) step of the loop of `_faceIjkToH3` -/
def stepF (res : Nat) : BitVec 64 × CoordIJK → Nat → BitVec 64 × CoordIJK :=
  fun (h, c) k =>
    let level := res - k
    let last := c
    let (c', center) :=
      if isResClassIII level then (upAp7 c, downAp7 (upAp7 c)) else (upAp7r c, downAp7r (upAp7r c))
    let diff := (last.sub center).normalize
    (setDigit h level (unitIjkToDigit diff), c')

theorem up_unchecked (l : Nat) (c : CoordIJK) (p : Int × Int) (d : Nat) (hd : d < 7)
    (hc : ax c = vadd ((levelM l).app p) (uax d)) :
    ax (if isResClassIII l then upAp7 c else upAp7r c) = p ∧ Normal (if isResClassIII l then upAp7 c else upAp7r c) ∧
    unitIjkToDigit ((c.sub (if isResClassIII l then downAp7 (upAp7 c) else downAp7r (upAp7r c))).normalize) = d := by
  unfold ax at hc
  by_cases hl : isResClassIII l = true
  · simp only [hl, if_true]
    have hM : levelM l = M7 := by unfold levelM; simp [hl]
    rw [hM] at hc
    obtain ⟨r1, r2, _, _⟩ := round_M7 p d hd (c.i - c.k) (c.j - c.k) hc
    have hu : upAp7 c = (⟨p.1, p.2, 0⟩ : CoordIJK).normalize := by unfold upAp7; simp only [r1, r2]
    rw [hu]
    refine ⟨by rw [ax_normalize]; unfold ax; simp, normalize_normal _, ?_⟩
    apply unitIjkToDigit_of_ax _ d hd
    rw [ax_normalize, ax_sub, ax_downAp7, ax_normalize]
    have hax : ax (⟨p.1, p.2, 0⟩ : CoordIJK) = p := by unfold ax; simp
    rw [hax]
    have h1 := congrArg Prod.fst hc
    have h2 := congrArg Prod.snd hc
    simp only [vadd] at h1 h2
    apply Prod.ext <;> simp only [ax] <;> omega
  · simp only [hl, Bool.false_eq_true, if_false]
    have hM : levelM l = M7r := by unfold levelM; simp [hl]
    rw [hM] at hc
    obtain ⟨r1, r2, _, _⟩ := round_M7r p d hd (c.i - c.k) (c.j - c.k) hc
    have hu : upAp7r c = (⟨p.1, p.2, 0⟩ : CoordIJK).normalize := by unfold upAp7r; simp only [r1, r2]
    rw [hu]
    refine ⟨by rw [ax_normalize]; unfold ax; simp, normalize_normal _, ?_⟩
    apply unitIjkToDigit_of_ax _ d hd
    rw [ax_normalize, ax_sub, ax_downAp7r, ax_normalize]
    have hax : ax (⟨p.1, p.2, 0⟩ : CoordIJK) = p := by unfold ax; simp
    rw [hax]
    have h1 := congrArg Prod.fst hc
    have h2 := congrArg Prod.snd hc
    simp only [vadd] at h1 h2
    apply Prod.ext <;> simp only [ax] <;> omega

theorem loopF_spec (h : BitVec 64) (x0 : Int × Int) (res : Nat) (hres : res ≤ 15) : ∀ (n k0 : Nat) (out : BitVec 64) (c : CoordIJK),
    k0 + n = res → Digits (revDigits h n) → ax c = coordFrom x0 (revDigits h n) →
    ∃ out' c', (List.range' k0 n).foldl (stepF res) (out, c) = (out', c') ∧ ax c' = x0 ∧
      ((1 ≤ n ∨ Normal c) → Normal c') ∧ SameOutside out out' n ∧ ∀ r, 1 ≤ r → r ≤ n → getDigit out' r = getDigit h r := by
  intro n
  induction n with
  | zero =>
    intro k0 out c _ _ hc
    exact ⟨out, c, rfl, by simpa [revDigits, coordFrom] using hc, fun hh => hh.elim (fun h => by omega) id,
      SameOutside.refl out 0, fun r h1 h2 => by omega⟩
  | succ n ih =>
    intro k0 out c hk hdig hc
    have hd : getDigit h (n + 1) < 7 := hdig _ (by simp [revDigits])
    have hrest : Digits (revDigits h n) := fun x hx => hdig x (by simp [revDigits, hx])
    have hlev : res - k0 = n + 1 := by omega
    simp only [revDigits, coordFrom, revDigits_length] at hc
    obtain ⟨hu, hN, hdg0⟩ := up_unchecked (n + 1) c (coordFrom x0 (revDigits h n)) (getDigit h (n + 1)) hd hc
    have hs : stepF res (out, c) k0 = (setDigit out (n + 1) (getDigit h (n + 1)),
        if isResClassIII (n + 1) then upAp7 c else upAp7r c) := by
      unfold stepF
      simp only [hlev]
      by_cases hl : isResClassIII (n + 1) = true
      · simp only [hl, if_true] at hdg0 ⊢; rw [hdg0]
      · simp only [hl, Bool.false_eq_true, if_false] at hdg0 ⊢; rw [hdg0]
    obtain ⟨out', c', hf, hc', hNN, hso, hdg⟩ := ih (k0 + 1) (setDigit out (n + 1) (getDigit h (n + 1)))
      (if isResClassIII (n + 1) then upAp7 c else upAp7r c) (by omega) hrest hu
    refine ⟨out', c', ?_, hc', fun _ => hNN (Or.inr hN), ?_, ?_⟩
    · rw [List.range'_succ, List.foldl_cons, hs]; exact hf
    · have s := getRes_setDigit out (n + 1) (getDigit h (n + 1)) ⟨by omega, by omega⟩ (by omega)
      exact ⟨by rw [hso.res, s.1], by rw [hso.bc, s.2.1], by rw [hso.mode, s.2.2.1], by rw [hso.rsv, s.2.2.2.1],
        by rw [hso.high, s.2.2.2.2], fun r h1 h2 => by
          rw [hso.above r (by omega) h2, getDigit_setDigit out (n + 1) r _ ⟨by omega, by omega⟩ ⟨by omega, h2⟩ (by omega)]
          simp [show r ≠ n + 1 by omega]⟩
    · intro r h1 h2
      by_cases e : r = n + 1
      · subst e
        rw [hso.above (n + 1) (by omega) (by omega),
          getDigit_setDigit out (n + 1) (n + 1) _ ⟨by omega, by omega⟩ ⟨by omega, by omega⟩ (by omega)]
        simp
      · exact hdg r h1 (by omega)

theorem faceIjkToH3_unfold (fijk : FaceIJK) (res : Nat) : faceIjkToH3 fijk res =
    (if res == 0 then
      if fijk.coord.i > 2 || fijk.coord.j > 2 || fijk.coord.k > 2 then 0#64
      else setBaseCell (setRes (setMode H3_INIT 1) res) (faceIjkBaseCell fijk).1.toNat
    else
      let r := (List.range res).foldl (stepF res) (setRes (setMode H3_INIT 1) res, fijk.coord)
      if r.2.i > 2 || r.2.j > 2 || r.2.k > 2 then 0#64
      else
        let fbc : FaceIJK := ⟨fijk.face, r.2⟩
        let baseCell := (faceIjkBaseCell fbc).1.toNat
        let h := setBaseCell r.1 baseCell
        if isBaseCellPentagon baseCell then
          let h :=
            if leadingNonZeroDigit h == 1 then
              if baseCellIsCwOffset baseCell fbc.face then h3Rotate60cw h else h3Rotate60ccw h
            else h
          iterate h3RotatePent60ccw (faceIjkBaseCell fbc).2.toNat h
        else iterate h3Rotate60ccw (faceIjkBaseCell fbc).2.toNat h) := rfl

/-- the home coordinates are normalised, at most 2, and the lookup table sends each base cell's home
(face, coordinate) to the base cell itself with zero rotations (decided over the regenerated tables) -/
theorem home_table : ∀ bc : Fin 122,
    let hm := homeFijk bc.val
    0 ≤ hm.coord.i ∧ 0 ≤ hm.coord.j ∧ 0 ≤ hm.coord.k ∧ (hm.coord.i = 0 ∨ hm.coord.j = 0 ∨ hm.coord.k = 0) ∧
    hm.coord.i ≤ 2 ∧ hm.coord.j ≤ 2 ∧ hm.coord.k ≤ 2 ∧ faceIjkBaseCell hm = ((bc.val : Int), 0) := by
  decide +kernel

/-- **C03 (integer half): `_faceIjkToH3` of the home-face coordinate of a cell is the cell**, hexagon base
cells, every resolution -/
theorem faceIjkToH3_of_home (h : BitVec 64) (hv : Valid.ValidN h) (hhex : isBaseCellPentagon (getBaseCell h) = false)
    (hm : FaceIJK) (hNhome : Normal hm.coord) (t5 : hm.coord.i ≤ 2) (t6 : hm.coord.j ≤ 2) (t7 : hm.coord.k ≤ 2)
    (t8 : faceIjkBaseCell hm = ((getBaseCell h : Int), 0)) :
    faceIjkToH3 ⟨hm.face, h3ToIjkFrom h hm.coord⟩ (getRes h) = h := by
  have hdig := valid_digits h hv
  obtain ⟨v1, v2, v3, v4, v5, _⟩ := hv
  have hres15 : getRes h ≤ 15 := by have := getRes_lt h; omega
  have I := init_fields
  -- final field equality, shared by both branches
  have fin : ∀ out' : BitVec 64, SameOutside (setRes (setMode H3_INIT 1) (getRes h)) out' (getRes h) →
      (∀ r, 1 ≤ r → r ≤ getRes h → getDigit out' r = getDigit h r) → setBaseCell out' (getBaseCell h) = h := by
    intro out' hso hdg
    have hs := fun r hr => getDigit_setRes (setMode H3_INIT 1) (getRes h) r (by omega) hr
    have hs1 := hs 1 ⟨by omega, by omega⟩
    have hB := fun r hr => getDigit_setBaseCell out' (getBaseCell h) r (by omega) hr
    have hB1 := hB 1 ⟨by omega, by omega⟩
    have hH : getHighBit (setBaseCell out' (getBaseCell h)) = getHighBit out' := by
      unfold getHighBit setBaseCell
      rw [C05V.high_set_base_cell_bv _ _ (ofNat_lt 128 (by omega) (by omega))]
    apply Bits.ext
    · rw [hH, hso.high, hs1.2.2.2.2, I.1, v1]
    · rw [hB1.2.2.1, hso.mode, hs1.2.2.1, I.2.1, v2]
    · rw [hB1.2.2.2, hso.rsv, hs1.2.2.2.1, I.2.2.1, v3]
    · rw [hB1.2.1, hso.res, getRes_setRes _ _ (by omega)]
    · rw [getBaseCell_setBaseCell _ _ (by omega)]
    · intro r h1 h15
      rw [(hB r ⟨h1, h15⟩).1]
      by_cases hr : r ≤ getRes h
      · exact hdg r h1 hr
      · rw [hso.above r (by omega) h15, (hs r ⟨h1, h15⟩).1, I.2.2.2 ⟨r, by omega⟩ h1]
        have := v5 r h1 h15
        simp only [hr, if_false] at this
        exact this.symm
  have hax : ax (h3ToIjkFrom h hm.coord) =
      coordFrom (ax hm.coord) (revDigits h (getRes h)) := by
    unfold h3ToIjkFrom
    exact ax_h3ToIjkFrom_gen h hm.coord (getRes h) hdig
  obtain ⟨out', c', hf, hc', hNc, hso, hdg⟩ := loopF_spec h (ax hm.coord) (getRes h) hres15 (getRes h) 0
    (setRes (setMode H3_INIT 1) (getRes h)) (h3ToIjkFrom h hm.coord) (Nat.zero_add _) hdig hax
  have hloop : (List.range (getRes h)).foldl (stepF (getRes h)) (setRes (setMode H3_INIT 1) (getRes h),
      h3ToIjkFrom h hm.coord) = (out', c') := by
    rw [List.range_eq_range']; exact hf
  rw [faceIjkToH3_unfold]
  by_cases h0 : getRes h = 0
  · have hc0 : h3ToIjkFrom h hm.coord = hm.coord := by
      unfold h3ToIjkFrom; simp [h0]
    have hg : (decide (hm.coord.i > 2) || decide (hm.coord.j > 2) ||
        decide (hm.coord.k > 2)) = false := by
      simp only [Bool.or_eq_false_iff, decide_eq_false_iff_not]; omega
    simp only [h0, beq_self_eq_true, if_true, hc0, hg, Bool.false_eq_true, if_false]
    have hf : (⟨hm.face, hm.coord⟩ : FaceIJK) = hm := rfl
    rw [hf, t8]
    simp only [Int.toNat_natCast]
    have := fin (setRes (setMode H3_INIT 1) (getRes h)) (SameOutside.refl _ _) (fun r h1 h2 => by omega)
    rw [h0] at this
    exact this
  · have hr0 : (getRes h == 0) = false := by simpa using h0
    simp only [hr0, Bool.false_eq_true, if_false]
    have hcc : c' = hm.coord :=
      normal_ext (hNc (Or.inl (by omega))) hNhome hc'
    subst hcc
    simp only [hloop]
    have hg : (decide (hm.coord.i > 2) || decide (hm.coord.j > 2) ||
        decide (hm.coord.k > 2)) = false := by
      simp only [Bool.or_eq_false_iff, decide_eq_false_iff_not]; omega
    simp only [hg, Bool.false_eq_true, if_false]
    have hfe : (⟨hm.face, hm.coord⟩ : FaceIJK) = hm := rfl
    rw [hfe, t8]
    simp only [Int.toNat_natCast, hhex, Bool.false_eq_true, if_false, Int.toNat_zero, iterate]
    exact fin out' hso hdg


theorem faceIjkToH3_home (h : BitVec 64) (hv : Valid.ValidN h) (hhex : isBaseCellPentagon (getBaseCell h) = false) :
    faceIjkToH3 ⟨(homeFijk (getBaseCell h)).face, h3ToIjkFrom h (homeFijk (getBaseCell h)).coord⟩ (getRes h) = h := by
  obtain ⟨t1, t2, t3, t4, t5, t6, t7, t8⟩ := home_table ⟨getBaseCell h, hv.2.2.2.1⟩
  exact faceIjkToH3_of_home h hv hhex _ ⟨t1, t2, t3, t4⟩ t5 t6 t7 t8


/-- for the base cells centred on an icosahedron face (home coordinate 0: no overage is possible and
`_h3ToFaceIjk` returns the home-face coordinate as it is) the integer round trip is unconditional -/
theorem h3ToFaceIjk_faceIjkToH3 (h : BitVec 64) (hv : Valid.ValidN h) (hhex : isBaseCellPentagon (getBaseCell h) = false)
    (hc : (homeFijk (getBaseCell h)).coord = ⟨0, 0, 0⟩) :
    ∃ f, h3ToFaceIjk h = .ok f ∧ faceIjkToH3 f (getRes h) = h := by
  refine ⟨⟨(homeFijk (getBaseCell h)).face, h3ToIjkFrom h (homeFijk (getBaseCell h)).coord⟩, ?_, faceIjkToH3_home h hv hhex⟩
  unfold h3ToFaceIjk
  have hb : ¬ getBaseCell h ≥ 122 := by have := hv.2.2.2.1; omega
  simp [hb, hhex, hc]

/-- how many base cells that is (decided over the regenerated table) -/
theorem face_centred_count :
    ((List.range 122).filter (fun bc => !isBaseCellPentagon bc && (homeFijk bc).coord == ⟨0, 0, 0⟩)).length = 20 := by
  decide +kernel

end H3.C03R
