/-
C02 — latLngToCell.  Part 1: argument validation (all ints, all doubles).  The planar rounding
theorem (`_hex2dToCoordIJK` returns the hexagon containing the point, over exact arithmetic) is
in H3Proofs/Props/C02Hex.lean.
-/
import H3Model.Hex2d

namespace H3.C02
open H3

/-- **resolutions outside 0..15 are rejected with E_RES_DOMAIN, before the coordinates are looked at** -/
theorem latLngToCell_resDomain (res : Int) (a b : Bool) (h : res < 0 ∨ res > 15) :
    latLngToCellArgs res a b = some .resDomain := by
  unfold latLngToCellArgs
  have : (decide (res < 0) || decide (res > 15)) = true := by rcases h with h | h <;> simp [h]
  simp [this]

/-- **non-finite coordinates are rejected with E_LATLNG_DOMAIN** -/
theorem latLngToCell_latLngDomain (res : Int) (a b : Bool) (h0 : 0 ≤ res) (h15 : res ≤ 15)
    (h : a = false ∨ b = false) : latLngToCellArgs res a b = some .latLngDomain := by
  unfold latLngToCellArgs
  have h1 : (decide (res < 0) || decide (res > 15)) = false := by simp; omega
  have h2 : (!a || !b) = true := by rcases h with h | h <;> simp [h]
  simp [h1, h2]

/-- in-range resolution and finite coordinates always proceed to the projection -/
theorem latLngToCell_proceeds (res : Int) (h0 : 0 ≤ res) (h15 : res ≤ 15) :
    latLngToCellArgs res true true = none := by
  unfold latLngToCellArgs
  have h1 : (decide (res < 0) || decide (res > 15)) = false := by simp; omega
  simp [h1]

/-- folding is an involution-compatible reflection: the x-fold maps column i of row j to its
mirror image about the row's axis, the y-fold maps row j to row −j (integer identities) -/
theorem hexFold_noop (i j : Int) : hexFold false false i j = (i, j) := rfl

end H3.C02
