/-
C07 / C15 — the traversal logic of polygonToCellsExperimental (model: H3Model/PolyIter.lean, compared with
the real compact iterator on every run, the geometry answers being supplied by the library's own
predicates).  Relative to an abstract geometry that satisfies the two pruning assumptions (`Sound`):
the iterator loop with `nextCell` is the recursive descent over the cell tree (`run_visit`, exact fuel
accounting), and the expansion of what it yields is exactly the list of all valid cells of the target
resolution, in index order, filtered by the per-mode predicate (`polyfill_exact`): nothing lost,
nothing added, nothing twice.
-/
import H3Proofs.Lemmas.ValidHier
import H3Proofs.Lemmas.Zero
import H3Proofs.Lemmas.SuccStr
import H3Proofs.Props.C03Count
import H3Proofs.Props.C04Iter
import H3Model.PolyIter

namespace H3.PolyT
open H3 H3.Bits H3.Hier H3.Valid H3.Succ H3.C04C

/-! ### direct children -/

def kidDigits (p : BitVec 64) : List Nat := if isPentagon p then [0, 2, 3, 4, 5, 6] else [0, 1, 2, 3, 4, 5, 6]
def kids (p : BitVec 64) : List (BitVec 64) := (kidDigits p).map (makeDirectChild p)

theorem kidDigits_lt (p : BitVec 64) : ∀ d ∈ kidDigits p, d < 7 := by
  intro d hd; unfold kidDigits at hd; split at hd <;> simp at hd <;> omega

theorem kidDigits_run (p : BitVec 64) : DigitRun (isPentagon p) (kidDigits p) := by
  unfold kidDigits
  cases isPentagon p <;> simp [DigitRun, nextDigit]

/-- fields and digits of a direct child -/
theorem kid_fields (p : BitVec 64) (d : Nat) (hr : getRes p < 15) (hd : d < 8) :
    getRes (makeDirectChild p d) = getRes p + 1 ∧ getBaseCell (makeDirectChild p d) = getBaseCell p ∧
    getMode (makeDirectChild p d) = getMode p ∧ getReserved (makeDirectChild p d) = getReserved p ∧
    getHighBit (makeDirectChild p d) = getHighBit p ∧
    ∀ r, 1 ≤ r → r ≤ 15 → getDigit (makeDirectChild p d) r = if r = getRes p + 1 then d else getDigit p r := by
  unfold makeDirectChild
  have hpos : 1 ≤ getRes p + 1 ∧ getRes p + 1 ≤ 15 := by omega
  obtain ⟨a1, a2, a3, a4, a5⟩ := getRes_setDigit (setRes p (getRes p + 1)) (getRes p + 1) d hpos hd
  have r1 := getRes_setRes p (getRes p + 1) (by omega)
  obtain ⟨_, b2, b3, b4, b5⟩ := getDigit_setRes p (getRes p + 1) 1 (by omega) ⟨by omega, by omega⟩
  refine ⟨by rw [a1, r1], by rw [a2, b2], by rw [a3, b3], by rw [a4, b4], by rw [a5, b5], ?_⟩
  intro r r1' r15
  rw [getDigit_setDigit _ _ r d hpos ⟨r1', r15⟩ hd]
  split
  · rfl
  · exact (getDigit_setRes p (getRes p + 1) r (by omega) ⟨r1', r15⟩).1

theorem kid_valid (p : BitVec 64) (hv : ValidN p) (hr : getRes p < 15) (d : Nat) (hd : d ∈ kidDigits p) :
    ValidN (makeDirectChild p d) := by
  have hd7 := kidDigits_lt p d hd
  obtain ⟨f1, f2, f3, f4, f5, f6⟩ := kid_fields p d hr (by omega)
  obtain ⟨v1, v2, v3, v4, v5, v6⟩ := hv
  refine ⟨by rw [f5, v1], by rw [f3, v2], by rw [f4, v3], by rw [f2]; exact v4, ?_, ?_⟩
  · intro r r1 r15
    rw [f1, f6 r r1 r15]
    have := v5 r r1 r15
    by_cases e : r = getRes p + 1
    · simp only [e, if_true]; simp; exact hd7
    · simp only [e, if_false]
      by_cases e2 : r ≤ getRes p
      · have e3 : r ≤ getRes p + 1 := by omega
        simp only [e2, if_true] at this; simp only [e3, if_true]; exact this
      · have e3 : ¬ r ≤ getRes p + 1 := by omega
        simp only [e2, if_false] at this; simp only [e3, if_false]; exact this
  · intro hb r r1 rle hone
    rw [f2] at hb
    rw [f1] at rle
    rw [f6 r r1 (by omega)] at hone
    by_cases e : r = getRes p + 1
    · -- the new digit is 1: only below a non-pentagon
      simp only [e, if_true] at hone
      subst hone
      have hnp : isPentagon p = false := by
        unfold kidDigits at hd
        cases hp : isPentagon p with
        | true => rw [hp] at hd; simp at hd
        | false => rfl
      have hnot : ¬ (∀ r', 1 ≤ r' → r' ≤ getRes p → getDigit p r' = 0) := by
        intro hall
        have := (isPentagon_iff p).mpr ⟨hb, hall⟩
        rw [hnp] at this; cases this
      have hex : ∃ r', 1 ≤ r' ∧ r' ≤ getRes p ∧ getDigit p r' ≠ 0 := by
        apply Classical.byContradiction
        intro hne
        apply hnot
        intro r' a b
        apply Classical.byContradiction
        intro hz
        exact hne ⟨r', a, b, hz⟩
      obtain ⟨r', a, b, c⟩ := hex
      refine ⟨r', a, by omega, ?_⟩
      rw [f6 r' a (by omega)]
      have : r' ≠ getRes p + 1 := by omega
      simp only [this, if_false]; exact c
    · simp only [e, if_false] at hone
      obtain ⟨r', a, b, c⟩ := v6 hb r r1 (by omega) hone
      refine ⟨r', a, b, ?_⟩
      rw [f6 r' a (by omega)]
      have : r' ≠ getRes p + 1 := by omega
      simp only [this, if_false]; exact c

/-- the parent recomputed by `nextCell` from a direct child is the parent -/
theorem parent_of_kid (p : BitVec 64) (hv : ValidN p) (hr : getRes p < 15) (d : Nat) (hd : d < 8) :
    setDigit (setRes (makeDirectChild p d) (getRes p + 1 - 1)) (getRes p + 1) 7 = p := by
  obtain ⟨f1, f2, f3, f4, f5, f6⟩ := kid_fields p d hr hd
  have hpos : 1 ≤ getRes p + 1 ∧ getRes p + 1 ≤ 15 := by omega
  have e0 : getRes p + 1 - 1 = getRes p := by omega
  rw [e0]
  obtain ⟨a1, a2, a3, a4, a5⟩ := getRes_setDigit (setRes (makeDirectChild p d) (getRes p)) (getRes p + 1) 7 hpos (by omega)
  have r1 := getRes_setRes (makeDirectChild p d) (getRes p) (by omega)
  obtain ⟨_, b2, b3, b4, b5⟩ := getDigit_setRes (makeDirectChild p d) (getRes p) 1 (by omega) ⟨by omega, by omega⟩
  apply Bits.ext
  · rw [a5, b5, f5]
  · rw [a3, b3, f3]
  · rw [a4, b4, f4]
  · rw [a1, r1]
  · rw [a2, b2, f2]
  · intro r r1' r15
    rw [getDigit_setDigit _ _ r 7 hpos ⟨r1', r15⟩ (by omega)]
    by_cases e : r = getRes p + 1
    · simp only [e, if_true]
      have := hv.2.2.2.2.1 (getRes p + 1) (by omega) (by omega)
      have e2 : ¬ getRes p + 1 ≤ getRes p := by omega
      simp only [e2, if_false] at this
      exact this.symm
    · simp only [e, if_false]
      rw [(getDigit_setRes (makeDirectChild p d) (getRes p) r (by omega) ⟨r1', r15⟩).1, f6 r r1' r15]
      simp only [e, if_false]

theorem setDigit_kid (p : BitVec 64) (hr : getRes p < 15) (d d' : Nat) (hd : d < 8) (hd' : d' < 8) :
    setDigit (makeDirectChild p d) (getRes p + 1) d' = makeDirectChild p d' := by
  obtain ⟨f1, f2, f3, f4, f5, f6⟩ := kid_fields p d hr hd
  obtain ⟨g1, g2, g3, g4, g5, g6⟩ := kid_fields p d' hr hd'
  have hpos : 1 ≤ getRes p + 1 ∧ getRes p + 1 ≤ 15 := by omega
  obtain ⟨a1, a2, a3, a4, a5⟩ := getRes_setDigit (makeDirectChild p d) (getRes p + 1) d' hpos hd'
  apply Bits.ext
  · rw [a5, f5, g5]
  · rw [a3, f3, g3]
  · rw [a4, f4, g4]
  · rw [a1, f1, g1]
  · rw [a2, f2, g2]
  · intro r r1 r15
    rw [getDigit_setDigit _ _ r d' hpos ⟨r1, r15⟩ hd', g6 r r1 r15, f6 r r1 r15]
    split <;> rfl

/-! ### nextCell -/

theorem go_fuel : ∀ (f : Nat) (cell : BitVec 64) (res : Nat), res < f →
    nextCell.go cell res f = nextCell.go cell res (f + 1) := by
  intro f
  induction f with
  | zero => intro _ _ h; omega
  | succ f ih =>
    intro cell res h
    unfold nextCell.go
    by_cases h0 : (res == 0) = true
    · simp only [h0, if_true]
    · simp only [h0, Bool.false_eq_true, if_false]
      split
      · rfl
      · have : res ≠ 0 := by simpa using h0
        exact ih _ _ (by omega)

theorem go_fuel_add (cell : BitVec 64) (res f : Nat) (h : res < f) : ∀ k, nextCell.go cell res f = nextCell.go cell res (f + k) := by
  intro k
  induction k with
  | zero => rfl
  | succ k ih => rw [ih, ← Nat.add_assoc, ← go_fuel (f + k) cell res (by omega)]

theorem go_fuel16 (cell : BitVec 64) (res f : Nat) (h : res < f) (hf : f ≤ 16) :
    nextCell.go cell res f = nextCell.go cell res 16 := by
  have := go_fuel_add cell res f h (16 - f)
  rw [show f + (16 - f) = 16 by omega] at this
  exact this

/-- **nextCell of a direct child**: the next sibling (skipping the deleted pentagon child), and after
the last sibling whatever follows the parent -/
theorem nextCell_kid (p : BitVec 64) (hv : ValidN p) (hr : getRes p < 15) (d : Nat) (hd : d < 7) :
    nextCell (makeDirectChild p d) =
      if d < 6 then makeDirectChild p (nextDigit (isPentagon p) d) else nextCell p := by
  obtain ⟨f1, f2, f3, f4, f5, f6⟩ := kid_fields p d hr (by omega)
  unfold nextCell
  rw [f1]
  unfold nextCell.go
  have h0 : (getRes p + 1 == 0) = false := by simp
  simp only [h0, Bool.false_eq_true, if_false]
  rw [parent_of_kid p hv hr d (by omega)]
  have hdig : getDigit (makeDirectChild p d) (getRes p + 1) = d := by
    rw [f6 _ (by omega) (by omega)]; simp
  rw [hdig]
  by_cases h6 : d < 6
  · simp only [h6, if_true]
    have : d + (if (isPentagon p && d == 0) = true then 2 else 1) = nextDigit (isPentagon p) d := by
      unfold nextDigit
      by_cases c : (isPentagon p && d == 0) = true
      · simp only [c, if_true]
        simp only [Bool.and_eq_true, beq_iff_eq] at c
        omega
      · simp only [c, Bool.false_eq_true, if_false]
    rw [this]
    apply setDigit_kid p hr d _ (by omega)
    unfold nextDigit; split <;> omega
  · simp only [h6, if_false]
    have : getRes p + 1 - 1 = getRes p := by omega
    rw [this]
    exact go_fuel16 p (getRes p) 15 (by omega) (by omega)

/-- centre child = direct child 0 -/
theorem centerChild_kid (p : BitVec 64) (hv : ValidN p) (hr : getRes p < 15) :
    cellToCenterChild p ((getRes p : Int) + 1) = .ok (makeDirectChild p 0) := by
  unfold cellToCenterChild hasChildAtRes
  have c1 : (decide (((getRes p : Int) + 1) < (getRes p : Int)) || decide (((getRes p : Int) + 1) > 15)) = false := by
    simp; omega
  simp only [c1, Bool.not_false, Bool.not_true, Bool.false_eq_true, if_false]
  congr 1
  have e : ((getRes p : Int) + 1).toNat = getRes p + 1 := by omega
  rw [e]
  have hz := zeroIndexDigits_spec p (getRes p) (getRes p + 1) (by omega) (by omega)
  have ec : ((getRes p + 1 : Nat) : Int) = (getRes p : Int) + 1 := by push_cast; rfl
  rw [ec] at hz
  obtain ⟨z1, z2, z3, z4, z5, z6⟩ := hz
  obtain ⟨f1, f2, f3, f4, f5, f6⟩ := kid_fields p 0 hr (by omega)
  have r1 := getRes_setRes (H3.zeroIndexDigits p ((getRes p : Int) + 1) ((getRes p : Int) + 1)) (getRes p + 1) (by omega)
  obtain ⟨_, b2, b3, b4, b5⟩ := getDigit_setRes (H3.zeroIndexDigits p ((getRes p : Int) + 1) ((getRes p : Int) + 1))
    (getRes p + 1) 1 (by omega) ⟨by omega, by omega⟩
  apply Bits.ext
  · rw [b5, z5, f5]
  · rw [b3, z3, f3]
  · rw [b4, z4, f4]
  · rw [r1, f1]
  · rw [b2, z2, f2]
  · intro r r1' r15
    rw [(getDigit_setRes _ (getRes p + 1) r (by omega) ⟨r1', r15⟩).1, z6 r r1' r15, f6 r r1' r15]
    by_cases e : r = getRes p + 1
    · have : getRes p + 1 ≤ r ∧ r ≤ getRes p + 1 := by omega
      simp [e]
    · have : ¬ (getRes p + 1 ≤ r ∧ r ≤ getRes p + 1) := by omega
      simp only [this, if_false, e]


/-! ### the traversal as a recursive descent -/

/-- recursive specification of what the iterator yields below a cell that is `n` levels above the
target resolution -/
def visit (g : PolyGeo) : Nat → BitVec 64 → List (BitVec 64)
  | 0, c => if g.fine c then [c] else []
  | n + 1, c =>
    match g.coarse c with
    | .contained => [c]
    | .skip => []
    | .descend => (kids c).flatMap (visit g n)

/-- number of cells the loop examines below a cell (exact fuel accounting) -/
def cost (g : PolyGeo) : Nat → BitVec 64 → Nat
  | 0, _ => 1
  | n + 1, c =>
    match g.coarse c with
    | .descend => 1 + ((kids c).map (cost g n)).sum
    | _ => 1

/-- the children of one parent, examined one after the other -/
theorem run_kids (g : PolyGeo) (res n : Nat) (p : BitVec 64) (hv : ValidN p) (hr : getRes p < 15)
    (ih : ∀ c, ValidN c → getRes c + n = res → ∀ fuel,
      polyRun g res (fuel + cost g n c) c = visit g n c ++ polyRun g res fuel (nextCell c))
    (hres : getRes p + 1 + n = res) :
    ∀ (ds : List Nat) (d0 : Nat), DigitRun (isPentagon p) (d0 :: ds) → (∀ d ∈ d0 :: ds, d ∈ kidDigits p) →
      (d0 :: ds).getLast (by simp) = 6 → ∀ fuel,
      polyRun g res (fuel + (((d0 :: ds).map (makeDirectChild p)).map (cost g n)).sum) (makeDirectChild p d0) =
        ((d0 :: ds).map (makeDirectChild p)).flatMap (visit g n) ++ polyRun g res fuel (nextCell p) := by
  intro ds
  induction ds with
  | nil =>
    intro d0 _ hmem hlast fuel
    simp only [List.getLast_singleton] at hlast
    subst hlast
    have hk := kid_valid p hv hr 6 (hmem 6 (by simp))
    have hkr : getRes (makeDirectChild p 6) + n = res := by rw [(kid_fields p 6 hr (by omega)).1]; exact hres
    simp only [List.map_cons, List.map_nil, List.sum_cons, List.sum_nil, Nat.add_zero, List.flatMap_cons,
      List.flatMap_nil, List.append_nil]
    rw [ih _ hk hkr fuel, nextCell_kid p hv hr 6 (by omega)]
    simp
  | cons d1 ds ihd =>
    intro d0 hrun hmem hlast fuel
    obtain ⟨hn, hlt, hrun'⟩ := hrun
    have hd0 : d0 ∈ kidDigits p := hmem d0 (by simp)
    have hd0lt := kidDigits_lt p d0 hd0
    have hk := kid_valid p hv hr d0 hd0
    have hkr : getRes (makeDirectChild p d0) + n = res := by rw [(kid_fields p d0 hr (by omega)).1]; exact hres
    have hlast' : (d1 :: ds).getLast (by simp) = 6 := by
      rw [List.getLast_cons (by simp)] at hlast; exact hlast
    have hrest := ihd d1 hrun' (fun d hd => hmem d (by simp [hd])) hlast' fuel
    simp only [List.map_cons, List.sum_cons, List.flatMap_cons] at hrest ⊢
    have hd6 : d0 < 6 := by
      unfold nextDigit at hn
      split at hn
      · next hc => simp only [Bool.and_eq_true, beq_iff_eq] at hc; omega
      · omega
    rw [show fuel + (cost g n (makeDirectChild p d0) + (cost g n (makeDirectChild p d1) +
          (List.map (cost g n) (List.map (makeDirectChild p) ds)).sum)) =
        (fuel + (cost g n (makeDirectChild p d1) + (List.map (cost g n) (List.map (makeDirectChild p) ds)).sum)) +
          cost g n (makeDirectChild p d0) by omega]
    rw [ih _ hk hkr, nextCell_kid p hv hr d0 hd0lt]
    simp only [hd6, if_true, hn]
    rw [hrest]
    simp only [List.append_assoc]

/-- **the iterator loop is the recursive descent**: examining a valid cell `n` levels above the
target resolution yields `visit` of that cell and then continues with `nextCell` -/
theorem run_visit (g : PolyGeo) (res : Nat) (hres : res ≤ 15) : ∀ (n : Nat) (c : BitVec 64), ValidN c →
    getRes c + n = res → ∀ fuel,
      polyRun g res (fuel + cost g n c) c = visit g n c ++ polyRun g res fuel (nextCell c) := by
  intro n
  induction n with
  | zero =>
    intro c hv hr fuel
    have h0 : (c == 0#64) = false := by simpa using valid_ne_zero c hv
    have hr' : (getRes c == res) = true := by simp; omega
    simp only [cost, visit]
    conv => lhs; unfold polyRun
    simp only [h0, Bool.false_eq_true, if_false, hr', if_true]
    split <;> simp
  | succ n ih =>
    intro c hv hr fuel
    have h0 : (c == 0#64) = false := by simpa using valid_ne_zero c hv
    have hr1 : (getRes c == res) = false := by simp; omega
    have hr2 : getRes c < res := by omega
    have hr15 : getRes c < 15 := by omega
    cases hc : g.coarse c with
    | contained =>
      simp only [cost, visit, hc]
      conv => lhs; unfold polyRun
      simp only [h0, Bool.false_eq_true, if_false, hr1, hr2, if_true, hc]
      simp
    | skip =>
      simp only [cost, visit, hc]
      conv => lhs; unfold polyRun
      simp only [h0, Bool.false_eq_true, if_false, hr1, hr2, if_true, hc]
      simp
    | descend =>
      simp only [cost, visit, hc]
      rw [show fuel + (1 + (List.map (cost g n) (kids c)).sum) = (fuel + (List.map (cost g n) (kids c)).sum) + 1 by omega]
      conv => lhs; unfold polyRun
      simp only [h0, Bool.false_eq_true, if_false, hr1, hr2, if_true, hc, centerChild_kid c hv hr15]
      -- the children, starting with the centre child
      have hkd : kidDigits c = 0 :: (kidDigits c).tail := by
        unfold kidDigits; split <;> rfl
      have hrun := kidDigits_run c
      have hlast : (0 :: (kidDigits c).tail).getLast (by simp) = 6 := by
        unfold kidDigits; split <;> rfl
      rw [hkd] at hrun
      have := run_kids g res n c hv hr15 ih (by omega) (kidDigits c).tail 0 hrun
        (fun d hd => by rw [hkd]; exact hd) hlast fuel
      unfold kids
      rw [hkd]
      exact this


/-! ### all descendants of a cell = descendants of its direct children -/

theorem isPentagon_kid (p : BitVec 64) (hr : getRes p < 15) (d : Nat) (hd : d < 7) :
    isPentagon (makeDirectChild p d) = (isPentagon p && d == 0) := by
  obtain ⟨f1, f2, _, _, _, f6⟩ := kid_fields p d hr (by omega)
  apply Bool.eq_iff_iff.mpr
  rw [Bool.and_eq_true, isPentagon_iff, isPentagon_iff, f1, f2, beq_iff_eq]
  constructor
  · rintro ⟨hb, hz⟩
    refine ⟨⟨hb, fun r r1 rr => ?_⟩, ?_⟩
    · have := hz r r1 (by omega)
      rw [f6 r r1 (by omega)] at this
      have e : r ≠ getRes p + 1 := by omega
      simpa [e] using this
    · have := hz (getRes p + 1) (by omega) (by omega)
      rw [f6 _ (by omega) (by omega)] at this
      simpa using this
  · rintro ⟨⟨hb, hz⟩, rfl⟩
    refine ⟨hb, fun r r1 rr => ?_⟩
    rw [f6 r r1 (by omega)]
    split
    · rfl
    · exact hz r r1 (by omega)

theorem setRes_kid (p : BitVec 64) (hr : getRes p < 15) (d : Nat) (hd : d < 8) (c : Nat) (hc : c ≤ 15) :
    setRes (makeDirectChild p d) c = setDigit (setRes p c) (getRes p + 1) d := by
  obtain ⟨f1, f2, f3, f4, f5, f6⟩ := kid_fields p d hr hd
  have hpos : 1 ≤ getRes p + 1 ∧ getRes p + 1 ≤ 15 := by omega
  obtain ⟨a1, a2, a3, a4, a5⟩ := getRes_setDigit (setRes p c) (getRes p + 1) d hpos hd
  obtain ⟨_, b2, b3, b4, b5⟩ := getDigit_setRes (makeDirectChild p d) c 1 (by omega) ⟨by omega, by omega⟩
  obtain ⟨_, c2, c3, c4, c5⟩ := getDigit_setRes p c 1 (by omega) ⟨by omega, by omega⟩
  apply Bits.ext
  · rw [b5, f5, a5, c5]
  · rw [b3, f3, a3, c3]
  · rw [b4, f4, a4, c4]
  · rw [getRes_setRes _ c (by omega), a1, getRes_setRes _ c (by omega)]
  · rw [b2, f2, a2, c2]
  · intro r r1 r15
    rw [(getDigit_setRes (makeDirectChild p d) c r (by omega) ⟨r1, r15⟩).1, f6 r r1 r15,
      getDigit_setDigit _ _ r d hpos ⟨r1, r15⟩ hd, (getDigit_setRes p c r (by omega) ⟨r1, r15⟩).1]

/-- **children of children**: the descendants of a cell at resolution `c` are the descendants of its
direct children, child after child -/
theorem children_compose (p : BitVec 64) (hv : ValidN p) (c : Nat) (h1 : getRes p < c) (h2 : c ≤ 15) :
    cellToChildrenS p c = (kids p).flatMap fun k => cellToChildrenS k c := by
  have h0 := valid_ne_zero p hv
  have hr : getRes p < 15 := by omega
  rw [childrenS_def p c h0 (by omega) h2]
  obtain ⟨m, hm⟩ : ∃ m, c - getRes p = m + 1 := ⟨c - getRes p - 1, by omega⟩
  rw [hm]
  have hstr : childDigitStrings (isPentagon p) (m + 1) =
      (kidDigits p).flatMap fun d => (childDigitStrings (isPentagon p && d == 0) m).map (d :: ·) := by
    unfold kidDigits
    cases isPentagon p
    · have : (List.range 7).filter (fun d => !(false && d == 1)) = [0, 1, 2, 3, 4, 5, 6] := by decide
      simp only [childDigitStrings, this]; rfl
    · have : (List.range 7).filter (fun d => !(true && d == 1)) = [0, 2, 3, 4, 5, 6] := by decide
      simp only [childDigitStrings, this]; rfl
  rw [hstr]
  unfold kids
  rw [List.map_flatMap, List.flatMap_map]
  apply C04I.flatMap_congr'
  intro d hd
  have hd7 := kidDigits_lt p d hd
  have hk := kid_valid p hv hr d hd
  obtain ⟨f1, _⟩ := kid_fields p d hr (by omega)
  rw [childrenS_def (makeDirectChild p d) c (valid_ne_zero _ hk) (by rw [f1]; omega) h2, f1,
    isPentagon_kid p hr d hd7, setRes_kid p hr d (by omega) c h2]
  have : c - (getRes p + 1) = m := by omega
  rw [this, List.map_map]
  rfl

/-! ### exactness relative to the geometry -/

/-- the two pruning assumptions on the abstract geometry (H1, H2 of DESIGN §5 C07): a skipped cell has
no accepted descendant at the target resolution, a cell reported as contained has only accepted ones -/
def Sound (g : PolyGeo) (res : Nat) : Prop :=
  ∀ c, ValidN c → getRes c < res →
    (g.coarse c = .skip → ∀ x ∈ cellToChildrenS c res, g.fine x = false) ∧
    (g.coarse c = .contained → ∀ x ∈ cellToChildrenS c res, g.fine x = true)

theorem childrenS_self (c : BitVec 64) (hv : ValidN c) : cellToChildrenS c (getRes c) = [c] := by
  have h0 := valid_ne_zero c hv
  have h15 := valid_res_le c
  rw [childrenS_def c (getRes c) h0 (le_refl _) h15]
  simp only [Nat.sub_self, childDigitStrings, List.map_cons, List.map_nil, writeDigits]
  rw [C04I.setRes_self]

theorem filter_flatMap' {α β : Type} (l : List α) (f : α → List β) (q : β → Bool) :
    (l.flatMap f).filter q = l.flatMap fun a => (f a).filter q := by
  induction l with
  | nil => rfl
  | cons a t ih => simp [List.flatMap_cons, List.filter_append, ih]

/-- **expanding what the traversal yields below a cell gives exactly the accepted descendants** -/
theorem visit_exact (g : PolyGeo) (res : Nat) (hres : res ≤ 15) (hs : Sound g res) : ∀ (n : Nat) (c : BitVec 64),
    ValidN c → getRes c + n = res →
    (visit g n c).flatMap (fun y => cellToChildrenS y res) = (cellToChildrenS c res).filter g.fine := by
  intro n
  induction n with
  | zero =>
    intro c hv hr
    have : getRes c = res := by omega
    subst this
    rw [childrenS_self c hv]
    simp only [visit]
    split
    · next h => simp [childrenS_self c hv, h]
    · next h => simp [h]
  | succ n ih =>
    intro c hv hr
    have hlt : getRes c < res := by omega
    obtain ⟨s1, s2⟩ := hs c hv hlt
    simp only [visit]
    cases hc : g.coarse c with
    | contained =>
      simp only [List.flatMap_cons, List.flatMap_nil, List.append_nil]
      rw [List.filter_eq_self.mpr (s2 hc)]
    | skip =>
      simp only [List.flatMap_nil]
      rw [List.filter_eq_nil_iff.mpr (fun x hx => by simp [s1 hc x hx])]
    | descend =>
      simp only []
      rw [List.flatMap_assoc, children_compose c hv res hlt hres, filter_flatMap']
      apply C04I.flatMap_congr'
      intro k hk
      unfold kids at hk
      simp only [List.mem_map] at hk
      obtain ⟨d, hd, rfl⟩ := hk
      have hr15 : getRes c < 15 := by omega
      exact ih _ (kid_valid c hv hr15 d hd) (by rw [(kid_fields c d hr15 (by have := kidDigits_lt c d hd; omega)).1]; omega)


/-! ### the whole globe: base cell after base cell -/

theorem base_res_bc : ∀ bc : Fin 122, getRes (setH3Index 0 bc.val 0) = 0 ∧ getBaseCell (setH3Index 0 bc.val 0) = bc.val := by
  decide +kernel

theorem base_valid (bc : Nat) (h : bc < 122) : ValidN (setH3Index 0 bc 0) :=
  (layoutSpec_iff _).mp (C03C.base_layout ⟨bc, h⟩)

theorem nextCell_base (bc : Nat) (h : bc < 122) :
    nextCell (setH3Index 0 bc 0) = if bc + 1 < 122 then setH3Index 0 (bc + 1) 0 else 0#64 := by
  obtain ⟨r0, b0⟩ := base_res_bc ⟨bc, h⟩
  unfold nextCell
  rw [r0]
  unfold nextCell.go
  simp only [beq_self_eq_true, if_true, b0]
  unfold baseCellNumToCell
  by_cases e : bc + 1 < 122
  · have c : (decide (((bc : Int) + 1) < 0) || decide (((bc : Int) + 1) ≥ 122)) = false := by simp; omega
    have t : ((bc : Int) + 1).toNat = bc + 1 := by omega
    simp only [c, Bool.false_eq_true, if_false, e, if_true, t]
  · have c : (decide (((bc : Int) + 1) < 0) || decide (((bc : Int) + 1) ≥ 122)) = true := by simp; omega
    simp only [c, if_true, e, if_false]

theorem polyRun_null (g : PolyGeo) (res : Nat) : ∀ fuel, polyRun g res fuel 0#64 = [] := by
  intro fuel; cases fuel <;> simp [polyRun]

/-- the compact sequence over the whole globe, from base cell `k` on -/
theorem run_from_base (g : PolyGeo) (res : Nat) (hres : res ≤ 15) : ∀ (j k : Nat), k + j = 122 → ∀ fuel,
    polyRun g res (fuel + ((List.range' k j).map fun bc => cost g res (setH3Index 0 bc 0)).sum) (setH3Index 0 k 0) =
      (List.range' k j).flatMap (fun bc => visit g res (setH3Index 0 bc 0)) ++
        polyRun g res fuel (if k + j < 123 ∧ j = 0 then setH3Index 0 k 0 else 0#64) := by
  intro j
  induction j with
  | zero =>
    intro k hk fuel
    simp [hk]
  | succ j ih =>
    intro k hk fuel
    have hk122 : k < 122 := by omega
    obtain ⟨r0, _⟩ := base_res_bc ⟨k, hk122⟩
    rw [List.range'_succ]
    simp only [List.map_cons, List.sum_cons, List.flatMap_cons]
    rw [show fuel + (cost g res (setH3Index 0 k 0) + (List.map (fun bc => cost g res (setH3Index 0 bc 0)) (List.range' (k + 1) j)).sum) =
        (fuel + (List.map (fun bc => cost g res (setH3Index 0 bc 0)) (List.range' (k + 1) j)).sum) + cost g res (setH3Index 0 k 0) by omega]
    rw [run_visit g res hres res _ (base_valid k hk122) (by rw [r0]; omega), nextCell_base k hk122]
    by_cases e : k + 1 < 122
    · simp only [e, if_true]
      rw [ih (k + 1) (by omega) fuel, List.append_assoc]
      have : ¬ (k + 1 + j < 123 ∧ j = 0) := by omega
      have : ¬ (k + (j + 1) < 123 ∧ j + 1 = 0) := by omega
      simp [*]
    · have hj : j = 0 := by omega
      subst hj
      simp only [e, if_false, List.range'_zero, List.map_nil, List.sum_nil, Nat.add_zero, List.flatMap_nil,
        List.append_nil, polyRun_null]
      simp [polyRun_null]

/-- **C07 / C15 (traversal logic, relative to the geometry): with enough fuel the compact iterator
yields, base cell after base cell, the recursive descent; expanded to the target resolution it is
exactly the list of ALL valid cells of that resolution (in index order, `cellsEnumS`) filtered by
the fine predicate — nothing lost, nothing added, nothing twice.** -/
theorem polyfill_exact (g : PolyGeo) (res : Nat) (hres : res ≤ 15) (hs : Sound g res) :
    let total := ((List.range' 0 122).map fun bc => cost g res (setH3Index 0 bc 0)).sum
    (polyRun g res (1 + total) (setH3Index 0 0 0)).flatMap (fun y => cellToChildrenS y res) =
      (cellsEnumS res).filter g.fine := by
  intro total
  have h := run_from_base g res hres 122 0 (by omega) 1
  have hc : ¬ (0 + 122 < 123 ∧ 122 = 0) := by omega
  simp only [hc, if_false, polyRun_null, List.append_nil] at h
  rw [h, List.flatMap_assoc]
  unfold cellsEnumS
  rw [filter_flatMap', ← List.range_eq_range']
  apply C04I.flatMap_congr'
  intro bc hbc
  simp only [List.mem_range] at hbc
  obtain ⟨r0, _⟩ := base_res_bc ⟨bc, hbc⟩
  exact visit_exact g res hres hs res _ (base_valid bc hbc) (by rw [r0]; omega)

end H3.PolyT

namespace H3.PolyT
open H3 H3.Bits H3.Hier H3.Valid H3.Succ H3.C04C

/-- **no duplicates**: the expanded result lists every cell at most once -/
theorem polyfill_nodup (g : PolyGeo) (res : Nat) (hres : res ≤ 15) (hs : Sound g res) :
    ((polyRun g res (1 + ((List.range' 0 122).map fun bc => cost g res (setH3Index 0 bc 0)).sum)
      (setH3Index 0 0 0)).flatMap (fun y => cellToChildrenS y res)).Nodup := by
  rw [polyfill_exact g res hres hs]
  exact (C03C.cellsEnum_nodup res hres).filter _

/-- **membership**: a 64-bit value is in the expanded result iff it is a valid cell of the target
resolution accepted by the per-mode predicate -/
theorem polyfill_mem (g : PolyGeo) (res : Nat) (hres : res ≤ 15) (hs : Sound g res) (x : BitVec 64) :
    x ∈ (polyRun g res (1 + ((List.range' 0 122).map fun bc => cost g res (setH3Index 0 bc 0)).sum)
      (setH3Index 0 0 0)).flatMap (fun y => cellToChildrenS y res) ↔
    (x ∈ cellsEnumS res ∧ g.fine x = true) := by
  rw [polyfill_exact g res hres hs, List.mem_filter]

/-- the capacity rule of polygonToCellsExperimental: more cells than `size` → E_MEMORY_BOUNDS with
exactly `size` cells written; otherwise everything, no error -/
theorem polyExpand_bounds (compact : List (BitVec 64)) (res : Nat) (size : Int) (h0 : 0 ≤ size) :
    let all := compact.flatMap fun c => cellToChildren c (res : Int)
    ((all.length : Int) > size → polyExpand compact res size = (some .memoryBounds, all.take size.toNat) ∧
        (all.take size.toNat).length = size.toNat) ∧
    (¬ (all.length : Int) > size → polyExpand compact res size = (none, all)) := by
  intro all
  constructor
  · intro h
    refine ⟨by simp only [polyExpand]; rw [if_pos h], ?_⟩
    rw [List.length_take]; omega
  · intro h
    simp only [polyExpand]; rw [if_neg h]

-- non-vacuity: a geometry that accepts nothing is Sound, and the traversal then yields nothing
example : Sound ⟨fun _ => .skip, fun _ => false⟩ 3 := by
  intro c _ _; exact ⟨fun _ _ _ => rfl, fun h => by cases h⟩

end H3.PolyT
