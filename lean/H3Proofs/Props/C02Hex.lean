/-
C02 — `_hex2dToCoordIJK` returns a hexagon that contains the point, over exact arithmetic.
The generic code of H3Model/Hex2d.lean (whose `Float` instance is compared bit-exactly with C on
every run) is instantiated with ℚ.  In skew coordinates X2 = y·ρ, X1 = x + X2/2 (ρ stands for the
irrational 1/sin 60°; the theorem holds for every positive rational ρ, so it is a statement about
the branch logic: the nine rounding cases and the two axis foldings) the result (i, j) satisfies the
three pairs of inequalities of the closed unit hexagon around (i, j):
|2a − b| ≤ 1, |2b − a| ≤ 1, |a + b| ≤ 1 with a = X1 − i, b = X2 − j.
-/
import H3Model.Hex2d
import H3Proofs.Lemmas.Axial
import Mathlib.Tactic.Linarith
import Mathlib.Data.Rat.Floor

namespace H3.C02H
open H3

instance ratHexField : HexField ℚ where
  add := (· + ·)
  sub := (· - ·)
  mul := (· * ·)
  div := (· / ·)
  lt a b := decide (a < b)
  le a b := decide (a ≤ b)
  ofInt z := (z : ℚ)
  abs := fun x => |x|
  trunc x := x.floor

/-- the closed unit hexagon in skew coordinates -/
def InHex (a b : ℚ) : Prop :=
  -1 ≤ 2 * a - b ∧ 2 * a - b ≤ 1 ∧ -1 ≤ 2 * b - a ∧ 2 * b - a ≤ 1 ∧ -1 ≤ a + b ∧ a + b ≤ 1

theorem floor_bounds (x : ℚ) : ((x.floor : ℤ) : ℚ) ≤ x ∧ x < (x.floor : ℚ) + 1 := by
  have e : x.floor = ⌊x⌋ := by rw [Rat.floor_def, Rat.floor_def']
  rw [e]
  exact ⟨Int.floor_le x, Int.lt_floor_add_one x⟩

/-- **the nine rounding cases**: for every point of the first quadrant, the returned lattice point's
hexagon contains it -/
theorem hexRound_inHex (x1 x2 : ℚ) :
    InHex (x1 - ((hexRound x1 x2).1 : ℚ)) (x2 - ((hexRound x1 x2).2 : ℚ)) := by
  obtain ⟨f1a, f1b⟩ := floor_bounds x1
  obtain ⟨f2a, f2b⟩ := floor_bounds x2
  unfold hexRound InHex
  simp only [HexField.lt, HexField.le, HexField.ofInt, HexField.trunc, HexField.sub, HexField.add, HexField.div,
    HexField.mul, instHSub, instHAdd, instHDiv, instHMul, Sub.sub, Add.add, Div.div, Mul.mul,
    HexField.instSub, HexField.instAdd, HexField.instDiv, HexField.instMul]
  simp only [decide_eq_true_eq, Bool.and_eq_true]
  generalize (x1.floor : ℤ) = m1 at *
  generalize (x2.floor : ℤ) = m2 at *
  split_ifs <;> push_cast <;> (try simp only [not_and_or, not_le, not_lt] at *) <;> norm_num at * <;>
    refine ⟨?_, ?_, ?_, ?_, ?_, ?_⟩ <;>
    first
      | linarith
      | (rename_i h; rcases h with h | h <;> linarith)
      | (rename_i h _; rcases h with h | h <;> linarith)
      | (rename_i h _ _; rcases h with h | h <;> linarith)

/-- the two axis foldings are the lattice reflections (i, j) ↦ (j − i, j) and (i, j) ↦ (i − j, −j) -/
theorem hexFold_eq (xneg yneg : Bool) (i j : Int) :
    hexFold xneg yneg i j =
      let i' := if xneg then j - i else i
      if yneg then (i' - j, -j) else (i', j) := by
  have hx : (if (j % 2 == 0) = true then i - 2 * (i - j / 2) else i - (2 * (i - (j + 1) / 2) + 1)) = j - i := by
    by_cases h : j % 2 = 0
    · have : (j % 2 == 0) = true := by simpa using h
      simp only [this, if_true]; omega
    · have : (j % 2 == 0) = false := by simpa using h
      simp only [this, Bool.false_eq_true, if_false]; omega
  have hy : ∀ t : Int, t - (2 * j + 1) / 2 = t - j := by intro t; omega
  unfold hexFold
  cases xneg <;> cases yneg <;> simp only [Bool.false_eq_true, if_false, if_true, hx, hy]

theorem inHex_reflect_x {a b : ℚ} (h : InHex a b) : InHex (b - a) b := by
  unfold InHex at *; obtain ⟨h1, h2, h3, h4, h5, h6⟩ := h
  refine ⟨?_, ?_, ?_, ?_, ?_, ?_⟩ <;> linarith

theorem inHex_reflect_y {a b : ℚ} (h : InHex a b) : InHex (a - b) (-b) := by
  unfold InHex at *; obtain ⟨h1, h2, h3, h4, h5, h6⟩ := h
  refine ⟨?_, ?_, ?_, ?_, ?_, ?_⟩ <;> linarith

/-- **C02 (planar rounding, exact arithmetic): `_hex2dToCoordIJK` returns a hexagon whose closed
cell contains the point**, for every point (x, y) and every value ρ standing for 1/sin 60°:
with X2 = y·ρ, X1 = x + X2/2 and (I, J) = (i − k, j − k) of the result, (X1 − I, X2 − J) lies in
the closed unit hexagon. -/
theorem hex2dToCoordIJK_nearest (ρ x y : ℚ) :
    let c := hex2dToCoordIJK ρ x y
    InHex (x + y * ρ / 2 - ((c.i - c.k : Int) : ℚ)) (y * ρ - ((c.j - c.k : Int) : ℚ)) := by
  intro c
  have hax : ax c = ((hexFold (decide (x < 0)) (decide (y < 0)) (hexRound (|x| + |y| * ρ / 2) (|y| * ρ)).1
      (hexRound (|x| + |y| * ρ / 2) (|y| * ρ)).2).1,
      (hexFold (decide (x < 0)) (decide (y < 0)) (hexRound (|x| + |y| * ρ / 2) (|y| * ρ)).1
      (hexRound (|x| + |y| * ρ / 2) (|y| * ρ)).2).2) := by
    show ax (hex2dToCoordIJK ρ x y) = _
    unfold hex2dToCoordIJK
    simp only [ax_normalize]
    unfold ax
    simp only [Int.sub_zero]
    rfl
  have hi : c.i - c.k = (ax c).1 := rfl
  have hj : c.j - c.k = (ax c).2 := rfl
  rw [hi, hj, hax, hexFold_eq]
  have hr := hexRound_inHex (|x| + |y| * ρ / 2) (|y| * ρ)
  generalize (hexRound (|x| + |y| * ρ / 2) (|y| * ρ)).1 = i at *
  generalize (hexRound (|x| + |y| * ρ / 2) (|y| * ρ)).2 = j at *
  by_cases hx : x < 0 <;> by_cases hy : y < 0
  · -- both folds: (i, j) ↦ (−i, −j)
    rw [abs_of_neg hx, abs_of_neg hy] at hr
    simp only [hx, hy, decide_true, if_true]
    have := inHex_reflect_y (inHex_reflect_x hr)
    unfold InHex at *
    push_cast
    obtain ⟨h1, h2, h3, h4, h5, h6⟩ := this
    refine ⟨?_, ?_, ?_, ?_, ?_, ?_⟩ <;> linarith
  · rw [abs_of_neg hx, abs_of_nonneg (not_lt.mp hy)] at hr
    simp only [hx, hy, decide_true, decide_false, if_true, Bool.false_eq_true, if_false]
    have := inHex_reflect_x hr
    unfold InHex at *
    push_cast
    obtain ⟨h1, h2, h3, h4, h5, h6⟩ := this
    refine ⟨?_, ?_, ?_, ?_, ?_, ?_⟩ <;> linarith
  · rw [abs_of_nonneg (not_lt.mp hx), abs_of_neg hy] at hr
    simp only [hx, hy, decide_true, decide_false, if_true, Bool.false_eq_true, if_false]
    have := inHex_reflect_y hr
    unfold InHex at *
    push_cast
    obtain ⟨h1, h2, h3, h4, h5, h6⟩ := this
    refine ⟨?_, ?_, ?_, ?_, ?_, ?_⟩ <;> linarith
  · rw [abs_of_nonneg (not_lt.mp hx), abs_of_nonneg (not_lt.mp hy)] at hr
    simp only [hx, hy, decide_false, Bool.false_eq_true, if_false]
    exact hr

-- non-vacuity: an exact tie point and an ordinary point evaluate
example : InHex (1 / 2) (1 / 2) := by unfold InHex; norm_num

end H3.C02H
