/-
C05 — complete resolution 1 (842 cells): adjacency is symmetric (family result, see C05Res1a).
-/
import H3Proofs.Props.C05Res1a

namespace H3.Small
open H3 H3.C05A

theorem res1_symmetric :
    cells1.all (fun h => (cellNeighbors h).all (fun n => (cellNeighbors n).contains h)) = true := by
  decide +kernel

end H3.Small
