/-
C05 — the neighbours of a pentagon: at every resolution ≥ 1 and for each of the twelve pentagon
base cells, the step in direction K fails with E_PENTAGON and the steps in the other five directions
succeed and give five pairwise distinct valid cells of the same resolution (the children 2..6 of the
pentagon's parent position); at resolution 0 the same is decided over the base-cell tables.
-/
import H3Proofs.Props.C05Valid2

namespace H3.C05P
open H3 H3.Bits H3.C05A H3.C05M H3.C05V H3.Gen.Bits

theorem table_zero : ∀ d : Fin 7, newDigitII 0 d.val = d.val ∧ newDigitIII 0 d.val = d.val ∧
    newAdjII 0 d.val = 0 ∧ newAdjIII 0 d.val = 0 := by decide +kernel

/-- one step of the digit loop from a cell whose finest digit is 0 just writes the direction -/
theorem digitPass_zero (h : BitVec 64) (dir res : Nat) (hd : dir < 7) (hz : getDigit h (res + 1) = 0) :
    digitPass h dir (res + 1) = .ok (setDigit h (res + 1) dir, none) := by
  unfold digitPass
  have T := table_zero ⟨dir, hd⟩
  simp only [hz]
  have h7 : ((0 : Nat) == 7) = false := by decide
  simp only [h7, Bool.false_eq_true, if_false]
  by_cases hc : isResClassIII (res + 1) = true
  · simp only [hc, if_true, T.1, T.2.2.1]
    simp
  · simp only [hc, Bool.false_eq_true, if_false, T.2.1, T.2.2.2]
    simp

theorem lnz_setLast (h : BitVec 64) (res d : Nat) (hres : getRes h = res + 1) (hd : d < 7)
    (hz : ∀ r, 1 ≤ r → r ≤ res + 1 → getDigit h r = 0) : leadingNonZeroDigit (setDigit h (res + 1) d) = d := by
  have h15 : res + 1 ≤ 15 := by have := getRes_lt h; omega
  have hs := getRes_setDigit h (res + 1) d ⟨by omega, h15⟩ (by omega)
  have hdg : ∀ r, 1 ≤ r → r ≤ 15 → getDigit (setDigit h (res + 1) d) r = if r = res + 1 then d else getDigit h r :=
    fun r h1 hr => getDigit_setDigit h (res + 1) r d ⟨by omega, h15⟩ ⟨h1, hr⟩ (by omega)
  by_cases d0 : d = 0
  · subst d0
    apply lnz_zero
    intro r h1 hr
    rw [hs.1, hres] at hr
    rw [hdg r h1 (by omega)]
    by_cases e : r = res + 1
    · simp [e]
    · simp only [e, if_false]; exact hz r h1 hr
  · have := lnz_of_first (setDigit h (res + 1) d) (res + 1) (by omega) (by rw [hs.1, hres])
      (by rw [hdg (res + 1) (by omega) h15]; simpa using d0)
      (fun r h1 hr => by rw [hdg r h1 (by omega)]; simp [show r ≠ res + 1 by omega]; exact hz r h1 (by omega))
    rw [this, hdg (res + 1) (by omega) h15]; simp

/-- **the neighbour steps of a pentagon (resolution ≥ 1)** -/
theorem pentagon_neighbor (h : BitVec 64) (res dir : Nat) (hres : getRes h = res + 1) (hbc : getBaseCell h < 122)
    (hp : isBaseCellPentagon (getBaseCell h) = true) (hz : ∀ r, 1 ≤ r → r ≤ res + 1 → getDigit h r = 0) (hd : dir < 7) :
    h3NeighborRotations h dir 0 =
      if dir = 1 then .error .pentagon else .ok (setDigit h (res + 1) dir, 0) := by
  have h15 : res + 1 ≤ 15 := by have := getRes_lt h; omega
  have hs := getRes_setDigit h (res + 1) dir ⟨by omega, h15⟩ (by omega)
  have hl0 : leadingNonZeroDigit h = 0 := lnz_zero h (fun r h1 hr => hz r h1 (by rw [hres] at hr; exact hr))
  have hl := lnz_setLast h res dir hres hd hz
  unfold h3NeighborRotations
  have c1 : ¬ dir ≥ 7 := by omega
  have c2 : ¬ getBaseCell h ≥ 122 := by omega
  simp only [c1, if_false, c2, Nat.zero_mod, iterate, hres, digitPass_zero h dir res hd (hz (res + 1) (by omega) (by omega))]
  unfold finishNeighbor baseCellSwitch
  simp only [hs.2.1, hp, if_true, Int.toNat_zero]
  unfold finishPentagon
  have ht : ∀ e : H3Error, (throw e : Except H3Error Unit) = Except.error e := fun _ => rfl
  simp only [bind, Except.bind, pure, Except.pure, ht, hl, hl0, iterate, bne_self_eq_false, Bool.false_eq_true, if_false]
  by_cases e1 : dir = 1
  · subst e1; simp
  · have : (dir == 1) = false := by simp [e1]
    simp [this, e1]

/-- exactly five neighbours (in the order of the DIRECTIONS table, K skipped), pairwise distinct -/
theorem pentagon_cellNeighbors (h : BitVec 64) (res : Nat) (hres : getRes h = res + 1) (hbc : getBaseCell h < 122)
    (hp : isBaseCellPentagon (getBaseCell h) = true) (hz : ∀ r, 1 ≤ r → r ≤ res + 1 → getDigit h r = 0) :
    cellNeighbors h = [setDigit h (res + 1) 2, setDigit h (res + 1) 3, setDigit h (res + 1) 5,
      setDigit h (res + 1) 4, setDigit h (res + 1) 6] ∧
    (cellNeighbors h).Nodup ∧ (cellNeighbors h).length = 5 := by
  have P := fun d (hd : d < 7) => pentagon_neighbor h res d hres hbc hp hz hd
  have e : cellNeighbors h = ((List.range 6).filterMap (nbrAt h)) := cellNeighbors_eq h
  have dirs : List.range 6 = [0, 1, 2, 3, 4, 5] := by decide
  have h15 : res + 1 ≤ 15 := by have := getRes_lt h; omega
  have hne : ∀ a b, a < 7 → b < 7 → a ≠ b → setDigit h (res + 1) a ≠ setDigit h (res + 1) b := by
    intro a b ha hb hab he
    have := congrArg (fun x => getDigit x (res + 1)) he
    simp only [getDigit_setDigit h (res + 1) (res + 1) _ ⟨by omega, h15⟩ ⟨by omega, h15⟩ (show a < 8 by omega),
      getDigit_setDigit h (res + 1) (res + 1) _ ⟨by omega, h15⟩ ⟨by omega, h15⟩ (show b < 8 by omega), if_true] at this
    exact hab this
  have dvals : DIRECTIONS 0 = 2 ∧ DIRECTIONS 1 = 3 ∧ DIRECTIONS 2 = 1 ∧ DIRECTIONS 3 = 5 ∧ DIRECTIONS 4 = 4 ∧ DIRECTIONS 5 = 6 := by
    decide +kernel
  obtain ⟨d0, d1, d2, d3, d4, d5⟩ := dvals
  have n0 : nbrAt h 0 = some (setDigit h (res + 1) 2) := by unfold nbrAt; rw [d0, P 2 (by omega)]; simp
  have n1 : nbrAt h 1 = some (setDigit h (res + 1) 3) := by unfold nbrAt; rw [d1, P 3 (by omega)]; simp
  have n2 : nbrAt h 2 = none := by unfold nbrAt; rw [d2, P 1 (by omega)]; simp
  have n3 : nbrAt h 3 = some (setDigit h (res + 1) 5) := by unfold nbrAt; rw [d3, P 5 (by omega)]; simp
  have n4 : nbrAt h 4 = some (setDigit h (res + 1) 4) := by unfold nbrAt; rw [d4, P 4 (by omega)]; simp
  have n5 : nbrAt h 5 = some (setDigit h (res + 1) 6) := by unfold nbrAt; rw [d5, P 6 (by omega)]; simp
  have L : cellNeighbors h = [setDigit h (res + 1) 2, setDigit h (res + 1) 3, setDigit h (res + 1) 5,
      setDigit h (res + 1) 4, setDigit h (res + 1) 6] := by
    rw [e, dirs]
    simp [List.filterMap, n0, n1, n2, n3, n4, n5]
  rw [L]
  refine ⟨rfl, ?_, rfl⟩
  simp only [List.nodup_cons, List.mem_cons, List.not_mem_nil, or_false, not_or, List.nodup_nil, and_true, not_false_eq_true]
  exact ⟨⟨hne 2 3 (by omega) (by omega) (by omega), hne 2 5 (by omega) (by omega) (by omega), hne 2 4 (by omega) (by omega) (by omega), hne 2 6 (by omega) (by omega) (by omega)⟩,
    ⟨hne 3 5 (by omega) (by omega) (by omega), hne 3 4 (by omega) (by omega) (by omega), hne 3 6 (by omega) (by omega) (by omega)⟩,
    ⟨hne 5 4 (by omega) (by omega) (by omega), hne 5 6 (by omega) (by omega) (by omega)⟩, hne 4 6 (by omega) (by omega) (by omega)⟩


/-- resolution 0: the twelve pentagon base cells have five distinct neighbours (the step in the K
direction does not fail there: it is redirected to the IK neighbour, which the disk's hash set then
meets twice), the 110 hexagon base cells six (decided over the regenerated base-cell tables) -/
theorem res0_neighbor_counts :
    getRes0Cells.all (fun h => ((cellNeighbors h).eraseDups.length == (if isPentagon h then 5 else 6)) &&
      (cellNeighbors h).all (fun n => getRes n == 0 && n != h)) = true := by
  decide +kernel

/-- resolution 0: adjacency is symmetric -/
theorem res0_symmetric :
    getRes0Cells.all (fun h => (cellNeighbors h).all (fun n => (cellNeighbors n).contains h)) = true := by
  decide +kernel

end H3.C05P
