/-
C06 — refinement of the layout-faithful compactCells model (hash table, rounds) to the set-level
compaction: whenever `compactCells` returns successfully on a duplicate-free array of valid cells of one
resolution r, the cells it wrote are exactly the maximal full cells (`MaxFull`): the cells p all of whose
resolution-r descendants are in the input while the parent of p (if any) is not such a cell.
-/
import H3Proofs.Props.C06Hash
import H3Proofs.Props.C07Iter
import H3Proofs.Lemmas.ValidHier
import Batteries.Data.List.Perm
import Mathlib.Data.List.Nodup

namespace H3.C06R
open H3 H3.Bits H3.Hier H3.Valid H3.C04C H3.PolyT H3.C06Hash

/-! ### one level of the tree -/

theorem flatMap_singleton' {α : Type} (l : List α) : (l.flatMap fun x => [x]) = l := by
  induction l with
  | nil => rfl
  | cons a t ih => simp [List.flatMap_cons, ih]

/-- the direct children are the children one resolution down -/
theorem kids_eq (p : BitVec 64) (hv : ValidN p) (hr : getRes p < 15) :
    kids p = cellToChildrenS p ((getRes p + 1 : Nat) : Int) := by
  rw [children_compose p hv (getRes p + 1) (by omega) (by omega)]
  rw [← flatMap_singleton' (kids p)]
  rw [List.flatMap_assoc]
  apply C04I.flatMap_congr'
  intro k hk
  simp only [List.flatMap_cons, List.flatMap_nil, List.append_nil]
  unfold kids at hk
  simp only [List.mem_map] at hk
  obtain ⟨d, hd, rfl⟩ := hk
  have hkv := kid_valid p hv hr d hd
  have hkr := (kid_fields p d hr (by have := kidDigits_lt p d hd; omega)).1
  rw [← hkr]
  exact (childrenS_self _ hkv).symm

theorem kid_props (p : BitVec 64) (hv : ValidN p) (hr : getRes p < 15) (k : BitVec 64) (hk : k ∈ kids p) :
    ValidN k ∧ getRes k = getRes p + 1 ∧ cellToParent k (getRes p) = .ok p := by
  rw [kids_eq p hv hr] at hk
  exact valid_children p hv (getRes p + 1) (by omega) (by omega) k hk

theorem kids_length (p : BitVec 64) : (kids p).length = if isPentagon p then 6 else 7 := by
  unfold kids kidDigits
  split <;> simp

theorem kids_nodup (p : BitVec 64) (hr : getRes p < 15) : (kids p).Nodup := by
  unfold kids
  apply List.Nodup.map_on
  · intro a ha b hb e
    have da := kidDigits_lt p a ha
    have db := kidDigits_lt p b hb
    have fa := (kid_fields p a hr (by omega)).2.2.2.2.2 (getRes p + 1) (by omega) (by omega)
    have fb := (kid_fields p b hr (by omega)).2.2.2.2.2 (getRes p + 1) (by omega) (by omega)
    rw [e] at fa
    simp only [if_true] at fa fb
    omega
  · unfold kidDigits; split <;> decide

/-- every valid cell of resolution ≥ 1 is a direct child of its (valid) parent -/
theorem mem_kids_parent (c : BitVec 64) (hv : ValidN c) (h1 : 1 ≤ getRes c) :
    ∃ p, cellToParent c ((getRes c - 1 : Nat) : Int) = .ok p ∧ ValidN p ∧ getRes p = getRes c - 1 ∧ c ∈ kids p := by
  obtain ⟨q, hq, hqv, qres, hmem⟩ := valid_mem_children c hv (getRes c - 1) (by omega)
  refine ⟨q, hq, hqv, qres, ?_⟩
  have h15 := valid_res_le c
  rw [kids_eq q hqv (by omega), qres]
  have : getRes c - 1 + 1 = getRes c := by omega
  rw [this]; exact hmem

/-! ### full cells -/

/-- all resolution-r descendants of `p` are in S -/
def FullB (S : BitVec 64 → Prop) (r : Nat) (p : BitVec 64) : Prop :=
  ValidN p ∧ getRes p ≤ r ∧ ∀ x ∈ cellToChildrenS p (r : Int), S x

theorem full_self (S : BitVec 64 → Prop) (p : BitVec 64) (hv : ValidN p) : FullB S (getRes p) p ↔ S p := by
  unfold FullB
  rw [childrenS_self p hv]
  simp [hv]

theorem full_iff_kids (S : BitVec 64 → Prop) (r : Nat) (hr : r ≤ 15) (p : BitVec 64) (hv : ValidN p)
    (hlt : getRes p < r) : FullB S r p ↔ ∀ k ∈ kids p, FullB S r k := by
  unfold FullB
  rw [children_compose p hv r hlt hr]
  constructor
  · rintro ⟨_, _, h⟩ k hk
    obtain ⟨kv, kr, _⟩ := kid_props p hv (by omega) k hk
    exact ⟨kv, by omega, fun x hx => h x (List.mem_flatMap.mpr ⟨k, hk, hx⟩)⟩
  · intro h
    refine ⟨hv, by omega, fun x hx => ?_⟩
    obtain ⟨k, hk, hx'⟩ := List.mem_flatMap.mp hx
    exact (h k hk).2.2 x hx'


/-! ### counting children: a parent is complete iff all its children are present -/

/-- the parent one resolution up (0 when there is none) -/
def parB (ρ : Nat) (c : BitVec 64) : BitVec 64 :=
  match cellToParent c ((ρ - 1 : Nat) : Int) with
  | .ok p => p
  | .error _ => 0#64

theorem parB_spec (ρ : Nat) (h1 : 1 ≤ ρ) (c : BitVec 64) (hv : ValidN c) (hr : getRes c = ρ) :
    cellToParent c ((ρ - 1 : Nat) : Int) = .ok (parB ρ c) ∧ ValidN (parB ρ c) ∧ getRes (parB ρ c) = ρ - 1 ∧
    c ∈ kids (parB ρ c) := by
  obtain ⟨p, hp, pv, pr, hk⟩ := mem_kids_parent c hv (by omega)
  rw [hr] at hp pr
  have : parB ρ c = p := by unfold parB; rw [hp]
  rw [this]
  exact ⟨hp, pv, pr, hk⟩

theorem parB_kid (p : BitVec 64) (hv : ValidN p) (hr : getRes p < 15) (k : BitVec 64) (hk : k ∈ kids p) :
    parB (getRes p + 1) k = p := by
  obtain ⟨_, _, hp⟩ := kid_props p hv hr k hk
  unfold parB
  simp only [Nat.add_sub_cancel]
  rw [hp]

theorem normal_of_valid (p : BitVec 64) (hv : ValidN p) : Normal p := ⟨valid_ne_zero p hv, hv.2.2.1⟩

/-- **a parent is complete (count + pentagon bonus = 7) exactly when all its children are present** -/
theorem complete_iff (ρ : Nat) (h1 : 1 ≤ ρ) (hρ15 : ρ ≤ 15) (R : List (BitVec 64)) (hnd : R.Nodup)
    (hR : ∀ c ∈ R, ValidN c ∧ getRes c = ρ) (p : BitVec 64) (hv : ValidN p) (hr : getRes p = ρ - 1) :
    complete (fun q => (R.map (parB ρ)).count q) p = true ↔ ∀ k ∈ kids p, k ∈ R := by
  have h15 : getRes p < 15 := by omega
  have hρ : getRes p + 1 = ρ := by omega
  -- the children of p that are present
  have hcount : (R.map (parB ρ)).count p = (R.filter (fun c => parB ρ c == p)).length := by
    rw [List.count_eq_length_filter, List.filter_map, List.length_map]
    rfl
  have hLsub : ∀ c ∈ R.filter (fun c => parB ρ c == p), c ∈ kids p := by
    intro c hc
    rw [List.mem_filter] at hc
    obtain ⟨hcR, hcp⟩ := hc
    obtain ⟨cv, cr⟩ := hR c hcR
    have := (parB_spec ρ h1 c cv cr).2.2.2
    rw [beq_iff_eq] at hcp
    rw [hcp] at this; exact this
  have hLnd : (R.filter (fun c => parB ρ c == p)).Nodup := hnd.filter _
  have hkl := kids_length p
  have hknd := kids_nodup p h15
  have hle : (R.filter (fun c => parB ρ c == p)).length ≤ (kids p).length :=
    (List.subperm_of_subset hLnd hLsub).length_le
  unfold complete
  simp only [hcount, beq_iff_eq]
  constructor
  · intro h
    have hlen : (kids p).length ≤ (R.filter (fun c => parB ρ c == p)).length := by
      rw [hkl]; split at h <;> split <;> simp_all <;> omega
    have hperm := (List.subperm_of_subset hLnd hLsub).perm_of_length_le hlen
    intro k hk
    have := hperm.symm.subset hk
    exact (List.mem_filter.mp this).1
  · intro h
    have hsub : ∀ k ∈ kids p, k ∈ R.filter (fun c => parB ρ c == p) := by
      intro k hk
      rw [List.mem_filter]
      refine ⟨h k hk, ?_⟩
      rw [beq_iff_eq, ← hρ]
      exact parB_kid p hv h15 k hk
    have hge : (kids p).length ≤ (R.filter (fun c => parB ρ c == p)).length :=
      (List.subperm_of_subset hknd hsub).length_le
    rw [hkl] at hge hle
    split <;> split at hge <;> simp_all <;> omega


/-! ### one round of compactCells at the level of sets -/

theorem range_map_getD (a : Array (BitVec 64)) : (List.range a.size).map (fun i => a.getD i 0#64) = a.toList := by
  apply List.ext_getElem
  · simp
  · intro i h1 h2
    simp only [List.getElem_map, List.getElem_range, Array.getD_eq_getD_getElem?]
    have : i < a.size := by simpa using h1
    simp [this]

/-- input conditions of a round -/
structure RoundIn (remaining : Array (BitVec 64)) (ρ : Nat) : Prop where
  nodup : remaining.toList.Nodup
  valid : ∀ c ∈ remaining.toList, ValidN c ∧ getRes c = ρ

theorem RoundIn.getD {remaining : Array (BitVec 64)} {ρ : Nat} (h : RoundIn remaining ρ) (i : Nat) (hi : i < remaining.size) :
    ValidN (remaining.getD i 0#64) ∧ getRes (remaining.getD i 0#64) = ρ := by
  apply h.valid
  rw [Array.getD_eq_getD_getElem?]
  simp [hi]

theorem parentAt_eq (remaining : Array (BitVec 64)) (ρ : Nat) (h1 : 1 ≤ ρ) (hin : RoundIn remaining ρ) (i : Nat)
    (hi : i < remaining.size) :
    parentAt remaining ((ρ - 1 : Nat) : Int) i = some (parB ρ (remaining.getD i 0#64)) := by
  obtain ⟨cv, cr⟩ := hin.getD i hi
  have hne : (remaining.getD i 0#64 == 0#64) = false := by simpa using valid_ne_zero _ cv
  have := (parB_spec ρ h1 _ cv cr).1
  simp only [parentAt, hne, Bool.false_eq_true, if_false, this]

theorem parentsOf_eq (remaining : Array (BitVec 64)) (ρ : Nat) (h1 : 1 ≤ ρ) (hin : RoundIn remaining ρ) :
    parentsOf remaining ((ρ - 1 : Nat) : Int) remaining.size = remaining.toList.map (parB ρ) := by
  unfold parentsOf
  rw [← range_map_getD remaining, List.map_map]
  have : ∀ i ∈ List.range remaining.size, parentAt remaining ((ρ - 1 : Nat) : Int) i =
      some ((parB ρ ∘ fun i => remaining.getD i 0#64) i) := by
    intro i hi
    exact parentAt_eq remaining ρ h1 hin i (by simpa using hi)
  rw [List.filterMap_congr this]
  exact List.filterMap_eq_map (f := parB ρ ∘ fun i => remaining.getD i 0#64) ▸ rfl


theorem compactPhase2_eq (hs : Array (BitVec 64)) (n : Nat) :
    compactPhase2 hs n = (List.range n).foldl (init := (hs, (#[] : Array (BitVec 64)))) (fun (x : Array (BitVec 64) × Array (BitVec 64)) i =>
        let e := x.1.getD i 0#64
        if e == 0#64 then (x.1, x.2)
        else
          let count := getReserved e + 1
          let y : Array (BitVec 64) × BitVec 64 × Nat :=
            if isPentagon (clearReserved e) then
              (x.1.setIfInBounds i (setReserved e count), setReserved e count, count + 1)
            else (x.1, e, count)
          if y.2.2 == 7 then (y.1, x.2.push (clearReserved y.2.1)) else (y.1, x.2)) := by
  unfold compactPhase2
  congr 1

/-- **one round (resolution ρ ≥ 1), set level**: whenever the three phases succeed, the parents passed
on to the next round are exactly the cells one resolution up all of whose children are present, each
once, and the cells copied to the output are exactly those whose parent is not such a cell -/
theorem round_step (remaining : Array (BitVec 64)) (ρ numHexes : Nat) (h1 : 1 ≤ ρ) (hρ15 : ρ ≤ 15)
    (hin : RoundIn remaining ρ) (hn : 0 < remaining.size) (hsz : remaining.size ≤ numHexes)
    (hs hs2 compactable unc : Array (BitVec 64))
    (hp1 : compactPhase1 remaining remaining.size ((ρ - 1 : Nat) : Int) (Array.replicate numHexes 0#64) = .ok hs)
    (hp2 : compactPhase2 hs remaining.size = (hs2, compactable))
    (hp3 : compactPhase3 remaining remaining.size ((ρ - 1 : Nat) : Int) hs2 = .ok unc) :
    compactable.size ≤ remaining.size ∧ compactable.toList.Nodup ∧
    (∀ p, p ∈ compactable.toList ↔ (ValidN p ∧ getRes p = ρ - 1 ∧ ∀ k ∈ kids p, k ∈ remaining.toList)) ∧
    (∀ x, x ∈ unc.toList ↔ (x ∈ remaining.toList ∧ ¬ ∀ k ∈ kids (parB ρ x), k ∈ remaining.toList)) := by
  set n := remaining.size with hnn
  set R := remaining.toList with hR
  set cnt : BitVec 64 → Nat := fun q => (R.map (parB ρ)).count q with hcnt
  have hpar : ∀ i p, i < n → parentAt remaining ((ρ - 1 : Nat) : Int) i = some p → Normal p := by
    intro i p hi hp
    rw [parentAt_eq remaining ρ h1 hin i hi] at hp
    cases hp
    obtain ⟨cv, cr⟩ := hin.getD i hi
    exact normal_of_valid _ (parB_spec ρ h1 _ cv cr).2.1
  -- phase 1
  have T : Tab hs n cnt := by
    have := (phase1_spec remaining n hn ((ρ - 1 : Nat) : Int) hpar (fun _ _ _ _ => by
      rename_i i hi hne hr
      obtain ⟨cv, cr⟩ := hin.getD i hi
      exact ⟨_, (parB_spec ρ h1 _ cv cr).1⟩) n (Nat.le_refl _) _ hs (tab_empty n numHexes hsz) hp1).1
    rw [parentsOf_eq remaining ρ h1 hin] at this
    exact this
  -- phase 2
  rw [compactPhase2_eq] at hp2
  obtain ⟨A, hacc⟩ := phase2_spec hs n cnt T n (Nat.le_refl _)
  simp only [hp2] at A hacc
  -- phase 3
  rw [compactPhase3_eq] at hp3
  have hunc := phase3_spec remaining n hn ((ρ - 1 : Nat) : Int) (by omega) hs hs2 cnt T A hpar n (Nat.le_refl _) unc hp3
  have hcompl : ∀ p, ValidN p → getRes p = ρ - 1 → (complete cnt p = true ↔ ∀ k ∈ kids p, k ∈ R) :=
    fun p pv pr => complete_iff ρ h1 hρ15 R hin.nodup hin.valid p pv pr
  have hcntpos : ∀ p, 1 ≤ cnt p → ∃ c ∈ R, parB ρ c = p := by
    intro p hp
    have : p ∈ R.map (parB ρ) := List.count_pos_iff.mp hp
    obtain ⟨c, hc, e⟩ := List.mem_map.mp this
    exact ⟨c, hc, e⟩
  -- membership in the list of complete parents
  have hpick : ∀ s p, s < n → (pickAt hs cnt s = some p ↔
      (slot hs s ≠ 0#64 ∧ clearReserved (slot hs s) = p ∧ complete cnt p = true)) := by
    intro s p _
    unfold pickAt
    by_cases z : (slot hs s == 0#64) = true
    · have z' : slot hs s = 0#64 := by simpa using z
      simp [z, z']
    · have z' : slot hs s ≠ 0#64 := by simpa using z
      simp only [z, Bool.false_eq_true, if_false]
      constructor
      · intro h
        split at h
        · next hc => simp only [Option.some.injEq] at h; subst h; exact ⟨z', rfl, hc⟩
        · simp at h
      · rintro ⟨_, rfl, hc⟩
        simp [hc]
  refine ⟨?_, ?_, ?_, ?_⟩
  · have : compactable.toList.length ≤ (List.range n).length := by rw [hacc]; exact List.length_filterMap_le _ _
    simpa using this
  · -- no duplicates: one slot per parent
    rw [hacc]
    have hcongr : ∀ s ∈ List.range n, pickAt hs cnt s = (fun s => if s < n then pickAt hs cnt s else none) s := by
      intro s hs'; simp only [List.mem_range] at hs'; simp [hs']
    rw [List.filterMap_congr hcongr]
    apply List.Nodup.filterMap _ List.nodup_range
    intro s t b hs' ht'
    simp only [Option.mem_def] at hs' ht'
    by_cases hsn : s < n
    · by_cases htn : t < n
      · simp only [hsn, htn, if_true] at hs' ht'
        obtain ⟨s0, sc, _⟩ := (hpick s b hsn).mp hs'
        obtain ⟨t0, tc, _⟩ := (hpick t b htn).mp ht'
        exact T.unique s t hsn htn s0 t0 (by rw [sc, tc])
      · simp [htn] at ht'
    · simp [hsn] at hs'
  · intro p
    rw [hacc, List.mem_filterMap]
    constructor
    · rintro ⟨s, hs', hp⟩
      simp only [List.mem_range] at hs'
      obtain ⟨s0, sc, hc⟩ := (hpick s p hs').mp hp
      obtain ⟨_, c1, _, _⟩ := T.clear_of_stored s hs' s0
      rw [sc] at c1
      obtain ⟨c, hcR, rfl⟩ := hcntpos p c1
      obtain ⟨cv, cr⟩ := hin.valid c hcR
      obtain ⟨_, pv, pr, _⟩ := parB_spec ρ h1 c cv cr
      exact ⟨pv, pr, (hcompl _ pv pr).mp hc⟩
    · rintro ⟨pv, pr, hk⟩
      have hc := (hcompl p pv pr).mpr hk
      -- some child is present, so the parent is in the table
      have hkpos : 0 < (kids p).length := by rw [kids_length]; split <;> omega
      obtain ⟨k, hkm⟩ := List.exists_mem_of_length_pos hkpos
      have hkR := hk k hkm
      have hpk : parB ρ k = p := by
        have := parB_kid p pv (by omega) k hkm
        rw [show getRes p + 1 = ρ by omega] at this; exact this
      have c1 : 1 ≤ cnt p := by
        apply List.count_pos_iff.mpr
        exact List.mem_map.mpr ⟨k, hkR, hpk⟩
      obtain ⟨j, hj, jc, jnz, _⟩ := T.present p c1
      refine ⟨C06Hash.probe n (p.toNat % n) j, by simp only [List.mem_range]; exact C06Hash.probe_lt _ _ _ hn, ?_⟩
      exact (hpick _ p (C06Hash.probe_lt _ _ _ hn)).mpr ⟨jnz, jc, hc⟩
  · intro x
    rw [hunc, List.mem_filterMap]
    constructor
    · rintro ⟨i, hi, hk⟩
      simp only [List.mem_range] at hi
      unfold keepAt at hk
      rw [parentAt_eq remaining ρ h1 hin i hi] at hk
      simp only [] at hk
      obtain ⟨cv, cr⟩ := hin.getD i hi
      obtain ⟨_, pv, pr, _⟩ := parB_spec ρ h1 _ cv cr
      by_cases hnc : complete cnt (parB ρ (remaining.getD i 0#64)) = true
      · rw [if_pos hnc] at hk; cases hk
      · rw [if_neg hnc] at hk
        cases hk
        refine ⟨?_, fun hall => hnc ((hcompl _ pv pr).mpr hall)⟩
        have hi2 : i < remaining.size := hi
        rw [hR, Array.getD_eq_getD_getElem?, Array.getElem?_eq_getElem hi2]
        simp
    · rintro ⟨hxR, hnot⟩
      obtain ⟨i, hi, hxi⟩ := List.getElem_of_mem hxR
      have hi' : i < n := by simpa [hR] using hi
      have hget : remaining.getD i 0#64 = x := by
        have hi2 : i < remaining.size := hi'
        rw [Array.getD_eq_getD_getElem?, Array.getElem?_eq_getElem hi2]
        simpa [hR] using hxi
      refine ⟨i, by simp only [List.mem_range]; exact hi', ?_⟩
      unfold keepAt
      rw [parentAt_eq remaining ρ h1 hin i hi', hget]
      simp only []
      obtain ⟨cv, cr⟩ := hin.valid x hxR
      obtain ⟨_, pv, pr, _⟩ := parB_spec ρ h1 x cv cr
      have : complete cnt (parB ρ x) = false := by
        cases hc : complete cnt (parB ρ x) with
        | false => rfl
        | true => exact absurd ((hcompl _ pv pr).mp hc) hnot
      simp [this]


/-! ### the rounds -/

/-- maximal full cells: the canonical compaction of S -/
def MaxFull (S : BitVec 64 → Prop) (r : Nat) (x : BitVec 64) : Prop :=
  FullB S r x ∧ (getRes x = 0 ∨ ¬ FullB S r (parB (getRes x) x))

theorem kids_pos (p : BitVec 64) : ∃ k, k ∈ kids p := by
  have : 0 < (kids p).length := by rw [kids_length]; split <;> omega
  exact List.exists_mem_of_length_pos this

/-- below a full cell there is a full cell at every finer level up to r -/
theorem full_down (S : BitVec 64 → Prop) (r : Nat) (hr : r ≤ 15) : ∀ (d : Nat) (x : BitVec 64) (ρ : Nat),
    FullB S r x → getRes x + d = ρ → ρ ≤ r → ∃ y, ValidN y ∧ getRes y = ρ ∧ FullB S r y := by
  intro d
  induction d with
  | zero => intro x ρ hf hd _; exact ⟨x, hf.1, by omega, hf⟩
  | succ d ih =>
    intro x ρ hf hd hρ
    have hlt : getRes x < r := by omega
    obtain ⟨k, hk⟩ := kids_pos x
    have hkf := (full_iff_kids S r hr x hf.1 hlt).mp hf k hk
    obtain ⟨_, kr, _⟩ := kid_props x hf.1 (by omega) k hk
    exact ih k ρ hkf (by omega) hρ

/-- if all children of p are among n < 6 cells there is a contradiction -/
theorem kids_le (p : BitVec 64) (hr : getRes p < 15) (R : List (BitVec 64)) (h : ∀ k ∈ kids p, k ∈ R) : 6 ≤ R.length := by
  have := (List.subperm_of_subset (kids_nodup p hr) h).length_le
  rw [kids_length] at this
  split at this <;> omega

structure Inv (S : BitVec 64 → Prop) (r ρ : Nat) (remaining out : Array (BitVec 64)) : Prop where
  le : ρ ≤ r
  r15 : r ≤ 15
  rin : RoundIn remaining ρ
  full : ∀ x, ValidN x → getRes x = ρ → (x ∈ remaining.toList ↔ FullB S r x)
  out : ∀ x, x ∈ out.toList ↔ (MaxFull S r x ∧ ρ < getRes x)

/-- the parent of a present cell is full iff all of the parent's children are present -/
theorem Inv.parent_full {S r ρ remaining out} (I : Inv S r ρ remaining out) (h1 : 1 ≤ ρ) (p : BitVec 64)
    (pv : ValidN p) (pr : getRes p = ρ - 1) : FullB S r p ↔ ∀ k ∈ kids p, k ∈ remaining.toList := by
  rw [full_iff_kids S r I.r15 p pv (by have := I.le; omega)]
  constructor
  · intro h k hk
    obtain ⟨kv, kr, _⟩ := kid_props p pv (by have := I.le; have := I.r15; omega) k hk
    exact (I.full k kv (by omega)).mpr (h k hk)
  · intro h k hk
    obtain ⟨kv, kr, _⟩ := kid_props p pv (by have := I.le; have := I.r15; omega) k hk
    exact (I.full k kv (by omega)).mp (h k hk)

/-- nothing is left to compact: the output is the canonical compaction -/
theorem Inv.final_empty {S r ρ remaining out} (I : Inv S r ρ remaining out) (h0 : remaining.size = 0) (x : BitVec 64) :
    x ∈ out.toList ↔ MaxFull S r x := by
  rw [I.out x]
  constructor
  · exact fun h => h.1
  · intro h
    refine ⟨h, ?_⟩
    by_cases hlt : ρ < getRes x
    · exact hlt
    · exfalso
      obtain ⟨y, yv, yr, yf⟩ := full_down S r I.r15 (ρ - getRes x) x ρ h.1 (by omega) I.le
      have := (I.full y yv yr).mpr yf
      have hnil : remaining.toList = [] := by
        apply List.eq_nil_of_length_eq_zero; simpa using h0
      rw [hnil] at this; simp at this

/-- fewer than six cells are left: none of their parents can be full, so they all stay -/
theorem Inv.final_small {S r ρ remaining out} (I : Inv S r ρ remaining out) (hn : remaining.size < 6) (x : BitVec 64) :
    (x ∈ out.toList ∨ x ∈ remaining.toList) ↔ MaxFull S r x := by
  have hlen : remaining.toList.length < 6 := by simpa using hn
  have nofull : ∀ p, ValidN p → getRes p + 1 = ρ → ¬ FullB S r p := by
    intro p pv pr hf
    have h1 : 1 ≤ ρ := by omega
    have := kids_le p (by have := I.le; have := I.r15; omega) _ ((I.parent_full h1 p pv (by omega)).mp hf)
    omega
  constructor
  · rintro (h | h)
    · exact ((I.out x).mp h).1
    · obtain ⟨xv, xr⟩ := I.rin.valid x h
      have xf := (I.full x xv xr).mp h
      refine ⟨xf, ?_⟩
      by_cases h0 : getRes x = 0
      · exact Or.inl h0
      · right
        rw [xr]
        obtain ⟨_, pv, pr, _⟩ := parB_spec ρ (by omega) x xv xr
        exact nofull _ pv (by omega)
  · intro h
    by_cases hlt : ρ < getRes x
    · exact Or.inl ((I.out x).mpr ⟨h, hlt⟩)
    · right
      by_cases heq : getRes x = ρ
      · exact (I.full x h.1.1 heq).mpr h.1
      · exfalso
        have hρ1 : 1 ≤ ρ := by omega
        obtain ⟨y, yv, yr, yf⟩ := full_down S r I.r15 (ρ - 1 - getRes x) x (ρ - 1) h.1 (by omega) (by have := I.le; omega)
        exact nofull y yv (by omega) yf


/-- the invariant is carried to the next coarser resolution by one successful round -/
theorem Inv.step {S r ρ remaining out} (I : Inv S r ρ remaining out) (h1 : 1 ≤ ρ)
    (compactable unc : Array (BitVec 64)) (hnd : compactable.toList.Nodup)
    (hc : ∀ p, p ∈ compactable.toList ↔ (ValidN p ∧ getRes p = ρ - 1 ∧ ∀ k ∈ kids p, k ∈ remaining.toList))
    (hu : ∀ x, x ∈ unc.toList ↔ (x ∈ remaining.toList ∧ ¬ ∀ k ∈ kids (parB ρ x), k ∈ remaining.toList)) :
    Inv S r (ρ - 1) compactable (out ++ unc) := by
  refine ⟨by have := I.le; omega, I.r15, ⟨hnd, fun c hcm => ⟨((hc c).mp hcm).1, ((hc c).mp hcm).2.1⟩⟩, ?_, ?_⟩
  · intro x xv xr
    rw [hc x, I.parent_full h1 x xv xr]
    constructor
    · exact fun h => h.2.2
    · exact fun h => ⟨xv, xr, h⟩
  · intro x
    rw [Array.toList_append, List.mem_append, I.out x, hu x]
    constructor
    · rintro (⟨hm, hlt⟩ | ⟨hxR, hnot⟩)
      · exact ⟨hm, by omega⟩
      · obtain ⟨xv, xr⟩ := I.rin.valid x hxR
        have xf := (I.full x xv xr).mp hxR
        obtain ⟨_, pv, pr, _⟩ := parB_spec ρ h1 x xv xr
        refine ⟨⟨xf, Or.inr ?_⟩, by omega⟩
        rw [xr]
        exact fun hf => hnot ((I.parent_full h1 _ pv pr).mp hf)
    · rintro ⟨hm, hlt⟩
      by_cases hlt' : ρ < getRes x
      · exact Or.inl ⟨hm, hlt'⟩
      · right
        have xr : getRes x = ρ := by omega
        have hxR := (I.full x hm.1.1 xr).mpr hm.1
        refine ⟨hxR, ?_⟩
        obtain ⟨_, pv, pr, _⟩ := parB_spec ρ h1 x hm.1.1 xr
        rcases hm.2 with h0 | hnf
        · omega
        · rw [xr] at hnf
          exact fun hall => hnf ((I.parent_full h1 _ pv pr).mpr hall)

/-! #### resolution 0: no parents -/

theorem slot_replicate (size s : Nat) : slot (Array.replicate size 0#64) s = 0#64 := by
  unfold slot
  rw [Array.getD_eq_getD_getElem?]
  by_cases hs : s < size
  · simp [hs]
  · simp [hs]

theorem phase2_zero (size n : Nat) (h : n ≤ size) : (compactPhase2 (Array.replicate size 0#64) n).2.toList = [] := by
  rw [compactPhase2_eq]
  obtain ⟨_, hacc⟩ := phase2_spec (Array.replicate size 0#64) n (fun _ => 0) (tab_empty n size h) n (Nat.le_refl _)
  rw [hacc]
  have : ∀ s ∈ List.range n, pickAt (Array.replicate size 0#64) (fun _ => 0) s = none := by
    intro s _; unfold pickAt; simp [slot_replicate]
  rw [List.filterMap_congr this]
  simp

theorem phase3_neg (remaining : Array (BitVec 64)) (hs : Array (BitVec 64)) (pr : Int) (hpr : ¬ pr ≥ 0)
    (hnz : ∀ c ∈ remaining.toList, c ≠ 0#64) :
    ∀ m, m ≤ remaining.size → (List.range m).foldlM (init := (#[] : Array (BitVec 64)))
        (phase3Step remaining remaining.size pr hs) = .ok ((List.range m).map (fun i => remaining.getD i 0#64)).toArray := by
  intro m
  induction m with
  | zero => intro _; rfl
  | succ m ih =>
    intro hm
    rw [List.range_succ, List.foldlM_append, ih (by omega)]
    simp only [List.foldlM_cons, List.foldlM_nil, bind, Except.bind, phase3Step]
    have hi : m < remaining.size := by omega
    have hne : (remaining.getD m 0#64 == 0#64) = false := by
      have : remaining.getD m 0#64 ∈ remaining.toList := by
        rw [Array.getD_eq_getD_getElem?, Array.getElem?_eq_getElem hi]; simp
      simpa using hnz _ this
    simp only [hne, Bool.false_eq_true, if_false, hpr, pure, Except.pure]
    simp


theorem Inv.final_zero {S r remaining out} (I : Inv S r 0 remaining out) (x : BitVec 64) :
    (x ∈ out.toList ∨ x ∈ remaining.toList) ↔ MaxFull S r x := by
  constructor
  · rintro (h | h)
    · exact ((I.out x).mp h).1
    · obtain ⟨xv, xr⟩ := I.rin.valid x h
      exact ⟨(I.full x xv xr).mp h, Or.inl xr⟩
  · intro h
    by_cases hlt : 0 < getRes x
    · exact Or.inl ((I.out x).mpr ⟨h, hlt⟩)
    · exact Or.inr ((I.full x h.1.1 (by omega)).mpr h.1)

theorem compactRounds_empty (sched : Nat → Bool) (nh rb hb fuel : Nat) (remaining out : Array (BitVec 64)) (a : AState) :
    (compactRounds sched nh rb hb fuel remaining 0 out a).1 = .ok out := by
  cases fuel <;> simp [compactRounds]

theorem extract_all (a : Array (BitVec 64)) : (a.extract 0 a.size).toList = a.toList := by
  simp

/-- **the rounds of compactCells compute the canonical compaction** (partial correctness) -/
theorem rounds_spec (sched : Nat → Bool) (S : BitVec 64 → Prop) (r numHexes rb hb : Nat) :
    ∀ (fuel ρ : Nat) (remaining out : Array (BitVec 64)) (a : AState) (result : Array (BitVec 64)),
      Inv S r ρ remaining out → (remaining.size = 0 ∨ ρ + 2 ≤ fuel) → remaining.size ≤ numHexes →
      (compactRounds sched numHexes rb hb fuel remaining remaining.size out a).1 = .ok result →
      ∀ x, x ∈ result.toList ↔ MaxFull S r x := by
  intro fuel
  induction fuel with
  | zero =>
    intro ρ remaining out a result I hf _ h x
    have h0 : remaining.size = 0 := by omega
    simp only [compactRounds, Except.ok.injEq] at h
    subst h
    exact I.final_empty h0 x
  | succ fuel ih =>
    intro ρ remaining out a result I hf hsz h x
    by_cases h0 : remaining.size = 0
    · rw [h0, compactRounds_empty] at h
      simp only [Except.ok.injEq] at h
      subst h
      exact I.final_empty h0 x
    · have hn : 0 < remaining.size := by omega
      have hfuel : ρ + 2 ≤ fuel + 1 := by omega
      obtain ⟨c0v, c0r⟩ := I.rin.getD 0 hn
      unfold compactRounds at h
      have hne : (remaining.size == 0) = false := by simpa using h0
      simp only [hne, Bool.false_eq_true, if_false, c0r] at h
      by_cases hρ : ρ = 0
      · -- resolution 0: nothing to hash
        subst hρ
        have hpr : ¬ (((0 : Nat) : Int) - 1 ≥ 0) := by omega
        simp only [hpr, if_false] at h
        by_cases hsmall : (remaining.size / 6 == 0) = true
        · simp only [hsmall, if_true, Except.ok.injEq] at h
          subst h
          rw [Array.toList_append, List.mem_append, extract_all]
          exact I.final_zero x
        · simp only [hsmall, Bool.false_eq_true, if_false] at h
          cases hal : a.alloc sched (remaining.size / 6 * 8) with
          | mk oc a1 =>
            rw [hal] at h
            cases oc with
            | none => simp at h
            | some c =>
              simp only [] at h
              have hz := phase2_zero numHexes remaining.size hsz
              generalize hp2 : compactPhase2 (Array.replicate numHexes 0#64) remaining.size = p2 at h hz
              obtain ⟨hs2, compactable⟩ := p2
              simp only [] at h hz
              have hcs : compactable.size = 0 := by
                have := congrArg List.length hz; simpa using this
              have hnz : ∀ c ∈ remaining.toList, c ≠ 0#64 := fun c hc => valid_ne_zero c (I.rin.valid c hc).1
              have hp3 := phase3_neg remaining hs2 (((0 : Nat) : Int) - 1) hpr hnz remaining.size (Nat.le_refl _)
              rw [compactPhase3_eq, hp3] at h
              simp only [] at h
              rw [hcs, compactRounds_empty] at h
              simp only [Except.ok.injEq] at h
              subst h
              rw [Array.toList_append, List.mem_append]
              simp only [List.toList_toArray, range_map_getD]
              exact I.final_zero x
      · -- resolution ≥ 1
        have h1 : 1 ≤ ρ := by omega
        have hρ15 : ρ ≤ 15 := by have := I.le; have := I.r15; omega
        have hcast : ((ρ : Nat) : Int) - 1 = ((ρ - 1 : Nat) : Int) := by omega
        have hpr' : (((ρ - 1 : Nat) : Int) ≥ 0) := by omega
        simp only [hcast] at h
        rw [if_pos hpr'] at h
        cases hp1 : compactPhase1 remaining remaining.size ((ρ - 1 : Nat) : Int) (Array.replicate numHexes 0#64) with
        | error e => rw [hp1] at h; simp at h
        | ok hs =>
          rw [hp1] at h
          simp only [] at h
          by_cases hsmall : (remaining.size / 6 == 0) = true
          · simp only [hsmall, if_true, Except.ok.injEq] at h
            subst h
            rw [Array.toList_append, List.mem_append, extract_all]
            have : remaining.size < 6 := by
              have : remaining.size / 6 = 0 := by simpa using hsmall
              omega
            exact I.final_small this x
          · simp only [hsmall, Bool.false_eq_true, if_false] at h
            cases hal : a.alloc sched (remaining.size / 6 * 8) with
            | mk oc a1 =>
              rw [hal] at h
              cases oc with
              | none => simp at h
              | some c =>
                simp only [] at h
                generalize hp2 : compactPhase2 hs remaining.size = p2 at h
                obtain ⟨hs2, compactable⟩ := p2
                simp only [] at h
                cases hp3 : compactPhase3 remaining remaining.size ((ρ - 1 : Nat) : Int) hs2 with
                | error e => rw [hp3] at h; simp at h
                | ok unc =>
                  rw [hp3] at h
                  simp only [] at h
                  obtain ⟨hcsz, hnd, hc, hu⟩ := round_step remaining ρ numHexes h1 hρ15 I.rin hn hsz hs hs2 compactable unc hp1 hp2 hp3
                  have I' := I.step h1 compactable unc hnd hc hu
                  exact ih (ρ - 1) compactable (out ++ unc) _ result I' (Or.inr (by omega)) (by omega) h x


/-- **C06 refinement (partial correctness).** Whenever the layout-faithful `compactCells` model — hash
table with `parent % n` probing, reserved-bit counters, pentagon adjustment, per-round scratch arrays,
any allocation-failure schedule — returns successfully on a duplicate-free array of valid cells of
one resolution `r`, the cells it wrote are exactly the maximal full cells of the input set: the
canonical compaction.  In particular the result does not depend on the order of the input. -/
theorem compactCells_refines (sched : Nat → Bool) (cells : Array (BitVec 64)) (r : Nat) (hr : r ≤ 15)
    (hv : ∀ c ∈ cells.toList, ValidN c ∧ getRes c = r) (hnd : cells.toList.Nodup)
    (out : Array (BitVec 64)) (h : (compactCells sched cells).1 = .ok out) :
    ∀ x, x ∈ out.toList ↔ MaxFull (fun c => c ∈ cells.toList) r x := by
  intro x
  unfold compactCells at h
  simp only [] at h
  by_cases h0 : (cells.size == 0) = true
  · -- empty input
    simp only [h0, if_true, Except.ok.injEq] at h
    subst h
    have hnil : cells.toList = [] := by
      apply List.eq_nil_of_length_eq_zero; simpa using h0
    constructor
    · intro hx; simp at hx
    · intro hm
      exfalso
      -- a full cell has a descendant at resolution r in the (empty) input
      obtain ⟨y, yv, yr, yf⟩ := full_down _ r hr (r - getRes x) x r hm.1 (by have := hm.1.2.1; omega) (Nat.le_refl _)
      rw [← yr] at yf
      have := (full_self _ y yv).mp yf
      rw [hnil] at this; simp at this
  · have hn : 0 < cells.size := by
      have : cells.size ≠ 0 := by simpa using h0
      omega
    simp only [h0, Bool.false_eq_true, if_false] at h
    have hin : RoundIn cells r := ⟨hnd, hv⟩
    obtain ⟨c0v, c0r⟩ := hin.getD 0 hn
    have hr15 : r ≤ 15 := by rw [← c0r]; exact valid_res_le _
    have I : Inv (fun c => c ∈ cells.toList) r r cells #[] := by
      refine ⟨Nat.le_refl _, hr15, hin, ?_, ?_⟩
      · intro y yv yr
        rw [← yr]
        exact (full_self _ y yv).symm
      · intro y
        constructor
        · intro hy; simp at hy
        · rintro ⟨hm, hlt⟩; have := hm.1.2.1; omega
    rw [c0r] at h
    by_cases hr0 : (r == 0) = true
    · simp only [hr0, if_true, Except.ok.injEq] at h
      subst h
      have hr0' : r = 0 := by simpa using hr0
      subst hr0'
      have := I.final_zero x
      simp only [Array.toList_empty, List.not_mem_nil, false_or] at this
      exact this
    · simp only [hr0, Bool.false_eq_true, if_false] at h
      cases hal : ({} : AState).alloc sched (cells.size * 8) with
      | mk oc a1 =>
        rw [hal] at h
        cases oc with
        | none => simp at h
        | some rb =>
          simp only [] at h
          cases hal2 : a1.alloc sched (cells.size * 8) with
          | mk oc2 a2 =>
            rw [hal2] at h
            cases oc2 with
            | none => simp at h
            | some hb =>
              simp only [] at h
              exact rounds_spec sched _ r cells.size rb hb 17 r cells #[] a2 out I (Or.inr (by omega)) (Nat.le_refl _) h x

end H3.C06R
