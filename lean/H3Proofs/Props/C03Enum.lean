/-
C03 — complete enumeration per resolution: the children of the 122 base cells number exactly
2 + 120·7^r, which is what getNumCells reports (model: `cellsEnumS`, H3Model/HierSpec.lean; the
loop-faithful iterator model `cellsEnum` and the C iterator are compared by the `countall` stream).
-/
import H3Proofs.Props.C04Children
import H3Proofs.Props.C03

namespace H3.C03E
open H3 H3.Rank H3.C04C

/-- the 122 res-0 cells: non-null, resolution 0, pentagon exactly for the pentagon base cells -/
theorem base_cells : ∀ bc : Fin 122,
    setH3Index 0 bc.val 0 ≠ 0#64 ∧ getRes (setH3Index 0 bc.val 0) = 0 ∧
    isPentagon (setH3Index 0 bc.val 0) = isBaseCellPentagon bc.val ∧ getBaseCell (setH3Index 0 bc.val 0) = bc.val := by
  decide +kernel

theorem sum_sizes : ∀ r : Fin 16,
    ((List.range 122).map (fun bc => if isBaseCellPentagon bc then pentCount r.val else (7 : Int) ^ r.val)).sum =
      2 + 120 * 7 ^ r.val := by
  decide +kernel

theorem length_flatMap_int {α β : Type} (l : List α) (f : α → List β) :
    (((l.flatMap f).length : Nat) : Int) = (l.map (fun a => ((f a).length : Int))).sum := by
  induction l with
  | nil => simp
  | cons a t ih =>
    rw [List.flatMap_cons, List.length_append, List.map_cons, List.sum_cons, ← ih]
    push_cast; rfl

/-- **C03: at every resolution r ≤ 15 the enumeration has exactly 2 + 120·7^r cells = getNumCells r** -/
theorem cells_enum_length (r : Nat) (hr : r ≤ 15) :
    ((cellsEnumS r).length : Int) = 2 + 120 * 7 ^ r ∧ getNumCells r = .ok ((cellsEnumS r).length : Int) := by
  have hlen : ((cellsEnumS r).length : Int) = 2 + 120 * 7 ^ r := by
    unfold cellsEnumS
    rw [length_flatMap_int]
    have : (List.range 122).map (fun bc => ((cellToChildrenS (setH3Index 0 bc 0) (r : Int)).length : Int)) =
        (List.range 122).map (fun bc => if isBaseCellPentagon bc then pentCount r else (7 : Int) ^ r) := by
      apply List.map_congr_left
      intro bc hbc
      have hbc' : bc < 122 := by simpa using hbc
      obtain ⟨b0, b1, b2, _⟩ := base_cells ⟨bc, hbc'⟩
      simp only [] at b0 b1 b2
      have hl := length_children (setH3Index 0 bc 0) r b0 (by rw [b1]; omega) hr
      rw [H3.C13.size_of _ r (by rw [b1]; omega) hr, b1, b2] at hl
      simp only [Nat.sub_zero, Except.ok.injEq] at hl
      exact hl.symm
    rw [this]
    exact sum_sizes ⟨r, by omega⟩
  refine ⟨hlen, ?_⟩
  rw [hlen]
  have := H3.C03.getNumCells_formula ⟨r, by omega⟩
  simpa using this

/-- every enumerated cell has the requested resolution and descends from a res-0 cell of the list -/
theorem cells_enum_res (r : Nat) (hr : r ≤ 15) (x : BitVec 64) (hx : x ∈ cellsEnumS r) : getRes x = r := by
  unfold cellsEnumS at hx
  simp only [List.mem_flatMap, List.mem_range] at hx
  obtain ⟨bc, hbc, hmem⟩ := hx
  obtain ⟨b0, b1, _, _⟩ := base_cells ⟨bc, hbc⟩
  simp only [] at b0 b1
  obtain ⟨i, hi, rfl⟩ := List.getElem_of_mem hmem
  have hn : H3.C13.ParentNormal (setH3Index 0 bc 0) r := by
    intro q h1 h2
    have : ∀ b : Fin 122, ∀ q : Fin 16, 0 < q.val → getDigit (setH3Index 0 b.val 0) q.val = 7 := by decide +kernel
    exact this ⟨bc, hbc⟩ ⟨q, by omega⟩ (by rw [b1] at h1; exact h1)
  exact (children_props (setH3Index 0 bc 0) r b0 (by rw [b1]; omega) hr hn i hi).1

end H3.C03E
