/-
C05 — refinement of the array-faithful safe disk (`diskInternal`, H3Model/Disk.lean: open addressing
with `origin % maxIdx` and linear probing in the caller's `out` / `distances` buffers — the model that is
compared slot by slot with `_gridDiskDistancesInternal`) to the association-list algorithm `visitL`
about which the breadth-first-search theorem `visitL_is_bfs` is proved.  Partial correctness: whenever
`diskInternal` returns successfully, its buffers represent exactly the map computed by `visitL` over
the model's neighbour function.  Consequently a successful gridDiskDistancesSafe holds every cell
within k steps exactly once, with its exact step count, and nothing else.
-/
import H3Model.DiskSpec
import H3Proofs.Props.C05Bfs
import H3Proofs.Props.C04

namespace H3.C05A
open H3 H3.Bfs

def oslot (st : DiskSt) (s : Nat) : BitVec 64 := st.out.getD s 0#64
def dslot (st : DiskSt) (s : Nat) : Int := st.dist.getD s 0

def pr (n home k : Nat) : Nat := (home + k) % n

theorem pr_succ (n home k : Nat) : (pr n home k + 1) % n = pr n home (k + 1) := by
  unfold pr
  rw [Nat.add_mod, Nat.mod_mod, ← Nat.add_mod]
  congr 1

theorem pr_lt (n home k : Nat) (hn : 0 < n) : pr n home k < n := Nat.mod_lt _ hn

theorem pr_sub (n home k : Nat) (hk : n ≤ k) : pr n home (k - n) = pr n home k := by
  unfold pr
  have : home + k = home + (k - n) + n := by omega
  rw [this, Nat.add_mod_right]

/-- the buffers represent the association list `m` -/
structure Rep (st : DiskSt) (n : Nat) (m : List (BitVec 64 × Nat)) : Prop where
  osize : st.out.size = n
  dsize : st.dist.size = n
  entry : ∀ s, s < n → oslot st s ≠ 0#64 → 0 ≤ dslot st s ∧ alookup m (oslot st s) = some (dslot st s).toNat
  present : ∀ v d, alookup m v = some d → v ≠ 0#64 ∧ ∃ j, j < n ∧ oslot st (pr n (v.toNat % n) j) = v ∧
    dslot st (pr n (v.toNat % n) j) = (d : Int) ∧ ∀ i, i < j → oslot st (pr n (v.toNat % n) i) ≠ 0#64
  unique : ∀ s t, s < n → t < n → oslot st s ≠ 0#64 → oslot st s = oslot st t → s = t

theorem getD_set64 (a : Array (BitVec 64)) (i : Nat) (v : BitVec 64) (hi : i < a.size) (j : Nat) :
    (a.setIfInBounds i v).getD j 0#64 = if j = i then v else a.getD j 0#64 := by
  rw [Array.getD_eq_getD_getElem?, Array.getD_eq_getD_getElem?, Array.getElem?_setIfInBounds]
  by_cases e : j = i
  · subst e; simp [hi]
  · have : ¬ i = j := fun h => e h.symm
    simp [e, this]

theorem getD_setInt (a : Array Int) (i : Nat) (v : Int) (hi : i < a.size) (j : Nat) :
    (a.setIfInBounds i v).getD j 0 = if j = i then v else a.getD j 0 := by
  rw [Array.getD_eq_getD_getElem?, Array.getD_eq_getD_getElem?, Array.getElem?_setIfInBounds]
  by_cases e : j = i
  · subst e; simp [hi]
  · have : ¬ i = j := fun h => e h.symm
    simp [e, this]

/-- the probing loop: it stops at the first slot that is empty or holds the origin -/
theorem probe_spec (out : Array (BitVec 64)) (v : BitVec 64) (n : Nat) (hn : 0 < n) :
    ∀ (fuel j off : Nat), probe out v n (pr n (v.toNat % n) j) fuel = some off →
      ∃ j', j ≤ j' ∧ off = pr n (v.toNat % n) j' ∧
        (out.getD off 0#64 = 0#64 ∨ out.getD off 0#64 = v) ∧
        ∀ i, j ≤ i → i < j' → out.getD (pr n (v.toNat % n) i) 0#64 ≠ 0#64 ∧ out.getD (pr n (v.toNat % n) i) 0#64 ≠ v := by
  intro fuel
  induction fuel with
  | zero => intro j off h; simp [probe] at h
  | succ fuel ih =>
    intro j off h
    unfold probe at h
    simp only [] at h
    by_cases hc : (out.getD (pr n (v.toNat % n) j) 0#64 != 0#64 && out.getD (pr n (v.toNat % n) j) 0#64 != v) = true
    · simp only [hc, if_true] at h
      rw [pr_succ] at h
      obtain ⟨j', hj, ho, hv, hmiss⟩ := ih (j + 1) off h
      refine ⟨j', by omega, ho, hv, ?_⟩
      intro i hi hi'
      by_cases e : i = j
      · subst e
        simp only [Bool.and_eq_true, bne_iff_ne, ne_eq] at hc
        exact hc
      · exact hmiss i (by omega) hi'
    · simp only [hc, Bool.false_eq_true, if_false, Option.some.injEq] at h
      subst h
      refine ⟨j, Nat.le_refl _, rfl, ?_, fun i h1 h2 => by omega⟩
      simp only [Bool.and_eq_true, bne_iff_ne, ne_eq, not_and, Decidable.not_not] at hc
      by_cases z : out.getD (pr n (v.toNat % n) j) 0#64 = 0#64
      · exact Or.inl z
      · exact Or.inr (hc z)


/-- writing `(v, c)` into slot `off` (either empty, or already holding `v`) represents `(v, c) :: m` -/
theorem rep_write (st : DiskSt) (n : Nat) (hn : 0 < n) (m : List (BitVec 64 × Nat)) (R : Rep st n m)
    (v : BitVec 64) (hv : v ≠ 0#64) (c : Nat) (j : Nat)
    (hslot : oslot st (pr n (v.toNat % n) j) = 0#64 ∨ oslot st (pr n (v.toNat % n) j) = v)
    (hmiss : ∀ i, i < j → oslot st (pr n (v.toNat % n) i) ≠ 0#64 ∧ oslot st (pr n (v.toNat % n) i) ≠ v) :
    Rep { out := st.out.setIfInBounds (pr n (v.toNat % n) j) v,
          dist := st.dist.setIfInBounds (pr n (v.toNat % n) j) (c : Int) } n ((v, c) :: m) := by
  have hoff : pr n (v.toNat % n) j < n := pr_lt _ _ _ hn
  have ho : pr n (v.toNat % n) j < st.out.size := by rw [R.osize]; exact hoff
  have hd : pr n (v.toNat % n) j < st.dist.size := by rw [R.dsize]; exact hoff
  have hjn : j < n := by
    by_cases h : j < n
    · exact h
    · exfalso
      have := hmiss (j - n) (by omega)
      rw [pr_sub _ _ _ (by omega)] at this
      rcases hslot with h0 | hv'
      · exact this.1 h0
      · exact this.2 hv'
  -- slots of the new state
  have os : ∀ s, oslot ⟨st.out.setIfInBounds (pr n (v.toNat % n) j) v, st.dist.setIfInBounds (pr n (v.toNat % n) j) (c : Int)⟩ s =
      if s = pr n (v.toNat % n) j then v else oslot st s := fun s => getD_set64 st.out _ v ho s
  have ds : ∀ s, dslot ⟨st.out.setIfInBounds (pr n (v.toNat % n) j) v, st.dist.setIfInBounds (pr n (v.toNat % n) j) (c : Int)⟩ s =
      if s = pr n (v.toNat % n) j then (c : Int) else dslot st s := fun s => getD_setInt st.dist _ _ hd s
  -- no other slot holds v
  have hother : ∀ s, s < n → s ≠ pr n (v.toNat % n) j → oslot st s ≠ v := by
    intro s hs hne hsv
    rcases hslot with h0 | hv'
    · -- v is not in the map: its slot would have been found before the empty slot
      obtain ⟨_, hl⟩ := R.entry s hs (by rw [hsv]; exact hv)
      rw [hsv] at hl
      obtain ⟨_, j0, hj0, e0, _, ch⟩ := R.present v _ hl
      rcases Nat.lt_trichotomy j0 j with a | a | a
      · exact (hmiss j0 a).2 e0
      · rw [a] at e0; rw [e0] at h0; exact hv h0
      · exact ch j a h0
    · exact hne (R.unique s _ hs hoff (by rw [hsv]; exact hv) (by rw [hsv, hv']))
  refine ⟨by simp [R.osize], by simp [R.dsize], ?_, ?_, ?_⟩
  · intro s hs h0
    rw [os s] at h0 ⊢
    rw [ds s]
    by_cases e : s = pr n (v.toNat % n) j
    · simp only [e, if_true]
      exact ⟨by omega, by simp [alookup]⟩
    · simp only [e, if_false] at h0 ⊢
      obtain ⟨a, b⟩ := R.entry s hs h0
      refine ⟨a, ?_⟩
      rw [alookup_cons]
      have : ¬ v = oslot st s := fun h => hother s hs e h.symm
      simp only [this, if_false]; exact b
  · intro u d hl
    rw [alookup_cons] at hl
    by_cases e : v = u
    · subst e
      simp only [if_true, Option.some.injEq] at hl
      subst hl
      refine ⟨hv, j, hjn, ?_, ?_, ?_⟩
      · rw [os]; simp
      · rw [ds]; simp
      · intro i hi
        rw [os]
        split
        · exact hv
        · exact (hmiss i hi).1
    · simp only [e, if_false] at hl
      obtain ⟨hu, j0, hj0, e0, d0, ch⟩ := R.present u d hl
      refine ⟨hu, j0, hj0, ?_, ?_, ?_⟩
      · rw [os]
        split
        · next es =>
          -- the slot of u is the slot being written: it held 0 or v, but it holds u ≠ 0, u ≠ v
          rw [es] at e0
          rcases hslot with h0 | hv'
          · rw [h0] at e0; exact absurd e0.symm hu
          · rw [hv'] at e0; exact absurd e0 e
        · exact e0
      · rw [ds]
        split
        · next es =>
          rw [es] at e0
          rcases hslot with h0 | hv'
          · rw [h0] at e0; exact absurd e0.symm hu
          · rw [hv'] at e0; exact absurd e0 e
        · exact d0
      · intro i hi
        rw [os]
        split
        · exact hv
        · exact ch i hi
  · intro s t hs ht h0 he
    rw [os s] at h0 he
    rw [os t] at he
    by_cases es : s = pr n (v.toNat % n) j <;> by_cases et : t = pr n (v.toNat % n) j
    · rw [es, et]
    · simp only [es, if_true, et, if_false] at he
      exact absurd he.symm (hother t ht et)
    · simp only [es, if_false, et, if_true] at he
      exact absurd he (hother s hs es)
    · simp only [es, et, if_false] at he h0
      exact R.unique s t hs ht h0 he


/-- neighbour in `DIRECTIONS[i]`, as `cellNeighbors` sees it -/
def nbrAt (v : BitVec 64) (i : Nat) : Option (BitVec 64) :=
  match h3NeighborRotations v (DIRECTIONS i) 0 with
  | .ok (n, _) => some n
  | .error _ => none

theorem cellNeighbors_eq (v : BitVec 64) : cellNeighbors v = (List.range 6).filterMap (nbrAt v) := rfl

/-- the loop over the six directions -/
theorem fold_refines (Q : BitVec 64 → Prop) (k n : Nat) (fuel c : Nat) (v : BitVec 64)
    (NZ : ∀ i nx, nbrAt v i = some nx → Q nx)
    (ih : ∀ (u : BitVec 64) (st st' : DiskSt) (m : List (BitVec 64 × Nat)), Rep st n m → Q u →
      diskInternal (k : Int) n fuel u ((c + 1 : Nat) : Int) st = .ok st' →
      Rep st' n (visitL cellNeighbors k fuel u (c + 1) m)) :
    ∀ (is : List Nat) (st st' : DiskSt) (m : List (BitVec 64 × Nat)), Rep st n m →
      is.foldlM (init := st) (fun st i =>
        match h3NeighborRotations v (DIRECTIONS i) 0 with
        | .error .pentagon => Except.ok st
        | .error e => Except.error e
        | .ok (next, _) => diskInternal (k : Int) n fuel next ((c : Int) + 1) st) = .ok st' →
      Rep st' n ((is.filterMap (nbrAt v)).foldl (fun m u => visitL cellNeighbors k fuel u (c + 1) m) m) := by
  intro is
  induction is with
  | nil =>
    intro st st' m R h
    simp only [List.foldlM_nil, pure, Except.pure, Except.ok.injEq] at h
    subst h; exact R
  | cons i rest ihr =>
    intro st st' m R h
    simp only [List.foldlM_cons, bind, Except.bind] at h
    cases hnb : h3NeighborRotations v (DIRECTIONS i) 0 with
    | error e =>
      rw [hnb] at h
      have hna : nbrAt v i = none := by unfold nbrAt; rw [hnb]
      simp only [List.filterMap_cons, hna]
      cases e <;> simp only [] at h <;> first | exact ihr st st' m R h | (simp at h)
    | ok pr' =>
      obtain ⟨next, rot⟩ := pr'
      rw [hnb] at h
      simp only [] at h
      have hna : nbrAt v i = some next := by unfold nbrAt; rw [hnb]
      simp only [List.filterMap_cons, hna, List.foldl_cons]
      have hcast : ((c : Int) + 1) = ((c + 1 : Nat) : Int) := by push_cast; rfl
      rw [hcast] at h
      cases hd : diskInternal (k : Int) n fuel next ((c + 1 : Nat) : Int) st with
      | error e => rw [hd] at h; simp at h
      | ok st1 =>
        rw [hd] at h
        simp only [] at h
        exact ihr st1 st' _ (ih next st st1 m R (NZ i next hna) hd) h

/-- **the array algorithm computes the association-list algorithm** (whenever it returns) -/
theorem disk_refines (Q : BitVec 64 → Prop) (k n : Nat) (hn : 0 < n)
    (Q0 : ∀ v, Q v → v ≠ 0#64)
    (NZ : ∀ (v : BitVec 64) i nx, Q v → nbrAt v i = some nx → Q nx) :
    ∀ (fuel : Nat) (v : BitVec 64) (c : Nat) (st st' : DiskSt) (m : List (BitVec 64 × Nat)), Rep st n m → Q v →
      diskInternal (k : Int) n fuel v (c : Int) st = .ok st' →
      Rep st' n (visitL cellNeighbors k fuel v c m) := by
  intro fuel
  induction fuel with
  | zero =>
    intro v c st st' m R _ h
    simp only [diskInternal, Except.ok.injEq] at h
    subst h; exact R
  | succ fuel ih =>
    intro v c st st' m R hQ h
    have hv := Q0 v hQ
    unfold diskInternal at h
    have hhome : v.toNat % n = pr n (v.toNat % n) 0 := by unfold pr; simp [Nat.mod_mod]
    cases hp : probe st.out v n (v.toNat % n) (n + 1) with
    | none => rw [hp] at h; simp at h
    | some off =>
      rw [hp] at h
      simp only [] at h
      rw [hhome] at hp
      obtain ⟨j, _, hoff, hslot, hmiss⟩ := probe_spec st.out v n hn (n + 1) 0 off hp
      subst hoff
      have hslot' : oslot st (pr n (v.toNat % n) j) = 0#64 ∨ oslot st (pr n (v.toNat % n) j) = v := hslot
      have hmiss' : ∀ i, i < j → oslot st (pr n (v.toNat % n) i) ≠ 0#64 ∧ oslot st (pr n (v.toNat % n) i) ≠ v :=
        fun i hi => hmiss i (Nat.zero_le _) hi
      have hoffn : pr n (v.toNat % n) j < n := pr_lt _ _ _ hn
      unfold visitL
      -- is v already there at least as cheaply?
      have hseen : (st.out.getD (pr n (v.toNat % n) j) 0#64 == v && decide (st.dist.getD (pr n (v.toNat % n) j) 0 ≤ (c : Int))) =
          seenLE m v c := by
        unfold seenLE
        rcases hslot' with h0 | hvv
        · -- empty slot: v is not in the map
          have hnone : alookup m v = none := by
            cases hl : alookup m v with
            | none => rfl
            | some d =>
              exfalso
              obtain ⟨_, j0, _, e0, _, ch⟩ := R.present v d hl
              rcases Nat.lt_trichotomy j0 j with a | a | a
              · exact (hmiss' j0 a).2 e0
              · rw [a] at e0; rw [e0] at h0; exact hv h0
              · exact ch j a h0
          have : st.out.getD (pr n (v.toNat % n) j) 0#64 = 0#64 := h0
          rw [this, hnone]
          have : (0#64 == v) = false := by simpa using fun e => hv e.symm
          simp [this]
        · obtain ⟨dpos, hl⟩ := R.entry _ hoffn (by rw [hvv]; exact hv)
          rw [hvv] at hl
          have : st.out.getD (pr n (v.toNat % n) j) 0#64 = v := hvv
          rw [this, hl]
          simp only [beq_self_eq_true, Bool.true_and]
          have hd : st.dist.getD (pr n (v.toNat % n) j) 0 = dslot st (pr n (v.toNat % n) j) := rfl
          rw [hd]
          by_cases hle : dslot st (pr n (v.toNat % n) j) ≤ (c : Int)
          · have : (dslot st (pr n (v.toNat % n) j)).toNat ≤ c := by omega
            simp [hle, this]
          · have : ¬ (dslot st (pr n (v.toNat % n) j)).toNat ≤ c := by omega
            simp [hle, this]
      have hcond : (st.out.getD (pr n (v.toNat % n) j) 0#64 == v && st.dist.getD (pr n (v.toNat % n) j) 0 <= (c : Int)) =
          seenLE m v c := by
        rw [← hseen]
      rw [hcond] at h
      by_cases hs : seenLE m v c = true
      · simp only [hs, if_true, Except.ok.injEq] at h ⊢
        subst h; exact R
      · simp only [hs, Bool.false_eq_true, if_false] at h ⊢
        have R1 := rep_write st n hn m R v hv c j hslot' hmiss'
        by_cases hck : c ≥ k
        · have : ((c : Int) ≥ (k : Int)) := by omega
          simp only [this, if_true, Except.ok.injEq] at h
          subst h
          simp only [hck, if_true]
          exact R1
        · have : ¬ ((c : Int) ≥ (k : Int)) := by omega
          simp only [this, if_false] at h
          simp only [hck, if_false]
          rw [cellNeighbors_eq]
          exact fold_refines Q k n fuel c v (fun i nx => NZ v i nx hQ) (fun u s s' m' Rm hu hd => ih u (c + 1) s s' m' Rm hu hd)
            (List.range 6) _ st' _ R1 h


theorem rep_zero (n : Nat) : Rep ⟨Array.replicate n 0#64, Array.replicate n 0⟩ n [] := by
  have hz : ∀ s, oslot ⟨Array.replicate n 0#64, Array.replicate n 0⟩ s = 0#64 := by
    intro s; unfold oslot
    rw [Array.getD_eq_getD_getElem?]
    by_cases hs : s < n
    · simp [hs]
    · simp [hs]
  exact ⟨by simp, by simp, fun s _ h => absurd (hz s) h, fun v d h => by simp [alookup] at h,
    fun s t _ _ h => absurd (hz s) h⟩

theorem numCells15 : getNumCells 15 = .ok 569707381193162 := by decide +kernel

theorem maxGridDiskSize_pos (k : Nat) (m : Int) (h : maxGridDiskSize (k : Int) = .ok m) : 0 < m := by
  unfold maxGridDiskSize at h
  have hk : ¬ ((k : Int) < 0) := by omega
  simp only [hk, if_false] at h
  split at h
  · rw [numCells15] at h
    simp only [Except.ok.injEq] at h
    omega
  · simp only [Except.ok.injEq] at h
    rw [← h]
    have h1 : (0 : Int) ≤ 3 * (k : Int) * ((k : Int) + 1) :=
      Int.mul_nonneg (Int.mul_nonneg (by omega) (by omega)) (by omega)
    omega

/-- **C05: a successful gridDiskDistancesSafe is breadth-first search.**  In the buffers it returns,
every non-empty slot holds a cell together with its exact distance (length of a shortest walk, at
most k) from the origin in the model's neighbour graph; every cell within k steps occupies exactly
one slot; nothing else is written. -/
theorem gridDiskDistancesSafe_bfs_of (Q : BitVec 64 → Prop) (origin : BitVec 64) (k : Nat) (ho : Q origin)
    (Q0 : ∀ v, Q v → v ≠ 0#64)
    (NZ : ∀ (v : BitVec 64) i nx, Q v → nbrAt v i = some nx → Q nx)
    (out : Array (BitVec 64)) (dist : Array Int) (h : gridDiskDistancesSafe origin (k : Int) = .ok (out, dist)) :
    ∃ n : Nat, maxGridDiskSize (k : Int) = .ok (n : Int) ∧ out.size = n ∧ dist.size = n ∧
    (∀ s, s < n → out.getD s 0#64 ≠ 0#64 →
      0 ≤ dist.getD s 0 ∧ (dist.getD s 0).toNat ≤ k ∧
      Walk cellNeighbors (dist.getD s 0).toNat origin (out.getD s 0#64) ∧
      ∀ d', d' < (dist.getD s 0).toNat → ¬ Walk cellNeighbors d' origin (out.getD s 0#64)) ∧
    (∀ v d, Walk cellNeighbors d origin v → d ≤ k → (∀ d', d' < d → ¬ Walk cellNeighbors d' origin v) →
      ∃ s, s < n ∧ out.getD s 0#64 = v ∧ dist.getD s 0 = (d : Int) ∧
        ∀ t, t < n → out.getD t 0#64 = v → t = s) := by
  unfold gridDiskDistancesSafe at h
  cases hm : maxGridDiskSize (k : Int) with
  | error e => rw [hm] at h; simp at h
  | ok m =>
    rw [hm] at h
    simp only [] at h
    have hmpos := maxGridDiskSize_pos k m hm
    cases hd : diskInternal (k : Int) m.toNat ((k : Int).toNat + 1) origin 0
        ⟨Array.replicate m.toNat 0#64, Array.replicate m.toNat 0⟩ with
    | error e => rw [hd] at h; simp at h
    | ok st =>
      rw [hd] at h
      simp only [Except.ok.injEq, Prod.mk.injEq] at h
      obtain ⟨rfl, rfl⟩ := h
      have hk : (k : Int).toNat = k := by omega
      rw [hk] at hd
      have hn : 0 < m.toNat := by omega
      have R := disk_refines Q k m.toNat hn Q0 NZ (k + 1) origin 0 _ st [] (rep_zero m.toNat) ho (by simpa using hd)
      refine ⟨m.toNat, by congr 1; omega, R.osize, R.dsize, ?_, ?_⟩
      · intro s hs hnz
        obtain ⟨dpos, hl⟩ := R.entry s hs hnz
        obtain ⟨w, dk, hmin⟩ := (visitL_is_bfs cellNeighbors k origin _ _).mp hl
        exact ⟨dpos, dk, w, hmin⟩
      · intro v d hw hdk hmin
        have hl := (visitL_is_bfs cellNeighbors k origin v d).mpr ⟨hw, hdk, hmin⟩
        obtain ⟨hv, j, hj, e0, d0, _⟩ := R.present v d hl
        refine ⟨pr m.toNat (v.toNat % m.toNat) j, pr_lt _ _ _ hn, e0, d0, ?_⟩
        intro t ht hto
        exact R.unique t _ ht (pr_lt _ _ _ hn) (by show oslot st t ≠ 0#64; unfold oslot; rw [hto]; exact hv)
          (by show oslot st t = oslot st _; unfold oslot at e0 ⊢; rw [hto, e0])

end H3.C05A
