/-
C03 — complete enumeration per resolution: closed-form counts (model: Disk.lean getNumCells,
Index.lean; tables regenerated from baseCells.c).
-/
import H3Model.Disk

namespace H3.C03
open H3

/-- **getNumCells r = 2 + 120·7^r for every resolution 0..15, E_RES_DOMAIN otherwise.** -/
theorem getNumCells_formula : ∀ r : Fin 16, getNumCells r.val = .ok (2 + 120 * 7 ^ r.val) := by decide +kernel

theorem getNumCells_resDomain (r : Int) (h : r < 0 ∨ r > 15) : getNumCells r = .error .resDomain := by
  unfold getNumCells
  have : (decide (r < 0) || decide (r > 15)) = true := by rcases h with h | h <;> simp [h]
  simp [this]

/-- the count fits in int64 -/
theorem getNumCells_no_overflow : ∀ r : Fin 16, (2 + 120 * 7 ^ r.val : Int) < 2 ^ 63 := by decide +kernel

/-- **exactly twelve base cells are pentagons** (regenerated table), and there are 122 base cells -/
theorem twelve_pentagon_base_cells :
    ((List.range 122).filter isBaseCellPentagon).length = 12 ∧ H3.Gen.baseCellData.length = 122 := by
  decide +kernel

/-- the pentagon base cells are the documented ones -/
theorem pentagon_base_cells :
    (List.range 128).filter isBaseCellPentagon = [4, 14, 24, 38, 49, 58, 63, 72, 83, 97, 107, 117] := by
  decide +kernel

/-- 2 + 120·7^r = 110 hexagon base cells × 7^r + 12 pentagon base cells × (1 + 5(7^r − 1)/6):
the per-base-cell child counts of C04 sum to the global count. -/
theorem count_decomposition : ∀ r : Fin 16,
    (2 + 120 * 7 ^ r.val : Int) = 110 * 7 ^ r.val + 12 * (1 + 5 * (7 ^ r.val - 1) / 6) := by decide +kernel

end H3.C03
