/-
Translation validation of `_h3LeadingNonZeroDigit` (the function behind `isPentagon` and all pentagon
special cases): the C text, translated by tools/c2lean.py with its `for` loop unrolled sixteen times,
(1) never runs out of unrollings and has no undefined shift on any input, and (2) equals the model's
`leadingNonZeroDigit` — for all 2^64 index values.
-/
import H3Proofs.Lemmas.Bits
import Std.Tactic.BVDecide

namespace H3.C01L
open H3 H3.Bits H3.Gen.Bits

/-- the unrolled loop never exhausts its sixteen copies and every shift amount is in range -/
theorem h3LeadingNonZeroDigit_defined_all (h : BitVec 64) : h3LeadingNonZeroDigit_defined h = true := by
  simp only [h3LeadingNonZeroDigit_defined]
  bv_decide

/-- guard-style specification at the bit level: the first position r ≤ res with a non-zero digit -/
def lnzFrom (h : BitVec 64) : List (BitVec 32) → BitVec 32
  | [] => 0#32
  | r :: rs => if BitVec.ule r (m_get_resolution h) && m_get_digit h r != 0#32 then m_get_digit h r else lnzFrom h rs

def lits : List (BitVec 32) := [1#32, 2#32, 3#32, 4#32, 5#32, 6#32, 7#32, 8#32, 9#32, 10#32, 11#32, 12#32, 13#32, 14#32, 15#32]

theorem gen_eq_lnzFrom (h : BitVec 64) : h3LeadingNonZeroDigit h = lnzFrom h lits := by
  simp only [h3LeadingNonZeroDigit, lnzFrom, lits, m_get_resolution, m_get_digit]
  bv_decide


/-! ### the bit-level guard form is the model's fuel form -/

theorem lits_eq : lits = (List.range' 1 15).map (fun r => BitVec.ofNat 32 r) := by decide

/-- guard form over naturals -/
def gN (h : BitVec 64) : Nat → Nat → Nat
  | _, 0 => 0
  | r, f + 1 => if r ≤ getRes h ∧ getDigit h r ≠ 0 then getDigit h r else gN h (r + 1) f

theorem ule_ofNat (h : BitVec 64) (r : Nat) (hr : r < 16) :
    BitVec.ule (BitVec.ofNat 32 r) (m_get_resolution h) = decide (r ≤ getRes h) := by
  unfold getRes BitVec.ule
  have : r % 2 ^ 32 = r := Nat.mod_eq_of_lt (by omega)
  simp [BitVec.toNat_ofNat, this]

theorem digit_ne (h : BitVec 64) (r : Nat) :
    (m_get_digit h (BitVec.ofNat 32 r) != 0#32) = decide (getDigit h r ≠ 0) := by
  unfold getDigit
  by_cases e : m_get_digit h (BitVec.ofNat 32 r) = 0#32
  · simp [e]
  · have : (m_get_digit h (BitVec.ofNat 32 r)).toNat ≠ 0 := by
      intro h0; apply e; exact BitVec.eq_of_toNat_eq (by simpa using h0)
    simp [e, this]

theorem digit_ofNat (h : BitVec 64) (r : Nat) : m_get_digit h (BitVec.ofNat 32 r) = BitVec.ofNat 32 (getDigit h r) := by
  unfold getDigit
  simp

theorem lnzFrom_gN (h : BitVec 64) : ∀ (f r : Nat), r + f ≤ 16 →
    lnzFrom h ((List.range' r f).map (fun r => BitVec.ofNat 32 r)) = BitVec.ofNat 32 (gN h r f) := by
  intro f
  induction f with
  | zero => intro r _; rfl
  | succ f ih =>
    intro r hr
    rw [List.range'_succ, List.map_cons]
    simp only [lnzFrom, gN]
    rw [ule_ofNat h r (by omega), digit_ne h r, ih (r + 1) (by omega), digit_ofNat]
    by_cases c : r ≤ getRes h ∧ getDigit h r ≠ 0
    · simp [c.1, c.2]
    · have : (decide (r ≤ getRes h) && decide (getDigit h r ≠ 0)) = false := by
        simp only [Bool.and_eq_false_iff, decide_eq_false_iff_not]
        by_cases c1 : r ≤ getRes h
        · right; intro c2; exact c ⟨c1, c2⟩
        · left; exact c1
      simp only [this, Bool.false_eq_true, if_false, c]

/-- the guard form (levels r .. r+f−1, covering everything up to the resolution) is the fuel form -/
theorem gN_go (h : BitVec 64) : ∀ (f r : Nat), 1 ≤ r → getRes h + 1 ≤ r + f →
    gN h r f = leadingNonZeroDigit.go h r (getRes h + 1 - r) := by
  intro f
  induction f with
  | zero =>
    intro r _ hr
    have : getRes h + 1 - r = 0 := by omega
    rw [this]; rfl
  | succ f ih =>
    intro r h1 hr
    unfold gN
    by_cases c : r ≤ getRes h
    · have e : getRes h + 1 - r = (getRes h + 1 - (r + 1)) + 1 := by omega
      rw [e]
      unfold leadingNonZeroDigit.go
      by_cases d : getDigit h r = 0
      · have hn : ¬ (r ≤ getRes h ∧ getDigit h r ≠ 0) := fun x => x.2 d
        have d' : (getDigit h r != 0) = false := by simp [d]
        rw [if_neg hn, d']
        simp only [Bool.false_eq_true, if_false]
        exact ih (r + 1) (by omega) (by omega)
      · have hp : r ≤ getRes h ∧ getDigit h r ≠ 0 := ⟨c, d⟩
        have d' : (getDigit h r != 0) = true := by simpa using d
        rw [if_pos hp, d']
        simp only [if_true]
    · have : ¬ (r ≤ getRes h ∧ getDigit h r ≠ 0) := fun x => c x.1
      simp only [this, if_false]
      rw [ih (r + 1) (by omega) (by omega)]
      have e1 : getRes h + 1 - (r + 1) = 0 := by omega
      have e2 : getRes h + 1 - r = 0 := by omega
      rw [e1, e2]
      simp [leadingNonZeroDigit.go]

/-- **the C function `_h3LeadingNonZeroDigit` (translated from the source on every run) computes the
model's `leadingNonZeroDigit`, for all 2^64 index values** -/
theorem h3LeadingNonZeroDigit_eq_model (h : BitVec 64) :
    h3LeadingNonZeroDigit h = BitVec.ofNat 32 (leadingNonZeroDigit h) := by
  rw [gen_eq_lnzFrom, lits_eq, lnzFrom_gN h 15 1 (by omega)]
  have hr := getRes_lt h
  rw [gN_go h 15 1 (by omega) (by omega)]
  unfold leadingNonZeroDigit
  simp

end H3.C01L
