/-
C11 / C10 — all 192 pentagons (12 base cells × 16 resolutions), decided in the kernel over the regenerated
tables (complete enumeration of a finite quantifier): `cellToVertexes` of a pentagon yields five pairwise
distinct vertex indexes accepted by `isValidVertex` and a null sixth slot, `cellToVertex p 5` is E_DOMAIN;
`originToDirectedEdges` of a pentagon yields a null first slot and five pairwise distinct edges accepted by
`isValidDirectedEdge`, each decoding back to the pentagon.
-/
import H3Proofs.Props.C19Pent
import H3Model.EdgeVertex

namespace H3.C11P
open H3 H3.Bits

def pentVertsOK (res : Nat) : Bool :=
  ((List.range 122).filter isBaseCellPentagon).all (fun bc =>
    let p := setH3Index res bc 0
    (match cellToVertexes p with
     | .ok vs => vs.length == 6 && vs.getD 5 1#64 == 0#64 && (vs.take 5).all (fun v => v != 0#64 && isValidVertex v) &&
         (vs.take 5).eraseDups.length == 5
     | .error _ => false) &&
    (match cellToVertex p 5 with | .error .domain => true | _ => false))

theorem all_pentagon_vertexes : ∀ res : Fin 16, pentVertsOK res.val = true := by decide +kernel

def pentEdgesOK (res : Nat) : Bool :=
  ((List.range 122).filter isBaseCellPentagon).all (fun bc =>
    let p := setH3Index res bc 0
    let es := originToDirectedEdges p
    es.length == 6 && es.getD 0 1#64 == 0#64 &&
    (es.drop 1).all (fun e => e != 0#64 && isValidDirectedEdge e && getDirectedEdgeOrigin e == .ok p) &&
    (es.drop 1).eraseDups.length == 5)

theorem all_pentagon_edges : ∀ res : Fin 16, pentEdgesOK res.val = true := by decide +kernel

/-- for any valid pentagon (by `pentagon_canonical` it is one of the 192 enumerated cells) -/
theorem pentagon_vertexes (h : BitVec 64) (hv : Valid.ValidN h) (hp : isPentagon h = true) :
    ∃ vs, cellToVertexes h = .ok vs ∧ vs.length = 6 ∧ vs.getD 5 1#64 = 0#64 ∧ (vs.take 5).eraseDups.length = 5 ∧
      ∀ v ∈ vs.take 5, v ≠ 0#64 ∧ isValidVertex v = true := by
  have hr := getRes_lt h
  have hbp : isBaseCellPentagon (getBaseCell h) = true := ((Hier.isPentagon_iff h).mp hp).1
  have key := all_pentagon_vertexes ⟨getRes h, hr⟩
  unfold pentVertsOK at key
  rw [List.all_eq_true] at key
  have hm : getBaseCell h ∈ (List.range 122).filter isBaseCellPentagon := by
    simp [List.mem_filter, hv.2.2.2.1, hbp]
  have := key (getBaseCell h) hm
  simp only [] at this
  rw [← C19P.pentagon_canonical h hv hp] at this
  cases hf : cellToVertexes h with
  | error e => rw [hf] at this; simp at this
  | ok vs =>
    rw [hf] at this
    simp only [Bool.and_eq_true, beq_iff_eq, List.all_eq_true, bne_iff_ne, ne_eq] at this
    exact ⟨vs, rfl, this.1.1.1.1, this.1.1.1.2, this.1.2, fun v hvm => this.1.1.2 v hvm⟩

end H3.C11P
