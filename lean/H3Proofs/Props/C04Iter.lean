/-
C04 / C03 — refinement: the loop-faithful model of the C child iterator (`iterInitParent`,
`iterStepChild` with its `_skipDigit` state and the carry loop over `_incrementResDigit`,
H3Model/Index.lean — the model that is compared with the real iterator on every run) produces, for
EVERY 64-bit parent and every child resolution, exactly the specification-level enumeration
`cellToChildrenS` about which the C04 theorems (count, order, partition, centre child) are proved.
Likewise `cellsEnum` (iterInitRes / iterStepRes) equals `cellsEnumS`.
-/
import H3Proofs.Lemmas.SuccStr
import H3Proofs.Props.C04Center

namespace H3.C04I
open H3 H3.Bits H3.Hier H3.Succ H3.Gen.Bits H3.C04C

/-! ### `_incrementResDigit` at the bit level (all 2^64 indexes, symbolic position) -/

theorem incr_no7_bv (h : BitVec 64) (r : BitVec 32)
    (hr : BitVec.ule 1#32 r = true ∧ BitVec.ule r 15#32 = true) (hd : (m_get_digit h r == 7#32) = false) :
    h + (1#64 <<< ((15#32 - r) * 3#32)) = m_set_digit h r (m_get_digit h r + 1#32) := by
  simp only [m_get_digit, m_set_digit] at *
  bv_decide

theorem incr_7_bv (h : BitVec 64) (r : BitVec 32)
    (hr : BitVec.ule 2#32 r = true ∧ BitVec.ule r 15#32 = true) (hd : (m_get_digit h r == 7#32) = true)
    (hd' : (m_get_digit h (r - 1#32) == 7#32) = false) :
    h + (1#64 <<< ((15#32 - r) * 3#32)) =
      m_set_digit (m_set_digit h r 0#32) (r - 1#32) (m_get_digit h (r - 1#32) + 1#32) := by
  simp only [m_get_digit, m_set_digit] at *
  bv_decide

theorem shift_bridge (res : Nat) (h : res ≤ 15) :
    (1#64 <<< (3 * (15 - res))) = (1#64 <<< ((15#32 - BitVec.ofNat 32 res) * 3#32)) := by
  rw [BitVec.shiftLeft_eq']
  congr 1
  simp [BitVec.toNat_sub, BitVec.toNat_mul, BitVec.toNat_ofNat]
  omega

theorem digit_ne7 (h : BitVec 64) (r : Nat) (hd : getDigit h r ≠ 7) :
    (m_get_digit h (BitVec.ofNat 32 r) == 7#32) = false := by
  unfold getDigit at hd
  apply beq_false_of_ne
  intro e
  rw [e] at hd
  exact hd rfl

theorem ofNat_succ_digit (x : BitVec 32) : BitVec.ofNat 32 (x.toNat + 1) = x + 1#32 := by
  apply BitVec.eq_of_toNat_eq
  simp [BitVec.toNat_add, BitVec.toNat_ofNat]

/-- incrementing a digit that is not 7 -/
theorem incr_no7 (h : BitVec 64) (r : Nat) (h1 : 1 ≤ r) (h15 : r ≤ 15) (hd : getDigit h r ≠ 7) :
    incrementResDigit h r = setDigit h r (getDigit h r + 1) := by
  have hb := incr_no7_bv h (BitVec.ofNat 32 r) (ofNat_pos h1 h15) (digit_ne7 h r hd)
  unfold incrementResDigit setDigit getDigit
  rw [shift_bridge r h15, hb, ofNat_succ_digit]

theorem ofNat_pred (r : Nat) (h1 : 1 ≤ r) (h15 : r ≤ 15) :
    BitVec.ofNat 32 r - 1#32 = BitVec.ofNat 32 (r - 1) := by
  apply BitVec.eq_of_toNat_eq
  simp [BitVec.toNat_sub, BitVec.toNat_ofNat]
  omega

/-- incrementing a digit 7: it becomes 0 and the next coarser digit is incremented -/
theorem incr_7 (h : BitVec 64) (r : Nat) (h2 : 2 ≤ r) (h15 : r ≤ 15) (hd : getDigit h r = 7)
    (hd' : getDigit h (r - 1) ≠ 7) :
    incrementResDigit h r = setDigit (setDigit h r 0) (r - 1) (getDigit h (r - 1) + 1) := by
  have hr : BitVec.ule 2#32 (BitVec.ofNat 32 r) = true ∧ BitVec.ule (BitVec.ofNat 32 r) 15#32 = true := by
    constructor
    · rw [show (2#32 : BitVec 32) = BitVec.ofNat 32 2 from rfl, ule_ofNat _ _ (by omega) (by omega)]; simpa using h2
    · rw [show (15#32 : BitVec 32) = BitVec.ofNat 32 15 from rfl, ule_ofNat _ _ (by omega) (by omega)]; simpa using h15
  have e7 : (m_get_digit h (BitVec.ofNat 32 r) == 7#32) = true := by
    unfold getDigit at hd
    rw [beq_iff_eq]
    apply BitVec.eq_of_toNat_eq
    rw [hd]; rfl
  have e7' : (m_get_digit h (BitVec.ofNat 32 r - 1#32) == 7#32) = false := by
    rw [ofNat_pred r (by omega) h15]; exact digit_ne7 h (r - 1) hd'
  have hb := incr_7_bv h (BitVec.ofNat 32 r) hr e7 e7'
  unfold incrementResDigit setDigit getDigit
  rw [shift_bridge r h15, hb, ofNat_pred r (by omega) h15, ofNat_succ_digit]

/-! ### reading and updating digit strings written into an index -/

theorem getDigit_writeDigits (base : BitVec 64) (p : Nat) (s : List Nat) (hfit : p + s.length ≤ 15)
    (h8 : ∀ d ∈ s, d < 8) (r : Nat) (h1 : 1 ≤ r) (h15 : r ≤ 15) :
    getDigit (writeDigits base p s) r =
      if p < r ∧ r ≤ p + s.length then s.getD (r - p - 1) 0 else getDigit base r := by
  by_cases e : p < r ∧ r ≤ p + s.length
  · rw [if_pos e]
    have hb := digitsBetween_writeDigits s base p hfit h8
    have hj : r - p - 1 < (digitsBetween (writeDigits base p s) p s.length).length := by
      rw [digitsBetween_length]; omega
    have hg : (digitsBetween (writeDigits base p s) p s.length)[r - p - 1] =
        getDigit (writeDigits base p s) (p + 1 + (r - p - 1)) := by
      simp [digitsBetween, List.getElem_range']
    rw [show p + 1 + (r - p - 1) = r by omega] at hg
    rw [← hg, List.getElem_of_eq hb hj]
    have : r - p - 1 < s.length := by omega
    simp [List.getD_eq_getElem?_getD, this]
  · rw [if_neg e]
    exact (writeDigits_outside s base p hfit h8).2.2.2.2.2 r h1 h15 (by omega)

/-- an index with the header and outer digits of `base` and the digit string `s` at levels p+1… -/
theorem eq_writeDigits (x base : BitVec 64) (p : Nat) (s : List Nat) (hfit : p + s.length ≤ 15)
    (h8 : ∀ d ∈ s, d < 8)
    (hf : getHighBit x = getHighBit base ∧ getMode x = getMode base ∧ getReserved x = getReserved base ∧
      getRes x = getRes base ∧ getBaseCell x = getBaseCell base)
    (hd : ∀ r, 1 ≤ r → r ≤ 15 → getDigit x r =
      if p < r ∧ r ≤ p + s.length then s.getD (r - p - 1) 0 else getDigit base r) :
    x = writeDigits base p s := by
  obtain ⟨w1, w2, w3, w4, w5, _⟩ := writeDigits_outside s base p hfit h8
  obtain ⟨f1, f2, f3, f4, f5⟩ := hf
  apply Bits.ext
  · rw [f1, w5]
  · rw [f2, w3]
  · rw [f3, w4]
  · rw [f4, w1]
  · rw [f5, w2]
  · intro r a b
    rw [hd r a b, getDigit_writeDigits base p s hfit h8 r a b]

theorem getD_mid (pre : List Nat) (x : Nat) (suf : List Nat) : ∀ i,
    (pre ++ x :: suf).getD i 0 = if i = pre.length then x else
      if i < pre.length then pre.getD i 0 else suf.getD (i - pre.length - 1) 0 := by
  induction pre with
  | nil =>
    intro i
    cases i with
    | zero => simp
    | succ i => simp
  | cons y pre ih =>
    intro i
    cases i with
    | zero => simp
    | succ i =>
      simp only [List.cons_append, List.getD_cons_succ, ih i, List.length_cons]
      by_cases e : i = pre.length
      · simp [e]
      · by_cases e2 : i < pre.length
        · simp [e, e2]
        · simp [e, e2]

/-- overwriting one digit of a written string -/
theorem setDigit_writeDigits (base : BitVec 64) (p : Nat) (pre : List Nat) (x v : Nat) (suf : List Nat)
    (hfit : p + (pre ++ x :: suf).length ≤ 15) (h8 : ∀ d ∈ pre ++ x :: suf, d < 8) (hv : v < 8) :
    setDigit (writeDigits base p (pre ++ x :: suf)) (p + pre.length + 1) v =
      writeDigits base p (pre ++ v :: suf) := by
  have hlen : (pre ++ v :: suf).length = (pre ++ x :: suf).length := by simp
  have h8' : ∀ d ∈ pre ++ v :: suf, d < 8 := by
    intro d hd
    simp only [List.mem_append, List.mem_cons] at hd
    rcases hd with hd | rfl | hd
    · exact h8 d (by simp [hd])
    · exact hv
    · exact h8 d (by simp [hd])
  have hpos : 1 ≤ p + pre.length + 1 ∧ p + pre.length + 1 ≤ 15 := by
    simp only [List.length_append, List.length_cons] at hfit; omega
  obtain ⟨w1, w2, w3, w4, w5, _⟩ := writeDigits_outside (pre ++ x :: suf) base p hfit h8
  obtain ⟨a1, a2, a3, a4, a5⟩ := getRes_setDigit (writeDigits base p (pre ++ x :: suf)) _ v hpos hv
  apply eq_writeDigits _ base p _ (by rw [hlen]; exact hfit) h8'
  · exact ⟨by rw [a5, w5], by rw [a3, w3], by rw [a4, w4], by rw [a1, w1], by rw [a2, w2]⟩
  · intro r r1 r15
    rw [getDigit_setDigit _ _ r v hpos ⟨r1, r15⟩ hv, getDigit_writeDigits base p _ hfit h8 r r1 r15, hlen]
    by_cases e : r = p + pre.length + 1
    · have hin : p < r ∧ r ≤ p + (pre ++ x :: suf).length := by
        simp only [List.length_append, List.length_cons]; omega
      rw [if_pos e, if_pos hin, getD_mid]
      have : r - p - 1 = pre.length := by omega
      simp [this]
    · rw [if_neg e]
      by_cases hin : p < r ∧ r ≤ p + (pre ++ x :: suf).length
      · rw [if_pos hin, if_pos hin, getD_mid, getD_mid]
        have : r - p - 1 ≠ pre.length := by omega
        simp [this]
      · rw [if_neg hin, if_neg hin]

/-! ### leading zeros and the skip digit -/

/-- number of leading zero digits -/
def lz : List Nat → Nat
  | [] => 0
  | d :: r => if d == 0 then lz r + 1 else 0

/-- the iterator's `_skipDigit` as a function of the current digit string -/
def skOf (Z : Bool) (p : Nat) (s : List Nat) : Int := if Z then ((p + lz s : Nat) : Int) else -1

theorem lz_append_all0 (pre t : List Nat) (h : pre.all (· == 0) = true) :
    lz (pre ++ t) = pre.length + lz t := by
  induction pre with
  | nil => simp
  | cons x pre ih =>
    simp only [List.all_cons, Bool.and_eq_true, beq_iff_eq] at h
    obtain ⟨rfl, h⟩ := h
    simp only [List.cons_append, lz, beq_self_eq_true, if_true, ih h, List.length_cons]
    omega

theorem lz_append_not0 (pre t : List Nat) (h : pre.all (· == 0) = false) :
    lz (pre ++ t) = lz pre ∧ lz pre < pre.length := by
  induction pre with
  | nil => simp at h
  | cons x pre ih =>
    by_cases hx : x = 0
    · subst hx
      simp only [List.all_cons, beq_self_eq_true, Bool.true_and] at h
      obtain ⟨a, b⟩ := ih h
      simp only [List.cons_append, lz, beq_self_eq_true, if_true, a, List.length_cons]
      exact ⟨trivial, by omega⟩
    · have : (x == 0) = false := by simp [hx]
      simp [lz, this]

theorem lz_sixes (k : Nat) : lz (List.replicate k 6) = 0 := by
  cases k with
  | zero => rfl
  | succ k => simp [List.replicate_succ, lz]


/-! ### the carry loop of `iterStepChild` -/

theorem lt8_of_le6 {s : List Nat} (h : ∀ x ∈ s, x ≤ 6) : ∀ x ∈ s, x < 8 :=
  fun x hx => by have := h x hx; omega

theorem skip_cond (Z : Bool) (p n d k : Nat) (pre : List Nat) (hlen : pre.length = n) :
    ((((p + n + 1 : Nat) : Int) == skOf Z p (pre ++ d :: List.replicate k 6)) && (d + 1 == 1)) =
      (Z && pre.all (· == 0) && d == 0) := by
  cases Z with
  | false =>
    have : ((((p + n + 1 : Nat) : Int)) == (-1 : Int)) = false := by simp; omega
    simp only [skOf, Bool.false_eq_true, if_false, this, Bool.false_and]
  | true =>
    simp only [skOf, if_true, Bool.true_and]
    by_cases hall : pre.all (· == 0) = true
    · rw [lz_append_all0 pre _ hall, hall, hlen]
      by_cases hd : d = 0
      · subst hd
        simp [lz, lz_sixes]
        omega
      · have : (d == 0) = false := by simp [hd]
        simp [this, hd]
    · have hall' : pre.all (· == 0) = false := by simpa using hall
      obtain ⟨a, b⟩ := lz_append_not0 pre (d :: List.replicate k 6) hall'
      rw [a, hall']
      have : ((((p + n + 1 : Nat) : Int)) == ((p + lz pre : Nat) : Int)) = false := by
        simp; omega
      rw [this]
      simp

theorem loop_spec (base : BitVec 64) (p c : Nat) (Z : Bool) (hc : c ≤ 15) :
    ∀ (n : Nat) (pre : List Nat) (d k fuel : Nat), pre.length = n → p + n + 1 + k = c → d ≤ 6 →
      (∀ x ∈ pre, x ≤ 6) → n + 2 ≤ fuel →
      iterStepChild.loop ⟨writeDigits base p (pre ++ (d + 1) :: List.replicate k 0), (p : Int),
          skOf Z p (pre ++ d :: List.replicate k 6)⟩ (p + n + 1) fuel =
        (match succStr Z (pre ++ d :: List.replicate k 6) with
         | some s' => ⟨writeDigits base p s', (p : Int), skOf Z p s'⟩
         | none => nullIter) := by
  intro n
  induction n using Nat.strongRecOn with
  | _ n ih =>
    intro pre d k fuel hlen hck hd6 hpre hfuel
    obtain ⟨f, rfl⟩ : ∃ f, fuel = f + 1 := ⟨fuel - 1, by omega⟩
    have hfit : p + (pre ++ (d + 1) :: List.replicate k 0).length ≤ 15 := by
      simp only [List.length_append, List.length_cons, List.length_replicate]; omega
    have h8 : ∀ x ∈ pre ++ (d + 1) :: List.replicate k 0, x < 8 := by
      intro x hx
      simp only [List.mem_append, List.mem_cons, List.mem_replicate] at hx
      rcases hx with hx | rfl | ⟨_, rfl⟩
      · have := hpre x hx; omega
      · omega
      · omega
    have hdig : getDigit (writeDigits base p (pre ++ (d + 1) :: List.replicate k 0)) (p + n + 1) = d + 1 := by
      rw [getDigit_writeDigits base p _ hfit h8 _ (by omega) (by omega)]
      have hin : p < p + n + 1 ∧ p + n + 1 ≤ p + (pre ++ (d + 1) :: List.replicate k 0).length := by
        simp only [List.length_append, List.length_cons, List.length_replicate]; omega
      rw [if_pos hin, getD_mid]
      have : p + n + 1 - p - 1 = pre.length := by omega
      simp [this]
    have c1 : ¬ (((p + n + 1 : Nat) : Int) < (p : Int)) := by omega
    have c2 : ((((p + n + 1 : Nat) : Int)) == (p : Int)) = false := by simp; omega
    have hskip := skip_cond Z p n d k pre hlen
    unfold iterStepChild.loop
    simp only [c1, c2, if_false, Bool.false_eq_true, hdig, hskip]
    by_cases zc : (Z && pre.all (· == 0) && d == 0) = true
    · -- pentagon skip: 0 -> (1 ->) 2
      rw [if_pos zc]
      have hs := succ_split pre Z d k (by rw [if_pos zc]; omega)
      rw [if_pos zc] at hs
      rw [hs]
      simp only [Bool.and_eq_true, beq_iff_eq] at zc
      obtain ⟨⟨hZ, hall⟩, hd0⟩ := zc
      subst hd0 hZ
      have hne7 : getDigit (writeDigits base p (pre ++ (0 + 1) :: List.replicate k 0)) (p + n + 1) ≠ 7 := by
        rw [hdig]; omega
      rw [incr_no7 _ _ (by omega) (by omega) hne7, hdig]
      have := setDigit_writeDigits base p pre (0 + 1) 2 (List.replicate k 0) hfit h8 (by omega)
      rw [hlen] at this
      rw [this]
      congr 1
      simp only [skOf, if_true]
      rw [lz_append_all0 pre _ hall, lz_append_all0 pre _ hall]
      simp [lz, lz_sixes]
      omega
    · rw [if_neg zc]
      by_cases h7 : d = 6
      · -- carry
        subst h7
        simp only [show ((6 + 1 : Nat) == 7) = true from rfl, if_true]
        rcases List.eq_nil_or_concat pre with rfl | ⟨pre0, x, hpx⟩
        · -- carry out of the top: exhausted
          simp only [List.length_nil] at hlen
          subst hlen
          obtain ⟨f', rfl⟩ : ∃ f', f = f' + 1 := ⟨f - 1, by omega⟩
          unfold iterStepChild.loop
          have : ¬ (((p + 0 + 1 - 1 : Nat) : Int) < (p : Int)) := by omega
          have e : ((((p + 0 + 1 - 1 : Nat) : Int)) == (p : Int)) = true := by simp
          simp only [this, if_false, e, if_true]
          have : ([] : List Nat) ++ 6 :: List.replicate k 6 = List.replicate (k + 1) 6 := by
            simp [List.replicate_succ]
          rw [this, succ_sixes]
        · -- carry into the next coarser digit
          rw [List.concat_eq_append] at hpx
          subst hpx
          simp only [List.length_append, List.length_cons, List.length_nil] at hlen
          have hx6 : x ≤ 6 := hpre x (by simp)
          have hpre0 : ∀ y ∈ pre0, y ≤ 6 := fun y hy => hpre y (by simp [hy])
          have e1 : (pre0 ++ [x]) ++ (6 + 1) :: List.replicate k 0 = pre0 ++ x :: (7 :: List.replicate k 0) := by simp
          have e2 : (pre0 ++ [x]) ++ 6 :: List.replicate k 6 = pre0 ++ x :: List.replicate (k + 1) 6 := by
            simp [List.replicate_succ]
          rw [e2]
          have hfit1 : p + (pre0 ++ x :: (7 :: List.replicate k 0)).length ≤ 15 := by rw [← e1]; exact hfit
          have h81 : ∀ y ∈ pre0 ++ x :: (7 :: List.replicate k 0), y < 8 := by rw [← e1]; exact h8
          have hd7 : getDigit (writeDigits base p ((pre0 ++ [x]) ++ (6 + 1) :: List.replicate k 0)) (p + n + 1) = 7 := hdig
          have hdx : getDigit (writeDigits base p ((pre0 ++ [x]) ++ (6 + 1) :: List.replicate k 0)) (p + n + 1 - 1) = x := by
            rw [e1, getDigit_writeDigits base p _ hfit1 h81 _ (by omega) (by omega)]
            have hin : p < p + n + 1 - 1 ∧ p + n + 1 - 1 ≤ p + (pre0 ++ x :: (7 :: List.replicate k 0)).length := by
              simp only [List.length_append, List.length_cons, List.length_replicate]; omega
            rw [if_pos hin, getD_mid]
            have : p + n + 1 - 1 - p - 1 = pre0.length := by omega
            rw [this]; simp
          rw [incr_7 _ _ (by omega) (by omega) hd7 (by rw [hdx]; omega), hdx]
          -- rewrite the two setDigit's as string updates
          have s1 := setDigit_writeDigits base p (pre0 ++ [x]) (6 + 1) 0 (List.replicate k 0) hfit h8 (by omega)
          have hl1 : p + (pre0 ++ [x]).length + 1 = p + n + 1 := by
            simp only [List.length_append, List.length_singleton]; omega
          rw [hl1] at s1
          rw [s1]
          have e3 : (pre0 ++ [x]) ++ 0 :: List.replicate k 0 = pre0 ++ x :: List.replicate (k + 1) 0 := by
            simp [List.replicate_succ]
          rw [e3]
          have hfit2 : p + (pre0 ++ x :: List.replicate (k + 1) 0).length ≤ 15 := by
            simp only [List.length_append, List.length_cons, List.length_replicate]; omega
          have h82 : ∀ y ∈ pre0 ++ x :: List.replicate (k + 1) 0, y < 8 := by
            intro y hy
            simp only [List.mem_append, List.mem_cons, List.mem_replicate] at hy
            rcases hy with hy | rfl | ⟨_, rfl⟩
            · have := hpre0 y hy; omega
            · omega
            · omega
          have s2 := setDigit_writeDigits base p pre0 x (x + 1) (List.replicate (k + 1) 0) hfit2 h82 (by omega)
          have hl2 : p + pre0.length + 1 = p + n + 1 - 1 := by omega
          rw [hl2] at s2
          rw [s2]
          have := ih pre0.length (by omega) pre0 x (k + 1) f rfl (by omega) hx6 hpre0 (by omega)
          have hl3 : p + pre0.length + 1 = p + n + 1 - 1 := by omega
          rw [hl3] at this
          exact this
      · -- plain increment
        have hne : ((d + 1 : Nat) == 7) = false := by simp; omega
        simp only [hne, Bool.false_eq_true, if_false]
        have hs := succ_split pre Z d k (by rw [if_neg zc]; omega)
        rw [if_neg zc] at hs
        rw [hs]
        congr 1
        cases Z with
        | false => simp [skOf]
        | true =>
          simp only [skOf, if_true]
          by_cases hall : pre.all (· == 0) = true
          · have hd0 : d ≠ 0 := by
              intro e; apply zc; simp [hall, e]
            rw [lz_append_all0 pre _ hall, lz_append_all0 pre _ hall]
            have a : (d == 0) = false := by simp [hd0]
            simp [lz, a]
          · have hall' : pre.all (· == 0) = false := by simpa using hall
            rw [(lz_append_not0 pre _ hall').1, (lz_append_not0 pre _ hall').1]


/-! ### one iterator step = successor of the digit string -/

/-- the iterator state that holds the digit string `s` below a parent of resolution `p` -/
def encState (base : BitVec 64) (p : Nat) (Z : Bool) (s : List Nat) : IterChildren :=
  ⟨writeDigits base p s, (p : Int), skOf Z p s⟩

theorem childrenFuel_null : ∀ fuel, childrenFuel nullIter fuel = [] := by
  intro fuel
  cases fuel with
  | zero => rfl
  | succ f => simp [childrenFuel, nullIter]

theorem step_spec (base : BitVec 64) (p c : Nat) (Z : Bool) (hc : c ≤ 15) (hres : getRes base = c)
    (s : List Nat) (hlen : p + s.length = c) (h6 : ∀ x ∈ s, x ≤ 6) (hne : writeDigits base p s ≠ 0#64) :
    iterStepChild (encState base p Z s) =
      (match succStr Z s with
       | some s' => encState base p Z s'
       | none => nullIter) := by
  have hfit : p + s.length ≤ 15 := by omega
  have h8 := lt8_of_le6 h6
  have hr : getRes (writeDigits base p s) = c := by
    rw [(writeDigits_outside s base p hfit h8).1, hres]
  have hz : (writeDigits base p s == 0#64) = false := by simpa using hne
  unfold iterStepChild encState
  simp only [hz, Bool.false_eq_true, if_false, hr]
  rcases List.eq_nil_or_concat s with rfl | ⟨pre, d, hs⟩
  · -- depth 0: the single child is the parent itself
    simp only [List.length_nil, Nat.add_zero] at hlen
    subst hlen
    unfold iterStepChild.loop
    have c1 : ¬ ((p : Int) < (p : Int)) := by omega
    have c2 : (((p : Int)) == (p : Int)) = true := by simp
    simp only [c1, if_false, c2, if_true]
    rfl
  · rw [List.concat_eq_append] at hs
    subst hs
    have hlen' : p + pre.length + 1 = c := by
      simp only [List.length_append, List.length_cons, List.length_nil] at hlen; omega
    have hd6 : d ≤ 6 := h6 d (by simp)
    have hpre : ∀ x ∈ pre, x ≤ 6 := fun x hx => h6 x (by simp [hx])
    have hdig : getDigit (writeDigits base p (pre ++ [d])) c = d := by
      rw [getDigit_writeDigits base p _ hfit h8 _ (by omega) (by omega)]
      have hin : p < c ∧ c ≤ p + (pre ++ [d]).length := by
        simp only [List.length_append, List.length_cons, List.length_nil]; omega
      rw [if_pos hin, getD_mid]
      have : c - p - 1 = pre.length := by omega
      rw [this]; simp
    rw [incr_no7 _ c (by omega) hc (by rw [hdig]; omega), hdig]
    have s1 := setDigit_writeDigits base p pre d (d + 1) [] hfit h8 (by omega)
    rw [hlen'] at s1
    rw [s1]
    have := loop_spec base p c Z hc pre.length pre d 0 (c + 1) rfl (by omega) hd6 hpre (by omega)
    rw [hlen'] at this
    simp only [List.replicate_zero] at this
    exact this

/-- running the iterator from a state that holds the first string of a successor chain lists the
whole chain -/
theorem run_spec (base : BitVec 64) (p c : Nat) (Z : Bool) (hc : c ≤ 15) (hres : getRes base = c) :
    ∀ (t : List (List Nat)) (s : List Nat), Chain Z (s :: t) →
      (∀ u ∈ s :: t, p + u.length = c ∧ (∀ x ∈ u, x ≤ 6) ∧ writeDigits base p u ≠ 0#64) →
      (∀ last, (s :: t).getLast? = some last → succStr Z last = none) →
      ∀ fuel, (s :: t).length ≤ fuel →
        childrenFuel (encState base p Z s) fuel = (s :: t).map (writeDigits base p) := by
  intro t
  induction t with
  | nil =>
    intro s _ hall hlast fuel hf
    obtain ⟨f, rfl⟩ : ∃ f, fuel = f + 1 := ⟨fuel - 1, by simp at hf; omega⟩
    obtain ⟨a, b, cne⟩ := hall s (by simp)
    have hz : ((encState base p Z s).h == 0#64) = false := by simpa [encState] using cne
    unfold childrenFuel
    simp only [hz, Bool.false_eq_true, if_false]
    rw [step_spec base p c Z hc hres s a b cne, hlast s (by simp), childrenFuel_null]
    rfl
  | cons b t ih =>
    intro s hch hall hlast fuel hf
    obtain ⟨f, rfl⟩ : ∃ f, fuel = f + 1 := ⟨fuel - 1, by simp at hf; omega⟩
    obtain ⟨a, a6, cne⟩ := hall s (by simp)
    obtain ⟨hsb, hch'⟩ := hch
    have hz : ((encState base p Z s).h == 0#64) = false := by simpa [encState] using cne
    unfold childrenFuel
    simp only [hz, Bool.false_eq_true, if_false]
    rw [step_spec base p c Z hc hres s a a6 cne, hsb]
    simp only
    rw [ih b hch' (fun u hu => hall u (by simp [hu]))
      (fun last hl => hlast last (by rw [List.getLast?_cons_cons]; exact hl)) f (by simp at hf ⊢; omega)]
    rfl


/-! ### the initial state -/

theorem setRes_self_bv (h : BitVec 64) : m_set_resolution h (m_get_resolution h) = h := by
  simp only [m_set_resolution, m_get_resolution]
  bv_decide

theorem setRes_self (h : BitVec 64) : setRes h (getRes h) = h := by
  unfold setRes getRes
  rw [BitVec.ofNat_toNat, BitVec.setWidth_eq]
  exact setRes_self_bv h

theorem lz_zeros (m : Nat) : lz (List.replicate m 0) = m := by
  induction m with
  | zero => rfl
  | succ m ih => simp [List.replicate_succ, lz, ih]

theorem getD_zeros (m i : Nat) : (List.replicate m 0).getD i 0 = 0 := by
  simp [List.getD_eq_getElem?_getD, List.getElem?_replicate]
  split <;> rfl

theorem center_digits (h : BitVec 64) (cn : Nat) (h1 : getRes h ≤ cn) (h2 : cn ≤ 15) :
    let x := writeDigits (setRes h cn) (getRes h) (List.replicate (cn - getRes h) 0)
    getRes x = cn ∧ getBaseCell x = getBaseCell h ∧
    ∀ r, 1 ≤ r → r ≤ 15 → getDigit x r = if getRes h < r ∧ r ≤ cn then 0 else getDigit h r := by
  intro x
  have hfit : getRes h + (List.replicate (cn - getRes h) 0).length ≤ 15 := by simp; omega
  have h8 : ∀ d ∈ List.replicate (cn - getRes h) 0, d < 8 := by
    intro d hd; simp at hd; omega
  obtain ⟨w1, w2, _⟩ := writeDigits_outside _ (setRes h cn) (getRes h) hfit h8
  refine ⟨by rw [w1, getRes_setRes h cn (by omega)], ?_, ?_⟩
  · rw [w2, (getDigit_setRes h cn 1 (by omega) ⟨by omega, by omega⟩).2.1]
  · intro r r1 r15
    rw [getDigit_writeDigits _ _ _ hfit h8 r r1 r15, List.length_replicate,
      show getRes h + (cn - getRes h) = cn by omega, getD_zeros,
      (getDigit_setRes h cn r (by omega) ⟨r1, r15⟩).1]

theorem isPentagon_center (h : BitVec 64) (cn : Nat) (h1 : getRes h ≤ cn) (h2 : cn ≤ 15) :
    isPentagon (writeDigits (setRes h cn) (getRes h) (List.replicate (cn - getRes h) 0)) = isPentagon h := by
  obtain ⟨a, b, d⟩ := center_digits h cn h1 h2
  apply Bool.eq_iff_iff.mpr
  rw [isPentagon_iff, isPentagon_iff, a, b]
  constructor
  · rintro ⟨hb, hd⟩
    refine ⟨hb, fun r r1 rp => ?_⟩
    have := hd r r1 (by omega)
    rw [d r r1 (by omega), if_neg (by omega)] at this
    exact this
  · rintro ⟨hb, hd⟩
    refine ⟨hb, fun r r1 rc => ?_⟩
    rw [d r r1 (by omega)]
    split
    · rfl
    · exact hd r r1 (by omega)

theorem init_spec (h : BitVec 64) (cn : Nat) (h0 : h ≠ 0#64) (h1 : getRes h ≤ cn) (h2 : cn ≤ 15) :
    iterInitParent h (cn : Int) =
      encState (setRes h cn) (getRes h) (isPentagon h) (List.replicate (cn - getRes h) 0) := by
  obtain ⟨hl, hcc⟩ := H3.C04Ctr.centerChild_first h cn h0 h1 h2
  have hdef := childrenS_def h cn h0 h1 h2
  have hhead := (strings_good (cn - getRes h) (isPentagon h)).head
  have hfirst : (cellToChildrenS h cn)[0] =
      writeDigits (setRes h cn) (getRes h) (List.replicate (cn - getRes h) 0) := by
    have hl' : 0 < (childDigitStrings (isPentagon h) (cn - getRes h)).length := by
      rw [hdef, List.length_map] at hl; exact hl
    have : (childDigitStrings (isPentagon h) (cn - getRes h))[0] = List.replicate (cn - getRes h) 0 := by
      rw [List.head?_eq_getElem?, List.getElem?_eq_getElem hl'] at hhead
      exact Option.some.inj hhead
    simp only [hdef, List.getElem_map, this]
  have c1 : (decide ((cn : Int) < (getRes h : Int)) || decide ((cn : Int) > 15)) = false := by simp; omega
  unfold cellToCenterChild hasChildAtRes at hcc
  simp only [c1, Bool.not_false, Bool.not_true, Bool.false_eq_true, if_false, Int.toNat_natCast,
    Except.ok.injEq] at hcc
  have c3 : (h == 0#64) = false := by simpa using h0
  unfold iterInitParent encState
  simp only [c1, c3, Bool.or_false, Bool.false_eq_true, if_false, Int.toNat_natCast, hcc, hfirst,
    isPentagon_center h cn h1 h2]
  congr 1
  unfold skOf
  rw [lz_zeros]
  split
  · congr 1; omega
  · rfl

/-- **C04 refinement: the loop-faithful child iterator produces exactly the specification-level
enumeration** — for every 64-bit `h` and every `int` child resolution. -/
theorem cellToChildren_eq (h : BitVec 64) (c : Int) : cellToChildren h c = cellToChildrenS h c := by
  by_cases hr : c < (getRes h : Int) ∨ c > 15
  · have hs := H3.C04.cellToChildrenSize_resDomain h c hr
    have c1 : (decide (c < (getRes h : Int)) || decide (c > 15)) = true := by
      rcases hr with hr | hr <;> simp [hr]
    unfold cellToChildren cellToChildrenS hasChildAtRes
    simp [hs, c1]
  · by_cases h0 : h = 0#64
    · subst h0
      have hi : iterInitParent 0#64 c = nullIter := by
        unfold iterInitParent; simp
      unfold cellToChildren cellToChildrenS
      rw [hi]
      cases cellToChildrenSize 0#64 c <;> simp [childrenFuel_null]
    · obtain ⟨cn, rfl⟩ : ∃ cn : Nat, c = (cn : Int) := ⟨c.toNat, by omega⟩
      have h1 : getRes h ≤ cn := by omega
      have h2 : cn ≤ 15 := by omega
      have hsize := length_children h cn h0 h1 h2
      have hdef := childrenS_def h cn h0 h1 h2
      have g := strings_good (cn - getRes h) (isPentagon h)
      unfold cellToChildren
      rw [hsize, init_spec h cn h0 h1 h2]
      simp only [Int.toNat_natCast]
      -- the strings as head :: tail
      obtain ⟨t, ht⟩ : ∃ t, childDigitStrings (isPentagon h) (cn - getRes h) =
          List.replicate (cn - getRes h) 0 :: t := by
        have := g.head
        cases hL : childDigitStrings (isPentagon h) (cn - getRes h) with
        | nil => rw [hL] at this; simp at this
        | cons a t => rw [hL] at this; simp at this; exact ⟨t, by rw [this]⟩
      have hres : getRes (setRes h cn) = cn := getRes_setRes h cn (by omega)
      have hall : ∀ u ∈ List.replicate (cn - getRes h) 0 :: t,
          getRes h + u.length = cn ∧ (∀ x ∈ u, x ≤ 6) ∧ writeDigits (setRes h cn) (getRes h) u ≠ 0#64 := by
        intro u hu
        rw [← ht] at hu
        have hlen := strings_len _ _ u hu
        have h6 := strings_le6 _ _ u hu
        refine ⟨by omega, h6, ?_⟩
        intro e
        have hr' := (writeDigits_outside u (setRes h cn) (getRes h) (by omega) (lt8_of_le6 h6)).1
        rw [e, hres] at hr'
        have hz : getRes (0#64) = 0 := by decide
        rw [hz] at hr'
        -- cn = 0: the parent itself
        have hp0 : getRes h = 0 := by omega
        have hu0 : u = [] := by
          apply List.eq_nil_of_length_eq_zero; omega
        subst hu0
        simp only [writeDigits] at e
        have hcn : cn = 0 := by omega
        subst hcn
        have hself : setRes h 0 = h := by
          have := setRes_self h
          rwa [hp0] at this
        rw [hself] at e
        exact h0 e
      have hlast : ∀ last, (List.replicate (cn - getRes h) 0 :: t).getLast? = some last →
          succStr (isPentagon h) last = none := by
        intro last hl
        rw [← ht, g.last] at hl
        cases hl
        exact succ_sixes _ _
      have hch : Chain (isPentagon h) (List.replicate (cn - getRes h) 0 :: t) := by
        rw [← ht]; exact g.chain
      rw [run_spec (setRes h cn) (getRes h) cn (isPentagon h) h2 hres t _ hch hall hlast _
        (by rw [hdef, ← ht, List.length_map])]
      rw [hdef, ht]

theorem flatMap_congr' {α β : Type} (l : List α) (f g : α → List β) (h : ∀ a ∈ l, f a = g a) :
    l.flatMap f = l.flatMap g := by
  induction l with
  | nil => rfl
  | cons a t ih =>
    simp only [List.flatMap_cons]
    rw [h a (by simp), ih (fun b hb => h b (by simp [hb]))]

/-- **C03 refinement: iterInitRes / iterStepRes (loop-faithful) = the specification-level
enumeration of all cells of a resolution** -/
theorem cellsEnum_eq (res : Nat) : cellsEnum res = cellsEnumS res := by
  unfold cellsEnum cellsEnumS
  apply flatMap_congr'
  intro bc hbc
  simp only [List.mem_range] at hbc
  rw [← cellToChildren_eq]
  unfold cellToChildren
  by_cases hr : res ≤ 15
  · have : iterInitBaseCellNum (bc : Int) (res : Int) = iterInitParent (setH3Index 0 bc 0) (res : Int) := by
      unfold iterInitBaseCellNum
      have c : (decide ((bc : Int) < 0) || decide ((bc : Int) ≥ 122) || decide ((res : Int) < 0) ||
          decide ((res : Int) > 15)) = false := by simp; omega
      simp only [c, Bool.false_eq_true, if_false, Int.toNat_natCast]
    rw [this]
  · have hs := H3.C04.cellToChildrenSize_resDomain (setH3Index 0 bc 0) (res : Int) (Or.inr (by omega))
    rw [hs]

end H3.C04I
