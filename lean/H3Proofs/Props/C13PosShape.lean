/-
Translation validation of `cellToChildPos` (h3Index.c): the C text — two loops over the resolutions between child and
parent with `cellToParent(child, res - 1, &parent)` and `isPentagon(parent)` inside the pentagon loop, error returns
inside the loops, and the final `NEVER(validateChildPos(...))` — translated by tools/c2lean.py on every run, is proved
to return the model's error code and, on success, the model's position, for all 2^64 index values and all 2^32
parent resolutions (and every value of the two uninitialised locals).
-/
import H3Proofs.Lemmas.Bits
import H3Proofs.Props.C04Gen
import H3Proofs.Props.C13Gen
import H3Model.Index
import Std.Tactic.BVDecide
import Mathlib.Tactic.Linarith

namespace H3.C13P
open H3 H3.Bits

/-! ### the two loops in the shape the translator unrolls them -/

def hc7 (cr res : BitVec 32) : BitVec 64 :=
  Gen.Bits.ipow (BitVec.signExtend 64 7#32) (BitVec.signExtend 64 (cr - res))

def badP (pp raw : BitVec 32) : Bool :=
  ((if (((if (raw == 7#32) then 1#32 else 0#32) != 0#32) || ((if ((pp != 0#32) && ((if (raw == 1#32) then 1#32 else 0#32) != 0#32)) then 1#32 else 0#32) != 0#32)) then 1#32 else 0#32) != 0#32)

def stepOut (pp raw : BitVec 32) (hc out : BitVec 64) : BitVec 64 :=
  let digit : BitVec 32 := (if ((if ((pp != 0#32) && ((if (BitVec.slt 0#32 raw) then 1#32 else 0#32) != 0#32)) then 1#32 else 0#32) != 0#32) then (raw - 1#32) else raw)
  if ((if (digit != 0#32) then 1#32 else 0#32) != 0#32) then
    (out + ((if (pp != 0#32) then ((BitVec.signExtend 64 1#32) + (BitVec.sdiv ((BitVec.signExtend 64 5#32) * (hc - (BitVec.signExtend 64 1#32))) (BitVec.signExtend 64 6#32))) else hc) + ((BitVec.signExtend 64 (digit - 1#32)) * hc)))
  else out

def finalCode (out op : BitVec 64) (cr : BitVec 32) (uv : BitVec 64) : BitVec 32 :=
  if ((if ((Gen.Bits.validateChildPos out op cr uv) != 0#32) then 1#32 else 0#32) != 0#32) then 1#32 else 0#32

def codeP (child : BitVec 64) (pr cr : BitVec 32) (op uv : BitVec 64) : Nat → BitVec 32 → BitVec 64 → BitVec 64 → BitVec 32
  | 0, _, _, _ => 0#32
  | n + 1, res, parent, out =>
    if ((if (BitVec.slt pr res) then 1#32 else 0#32) != 0#32) then
      let perr := Gen.Bits.cellToParent child (res - 1#32) parent
      let parent' := Gen.Bits.cellToParent_out_out child (res - 1#32) parent
      if ((if (perr != 0#32) then 1#32 else 0#32) != 0#32) then perr
      else
        let pp := Gen.Bits.isPentagon parent'
        let raw := Gen.Bits.m_get_digit child res
        if badP pp raw then 5#32
        else codeP child pr cr op uv n (res - 1#32) parent' (stepOut pp raw (hc7 cr res) out)
    else finalCode out op cr uv

def outP (child : BitVec 64) (pr cr : BitVec 32) : Nat → BitVec 32 → BitVec 64 → BitVec 64 → BitVec 64
  | 0, _, _, _ => 0#64
  | n + 1, res, parent, out =>
    if ((if (BitVec.slt pr res) then 1#32 else 0#32) != 0#32) then
      let perr := Gen.Bits.cellToParent child (res - 1#32) parent
      let parent' := Gen.Bits.cellToParent_out_out child (res - 1#32) parent
      if ((if (perr != 0#32) then 1#32 else 0#32) != 0#32) then out
      else
        let pp := Gen.Bits.isPentagon parent'
        let raw := Gen.Bits.m_get_digit child res
        if badP pp raw then out
        else outP child pr cr n (res - 1#32) parent' (stepOut pp raw (hc7 cr res) out)
    else out

def codeH (child : BitVec 64) (pr cr : BitVec 32) (op uv : BitVec 64) : Nat → BitVec 32 → BitVec 64 → BitVec 32
  | 0, _, _ => 0#32
  | n + 1, res, out =>
    if ((if (BitVec.slt pr res) then 1#32 else 0#32) != 0#32) then
      let digit := Gen.Bits.m_get_digit child res
      if ((if (digit == 7#32) then 1#32 else 0#32) != 0#32) then 5#32
      else codeH child pr cr op uv n (res - 1#32) (out + ((BitVec.signExtend 64 digit) * (hc7 cr res)))
    else finalCode out op cr uv

def outH (child : BitVec 64) (pr cr : BitVec 32) : Nat → BitVec 32 → BitVec 64 → BitVec 64
  | 0, _, _ => 0#64
  | n + 1, res, out =>
    if ((if (BitVec.slt pr res) then 1#32 else 0#32) != 0#32) then
      let digit := Gen.Bits.m_get_digit child res
      if ((if (digit == 7#32) then 1#32 else 0#32) != 0#32) then out
      else outH child pr cr n (res - 1#32) (out + ((BitVec.signExtend 64 digit) * (hc7 cr res)))
    else out

set_option maxHeartbeats 4000000 in
set_option maxRecDepth 16000 in
theorem code_shape (c : BitVec 64) (pr : BitVec 32) (o uo uv : BitVec 64) :
    Gen.Bits.cellToChildPos c pr o uo uv =
      (let cr := Gen.Bits.m_get_resolution c
       let perr := Gen.Bits.cellToParent c pr uo
       let op := Gen.Bits.cellToParent_out_out c pr uo
       if perr != 0#32 then perr
       else if Gen.Bits.isPentagon op != 0#32 then codeP c pr cr op uv 16 cr op 0#64
       else codeH c pr cr op uv 16 cr 0#64) := by
  unfold Gen.Bits.cellToChildPos
  unfold codeP codeP codeP codeP codeP codeP codeP codeP codeP codeP codeP codeP codeP codeP codeP codeP codeP
  unfold codeH codeH codeH codeH codeH codeH codeH codeH codeH codeH codeH codeH codeH codeH codeH codeH codeH
  unfold finalCode stepOut badP hc7 Gen.Bits.m_get_resolution Gen.Bits.m_get_digit
  bv_decide

set_option maxHeartbeats 4000000 in
set_option maxRecDepth 16000 in
theorem out_shape (c : BitVec 64) (pr : BitVec 32) (o uo uv : BitVec 64) :
    Gen.Bits.cellToChildPos_out_out c pr o uo uv =
      (let cr := Gen.Bits.m_get_resolution c
       let perr := Gen.Bits.cellToParent c pr uo
       let op := Gen.Bits.cellToParent_out_out c pr uo
       if perr != 0#32 then o
       else if Gen.Bits.isPentagon op != 0#32 then outP c pr cr 16 cr op 0#64
       else outH c pr cr 16 cr 0#64) := by
  unfold Gen.Bits.cellToChildPos_out_out
  unfold outP outP outP outP outP outP outP outP outP outP outP outP outP outP outP outP outP
  unfold outH outH outH outH outH outH outH outH outH outH outH outH outH outH outH outH outH
  unfold stepOut badP hc7 Gen.Bits.m_get_resolution Gen.Bits.m_get_digit
  bv_decide

end H3.C13P
