/-
C13 — refinement: the loop-faithful models of `childPosToCell` / `cellToChildPos`
(H3Model/Index.lean, mirroring the C loops) compute the same function as the specification-level
models (H3Model/HierSpec.lean) about which the bijection theorems are proved.
-/
import H3Proofs.Props.C13Bij
import Mathlib.Tactic.Ring

namespace H3.C13R
open H3 H3.Rank H3.Bits H3.Hier H3.C13 H3.C04

/-- the hexagon loop of childPosToCell writes the base-7 digits of the position -/
theorem hexLoop (p M : Nat) (hM : M ≤ 15) : ∀ (m k : Nat) (child : BitVec 64) (idx : Int), k + m = M →
    ((List.range' (k + 1) m).foldl (init := (child, idx))
      (fun (st : BitVec 64 × Int) res =>
        let resWidth := ipow 7 (M - res)
        (setDigit st.1 (p + res) (st.2 / resWidth).toNat, st.2 % resWidth))).1 =
    writeDigits child (p + k) (digitsOfPosH m idx) := by
  intro m
  induction m with
  | zero => intro k child idx _; rfl
  | succ m ih =>
    intro k child idx hk
    rw [List.range'_succ, List.foldl_cons]
    have hw : ipow 7 (M - (k + 1)) = 7 ^ m := by
      rw [ipow7 _ (by omega)]; congr 1; omega
    simp only [hw]
    have := ih (k + 1) (setDigit child (p + (k + 1)) (idx / 7 ^ m).toNat) (idx % 7 ^ m) (by omega)
    rw [this]
    simp only [digitsOfPosH, writeDigits]
    rfl

/-- the pentagon loop: the pentagon-width test while still on the centre chain, then hexagon digits -/
theorem pentLoop (p M : Nat) (hM : M ≤ 15) : ∀ (m k : Nat) (child : BitVec 64) (idx : Int) (inPent : Bool), k + m = M →
    ((List.range' (k + 1) m).foldl (init := (child, idx, inPent))
      (fun (st : BitVec 64 × Int × Bool) res =>
        let resWidth := ipow 7 (M - res)
        if st.2.2 then
          let pentWidth := 1 + (5 * (resWidth - 1)) / 6
          if st.2.1 < pentWidth then (setDigit st.1 (p + res) 0, st.2.1, true)
          else
            let idx := st.2.1 - pentWidth
            (setDigit st.1 (p + res) ((idx / resWidth).toNat + 2), idx % resWidth, false)
        else (setDigit st.1 (p + res) (st.2.1 / resWidth).toNat, st.2.1 % resWidth, false))).1 =
    writeDigits child (p + k) (if inPent then digitsOfPosP m idx else digitsOfPosH m idx) := by
  intro m
  induction m with
  | zero => intro k child idx inPent _; cases inPent <;> rfl
  | succ m ih =>
    intro k child idx inPent hk
    rw [List.range'_succ, List.foldl_cons]
    have hw : ipow 7 (M - (k + 1)) = 7 ^ m := by
      rw [ipow7 _ (by omega)]; congr 1; omega
    simp only [hw]
    cases inPent with
    | false =>
      simp only [Bool.false_eq_true, if_false]
      have := ih (k + 1) (setDigit child (p + (k + 1)) (idx / 7 ^ m).toNat) (idx % 7 ^ m) false (by omega)
      rw [this]
      simp only [digitsOfPosH, writeDigits, Bool.false_eq_true, if_false]
      rfl
    | true =>
      simp only [if_true]
      have hpc : (1 + 5 * ((7 : Int) ^ m - 1) / 6) = pentCountI m := rfl
      rw [hpc]
      by_cases hlt : idx < pentCountI m
      · simp only [hlt, if_true]
        have := ih (k + 1) (setDigit child (p + (k + 1)) 0) idx true (by omega)
        rw [this]
        simp only [digitsOfPosP, hlt, if_true, writeDigits]
        rfl
      · simp only [hlt, if_false]
        have := ih (k + 1) (setDigit child (p + (k + 1)) (((idx - pentCountI m) / 7 ^ m).toNat + 2))
          ((idx - pentCountI m) % 7 ^ m) false (by omega)
        rw [this]
        simp only [digitsOfPosP, hlt, if_false, writeDigits, Bool.false_eq_true]
        rfl

end H3.C13R

namespace H3.C13R
open H3 H3.Rank H3.Bits H3.Hier H3.C13 H3.C04

/-- **C13 refinement: `childPosToCell` (loop-faithful) = `childPosToCellS` (specification)**, all inputs -/
theorem childPosToCell_eq (pos : Int) (parent : BitVec 64) (c : Int) :
    childPosToCell pos parent c = childPosToCellS pos parent c := by
  unfold childPosToCell childPosToCellS
  by_cases g1 : (decide (c < 0) || decide (c > 15)) = true
  · simp [g1]; rfl
  · by_cases g2 : c < (getRes parent : Int)
    · simp [g1, g2]; rfl
    · cases hv : validateChildPos pos parent c with
      | error e => simp [g1, g2, hv]; rfl
      | ok u =>
        have hc15 : c.toNat - getRes parent ≤ 15 := by
          simp at g1; omega
        simp only [g1, g2, hv, Bool.false_eq_true, if_false, bind, Except.bind, pure, Except.pure]
        by_cases hP : isPentagon parent = true
        · simp only [hP, if_true]
          congr 1
          have := pentLoop (getRes parent) (c.toNat - getRes parent) hc15 (c.toNat - getRes parent) 0
            (setRes parent c.toNat) pos true (by omega)
          simpa using this
        · simp only [hP, Bool.false_eq_true, if_false]
          congr 1
          have := hexLoop (getRes parent) (c.toNat - getRes parent) hc15 (c.toNat - getRes parent) 0
            (setRes parent c.toNat) pos (by omega)
          simpa using this

end H3.C13R

namespace H3.C13R
open H3 H3.Rank H3.Bits H3.Hier H3.C13 H3.C04

/-! ### cellToChildPos -/

theorem posOfDigits_error : ∀ (ds : List Nat) (P : Bool) (e : H3Error), posOfDigits P ds = .error e → e = .cellInvalid := by
  intro ds
  induction ds with
  | nil => intro P e h; simp [posOfDigits] at h
  | cons d rest ih =>
    intro P e h
    unfold posOfDigits at h
    split at h
    · cases h; rfl
    · split at h
      · rename_i e' he
        cases h
        exact ih _ _ he
      · cases h

/-- one iteration of the hexagon loop of cellToChildPos (k = childRes − res) -/
def hexStep (child : BitVec 64) (cr : Nat) (out : Int) (k : Nat) : R Int :=
  if getDigit child (cr - k) == 7 then .error .cellInvalid
  else .ok (out + (getDigit child (cr - k) : Int) * 7 ^ k)

def mapAdd (init : Int) : R Int → R Int
  | .ok r => .ok (init + r)
  | .error e => .error e

theorem hexFold (child : BitVec 64) (cr : Nat) : ∀ (m p : Nat) (init : Int), p + m = cr →
    (List.range' 0 m).foldlM (hexStep child cr) init =
      mapAdd init (posOfDigits false (digitsBetween child p m)) := by
  intro m
  induction m with
  | zero => intro p init _; simp [digitsBetween, posOfDigits, mapAdd]; rfl
  | succ m ih =>
    intro p init hp
    rw [List.range'_concat, List.foldlM_append, ih (p + 1) init (by omega), digitsBetween_succ]
    simp only [Nat.zero_add, Nat.one_mul, List.foldlM_cons, List.foldlM_nil, posOfDigits, Bool.false_and, Bool.or_false]
    have hcr : cr - m = p + 1 := by omega
    have hlen : (digitsBetween child (p + 1) m).length = m := digitsBetween_length _ _ _
    cases hrest : posOfDigits false (digitsBetween child (p + 1) m) with
    | error e =>
      have := posOfDigits_error _ _ _ hrest
      subst this
      by_cases h7 : (getDigit child (p + 1) == 7) = true <;> simp [mapAdd, h7, bind, Except.bind]
    | ok r =>
      simp only [mapAdd, bind, Except.bind, hexStep, hcr, pure, Except.pure]
      by_cases h7 : (getDigit child (p + 1) == 7) = true
      · simp [h7]
      · simp only [h7, Bool.false_eq_true, if_false, hlen]
        congr 1
        ring

end H3.C13R

namespace H3.C13R
open H3 H3.Rank H3.Bits H3.Hier H3.C13 H3.C04

def allZero (child : BitVec 64) (a n : Nat) : Bool := (List.range' a n).all (fun r => getDigit child r == 0)

/-- one iteration of the pentagon loop (k = childRes − res); `pentAt res` = "the parent at res−1 is a pentagon" -/
def pentStep (child : BitVec 64) (cr : Nat) (pentAt : Nat → Bool) (out : Int) (k : Nat) : R Int :=
  let P := pentAt (cr - k)
  let raw := getDigit child (cr - k)
  if raw == 7 || (P && raw == 1) then .error .cellInvalid
  else
    let digit := if P && decide (raw > 0) then raw - 1 else raw
    if digit != 0 then
      .ok (out + (if P then pentCountI k else 7 ^ k) + ((digit : Int) - 1) * 7 ^ k)
    else .ok out

theorem pentFold (child : BitVec 64) (cr : Nat) (pentAt : Nat → Bool) : ∀ (m p : Nat) (init : Int) (P0 : Bool), p + m = cr →
    (∀ res, p < res → res ≤ cr → pentAt res = (P0 && allZero child (p + 1) (res - 1 - p))) →
    (List.range' 0 m).foldlM (pentStep child cr pentAt) init =
      mapAdd init (posOfDigits P0 (digitsBetween child p m)) := by
  intro m
  induction m with
  | zero => intro p init P0 _ _; simp [digitsBetween, posOfDigits, mapAdd]; rfl
  | succ m ih =>
    intro p init P0 hp hpent
    have hcr : cr - m = p + 1 := by omega
    have hP : pentAt (p + 1) = P0 := by
      rw [hpent (p + 1) (by omega) (by omega)]
      simp [allZero]
    have hpent' : ∀ res, p + 1 < res → res ≤ cr →
        pentAt res = ((P0 && getDigit child (p + 1) == 0) && allZero child (p + 1 + 1) (res - 1 - (p + 1))) := by
      intro res h1 h2
      rw [hpent res (by omega) h2]
      have : res - 1 - p = (res - 1 - (p + 1)) + 1 := by omega
      rw [this]
      simp only [allZero, List.range'_succ, List.all_cons, Bool.and_assoc]
    rw [List.range'_concat, List.foldlM_append, ih (p + 1) init (P0 && getDigit child (p + 1) == 0) (by omega) hpent',
      digitsBetween_succ]
    simp only [Nat.zero_add, Nat.one_mul, List.foldlM_cons, List.foldlM_nil, posOfDigits]
    have hlen : (digitsBetween child (p + 1) m).length = m := digitsBetween_length _ _ _
    have hlt := getDigit_lt child (p + 1)
    cases hrest : posOfDigits (P0 && getDigit child (p + 1) == 0) (digitsBetween child (p + 1) m) with
    | error e =>
      have := posOfDigits_error _ _ _ hrest
      subst this
      by_cases h7 : (getDigit child (p + 1) == 7 || (P0 && getDigit child (p + 1) == 1)) = true <;>
        simp [mapAdd, h7, bind, Except.bind]
    | ok r =>
      simp only [mapAdd, bind, Except.bind, pentStep, hcr, hP, pure, Except.pure]
      by_cases h7 : (getDigit child (p + 1) == 7 || (P0 && getDigit child (p + 1) == 1)) = true
      · simp [h7]
      · simp only [h7, Bool.false_eq_true, if_false, hlen]
        simp only [Bool.or_eq_true, Bool.and_eq_true, beq_iff_eq, not_or, not_and] at h7
        obtain ⟨h7a, h7b⟩ := h7
        cases P0 with
        | false =>
          simp only [Bool.false_and, Bool.false_eq_true, if_false]
          by_cases hd0 : getDigit child (p + 1) = 0
          · simp [hd0]
          · have : (getDigit child (p + 1) != 0) = true := by simpa using hd0
            simp only [this, if_true]
            congr 1; ring
        | true =>
          simp only [Bool.true_and, if_true]
          by_cases hd0 : getDigit child (p + 1) = 0
          · simp [hd0]
          · have hd1 : getDigit child (p + 1) ≠ 1 := h7b rfl
            have hpos : decide (getDigit child (p + 1) > 0) = true := by simp; omega
            have hne : (getDigit child (p + 1) - 1 != 0) = true := by simp; omega
            have hb0 : (getDigit child (p + 1) == 0) = false := by simpa using hd0
            simp only [hpos, if_true, hne, hb0, Bool.false_eq_true, if_false]
            congr 1
            have : ((getDigit child (p + 1) - 1 : Nat) : Int) = (getDigit child (p + 1) : Int) - 1 := by omega
            rw [this]; ring

end H3.C13R

namespace H3.C13R
open H3 H3.Rank H3.Bits H3.Hier H3.C13 H3.C04

theorem foldlM_congr_mem {α β : Type} (f g : β → α → R β) : ∀ (l : List α) (init : β),
    (∀ x ∈ l, ∀ a, f a x = g a x) → l.foldlM f init = l.foldlM g init := by
  intro l
  induction l with
  | nil => intro _ _; rfl
  | cons x xs ih =>
    intro init h
    simp only [List.foldlM_cons]
    rw [h x (by simp) init]
    cases g init x with
    | error e => rfl
    | ok b => exact ih b (fun y hy a => h y (by simp [hy]) a)

/-- "the parent of `child` at resolution res−1 is a pentagon", as the C loop computes it -/
def pentAtModel (child : BitVec 64) (res : Nat) : Bool :=
  match cellToParent child ((res : Int) - 1) with
  | .ok v => isPentagon v
  | .error _ => false

theorem allZero_iff (child : BitVec 64) (a n : Nat) :
    allZero child a n = true ↔ ∀ r, a ≤ r → r < a + n → getDigit child r = 0 := by
  unfold allZero
  rw [List.all_eq_true]
  constructor
  · intro h r h1 h2
    have := h r (by rw [List.mem_range'_1]; omega)
    simpa using this
  · intro h r hr
    rw [List.mem_range'_1] at hr
    simpa using h r hr.1 hr.2

theorem pentAt_formula (child q : BitVec 64) (p : Nat) (hp : p ≤ getRes child) (hq : cellToParent child (p : Int) = .ok q)
    (res : Nat) (h1 : p < res) (h2 : res ≤ getRes child) :
    pentAtModel child res = (isPentagon q && allZero child (p + 1) (res - 1 - p)) := by
  have hres15 := getRes_lt child
  obtain ⟨v, hv, vres, vbc, _, _, _, vdig⟩ := cellToParent_spec child (res - 1) (by omega)
  obtain ⟨q', hq', qres, qbc, _, _, _, qdig⟩ := cellToParent_spec child p hp
  rw [hq] at hq'; cases hq'
  have hcast : ((res : Int) - 1) = ((res - 1 : Nat) : Int) := by omega
  unfold pentAtModel
  rw [hcast, hv]
  simp only []
  rw [Bool.eq_iff_iff, Bool.and_eq_true, isPentagon_iff, isPentagon_iff, allZero_iff, vbc, qbc, vres, qres]
  constructor
  · rintro ⟨hb, hz⟩
    refine ⟨⟨hb, fun r a b => ?_⟩, fun r a b => ?_⟩
    · rw [qdig r a (by omega)]
      have := hz r a (by omega)
      rw [vdig r a (by omega)] at this
      have c1 : ¬ (res - 1 < r ∧ r ≤ getRes child) := by omega
      have c2 : ¬ (p < r ∧ r ≤ getRes child) := by omega
      rw [if_neg c1] at this
      rw [if_neg c2]; exact this
    · have := hz r (by omega) (by omega)
      rw [vdig r (by omega) (by omega)] at this
      have c1 : ¬ (res - 1 < r ∧ r ≤ getRes child) := by omega
      rw [if_neg c1] at this
      exact this
  · rintro ⟨⟨hb, hz⟩, hz2⟩
    refine ⟨hb, fun r a b => ?_⟩
    rw [vdig r a (by omega)]
    have c1 : ¬ (res - 1 < r ∧ r ≤ getRes child) := by omega
    rw [if_neg c1]
    by_cases hr : r ≤ p
    · have := hz r a hr
      rw [qdig r a (by omega)] at this
      have c2 : ¬ (p < r ∧ r ≤ getRes child) := by omega
      rw [if_neg c2] at this
      exact this
    · exact hz2 r (by omega) (by omega)

end H3.C13R

namespace H3.C13R
open H3 H3.Rank H3.Bits H3.Hier H3.C13 H3.C04

/-- **C13 refinement: `cellToChildPos` (loop-faithful) = `cellToChildPosS` (specification)**, all inputs -/
theorem cellToChildPos_eq (child : BitVec 64) (parentRes : Int) :
    cellToChildPos child parentRes = cellToChildPosS child parentRes := by
  cases hq : cellToParent child parentRes with
  | error e =>
    unfold cellToChildPos cellToChildPosS
    simp only [hq, bind, Except.bind]
  | ok q =>
    -- parentRes is a resolution between 0 and the child's
    have hrange : 0 ≤ parentRes ∧ parentRes ≤ (getRes child : Int) := by
      unfold cellToParent at hq
      by_cases g1 : (decide (parentRes < 0) || decide (parentRes > 15)) = true
      · simp [g1] at hq
      · by_cases g2 : parentRes > (getRes child : Int)
        · simp [g1, g2] at hq
        · simp at g1; omega
    obtain ⟨p, rfl⟩ : ∃ p : Nat, parentRes = (p : Int) := ⟨parentRes.toNat, by omega⟩
    have hp : p ≤ getRes child := by omega
    have hres15 := getRes_lt child
    have hspec : cellToChildPosS child (p : Int) =
        posOfDigits (isPentagon q) (digitsBetween child p (getRes child - p)) := by
      unfold cellToChildPosS; simp only [hq, Int.toNat_natCast]
    unfold cellToChildPos
    simp only [hq, bind, Except.bind, pure, Except.pure, Int.toNat_natCast]
    rw [hspec]
    -- validation never fails after a successful loop
    have hvalid : ∀ r, posOfDigits (isPentagon q) (digitsBetween child p (getRes child - p)) = .ok r →
        validateChildPos (0 + r) q (getRes child) = .ok () := by
      intro r hr
      obtain ⟨q', n, hq', hsize, h0, hn⟩ := childPos_lt_size child p hp r (by rw [hspec]; exact hr)
      rw [hq] at hq'; cases hq'
      unfold validateChildPos
      rw [hsize]
      have : (decide (0 + r < 0) || decide (0 + r ≥ n)) = false := by simp; omega
      simp only [this, Bool.false_eq_true, if_false]
    by_cases hP : isPentagon q = true
    · simp only [hP, if_true]
      rw [foldlM_congr_mem (g := pentStep child (getRes child) (pentAtModel child))]
      · rw [pentFold child (getRes child) (pentAtModel child) (getRes child - p) p 0 true (by omega)
          (fun res h1 h2 => by rw [pentAt_formula child q p hp hq res h1 h2, hP])]
        cases hr : posOfDigits true (digitsBetween child p (getRes child - p)) with
        | error e => rfl
        | ok r =>
          rw [hP] at hvalid
          simp only [mapAdd, hvalid r hr]
          simp
      · intro k hk out
        rw [List.mem_range'_1] at hk
        have hk' : getRes child - (getRes child - k) = k := by omega
        obtain ⟨v, hv, _⟩ := cellToParent_spec child (getRes child - k - 1) (by omega)
        have hcast : ((getRes child - k : Nat) : Int) - 1 = ((getRes child - k - 1 : Nat) : Int) := by omega
        have hpa : pentAtModel child (getRes child - k) = isPentagon v := by
          unfold pentAtModel; rw [hcast, hv]
        rw [hcast, hv]
        simp only [hk', ipow7 k (by omega)]
        unfold pentStep
        simp only [hpa]
        by_cases hc : (getDigit child (getRes child - k) == 7 || isPentagon v && getDigit child (getRes child - k) == 1) = true
        · simp only [hc, if_true]; rfl
        · simp only [hc, Bool.false_eq_true, if_false]
          rfl
    · have hPf : isPentagon q = false := by simpa using hP
      simp only [hPf, Bool.false_eq_true, if_false]
      rw [foldlM_congr_mem (g := hexStep child (getRes child))]
      · rw [hexFold child (getRes child) (getRes child - p) p 0 (by omega)]
        cases hr : posOfDigits false (digitsBetween child p (getRes child - p)) with
        | error e => rfl
        | ok r =>
          rw [hPf] at hvalid
          simp only [mapAdd, hvalid r hr]
          simp
      · intro k hk out
        rw [List.mem_range'_1] at hk
        have hk' : getRes child - (getRes child - k) = k := by omega
        simp only [hk', ipow7 k (by omega)]
        unfold hexStep
        by_cases h7 : (getDigit child (getRes child - k) == 7) = true
        · simp only [h7, if_true]; rfl
        · simp only [h7, Bool.false_eq_true, if_false]

end H3.C13R
