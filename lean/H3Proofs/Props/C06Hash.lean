/-
C06 — the open-addressing hash table of compactCells (model: H3Model/Compact.lean, the layout-faithful
model that is compared slot by slot with the real function).  Partial-correctness refinement: whenever
the phases of one round return without an error,

* phase 1 leaves a table that holds every distinct parent exactly once, with the number of its
  children seen (minus one) in the reserved bits, reachable from its home slot along non-empty slots;
* phase 2 collects exactly the parents whose count (plus one for a pentagon) is 7;
* phase 3 copies exactly the cells whose parent is not among them.

No counting / pigeonhole argument is needed for this direction; that the error branches are never
taken on duplicate-free valid input is exercised by the correspondence runs.
-/
import H3Model.Compact
import H3Proofs.Lemmas.Bits

namespace H3.C06Hash
open H3 H3.Gen.Bits H3.Bits

/-! ### reserved bits -/

theorem set_reserved_bv (h : BitVec 64) (v : BitVec 32) (hv : BitVec.ult v 8#32 = true)
    (h0 : m_get_reserved h = 0#32) :
    m_get_reserved (m_set_reserved h v) = v ∧ (m_set_reserved h v) &&& m_reserved_mask_negative = h ∧
    m_set_reserved h 0#32 = h := by
  simp only [m_get_reserved, m_set_reserved, m_reserved_mask_negative] at *
  bv_decide

theorem clear_reserved_bv (h : BitVec 64) :
    m_get_reserved (h &&& m_reserved_mask_negative) = 0#32 ∧
    m_set_reserved (h &&& m_reserved_mask_negative) (m_get_reserved h) = h := by
  simp only [m_get_reserved, m_set_reserved, m_reserved_mask_negative]
  bv_decide

/-- a parent as it is stored: non-zero with clear reserved bits -/
def Normal (p : BitVec 64) : Prop := p ≠ 0#64 ∧ getReserved p = 0

theorem getReserved_zero_iff (p : BitVec 64) : getReserved p = 0 ↔ m_get_reserved p = 0#32 := by
  unfold getReserved
  constructor
  · intro h; apply BitVec.eq_of_toNat_eq; simpa using h
  · intro h; rw [h]; rfl

theorem getReserved_setReserved (p : BitVec 64) (c : Nat) (hp : getReserved p = 0) (hc : c < 8) :
    getReserved (setReserved p c) = c ∧ clearReserved (setReserved p c) = p := by
  have hv : BitVec.ult (BitVec.ofNat 32 c) 8#32 = true := ofNat_lt 8 (by omega) hc
  obtain ⟨a, b, _⟩ := set_reserved_bv p (BitVec.ofNat 32 c) hv ((getReserved_zero_iff p).mp hp)
  refine ⟨?_, ?_⟩
  · unfold getReserved setReserved; rw [a]; simp [BitVec.toNat_ofNat]; omega
  · unfold clearReserved setReserved RESERVED_MASK_NEGATIVE; exact b

theorem setReserved_zero (p : BitVec 64) (hp : getReserved p = 0) : setReserved p 0 = p := by
  obtain ⟨_, _, c⟩ := set_reserved_bv p 0#32 (by decide) ((getReserved_zero_iff p).mp hp)
  unfold setReserved; exact c

theorem setReserved_ne_zero (p : BitVec 64) (c : Nat) (hp : Normal p) (hc : c < 8) : setReserved p c ≠ 0#64 := by
  intro e
  have := (getReserved_setReserved p c hp.2 hc).2
  rw [e] at this
  apply hp.1
  rw [← this]
  unfold clearReserved RESERVED_MASK_NEGATIVE
  simp

theorem clearReserved_normal (e : BitVec 64) : getReserved (clearReserved e) = 0 := by
  unfold clearReserved RESERVED_MASK_NEGATIVE
  exact (getReserved_zero_iff _).mpr (clear_reserved_bv e).1

theorem getReserved_lt (e : BitVec 64) : getReserved e < 8 := by
  have := (field_ranges_bv e 1#32).2.2.2.2
  unfold getReserved
  rw [BitVec.ult] at this
  simpa using this

theorem stored_eq (e : BitVec 64) : e = setReserved (clearReserved e) (getReserved e) := by
  unfold setReserved clearReserved getReserved RESERVED_MASK_NEGATIVE
  rw [BitVec.ofNat_toNat, BitVec.setWidth_eq]
  exact (clear_reserved_bv e).2.symm

/-! ### arrays as slot functions -/

def slot (hs : Array (BitVec 64)) (s : Nat) : BitVec 64 := hs.getD s 0#64

theorem slot_set (hs : Array (BitVec 64)) (i : Nat) (v : BitVec 64) (hi : i < hs.size) (j : Nat) :
    slot (hs.setIfInBounds i v) j = if j = i then v else slot hs j := by
  unfold slot
  rw [Array.getD_eq_getD_getElem?, Array.getD_eq_getD_getElem?, Array.getElem?_setIfInBounds]
  by_cases e : j = i
  · subst e; simp [hi]
  · have : ¬ i = j := fun h => e h.symm
    simp [e, this]

/-- k-th probe location -/
def probe (n home k : Nat) : Nat := (home + k) % n

theorem probe_succ (n home k : Nat) : (probe n home k + 1) % n = probe n home (k + 1) := by
  unfold probe
  rw [Nat.add_mod, Nat.mod_mod, ← Nat.add_mod]
  congr 1

theorem probe_lt (n home k : Nat) (hn : 0 < n) : probe n home k < n := Nat.mod_lt _ hn

theorem probe_sub (n home k : Nat) (hk : n ≤ k) : probe n home (k - n) = probe n home k := by
  unfold probe
  have : home + k = home + (k - n) + n := by omega
  rw [this, Nat.add_mod_right]

/-- the table invariant: `cnt p` = number of children of `p` inserted so far -/
structure Tab (hs : Array (BitVec 64)) (n : Nat) (cnt : BitVec 64 → Nat) : Prop where
  size : n ≤ hs.size
  stored : ∀ s, s < n → slot hs s ≠ 0#64 →
    ∃ p, Normal p ∧ 1 ≤ cnt p ∧ cnt p ≤ 7 ∧ slot hs s = setReserved p (cnt p - 1)
  present : ∀ p, 1 ≤ cnt p → ∃ k, k < n ∧ clearReserved (slot hs (probe n (p.toNat % n) k)) = p ∧
    slot hs (probe n (p.toNat % n) k) ≠ 0#64 ∧ ∀ j, j < k → slot hs (probe n (p.toNat % n) j) ≠ 0#64
  unique : ∀ s t, s < n → t < n → slot hs s ≠ 0#64 → slot hs t ≠ 0#64 →
    clearReserved (slot hs s) = clearReserved (slot hs t) → s = t

theorem Tab.clear_of_stored {hs n cnt} (T : Tab hs n cnt) (s : Nat) (hs' : s < n) (h0 : slot hs s ≠ 0#64) :
    Normal (clearReserved (slot hs s)) ∧ 1 ≤ cnt (clearReserved (slot hs s)) ∧ cnt (clearReserved (slot hs s)) ≤ 7 ∧
    getReserved (slot hs s) + 1 = cnt (clearReserved (slot hs s)) := by
  obtain ⟨p, hp, c1, c7, e⟩ := T.stored s hs' h0
  obtain ⟨a, b⟩ := getReserved_setReserved p (cnt p - 1) hp.2 (by omega)
  rw [e, b, a]
  exact ⟨hp, c1, c7, by omega⟩

def bump (cnt : BitVec 64 → Nat) (p : BitVec 64) : BitVec 64 → Nat := fun q => if q = p then cnt p + 1 else cnt q

/-- **hashInsert**: whenever it returns, the table holds one more child of `p` -/
theorem hashInsert_spec (n : Nat) (hn : 0 < n) (p : BitVec 64) (hp : Normal p) :
    ∀ (fuel : Nat) (hs : Array (BitVec 64)) (cnt : BitVec 64 → Nat) (k : Nat) (hs' : Array (BitVec 64)),
      Tab hs n cnt →
      (∀ j, j < k → slot hs (probe n (p.toNat % n) j) ≠ 0#64 ∧ clearReserved (slot hs (probe n (p.toNat % n) j)) ≠ p) →
      hashInsert hs n p (probe n (p.toNat % n) k) k fuel = .ok hs' →
      Tab hs' n (bump cnt p) ∧ hs'.size = hs.size := by
  intro fuel
  induction fuel with
  | zero => intro hs cnt k hs' _ _ h; simp [hashInsert] at h
  | succ fuel ih =>
    intro hs cnt k hs' T hmiss h
    have hloc : probe n (p.toNat % n) k < n := probe_lt _ _ _ hn
    have hlocs : probe n (p.toNat % n) k < hs.size := Nat.lt_of_lt_of_le hloc T.size
    unfold hashInsert at h
    simp only [] at h
    obtain ⟨e, hE⟩ : ∃ e, slot hs (probe n (p.toNat % n) k) = e := ⟨_, rfl⟩
    have hE' : hs.getD (probe n (p.toNat % n) k) 0#64 = e := hE
    rw [hE'] at h
    by_cases he : (e != 0#64) = true
    · simp only [he, if_true] at h
      have he' : slot hs (probe n (p.toNat % n) k) ≠ 0#64 := by rw [hE]; simpa using he
      by_cases hl : k > n
      · simp [hl] at h
      · simp only [hl, if_false] at h
        by_cases hfound : (clearReserved e == p) = true
        · -- the parent is already there: one more child
          simp only [hfound, if_true] at h
          have hcl : clearReserved (slot hs (probe n (p.toNat % n) k)) = p := by rw [hE]; simpa using hfound
          obtain ⟨_, c1, c7, hcount⟩ := T.clear_of_stored _ hloc he'
          rw [hcl] at c1 c7 hcount
          rw [hE] at hcount
          by_cases hlim : getReserved e + 1 + 1 >
              (if isPentagon (clearReserved (clearReserved e)) = true then 6 else 7)
          · rw [if_pos hlim] at h; simp at h
          · rw [if_neg hlim] at h
            simp only [Except.ok.injEq] at h
            subst h
            have hcnt7 : cnt p + 1 ≤ 7 := by
              split at hlim <;> omega
            have hval : setReserved p (getReserved e + 1) = setReserved p (bump cnt p p - 1) := by
              simp only [bump, if_true]; rw [hcount]; congr 1
            have hnz : setReserved p (bump cnt p p - 1) ≠ 0#64 :=
              setReserved_ne_zero p _ hp (by simp only [bump, if_true]; omega)
            rw [hval]
            refine ⟨⟨by rw [Array.size_setIfInBounds]; exact T.size, ?_, ?_, ?_⟩, Array.size_setIfInBounds⟩
            · intro s hsn h0
              rw [slot_set hs _ _ hlocs] at h0 ⊢
              by_cases es : s = probe n (p.toNat % n) k
              · simp only [es, if_true]
                exact ⟨p, hp, by simp [bump], by simp only [bump, if_true]; omega, rfl⟩
              · simp only [es, if_false] at h0 ⊢
                obtain ⟨q, hq, d1, d7, eq⟩ := T.stored s hsn h0
                have hqp : q ≠ p := by
                  intro e; subst e
                  have : clearReserved (slot hs s) = clearReserved (slot hs (probe n (q.toNat % n) k)) := by
                    rw [hcl, eq, (getReserved_setReserved q _ hq.2 (by omega)).2]
                  exact es (T.unique s _ hsn hloc h0 he' this)
                exact ⟨q, hq, by simp [bump, hqp, d1], by simp [bump, hqp, d7], by simp [bump, hqp, eq]⟩
            · intro q hq1
              by_cases hqp : q = p
              · subst hqp
                refine ⟨k, ?_, ?_, ?_, ?_⟩
                · -- k < n: otherwise an earlier probe hit the same slot and missed
                  by_cases hk : k < n
                  · exact hk
                  · exfalso
                    have hk' : n ≤ k := by omega
                    have := (hmiss (k - n) (by omega)).2
                    rw [probe_sub _ _ _ hk'] at this
                    exact this hcl
                · rw [slot_set hs _ _ hlocs]; simp only [if_true]
                  exact (getReserved_setReserved q _ hp.2 (by simp only [bump, if_true]; omega)).2
                · rw [slot_set hs _ _ hlocs]; simp only [if_true]; exact hnz
                · intro j hj
                  rw [slot_set hs _ _ hlocs]
                  split
                  · exact hnz
                  · exact (hmiss j hj).1
              · have hq1' : 1 ≤ cnt q := by simpa [bump, hqp] using hq1
                obtain ⟨k', hk', c, nz, chain⟩ := T.present q hq1'
                refine ⟨k', hk', ?_, ?_, ?_⟩
                · rw [slot_set hs _ _ hlocs]
                  split
                  · next es =>
                    rw [es, hcl] at c
                    exact absurd c.symm hqp
                  · exact c
                · rw [slot_set hs _ _ hlocs]; split
                  · exact hnz
                  · exact nz
                · intro j hj
                  rw [slot_set hs _ _ hlocs]; split
                  · exact hnz
                  · exact chain j hj
            · intro s t hsn htn hs0 ht0 hc
              simp only [slot_set hs _ _ hlocs] at hs0 ht0 hc
              have hclp : clearReserved (setReserved p (bump cnt p p - 1)) = p :=
                (getReserved_setReserved p _ hp.2 (by simp only [bump, if_true]; omega)).2
              by_cases es : s = probe n (p.toNat % n) k <;> by_cases et : t = probe n (p.toNat % n) k
              · rw [es, et]
              · simp only [es, if_true, et, if_false, hclp] at hc ht0
                have hc' : clearReserved (slot hs t) = clearReserved (slot hs (probe n (p.toNat % n) k)) := by
                  rw [hcl]; exact hc.symm
                exact (et (T.unique t _ htn hloc ht0 he' hc')).elim
              · simp only [es, if_false, et, if_true, hclp] at hc hs0
                have hc' : clearReserved (slot hs s) = clearReserved (slot hs (probe n (p.toNat % n) k)) := by
                  rw [hcl]; exact hc
                exact (es (T.unique s _ hsn hloc hs0 he' hc')).elim
              · simp only [es, et, if_false] at hc hs0 ht0
                exact T.unique s t hsn htn hs0 ht0 hc
        · -- another parent: probe on
          simp only [hfound, Bool.false_eq_true, if_false] at h
          rw [probe_succ] at h
          have hne : clearReserved (slot hs (probe n (p.toNat % n) k)) ≠ p := by rw [hE]; simpa using hfound
          apply ih hs cnt (k + 1) hs' T _ h
          intro j hj
          by_cases e : j = k
          · subst e; exact ⟨he', hne⟩
          · exact hmiss j (by omega)
    · -- empty slot: the parent is new
      simp only [he, Bool.false_eq_true, if_false, Except.ok.injEq] at h
      subst h
      have he0 : slot hs (probe n (p.toNat % n) k) = 0#64 := by rw [hE]; simpa using he
      -- p is not in the table
      have hnew : cnt p = 0 := by
        by_cases hc : cnt p = 0
        · exact hc
        · exfalso
          obtain ⟨k', hk', c, nz, chain⟩ := T.present p (by omega)
          rcases Nat.lt_trichotomy k' k with hlt | heq | hgt
          · exact (hmiss k' hlt).2 c
          · rw [heq] at nz; exact nz he0
          · exact chain k hgt he0
      have hkn : k < n := by
        by_cases hk : k < n
        · exact hk
        · exfalso
          have hk' : n ≤ k := by omega
          have := (hmiss (k - n) (by omega)).1
          rw [probe_sub _ _ _ hk'] at this
          exact this he0
      have hp0 : setReserved p (bump cnt p p - 1) = p := by
        simp only [bump, if_true, hnew]; exact setReserved_zero p hp.2
      refine ⟨⟨by rw [Array.size_setIfInBounds]; exact T.size, ?_, ?_, ?_⟩, Array.size_setIfInBounds⟩
      · intro s hsn h0
        rw [slot_set hs _ _ hlocs] at h0 ⊢
        by_cases es : s = probe n (p.toNat % n) k
        · simp only [es, if_true]
          exact ⟨p, hp, by simp [bump], by simp [bump, hnew], hp0.symm⟩
        · simp only [es, if_false] at h0 ⊢
          obtain ⟨q, hq, d1, d7, eq⟩ := T.stored s hsn h0
          have hqp : q ≠ p := by intro e; subst e; omega
          exact ⟨q, hq, by simp [bump, hqp, d1], by simp [bump, hqp, d7], by simp [bump, hqp, eq]⟩
      · intro q hq1
        by_cases hqp : q = p
        · subst hqp
          refine ⟨k, hkn, ?_, ?_, ?_⟩
          · rw [slot_set hs _ _ hlocs]; simp only [if_true]
            have := (getReserved_setReserved q 0 hp.2 (by omega)).2
            rw [setReserved_zero q hp.2] at this; exact this
          · rw [slot_set hs _ _ hlocs]; simp only [if_true]; exact hp.1
          · intro j hj
            rw [slot_set hs _ _ hlocs]
            split
            · exact hp.1
            · exact (hmiss j hj).1
        · have hq1' : 1 ≤ cnt q := by simpa [bump, hqp] using hq1
          obtain ⟨k', hk', c, nz, chain⟩ := T.present q hq1'
          refine ⟨k', hk', ?_, ?_, ?_⟩
          · rw [slot_set hs _ _ hlocs]
            split
            · next es => rw [es] at nz; exact absurd he0 nz
            · exact c
          · rw [slot_set hs _ _ hlocs]; split
            · exact hp.1
            · exact nz
          · intro j hj
            rw [slot_set hs _ _ hlocs]; split
            · exact hp.1
            · exact chain j hj
      · intro s t hsn htn hs0 ht0 hc
        simp only [slot_set hs _ _ hlocs] at hs0 ht0 hc
        have hclp : clearReserved p = p := by
          have := (getReserved_setReserved p 0 hp.2 (by omega)).2
          rw [setReserved_zero p hp.2] at this; exact this
        have notp : ∀ u, u < n → slot hs u ≠ 0#64 → clearReserved (slot hs u) ≠ p := by
          intro u hu hu0 e
          obtain ⟨_, c1, _, _⟩ := T.clear_of_stored u hu hu0
          rw [e] at c1; omega
        by_cases es : s = probe n (p.toNat % n) k <;> by_cases et : t = probe n (p.toNat % n) k
        · rw [es, et]
        · simp only [es, if_true, et, if_false, hclp] at hc ht0
          exact (notp t htn ht0 hc.symm).elim
        · simp only [es, if_false, et, if_true, hclp] at hc hs0
          exact (notp s hsn hs0 hc).elim
        · simp only [es, et, if_false] at hc hs0 ht0
          exact T.unique s t hsn htn hs0 ht0 hc


/-! ### phase 1: hashing the parents -/

/-- the parent contributed by input slot `i` (none for an empty slot) -/
def parentAt (remaining : Array (BitVec 64)) (parentRes : Int) (i : Nat) : Option (BitVec 64) :=
  let cur := remaining.getD i 0#64
  if cur == 0#64 then none
  else match cellToParent cur parentRes with
    | .ok p => some p
    | .error _ => none

/-- the parents of the first `m` input slots, in input order -/
def parentsOf (remaining : Array (BitVec 64)) (parentRes : Int) (m : Nat) : List (BitVec 64) :=
  (List.range m).filterMap (parentAt remaining parentRes)

theorem parentsOf_succ (remaining : Array (BitVec 64)) (parentRes : Int) (m : Nat) :
    parentsOf remaining parentRes (m + 1) = parentsOf remaining parentRes m ++ (parentAt remaining parentRes m).toList := by
  unfold parentsOf
  rw [List.range_succ, List.filterMap_append]
  cases h : parentAt remaining parentRes m <;> simp [List.filterMap, h]

theorem tab_empty (n size : Nat) (h : n ≤ size) : Tab (Array.replicate size 0#64) n (fun _ => 0) := by
  have hz : ∀ s, slot (Array.replicate size 0#64) s = 0#64 := by
    intro s; unfold slot
    rw [Array.getD_eq_getD_getElem?]
    by_cases hs : s < size
    · simp [hs]
    · simp [hs]
  exact ⟨by simpa using h, fun s _ h0 => absurd (hz s) h0, fun p hp => by omega,
    fun s t _ _ h0 _ _ => absurd (hz s) h0⟩

theorem count_bump (l : List (BitVec 64)) (p : BitVec 64) :
    (fun q => (l ++ [p]).count q) = bump (fun q => l.count q) p := by
  funext q
  unfold bump
  rw [List.count_append]
  by_cases e : q = p
  · subst e; simp
  · have : ¬ p = q := fun h => e h.symm
    simp [e, this]

/-- **phase 1**: whenever it succeeds, the table counts the children of every parent -/
theorem phase1_spec (remaining : Array (BitVec 64)) (n : Nat) (hn : 0 < n) (parentRes : Int)
    (hpar : ∀ i p, i < n → parentAt remaining parentRes i = some p → Normal p)
    (hok : ∀ i, i < n → remaining.getD i 0#64 ≠ 0#64 → getReserved (remaining.getD i 0#64) = 0 →
      ∃ p, cellToParent (remaining.getD i 0#64) parentRes = .ok p) :
    ∀ (m : Nat), m ≤ n → ∀ (hs0 hs : Array (BitVec 64)), Tab hs0 n (fun _ => 0) →
      (List.range m).foldlM (init := hs0) (fun hs i =>
        let cur := remaining.getD i 0#64
        if cur == 0#64 then Except.ok hs
        else if getReserved cur != 0 then Except.error H3Error.cellInvalid
        else
          match cellToParent cur parentRes with
          | .error e => Except.error e
          | .ok parent => hashInsert hs n parent (parent.toNat % n) 0 (n + 2)) = .ok hs →
      Tab hs n (fun q => (parentsOf remaining parentRes m).count q) ∧ hs.size = hs0.size := by
  intro m
  induction m with
  | zero =>
    intro _ hs0 hs T h
    simp only [List.range_zero, List.foldlM_nil, pure, Except.pure, Except.ok.injEq] at h
    subst h
    exact ⟨by simpa [parentsOf] using T, rfl⟩
  | succ m ih =>
    intro hm hs0 hs T h
    rw [List.range_succ, List.foldlM_append] at h
    simp only [List.foldlM_cons, List.foldlM_nil, bind, Except.bind] at h
    cases hmid : (List.range m).foldlM (init := hs0) (fun hs i =>
        let cur := remaining.getD i 0#64
        if cur == 0#64 then Except.ok hs
        else if getReserved cur != 0 then Except.error H3Error.cellInvalid
        else
          match cellToParent cur parentRes with
          | .error e => Except.error e
          | .ok parent => hashInsert hs n parent (parent.toNat % n) 0 (n + 2)) with
    | error e => rw [hmid] at h; simp at h
    | ok hs1 =>
      rw [hmid] at h
      obtain ⟨T1, sz1⟩ := ih (by omega) hs0 hs1 T hmid
      simp only [] at h
      rw [parentsOf_succ]
      by_cases hc0 : (remaining.getD m 0#64 == 0#64) = true
      · simp only [hc0, if_true, pure, Except.pure, Except.ok.injEq] at h
        subst h
        have : parentAt remaining parentRes m = none := by simp only [parentAt, hc0, if_true]
        rw [this]; simp only [Option.toList_none, List.append_nil]
        exact ⟨T1, sz1⟩
      · simp only [hc0, Bool.false_eq_true, if_false] at h
        by_cases hrsv : (getReserved (remaining.getD m 0#64) != 0) = true
        · rw [if_pos hrsv] at h; simp at h
        · simp only [hrsv, Bool.false_eq_true, if_false] at h
          cases hp : cellToParent (remaining.getD m 0#64) parentRes with
          | error e => rw [hp] at h; simp at h
          | ok parent =>
            rw [hp] at h
            simp only [pure, Except.pure] at h
            have hpa : parentAt remaining parentRes m = some parent := by
              simp only [parentAt, hc0, Bool.false_eq_true, if_false, hp]
            have hnorm := hpar m parent (by omega) hpa
            cases hins : hashInsert hs1 n parent (parent.toNat % n) 0 (n + 2) with
            | error e => rw [hins] at h; simp at h
            | ok hs2 =>
              rw [hins] at h
              simp only [Except.ok.injEq] at h
              subst h
              have h0 : probe n (parent.toNat % n) 0 = parent.toNat % n := by
                unfold probe; simp [Nat.mod_mod]
              rw [← h0] at hins
              obtain ⟨T2, sz2⟩ := hashInsert_spec n hn parent hnorm (n + 2) hs1 _ 0 hs2 T1
                (fun j hj => by omega) hins
              rw [hpa]
              simp only [Option.toList_some]
              rw [count_bump]
              exact ⟨T2, by rw [sz2, sz1]⟩


/-! ### phase 2: collecting the complete parents -/

theorem set_reserved_any_bv (h : BitVec 64) (v : BitVec 32) (hv : BitVec.ult v 8#32 = true) :
    m_get_reserved (m_set_reserved h v) = v ∧
    (m_set_reserved h v) &&& m_reserved_mask_negative = h &&& m_reserved_mask_negative := by
  simp only [m_get_reserved, m_set_reserved, m_reserved_mask_negative] at *
  bv_decide

theorem setReserved_any (e : BitVec 64) (c : Nat) (hc : c < 8) :
    getReserved (setReserved e c) = c ∧ clearReserved (setReserved e c) = clearReserved e := by
  have hv : BitVec.ult (BitVec.ofNat 32 c) 8#32 = true := ofNat_lt 8 (by omega) hc
  obtain ⟨a, b⟩ := set_reserved_any_bv e (BitVec.ofNat 32 c) hv
  refine ⟨?_, ?_⟩
  · unfold getReserved setReserved; rw [a]; simp [BitVec.toNat_ofNat]; omega
  · unfold clearReserved setReserved RESERVED_MASK_NEGATIVE; exact b

theorem clearReserved_ne_zero_of (e : BitVec 64) (h : clearReserved e ≠ 0#64) : e ≠ 0#64 := by
  intro e0; apply h; rw [e0]; unfold clearReserved RESERVED_MASK_NEGATIVE; simp

/-- a parent is complete when all its children were counted: 7, or 6 for a pentagon -/
def complete (cnt : BitVec 64 → Nat) (p : BitVec 64) : Bool :=
  cnt p + (if isPentagon p then 1 else 0) == 7

/-- the table after phase 2 -/
structure After (hs hs' : Array (BitVec 64)) (n : Nat) (cnt : BitVec 64 → Nat) (m : Nat) : Prop where
  size : hs'.size = hs.size
  later : ∀ s, m ≤ s → slot hs' s = slot hs s
  zero : ∀ s, s < m → slot hs s = 0#64 → slot hs' s = 0#64
  nz : ∀ s, s < m → slot hs s ≠ 0#64 →
    clearReserved (slot hs' s) = clearReserved (slot hs s) ∧
    getReserved (slot hs' s) + 1 = cnt (clearReserved (slot hs s)) + (if isPentagon (clearReserved (slot hs s)) then 1 else 0)

/-- what phase 2 pushes for slot `s` -/
def pickAt (hs : Array (BitVec 64)) (cnt : BitVec 64 → Nat) (s : Nat) : Option (BitVec 64) :=
  if slot hs s == 0#64 then none
  else if complete cnt (clearReserved (slot hs s)) then some (clearReserved (slot hs s)) else none

theorem phase2_spec (hs : Array (BitVec 64)) (n : Nat) (cnt : BitVec 64 → Nat) (T : Tab hs n cnt) :
    ∀ m, m ≤ n →
      let r := (List.range m).foldl (init := (hs, (#[] : Array (BitVec 64)))) (fun (x : Array (BitVec 64) × Array (BitVec 64)) i =>
        let e := x.1.getD i 0#64
        if e == 0#64 then (x.1, x.2)
        else
          let count := getReserved e + 1
          let y : Array (BitVec 64) × BitVec 64 × Nat :=
            if isPentagon (clearReserved e) then
              (x.1.setIfInBounds i (setReserved e count), setReserved e count, count + 1)
            else (x.1, e, count)
          if y.2.2 == 7 then (y.1, x.2.push (clearReserved y.2.1)) else (y.1, x.2))
      After hs r.1 n cnt m ∧ r.2.toList = (List.range m).filterMap (pickAt hs cnt) := by
  intro m
  induction m with
  | zero =>
    intro _
    exact ⟨⟨rfl, fun _ _ => rfl, fun s h => by omega, fun s h => by omega⟩, rfl⟩
  | succ m ih =>
    intro hm
    obtain ⟨A, hacc⟩ := ih (by omega)
    simp only [List.range_succ, List.foldl_append, List.foldl_cons, List.foldl_nil, List.filterMap_append]
    generalize (List.range m).foldl _ (hs, (#[] : Array (BitVec 64))) = x at A hacc ⊢
    obtain ⟨hs1, acc⟩ := x
    simp only [] at A hacc ⊢
    have hms : m < hs1.size := by rw [A.size]; exact Nat.lt_of_lt_of_le (by omega) T.size
    have hcur : hs1.getD m 0#64 = slot hs m := A.later m (Nat.le_refl _)
    rw [hcur]
    have hfm : List.filterMap (pickAt hs cnt) [m] = (pickAt hs cnt m).toList := by
      cases h : pickAt hs cnt m <;> simp [List.filterMap, h]
    by_cases h0 : (slot hs m == 0#64) = true
    · simp only [h0, if_true]
      have h0' : slot hs m = 0#64 := by simpa using h0
      refine ⟨⟨A.size, fun s hs' => A.later s (by omega), ?_, ?_⟩, ?_⟩
      · intro s hs' hz
        by_cases e : s = m
        · subst e; rw [A.later s (Nat.le_refl _)]; exact hz
        · exact A.zero s (by omega) hz
      · intro s hs' hnz
        by_cases e : s = m
        · subst e; exact absurd h0' hnz
        · exact A.nz s (by omega) hnz
      · rw [hfm]; simp [hacc, pickAt, h0]
    · simp only [h0, Bool.false_eq_true, if_false]
      have hnz : slot hs m ≠ 0#64 := by simpa using h0
      obtain ⟨hnorm, c1, c7, hcount⟩ := T.clear_of_stored m (by omega) hnz
      have hr8 := getReserved_lt (slot hs m)
      by_cases hp : isPentagon (clearReserved (slot hs m)) = true
      · simp only [hp, if_true]
        obtain ⟨g1, g2⟩ := setReserved_any (slot hs m) (getReserved (slot hs m) + 1) (by omega)
        have hpick : pickAt hs cnt m = if getReserved (slot hs m) + 1 + 1 == 7 then some (clearReserved (slot hs m)) else none := by
          unfold pickAt complete
          simp only [h0, Bool.false_eq_true, if_false, hp, if_true, ← hcount]
        refine ⟨?_, ?_⟩
        · split <;> (
            refine ⟨by simp only [Array.size_setIfInBounds]; exact A.size, ?_, ?_, ?_⟩
            · intro s hs'
              rw [slot_set hs1 _ _ hms]
              have : s ≠ m := by omega
              simp only [this, if_false]; exact A.later s (by omega)
            · intro s hs' hz
              rw [slot_set hs1 _ _ hms]
              by_cases e : s = m
              · subst e; exact absurd hz hnz
              · simp only [e, if_false]; exact A.zero s (by omega) hz
            · intro s hs' hnz'
              rw [slot_set hs1 _ _ hms]
              by_cases e : s = m
              · subst e; simp only [if_true, g1, g2, hp, if_true]; exact ⟨trivial, by omega⟩
              · simp only [e, if_false]; exact A.nz s (by omega) hnz')
        · rw [hfm, hpick]
          split
          · next h7 => simp [hacc, g2]
          · next h7 => simp [hacc]
      · simp only [hp, Bool.false_eq_true, if_false]
        have hpick : pickAt hs cnt m = if getReserved (slot hs m) + 1 == 7 then some (clearReserved (slot hs m)) else none := by
          unfold pickAt complete
          simp only [h0, Bool.false_eq_true, if_false, hp, Nat.add_zero, ← hcount]
        refine ⟨?_, ?_⟩
        · split <;> (
            refine ⟨A.size, fun s hs' => A.later s (by omega), ?_, ?_⟩
            · intro s hs' hz
              by_cases e : s = m
              · subst e; exact absurd hz hnz
              · exact A.zero s (by omega) hz
            · intro s hs' hnz'
              by_cases e : s = m
              · subst e; rw [A.later s (Nat.le_refl _)]
                simp only [hp, Bool.false_eq_true, if_false, Nat.add_zero]
                exact ⟨trivial, hcount⟩
              · exact A.nz s (by omega) hnz')
        · rw [hfm, hpick]
          split
          · next h7 => simp [hacc]
          · next h7 => simp [hacc]


/-! ### phase 3: which cells stay -/

theorem parentIsComplete_spec (hs hs' : Array (BitVec 64)) (n : Nat) (hn : 0 < n) (cnt : BitVec 64 → Nat)
    (T : Tab hs n cnt) (A : After hs hs' n cnt n) (p : BitVec 64) (hp : Normal p) :
    ∀ (fuel loc lc : Nat) (b : Bool), loc < n → parentIsComplete hs' n p loc lc fuel = .ok b → b = complete cnt p := by
  have key : ∀ loc, loc < n → clearReserved (slot hs' loc) = p →
      (getReserved (slot hs' loc) + 1 == 7) = complete cnt p := by
    intro loc hl hc
    have hnz' : slot hs' loc ≠ 0#64 := clearReserved_ne_zero_of _ (by rw [hc]; exact hp.1)
    have hnz : slot hs loc ≠ 0#64 := fun h0 => hnz' (A.zero loc hl h0)
    obtain ⟨a1, a2⟩ := A.nz loc hl hnz
    rw [hc] at a1
    rw [← a1] at a2
    unfold complete
    rw [a2]
  intro fuel
  induction fuel with
  | zero => intro loc lc b _ h; simp [parentIsComplete] at h
  | succ fuel ih =>
    intro loc lc b hl h
    unfold parentIsComplete at h
    by_cases hlc : lc > n
    · simp [hlc] at h
    · simp only [hlc, if_false] at h
      have hE : hs'.getD loc 0#64 = slot hs' loc := rfl
      rw [hE] at h
      by_cases hf : (clearReserved (slot hs' loc) == p) = true
      · simp only [hf, if_true, Except.ok.injEq] at h
        rw [← h]
        exact key loc hl (by simpa using hf)
      · simp only [hf, Bool.false_eq_true, if_false] at h
        have hl' : (loc + 1) % n < n := Nat.mod_lt _ hn
        have hE' : hs'.getD ((loc + 1) % n) 0#64 = slot hs' ((loc + 1) % n) := rfl
        rw [hE'] at h
        by_cases hraw : (slot hs' ((loc + 1) % n) != p) = true
        · simp only [hraw, if_true] at h
          exact ih _ _ b hl' h
        · simp only [hraw, Bool.false_eq_true, if_false, Except.ok.injEq] at h
          have hrawe : slot hs' ((loc + 1) % n) = p := by simpa using hraw
          have hclp : clearReserved p = p := by
            have := (getReserved_setReserved p 0 hp.2 (by omega)).2
            rw [setReserved_zero p hp.2] at this; exact this
          have := key ((loc + 1) % n) hl' (by rw [hrawe]; exact hclp)
          rw [hrawe, hp.2] at this
          rw [← h, ← this]
          rfl

/-- what phase 3 keeps of input slot `i` -/
def keepAt (remaining : Array (BitVec 64)) (parentRes : Int) (cnt : BitVec 64 → Nat) (i : Nat) : Option (BitVec 64) :=
  match parentAt remaining parentRes i with
  | none => none
  | some p => if complete cnt p then none else some (remaining.getD i 0#64)

/-- the loop body of phase 3 -/
def phase3Step (remaining : Array (BitVec 64)) (n : Nat) (parentRes : Int) (hs' : Array (BitVec 64))
    (acc : Array (BitVec 64)) (i : Nat) : R (Array (BitVec 64)) :=
  let cur := remaining.getD i 0#64
  if cur == 0#64 then Except.ok acc
  else if parentRes >= 0 then
    match cellToParent cur parentRes with
    | .error e => Except.error e
    | .ok parent =>
      match parentIsComplete hs' n parent (parent.toNat % n) 0 (n + 2) with
      | .error e => Except.error e
      | .ok complete => if complete then Except.ok acc else Except.ok (acc.push cur)
  else Except.ok (acc.push cur)

theorem compactPhase3_eq (remaining : Array (BitVec 64)) (n : Nat) (parentRes : Int) (hs' : Array (BitVec 64)) :
    compactPhase3 remaining n parentRes hs' =
      (List.range n).foldlM (init := (#[] : Array (BitVec 64))) (phase3Step remaining n parentRes hs') := rfl

theorem phase3_spec (remaining : Array (BitVec 64)) (n : Nat) (hn : 0 < n) (parentRes : Int) (hpr : 0 ≤ parentRes)
    (hs hs' : Array (BitVec 64)) (cnt : BitVec 64 → Nat) (T : Tab hs n cnt) (A : After hs hs' n cnt n)
    (hpar : ∀ i p, i < n → parentAt remaining parentRes i = some p → Normal p) :
    ∀ m, m ≤ n → ∀ unc, (List.range m).foldlM (init := (#[] : Array (BitVec 64)))
        (phase3Step remaining n parentRes hs') = .ok unc →
      unc.toList = (List.range m).filterMap (keepAt remaining parentRes cnt) := by
  intro m
  induction m with
  | zero =>
    intro _ unc h
    simp only [List.range_zero, List.foldlM_nil, pure, Except.pure, Except.ok.injEq] at h
    subst h; rfl
  | succ m ih =>
    intro hm unc h
    rw [List.range_succ, List.foldlM_append] at h
    simp only [List.foldlM_cons, List.foldlM_nil, bind, Except.bind] at h
    cases hmid : (List.range m).foldlM (init := (#[] : Array (BitVec 64))) (phase3Step remaining n parentRes hs') with
    | error e => rw [hmid] at h; simp at h
    | ok acc =>
      rw [hmid] at h
      have hacc := ih (by omega) acc hmid
      simp only [phase3Step] at h
      rw [List.range_succ, List.filterMap_append]
      have hfm : List.filterMap (keepAt remaining parentRes cnt) [m] = (keepAt remaining parentRes cnt m).toList := by
        cases hk : keepAt remaining parentRes cnt m <;> simp [List.filterMap, hk]
      rw [hfm]
      by_cases hc0 : (remaining.getD m 0#64 == 0#64) = true
      · simp only [hc0, if_true, pure, Except.pure, Except.ok.injEq] at h
        subst h
        have : keepAt remaining parentRes cnt m = none := by
          simp only [keepAt, parentAt, hc0, if_true]
        simp [this, hacc]
      · simp only [hc0, Bool.false_eq_true, if_false] at h
        have hge : (parentRes >= 0) := hpr
        rw [if_pos hge] at h
        cases hp : cellToParent (remaining.getD m 0#64) parentRes with
        | error e => rw [hp] at h; simp at h
        | ok parent =>
          rw [hp] at h
          simp only [] at h
          have hpa : parentAt remaining parentRes m = some parent := by
            simp only [parentAt, hc0, Bool.false_eq_true, if_false, hp]
          have hnorm := hpar m parent (by omega) hpa
          cases hpc : parentIsComplete hs' n parent (parent.toNat % n) 0 (n + 2) with
          | error e => rw [hpc] at h; simp at h
          | ok b =>
            rw [hpc] at h
            simp only [] at h
            have hb := parentIsComplete_spec hs hs' n hn cnt T A parent hnorm (n + 2) _ 0 b (Nat.mod_lt _ hn) hpc
            have hk : keepAt remaining parentRes cnt m = if complete cnt parent then none else some (remaining.getD m 0#64) := by
              simp only [keepAt, hpa]
            rw [hk, ← hb]
            by_cases hbb : b = true
            · simp only [hbb, if_true, pure, Except.pure, Except.ok.injEq] at h ⊢
              subst h; simp [hacc]
            · simp only [hbb, Bool.false_eq_true, if_false, pure, Except.pure, Except.ok.injEq] at h ⊢
              subst h; simp [hacc]

end H3.C06Hash
