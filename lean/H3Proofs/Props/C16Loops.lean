/-
C16 — loop extraction (`_vertexGraphToLinkedGeo`) on a balanced graph: every extracted loop is closed
and the loops use every residual edge exactly once.

The walk that starts with an edge `e` of a balanced graph can only get stuck at the vertex it started
from (anywhere else one more edge leaves than has arrived), so the emitted vertices form a closed
cycle; what is left is balanced again.  No assumption on out-degrees (pinch vertices allowed), none on
the order in which edges are found.
-/
import H3Proofs.Props.C16

namespace H3.C16
open H3.MP

variable {V : Type} [DecidableEq V]

/-- edges of the path through `vs` that ends in `s` -/
def pathEdges (vs : List V) (s : V) : List (V × V) := vs.zip (vs.tail ++ [s])

omit [DecidableEq V] in
theorem pathEdges_cons (a b : V) (rest : List V) (s : V) :
    pathEdges (a :: b :: rest) s = (a, b) :: pathEdges (b :: rest) s := by
  simp [pathEdges]

omit [DecidableEq V] in
theorem pathEdges_single (a s : V) : pathEdges [a] s = [(a, s)] := by simp [pathEdges]

omit [DecidableEq V] in
theorem cellEdges_eq_path (a : V) (rest : List V) : cellEdges (a :: rest) = pathEdges (a :: rest) a := by
  simp [cellEdges, pathEdges]

/-- no edge leaves `v`: the balance at `v` is not positive -/
theorem bal_nonpos_of_no_out (g : List (V × V)) (v : V) (h : g.find? (fun x => x.1 == v) = none) : bal g v ≤ 0 := by
  unfold bal
  have : g.filter (fun e => e.1 == v) = [] := by
    rw [List.filter_eq_nil_iff]
    intro a ha
    have := List.find?_eq_none.mp h a ha
    simpa using this
  rw [this]
  simp

/-- **the inner walk**: from an edge `e` of a graph that is balanced except for one surplus outgoing edge
at `e.1` and one surplus incoming edge at `s` (balanced when `e.1 = s`), the walk returns a non-empty
vertex list starting at `e.1` whose path to `s` consists of edges of `g`, each used once, and leaves a
balanced graph. -/
theorem walk_spec : ∀ (fuel : Nat) (g : List (V × V)) (e : V × V) (s : V), e ∈ g → g.length ≤ fuel + 1 →
    (∀ v, bal g v = (if e.1 == v then 1 else 0) - (if s == v then 1 else 0)) →
    (walk fuel g e).1.head? = some e.1 ∧
    g.Perm (pathEdges (walk fuel g e).1 s ++ (walk fuel g e).2) ∧
    (∀ v, bal (walk fuel g e).2 v = 0) := by
  intro fuel
  induction fuel with
  | zero =>
    intro g e s he hl hb
    -- g = [e]
    have hg : g = [e] := by
      cases g with
      | nil => simp at he
      | cons x xs =>
        cases xs with
        | nil => simp at he; rw [he]
        | cons y ys => simp at hl
    subst hg
    simp only [walk, List.erase_cons_head]
    have h2 := hb e.2
    have hs : e.2 = s := by
      by_cases hne : e.2 = s
      · exact hne
      · exfalso
        have := hb e.2
        rw [bal_cons, bal_nil] at this
        have c : (s == e.2) = false := by simpa using fun h => hne h.symm
        simp [c] at this
        omega
    refine ⟨rfl, ?_, fun v => bal_nil v⟩
    rw [pathEdges_single, ← hs]
    simp
  | succ fuel ih =>
    intro g e s he hl hb
    have hb' : ∀ v, bal (g.erase e) v = (if e.2 == v then 1 else 0) - (if s == v then 1 else 0) := by
      intro v
      rw [bal_erase g e he v, hb v]; omega
    have hlen : (g.erase e).length = g.length - 1 := List.length_erase_of_mem he
    have hperm : g.Perm (e :: g.erase e) := List.perm_cons_erase he
    unfold walk
    simp only []
    cases hf : (g.erase e).find? (fun x => x.1 == e.2) with
    | none =>
      simp only []
      have hle := bal_nonpos_of_no_out (g.erase e) e.2 hf
      have hs : e.2 = s := by
        by_cases hne : e.2 = s
        · exact hne
        · exfalso
          have c : (s == e.2) = false := by simpa using fun h => hne h.symm
          have := hb' e.2
          simp [c] at this
          omega
      refine ⟨rfl, ?_, ?_⟩
      · rw [pathEdges_single, ← hs]
        simpa using hperm
      · intro v; rw [hb' v, hs]; omega
    | some nx =>
      simp only []
      have hnx : nx ∈ g.erase e := List.mem_of_find?_eq_some hf
      have hnx1 : nx.1 = e.2 := by
        have := List.find?_some hf
        simpa using this
      have R := ih (g.erase e) nx s hnx (by omega) (by intro v; rw [hb' v, hnx1])
      obtain ⟨Rh, Rp, Rb⟩ := R
      refine ⟨rfl, ?_, Rb⟩
      -- the path: e.1 :: (walk …).1, whose head is nx.1 = e.2
      cases hw : (walk fuel (g.erase e) nx).1 with
      | nil => rw [hw] at Rh; simp at Rh
      | cons b rest =>
        rw [hw] at Rh Rp
        have hb1 : b = e.2 := by
          have : b = nx.1 := by simpa using Rh
          rw [this, hnx1]
        rw [pathEdges_cons, hb1]
        have : (e.1, e.2) = e := rfl
        rw [this]
        refine hperm.trans ?_
        rw [hb1] at Rp
        exact List.Perm.cons e Rp

/-- **C16: one extracted loop is closed.** In a balanced graph the walk from any edge returns a cycle:
the cyclic edges of the emitted vertex list together with what is left are exactly the graph. -/
theorem walk_closed (g : List (V × V)) (e : V × V) (he : e ∈ g) (hb : ∀ v, bal g v = 0) :
    ∃ a rest, (walk g.length g e).1 = a :: rest ∧ a = e.1 ∧
    g.Perm (cellEdges (a :: rest) ++ (walk g.length g e).2) ∧ (∀ v, bal (walk g.length g e).2 v = 0) := by
  have R := walk_spec g.length g e e.1 he (by omega) (by intro v; rw [hb v]; omega)
  obtain ⟨Rh, Rp, Rb⟩ := R
  cases hw : (walk g.length g e).1 with
  | nil => rw [hw] at Rh; simp at Rh
  | cons a rest =>
    rw [hw] at Rh Rp
    have ha : a = e.1 := by simpa using Rh
    refine ⟨a, rest, rfl, ha, ?_, Rb⟩
    rw [cellEdges_eq_path, ha]
    rw [ha] at Rp
    exact Rp

theorem walk_length_lt (g : List (V × V)) (e : V × V) (he : e ∈ g) (hb : ∀ v, bal g v = 0) :
    (walk g.length g e).2.length < g.length := by
  obtain ⟨a, rest, hw, _, hp, _⟩ := walk_closed g e he hb
  have := hp.length_eq
  simp only [List.length_append] at this
  have hc : (cellEdges (a :: rest)).length ≥ 1 := by simp [cellEdges]
  omega

/-- **C16: the extracted loops are closed cycles that use every residual edge exactly once** -/
theorem extract_spec : ∀ (fuel : Nat) (g : List (V × V)), g.length ≤ fuel → (∀ v, bal g v = 0) →
    g.Perm ((extract fuel g).flatMap cellEdges) ∧ (∀ lp ∈ extract fuel g, lp ≠ []) := by
  intro fuel
  induction fuel with
  | zero =>
    intro g hl _
    have : g = [] := List.eq_nil_of_length_eq_zero (by omega)
    subst this
    simp [extract]
  | succ fuel ih =>
    intro g hl hb
    cases g with
    | nil => simp [extract]
    | cons e rest =>
      simp only [extract]
      obtain ⟨a, r, hw, _, hp, hb'⟩ := walk_closed (e :: rest) e (by simp) hb
      have hlt := walk_length_lt (e :: rest) e (by simp) hb
      have R := ih (walk (e :: rest).length (e :: rest) e).2 (by simp only [List.length_cons] at hlt hl ⊢; omega) hb'
      constructor
      · simp only [List.flatMap_cons]
        rw [hw]
        exact hp.trans (List.Perm.append_left _ R.1)
      · intro lp hlp
        rcases List.mem_cons.mp hlp with h | h
        · rw [h, hw]; simp
        · exact R.2 lp h

/-- **C16 (combinatorial core, all inputs): for any list of cells given by their cyclic vertex lists,
in any order, the loops extracted from the residual vertex graph are closed cycles, each residual
edge lies on exactly one of them, and every loop edge is a boundary edge of some input cell.** -/
theorem loops_of_cells (cells : List (List V)) :
    (vertexGraph cells).Perm ((extractLoops (vertexGraph cells)).flatMap cellEdges) ∧
    (∀ lp ∈ extractLoops (vertexGraph cells), lp ≠ []) ∧
    (∀ lp ∈ extractLoops (vertexGraph cells), ∀ x ∈ cellEdges lp, ∃ c ∈ cells, x ∈ cellEdges c) := by
  have E := extract_spec (vertexGraph cells).length (vertexGraph cells) (Nat.le_refl _) (vertexGraph_balanced cells)
  refine ⟨E.1, E.2, ?_⟩
  intro lp hlp x hx
  apply vertexGraph_edges_from_cells cells x
  apply E.1.symm.subset
  exact List.mem_flatMap.mpr ⟨lp, hlp, hx⟩

end H3.C16
