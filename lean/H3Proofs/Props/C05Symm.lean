/-
C05 — adjacency is symmetric and the neighbours are pairwise distinct, at every resolution, inside a
hexagon base cell (steps whose carry does not leave the base cell): if `h'` is the neighbour of `h` in
direction `d`, then `h` is the neighbour of `h'` in the opposite direction `7 − d`; neighbours in
different directions differ, and none equals `h`.  From Theorem A (the digit tables are aperture-7
addition) and the uniqueness of aperture-7 digit expansions (Lemmas/CoordInj.lean).
-/
import H3Proofs.Lemmas.CoordInj
import H3Proofs.Props.C05Neighbor
import Mathlib.Tactic.Set

namespace H3.C05S
open H3 H3.DP H3.Bits H3.C05N

/-- the interior neighbour step with its digit-level description -/
theorem neighbor_interior (h : BitVec 64) (dir : Nat)
    (hbc : getBaseCell h < 122) (hhex : isBaseCellPentagon (getBaseCell h) = false)
    (hres : 1 ≤ getRes h) (hdig : Digits (revDigits h (getRes h))) (hdir : dir < 7)
    (hstay : (passR (revDigits h (getRes h)) dir).2 = 0) :
    ∃ h', h3NeighborRotations h dir 0 = .ok (h', 0) ∧
      revDigits h' (getRes h) = (passR (revDigits h (getRes h)) dir).1 ∧ SameOutside h h' (getRes h) := by
  have hr15 : getRes h ≤ 15 := by have := getRes_lt h; omega
  obtain ⟨h', atBase, e1, e2, e3, e4, e5⟩ := digitPass_eq (getRes h) h dir hr15 hdir hdig
  have hnone : atBase = none := by
    cases atBase with
    | none => rfl
    | some D =>
      obtain ⟨g1, g2⟩ := e5 D rfl
      rcases g2 with ⟨g, _⟩ | g
      · omega
      · rw [hstay] at g1; exact absurd g1.symm g
  subst hnone
  refine ⟨h', ?_, e2, e3⟩
  unfold h3NeighborRotations
  have h7 : ¬ dir ≥ 7 := by omega
  have hb : ¬ getBaseCell h ≥ 122 := by omega
  simp only [h7, if_false, Nat.zero_mod, iterate, hb, e1]
  unfold finishNeighbor baseCellSwitch
  simp only [e3.bc, hhex, Bool.false_eq_true, if_false, Int.toNat_zero, iterate, Nat.add_zero, Nat.zero_mod]

theorem getDigit_of_revDigits (a b : BitVec 64) : ∀ n, revDigits a n = revDigits b n →
    ∀ r, 1 ≤ r → r ≤ n → getDigit a r = getDigit b r := by
  intro n
  induction n with
  | zero => intro _ r h1 h2; omega
  | succ n ih =>
    intro h r h1 h2
    simp only [revDigits, List.cons.injEq] at h
    by_cases e : r = n + 1
    · subst e; exact h.1
    · exact ih h.2 r h1 (by omega)

/-- **C05: adjacency is symmetric (hexagon base cell, interior step), every resolution** -/
theorem neighbor_symm_interior (h : BitVec 64) (dir : Nat)
    (hbc : getBaseCell h < 122) (hhex : isBaseCellPentagon (getBaseCell h) = false)
    (hres : 1 ≤ getRes h) (hdig : Digits (revDigits h (getRes h))) (hd1 : 1 ≤ dir) (hdir : dir < 7)
    (hstay : (passR (revDigits h (getRes h)) dir).2 = 0) :
    ∃ h', h3NeighborRotations h dir 0 = .ok (h', 0) ∧ h' ≠ h ∧
      h3NeighborRotations h' (7 - dir) 0 = .ok (h, 0) := by
  obtain ⟨h', e1, e2, e3⟩ := neighbor_interior h dir hbc hhex hres hdig hdir hstay
  set n := getRes h with hn
  set rev := revDigits h n with hrev
  obtain ⟨l1, dg1, _, c1⟩ := theoremA rev dir hdig hdir
  rw [hstay, uax_zero, lift_zero, vadd_zero] at c1
  have hres' : getRes h' = n := e3.res
  have hdig' : Digits (revDigits h' (getRes h')) := by rw [hres', e2]; exact dg1
  have hopp : 7 - dir < 7 := by omega
  -- the reverse step: its carry is 0 and it restores the digits, by uniqueness of expansions
  obtain ⟨l2, dg2, D2lt, c2⟩ := theoremA (passR rev dir).1 (7 - dir) dg1 hopp
  have hback : vadd (coordR (passR rev dir).1) (uax (7 - dir)) = coordR rev := by
    rw [c1, vadd_assoc, uax_opposite ⟨dir, hdir⟩ hd1, vadd_zero]
  rw [hback] at c2
  have huniq := coord_unique (passR (passR rev dir).1 (7 - dir)).1 rev (passR (passR rev dir).1 (7 - dir)).2 0
    (by rw [l2, l1]) dg2 hdig D2lt (by omega)
    (by rw [l2, l1, uax_zero, lift_zero, vadd_zero]; rw [l1] at c2; exact c2)
  obtain ⟨u1, u2⟩ := huniq
  have hstay' : (passR (revDigits h' (getRes h')) (7 - dir)).2 = 0 := by rw [hres', e2]; exact u2
  obtain ⟨h'', f1, f2, f3⟩ := neighbor_interior h' (7 - dir) (by rw [e3.bc]; exact hbc) (by rw [e3.bc]; exact hhex)
    (by rw [hres']; exact hres) hdig' hopp hstay'
  rw [hres', e2, u1] at f2
  -- h'' = h
  have hEq : h'' = h := by
    have hd : ∀ r, 1 ≤ r → r ≤ 15 → getDigit h'' r = getDigit h r := by
      intro r r1 r15
      by_cases hr : r ≤ n
      · exact getDigit_of_revDigits h'' h n f2 r r1 hr
      · rw [f3.above r (by rw [hres']; omega) r15, e3.above r (by omega) r15]
    exact Bits.ext h'' h (by rw [f3.high, e3.high]) (by rw [f3.mode, e3.mode]) (by rw [f3.rsv, e3.rsv])
      (by rw [f3.res, e3.res]) (by rw [f3.bc, e3.bc]) hd
  rw [hEq] at f1
  refine ⟨h', e1, ?_, f1⟩
  -- h' ≠ h : the coordinates differ by a non-zero unit vector
  intro e
  rw [e] at e2
  have : coordR rev = vadd (coordR rev) (uax dir) := by rw [← c1, ← e2]
  have hz : uax dir = (0, 0) := by
    unfold vadd at this
    have a := congrArg Prod.fst this
    have b := congrArg Prod.snd this
    simp only at a b
    exact Prod.ext (by simp only; omega) (by simp only; omega)
  have := uax_injective_nat dir 0 hdir (by omega) (by rw [hz, uax_zero])
  omega

/-- **C05: neighbours in different directions are different cells (interior steps)** -/
theorem neighbors_distinct_interior (h : BitVec 64) (d1 d2 : Nat)
    (hbc : getBaseCell h < 122) (hhex : isBaseCellPentagon (getBaseCell h) = false)
    (hres : 1 ≤ getRes h) (hdig : Digits (revDigits h (getRes h))) (h1 : d1 < 7) (h2 : d2 < 7) (hne : d1 ≠ d2)
    (hs1 : (passR (revDigits h (getRes h)) d1).2 = 0) (hs2 : (passR (revDigits h (getRes h)) d2).2 = 0)
    (a b : BitVec 64) (ha : h3NeighborRotations h d1 0 = .ok (a, 0)) (hb : h3NeighborRotations h d2 0 = .ok (b, 0)) :
    a ≠ b := by
  obtain ⟨a', ea, ra, _⟩ := neighbor_interior h d1 hbc hhex hres hdig h1 hs1
  obtain ⟨b', eb, rb, _⟩ := neighbor_interior h d2 hbc hhex hres hdig h2 hs2
  rw [ea] at ha; rw [eb] at hb
  simp only [Except.ok.injEq, Prod.mk.injEq, and_true] at ha hb
  subst ha hb
  intro e
  rw [e] at ra
  have c1 := theoremA_inside _ d1 hdig h1 hs1
  have c2 := theoremA_inside _ d2 hdig h2 hs2
  rw [← ra, rb, c2] at c1
  have hz : uax d2 = uax d1 := by
    unfold vadd at c1
    have x := congrArg Prod.fst c1
    have y := congrArg Prod.snd c1
    simp only at x y
    exact Prod.ext (by omega) (by omega)
  exact hne (uax_injective_nat d2 d1 h2 h1 hz).symm

-- non-vacuity: res-2 cell of hexagon base cell 20, direction 4 stays inside the base cell
example : (passR (revDigits 0x822807fffffffff#64 2) 4).2 = 0 := by decide +kernel

end H3.C05S
