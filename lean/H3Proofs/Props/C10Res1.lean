/-
C10 — complete resolutions 0 and 1 (964 cells), decided in the kernel over the regenerated tables: for
every cell and each of its neighbours cellsToDirectedEdge yields an edge accepted by isValidDirectedEdge
whose origin and destination decode back to the pair and which originToDirectedEdges lists;
originToDirectedEdges lists six edges (five and a null slot for a pentagon).  Family result.
-/
import H3Proofs.Props.C05Res1a
import H3Model.EdgeVertex

namespace H3.Small
open H3 H3.C05A

def cells01 : List (BitVec 64) := getRes0Cells ++ cells1

def edgesOK (h : BitVec 64) : Bool :=
  let es := originToDirectedEdges h
  (es.length == 6) && ((es.filter (· != 0#64)).length == (if isPentagon h then 5 else 6)) &&
  (cellNeighbors h).all (fun n =>
    match cellsToDirectedEdge h n with
    | .ok e => isValidDirectedEdge e && (getDirectedEdgeOrigin e == .ok h) &&
        (getDirectedEdgeDestination e == .ok n) && es.contains e
    | .error _ => false)

theorem res01_edges : cells01.all edgesOK = true := by
  decide +kernel

end H3.Small
