/-
C05 — the safe disk algorithm is breadth-first search, for ANY neighbour function.
Subject: `visitL` / `diskL` (H3Model/DiskSpec.lean), the map-level form of
`_gridDiskDistancesInternal` (recursive relax-and-recurse).  Tied to the C code by the `diskmap`
correspondence stream with `nbr` = the model's neighbour step.

`visitL_is_bfs`: after `visitL nbr k (k+1) o 0 []` a vertex has an entry d  iff  d is the length of a
shortest walk from o to it and d ≤ k.  No symmetry or finiteness assumption on `nbr`.
-/
import H3Model.DiskSpec

namespace H3.Bfs

variable {V : Type} [DecidableEq V]

/-- walks of exact length n in the directed graph `nbr` -/
inductive Walk (nbr : V → List V) : Nat → V → V → Prop
  | refl (a : V) : Walk nbr 0 a a
  | step {n : Nat} {a c b : V} : Walk nbr n a c → b ∈ nbr c → Walk nbr (n + 1) a b

theorem alookup_cons (m : List (V × Nat)) (v x : V) (c : Nat) :
    alookup ((v, c) :: m) x = if v = x then some c else alookup m x := rfl

section
variable (nbr : V → List V) (k : Nat) (o : V)

def Sound (m : List (V × Nat)) : Prop := ∀ v d, alookup m v = some d → Walk nbr d o v ∧ d ≤ k
def Le (m m' : List (V × Nat)) : Prop := ∀ u d, alookup m u = some d → ∃ d', d' ≤ d ∧ alookup m' u = some d'
def ClosedAt (m : List (V × Nat)) (u : V) : Prop :=
  ∀ d, alookup m u = some d → d < k → ∀ n ∈ nbr u, ∃ e, e ≤ d + 1 ∧ alookup m n = some e

theorem Le.refl (m : List (V × Nat)) : Le m m := fun _ d h => ⟨d, Nat.le_refl d, h⟩
theorem Le.trans {a b c : List (V × Nat)} (h1 : Le a b) (h2 : Le b c) : Le a c := by
  intro u d h
  obtain ⟨d1, l1, e1⟩ := h1 u d h
  obtain ⟨d2, l2, e2⟩ := h2 u d1 e1
  exact ⟨d2, Nat.le_trans l2 l1, e2⟩

/-- the four facts about one call, packaged -/
structure CallOK (m m' : List (V × Nat)) : Prop where
  le : Le m m'
  closedKeep : ∀ u, ClosedAt nbr k m u → ClosedAt nbr k m' u
  closedChanged : ∀ u, alookup m' u ≠ alookup m u → ClosedAt nbr k m' u
  sound : Sound nbr k o m → Sound nbr k o m'

theorem CallOK.refl (m : List (V × Nat)) : CallOK nbr k o m m :=
  ⟨Le.refl m, fun _ h => h, fun _ h => absurd rfl h, fun h => h⟩

/-- processing a list of neighbours one after the other -/
theorem fold_ok (fuel c : Nat)
    (ih : ∀ (v : V) (m : List (V × Nat)), Walk nbr (c + 1) o v → c + 1 ≤ k →
      CallOK nbr k o m (visitL nbr k fuel v (c + 1) m) ∧
      ∃ d', d' ≤ c + 1 ∧ alookup (visitL nbr k fuel v (c + 1) m) v = some d') :
    ∀ (ns : List V) (m : List (V × Nat)), (∀ n ∈ ns, Walk nbr (c + 1) o n) → c + 1 ≤ k →
      CallOK nbr k o m (ns.foldl (fun m n => visitL nbr k fuel n (c + 1) m) m) ∧
      ∀ n ∈ ns, ∃ e, e ≤ c + 1 ∧ alookup (ns.foldl (fun m n => visitL nbr k fuel n (c + 1) m) m) n = some e := by
  intro ns
  induction ns with
  | nil => intro m _ _; exact ⟨CallOK.refl nbr k o m, fun _ h => by simp at h⟩
  | cons n rest ihr =>
    intro m hw hc
    obtain ⟨ok1, d1, hd1, e1⟩ := ih n m (hw n (by simp)) hc
    obtain ⟨ok2, f2⟩ := ihr (visitL nbr k fuel n (c + 1) m) (fun x hx => hw x (by simp [hx])) hc
    simp only [List.foldl_cons]
    refine ⟨⟨Le.trans ok1.le ok2.le, fun u h => ok2.closedKeep u (ok1.closedKeep u h), ?_,
      fun h => ok2.sound (ok1.sound h)⟩, ?_⟩
    · intro u hne
      by_cases h2 : alookup (rest.foldl (fun m n => visitL nbr k fuel n (c + 1) m) (visitL nbr k fuel n (c + 1) m)) u =
          alookup (visitL nbr k fuel n (c + 1) m) u
      · exact ok2.closedKeep u (ok1.closedChanged u (by rw [← h2]; exact hne))
      · exact ok2.closedChanged u h2
    · intro x hx
      simp only [List.mem_cons] at hx
      rcases hx with hx | hx
      · subst hx
        obtain ⟨d2, l2, e2⟩ := ok2.le _ d1 e1
        exact ⟨d2, Nat.le_trans l2 hd1, e2⟩
      · exact f2 x hx

/-- **one call of the recursive algorithm** -/
theorem visit_ok : ∀ (fuel : Nat) (v : V) (c : Nat) (m : List (V × Nat)), k + 1 ≤ fuel + c →
    Walk nbr c o v → c ≤ k →
    CallOK nbr k o m (visitL nbr k fuel v c m) ∧ ∃ d', d' ≤ c ∧ alookup (visitL nbr k fuel v c m) v = some d' := by
  intro fuel
  induction fuel with
  | zero => intro v c m hf _ hc; omega
  | succ fuel ih =>
    intro v c m hf hw hc
    unfold visitL
    by_cases hearly : seenLE m v c = true
    · rw [if_pos hearly]
      refine ⟨CallOK.refl nbr k o m, ?_⟩
      unfold seenLE at hearly
      cases hl : alookup m v with
      | none => simp [hl] at hearly
      | some d => simp [hl] at hearly; exact ⟨d, hearly, rfl⟩
    · rw [if_neg hearly]
      -- facts about the map after writing (v, c)
      have hnot : ∀ e, alookup m v = some e → c < e := by
        intro e he
        unfold seenLE at hearly
        simp [he] at hearly
        omega
      have le1 : Le m ((v, c) :: m) := by
        intro u d hu
        rw [alookup_cons]
        by_cases huv : v = u
        · subst huv
          exact ⟨c, Nat.le_of_lt (hnot d hu), by simp⟩
        · exact ⟨d, Nat.le_refl d, by simp [huv, hu]⟩
      have closed1 : ∀ u, u ≠ v → ClosedAt nbr k m u → ClosedAt nbr k ((v, c) :: m) u := by
        intro u huv hcl d hd hdk n hn
        rw [alookup_cons] at hd
        have hvu : ¬ v = u := fun e => huv e.symm
        simp only [hvu, if_false] at hd
        obtain ⟨e, he, hle⟩ := hcl d hd hdk n hn
        rw [alookup_cons]
        by_cases hvn : v = n
        · subst hvn
          exact ⟨c, by have := hnot e hle; omega, by simp⟩
        · exact ⟨e, he, by simp [hvn, hle]⟩
      have sound1 : Sound nbr k o m → Sound nbr k o ((v, c) :: m) := by
        intro hs u d hu
        rw [alookup_cons] at hu
        by_cases hvu : v = u
        · subst hvu
          simp at hu; subst hu
          exact ⟨hw, hc⟩
        · simp only [hvu, if_false] at hu
          exact hs u d hu
      by_cases hck : c ≥ k
      · -- the rim of the disk: no recursion, and the closure condition at v is vacuous
        simp only []
        rw [if_pos hck]
        refine ⟨⟨le1, ?_, ?_, sound1⟩, c, Nat.le_refl c, by simp [alookup_cons]⟩
        · intro u hcl
          by_cases huv : u = v
          · subst huv
            intro d hd hdk
            simp [alookup_cons] at hd
            omega
          · exact closed1 u huv hcl
        · intro u hne
          by_cases huv : u = v
          · subst huv
            intro d hd hdk
            simp [alookup_cons] at hd
            omega
          · exfalso
            apply hne
            rw [alookup_cons]
            have : ¬ v = u := fun e => huv e.symm
            simp [this]
      · simp only []
        rw [if_neg hck]
        have hck' : c + 1 ≤ k := by omega
        have ih' : ∀ (v' : V) (m' : List (V × Nat)), Walk nbr (c + 1) o v' → c + 1 ≤ k →
            CallOK nbr k o m' (visitL nbr k fuel v' (c + 1) m') ∧
            ∃ d', d' ≤ c + 1 ∧ alookup (visitL nbr k fuel v' (c + 1) m') v' = some d' :=
          fun v' m' hw' hc' => ih v' (c + 1) m' (by omega) hw' hc'
        obtain ⟨okf, ff⟩ := fold_ok nbr k o fuel c ih' (nbr v) ((v, c) :: m)
          (fun n hn => Walk.step hw hn) hck'
        generalize hmf : (nbr v).foldl (fun m n => visitL nbr k fuel n (c + 1) m) ((v, c) :: m) = mf at *
        have hv1 : alookup ((v, c) :: m) v = some c := by simp [alookup_cons]
        -- (B) v is closed at the end
        have closedV : ClosedAt nbr k mf v := by
          by_cases hch : alookup mf v = alookup ((v, c) :: m) v
          · intro d hd hdk n hn
            rw [hch, hv1] at hd
            simp at hd; subst hd
            exact ff n hn
          · exact okf.closedChanged v hch
        refine ⟨⟨Le.trans le1 okf.le, ?_, ?_, fun h => okf.sound (sound1 h)⟩, ?_⟩
        · intro u hcl
          by_cases huv : u = v
          · subst huv; exact closedV
          · exact okf.closedKeep u (closed1 u huv hcl)
        · intro u hne
          by_cases huv : u = v
          · subst huv; exact closedV
          · apply okf.closedChanged u
            intro heq
            apply hne
            rw [heq, alookup_cons]
            have : ¬ v = u := fun e => huv e.symm
            simp [this]
        · obtain ⟨d', l', e'⟩ := okf.le v c hv1
          exact ⟨d', l', e'⟩

/-- **C05 (T-E): the recursive safe disk is breadth-first search.**  After the top-level call, a
vertex has the entry `d` exactly when `d ≤ k` is the length of a shortest walk from the origin:
every vertex within k steps is present, with its exact step count, and nothing else. -/
theorem visitL_is_bfs (v : V) (d : Nat) :
    alookup (visitL nbr k (k + 1) o 0 []) v = some d ↔
      (Walk nbr d o v ∧ d ≤ k ∧ ∀ d', d' < d → ¬ Walk nbr d' o v) := by
  obtain ⟨ok, d0, hd0, e0⟩ := visit_ok nbr k o (k + 1) o 0 [] (by omega) (Walk.refl o) (Nat.zero_le k)
  generalize hm : visitL nbr k (k + 1) o 0 [] = m at *
  have hsound : Sound nbr k o m := ok.sound (fun v d h => by simp [alookup] at h)
  have hclosed : ∀ u, ClosedAt nbr k m u := fun u => ok.closedKeep u (fun d h => by simp [alookup] at h)
  have horigin : alookup m o = some 0 := by
    have : d0 = 0 := by omega
    rw [this] at e0; exact e0
  -- completeness: everything within n ≤ k steps has an entry ≤ n
  have hcomplete : ∀ n, n ≤ k → ∀ x, Walk nbr n o x → ∃ e, e ≤ n ∧ alookup m x = some e := by
    intro n
    induction n with
    | zero =>
      intro _ x hw
      cases hw
      exact ⟨0, Nat.le_refl 0, horigin⟩
    | succ n ihn =>
      intro hn x hw
      cases hw with
      | step hw' hmem =>
        obtain ⟨e, he, hl⟩ := ihn (by omega) _ hw'
        obtain ⟨e', he', hl'⟩ := hclosed _ e hl (by omega) x hmem
        exact ⟨e', by omega, hl'⟩
  constructor
  · intro h
    obtain ⟨hw, hk⟩ := hsound v d h
    refine ⟨hw, hk, fun d' hlt hw' => ?_⟩
    obtain ⟨e, he, hl⟩ := hcomplete d' (by omega) v hw'
    rw [h] at hl
    simp at hl
    omega
  · rintro ⟨hw, hk, hmin⟩
    obtain ⟨e, he, hl⟩ := hcomplete d hk v hw
    obtain ⟨hw2, _⟩ := hsound v e hl
    by_cases hed : e = d
    · rw [← hed]; exact hl
    · exact absurd hw2 (hmin e (by omega))
end

-- non-vacuity: a directed 4-cycle with a chord, k = 2
example : alookup (visitL (fun (v : Nat) => [(v + 1) % 4, (v + 2) % 4]) 2 3 0 0 []) 3 = some 2 := by decide

end H3.Bfs
