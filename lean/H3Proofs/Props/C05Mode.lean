/-
C05 — a neighbour step never changes the header bits other than the base cell: in particular the
mode field of the result of `h3NeighborRotations` is the mode field of the origin, so the neighbours of
a cell (mode 1) are never H3_NULL.  This discharges the non-zero hypothesis of the array-disk
refinement (C05Array) for every origin with mode 1.
-/
import H3Proofs.Props.C05Array
import H3Proofs.Lemmas.Bits

namespace H3.C05M
open H3 H3.Bits H3.C05A H3.Bfs

/-- header fields that a neighbour step leaves alone -/
def SameHdr (a b : BitVec 64) : Prop := getMode b = getMode a ∧ getRes b = getRes a

theorem SameHdr.refl (a : BitVec 64) : SameHdr a a := ⟨rfl, rfl⟩
theorem SameHdr.trans {a b c : BitVec 64} (h1 : SameHdr a b) (h2 : SameHdr b c) : SameHdr a c :=
  ⟨by rw [h2.1, h1.1], by rw [h2.2, h1.2]⟩

theorem setDigit_hdr (h : BitVec 64) (r d : Nat) (hr : 1 ≤ r ∧ r ≤ 15) (hd : d < 8) : SameHdr h (setDigit h r d) := by
  obtain ⟨a1, _, a3, _, _⟩ := getRes_setDigit h r d hr hd
  exact ⟨a3, a1⟩

theorem setBaseCell_hdr (h : BitVec 64) (v : Nat) (hv : v < 128) : SameHdr h (setBaseCell h v) := by
  have := get_set_base_cell_bv h (BitVec.ofNat 32 v) 1#32 (ofNat_lt 128 (by omega) hv) (by decide)
  obtain ⟨_, _, a3, a4, _⟩ := this
  exact ⟨by unfold getMode setBaseCell; rw [a4], by unfold getRes setBaseCell; rw [a3]⟩

theorem rot_lt8 (d : Nat) (hd : d < 8) : rotate60ccw d < 8 ∧ rotate60cw d < 8 := by
  have : ∀ d : Fin 8, rotate60ccw d.val < 8 ∧ rotate60cw d.val < 8 := by decide
  exact this ⟨d, hd⟩

/-- folding digit rewrites over levels 1..n keeps the header -/
theorem fold_setDigit_hdr (f : BitVec 64 → Nat → Nat) (hf : ∀ h r, f h r < 8) : ∀ (n a : Nat) (h : BitVec 64), 1 ≤ a → a + n ≤ 16 →
    SameHdr h ((List.range' a n).foldl (fun h r => setDigit h r (f h r)) h) := by
  intro n
  induction n with
  | zero => intro a h _ _; exact SameHdr.refl h
  | succ n ih =>
    intro a h ha hn
    rw [List.range'_succ, List.foldl_cons]
    exact (setDigit_hdr h a _ ⟨ha, by omega⟩ (hf h a)).trans (ih (a + 1) _ (by omega) (by omega))

theorem mapDigits_hdr (g : Nat → Nat) (hg : ∀ d, d < 8 → g d < 8) (h : BitVec 64) : SameHdr h (mapDigits g h) := by
  unfold mapDigits
  have := getRes_lt h
  exact fold_setDigit_hdr (fun h r => g (getDigit h r)) (fun h r => hg _ (getDigit_lt h r)) (getRes h) 1 h (by omega) (by omega)

theorem h3Rotate60ccw_hdr (h : BitVec 64) : SameHdr h (h3Rotate60ccw h) :=
  mapDigits_hdr _ (fun d hd => (rot_lt8 d hd).1) h
theorem h3Rotate60cw_hdr (h : BitVec 64) : SameHdr h (h3Rotate60cw h) :=
  mapDigits_hdr _ (fun d hd => (rot_lt8 d hd).2) h

theorem iterate_hdr (f : BitVec 64 → BitVec 64) (hf : ∀ h, SameHdr h (f h)) : ∀ n h, SameHdr h (iterate f n h) := by
  intro n
  induction n with
  | zero => intro h; exact SameHdr.refl h
  | succ n ih => intro h; exact (hf h).trans (ih (f h))


theorem rotatePentWith_hdr (rot : Nat → Nat) (hrot : ∀ d, d < 8 → rot d < 8) (whole : BitVec 64 → BitVec 64)
    (hw : ∀ h, SameHdr h (whole h)) (h : BitVec 64) : SameHdr h (rotatePentWith rot whole h) := by
  unfold rotatePentWith
  simp only []
  have hres := getRes_lt h
  have key : ∀ (n a : Nat) (st : BitVec 64 × Bool), 1 ≤ a → a + n ≤ 16 →
      SameHdr st.1 ((List.range' a n).foldl (fun (st : BitVec 64 × Bool) r =>
        let (h, found) := st
        let h := setDigit h r (rot (getDigit h r))
        if !found && getDigit h r != 0 then
          let h := if leadingNonZeroDigit h == 1 then whole h else h
          (h, true)
        else (h, found)) st).1 := by
    intro n
    induction n with
    | zero => intro a st _ _; exact SameHdr.refl _
    | succ n ih =>
      intro a st ha hn
      rw [List.range'_succ, List.foldl_cons]
      obtain ⟨h0, found⟩ := st
      have s1 := setDigit_hdr h0 a (rot (getDigit h0 a)) ⟨ha, by omega⟩ (hrot _ (getDigit_lt h0 a))
      refine SameHdr.trans ?_ (ih (a + 1) _ (by omega) (by omega))
      simp only []
      split
      · simp only []
        split
        · exact s1.trans (hw _)
        · exact s1
      · exact s1
  exact key (getRes h) 1 (h, false) (by omega) (by omega)

theorem h3RotatePent60ccw_hdr (h : BitVec 64) : SameHdr h (h3RotatePent60ccw h) :=
  rotatePentWith_hdr _ (fun d hd => (rot_lt8 d hd).1) _ h3Rotate60ccw_hdr h

theorem table_lt8 : ∀ a d : Fin 8, newDigitII a.val d.val < 8 ∧ newDigitIII a.val d.val < 8 := by decide +kernel

theorem digitPass_hdr : ∀ (level : Nat) (current : BitVec 64) (dir : Nat) (out : BitVec 64) (ab : Option Nat),
    level ≤ 15 → dir < 7 → digitPass current dir level = .ok (out, ab) → SameHdr current out := by
  intro level
  induction level with
  | zero =>
    intro current dir out ab _ _ h
    simp only [digitPass, Except.ok.injEq, Prod.mk.injEq] at h
    rw [← h.1]; exact SameHdr.refl _
  | succ level ih =>
    intro current dir out ab hl hd h
    unfold digitPass at h
    simp only [] at h
    split at h
    · simp at h
    · next h7 =>
      have hod : getDigit current (level + 1) < 8 := getDigit_lt _ _
      have key : ∀ a d : Fin 8, a.val < 7 → d.val < 7 → newAdjII a.val d.val < 7 ∧ newAdjIII a.val d.val < 7 := by decide +kernel
      have hne7 : getDigit current (level + 1) < 7 := by
        have : ¬ getDigit current (level + 1) = 7 := by simpa using h7
        omega
      have T := table_lt8 ⟨getDigit current (level + 1), hod⟩ ⟨dir, by omega⟩
      have K := key ⟨getDigit current (level + 1), hod⟩ ⟨dir, by omega⟩ hne7 hd
      have hlv : 1 ≤ level + 1 ∧ level + 1 ≤ 15 := ⟨by omega, hl⟩
      split at h
      · split at h
        · exact (setDigit_hdr current (level + 1) _ hlv T.1).trans (ih _ _ out ab (by omega) K.1 h)
        · simp only [Except.ok.injEq, Prod.mk.injEq] at h
          rw [← h.1]; exact setDigit_hdr current (level + 1) _ hlv T.1
      · split at h
        · exact (setDigit_hdr current (level + 1) _ hlv T.2).trans (ih _ _ out ab (by omega) K.2 h)
        · simp only [Except.ok.injEq, Prod.mk.injEq] at h
          rw [← h.1]; exact setDigit_hdr current (level + 1) _ hlv T.2


theorem bcNeighbor_lt : ∀ bc d : Nat, bc < 122 → d < 7 → bcNeighbor bc d < 128 := by
  have key : ∀ bc : Fin 122, ∀ d : Fin 7, bcNeighbor bc.val d.val < 128 := by decide +kernel
  intro bc d hb hd
  exact key ⟨bc, hb⟩ ⟨d, hd⟩

theorem digitPass_dir : ∀ (level : Nat) (current : BitVec 64) (dir : Nat) (out : BitVec 64) (d : Nat),
    dir < 7 → digitPass current dir level = .ok (out, some d) → d < 7 := by
  intro level
  induction level with
  | zero =>
    intro current dir out d hd h
    simp only [digitPass, Except.ok.injEq, Prod.mk.injEq, Option.some.injEq] at h
    omega
  | succ level ih =>
    intro current dir out d hd h
    unfold digitPass at h
    simp only [] at h
    split at h
    · simp at h
    · next h7 =>
      have hod : getDigit current (level + 1) < 8 := getDigit_lt _ _
      have key : ∀ a d : Fin 8, a.val < 7 → d.val < 7 → newAdjII a.val d.val < 7 ∧ newAdjIII a.val d.val < 7 := by decide +kernel
      have hne7 : getDigit current (level + 1) < 7 := by
        have : ¬ getDigit current (level + 1) = 7 := by simpa using h7
        omega
      have K := key ⟨getDigit current (level + 1), hod⟩ ⟨dir, by omega⟩ hne7 hd
      split at h
      · split at h
        · exact ih _ _ out d K.1 h
        · simp at h
      · split at h
        · exact ih _ _ out d K.2 h
        · simp at h

theorem baseCellSwitch_hdr (ob : Nat) (cur : BitVec 64) (ab : Option Nat) (rot : Nat) (hob : ob < 122)
    (hab : ∀ d, ab = some d → d < 7) : SameHdr cur (baseCellSwitch ob cur ab rot).1 := by
  unfold baseCellSwitch
  cases ab with
  | none => exact SameHdr.refl _
  | some d =>
    have hd := hab d rfl
    simp only []
    split
    · exact (setBaseCell_hdr cur _ (bcNeighbor_lt ob 5 hob (by omega))).trans (h3Rotate60ccw_hdr _)
    · exact setBaseCell_hdr cur _ (bcNeighbor_lt ob d hob hd)

theorem finishPentagon_hdr (ob nb old nrot : Nat) (cur : BitVec 64) (rot : Nat) (out : BitVec 64) (r : Nat)
    (h : finishPentagon ob nb old nrot cur rot = .ok (out, r)) : SameHdr cur out := by
  have A := fun c => iterate_hdr h3RotatePent60ccw h3RotatePent60ccw_hdr nrot c
  have B := (h3Rotate60cw_hdr cur).trans (A _)
  have C := (h3Rotate60ccw_hdr cur).trans (A _)
  have D := A cur
  unfold finishPentagon at h
  simp only [bind, Except.bind, pure, Except.pure] at h
  repeat' (split at h)
  all_goals first
    | (simp only [Except.ok.injEq, Prod.mk.injEq] at h; rw [← h.1]; first | exact B | exact C | exact D)
    | (simp at h)

theorem finishNeighbor_hdr (ob old : Nat) (cur : BitVec 64) (ab : Option Nat) (rot : Nat) (out : BitVec 64) (r : Nat)
    (hob : ob < 122) (hab : ∀ d, ab = some d → d < 7)
    (h : finishNeighbor ob old cur ab rot = .ok (out, r)) : SameHdr cur out := by
  unfold finishNeighbor at h
  simp only [] at h
  have S := baseCellSwitch_hdr ob cur ab rot hob hab
  split at h
  · exact S.trans (finishPentagon_hdr _ _ _ _ _ _ _ _ h)
  · simp only [Except.ok.injEq, Prod.mk.injEq] at h
    rw [← h.1]
    exact S.trans (iterate_hdr _ h3Rotate60ccw_hdr _ _)

theorem rotate60ccw_lt7 : ∀ n d, d < 7 → iterate rotate60ccw n d < 7 := by
  intro n
  induction n with
  | zero => intro d hd; exact hd
  | succ n ih =>
    intro d hd
    have : ∀ d : Fin 7, rotate60ccw d.val < 7 := by decide
    exact ih _ (this ⟨d, hd⟩)

/-- a neighbour step keeps mode and resolution -/
theorem h3NeighborRotations_hdr (origin : BitVec 64) (dir rot : Nat) (out : BitVec 64) (r : Nat)
    (h : h3NeighborRotations origin dir rot = .ok (out, r)) : SameHdr origin out := by
  unfold h3NeighborRotations at h
  split at h
  · simp at h
  · next hdir =>
    simp only [] at h
    split at h
    · simp at h
    · next hbc =>
      have hd7 : iterate rotate60ccw (rot % 6) dir < 7 := rotate60ccw_lt7 _ _ (by omega)
      split at h
      · simp at h
      · next cur ab hdp =>
        have hres := getRes_lt origin
        have S1 := digitPass_hdr _ _ _ _ _ (by omega) hd7 hdp
        have S2 := finishNeighbor_hdr _ _ _ _ _ _ _ (by omega)
          (fun d hd => digitPass_dir _ _ _ _ d hd7 (by rw [hdp, hd])) h
        exact S1.trans S2



theorem nbrAt_hdr (v nx : BitVec 64) (i : Nat) (h : nbrAt v i = some nx) : SameHdr v nx := by
  unfold nbrAt at h
  split at h
  · next n r hn =>
    simp only [Option.some.injEq] at h
    subst h
    exact h3NeighborRotations_hdr _ _ _ _ _ hn
  · simp at h

theorem mode1_ne_zero (v : BitVec 64) (h : getMode v = 1) : v ≠ 0#64 := by
  intro h0
  rw [h0] at h
  exact absurd h (by decide)

/-- **C05: a successful gridDiskDistancesSafe from any index with the cell mode is breadth-first
search** — unconditional form of `C05A.gridDiskDistancesSafe_bfs_of`: every neighbour step keeps the
mode field (`h3NeighborRotations_hdr`), so no cell met during the traversal is H3_NULL, the value the
array algorithm uses for an empty slot. -/
theorem gridDiskDistancesSafe_bfs (origin : BitVec 64) (k : Nat) (ho : getMode origin = 1)
    (out : Array (BitVec 64)) (dist : Array Int) (h : gridDiskDistancesSafe origin (k : Int) = .ok (out, dist)) :
    ∃ n : Nat, maxGridDiskSize (k : Int) = .ok (n : Int) ∧ out.size = n ∧ dist.size = n ∧
    (∀ s, s < n → out.getD s 0#64 ≠ 0#64 →
      0 ≤ dist.getD s 0 ∧ (dist.getD s 0).toNat ≤ k ∧
      Walk cellNeighbors (dist.getD s 0).toNat origin (out.getD s 0#64) ∧
      ∀ d', d' < (dist.getD s 0).toNat → ¬ Walk cellNeighbors d' origin (out.getD s 0#64)) ∧
    (∀ v d, Walk cellNeighbors d origin v → d ≤ k → (∀ d', d' < d → ¬ Walk cellNeighbors d' origin v) →
      ∃ s, s < n ∧ out.getD s 0#64 = v ∧ dist.getD s 0 = (d : Int) ∧
        ∀ t, t < n → out.getD t 0#64 = v → t = s) :=
  gridDiskDistancesSafe_bfs_of (fun v => getMode v = 1) origin k ho mode1_ne_zero
    (fun v i nx hv hn => by rw [(nbrAt_hdr v nx i hn).1]; exact hv) out dist h

/-- every cell the safe disk writes has the mode and the resolution of the origin -/
theorem walk_hdr (origin : BitVec 64) (d : Nat) (v : BitVec 64) (w : Bfs.Walk cellNeighbors d origin v) :
    SameHdr origin v := by
  induction w with
  | refl => exact SameHdr.refl _
  | step _ hb ih =>
    rw [cellNeighbors_eq] at hb
    obtain ⟨i, _, hi⟩ := List.mem_filterMap.mp hb
    exact ih.trans (nbrAt_hdr _ _ i hi)

end H3.C05M
