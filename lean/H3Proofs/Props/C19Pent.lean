/-
C19 — every pentagon reports exactly five distinct faces: the pentagons are the 12 × 16 cells
`setH3Index res bc 0` (bc a pentagon base cell), and `getIcosahedronFaces` is evaluated on all 192 of them
in the kernel over the regenerated tables (a complete enumeration of a finite quantifier, not a sample).
-/
import H3Proofs.Lemmas.Hier
import H3Proofs.Lemmas.Valid
import H3Model.FaceIjk

namespace H3.C19P
open H3 H3.Bits

def pentFacesOK (res : Nat) : Bool :=
  ((List.range 122).filter isBaseCellPentagon).all (fun bc =>
    match getIcosahedronFaces (setH3Index res bc 0) 3 with
    | .ok fs => fs.length == 5 && fs.all (fun f => decide (0 ≤ f) && decide (f < 20)) && fs.eraseDups.length == 5
    | .error _ => false)

theorem all_pentagons_five_faces : ∀ res : Fin 16, pentFacesOK res.val = true := by decide +kernel

/-- fields of the canonical centre cells -/
theorem canonical_fields : ∀ res : Fin 16, ∀ bc : Fin 122,
    getHighBit (setH3Index res.val bc.val 0) = 0 ∧ getMode (setH3Index res.val bc.val 0) = 1 ∧
    getReserved (setH3Index res.val bc.val 0) = 0 ∧ getRes (setH3Index res.val bc.val 0) = res.val ∧
    getBaseCell (setH3Index res.val bc.val 0) = bc.val ∧
    ∀ r : Fin 16, 1 ≤ r.val → getDigit (setH3Index res.val bc.val 0) r.val = (if r.val ≤ res.val then 0 else 7) := by
  decide +kernel

/-- a valid pentagon is the canonical centre cell of its base cell at its resolution -/
theorem pentagon_canonical (h : BitVec 64) (hv : Valid.ValidN h) (hp : isPentagon h = true) :
    h = setH3Index (getRes h) (getBaseCell h) 0 := by
  obtain ⟨v1, v2, v3, v4, v5, _⟩ := hv
  obtain ⟨_, hz⟩ := (Hier.isPentagon_iff h).mp hp
  have hr := getRes_lt h
  obtain ⟨c1, c2, c3, c4, c5, c6⟩ := canonical_fields ⟨getRes h, hr⟩ ⟨getBaseCell h, v4⟩
  simp only [] at c1 c2 c3 c4 c5 c6
  apply Bits.ext
  · rw [v1, c1]
  · rw [v2, c2]
  · rw [v3, c3]
  · rw [c4]
  · rw [c5]
  · intro r h1 h15
    rw [c6 ⟨r, by omega⟩ h1]
    by_cases c : r ≤ getRes h
    · simp only [c, if_true]; exact hz r h1 c
    · simp only [c, if_false]
      have := v5 r h1 h15
      simpa [c] using this

/-- **C19: a pentagon always reports five pairwise distinct faces 0..19** -/
theorem pentagon_five_faces (h : BitVec 64) (hv : Valid.ValidN h) (hp : isPentagon h = true) :
    ∃ fs, getIcosahedronFaces h 3 = .ok fs ∧ fs.length = 5 ∧ (∀ f ∈ fs, 0 ≤ f ∧ f < 20) ∧ fs.eraseDups.length = 5 := by
  have hr := getRes_lt h
  have hbp : isBaseCellPentagon (getBaseCell h) = true := ((Hier.isPentagon_iff h).mp hp).1
  have hb := hv.2.2.2.1
  have key := all_pentagons_five_faces ⟨getRes h, hr⟩
  unfold pentFacesOK at key
  rw [List.all_eq_true] at key
  have hm : getBaseCell h ∈ (List.range 122).filter isBaseCellPentagon := by
    simp [List.mem_filter, hb, hbp]
  have := key (getBaseCell h) hm
  rw [← pentagon_canonical h hv hp] at this
  cases hf : getIcosahedronFaces h 3 with
  | error e => rw [hf] at this; simp at this
  | ok fs =>
    rw [hf] at this
    simp only [Bool.and_eq_true, beq_iff_eq, List.all_eq_true, decide_eq_true_eq] at this
    exact ⟨fs, rfl, this.1.1, fun f hfm => this.1.2 f hfm, this.2⟩

end H3.C19P
