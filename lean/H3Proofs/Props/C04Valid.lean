/-
C04 / C13 over *valid* cells: with `layoutSpec` (= the generated isValidCell, C01) as the only
hypothesis, children are valid, distinct, counted by cellToChildrenSize, have the cell as parent;
every valid cell is among the children of each ancestor and of no other cell of that resolution
(partition); child positions are defined and bijective on valid cells.
-/
import H3Proofs.Lemmas.ValidHier

namespace H3.C04V
open H3 H3.Rank H3.Bits H3.Hier H3.C13 H3.C04C H3.Valid H3.C01

/-- **C04: the children of a valid cell** are valid cells of the requested resolution with the cell as
their parent, pairwise distinct, and exactly cellToChildrenSize many. -/
theorem children_of_valid (h : BitVec 64) (hl : layoutSpec h = true) (c : Nat) (h1 : getRes h ≤ c) (h2 : c ≤ 15) :
    (∀ y ∈ cellToChildrenS h c, layoutSpec y = true ∧ getRes y = c ∧ cellToParent y (getRes h) = .ok h) ∧
    (cellToChildrenS h c).Nodup ∧
    cellToChildrenSize h c = .ok ((cellToChildrenS h c).length : Int) ∧
    ((cellToChildrenS h c).length : Int) = (if isPentagon h then pentCount (c - getRes h) else 7 ^ (c - getRes h)) := by
  have hv := (layoutSpec_iff h).mp hl
  have h0 := valid_ne_zero h hv
  refine ⟨fun y hy => ?_, children_nodup h c h0 h1 h2 (valid_parentNormal h hv c h2), length_children h c h0 h1 h2, ?_⟩
  · obtain ⟨a, b, d⟩ := valid_children h hv c h1 h2 y hy
    exact ⟨(layoutSpec_iff y).mpr a, b, d⟩
  · have := length_children h c h0 h1 h2
    rw [size_of h c h1 h2] at this
    simp only [Except.ok.injEq] at this
    exact this.symm

/-- **C04 (converse): every valid cell is among the children of each of its ancestors**, which are valid -/
theorem valid_in_children_of_ancestor (x : BitVec 64) (hl : layoutSpec x = true) (p : Nat) (hp : p ≤ getRes x) :
    ∃ q, cellToParent x p = .ok q ∧ layoutSpec q = true ∧ getRes q = p ∧ x ∈ cellToChildrenS q (getRes x) := by
  obtain ⟨q, a, b, c, d⟩ := valid_mem_children x ((layoutSpec_iff x).mp hl) p hp
  exact ⟨q, a, (layoutSpec_iff q).mpr b, c, d⟩

/-- **C04 (partition): a cell is a child of only one cell of a given resolution** — the children of
the valid cells of one resolution are pairwise disjoint and (previous theorem) cover the finer one. -/
theorem children_disjoint (q q' : BitVec 64) (hq : layoutSpec q = true) (hq' : layoutSpec q' = true)
    (hres : getRes q = getRes q') (c : Nat) (h1 : getRes q ≤ c) (h2 : c ≤ 15) (x : BitVec 64)
    (hx : x ∈ cellToChildrenS q c) (hx' : x ∈ cellToChildrenS q' c) : q = q' := by
  obtain ⟨_, _, a⟩ := valid_children q ((layoutSpec_iff q).mp hq) c h1 h2 x hx
  obtain ⟨_, _, a'⟩ := valid_children q' ((layoutSpec_iff q').mp hq') c (by omega) h2 x hx'
  rw [hres, a'] at a
  cases a; rfl

/-- **C13: cellToChildPos is defined on every valid cell** and is the index of the cell in
cellToChildren of its ancestor -/
theorem childPos_of_valid (x : BitVec 64) (hl : layoutSpec x = true) (p : Nat) (hp : p ≤ getRes x) :
    ∃ q pos n, cellToParent x p = .ok q ∧ cellToChildPosS x p = .ok pos ∧
      cellToChildrenSize q (getRes x) = .ok n ∧ 0 ≤ pos ∧ pos < n ∧ childPosToCellS pos q (getRes x) = .ok x := by
  obtain ⟨pos, hpos⟩ := valid_childPos_ok x ((layoutSpec_iff x).mp hl) p hp
  obtain ⟨q, n, a, b, c, d⟩ := childPos_lt_size x p hp pos hpos
  obtain ⟨q', a', e⟩ := childPosToCell_childPos x p hp pos hpos
  rw [a] at a'; cases a'
  exact ⟨q, pos, n, a, hpos, b, c, d, e⟩

/-- **C13: childPosToCell on a valid parent**: for every position in range the result is a valid child,
the position-th element of cellToChildren, and cellToChildPos returns the position. -/
theorem childPosToCell_of_valid (q : BitVec 64) (hl : layoutSpec q = true) (c : Nat) (h1 : getRes q ≤ c) (h2 : c ≤ 15)
    (i : Nat) (hi : i < (cellToChildrenS q c).length) :
    childPosToCellS i q c = .ok (cellToChildrenS q c)[i] ∧ layoutSpec (cellToChildrenS q c)[i] = true ∧
    cellToChildPosS (cellToChildrenS q c)[i] (getRes q) = .ok (i : Int) := by
  have hv := (layoutSpec_iff q).mp hl
  have h0 := valid_ne_zero q hv
  refine ⟨children_get q c h0 h1 h2 i hi, ?_, (children_props q c h0 h1 h2 (valid_parentNormal q hv c h2) i hi).2.2⟩
  exact (layoutSpec_iff _).mpr (valid_children q hv c h1 h2 _ (List.getElem_mem hi)).1

-- non-vacuity: a valid pentagon with 6 valid children
example : layoutSpec 0x8009fffffffffff#64 = true := by decide +kernel

end H3.C04V
