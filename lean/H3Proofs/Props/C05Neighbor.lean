/-
C05 / C09 — Theorem A at the level of the model's `h3NeighborRotations`:
inside a hexagon base cell a neighbour step is exactly the translation by the unit vector of the
direction, at every resolution 1..15 (unbounded in the digits), as long as the carry does not leave
the base cell.  Consequences: the result is a same-resolution, same-base-cell index with proper
digits, and `cellToLocalIjk`-style coordinates of neighbours differ by one unit step.
-/
import H3Proofs.Lemmas.DigitBridge

namespace H3.C05N
open H3 H3.DP H3.Bits

/-- **neighbor_is_translation (hexagon base cell, carry stays inside).** -/
theorem neighbor_is_translation (h : BitVec 64) (dir : Nat)
    (hbc : getBaseCell h < 122) (hhex : isBaseCellPentagon (getBaseCell h) = false)
    (hres : 1 ≤ getRes h) (hdig : Digits (revDigits h (getRes h))) (hdir : dir < 7)
    (hstay : (passR (revDigits h (getRes h)) dir).2 = 0) :
    ∃ h', h3NeighborRotations h dir 0 = .ok (h', 0) ∧
      getRes h' = getRes h ∧ getBaseCell h' = getBaseCell h ∧ getMode h' = getMode h ∧
      Digits (revDigits h' (getRes h')) ∧
      ax (h3ToIjkFrom h' ⟨0, 0, 0⟩) = vadd (ax (h3ToIjkFrom h ⟨0, 0, 0⟩)) (uax dir) := by
  have hr15 : getRes h ≤ 15 := by have := getRes_lt h; omega
  obtain ⟨h', atBase, e1, e2, e3, e4, e5⟩ := digitPass_eq (getRes h) h dir hr15 hdir hdig
  -- the carry is 0 and the resolution is ≥ 1, so the loop stopped inside the digits
  have hnone : atBase = none := by
    cases atBase with
    | none => rfl
    | some D =>
      obtain ⟨g1, g2⟩ := e5 D rfl
      rcases g2 with ⟨g, _⟩ | g
      · omega
      · rw [hstay] at g1; exact absurd g1.symm g
  subst hnone
  obtain ⟨l, dg, _, ceq⟩ := theoremA (revDigits h (getRes h)) dir hdig hdir
  refine ⟨h', ?_, e3.res, e3.bc, e3.mode, ?_, ?_⟩
  · unfold h3NeighborRotations
    have h7 : ¬ dir ≥ 7 := by omega
    have hb : ¬ getBaseCell h ≥ 122 := by omega
    simp only [h7, if_false, Nat.zero_mod, iterate, hb, e1]
    unfold finishNeighbor baseCellSwitch
    simp only [e3.bc, hhex, Bool.false_eq_true, if_false, Int.toNat_zero, iterate, Nat.add_zero, Nat.zero_mod]
  · rw [e3.res, e2]; exact dg
  · rw [ax_h3ToIjkFrom h' (by rw [e3.res, e2]; exact dg), ax_h3ToIjkFrom h hdig, e3.res, e2]
    rw [hstay, uax_zero, lift_zero, vadd_zero] at ceq
    exact ceq

/-- distinct directions give distinct neighbours (inside the base cell): the six translates differ -/
theorem uax_injective : ∀ a b : Fin 7, uax a.val = uax b.val → a = b := by decide +kernel

/-- the reverse step: the opposite direction (7 − d) undoes the translation -/
theorem uax_opposite : ∀ d : Fin 7, 1 ≤ d.val → vadd (uax d.val) (uax (7 - d.val)) = (0, 0) := by decide +kernel

-- non-vacuity: a res-2 cell of hexagon base cell 20 stepping in direction 4 (no carry out of the base cell)
example : (passR (revDigits 0x822807fffffffff#64 2) 4).2 = 0 := by decide +kernel
example : isBaseCellPentagon (getBaseCell 0x822807fffffffff#64) = false := by decide +kernel

end H3.C05N
