/-
C20 — the string form of an index round-trips exactly.
Model: H3Model/Str.lean (`sprintf("%lx")` / `sscanf("%lx")` of glibc, modelled and validated
differentially against the real libc through the real h3ToString/stringToH3 on every run).
-/
import H3Model.Str

namespace H3.C20
open H3 H3.Str

/-- the fold step of `hexRun` -/
def step (acc c : Nat) : Nat := acc * 16 + (hexVal c).getD 0

theorem hexRun_eq (ds : List Nat) : hexRun ds = ds.foldl step 0 := rfl

theorem hexVal_hexChar (d : Nat) (h : d < 16) : hexVal (hexChar d) = some d := by
  have : ∀ d : Fin 16, hexVal (hexChar d.val) = some d.val := by decide
  exact this ⟨d, h⟩

theorem hexChar_not_space (d : Nat) (h : d < 16) : isSpace (hexChar d) = false := by
  have : ∀ d : Fin 16, isSpace (hexChar d.val) = false := by decide
  exact this ⟨d, h⟩

theorem hexChar_lower (d : Nat) (h : d < 16) :
    (48 ≤ hexChar d ∧ hexChar d ≤ 57) ∨ (97 ≤ hexChar d ∧ hexChar d ≤ 102) := by
  have : ∀ d : Fin 16, (48 ≤ hexChar d.val ∧ hexChar d.val ≤ 57) ∨ (97 ≤ hexChar d.val ∧ hexChar d.val ≤ 102) := by
    decide
  exact this ⟨d, h⟩

theorem hexChar_eq_zero (d : Nat) (h : d < 16) (h0 : hexChar d = 48) : d = 0 := by
  have : ∀ d : Fin 16, hexChar d.val = 48 → d.val = 0 := by decide
  exact this ⟨d, h⟩ h0

/-- a list of lowercase hex digit characters -/
def IsDigits (ds : List Nat) : Prop := ∀ c ∈ ds, ∃ d, d < 16 ∧ c = hexChar d

/-- What `toHexAux` produces: the base-16 digits of `n`, most significant first, in front of `acc`. -/
theorem toHexAux_spec : ∀ (f n : Nat) (acc : List Nat), 0 < f → n < 16 ^ f →
    ∃ ds, toHexAux f n acc = ds ++ acc ∧ IsDigits ds ∧ 1 ≤ ds.length ∧ ds.length ≤ f ∧
      (∀ a, ds.foldl step a = a * 16 ^ ds.length + n) ∧
      (ds.head? = some 48 → n = 0) := by
  intro f
  induction f with
  | zero => intro n acc h; omega
  | succ f ih =>
    intro n acc _ hn
    unfold toHexAux
    by_cases h16 : n < 16
    · simp only [h16, if_true]
      refine ⟨[hexChar n], by simp, ?_, by simp, by simp, ?_, ?_⟩
      · intro c hc
        simp at hc
        exact ⟨n, h16, hc⟩
      · intro a
        simp [step, hexVal_hexChar n h16]
      · intro hh
        simp at hh
        exact hexChar_eq_zero n h16 hh
    · simp only [h16, if_false]
      have hfpos : 0 < f := by
        rcases f with _ | f
        · simp at hn; omega
        · omega
      have hdiv : n / 16 < 16 ^ f := by
        have : 16 ^ (f + 1) = 16 * 16 ^ f := by rw [Nat.pow_succ]; omega
        omega
      obtain ⟨ds, heq, hdig, hlen1, hlenf, hfold, hhead⟩ := ih (n / 16) (hexChar (n % 16) :: acc) hfpos hdiv
      refine ⟨ds ++ [hexChar (n % 16)], by simp [heq], ?_, by simp, by simp; omega, ?_, ?_⟩
      · intro c hc
        simp at hc
        rcases hc with hc | hc
        · exact hdig c hc
        · exact ⟨n % 16, by omega, hc⟩
      · intro a
        rw [List.foldl_append, hfold]
        simp only [List.foldl_cons, List.foldl_nil, step, hexVal_hexChar (n % 16) (by omega),
          Option.getD_some, List.length_append, List.length_cons, List.length_nil]
        rw [Nat.pow_succ]
        have := Nat.div_add_mod n 16
        generalize 16 ^ ds.length = p at *
        rw [Nat.add_mul, Nat.mul_assoc]
        omega
      · intro hh
        have : ds.head? = some 48 := by
          cases ds with
          | nil => simp at hlen1
          | cons x xs => simpa using hh
        have := hhead this
        omega

/-- the digits of `toHex h` -/
theorem toHex_spec (h : BitVec 64) :
    ∃ ds, toHex h = ds ∧ IsDigits ds ∧ 1 ≤ ds.length ∧ ds.length ≤ 16 ∧
      ds.foldl step 0 = h.toNat ∧ (ds.head? = some 48 → h.toNat = 0) := by
  have hlt : h.toNat < 16 ^ 16 := by have := h.isLt; omega
  obtain ⟨ds, heq, hdig, h1, h16, hfold, hhead⟩ := toHexAux_spec 16 h.toNat [] (by omega) hlt
  refine ⟨ds, by simp [toHex, heq], hdig, h1, h16, ?_, hhead⟩
  simpa using hfold 0

/-- **C20: at most 16 digits, at least one.** -/
theorem toHex_length (h : BitVec 64) : 1 ≤ (toHex h).length ∧ (toHex h).length ≤ 16 := by
  obtain ⟨ds, heq, _, h1, h16, _⟩ := toHex_spec h
  rw [heq]; exact ⟨h1, h16⟩

/-- **C20: only the characters 0-9 a-f (lowercase).** -/
theorem toHex_chars (h : BitVec 64) :
    ∀ c ∈ toHex h, (48 ≤ c ∧ c ≤ 57) ∨ (97 ≤ c ∧ c ≤ 102) := by
  obtain ⟨ds, heq, hdig, _⟩ := toHex_spec h
  rw [heq]
  intro c hc
  obtain ⟨d, hd, rfl⟩ := hdig c hc
  exact hexChar_lower d hd

/-- **C20: unpadded** — a leading `0` only for the value 0 (whose text is exactly "0"). -/
theorem toHex_no_leading_zero (h : BitVec 64) : (toHex h).head? = some 48 → h = 0#64 := by
  obtain ⟨ds, heq, _, _, _, _, hhead⟩ := toHex_spec h
  rw [heq]
  intro hh
  have := hhead hh
  exact BitVec.eq_of_toNat_eq (by simpa using this)

theorem takeWhile_isHex_digits : ∀ (ds : List Nat), IsDigits ds → ds.takeWhile isHex = ds := by
  intro ds
  induction ds with
  | nil => intro _; rfl
  | cons c cs ih =>
    intro hd
    obtain ⟨d, hd16, hc⟩ := hd c (by simp)
    have : isHex c = true := by simp [isHex, hc, hexVal_hexChar d hd16]
    rw [List.takeWhile_cons, this]
    simp only [if_true]
    rw [ih (fun x hx => hd x (by simp [hx]))]

theorem splitSign_digit (c : Nat) (cs : List Nat) (h1 : c ≠ 45) (h2 : c ≠ 43) :
    splitSign (c :: cs) = (false, c :: cs) := by
  unfold splitSign
  split
  · next h => simp at h; omega
  · next h => simp at h; omega
  · rfl

theorem splitZero_nonzero (c : Nat) (cs : List Nat) (h : c ≠ 48) :
    splitZero (c :: cs) = (false, c :: cs) := by
  unfold splitZero
  split
  · next h' => simp at h'; omega
  · next h' => simp at h'; omega
  · next h' => simp at h'; omega
  · rfl

/-- **C20: `stringToH3 (h3ToString h) = h` for every 64-bit value.** -/
theorem string_roundtrip (h : BitVec 64) : stringToH3 (toHex h) = .ok h := by
  obtain ⟨ds, heq, hdig, h1, h16, hfold, hhead⟩ := toHex_spec h
  rw [heq]
  cases ds with
  | nil => simp at h1
  | cons c cs =>
    obtain ⟨d, hd, hc⟩ := hdig c (by simp)
    have hsp : isSpace c = false := by rw [hc]; exact hexChar_not_space d hd
    have hlow := hexChar_lower d hd
    rw [← hc] at hlow
    have hdw : List.dropWhile isSpace (c :: cs) = c :: cs := by
      simp [List.dropWhile, hsp]
    have hsign : splitSign (c :: cs) = (false, c :: cs) := splitSign_digit c cs (by omega) (by omega)
    unfold stringToH3 scanHex
    rw [hdw, hsign]
    by_cases hz : c = 48
    · -- the value is 0 and the text is exactly "0"
      have hn0 : h.toNat = 0 := hhead (by simp [hz])
      have hh0 : h = 0#64 := BitVec.eq_of_toNat_eq (by simpa using hn0)
      have : toHex h = [48] := by
        rw [hh0]; decide
      rw [heq] at this
      rw [this, hh0]
      decide
    · have hzero : splitZero (c :: cs) = (false, c :: cs) := splitZero_nonzero c cs hz
      have hds : List.takeWhile isHex (c :: cs) = c :: cs := takeWhile_isHex_digits _ hdig
      have hlt : h.toNat < 2 ^ 64 := h.isLt
      have hrun : hexRun (c :: cs) = h.toNat := by rw [hexRun_eq]; exact hfold
      simp only [hzero, hds, hrun]
      have : ¬ (h.toNat ≥ 2 ^ 64) := by omega
      simp [this]

/-- **C20: small buffer** — `sz < 17` gives `E_MEMORY_BOUNDS` and nothing is written. -/
theorem h3ToString_small_buffer (h : BitVec 64) (sz : Nat) (hsz : sz < 17) :
    h3ToString h sz = .error .memoryBounds := by
  simp [h3ToString, hsz]

/-- **C20: fits** — with `sz ≥ 17` the bytes written (terminator included) number at most 17 ≤ sz
and are the hex text followed by NUL. -/
theorem h3ToString_fits (h : BitVec 64) (sz : Nat) (hsz : 17 ≤ sz) :
    ∃ bytes, h3ToString h sz = .ok bytes ∧ bytes = toHex h ++ [0] ∧ bytes.length ≤ 17 ∧ bytes.length ≤ sz := by
  have := toHex_length h
  refine ⟨toHex h ++ [0], ?_, rfl, ?_, ?_⟩
  · simp [h3ToString]; omega
  · simp; omega
  · simp; omega

/-- text that "does not start with a hexadecimal number": after white space and an optional
sign there is no hex digit (this includes the empty string). -/
def NoHexStart (s : List Nat) : Prop :=
  match (splitSign (s.dropWhile isSpace)).2 with
  | [] => True
  | c :: _ => isHex c = false

instance (s : List Nat) : Decidable (NoHexStart s) := by
  unfold NoHexStart; split <;> infer_instance

/-- **C20: non-hex text is rejected with E_FAILED (and no result).** -/
theorem stringToH3_not_hex (s : List Nat) (hs : NoHexStart s) : stringToH3 s = .error .failed := by
  unfold NoHexStart at hs
  unfold stringToH3 scanHex
  generalize splitSign (List.dropWhile isSpace s) = ns at *
  obtain ⟨neg, u⟩ := ns
  simp only [] at hs ⊢
  cases u with
  | nil => simp [splitZero]
  | cons c r =>
    simp only [] at hs
    have hc48 : c ≠ 48 := by intro h; subst h; simp [isHex, hexVal] at hs
    rw [splitZero_nonzero c r hc48]
    simp [List.takeWhile, hs]

-- non-vacuity
example : toHex 0x8928539702bffff#64 = "8928539702bffff".toList.map Char.toNat := by decide
example : stringToH3 ("  +0X1f zz".toList.map Char.toNat) = .ok 0x1f#64 := by decide
example : NoHexStart ("-g".toList.map Char.toNat) := by decide
example : NoHexStart [] := by decide

end H3.C20
