/-
C09 / C01 (closure clause) — `localIjkToCell` (hence `localIjToCell`, and every cell `gridPathCells`
writes) only ever returns valid cells of the origin's resolution: for every origin index and every
coordinate triple, in every branch (same base cell, neighbouring base cell, pentagon origin, pentagon
target, all unfolding tables).
-/
import H3Proofs.Props.C02Valid

namespace H3.C09V
open H3 H3.DP H3.DR H3.Bits H3.C09R H3.C03R H3.C05V H3.C05M H3.C02V

/-! ### the overflow-checked steps compute what the unchecked ones compute -/

theorem upAp7Checked_eq (c u : CoordIJK) (h : upAp7Checked c = .ok u) : u = upAp7 c := by
  unfold upAp7Checked at h
  simp only [] at h
  repeat' split at h
  all_goals first
    | (simp at h; done)
    | (simp only [Except.ok.injEq] at h; rw [← h]; unfold upAp7; congr 2 <;> (congr 1; omega))

theorem upAp7rChecked_eq (c u : CoordIJK) (h : upAp7rChecked c = .ok u) : u = upAp7r c := by
  unfold upAp7rChecked at h
  simp only [] at h
  repeat' split at h
  all_goals first
    | (simp at h; done)
    | (simp only [Except.ok.injEq] at h; rw [← h]; unfold upAp7r; congr 2 <;> (congr 1; omega))

theorem stepD_eq_stepF (res k : Nat) (x y : BitVec 64 × CoordIJK) (h : stepD res x k = .ok y) : y = stepF res x k := by
  obtain ⟨out, c⟩ := x
  unfold stepD at h
  unfold stepF
  simp only [] at h ⊢
  by_cases hl : isResClassIII (res - k) = true
  · simp only [hl, if_true, bind, Except.bind, pure, Except.pure] at h ⊢
    cases hu : upAp7Checked c with
    | error e => rw [hu] at h; simp at h
    | ok u =>
      rw [hu] at h
      simp only [Except.ok.injEq] at h
      rw [← h, upAp7Checked_eq c u hu]
  · simp only [hl, Bool.false_eq_true, if_false, bind, Except.bind, pure, Except.pure] at h ⊢
    cases hu : upAp7rChecked c with
    | error e => rw [hu] at h; simp at h
    | ok u =>
      rw [hu] at h
      simp only [Except.ok.injEq] at h
      rw [← h, upAp7rChecked_eq c u hu]

theorem foldlM_eq_foldl (res : Nat) : ∀ (l : List Nat) (x y : BitVec 64 × CoordIJK),
    l.foldlM (stepD res) x = .ok y → y = l.foldl (stepF res) x := by
  intro l
  induction l with
  | nil => intro x y h; simp only [List.foldlM_nil, pure, Except.pure, Except.ok.injEq] at h; rw [← h]; rfl
  | cons k rest ih =>
    intro x y h
    rw [List.foldlM_cons] at h
    cases hs : stepD res x k with
    | error e => rw [hs] at h; simp [bind, Except.bind] at h
    | ok z =>
      rw [hs] at h
      simp only [bind, Except.bind] at h
      rw [List.foldl_cons, ← stepD_eq_stepF res k x z hs]
      exact ih z y h

/-- a successful digit loop of `localIjkToCell` leaves proper digits and a normalised remainder -/
theorem checked_loop_valid (res : Nat) (hres : res ≤ 15) (h1 : 1 ≤ res) (ijk : CoordIJK) (out' : BitVec 64) (c' : CoordIJK)
    (h : ijkToDigitsChecked (setRes (setMode H3_INIT 1) res) ijk res = .ok (out', c')) : PV res 0 out' ∧ Normal c' := by
  rw [ijkToDigitsChecked_eq] at h
  have e := foldlM_eq_foldl res _ _ _ h
  obtain ⟨hp, hN⟩ := loopF_valid res hres res 0 (setRes (setMode H3_INIT 1) res) ijk (by omega) (init_PV res hres)
  rw [← List.range_eq_range', ← e] at hp hN
  exact ⟨hp, hN (Or.inl h1)⟩


/-! ### small facts -/

theorem lnzGo_congr (a b : BitVec 64) (hd : ∀ r, 1 ≤ r → r ≤ 15 → getDigit a r = getDigit b r) : ∀ fuel r, 1 ≤ r → r + fuel ≤ 16 →
    leadingNonZeroDigit.go a r fuel = leadingNonZeroDigit.go b r fuel := by
  intro fuel
  induction fuel with
  | zero => intro r _ _; rfl
  | succ fuel ih =>
    intro r h1 h2
    unfold leadingNonZeroDigit.go
    rw [hd r h1 (by omega), ih (r + 1) (by omega) (by omega)]

theorem lnz_setBaseCell (x : BitVec 64) (v : Nat) (hv : v < 128) :
    leadingNonZeroDigit (setBaseCell x v) = leadingNonZeroDigit x := by
  unfold leadingNonZeroDigit
  have hr := (getDigit_setBaseCell x v 1 hv ⟨by omega, by omega⟩).2.1
  rw [hr]
  have := getRes_lt x
  exact lnzGo_congr _ _ (fun r h1 h15 => (getDigit_setBaseCell x v r hv ⟨h1, h15⟩).1) _ 1 (by omega) (by omega)

theorem PV0_to_DV {res : Nat} {x : BitVec 64} (hp : PV res 0 x) : DV res (getBaseCell x) x := by
  obtain ⟨a, b, c, e, g⟩ := hp
  refine ⟨a, b, c, e, rfl, fun r h1 h15 => ?_⟩
  have := g r h1 h15
  by_cases c1 : r ≤ res
  · have c2 : 0 < r ∧ r ≤ res := by omega
    simp only [c2, and_self, if_true] at this
    simp only [c1, if_true]; exact this
  · have c2 : ¬ (0 < r ∧ r ≤ res) := by omega
    simp only [c2, if_false] at this
    simp only [c1, if_false]; exact this

theorem DV_to_PV0 {res bc : Nat} {x : BitVec 64} (d : DV res bc x) : PV res 0 x := by
  obtain ⟨a, b, c, e, _, g⟩ := d
  refine ⟨a, b, c, e, fun r h1 h15 => ?_⟩
  have := g r h1 h15
  by_cases c1 : r ≤ res
  · have c2 : 0 < r ∧ r ≤ res := by omega
    simp only [c1, if_true] at this
    simp only [c2, and_self, if_true]; exact this
  · have c2 : ¬ (0 < r ∧ r ≤ res) := by omega
    simp only [c1, if_false] at this
    simp only [c2, if_false]; exact this

theorem PV0_iter_ccw {res : Nat} (hres : res ≤ 15) (k : Nat) {x : BitVec 64} (hp : PV res 0 x) : PV res 0 (iterate h3Rotate60ccw k x) :=
  DV_to_PV0 (iterate_inv (DV res (getBaseCell x)) h3Rotate60ccw (fun _ => h3Rotate60ccw_DV hres) k x (PV0_to_DV hp))

theorem PV0_iter_pent {res : Nat} (hres : res ≤ 15) (k : Nat) {x : BitVec 64} (hp : PV res 0 x) : PV res 0 (iterate h3RotatePent60ccw k x) :=
  DV_to_PV0 (iterate_inv (DV res (getBaseCell x)) h3RotatePent60ccw (fun _ => h3RotatePent60ccw_DV hres) k x (PV0_to_DV hp))

/-- the result: PV + a base cell below 122 + (pentagon base cell → leading digit ≠ 1) is a valid cell -/
theorem finish_valid {res : Nat} {x : BitVec 64} (hp : PV res 0 x) (bc : Nat) (hbc : bc < 122)
    (hl : isBaseCellPentagon bc = true → leadingNonZeroDigit x ≠ 1) :
    Valid.ValidN (setBaseCell x bc) ∧ getRes (setBaseCell x bc) = res := by
  have d := PV0_DV hp bc (by omega)
  obtain ⟨W, R⟩ := d.weak hbc
  have hb : getBaseCell (setBaseCell x bc) = bc := d.2.2.2.2.1
  refine ⟨⟨W.1, W.2.1, W.2.2.1, W.2.2.2.1, W.2.2.2.2, ?_⟩, R⟩
  intro hpent
  rw [hb] at hpent
  apply pent_clause_of_lnz
  rw [lnz_setBaseCell x bc (by omega)]
  exact hl hpent

theorem unit_of_small (c : CoordIJK) (hN : Normal c) (h1 : c.i ≤ 1 ∧ c.j ≤ 1 ∧ c.k ≤ 1) : unitIjkToDigit c < 7 := by
  obtain ⟨i, j, k⟩ := c
  obtain ⟨n1, n2, n3, n4⟩ := hN
  simp only [] at n1 n2 n3 n4 h1
  have hi : i = 0 ∨ i = 1 := by omega
  have hj : j = 0 ∨ j = 1 := by omega
  have hk : k = 0 ∨ k = 1 := by omega
  rcases hi with rfl | rfl <;> rcases hj with rfl | rfl <;> rcases hk with rfl | rfl <;> first | (exfalso; omega) | decide

/-- base-cell table facts used by `localIjkToCell` -/
theorem nbr_table : ∀ bc : Fin 122, ∀ d : Fin 7,
    (bcNeighbor bc.val d.val < 122 ∨ bcNeighbor bc.val d.val = 127) ∧
    (isBaseCellPentagon bc.val = false → bcNeighbor bc.val d.val < 122) ∧
    (isBaseCellPentagon bc.val = true → d.val ≠ 1 → d.val ≠ 0 → bcNeighbor bc.val d.val < 122 ∧ isBaseCellPentagon (bcNeighbor bc.val d.val) = false) ∧
    (isBaseCellPentagon bc.val = true → (bcNeighbor bc.val d.val = 127 ∨ isBaseCellPentagon (bcNeighbor bc.val d.val) = false ∨ d.val = 0)) := by
  decide +kernel

theorem lnz_res0 (x : BitVec 64) (h : getRes x = 0) : leadingNonZeroDigit x = 0 :=
  lnz_zero x (fun r h1 h2 => by omega)

theorem localIjkToCell_valid (o : BitVec 64) (ijk : CoordIJK) (h : BitVec 64) (hs : localIjkToCell o ijk = .ok h) :
    Valid.ValidN h ∧ getRes h = getRes o := by
  have hres15 : getRes o ≤ 15 := by have := getRes_lt o; omega
  have ht : ∀ e : H3Error, (throw e : Except H3Error Unit) = Except.error e := fun _ => rfl
  by_cases hb : getBaseCell o ≥ 122
  · unfold localIjkToCell at hs; simp [hb, bind, Except.bind, ht] at hs
  have hbo : getBaseCell o < 122 := by omega
  by_cases h0 : getRes o = 0
  · have hr0 : (getRes o == 0) = true := by simpa using h0
    unfold localIjkToCell at hs
    simp only [hb, hr0, bind, Except.bind, pure, Except.pure, if_false, if_true, ht] at hs
    have hd8 := unitDigit_lt8 ijk
    split at hs
    · simp at hs
    · next hd7 =>
      have hd : unitIjkToDigit ijk < 7 := by
        have : unitIjkToDigit ijk ≠ 7 := by simpa using hd7
        omega
      split at hs
      · simp at hs
      · next hne =>
        simp only [Except.ok.injEq] at hs
        have T := (nbr_table ⟨getBaseCell o, hbo⟩ ⟨unitIjkToDigit ijk, hd⟩).1
        simp only [] at T
        have hlt : bcNeighbor (getBaseCell o) (unitIjkToDigit ijk) < 122 := by
          rcases T with T | T
          · exact T
          · exfalso; apply hne; simp [T]
        rw [← hs]
        have hp := init_PV 0 (by omega)
        rw [h0]
        exact finish_valid hp _ hlt (fun _ => by rw [lnz_res0 _ hp.2.2.2.1]; decide)
  · have hr0 : (getRes o == 0) = false := by simpa using h0
    have hr1 : 1 ≤ getRes o := by omega
    cases hl : ijkToDigitsChecked (setRes (setMode H3_INIT 1) (getRes o)) ijk (getRes o) with
    | error e => unfold localIjkToCell at hs; simp [hb, hr0, hl, bind, Except.bind, ht] at hs
    | ok r =>
      obtain ⟨out1, c'⟩ := r
      obtain ⟨hp, hN⟩ := checked_loop_valid (getRes o) hres15 hr1 ijk out1 c' hl
      have hd8 := unitDigit_lt8 c'
      have hsmall_or : (decide (c'.i > 1) || decide (c'.j > 1) || decide (c'.k > 1)) = true ∨ (c'.i ≤ 1 ∧ c'.j ≤ 1 ∧ c'.k ≤ 1) := by
        by_cases e : (decide (c'.i > 1) || decide (c'.j > 1) || decide (c'.k > 1)) = true
        · exact Or.inl e
        · right
          simp only [Bool.or_eq_true, decide_eq_true_eq, not_or, Int.not_lt] at e
          omega
      rcases hsmall_or with hbig | hsm
      · unfold localIjkToCell at hs
        simp (config := {maxSteps := 4000000}) only [hb, hr0, hl, hbig, bind, Except.bind, pure, Except.pure, if_false, if_true,
          Bool.false_eq_true, ht] at hs
        simp at hs
      have hnbig : (decide (c'.i > 1) || decide (c'.j > 1) || decide (c'.k > 1)) = false := by
        simp only [Bool.or_eq_false_iff, decide_eq_false_iff_not]; omega
      by_cases hop : isBaseCellPentagon (getBaseCell o) = true
      · by_cases hd0 : unitIjkToDigit c' = 0
        · unfold localIjkToCell at hs
          simp (config := {maxSteps := 4000000}) only [hb, hr0, hl, hnbig, hop, hd0, bind, Except.bind, pure, Except.pure, if_false, if_true,
            Bool.false_eq_true, ht, bne_self_eq_false, Bool.true_and] at hs
          have hbn0 := bcNeighbor_zero ⟨getBaseCell o, hbo⟩
          simp only [] at hbn0
          have hne : (getBaseCell o == 127) = false := by
            have : getBaseCell o ≠ 127 := by omega
            simpa using this
          simp only [hbn0, hne, hop, Bool.false_eq_true, if_false, if_true] at hs
          repeat' split at hs
          all_goals first
            | (simp at hs; done)
            | (simp only [Except.ok.injEq] at hs; rw [← hs]
               refine finish_valid (PV0_iter_ccw hres15 _ hp) _ hbo (fun _ => ?_)
               simp_all)
        · have hd7 : unitIjkToDigit c' < 7 := unit_of_small c' hN hsm
          have hdne : (unitIjkToDigit c' != 0) = true := by simpa using hd0
          unfold localIjkToCell at hs
          simp (config := {maxSteps := 4000000}) only [hb, hr0, hl, hnbig, hop, hdne, bind, Except.bind, pure, Except.pure, if_false, if_true,
            Bool.false_eq_true, ht, Bool.true_and] at hs
          have T := nbr_table ⟨getBaseCell o, hbo⟩ ⟨unitIjkToDigit c', hd7⟩
          simp only [] at T
          have hiop : (if (bcNeighbor (getBaseCell o) (unitIjkToDigit c') == 127) = true then false
              else isBaseCellPentagon (bcNeighbor (getBaseCell o) (unitIjkToDigit c'))) = false := by
            rcases T.2.2.2 hop with e | e | e
            · simp [e]
            · simp [e]
            · exact absurd e hd0
          simp only [hiop, Bool.false_eq_true, if_false] at hs
          -- the rotated direction: a digit 1..6
          have hrot : ∀ n d, d < 7 → d ≠ 0 → iterate rotate60ccw n d < 7 ∧ iterate rotate60ccw n d ≠ 0 := by
            intro n
            induction n with
            | zero => intro d h1 h2; exact ⟨h1, h2⟩
            | succ n ih =>
              intro d h1 h2
              have : ∀ d : Fin 7, d.val ≠ 0 → rotate60ccw d.val < 7 ∧ rotate60ccw d.val ≠ 0 := by decide
              exact ih _ (this ⟨d, h1⟩ h2).1 (this ⟨d, h1⟩ h2).2
          repeat' split at hs
          all_goals first
            | (simp at hs; done)
            | (next _ hne1 _ =>
               simp only [Except.ok.injEq] at hs; rw [← hs]
               have R := hrot (PENTAGON_ROTATIONS_REVERSE (leadingNonZeroDigit o) (unitIjkToDigit c')).toNat (unitIjkToDigit c') hd7 hd0
               have T3 := (nbr_table ⟨getBaseCell o, hbo⟩ ⟨_, R.1⟩).2.2.1 hop (by simpa using hne1) R.2
               simp only [] at T3
               refine finish_valid (PV0_iter_ccw hres15 _ (PV0_iter_ccw hres15 _ hp)) _ T3.1 (fun hpB => ?_)
               rw [T3.2] at hpB; exact absurd hpB (by decide))
      · -- hexagon origin
        have hopf : isBaseCellPentagon (getBaseCell o) = false := by simpa using hop
        by_cases hd0 : unitIjkToDigit c' = 0
        · unfold localIjkToCell at hs
          have hbn0 := bcNeighbor_zero ⟨getBaseCell o, hbo⟩
          simp only [] at hbn0
          have hne : (getBaseCell o == 127) = false := by
            have : getBaseCell o ≠ 127 := by omega
            simpa using this
          simp (config := {maxSteps := 4000000}) only [hb, hr0, hl, hnbig, hopf, hd0, hbn0, hne, bind, Except.bind, pure, Except.pure, if_false, if_true,
            Bool.false_eq_true, ht, bne_self_eq_false, Bool.false_and] at hs
          simp only [Except.ok.injEq] at hs
          rw [← hs]
          exact finish_valid hp _ hbo (fun hpB => by rw [hopf] at hpB; exact absurd hpB (by decide))
        · have hd7 : unitIjkToDigit c' < 7 := unit_of_small c' hN hsm
          have hdne : (unitIjkToDigit c' != 0) = true := by simpa using hd0
          have T := nbr_table ⟨getBaseCell o, hbo⟩ ⟨unitIjkToDigit c', hd7⟩
          simp only [] at T
          have hlt := T.2.1 hopf
          have hne : (bcNeighbor (getBaseCell o) (unitIjkToDigit c') == 127) = false := by
            have : bcNeighbor (getBaseCell o) (unitIjkToDigit c') ≠ 127 := by omega
            simpa using this
          unfold localIjkToCell at hs
          simp (config := {maxSteps := 4000000}) only [hb, hr0, hl, hnbig, hopf, hdne, hne, bind, Except.bind, pure, Except.pure, if_false, if_true,
            Bool.false_eq_true, ht, Bool.false_and] at hs
          by_cases hip : isBaseCellPentagon (bcNeighbor (getBaseCell o) (unitIjkToDigit c')) = true
          · simp only [hip, if_true] at hs
            repeat' split at hs
            all_goals first
              | (simp at hs; done)
              | (next hl1 =>
                 simp only [Except.ok.injEq] at hs; rw [← hs]
                 refine finish_valid (PV0_iter_pent hres15 _ (PV0_iter_ccw hres15 _ hp)) _ hlt (fun _ => ?_)
                 simpa using hl1)
          · have hipf : isBaseCellPentagon (bcNeighbor (getBaseCell o) (unitIjkToDigit c')) = false := by simpa using hip
            simp only [hipf, Bool.false_eq_true, if_false] at hs
            repeat' split at hs
            all_goals first
              | (simp at hs; done)
              | (simp only [Except.ok.injEq] at hs; rw [← hs]
                 refine finish_valid (PV0_iter_ccw hres15 _ (PV0_iter_ccw hres15 _ hp)) _ hlt (fun hpB => ?_)
                 rw [hipf] at hpB; exact absurd hpB (by decide))


/-- **C09: `localIjToCell` only ever returns valid cells of the origin's resolution** (every origin index,
every coordinate pair, every mode) -/
theorem localIjToCell_valid (o : BitVec 64) (ij : CoordIJ) (mode : Nat) (h : BitVec 64)
    (hs : localIjToCell o ij mode = .ok h) : Valid.ValidN h ∧ getRes h = getRes o := by
  unfold localIjToCell at hs
  split at hs
  · simp at hs
  · split at hs
    · simp at hs
    · next c _ => exact localIjkToCell_valid o c h hs

/-- **C14 / C01: every cell `gridPathCells` writes is a valid cell of the start's resolution** (whatever the
floating-point interpolation produced) -/
theorem gridPathCells_go_valid (s : BitVec 64) (a : CoordIJK) (x y z : Float) : ∀ (fuel n : Nat) (out : Array (BitVec 64)),
    (∀ c ∈ out.toList, Valid.ValidN c ∧ getRes c = getRes s) →
    ∀ c ∈ (gridPathCells.go s a x y z n fuel out).2.toList, Valid.ValidN c ∧ getRes c = getRes s := by
  intro fuel
  induction fuel with
  | zero => intro n out h; unfold gridPathCells.go; exact h
  | succ fuel ih =>
    intro n out h
    unfold gridPathCells.go
    simp only []
    split
    · exact h
    · next cell hc =>
      apply ih
      intro c hcm
      simp only [Array.toList_push, List.mem_append, List.mem_singleton] at hcm
      rcases hcm with hcm | hcm
      · exact h c hcm
      · rw [hcm]; exact localIjkToCell_valid s _ cell hc

theorem gridPathCells_valid (s e : BitVec 64) :
    ∀ c ∈ (gridPathCells s e).2.toList, Valid.ValidN c ∧ getRes c = getRes s := by
  unfold gridPathCells
  split
  · simp
  · split
    · exact gridPathCells_go_valid s _ _ _ _ _ _ _ (by simp)
    · simp
    · simp

end H3.C09V
