/-
C17 — polygonToCellsExperimental and maxPolygonToCellsSizeExperimental with a failing allocator
(model: H3Model/PolyAlloc.lean; traces compared with the C allocator trace at every failure index by the
`apolyxs` / `amaxpolyxs` correspondence streams).  All theorems are for EVERY failure schedule, EVERY resolution /
flags / capacity argument, EVERY number of holes and EVERY outcome of the floating-point iteration.
-/
import H3Proofs.Props.C17Disk
import H3Model.PolyAlloc

namespace H3.C17P
open H3 H3.C17 H3.C17D

theorem inv0 : Inv ({} : AState) [] := ⟨rfl, rfl, rfl, by simp⟩

/-- after the single allocation succeeded and was released again: clean, and no failure was recorded -/
theorem post_alloc_free {α : Type} (r : R α) (b : Nat) : PostG r ((okState ({} : AState) b).free (({} : AState).calls + 1)) := by
  have h1 := inv_ok b inv0
  have h2 := free_inv h1 (({} : AState).calls + 1) (by simp)
  refine ⟨by rw [h2.live_eq]; simp, by rw [h2.wf]; rfl, ?_⟩
  intro hf
  rw [h2.nofail] at hf
  exact absurd hf (by decide)

/-- the state after `_iterInitPolygonCompact`: either untouched (argument error), or one failed allocation (reported
as E_MEMORY_ALLOC), or exactly one live block -/
theorem iterInitA_cases (sched : Nat → Bool) (res : Int) (flags : BitVec 32) (numHoles : Nat) :
    (∃ e, iterInitA sched res flags numHoles {} = (.error e, {})) ∨
    (iterInitA sched res flags numHoles {} = (.error .memoryAlloc, failState {} (bboxBytes numHoles))) ∨
    (iterInitA sched res flags numHoles {} = (.ok (({} : AState).calls + 1), okState {} (bboxBytes numHoles))) := by
  unfold iterInitA
  split
  · exact .inl ⟨_, rfl⟩
  · split
    · exact .inl ⟨_, rfl⟩
    · by_cases hs : sched (({} : AState).calls + 1) = true
      · rw [alloc_fail_eq _ sched _ hs]; exact .inr (.inl rfl)
      · have hs' : sched (({} : AState).calls + 1) = false := by simpa using hs
        rw [alloc_ok_eq _ sched _ hs']; exact .inr (.inr rfl)

theorem post_fail {α : Type} (b : Nat) : PostG (.error .memoryAlloc : R α) (failState ({} : AState) b) :=
  ⟨by simp [failState_live], by simp [failState_replay _ inv0], fun _ => rfl⟩

/-- **C17, polygonToCellsExperimental: for every failure schedule, every argument and every outcome of the iteration**
nothing is left allocated (on success, on E_MEMORY_BOUNDS, on an iterator error and on every argument error), nothing
is freed twice, and an injected failure is reported as E_MEMORY_ALLOC. -/
theorem polygonToCellsExperimental_alloc_clean (sched : Nat → Bool) (res : Int) (flags : BitVec 32) (numHoles : Nat)
    (o : IterOutcome) (size : Int) :
    PostG (polygonToCellsExperimentalA sched res flags numHoles o size {}).1
          (polygonToCellsExperimentalA sched res flags numHoles o size {}).2 := by
  unfold polygonToCellsExperimentalA
  rcases iterInitA_cases sched res flags numHoles with ⟨e, h⟩ | h | h <;> rw [h] <;> simp only []
  · exact postG_untouched _
  · exact post_fail _
  · split
    · exact post_alloc_free _ _
    · split <;> exact post_alloc_free _ _

/-- **C17, maxPolygonToCellsSizeExperimental**, same statement (including the zero-vertex special case, which never
allocates). -/
theorem maxPolygonToCellsSizeExperimental_alloc_clean (sched : Nat → Bool) (res : Int) (flags : BitVec 32)
    (numVerts numHoles : Nat) (o : IterOutcome) :
    PostG (maxPolygonToCellsSizeExperimentalA sched res flags numVerts numHoles o {}).1
          (maxPolygonToCellsSizeExperimentalA sched res flags numVerts numHoles o {}).2 := by
  unfold maxPolygonToCellsSizeExperimentalA
  split
  · split
    · exact postG_untouched _
    · split <;> exact postG_untouched _
  · rcases iterInitA_cases sched res flags numHoles with ⟨e, h⟩ | h | h <;> rw [h] <;> simp only []
    · exact postG_untouched _
    · exact post_fail _
    · split <;> exact post_alloc_free _ _

/-- **identical results when nothing fails**: if the schedule does not fail the (only) allocation, the answer is the
one obtained with the default allocator -/
theorem polygonToCellsExperimental_nofail_same (sched : Nat → Bool) (res : Int) (flags : BitVec 32) (numHoles : Nat)
    (o : IterOutcome) (size : Int) (hs : sched 1 = false) :
    polygonToCellsExperimentalA sched res flags numHoles o size {} =
      polygonToCellsExperimentalA noFail res flags numHoles o size {} := by
  unfold polygonToCellsExperimentalA iterInitA
  have e1 : ({} : AState).alloc sched (bboxBytes numHoles) = ({} : AState).alloc noFail (bboxBytes numHoles) := by
    simp [AState.alloc, hs, noFail]
  rw [e1]

theorem maxPolygonToCellsSizeExperimental_nofail_same (sched : Nat → Bool) (res : Int) (flags : BitVec 32)
    (numVerts numHoles : Nat) (o : IterOutcome) (hs : sched 1 = false) :
    maxPolygonToCellsSizeExperimentalA sched res flags numVerts numHoles o {} =
      maxPolygonToCellsSizeExperimentalA noFail res flags numVerts numHoles o {} := by
  unfold maxPolygonToCellsSizeExperimentalA iterInitA
  have e1 : ({} : AState).alloc sched (bboxBytes numHoles) = ({} : AState).alloc noFail (bboxBytes numHoles) := by
    simp [AState.alloc, hs, noFail]
  rw [e1]

/-- the capacity rule: with the default allocator and valid arguments, more cells than `size` gives E_MEMORY_BOUNDS,
otherwise the iterator's own verdict -/
theorem polygonToCellsExperimental_bounds (res : Int) (flags : BitVec 32) (numHoles : Nat) (o : IterOutcome) (size : Int)
    (hr : ¬ (res < 0 ∨ res > 15)) (hf : validatePolygonFlags flags = none) :
    (polygonToCellsExperimentalA noFail res flags numHoles o size {}).1 =
      (if o.ncells > size.toNat then .error .memoryBounds
       else match o.err with | some e => .error e | none => .ok o.ncells) := by
  unfold polygonToCellsExperimentalA iterInitA
  have hr' : (decide (res < 0) || decide (res > 15)) = false := by
    simp only [not_or] at hr; simp [hr.1, hr.2]
  simp only [hr', Bool.false_eq_true, if_false, hf, AState.alloc, noFail]
  obtain ⟨n, e⟩ := o
  cases e <;> simp only [] <;> split <;> rfl

-- non-vacuity: a failing first allocation, a clean run that fills the buffer exactly, and one that overflows it
example : (polygonToCellsExperimentalA (fun c => c == 1) 5 0#32 2 ⟨7, none⟩ 7 {}).1 = .error .memoryAlloc := by decide
example : (polygonToCellsExperimentalA noFail 5 0#32 2 ⟨7, none⟩ 7 {}).1 = .ok 7 ∧
    (polygonToCellsExperimentalA noFail 5 0#32 2 ⟨7, none⟩ 7 {}).2.trace = [.alloc 1 96, .free 1] := by decide
example : (polygonToCellsExperimentalA noFail 5 0#32 0 ⟨7, none⟩ 6 {}).1 = .error .memoryBounds := by decide
example : (maxPolygonToCellsSizeExperimentalA noFail 16 0#32 0 0 ⟨0, none⟩ {}).1 = .error .resDomain := by decide

end H3.C17P
