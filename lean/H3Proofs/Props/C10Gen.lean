/-
Translation validation of `getDirectedEdgeOrigin`, `isValidDirectedEdge` (directedEdge.c) and `maxFaceCount`
(h3Index.c): translated from the C text on every run by tools/c2lean.py — the call
`getDirectedEdgeOrigin(edge, &origin)` passes the address of an uninitialised local, whose indeterminate value is an
extra, universally quantified parameter `u_origin` of the translation — and proved equal to the model's functions
for all 2^64 index values (and all values of `u_origin`).
-/
import H3Proofs.Lemmas.Bits
import H3Proofs.Props.C04Gen
import H3Proofs.Props.C01
import H3Model.EdgeVertex
import H3Model.FaceIjk
import Std.Tactic.BVDecide

namespace H3.C10G
open H3 H3.Bits

theorem getDirectedEdgeOrigin_defined_all (e o : BitVec 64) : Gen.Bits.getDirectedEdgeOrigin_defined e o = true := by
  unfold Gen.Bits.getDirectedEdgeOrigin_defined
  bv_decide

theorem origin_code (e o : BitVec 64) :
    Gen.Bits.getDirectedEdgeOrigin e o = (if Gen.Bits.m_get_mode e != 2#32 then 6#32 else 0#32) := by
  unfold Gen.Bits.getDirectedEdgeOrigin Gen.Bits.m_get_mode
  bv_decide

theorem origin_out (e o : BitVec 64) :
    Gen.Bits.getDirectedEdgeOrigin_out_out e o = (if Gen.Bits.m_get_mode e != 2#32 then o else
      Gen.Bits.m_set_reserved (Gen.Bits.m_set_mode e 1#32) 0#32) := by
  unfold Gen.Bits.getDirectedEdgeOrigin_out_out Gen.Bits.m_get_mode Gen.Bits.m_set_reserved Gen.Bits.m_set_mode
  bv_decide

/-- **the C function `getDirectedEdgeOrigin` is the model's** -/
theorem getDirectedEdgeOrigin_eq_model (e o : BitVec 64) :
    match H3.getDirectedEdgeOrigin e with
    | .ok c => Gen.Bits.getDirectedEdgeOrigin e o = 0#32 ∧ Gen.Bits.getDirectedEdgeOrigin_out_out e o = c
    | .error err => Gen.Bits.getDirectedEdgeOrigin e o = BitVec.ofNat 32 err.code ∧ Gen.Bits.getDirectedEdgeOrigin_out_out e o = o := by
  have e1 : Gen.Bits.getDirectedEdgeOrigin e o = (if Gen.Bits.m_get_mode e != 2#32 then 6#32 else 0#32) := by
    unfold Gen.Bits.getDirectedEdgeOrigin Gen.Bits.m_get_mode
    bv_decide
  have e2 : Gen.Bits.getDirectedEdgeOrigin_out_out e o = (if Gen.Bits.m_get_mode e != 2#32 then o else
      Gen.Bits.m_set_reserved (Gen.Bits.m_set_mode e 1#32) 0#32) := by
    unfold Gen.Bits.getDirectedEdgeOrigin_out_out Gen.Bits.m_get_mode Gen.Bits.m_set_reserved Gen.Bits.m_set_mode
    bv_decide
  rw [e1, e2]
  unfold H3.getDirectedEdgeOrigin getMode
  have hb : (Gen.Bits.m_get_mode e != 2#32) = ((Gen.Bits.m_get_mode e).toNat != 2) := by
    by_cases c : Gen.Bits.m_get_mode e = 2#32
    · rw [c]; rfl
    · have : (Gen.Bits.m_get_mode e).toNat ≠ 2 := by
        intro hh; apply c; apply BitVec.eq_of_toNat_eq; simpa using hh
      have a : (Gen.Bits.m_get_mode e != 2#32) = true := by simpa using c
      have b : ((Gen.Bits.m_get_mode e).toNat != 2) = true := by simpa using this
      rw [a, b]
  rw [hb]
  cases ((Gen.Bits.m_get_mode e).toNat != 2)
  · simp only [Bool.false_eq_true, if_false]
    exact ⟨trivial, rfl⟩
  · simp only [if_true]
    exact ⟨rfl, trivial⟩

theorem isValidDirectedEdge_defined_all (e u : BitVec 64) : Gen.Bits.isValidDirectedEdge_defined e u = true := by
  unfold Gen.Bits.isValidDirectedEdge_defined
  simp only [getDirectedEdgeOrigin_defined_all, C04G.isPentagon_defined_all, C01.isValidCell_defined_all]
  bv_decide

set_option maxRecDepth 4000 in
/-- **the C function `isValidDirectedEdge` is the model's**, whatever indeterminate value its uninitialised local
`origin` holds before `getDirectedEdgeOrigin` fills it -/
theorem isValidDirectedEdge_eq_model (e u : BitVec 64) :
    Gen.Bits.isValidDirectedEdge e u = (if H3.isValidDirectedEdge e then 1#32 else 0#32) := by
  have shape : Gen.Bits.isValidDirectedEdge e u =
      (let d := Gen.Bits.m_get_reserved e
       if BitVec.ule d 0#32 || BitVec.ule 7#32 d then 0#32
       else if Gen.Bits.m_get_mode e != 2#32 then 0#32
       else
         let origin := Gen.Bits.m_set_reserved (Gen.Bits.m_set_mode e 1#32) 0#32
         if Gen.Bits.isPentagon origin != 0#32 && d == 1#32 then 0#32 else Gen.Bits.isValidCell origin) := by
    unfold Gen.Bits.isValidDirectedEdge
    simp only [origin_code, origin_out]
    by_cases hm : (Gen.Bits.m_get_mode e != 2#32) = true
    · simp only [hm, if_true]
      unfold Gen.Bits.m_get_reserved
      bv_decide
    · simp only [hm, if_false]
      unfold Gen.Bits.m_get_reserved
      bv_decide
  rw [shape]
  have vc : ∀ x : BitVec 64, Gen.Bits.isValidCell x = (if H3.isValidCell x then 1#32 else 0#32) := by
    intro x
    unfold H3.isValidCell
    have : Gen.Bits.isValidCell x = 0#32 ∨ Gen.Bits.isValidCell x = 1#32 := by
      have h1 : BitVec.ult (Gen.Bits.isValidCell x) 2#32 = true := by
        simp only [Gen.Bits.isValidCell, Gen.Bits.hasGoodTopBits, Gen.Bits.hasAny7UptoRes, Gen.Bits.hasAll7AfterRes,
          Gen.Bits.hasDeletedSubsequence, Gen.Bits.firstOneIndex, Gen.Bits.hasDeletedSubsequence_isBaseCellPentagonArr]
        bv_decide
      generalize Gen.Bits.isValidCell x = y at h1
      bv_decide
    rcases this with h | h <;> rw [h] <;> decide
  unfold H3.isValidDirectedEdge H3.getDirectedEdgeOrigin getReserved getMode
  have hd : (Gen.Bits.m_get_reserved e).toNat < 8 := by
    have : BitVec.ult (Gen.Bits.m_get_reserved e) 8#32 = true := by
      unfold Gen.Bits.m_get_reserved; bv_decide
    simpa [BitVec.ult] using this
  have c1 : (BitVec.ule (Gen.Bits.m_get_reserved e) 0#32 || BitVec.ule 7#32 (Gen.Bits.m_get_reserved e)) =
      (decide ((Gen.Bits.m_get_reserved e).toNat ≤ 0) || decide ((Gen.Bits.m_get_reserved e).toNat ≥ 7)) := by
    simp [BitVec.ule]
  have c2 : (Gen.Bits.m_get_mode e != 2#32) = ((Gen.Bits.m_get_mode e).toNat != 2) := by
    by_cases c : Gen.Bits.m_get_mode e = 2#32
    · rw [c]; rfl
    · have : (Gen.Bits.m_get_mode e).toNat ≠ 2 := by
        intro hh; apply c; apply BitVec.eq_of_toNat_eq; simpa using hh
      have a : (Gen.Bits.m_get_mode e != 2#32) = true := by simpa using c
      have b : ((Gen.Bits.m_get_mode e).toNat != 2) = true := by simpa using this
      rw [a, b]
  have c3 : (Gen.Bits.m_get_reserved e == 1#32) = ((Gen.Bits.m_get_reserved e).toNat == 1) := by
    by_cases c : Gen.Bits.m_get_reserved e = 1#32
    · rw [c]; rfl
    · have : (Gen.Bits.m_get_reserved e).toNat ≠ 1 := by
        intro hh; apply c; apply BitVec.eq_of_toNat_eq; simpa using hh
      have a : (Gen.Bits.m_get_reserved e == 1#32) = false := by simpa using c
      have b : ((Gen.Bits.m_get_reserved e).toNat == 1) = false := by simpa using this
      rw [a, b]
  simp only [c1, c2, c3, C04G.isPentagon_eq_model, vc]
  have so : Gen.Bits.m_set_reserved (Gen.Bits.m_set_mode e 1#32) 0#32 = setReserved (setMode e 1) 0 := rfl
  rw [so]
  generalize setReserved (setMode e 1) 0 = origin
  by_cases q1 : (Gen.Bits.m_get_reserved e).toNat ≤ 0 <;> by_cases q2 : (Gen.Bits.m_get_reserved e).toNat ≥ 7 <;>
    by_cases q3 : (Gen.Bits.m_get_mode e).toNat = 2 <;> by_cases q4 : (Gen.Bits.m_get_reserved e).toNat = 1 <;>
    simp only [q1, q2, q3, q4, decide_true, decide_false, Bool.or_true, Bool.or_false, Bool.true_or, bne_self_eq_false,
      Bool.false_eq_true, if_true, if_false, beq_self_eq_true, Bool.and_true, Bool.and_false, bne_iff_ne, ne_eq,
      not_true_eq_false, not_false_eq_true, beq_iff_eq] <;>
    cases H3.isPentagon origin <;> cases H3.isValidCell origin <;> simp

set_option maxRecDepth 4000 in
theorem maxFaceCount_eq_model (h : BitVec 64) (o : BitVec 32) :
    Gen.Bits.maxFaceCount h o = 0#32 ∧ Gen.Bits.maxFaceCount_out_out h o = BitVec.ofNat 32 (H3.maxFaceCount h) ∧
    Gen.Bits.maxFaceCount_defined h o = true := by
  unfold Gen.Bits.maxFaceCount Gen.Bits.maxFaceCount_out_out Gen.Bits.maxFaceCount_defined H3.maxFaceCount
  simp only [C04G.isPentagon_eq_model, C04G.isPentagon_defined_all]
  cases H3.isPentagon h <;> decide

end H3.C10G
