/-
C05 / C01 (closure clause) — the result of a neighbour step satisfies the documented cell layout
except possibly for the pentagon (deleted sub-sequence) clause, at every resolution, in every base
cell, across base-cell boundaries and through every pentagon special case of `h3NeighborRotations`:
high bit 0, mode 1, reserved bits 0, base cell below 122, a digit 0–6 in each position up to the
(unchanged) resolution and the digit 7 in every later position.  For a result in one of the 110
hexagon base cells this is the whole of the layout, i.e. `layoutSpec` / `isValidCell`.
-/
import H3Proofs.Props.C05Mode
import H3Proofs.Props.C05
import H3Proofs.Lemmas.Valid

namespace H3.C05V
open H3 H3.Bits H3.C05A H3.C05M H3.Gen.Bits H3.Bfs

theorem high_set_base_cell_bv (h : BitVec 64) (v : BitVec 32) (hv : BitVec.ult v 128#32 = true) :
    m_get_high_bit (m_set_base_cell h v) = m_get_high_bit h := by
  simp only [m_get_high_bit, m_set_base_cell] at *
  bv_decide

/-- the layout without the base-cell and pentagon clauses, at a known resolution and base cell -/
def DV (res bc : Nat) (h : BitVec 64) : Prop :=
  getHighBit h = 0 ∧ getMode h = 1 ∧ getReserved h = 0 ∧ getRes h = res ∧ getBaseCell h = bc ∧
  ∀ r, 1 ≤ r → r ≤ 15 → if r ≤ res then getDigit h r < 7 else getDigit h r = 7

/-- the documented layout without the pentagon clause -/
def WeakValid (h : BitVec 64) : Prop :=
  getHighBit h = 0 ∧ getMode h = 1 ∧ getReserved h = 0 ∧ getBaseCell h < 122 ∧
  ∀ r, 1 ≤ r → r ≤ 15 → if r ≤ getRes h then getDigit h r < 7 else getDigit h r = 7

theorem DV.weak {res bc : Nat} {h : BitVec 64} (d : DV res bc h) (hbc : bc < 122) : WeakValid h ∧ getRes h = res := by
  obtain ⟨a, b, c, e, f, g⟩ := d
  exact ⟨⟨a, b, c, by omega, by rw [e]; exact g⟩, e⟩

theorem WeakValid.dv {h : BitVec 64} (w : WeakValid h) : DV (getRes h) (getBaseCell h) h :=
  ⟨w.1, w.2.1, w.2.2.1, rfl, rfl, w.2.2.2.2⟩

theorem setDigit_DV {res bc : Nat} {h : BitVec 64} (d : DV res bc h) (r v : Nat) (hr : 1 ≤ r ∧ r ≤ res) (hres : res ≤ 15)
    (hv : v < 7) : DV res bc (setDigit h r v) := by
  obtain ⟨a, b, c, e, f, g⟩ := d
  obtain ⟨s1, s2, s3, s4, s5⟩ := getRes_setDigit h r v ⟨hr.1, by omega⟩ (by omega)
  refine ⟨by rw [s5]; exact a, by rw [s3]; exact b, by rw [s4]; exact c, by rw [s1]; exact e, by rw [s2]; exact f, ?_⟩
  intro r' h1 h15
  rw [getDigit_setDigit h r r' v ⟨hr.1, by omega⟩ ⟨h1, h15⟩ (by omega)]
  by_cases e' : r' = r
  · subst e'
    simp only [if_true]
    have : r' ≤ res := hr.2
    simp [this, hv]
  · simp only [e', if_false]
    exact g r' h1 h15

theorem setBaseCell_DV {res bc : Nat} {h : BitVec 64} (d : DV res bc h) (v : Nat) (hv : v < 128) :
    DV res v (setBaseCell h v) := by
  obtain ⟨a, b, c, e, _, g⟩ := d
  have hb := getBaseCell_setBaseCell h v hv
  have hh : getHighBit (setBaseCell h v) = getHighBit h := by
    unfold getHighBit setBaseCell
    rw [high_set_base_cell_bv h _ (ofNat_lt 128 (by omega) hv)]
  obtain ⟨_, s2, s3, s4⟩ := getDigit_setBaseCell h v 1 hv ⟨by omega, by omega⟩
  refine ⟨by rw [hh]; exact a, by rw [s3]; exact b, by rw [s4]; exact c, by rw [s2]; exact e, hb, ?_⟩
  intro r h1 h15
  rw [(getDigit_setBaseCell h v r hv ⟨h1, h15⟩).1]
  exact g r h1 h15

theorem DV.digit_lt {res bc : Nat} {h : BitVec 64} (d : DV res bc h) (r : Nat) (h1 : 1 ≤ r) (hr : r ≤ res) (hres : res ≤ 15) :
    getDigit h r < 7 := by
  have := d.2.2.2.2.2 r h1 (by omega)
  simpa [hr] using this

theorem rot_lt7 (d : Nat) (hd : d < 7) : rotate60ccw d < 7 ∧ rotate60cw d < 7 := by
  have : ∀ d : Fin 7, rotate60ccw d.val < 7 ∧ rotate60cw d.val < 7 := by decide
  exact this ⟨d, hd⟩

/-- folding digit rewrites over levels a..a+n-1 (all ≤ res) keeps the layout -/
theorem fold_DV {res bc : Nat} (hres : res ≤ 15) (f : BitVec 64 → Nat → Nat)
    (hf : ∀ h r, DV res bc h → 1 ≤ r → r ≤ res → f h r < 7) : ∀ (n a : Nat) (h : BitVec 64), 1 ≤ a → a + n ≤ res + 1 →
    DV res bc h → DV res bc ((List.range' a n).foldl (fun h r => setDigit h r (f h r)) h) := by
  intro n
  induction n with
  | zero => intro a h _ _ d; exact d
  | succ n ih =>
    intro a h ha hn d
    rw [List.range'_succ, List.foldl_cons]
    exact ih (a + 1) _ (by omega) (by omega) (setDigit_DV d a _ ⟨ha, by omega⟩ hres (hf h a d ha (by omega)))

theorem mapDigits_DV {res bc : Nat} (hres : res ≤ 15) (g : Nat → Nat) (hg : ∀ d, d < 7 → g d < 7) {h : BitVec 64}
    (d : DV res bc h) : DV res bc (mapDigits g h) := by
  unfold mapDigits
  rw [d.2.2.2.1]
  exact fold_DV hres (fun h r => g (getDigit h r)) (fun h r dh h1 hr => hg _ (dh.digit_lt r h1 hr hres)) res 1 h
    (by omega) (by omega) d

theorem h3Rotate60ccw_DV {res bc : Nat} (hres : res ≤ 15) {h : BitVec 64} (d : DV res bc h) : DV res bc (h3Rotate60ccw h) :=
  mapDigits_DV hres _ (fun d hd => (rot_lt7 d hd).1) d
theorem h3Rotate60cw_DV {res bc : Nat} (hres : res ≤ 15) {h : BitVec 64} (d : DV res bc h) : DV res bc (h3Rotate60cw h) :=
  mapDigits_DV hres _ (fun d hd => (rot_lt7 d hd).2) d

theorem iterate_inv {α} (P : α → Prop) (f : α → α) (hf : ∀ x, P x → P (f x)) : ∀ n x, P x → P (iterate f n x) := by
  intro n
  induction n with
  | zero => intro x hx; exact hx
  | succ n ih => intro x hx; exact ih (f x) (hf x hx)

theorem rotatePentWith_DV {res bc : Nat} (hres : res ≤ 15) (rot : Nat → Nat) (hrot : ∀ d, d < 7 → rot d < 7)
    (whole : BitVec 64 → BitVec 64) (hw : ∀ h, DV res bc h → DV res bc (whole h)) {h : BitVec 64} (d : DV res bc h) :
    DV res bc (rotatePentWith rot whole h) := by
  unfold rotatePentWith
  simp only []
  rw [d.2.2.2.1]
  have key : ∀ (n a : Nat) (st : BitVec 64 × Bool), 1 ≤ a → a + n ≤ res + 1 → DV res bc st.1 →
      DV res bc ((List.range' a n).foldl (fun (st : BitVec 64 × Bool) r =>
        let (h, found) := st
        let h := setDigit h r (rot (getDigit h r))
        if !found && getDigit h r != 0 then
          let h := if leadingNonZeroDigit h == 1 then whole h else h
          (h, true)
        else (h, found)) st).1 := by
    intro n
    induction n with
    | zero => intro a st _ _ d; exact d
    | succ n ih =>
      intro a st ha hn d
      rw [List.range'_succ, List.foldl_cons]
      obtain ⟨h0, found⟩ := st
      have s1 := setDigit_DV d a (rot (getDigit h0 a)) ⟨ha, by omega⟩ hres (hrot _ (d.digit_lt a ha (by omega) hres))
      refine ih (a + 1) _ (by omega) (by omega) ?_
      simp only []
      split
      · simp only []
        split
        · exact hw _ s1
        · exact s1
      · exact s1
  exact key res 1 (h, false) (by omega) (by omega) d

theorem h3RotatePent60ccw_DV {res bc : Nat} (hres : res ≤ 15) {h : BitVec 64} (d : DV res bc h) :
    DV res bc (h3RotatePent60ccw h) :=
  rotatePentWith_DV hres _ (fun d hd => (rot_lt7 d hd).1) _ (fun _ d => h3Rotate60ccw_DV hres d) d

theorem table_lt7 : ∀ a d : Fin 7, newDigitII a.val d.val < 7 ∧ newDigitIII a.val d.val < 7 ∧
    newAdjII a.val d.val < 7 ∧ newAdjIII a.val d.val < 7 := by decide +kernel

theorem digitPass_DV {res bc : Nat} (hres : res ≤ 15) : ∀ (level : Nat) (current : BitVec 64) (dir : Nat) (out : BitVec 64)
    (ab : Option Nat), level ≤ res → dir < 7 → DV res bc current → digitPass current dir level = .ok (out, ab) →
    DV res bc out := by
  intro level
  induction level with
  | zero =>
    intro current dir out ab _ _ d h
    simp only [digitPass, Except.ok.injEq, Prod.mk.injEq] at h
    rw [← h.1]; exact d
  | succ level ih =>
    intro current dir out ab hl hd d h
    unfold digitPass at h
    simp only [] at h
    split at h
    · simp at h
    · have hod : getDigit current (level + 1) < 7 := d.digit_lt _ (by omega) hl hres
      have T := table_lt7 ⟨getDigit current (level + 1), hod⟩ ⟨dir, hd⟩
      have hlv : 1 ≤ level + 1 ∧ level + 1 ≤ res := ⟨by omega, hl⟩
      split at h
      · split at h
        · exact ih _ _ out ab (by omega) T.2.2.1 (setDigit_DV d _ _ hlv hres T.1) h
        · simp only [Except.ok.injEq, Prod.mk.injEq] at h
          rw [← h.1]; exact setDigit_DV d _ _ hlv hres T.1
      · split at h
        · exact ih _ _ out ab (by omega) T.2.2.2 (setDigit_DV d _ _ hlv hres T.2.1) h
        · simp only [Except.ok.injEq, Prod.mk.injEq] at h
          rw [← h.1]; exact setDigit_DV d _ _ hlv hres T.2.1

theorem bcNeighbor5_lt : ∀ ob : Fin 122, bcNeighbor ob.val 5 < 122 := by decide +kernel

theorem baseCellSwitch_DV {res bc : Nat} (hres : res ≤ 15) (ob : Nat) (cur : BitVec 64) (ab : Option Nat) (rot : Nat)
    (hob : ob < 122) (hbc : bc < 122) (hab : ∀ d, ab = some d → d < 7) (d : DV res bc cur) :
    ∃ bc', bc' < 122 ∧ DV res bc' (baseCellSwitch ob cur ab rot).1 := by
  unfold baseCellSwitch
  cases ab with
  | none => exact ⟨bc, hbc, d⟩
  | some dd =>
    have hd := hab dd rfl
    simp only []
    split
    · have h5 := bcNeighbor5_lt ⟨ob, hob⟩
      exact ⟨_, h5, h3Rotate60ccw_DV hres (setBaseCell_DV d _ (by omega))⟩
    · next hne =>
      have W := (C05.baseCellNeighbors_wellformed ⟨ob, hob⟩ ⟨dd, hd⟩).1
      have hlt : bcNeighbor ob dd < 122 := by
        rcases W with W | W
        · exact W
        · exfalso; apply hne; simp [W.1]
      exact ⟨_, hlt, setBaseCell_DV d _ (by omega)⟩

theorem finishPentagon_DV {res bc : Nat} (hres : res ≤ 15) (ob nb old nrot : Nat) (cur : BitVec 64) (rot : Nat)
    (out : BitVec 64) (r : Nat) (d : DV res bc cur)
    (h : finishPentagon ob nb old nrot cur rot = .ok (out, r)) : DV res bc out := by
  have A := fun c (dc : DV res bc c) => iterate_inv (DV res bc) h3RotatePent60ccw (fun _ => h3RotatePent60ccw_DV hres) nrot c dc
  have B := A _ (h3Rotate60cw_DV hres d)
  have C := A _ (h3Rotate60ccw_DV hres d)
  have D := A cur d
  unfold finishPentagon at h
  simp only [bind, Except.bind, pure, Except.pure] at h
  repeat' (split at h)
  all_goals first
    | (simp only [Except.ok.injEq, Prod.mk.injEq] at h; rw [← h.1]; first | exact B | exact C | exact D)
    | (simp at h)

theorem finishNeighbor_DV {res bc : Nat} (hres : res ≤ 15) (ob old : Nat) (cur : BitVec 64) (ab : Option Nat) (rot : Nat)
    (out : BitVec 64) (r : Nat) (hob : ob < 122) (hbc : bc < 122) (hab : ∀ d, ab = some d → d < 7) (d : DV res bc cur)
    (h : finishNeighbor ob old cur ab rot = .ok (out, r)) : ∃ bc', bc' < 122 ∧ DV res bc' out := by
  unfold finishNeighbor at h
  simp only [] at h
  obtain ⟨bc', hb', S⟩ := baseCellSwitch_DV hres ob cur ab rot hob hbc hab d
  split at h
  · exact ⟨bc', hb', finishPentagon_DV hres _ _ _ _ _ _ _ _ S h⟩
  · simp only [Except.ok.injEq, Prod.mk.injEq] at h
    rw [← h.1]
    exact ⟨bc', hb', iterate_inv (DV res bc') h3Rotate60ccw (fun _ => h3Rotate60ccw_DV hres) _ _ S⟩

/-- **a neighbour step returns a cell that satisfies the layout up to the pentagon clause, at the
resolution of the origin** — every direction, every rotation count, every base cell -/
theorem h3NeighborRotations_weakValid (origin : BitVec 64) (dir rot : Nat) (out : BitVec 64) (r : Nat)
    (w : WeakValid origin) (h : h3NeighborRotations origin dir rot = .ok (out, r)) :
    WeakValid out ∧ getRes out = getRes origin := by
  have hres : getRes origin ≤ 15 := by have := getRes_lt origin; omega
  have d := w.dv
  unfold h3NeighborRotations at h
  split at h
  · simp at h
  · next hdir =>
    simp only [] at h
    split at h
    · simp at h
    · next hbc =>
      have hd7 : iterate rotate60ccw (rot % 6) dir < 7 := rotate60ccw_lt7 _ _ (by omega)
      split at h
      · simp at h
      · next cur ab hdp =>
        have S1 := digitPass_DV hres _ _ _ _ _ (Nat.le_refl _) hd7 d hdp
        obtain ⟨bc', hb', S2⟩ := finishNeighbor_DV hres _ _ _ _ _ _ _ (by omega) w.2.2.2.1
          (fun d hd => digitPass_dir _ _ _ _ d hd7 (by rw [hdp, hd])) S1 h
        exact S2.weak hb'

/-- for a result in a hexagon base cell this is the whole documented layout -/
theorem weakValid_hexagon (h : BitVec 64) (w : WeakValid h) (hx : isBaseCellPentagon (getBaseCell h) = false) :
    Valid.ValidN h :=
  ⟨w.1, w.2.1, w.2.2.1, w.2.2.2.1, w.2.2.2.2, by intro hp; rw [hx] at hp; exact absurd hp (by decide)⟩

theorem validN_weak (h : BitVec 64) (v : Valid.ValidN h) : WeakValid h :=
  ⟨v.1, v.2.1, v.2.2.1, v.2.2.2.1, v.2.2.2.2.1⟩

/-- every cell within any number of neighbour steps of a valid cell satisfies the layout up to the
pentagon clause at the origin's resolution: in particular everything `gridDiskDistancesSafe` writes
(`C05M.gridDiskDistancesSafe_bfs`) -/
theorem walk_weakValid (origin : BitVec 64) (w : WeakValid origin) (d : Nat) (v : BitVec 64)
    (wk : Walk cellNeighbors d origin v) : WeakValid v ∧ getRes v = getRes origin := by
  induction wk with
  | refl => exact ⟨w, rfl⟩
  | step _ hb ih =>
    rw [cellNeighbors_eq] at hb
    obtain ⟨i, _, hi⟩ := List.mem_filterMap.mp hb
    unfold nbrAt at hi
    split at hi
    · next n r hn =>
      simp only [Option.some.injEq] at hi
      subst hi
      have ih' := ih w
      have := h3NeighborRotations_weakValid _ _ _ _ _ ih'.1 hn
      exact ⟨this.1, by rw [this.2, ih'.2]⟩
    · simp at hi

end H3.C05V
