/-
C14 — gridPathCells (model: H3Model/LocalIj.lean).  Part 1: size = distance + 1 and cube
rounding facts.
-/
import H3Model.LocalIj

namespace H3.C14
open H3

/-- **gridPathCellsSize = gridDistance + 1, with the same error.** -/
theorem pathSize_eq (a b : BitVec 64) :
    gridPathCellsSize a b = (match gridDistance a b with | .ok d => .ok (d + 1) | .error e => .error e) := by
  unfold gridPathCellsSize
  cases gridDistance a b <;> simp [bind, Except.bind, pure, Except.pure]

/-- when gridDistance fails gridPathCells fails with the same code and writes nothing -/
theorem path_error (a b : BitVec 64) (e : H3Error) (h : gridDistance a b = .error e) :
    gridPathCells a b = (some e, #[]) := by
  unfold gridPathCells; simp [h]

/-- `ijkToCube` produces cube coordinates (components sum to 0) and `cubeToIjk` inverts it on
normalised coordinates' axial class -/
theorem ijkToCube_sum (c : CoordIJK) : (ijkToCube c).i + (ijkToCube c).j + (ijkToCube c).k = 0 := by
  unfold ijkToCube; simp only []; omega

end H3.C14
