/-
C04 — the first child is the centre child: `cellToCenterChild` (the generated `_zeroIndexDigits`
plus the resolution field) equals element 0 of the children enumeration, for every cell and every
child resolution.
-/
import H3Proofs.Lemmas.Zero
import H3Proofs.Props.C04Children

namespace H3.C04Ctr
open H3 H3.Rank H3.Bits H3.Hier H3.CS H3.C13 H3.C04C

theorem unrankH_zero : ∀ m, unrankH m 0 = List.replicate m 0 := by
  intro m; induction m with
  | zero => rfl
  | succ m ih => simp [unrankH, ih, List.replicate_succ]

theorem unrankP_zero : ∀ m, unrankP m 0 = List.replicate m 0 := by
  intro m; induction m with
  | zero => rfl
  | succ m ih =>
    have := pentCount_pos m
    have h0 : (0 : Int) < pentCount m := by omega
    simp [unrankP, h0, ih, List.replicate_succ]

theorem replicate_get (m i : Nat) (hi : i < (List.replicate m 0).length) : (List.replicate m 0)[i] = 0 := by simp

/-- **C04: the first child is `cellToCenterChild`** -/
theorem centerChild_first (h : BitVec 64) (c : Nat) (h0 : h ≠ 0#64) (h1 : getRes h ≤ c) (h2 : c ≤ 15) :
    ∃ hlen : 0 < (cellToChildrenS h c).length, cellToCenterChild h c = .ok (cellToChildrenS h c)[0] := by
  have hdef := childrenS_def h c h0 h1 h2
  have hslen : 0 < (childDigitStrings (isPentagon h) (c - getRes h)).length := by
    have := strings_length (isPentagon h) (c - getRes h)
    have hp := pentCount_pos (c - getRes h)
    have h7 := seven_pow_pos (c - getRes h)
    split at this <;> omega
  have hlen : 0 < (cellToChildrenS h c).length := by rw [hdef, List.length_map]; exact hslen
  refine ⟨hlen, ?_⟩
  have hs0 : (childDigitStrings (isPentagon h) (c - getRes h))[0] = List.replicate (c - getRes h) 0 := by
    rw [strings_get _ _ 0 hslen]
    split
    · exact unrankP_zero _
    · exact unrankH_zero _
  have hy : (cellToChildrenS h c)[0] = writeDigits (setRes h c) (getRes h) (List.replicate (c - getRes h) 0) := by
    simp only [hdef, List.getElem_map, hs0]
  rw [hy]
  unfold cellToCenterChild hasChildAtRes
  have c1 : (decide ((c : Int) < (getRes h : Int)) || decide ((c : Int) > 15)) = false := by simp; omega
  simp only [c1, Bool.not_false, Bool.not_true, Bool.false_eq_true, if_false, Int.toNat_natCast]
  congr 1
  have hres15 := getRes_lt h
  obtain ⟨z1, z2, z3, z4, z5, z6⟩ := zeroIndexDigits_spec h (getRes h) c (by omega) h2
  set z := H3.zeroIndexDigits h ((getRes h : Int) + 1) (c : Int) with hz
  set ds := List.replicate (c - getRes h) 0 with hds
  have hdl : ds.length = c - getRes h := by simp [hds]
  have hlt8 : ∀ d ∈ ds, d < 8 := by intro d hd; simp [hds] at hd; omega
  have hfit : getRes h + ds.length ≤ 15 := by omega
  obtain ⟨w1, w2, w3, w4, w5, w6⟩ := writeDigits_outside ds (setRes h c) (getRes h) hfit hlt8
  have hbetween := digitsBetween_writeDigits ds (setRes h c) (getRes h) hfit hlt8
  obtain ⟨_, s2, s3, s4, s5⟩ := getDigit_setRes h c 1 (by omega) ⟨by omega, by omega⟩
  obtain ⟨_, t2, t3, t4, t5⟩ := getDigit_setRes z c 1 (by omega) ⟨by omega, by omega⟩
  apply Bits.ext
  · rw [t5, z5, w5, s5]
  · rw [t3, z3, w3, s3]
  · rw [t4, z4, w4, s4]
  · rw [getRes_setRes z c (by omega), w1, getRes_setRes h c (by omega)]
  · rw [t2, z2, w2, s2]
  · intro r a b
    rw [(getDigit_setRes z c r (by omega) ⟨a, b⟩).1, z6 r a b]
    by_cases e : getRes h + 1 ≤ r ∧ r ≤ c
    · rw [if_pos e]
      have hj : r - getRes h - 1 < (digitsBetween (writeDigits (setRes h c) (getRes h) ds) (getRes h) ds.length).length := by
        rw [digitsBetween_length]; omega
      have hg : (digitsBetween (writeDigits (setRes h c) (getRes h) ds) (getRes h) ds.length)[r - getRes h - 1] =
          getDigit (writeDigits (setRes h c) (getRes h) ds) (getRes h + 1 + (r - getRes h - 1)) := by
        simp [digitsBetween, List.getElem_range']
      rw [show getRes h + 1 + (r - getRes h - 1) = r by omega] at hg
      rw [← hg]
      simp only [hbetween]
      simp [hds]
    · rw [if_neg e, w6 r a b (by omega), (getDigit_setRes h c r (by omega) ⟨a, b⟩).1]

-- non-vacuity
example : cellToCenterChild 0x8009fffffffffff#64 2 = .ok 0x820807fffffffff#64 := by decide +kernel

end H3.C04Ctr
