/-
C07 / C15 — polygon functions.  Decision logic that is independent of floating point:
flag validation.  (Mode nesting and planar predicates: H3Proofs/Props/C15.lean.)
-/
import H3Model.Poly
import Std.Tactic.BVDecide

namespace H3.C07
open H3

/-- **validatePolygonFlags accepts exactly the flags 0..3** (the four containment modes), anything
else is E_OPTION_INVALID — for every 32-bit flag word -/
theorem flags_valid (f : BitVec 32) :
    validatePolygonFlags f = (if BitVec.ult f 4#32 then none else some .optionInvalid) := by
  have h : ((f &&& ~~~15#32) != 0#32 || !(BitVec.ult (f &&& 15#32) 4#32)) = !(BitVec.ult f 4#32) := by
    bv_decide
  unfold validatePolygonFlags
  rw [h]
  cases BitVec.ult f 4#32 <;> simp

example : validatePolygonFlags 3#32 = none := by decide
example : validatePolygonFlags 4#32 = some .optionInvalid := by decide
example : validatePolygonFlags 0x10#32 = some .optionInvalid := by decide

end H3.C07
