/-
Translation validation of `_h3RotatePent60ccw` / `_h3RotatePent60cw`: the C text, translated by tools/c2lean.py
with the loop unrolled sixteen times (the conditional inside the loop becomes a merge of the variables it assigns),
never runs out of unrollings, has no undefined operation, and equals the model's `h3RotatePent60ccw` /
`h3RotatePent60cw` — for all 2^64 index values.
-/
import H3Proofs.Lemmas.Bits
import H3Proofs.Props.C01Lnz
import H3Proofs.Props.C01Rot
import H3Proofs.Props.C04Gen
import H3Model.Neighbor
import Std.Tactic.BVDecide

namespace H3.C05G
open H3 H3.Bits

/-- one digit replaced, in the shape the translator gives the `H3_SET_INDEX_DIGIT` of a `Direction` value -/
def stepG (g : BitVec 32 → BitVec 32) (h : BitVec 64) (r : BitVec 32) : BitVec 64 :=
  ((h &&& (~~~((BitVec.signExtend 64 7#32) <<< ((15#32 - r) * 3#32)))) |||
    ((BitVec.setWidth 64 (g (BitVec.setWidth 32 ((h >>> ((15#32 - r) * 3#32)) &&& (BitVec.signExtend 64 7#32))))) <<< ((15#32 - r) * 3#32)))

/-- the loop of `_h3RotatePent60ccw` / `cw` in the shape the translator unrolls it -/
def rpFrom (g : BitVec 32 → BitVec 32) (W : BitVec 64 → BitVec 64) (res : BitVec 32) :
    Nat → BitVec 32 → BitVec 32 → BitVec 64 → BitVec 64
  | 0, _, _, _ => 0#64
  | n + 1, r, found, h =>
    if ((if BitVec.sle r res then 1#32 else 0#32) != 0#32) then
      let h1 := stepG g h r
      let c := ((if (((if found == 0#32 then 1#32 else 0#32) != 0#32) &&
        ((if ((BitVec.setWidth 32 ((h1 >>> ((15#32 - r) * 3#32)) &&& (BitVec.signExtend 64 7#32))) != 0#32) then 1#32 else 0#32) != 0#32))
        then 1#32 else 0#32) != 0#32)
      let found' := if c then 1#32 else found
      let h2 := if c then (if ((if ((Gen.Bits.h3LeadingNonZeroDigit h1) == 1#32) then 1#32 else 0#32) != 0#32) then W h1 else h1) else h1
      rpFrom g W res n (r + 1#32) found' h2
    else h

set_option maxHeartbeats 4000000 in
theorem gen_ccw_shape (h : BitVec 64) :
    Gen.Bits.h3RotatePent60ccw h =
      rpFrom Gen.Bits.rotate60ccw Gen.Bits.h3Rotate60ccw (Gen.Bits.m_get_resolution h) 16 1#32 0#32 h := by
  unfold Gen.Bits.h3RotatePent60ccw
  unfold rpFrom rpFrom rpFrom rpFrom rpFrom rpFrom rpFrom rpFrom rpFrom rpFrom rpFrom rpFrom rpFrom rpFrom rpFrom rpFrom rpFrom
  unfold stepG Gen.Bits.m_get_resolution
  bv_decide

set_option maxHeartbeats 4000000 in
theorem gen_cw_shape (h : BitVec 64) :
    Gen.Bits.h3RotatePent60cw h =
      rpFrom Gen.Bits.rotate60cw Gen.Bits.h3Rotate60cw (Gen.Bits.m_get_resolution h) 16 1#32 0#32 h := by
  unfold Gen.Bits.h3RotatePent60cw
  unfold rpFrom rpFrom rpFrom rpFrom rpFrom rpFrom rpFrom rpFrom rpFrom rpFrom rpFrom rpFrom rpFrom rpFrom rpFrom rpFrom rpFrom
  unfold stepG Gen.Bits.m_get_resolution
  bv_decide

/-! ### the unrolled shape is the model's fold -/

/-- the model's loop body -/
def stepM (fN : Nat → Nat) (Wm : BitVec 64 → BitVec 64) (st : BitVec 64 × Bool) (r : Nat) : BitVec 64 × Bool :=
  let (h, found) := st
  let h := setDigit h r (fN (getDigit h r))
  if !found && getDigit h r != 0 then
    let h := if leadingNonZeroDigit h == 1 then Wm h else h
    (h, true)
  else (h, found)

theorem rotatePentWith_eq (fN : Nat → Nat) (Wm : BitVec 64 → BitVec 64) (h : BitVec 64) :
    rotatePentWith fN Wm h = ((List.range' 1 (getRes h)).foldl (stepM fN Wm) (h, false)).1 := rfl

theorem stepM_eq (fN : Nat → Nat) (Wm : BitVec 64 → BitVec 64) (h : BitVec 64) (fb : Bool) (r : Nat) :
    stepM fN Wm (h, fb) r =
      (let h1 := setDigit h r (fN (getDigit h r))
       let c := !fb && getDigit h1 r != 0
       (if c then (if leadingNonZeroDigit h1 == 1 then Wm h1 else h1) else h1, c || fb)) := by
  unfold stepM
  dsimp only
  split <;> rename_i hc
  · simp [hc]
  · have : (!fb && getDigit (setDigit h r (fN (getDigit h r))) r != 0) = false := by simpa using hc
    simp [this]

theorem zext_small (x : BitVec 32) (hx : x.toNat < 8) : BitVec.setWidth 64 x = BitVec.signExtend 64 x := by
  have : BitVec.ult x 8#32 = true := by simp [BitVec.ult]; omega
  bv_decide

theorem stepG_eq (g : BitVec 32 → BitVec 32) (fN : Nat → Nat)
    (hG : ∀ x : BitVec 32, x.toNat < 8 → g x = BitVec.ofNat 32 (fN x.toNat)) (hf : ∀ d, d < 8 → fN d < 8)
    (h : BitVec 64) (r : Nat) : stepG g h (BitVec.ofNat 32 r) = setDigit h r (fN (getDigit h r)) := by
  have e : stepG g h (BitVec.ofNat 32 r) =
      ((h &&& (~~~((BitVec.signExtend 64 7#32) <<< ((15#32 - BitVec.ofNat 32 r) * 3#32)))) |||
        ((BitVec.setWidth 64 (g (Gen.Bits.m_get_digit h (BitVec.ofNat 32 r)))) <<< ((15#32 - BitVec.ofNat 32 r) * 3#32))) := rfl
  have hd := getDigit_lt h r
  unfold getDigit at hd
  rw [e, hG _ hd]
  have hk := hf _ hd
  rw [zext_small _ (by simp [BitVec.toNat_ofNat]; omega)]
  rfl

theorem bne_zero_toNat (x : BitVec 32) : (x != 0#32) = (x.toNat != 0) := by
  by_cases c : x = 0#32
  · subst c; rfl
  · have : x.toNat ≠ 0 := by
      intro hh; apply c; apply BitVec.eq_of_toNat_eq; simpa using hh
    have a : (x != 0#32) = true := by simpa using c
    have b : (x.toNat != 0) = true := by simpa using this
    rw [a, b]

theorem lnz_is_one (h : BitVec 64) :
    ((Gen.Bits.h3LeadingNonZeroDigit h) == 1#32) = (leadingNonZeroDigit h == 1) := by
  rw [C01L.h3LeadingNonZeroDigit_eq_model]
  have hl := C04G.leadingNonZeroDigit_lt h
  by_cases c : leadingNonZeroDigit h = 1
  · rw [c]; rfl
  · have : BitVec.ofNat 32 (leadingNonZeroDigit h) ≠ 1#32 := by
      intro hh
      have := congrArg BitVec.toNat hh
      simp [BitVec.toNat_ofNat] at this
      omega
    have a : (BitVec.ofNat 32 (leadingNonZeroDigit h) == 1#32) = false := by simpa using this
    have b : (leadingNonZeroDigit h == 1) = false := by simpa using c
    rw [a, b]

theorem rpFrom_fold (g : BitVec 32 → BitVec 32) (W : BitVec 64 → BitVec 64) (fN : Nat → Nat) (Wm : BitVec 64 → BitVec 64)
    (hG : ∀ x : BitVec 32, x.toNat < 8 → g x = BitVec.ofNat 32 (fN x.toNat)) (hf : ∀ d, d < 8 → fN d < 8)
    (hW : ∀ x, W x = Wm x) (res : BitVec 32) (hres : res.toNat < 16) :
    ∀ (n r : Nat) (fb : Bool) (h : BitVec 64), r ≤ res.toNat + 1 → res.toNat + 1 - r < n →
      rpFrom g W res n (BitVec.ofNat 32 r) (if fb then 1#32 else 0#32) h =
        ((List.range' r (res.toNat + 1 - r)).foldl (stepM fN Wm) (h, fb)).1 := by
  intro n
  induction n with
  | zero => intro r fb h _ h2; omega
  | succ n ih =>
    intro r fb h h1 h2
    unfold rpFrom
    rw [C04G.sle_ofNat r res (by omega) (by omega)]
    by_cases c : r ≤ res.toNat
    · have e : res.toNat + 1 - r = (res.toNat + 1 - (r + 1)) + 1 := by omega
      rw [e, List.range'_succ, List.foldl_cons, stepM_eq]
      have e3 : ((1#32 != 0#32) = true) := by decide
      simp only [c, decide_true, if_true, e3]
      rw [stepG_eq g fN hG hf h r]
      have e2 : BitVec.ofNat 32 r + 1#32 = BitVec.ofNat 32 (r + 1) := by rw [BitVec.ofNat_add]
      rw [e2]
      have ed : (BitVec.setWidth 32 ((setDigit h r (fN (getDigit h r)) >>> ((15#32 - BitVec.ofNat 32 r) * 3#32)) &&& (BitVec.signExtend 64 7#32))) =
          Gen.Bits.m_get_digit (setDigit h r (fN (getDigit h r))) (BitVec.ofNat 32 r) := rfl
      have eg : (Gen.Bits.m_get_digit (setDigit h r (fN (getDigit h r))) (BitVec.ofNat 32 r)).toNat =
          getDigit (setDigit h r (fN (getDigit h r))) r := rfl
      have eb := bne_zero_toNat (Gen.Bits.m_get_digit (setDigit h r (fN (getDigit h r))) (BitVec.ofNat 32 r))
      rw [eg] at eb
      simp only [ed, eb, lnz_is_one, hW]
      generalize setDigit h r (fN (getDigit h r)) = h1
      cases fb <;> cases hz : (getDigit h1 r != 0) <;> cases hl : (leadingNonZeroDigit h1 == 1) <;>
        simp only [Bool.not_false, Bool.not_true, Bool.true_and, Bool.false_and, Bool.false_eq_true, if_false, if_true,
          Bool.or_false, Bool.or_true, Bool.false_or, Bool.true_or, show ((0#32 == 0#32) = true) from rfl,
          show ((1#32 == 0#32) = false) from rfl, show ((1#32 != 0#32) = true) from rfl,
          show ((0#32 != 0#32) = false) from rfl, Bool.and_true, Bool.and_false]
      all_goals first
        | exact ih (r + 1) false _ (by omega) (by omega)
        | exact ih (r + 1) true _ (by omega) (by omega)
    · simp only [c, decide_false]
      have e : res.toNat + 1 - r = 0 := by omega
      rw [e]
      rfl

theorem rot_ccw_lt : ∀ d, d < 8 → H3.rotate60ccw d < 8 := by decide
theorem rot_cw_lt : ∀ d, d < 8 → H3.rotate60cw d < 8 := by decide

/-- **the C function `_h3RotatePent60ccw` (translated from the source on every run) is the model's
`h3RotatePent60ccw`, for all 2^64 index values** -/
theorem h3RotatePent60ccw_eq_model (h : BitVec 64) : Gen.Bits.h3RotatePent60ccw h = H3.h3RotatePent60ccw h := by
  have hr := getRes_lt h
  unfold getRes at hr
  rw [gen_ccw_shape]
  have := rpFrom_fold Gen.Bits.rotate60ccw Gen.Bits.h3Rotate60ccw H3.rotate60ccw H3.h3Rotate60ccw
    C01R.gen_rot_ccw rot_ccw_lt C01R.h3Rotate60ccw_eq_model (Gen.Bits.m_get_resolution h) hr 16 1 false h (by omega) (by omega)
  rw [show (BitVec.ofNat 32 1) = 1#32 from rfl] at this
  simp only [Bool.false_eq_true, if_false] at this
  rw [this]
  unfold H3.h3RotatePent60ccw
  rw [rotatePentWith_eq]
  unfold getRes
  simp

theorem h3RotatePent60cw_eq_model (h : BitVec 64) : Gen.Bits.h3RotatePent60cw h = H3.h3RotatePent60cw h := by
  have hr := getRes_lt h
  unfold getRes at hr
  rw [gen_cw_shape]
  have := rpFrom_fold Gen.Bits.rotate60cw Gen.Bits.h3Rotate60cw H3.rotate60cw H3.h3Rotate60cw
    C01R.gen_rot_cw rot_cw_lt C01R.h3Rotate60cw_eq_model (Gen.Bits.m_get_resolution h) hr 16 1 false h (by omega) (by omega)
  rw [show (BitVec.ofNat 32 1) = 1#32 from rfl] at this
  simp only [Bool.false_eq_true, if_false] at this
  rw [this]
  unfold H3.h3RotatePent60cw
  rw [rotatePentWith_eq]
  unfold getRes
  simp

set_option maxHeartbeats 4000000 in
set_option maxRecDepth 16000 in
/-- no unrolling exhausted, no undefined shift, no signed overflow in `_h3RotatePent60ccw`, for every input -/
theorem h3RotatePent60ccw_defined_all (h : BitVec 64) : Gen.Bits.h3RotatePent60ccw_defined h = true := by
  unfold Gen.Bits.h3RotatePent60ccw_defined
  simp only [C01L.h3LeadingNonZeroDigit_defined_all, C01R.h3Rotate60ccw_defined_all]
  unfold Gen.Bits.rotate60ccw_defined
  bv_decide

set_option maxHeartbeats 4000000 in
set_option maxRecDepth 16000 in
theorem h3RotatePent60cw_defined_all (h : BitVec 64) : Gen.Bits.h3RotatePent60cw_defined h = true := by
  unfold Gen.Bits.h3RotatePent60cw_defined
  simp only [C01L.h3LeadingNonZeroDigit_defined_all, C01R.h3Rotate60cw_defined_all]
  unfold Gen.Bits.rotate60cw_defined
  bv_decide

-- non-vacuity: a pentagon-base-cell index whose rotation takes the K-axis adjustment
example : H3.h3RotatePent60ccw 0x8508c003fffffff#64 ≠ H3.h3Rotate60ccw 0x8508c003fffffff#64 := by decide

end H3.C05G
