/-
Digit recovery: the up-aperture rounding steps (`_upAp7`, `_upAp7r` and their overflow-checked
variants) recover the parent coordinate of a child, and the difference to the parent's centre is the
unit vector of the child's digit — the loop shared by `localIjkToCell` and `_faceIjkToH3`.
-/
import H3Proofs.Lemmas.DigitBridge
import H3Model.LocalIj

namespace H3.DR
open H3 H3.DP H3.Bits

/-- nearest integer to n/7 when the remainder is small -/
theorem roundDiv7_spec (a b : Int) (h1 : -3 ≤ b) (h2 : b ≤ 3) : roundDiv7 (7 * a + b) = a := by
  unfold roundDiv7
  omega

theorem uax_cases (d : Nat) (hd : d < 7) :
    uax d = (0, 0) ∨ uax d = (-1, -1) ∨ uax d = (0, 1) ∨ uax d = (-1, 0) ∨ uax d = (1, 0) ∨ uax d = (0, -1) ∨ uax d = (1, 1) := by
  have : ∀ d : Fin 7, uax d.val = (0, 0) ∨ uax d.val = (-1, -1) ∨ uax d.val = (0, 1) ∨ uax d.val = (-1, 0) ∨
      uax d.val = (1, 0) ∨ uax d.val = (0, -1) ∨ uax d.val = (1, 1) := by decide +kernel
  exact this ⟨d, hd⟩

/-- the rounding of `_upAp7` applied to a child of `p` (Class III level) gives `p` -/
theorem round_M7 (p : Int × Int) (d : Nat) (hd : d < 7) (i j : Int)
    (h : (i, j) = vadd (M7.app p) (uax d)) :
    roundDiv7 (3 * i - j) = p.1 ∧ roundDiv7 (i + 2 * j) = p.2 ∧ roundDiv7 (i * 3 - j) = p.1 ∧ roundDiv7 (i + j * 2) = p.2 := by
  unfold vadd M2.app M7 at h
  simp only [Prod.mk.injEq] at h
  obtain ⟨hi, hj⟩ := h
  rcases uax_cases d hd with e | e | e | e | e | e | e <;> rw [e] at hi hj <;> simp only [] at hi hj <;>
    refine ⟨?_, ?_, ?_, ?_⟩ <;> (unfold roundDiv7; omega)

theorem round_M7r (p : Int × Int) (d : Nat) (hd : d < 7) (i j : Int)
    (h : (i, j) = vadd (M7r.app p) (uax d)) :
    roundDiv7 (2 * i + j) = p.1 ∧ roundDiv7 (3 * j - i) = p.2 ∧ roundDiv7 (i * 2 + j) = p.1 ∧ roundDiv7 (j * 3 - i) = p.2 := by
  unfold vadd M2.app M7r at h
  simp only [Prod.mk.injEq] at h
  obtain ⟨hi, hj⟩ := h
  rcases uax_cases d hd with e | e | e | e | e | e | e <;> rw [e] at hi hj <;> simp only [] at hi hj <;>
    refine ⟨?_, ?_, ?_, ?_⟩ <;> (unfold roundDiv7; omega)

/-! ### size of the coordinates: no overflow guard fires -/

def hexN (v : Int × Int) : Int := max (max (v.1.natAbs : Int) (v.2.natAbs : Int)) ((v.1 - v.2).natAbs : Int)

def bnd : Nat → Int
  | 0 => 0
  | n + 1 => 3 * bnd n + 1

theorem bnd_le : ∀ n : Fin 17, bnd n.val ≤ 21523360 := by decide +kernel

theorem hexN_level (l : Nat) (v : Int × Int) : hexN ((levelM l).app v) ≤ 3 * hexN v := by
  unfold levelM hexN M2.app
  split <;> (simp only [M7, M7r]; omega)

theorem hexN_add_unit (v : Int × Int) (d : Nat) (hd : d < 7) : hexN (vadd v (uax d)) ≤ hexN v + 1 := by
  unfold hexN vadd
  rcases uax_cases d hd with e | e | e | e | e | e | e <;> rw [e] <;> simp only [] <;> omega

theorem coordR_bound : ∀ rev : List Nat, Digits rev → hexN (coordR rev) ≤ bnd rev.length := by
  intro rev
  induction rev with
  | nil => intro _; simp [coordR, hexN, bnd]
  | cons d rest ih =>
    intro hd
    have hrest : Digits rest := fun x hx => hd x (by simp [hx])
    have h1 := ih hrest
    simp only [coordR, List.length_cons, bnd]
    have h2 := hexN_level (rest.length + 1) (coordR rest)
    have h3 := hexN_add_unit ((levelM (rest.length + 1)).app (coordR rest)) d (hd d (by simp))
    omega

theorem hexN_bounds (v : Int × Int) (B : Int) (h : hexN v ≤ B) : -B ≤ v.1 ∧ v.1 ≤ B ∧ -B ≤ v.2 ∧ v.2 ≤ B := by
  unfold hexN at h; omega

/-! ### the digit of the difference -/

theorem unitVec_normal : ∀ d : Fin 7, Normal (unitVec d.val) := by
  have : ∀ d : Fin 7, 0 ≤ (unitVec d.val).i ∧ 0 ≤ (unitVec d.val).j ∧ 0 ≤ (unitVec d.val).k ∧
      ((unitVec d.val).i = 0 ∨ (unitVec d.val).j = 0 ∨ (unitVec d.val).k = 0) := by decide +kernel
  exact this

theorem find_unit : ∀ d : Fin 7, (List.range 7).find? (fun d' => unitVec d' == unitVec d.val) = some d.val := by
  decide +kernel

theorem unitIjkToDigit_of_ax (c : CoordIJK) (d : Nat) (hd : d < 7) (h : ax c = uax d) : unitIjkToDigit c = d := by
  unfold unitIjkToDigit
  have e : c.normalize = unitVec d := by
    apply normal_ext (normalize_normal c) (unitVec_normal ⟨d, hd⟩)
    rw [ax_normalize, h]; rfl
  simp only [e, find_unit ⟨d, hd⟩]

/-! ### one checked step -/

/-- `_upAp7Checked` / `_upAp7rChecked` on a child of `p` at level `l`, coordinates small: the parent,
and the difference to the parent's centre is the child's digit -/
theorem up_step (l : Nat) (c : CoordIJK) (p : Int × Int) (d : Nat) (hd : d < 7)
    (hc : ax c = vadd ((levelM l).app p) (uax d)) (hp : hexN p ≤ 21523360) :
    ∃ u : CoordIJK,
      (if isResClassIII l then upAp7Checked c else upAp7rChecked c) = .ok u ∧ ax u = p ∧ Normal u ∧
      unitIjkToDigit ((c.sub (if isResClassIII l then downAp7 u else downAp7r u)).normalize) = d := by
  have hb := hexN_bounds p _ hp
  have hcb : hexN (ax c) ≤ 3 * 21523360 + 1 := by
    rw [hc]
    have h2 := hexN_level l p
    have h3 := hexN_add_unit ((levelM l).app p) d hd
    omega
  have hcb' := hexN_bounds (ax c) _ hcb
  unfold ax at hcb' hc
  simp only [] at hcb'
  by_cases hl : isResClassIII l = true
  · simp only [hl, if_true]
    have hM : levelM l = M7 := by unfold levelM; simp [hl]
    rw [hM] at hc
    obtain ⟨r1, r2, r3, r4⟩ := round_M7 p d hd (c.i - c.k) (c.j - c.k) hc
    refine ⟨(⟨p.1, p.2, 0⟩ : CoordIJK).normalize, ?_, ?_, normalize_normal _, ?_⟩
    · unfold upAp7Checked
      simp only [r3, r4]
      have g1 : (if c.i - c.k ≥ INT32_MAX_3 || c.j - c.k ≥ INT32_MAX_3 || c.i - c.k < 0 || c.j - c.k < 0 then
          addOverflows (c.i - c.k) (c.i - c.k) || addOverflows (c.i - c.k + (c.i - c.k)) (c.i - c.k) ||
          addOverflows (c.j - c.k) (c.j - c.k) || subOverflows (c.i - c.k + (c.i - c.k) + (c.i - c.k)) (c.j - c.k) ||
          addOverflows (c.i - c.k) (c.j - c.k + (c.j - c.k)) else false) = false := by
        unfold addOverflows subOverflows INT32_MAX INT32_MIN
        split
        · simp only [Bool.or_eq_false_iff]
          refine ⟨⟨⟨⟨?_, ?_⟩, ?_⟩, ?_⟩, ?_⟩ <;> (split <;> simp <;> omega)
        · rfl
      simp only [g1, Bool.false_eq_true, if_false]
      have g2 : normalizeCouldOverflow (⟨p.1, p.2, 0⟩ : CoordIJK) = false := by
        unfold normalizeCouldOverflow addOverflows subOverflows INT32_MAX INT32_MIN
        simp only []
        split <;> (simp only []; split <;> simp <;> (try (repeat' split)) <;> omega)
      simp only [g2, Bool.false_eq_true, if_false]
    · rw [ax_normalize]; unfold ax; simp
    · apply unitIjkToDigit_of_ax _ d hd
      rw [ax_normalize, ax_sub, ax_downAp7, ax_normalize]
      have hax : ax (⟨p.1, p.2, 0⟩ : CoordIJK) = p := by unfold ax; simp
      rw [hax]
      have h1 := congrArg Prod.fst hc
      have h2 := congrArg Prod.snd hc
      simp only [vadd] at h1 h2
      apply Prod.ext <;> simp only [ax] <;> omega
  · simp only [hl, Bool.false_eq_true, if_false]
    have hM : levelM l = M7r := by unfold levelM; simp [hl]
    rw [hM] at hc
    obtain ⟨r1, r2, r3, r4⟩ := round_M7r p d hd (c.i - c.k) (c.j - c.k) hc
    refine ⟨(⟨p.1, p.2, 0⟩ : CoordIJK).normalize, ?_, ?_, normalize_normal _, ?_⟩
    · unfold upAp7rChecked
      simp only [r3, r4]
      have g1 : (if c.i - c.k ≥ INT32_MAX_3 || c.j - c.k ≥ INT32_MAX_3 || c.i - c.k < 0 || c.j - c.k < 0 then
          addOverflows (c.i - c.k) (c.i - c.k) || addOverflows (c.j - c.k) (c.j - c.k) ||
          addOverflows (c.j - c.k + (c.j - c.k)) (c.j - c.k) || addOverflows (c.i - c.k + (c.i - c.k)) (c.j - c.k) ||
          subOverflows (c.j - c.k + (c.j - c.k) + (c.j - c.k)) (c.i - c.k) else false) = false := by
        unfold addOverflows subOverflows INT32_MAX INT32_MIN
        split
        · simp only [Bool.or_eq_false_iff]
          refine ⟨⟨⟨⟨?_, ?_⟩, ?_⟩, ?_⟩, ?_⟩ <;> (split <;> simp <;> omega)
        · rfl
      simp only [g1, Bool.false_eq_true, if_false]
      have g2 : normalizeCouldOverflow (⟨p.1, p.2, 0⟩ : CoordIJK) = false := by
        unfold normalizeCouldOverflow addOverflows subOverflows INT32_MAX INT32_MIN
        simp only []
        split <;> (simp only []; split <;> simp <;> (try (repeat' split)) <;> omega)
      simp only [g2, Bool.false_eq_true, if_false]
    · rw [ax_normalize]; unfold ax; simp
    · apply unitIjkToDigit_of_ax _ d hd
      rw [ax_normalize, ax_sub, ax_downAp7r, ax_normalize]
      have hax : ax (⟨p.1, p.2, 0⟩ : CoordIJK) = p := by unfold ax; simp
      rw [hax]
      have h1 := congrArg Prod.fst hc
      have h2 := congrArg Prod.snd hc
      simp only [vadd] at h1 h2
      apply Prod.ext <;> simp only [ax] <;> omega

/-! ### every coordinate has a parent and a digit (complete residue system) -/

theorem uax_vals : uax 0 = (0, 0) ∧ uax 1 = (-1, -1) ∧ uax 2 = (0, 1) ∧ uax 3 = (-1, 0) ∧ uax 4 = (1, 0) ∧
    uax 5 = (0, -1) ∧ uax 6 = (1, 1) := by decide +kernel

/-- the seven digit vectors are a complete residue system modulo the Class III level matrix -/
theorem exists_decomp_M7 (i j : Int) : ∃ (p : Int × Int) (d : Nat), d < 7 ∧ (i, j) = vadd (M7.app p) (uax d) := by
  obtain ⟨u0, u1, u2, u3, u4, u5, u6⟩ := uax_vals
  have hr : (3 * i - j) % 7 = 0 ∨ (3 * i - j) % 7 = 1 ∨ (3 * i - j) % 7 = 2 ∨ (3 * i - j) % 7 = 3 ∨
      (3 * i - j) % 7 = 4 ∨ (3 * i - j) % 7 = 5 ∨ (3 * i - j) % 7 = 6 := by omega
  rcases hr with h | h | h | h | h | h | h
  · exact ⟨((3 * i - j) / 7, (i + 2 * j) / 7), 0, by omega, by rw [u0]; simp only [vadd, M2.app, M7, Prod.mk.injEq]; omega⟩
  · exact ⟨((3 * i - (j + 1)) / 7, (i + 2 * (j + 1)) / 7), 5, by omega, by rw [u5]; simp only [vadd, M2.app, M7, Prod.mk.injEq]; omega⟩
  · exact ⟨((3 * (i - 1) - (j - 1)) / 7, ((i - 1) + 2 * (j - 1)) / 7), 6, by omega, by rw [u6]; simp only [vadd, M2.app, M7, Prod.mk.injEq]; omega⟩
  · exact ⟨((3 * (i - 1) - j) / 7, ((i - 1) + 2 * j) / 7), 4, by omega, by rw [u4]; simp only [vadd, M2.app, M7, Prod.mk.injEq]; omega⟩
  · exact ⟨((3 * (i + 1) - j) / 7, ((i + 1) + 2 * j) / 7), 3, by omega, by rw [u3]; simp only [vadd, M2.app, M7, Prod.mk.injEq]; omega⟩
  · exact ⟨((3 * (i + 1) - (j + 1)) / 7, ((i + 1) + 2 * (j + 1)) / 7), 1, by omega, by rw [u1]; simp only [vadd, M2.app, M7, Prod.mk.injEq]; omega⟩
  · exact ⟨((3 * i - (j - 1)) / 7, (i + 2 * (j - 1)) / 7), 2, by omega, by rw [u2]; simp only [vadd, M2.app, M7, Prod.mk.injEq]; omega⟩

theorem exists_decomp_M7r (i j : Int) : ∃ (p : Int × Int) (d : Nat), d < 7 ∧ (i, j) = vadd (M7r.app p) (uax d) := by
  obtain ⟨u0, u1, u2, u3, u4, u5, u6⟩ := uax_vals
  have hr : (2 * i + j) % 7 = 0 ∨ (2 * i + j) % 7 = 1 ∨ (2 * i + j) % 7 = 2 ∨ (2 * i + j) % 7 = 3 ∨
      (2 * i + j) % 7 = 4 ∨ (2 * i + j) % 7 = 5 ∨ (2 * i + j) % 7 = 6 := by omega
  rcases hr with h | h | h | h | h | h | h
  · exact ⟨((2 * i + j) / 7, (3 * j - i) / 7), 0, by omega, by rw [u0]; simp only [vadd, M2.app, M7r, Prod.mk.injEq]; omega⟩
  · exact ⟨((2 * i + (j - 1)) / 7, (3 * (j - 1) - i) / 7), 2, by omega, by rw [u2]; simp only [vadd, M2.app, M7r, Prod.mk.injEq]; omega⟩
  · exact ⟨((2 * (i - 1) + j) / 7, (3 * j - (i - 1)) / 7), 4, by omega, by rw [u4]; simp only [vadd, M2.app, M7r, Prod.mk.injEq]; omega⟩
  · exact ⟨((2 * (i - 1) + (j - 1)) / 7, (3 * (j - 1) - (i - 1)) / 7), 6, by omega, by rw [u6]; simp only [vadd, M2.app, M7r, Prod.mk.injEq]; omega⟩
  · exact ⟨((2 * (i + 1) + (j + 1)) / 7, (3 * (j + 1) - (i + 1)) / 7), 1, by omega, by rw [u1]; simp only [vadd, M2.app, M7r, Prod.mk.injEq]; omega⟩
  · exact ⟨((2 * (i + 1) + j) / 7, (3 * j - (i + 1)) / 7), 3, by omega, by rw [u3]; simp only [vadd, M2.app, M7r, Prod.mk.injEq]; omega⟩
  · exact ⟨((2 * i + (j + 1)) / 7, (3 * (j + 1) - i) / 7), 5, by omega, by rw [u5]; simp only [vadd, M2.app, M7r, Prod.mk.injEq]; omega⟩

theorem exists_decomp (l : Nat) (v : Int × Int) : ∃ (p : Int × Int) (d : Nat), d < 7 ∧ v = vadd ((levelM l).app p) (uax d) := by
  unfold levelM
  split
  · exact exists_decomp_M7 v.1 v.2
  · exact exists_decomp_M7r v.1 v.2

theorem hexN_le_iff (v : Int × Int) (B : Int) :
    hexN v ≤ B ↔ (-B ≤ v.1 ∧ v.1 ≤ B ∧ -B ≤ v.2 ∧ v.2 ≤ B ∧ -B ≤ v.1 - v.2 ∧ v.1 - v.2 ≤ B) := by
  unfold hexN; omega

theorem parent_small_M7 (x y p1 p2 B : Int) (hx : x = 2 * p1 + p2) (hy : y = -p1 + 3 * p2) (hB : 1 ≤ B)
    (h1 : -(B + 1) ≤ x ∧ x ≤ B + 1) (h2 : -(B + 1) ≤ y ∧ y ≤ B + 1) (h3 : -(B + 1) ≤ x - y ∧ x - y ≤ B + 1) :
    -B ≤ p1 ∧ p1 ≤ B ∧ -B ≤ p2 ∧ p2 ≤ B ∧ -B ≤ p1 - p2 ∧ p1 - p2 ≤ B := by omega

theorem parent_small_M7r (x y p1 p2 B : Int) (hx : x = 3 * p1 - p2) (hy : y = p1 + 2 * p2) (hB : 1 ≤ B)
    (h1 : -(B + 1) ≤ x ∧ x ≤ B + 1) (h2 : -(B + 1) ≤ y ∧ y ≤ B + 1) (h3 : -(B + 1) ≤ x - y ∧ x - y ≤ B + 1) :
    -B ≤ p1 ∧ p1 ≤ B ∧ -B ≤ p2 ∧ p2 ≤ B ∧ -B ≤ p1 - p2 ∧ p1 - p2 ≤ B := by omega

/-- the parent of a small coordinate is small -/
theorem parent_small (l : Nat) (v p : Int × Int) (d : Nat) (hd : d < 7) (h : v = vadd ((levelM l).app p) (uax d))
    (B : Int) (hB : 1 ≤ B) (hv : hexN v ≤ B) : hexN p ≤ B := by
  rw [hexN_le_iff] at hv ⊢
  have hu : -1 ≤ (uax d).1 ∧ (uax d).1 ≤ 1 ∧ -1 ≤ (uax d).2 ∧ (uax d).2 ≤ 1 ∧ -1 ≤ (uax d).1 - (uax d).2 ∧ (uax d).1 - (uax d).2 ≤ 1 := by
    rcases uax_cases d hd with e | e | e | e | e | e | e <;> rw [e] <;> simp
  have e1 : v.1 = ((levelM l).app p).1 + (uax d).1 := by rw [h]; rfl
  have e2 : v.2 = ((levelM l).app p).2 + (uax d).2 := by rw [h]; rfl
  unfold levelM at e1 e2
  by_cases hl : isResClassIII l = true
  · simp only [hl, if_true, M2.app, M7] at e1 e2
    exact parent_small_M7 (v.1 - (uax d).1) (v.2 - (uax d).2) p.1 p.2 B (by omega) (by omega) hB (by omega) (by omega) (by omega)
  · simp only [hl, Bool.false_eq_true, if_false, M2.app, M7r] at e1 e2
    exact parent_small_M7r (v.1 - (uax d).1) (v.2 - (uax d).2) p.1 p.2 B (by omega) (by omega) hB (by omega) (by omega) (by omega)

end H3.DR
