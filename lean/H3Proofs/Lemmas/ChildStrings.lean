/-
The enumeration `childDigitStrings P m` lists the valid digit strings of length m below a parent in
rank order: its ranks are 0, 1, 2, …, size−1.
-/
import H3Proofs.Lemmas.Hier

namespace H3.CS
open H3 H3.Rank H3.Hier

theorem range_mul (a w : Nat) :
    List.range (a * w) = (List.range a).flatMap (fun d => (List.range w).map (fun i => d * w + i)) := by
  induction a with
  | zero => simp
  | succ a ih =>
    rw [Nat.succ_mul, List.range_add, ih, List.range_succ, List.flatMap_append]
    simp

/-- hexagon parent: proper digits, length m, ranks 0..7^m−1 in order -/
theorem hex_strings : ∀ m : Nat,
    (∀ ds ∈ childDigitStrings false m, ds.length = m ∧ Rank.Digits ds) ∧
    (childDigitStrings false m).map rankH = (List.range (7 ^ m)).map (fun (i : Nat) => (i : Int)) := by
  intro m
  induction m with
  | zero => exact ⟨fun ds h => by simp [childDigitStrings] at h; subst h; exact ⟨rfl, fun _ hx => by simp at hx⟩, by simp [childDigitStrings, rankH]⟩
  | succ m ih =>
    obtain ⟨ih1, ih2⟩ := ih
    have hfilt : (List.range 7).filter (fun d => !(false && d == 1)) = List.range 7 := by decide
    have hfilt2 : (List.range 7).filter (fun _ => !false) = List.range 7 := by decide
    constructor
    · intro ds hds
      simp only [childDigitStrings, List.mem_flatMap, List.mem_map, Bool.false_and, hfilt2] at hds
      obtain ⟨d, hd, t, ht, rfl⟩ := hds
      obtain ⟨l, dg⟩ := ih1 t ht
      refine ⟨by simp [l], fun x hx => ?_⟩
      simp only [List.mem_cons] at hx
      rcases hx with hx | hx
      · rw [hx]; simpa using hd
      · exact dg x hx
    · simp only [childDigitStrings, Bool.false_and, List.map_flatMap, List.map_map, hfilt2]
      have hstep : ∀ d : Nat, (List.map (rankH ∘ fun x => d :: x) (childDigitStrings false m)) =
          (List.range (7 ^ m)).map (fun (i : Nat) => ((d * 7 ^ m + i : Nat) : Int)) := by
        intro d
        have : List.map (rankH ∘ fun x => d :: x) (childDigitStrings false m) =
            List.map (fun ds => (d : Int) * 7 ^ m + rankH ds) (childDigitStrings false m) := by
          apply List.map_congr_left
          intro ds hds
          simp [Function.comp, rankH, (ih1 ds hds).1]
        rw [this]
        have h2 : List.map (fun ds => (d : Int) * 7 ^ m + rankH ds) (childDigitStrings false m) =
            List.map (fun r => (d : Int) * 7 ^ m + r) ((childDigitStrings false m).map rankH) := by
          rw [List.map_map]; rfl
        rw [h2, ih2, List.map_map]
        apply List.map_congr_left
        intro i _
        simp [Function.comp]
      have : (List.range 7).flatMap (fun d => List.map (rankH ∘ fun x => d :: x) (childDigitStrings false m)) =
          (List.range 7).flatMap (fun d => (List.range (7 ^ m)).map (fun (i : Nat) => ((d * 7 ^ m + i : Nat) : Int))) := by
        congr 1; funext d; exact hstep d
      rw [this, pow_succ, Nat.mul_comm, range_mul, List.map_flatMap]
      congr 1; funext d
      rw [List.map_map]; rfl

end H3.CS

namespace H3.CS
open H3 H3.Rank H3.Hier

/-- pentagon descendant count as a natural number -/
def pentCountN (m : Nat) : Nat := (pentCount m).toNat

theorem pentCountN_cast (m : Nat) : ((pentCountN m : Nat) : Int) = pentCount m := by
  unfold pentCountN
  exact Int.toNat_of_nonneg (by have := pentCount_pos m; omega)

theorem pentCountN_succ (m : Nat) : pentCountN (m + 1) = pentCountN m + 5 * 7 ^ m := by
  have h1 := pentCountN_cast (m + 1)
  have h2 := pentCountN_cast m
  rw [pentCount_succ] at h1
  have : ((pentCountN (m + 1) : Nat) : Int) = ((pentCountN m + 5 * 7 ^ m : Nat) : Int) := by
    rw [h1]; push_cast; rw [h2]
  exact_mod_cast this

/-- pentagon parent: valid strings, length m, ranks 0..pentCount m − 1 in order -/
theorem pent_strings : ∀ m : Nat,
    (∀ ds ∈ childDigitStrings true m, ds.length = m ∧ PentDigits ds) ∧
    (childDigitStrings true m).map rankP = (List.range (pentCountN m)).map (fun (i : Nat) => (i : Int)) := by
  intro m
  induction m with
  | zero =>
    refine ⟨fun ds h => ?_, ?_⟩
    · simp [childDigitStrings] at h; subst h; exact ⟨rfl, trivial⟩
    · have : pentCountN 0 = 1 := by simp [pentCountN, pentCount_zero]
      simp [childDigitStrings, rankP, this]
  | succ m ih =>
    obtain ⟨ih1, ih2⟩ := ih
    obtain ⟨hx1, hx2⟩ := hex_strings m
    have hfilt : (List.range 7).filter (fun d => !(true && d == 1)) = 0 :: (List.range 5).map (· + 2) := by decide
    constructor
    · intro ds hds
      simp only [childDigitStrings, hfilt, List.flatMap_cons, List.mem_append, List.mem_map, List.mem_flatMap] at hds
      rcases hds with ⟨t, ht, rfl⟩ | ⟨d, hd, t, ht, rfl⟩
      · have : (true && (0 : Nat) == 0) = true := rfl
        rw [this] at ht
        obtain ⟨l, pd⟩ := ih1 t ht
        exact ⟨by simp [l], pd⟩
      · obtain ⟨q, hq, rfl⟩ := hd
        have hq5 : q < 5 := by simpa using hq
        have : (true && (q + 2 == 0)) = false := by simp
        rw [this] at ht
        obtain ⟨l, dg⟩ := hx1 t ht
        exact ⟨by simp [l], by omega, by omega, dg⟩
    · simp only [childDigitStrings, hfilt, List.flatMap_cons, List.map_append, List.map_map]
      have h0 : (true && ((0 : Nat) == 0)) = true := rfl
      rw [h0]
      -- the pentagon (centre) branch
      have hA : List.map (rankP ∘ fun x => 0 :: x) (childDigitStrings true m) =
          (List.range (pentCountN m)).map (fun (i : Nat) => (i : Int)) := by
        rw [← ih2]
        apply List.map_congr_left
        intro ds _
        simp [Function.comp, rankP]
      -- the five hexagon branches
      have hB : List.map rankP ((List.map (fun x => x + 2) (List.range 5)).flatMap fun d =>
            List.map (fun x => d :: x) (childDigitStrings (true && d == 0) m)) =
          (List.range (5 * 7 ^ m)).map (fun (i : Nat) => ((pentCountN m + i : Nat) : Int)) := by
        rw [List.flatMap_map, List.map_flatMap, range_mul, List.map_flatMap]
        congr 1; funext q
        have hq0 : (true && (q + 2 == 0)) = false := by simp
        simp only [hq0, List.map_map]
        have e1 : List.map (rankP ∘ fun x => (q + 2) :: x) (childDigitStrings false m) =
            List.map (fun r => pentCount m + (q : Int) * 7 ^ m + r) ((childDigitStrings false m).map rankH) := by
          rw [List.map_map]
          apply List.map_congr_left
          intro ds hds
          have hl := (hx1 ds hds).1
          show rankP ((q + 1 + 1) :: ds) = _
          simp only [rankP, hl, Function.comp]
          push_cast; ring
        rw [e1, hx2, List.map_map]
        apply List.map_congr_left
        intro i _
        simp only [Function.comp]
        rw [← pentCountN_cast m]
        push_cast; ring
      rw [hA, hB, pentCountN_succ, List.range_add, List.map_append, List.map_map]
      rfl

end H3.CS
