/-
L1 — bit fields: lens laws for the *generated* macros (H3_GET_* / H3_SET_*), for all 2^64 index
values and symbolic digit positions; lifted to the Nat-level accessors of H3Model/Index.lean.
-/
import H3Model.Index
import Std.Tactic.BVDecide

namespace H3.Bits
open H3 H3.Gen.Bits

/-! ### BitVec-level laws (bv_decide; positions and digits are symbolic 32-bit values) -/

theorem get_set_digit_bv (h : BitVec 64) (r r' d : BitVec 32)
    (hr : BitVec.ule 1#32 r = true ∧ BitVec.ule r 15#32 = true)
    (hr' : BitVec.ule 1#32 r' = true ∧ BitVec.ule r' 15#32 = true) (hd : BitVec.ult d 8#32 = true) :
    m_get_digit (m_set_digit h r d) r' = if r' == r then d else m_get_digit h r' := by
  simp only [m_get_digit, m_set_digit] at *
  bv_decide

theorem res_set_digit_bv (h : BitVec 64) (r d : BitVec 32)
    (hr : BitVec.ule 1#32 r = true ∧ BitVec.ule r 15#32 = true) (hd : BitVec.ult d 8#32 = true) :
    m_get_resolution (m_set_digit h r d) = m_get_resolution h ∧
    m_get_base_cell (m_set_digit h r d) = m_get_base_cell h ∧
    m_get_mode (m_set_digit h r d) = m_get_mode h ∧
    m_get_reserved (m_set_digit h r d) = m_get_reserved h ∧
    m_get_high_bit (m_set_digit h r d) = m_get_high_bit h := by
  simp only [m_get_resolution, m_get_base_cell, m_get_mode, m_get_reserved, m_get_high_bit, m_set_digit] at *
  bv_decide

theorem get_set_res_bv (h : BitVec 64) (v r : BitVec 32) (hv : BitVec.ult v 16#32 = true)
    (hr : BitVec.ule 1#32 r = true ∧ BitVec.ule r 15#32 = true) :
    m_get_resolution (m_set_resolution h v) = v ∧
    m_get_digit (m_set_resolution h v) r = m_get_digit h r ∧
    m_get_base_cell (m_set_resolution h v) = m_get_base_cell h ∧
    m_get_mode (m_set_resolution h v) = m_get_mode h ∧
    m_get_reserved (m_set_resolution h v) = m_get_reserved h ∧
    m_get_high_bit (m_set_resolution h v) = m_get_high_bit h := by
  simp only [m_get_resolution, m_get_base_cell, m_get_mode, m_get_reserved, m_get_high_bit, m_get_digit,
    m_set_resolution] at *
  bv_decide

theorem get_set_base_cell_bv (h : BitVec 64) (v r : BitVec 32) (hv : BitVec.ult v 128#32 = true)
    (hr : BitVec.ule 1#32 r = true ∧ BitVec.ule r 15#32 = true) :
    m_get_base_cell (m_set_base_cell h v) = v ∧
    m_get_digit (m_set_base_cell h v) r = m_get_digit h r ∧
    m_get_resolution (m_set_base_cell h v) = m_get_resolution h ∧
    m_get_mode (m_set_base_cell h v) = m_get_mode h ∧
    m_get_reserved (m_set_base_cell h v) = m_get_reserved h := by
  simp only [m_get_resolution, m_get_base_cell, m_get_mode, m_get_reserved, m_get_digit, m_set_base_cell] at *
  bv_decide

/-- field ranges -/
theorem field_ranges_bv (h : BitVec 64) (r : BitVec 32) :
    BitVec.ult (m_get_resolution h) 16#32 = true ∧ BitVec.ult (m_get_base_cell h) 128#32 = true ∧
    BitVec.ult (m_get_digit h r) 8#32 = true ∧ BitVec.ult (m_get_mode h) 16#32 = true ∧
    BitVec.ult (m_get_reserved h) 8#32 = true := by
  simp only [m_get_resolution, m_get_base_cell, m_get_mode, m_get_reserved, m_get_digit]
  bv_decide

/-- extensionality: an index is determined by its five header fields and its fifteen digits -/
theorem ext_bv (a b : BitVec 64)
    (h1 : m_get_high_bit a = m_get_high_bit b) (h2 : m_get_mode a = m_get_mode b)
    (h3 : m_get_reserved a = m_get_reserved b) (h4 : m_get_resolution a = m_get_resolution b)
    (h5 : m_get_base_cell a = m_get_base_cell b)
    (hd : ∀ r : BitVec 32, BitVec.ule 1#32 r = true → BitVec.ule r 15#32 = true → m_get_digit a r = m_get_digit b r) :
    a = b := by
  have d1 := hd 1#32 (by decide) (by decide)
  have d2 := hd 2#32 (by decide) (by decide)
  have d3 := hd 3#32 (by decide) (by decide)
  have d4 := hd 4#32 (by decide) (by decide)
  have d5 := hd 5#32 (by decide) (by decide)
  have d6 := hd 6#32 (by decide) (by decide)
  have d7 := hd 7#32 (by decide) (by decide)
  have d8 := hd 8#32 (by decide) (by decide)
  have d9 := hd 9#32 (by decide) (by decide)
  have d10 := hd 10#32 (by decide) (by decide)
  have d11 := hd 11#32 (by decide) (by decide)
  have d12 := hd 12#32 (by decide) (by decide)
  have d13 := hd 13#32 (by decide) (by decide)
  have d14 := hd 14#32 (by decide) (by decide)
  have d15 := hd 15#32 (by decide) (by decide)
  simp only [m_get_high_bit, m_get_mode, m_get_reserved, m_get_resolution, m_get_base_cell, m_get_digit] at *
  bv_decide

/-! ### Nat-level laws for the accessors of the model -/

theorem ofNat_pos {r : Nat} (h1 : 1 ≤ r) (h15 : r ≤ 15) :
    BitVec.ule 1#32 (BitVec.ofNat 32 r) = true ∧ BitVec.ule (BitVec.ofNat 32 r) 15#32 = true := by
  have : r % 2 ^ 32 = r := Nat.mod_eq_of_lt (by omega)
  constructor
  · rw [BitVec.ule]; simp [this]; omega
  · rw [BitVec.ule]; simp [this]; omega

theorem ofNat_lt {d : Nat} (n : Nat) (hn : n ≤ 256) (h : d < n) : BitVec.ult (BitVec.ofNat 32 d) (BitVec.ofNat 32 n) = true := by
  have h1 : d % 2 ^ 32 = d := Nat.mod_eq_of_lt (by omega)
  have h2 : n % 2 ^ 32 = n := Nat.mod_eq_of_lt (by omega)
  rw [BitVec.ult]; simp [h1, h2]; omega

theorem ofNat_inj32 {a b : Nat} (ha : a < 2 ^ 32) (hb : b < 2 ^ 32) : (BitVec.ofNat 32 a == BitVec.ofNat 32 b) = (a == b) := by
  by_cases h : a = b
  · subst h; simp
  · have : BitVec.ofNat 32 a ≠ BitVec.ofNat 32 b := by
      intro e
      have := congrArg BitVec.toNat e
      simp [BitVec.toNat_ofNat] at this
      omega
    rw [beq_eq_false_iff_ne.mpr this, beq_eq_false_iff_ne.mpr h]

/-- **get/set digit** -/
theorem getDigit_setDigit (h : BitVec 64) (r r' d : Nat) (hr : 1 ≤ r ∧ r ≤ 15) (hr' : 1 ≤ r' ∧ r' ≤ 15) (hd : d < 8) :
    getDigit (setDigit h r d) r' = if r' = r then d else getDigit h r' := by
  unfold getDigit setDigit
  rw [get_set_digit_bv h _ _ _ (ofNat_pos hr.1 hr.2) (ofNat_pos hr'.1 hr'.2) (ofNat_lt 8 (by omega) hd)]
  rw [ofNat_inj32 (by omega) (by omega)]
  by_cases e : r' = r
  · simp [e, BitVec.toNat_ofNat]; omega
  · simp [e]

theorem getRes_setDigit (h : BitVec 64) (r d : Nat) (hr : 1 ≤ r ∧ r ≤ 15) (hd : d < 8) :
    getRes (setDigit h r d) = getRes h ∧ getBaseCell (setDigit h r d) = getBaseCell h ∧
    getMode (setDigit h r d) = getMode h ∧ getReserved (setDigit h r d) = getReserved h ∧
    getHighBit (setDigit h r d) = getHighBit h := by
  unfold getRes getBaseCell getMode getReserved getHighBit setDigit
  obtain ⟨a, b, c, d', e⟩ := res_set_digit_bv h _ _ (ofNat_pos hr.1 hr.2) (ofNat_lt 8 (by omega) hd)
  rw [a, b, c, d', e]
  exact ⟨rfl, rfl, rfl, rfl, rfl⟩

theorem getRes_setRes (h : BitVec 64) (v : Nat) (hv : v < 16) : getRes (setRes h v) = v := by
  unfold getRes setRes
  rw [(get_set_res_bv h _ 1#32 (ofNat_lt 16 (by omega) hv) (by decide)).1]
  simp [BitVec.toNat_ofNat]; omega

theorem getDigit_setRes (h : BitVec 64) (v r : Nat) (hv : v < 16) (hr : 1 ≤ r ∧ r ≤ 15) :
    getDigit (setRes h v) r = getDigit h r ∧ getBaseCell (setRes h v) = getBaseCell h ∧
    getMode (setRes h v) = getMode h ∧ getReserved (setRes h v) = getReserved h ∧
    getHighBit (setRes h v) = getHighBit h := by
  unfold getDigit getBaseCell getMode getReserved getHighBit setRes
  obtain ⟨_, a, b, c, d, e⟩ := get_set_res_bv h _ _ (ofNat_lt 16 (by omega) hv) (ofNat_pos hr.1 hr.2)
  rw [a, b, c, d, e]
  exact ⟨rfl, rfl, rfl, rfl, rfl⟩

theorem getBaseCell_setBaseCell (h : BitVec 64) (v : Nat) (hv : v < 128) : getBaseCell (setBaseCell h v) = v := by
  unfold getBaseCell setBaseCell
  rw [(get_set_base_cell_bv h _ 1#32 (ofNat_lt 128 (by omega) hv) (by decide)).1]
  simp [BitVec.toNat_ofNat]; omega

theorem getDigit_setBaseCell (h : BitVec 64) (v r : Nat) (hv : v < 128) (hr : 1 ≤ r ∧ r ≤ 15) :
    getDigit (setBaseCell h v) r = getDigit h r ∧ getRes (setBaseCell h v) = getRes h ∧
    getMode (setBaseCell h v) = getMode h ∧ getReserved (setBaseCell h v) = getReserved h := by
  unfold getDigit getRes getMode getReserved setBaseCell
  obtain ⟨_, a, b, c, d⟩ := get_set_base_cell_bv h _ _ (ofNat_lt 128 (by omega) hv) (ofNat_pos hr.1 hr.2)
  rw [a, b, c, d]
  exact ⟨rfl, rfl, rfl, rfl⟩

theorem getRes_lt (h : BitVec 64) : getRes h < 16 := by
  unfold getRes
  have := (field_ranges_bv h 1#32).1
  simpa [BitVec.ult] using this

theorem getBaseCell_lt (h : BitVec 64) : getBaseCell h < 128 := by
  unfold getBaseCell
  have := (field_ranges_bv h 1#32).2.1
  simpa [BitVec.ult] using this

theorem getDigit_lt (h : BitVec 64) (r : Nat) : getDigit h r < 8 := by
  unfold getDigit
  have := (field_ranges_bv h (BitVec.ofNat 32 r)).2.2.1
  simpa [BitVec.ult] using this

/-- **extensionality at the Nat level** -/
theorem ext (a b : BitVec 64) (h1 : getHighBit a = getHighBit b) (h2 : getMode a = getMode b)
    (h3 : getReserved a = getReserved b) (h4 : getRes a = getRes b) (h5 : getBaseCell a = getBaseCell b)
    (hd : ∀ r, 1 ≤ r → r ≤ 15 → getDigit a r = getDigit b r) : a = b := by
  apply ext_bv
  · exact BitVec.eq_of_toNat_eq h1
  · exact BitVec.eq_of_toNat_eq h2
  · exact BitVec.eq_of_toNat_eq h3
  · exact BitVec.eq_of_toNat_eq h4
  · exact BitVec.eq_of_toNat_eq h5
  · intro r hr1 hr15
    have h1' : 1 ≤ r.toNat := by simpa [BitVec.ule] using hr1
    have h15' : r.toNat ≤ 15 := by simpa [BitVec.ule] using hr15
    have := hd r.toNat h1' h15'
    unfold getDigit at this
    have e : BitVec.ofNat 32 r.toNat = r := by simp
    rw [e] at this
    exact BitVec.eq_of_toNat_eq this

end H3.Bits
