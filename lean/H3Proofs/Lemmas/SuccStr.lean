/-
Successor on child digit strings (coarsest digit first): the order in which `childDigitStrings`
lists them is the order of repeated `succStr`, starting from the all-zero string and ending at the
all-six string.  Pure list theory; the bit-level iterator is related to `succStr` in
Props/C04Iter.lean.
-/
import H3Model.HierSpec

namespace H3.Succ
open H3

/-- successor of a child digit string; `Z`: the parent is a pentagon and all coarser digits are zero
(so digit 1 is skipped at this level) -/
def succStr (Z : Bool) : List Nat → Option (List Nat)
  | [] => none
  | d :: rest =>
    match succStr (Z && d == 0) rest with
    | some r' => some (d :: r')
    | none =>
      if (if Z && d == 0 then 2 else d + 1) < 7 then
        some ((if Z && d == 0 then 2 else d + 1) :: List.replicate rest.length 0)
      else none

theorem succ_sixes : ∀ (k : Nat) (Z : Bool), succStr Z (List.replicate k 6) = none := by
  intro k
  induction k with
  | zero => intro Z; rfl
  | succ k ih =>
    intro Z
    simp only [List.replicate_succ, succStr, ih]
    simp

/-- the three cases of the successor of `pre ++ d :: sixes` -/
theorem succ_split : ∀ (pre : List Nat) (Z : Bool) (d k : Nat),
    (if Z && pre.all (· == 0) && d == 0 then 2 else d + 1) < 7 →
    succStr Z (pre ++ d :: List.replicate k 6) =
      some (pre ++ (if Z && pre.all (· == 0) && d == 0 then 2 else d + 1) :: List.replicate k 0) := by
  intro pre
  induction pre with
  | nil =>
    intro Z d k hlt
    simp only [List.nil_append, succStr, succ_sixes, List.all_nil, Bool.and_true, List.length_replicate] at hlt ⊢
    simp only [hlt, if_true]
  | cons x pre ih =>
    intro Z d k hlt
    have e : (Z && (x :: pre).all (· == 0) && d == 0) = ((Z && x == 0) && pre.all (· == 0) && d == 0) := by
      simp [Bool.and_assoc]
    rw [e] at hlt ⊢
    simp only [List.cons_append, succStr, ih (Z && x == 0) d k hlt]

/-- a list of strings in which each element is the successor of the previous one -/
def Chain (Z : Bool) : List (List Nat) → Prop
  | [] => True
  | [_] => True
  | a :: b :: t => succStr Z a = some b ∧ Chain Z (b :: t)

theorem chain_map_cons (Z : Bool) (d : Nat) : ∀ (L : List (List Nat)), Chain (Z && d == 0) L →
    Chain Z (L.map (d :: ·)) := by
  intro L
  induction L with
  | nil => intro _; trivial
  | cons a t ih =>
    intro hc
    cases t with
    | nil => trivial
    | cons b t =>
      obtain ⟨h1, h2⟩ := hc
      refine ⟨?_, ih h2⟩
      simp only [succStr, h1]

theorem chain_append (Z : Bool) : ∀ (L1 L2 : List (List Nat)) (a b : List Nat),
    Chain Z L1 → Chain Z L2 → L1.getLast? = some a → L2.head? = some b → succStr Z a = some b →
    Chain Z (L1 ++ L2) := by
  intro L1
  induction L1 with
  | nil => intro L2 a b _ _ h; simp at h
  | cons x t ih =>
    intro L2 a b c1 c2 hl hh hs
    cases t with
    | nil =>
      simp only [List.getLast?_singleton, Option.some.injEq] at hl
      subst hl
      cases L2 with
      | nil => trivial
      | cons y t2 =>
        simp only [List.head?_cons, Option.some.injEq] at hh
        subst hh
        exact ⟨hs, c2⟩
    | cons y t =>
      obtain ⟨h1, h2⟩ := c1
      refine ⟨h1, ?_⟩
      have hl' : (y :: t).getLast? = some a := by
        rw [List.getLast?_cons_cons] at hl; exact hl
      exact ih L2 a b h2 c2 hl' hh hs

/-- next allowed first digit -/
def nextDigit (Z : Bool) (d : Nat) : Nat := if Z && d == 0 then 2 else d + 1

/-- blocks of strings for a list of first digits -/
def blocks (Z : Bool) (m : Nat) (ds : List Nat) : List (List Nat) :=
  ds.flatMap fun d => (childDigitStrings (Z && d == 0) m).map (d :: ·)

/-- the first digits form an increasing run `d, next d, next (next d), …` -/
def DigitRun (Z : Bool) : List Nat → Prop
  | [] => True
  | [_] => True
  | a :: b :: t => nextDigit Z a = b ∧ b < 7 ∧ DigitRun Z (b :: t)

structure Good (Z : Bool) (m : Nat) : Prop where
  chain : Chain Z (childDigitStrings Z m)
  head : (childDigitStrings Z m).head? = some (List.replicate m 0)
  last : (childDigitStrings Z m).getLast? = some (List.replicate m 6)

theorem blocks_good (m : Nat) (ih : ∀ Z, Good Z m) (Z : Bool) : ∀ (ds : List Nat) (d0 : Nat), DigitRun Z (d0 :: ds) →
    Chain Z (blocks Z m (d0 :: ds)) ∧ (blocks Z m (d0 :: ds)).head? = some (d0 :: List.replicate m 0) ∧
    (blocks Z m (d0 :: ds)).getLast? = some ((d0 :: ds).getLast (by simp) :: List.replicate m 6) := by
  intro ds
  induction ds with
  | nil =>
    intro d0 _
    have g := ih (Z && d0 == 0)
    simp only [blocks, List.flatMap_cons, List.flatMap_nil, List.append_nil, List.getLast_singleton]
    refine ⟨chain_map_cons Z d0 _ g.chain, ?_, ?_⟩
    · rw [List.head?_map, g.head]; rfl
    · rw [List.getLast?_map, g.last]; rfl
  | cons d1 ds ihds =>
    intro d0 hrun
    obtain ⟨hn, hlt, hrun'⟩ := hrun
    obtain ⟨c2, hd2, ls2⟩ := ihds d1 hrun'
    have g := ih (Z && d0 == 0)
    have hb : blocks Z m (d0 :: d1 :: ds) =
        (childDigitStrings (Z && d0 == 0) m).map (d0 :: ·) ++ blocks Z m (d1 :: ds) := by
      simp [blocks, List.flatMap_cons]
    have hne : (childDigitStrings (Z && d0 == 0) m).map (d0 :: ·) ≠ [] := by
      intro e
      have := g.head
      rw [List.map_eq_nil_iff] at e
      rw [e] at this
      simp at this
    have hne2 : blocks Z m (d1 :: ds) ≠ [] := by
      intro e; rw [e] at hd2; simp at hd2
    rw [hb]
    refine ⟨?_, ?_, ?_⟩
    · apply chain_append Z _ _ (d0 :: List.replicate m 6) (d1 :: List.replicate m 0)
        (chain_map_cons Z d0 _ g.chain) c2
      · rw [List.getLast?_map, g.last]; rfl
      · exact hd2
      · -- successor across the block boundary
        have := succ_split [] Z d0 m
        simp only [List.nil_append, List.all_nil, Bool.and_true] at this
        have hlt' : (if (Z && d0 == 0) = true then 2 else d0 + 1) < 7 := by
          unfold nextDigit at hn; rw [hn]; exact hlt
        rw [this hlt']
        unfold nextDigit at hn
        rw [hn]
    · rw [List.head?_append, List.head?_map, g.head]; rfl
    · rw [List.getLast?_append, ls2]
      simp

theorem strings_good : ∀ (m : Nat) (Z : Bool), Good Z m := by
  intro m
  induction m with
  | zero => intro Z; exact ⟨trivial, rfl, rfl⟩
  | succ m ih =>
    intro Z
    have hdef : childDigitStrings Z (m + 1) =
        blocks Z m ((List.range 7).filter (fun d => !(Z && d == 1))) := rfl
    cases Z with
    | false =>
      have hl : (List.range 7).filter (fun d => !(false && d == 1)) = [0, 1, 2, 3, 4, 5, 6] := by decide
      rw [hl] at hdef
      have hrun : DigitRun false [0, 1, 2, 3, 4, 5, 6] := by
        simp [DigitRun, nextDigit]
      obtain ⟨a, b, c⟩ := blocks_good m ih false _ _ hrun
      rw [← hdef] at a b c
      exact ⟨a, b, c⟩
    | true =>
      have hl : (List.range 7).filter (fun d => !(true && d == 1)) = [0, 2, 3, 4, 5, 6] := by decide
      rw [hl] at hdef
      have hrun : DigitRun true [0, 2, 3, 4, 5, 6] := by
        simp [DigitRun, nextDigit]
      obtain ⟨a, b, c⟩ := blocks_good m ih true _ _ hrun
      rw [← hdef] at a b c
      exact ⟨a, b, c⟩

/-- every digit of a listed string is at most 6 -/
theorem strings_le6 : ∀ (m : Nat) (Z : Bool), ∀ s ∈ childDigitStrings Z m, ∀ d ∈ s, d ≤ 6 := by
  intro m
  induction m with
  | zero => intro Z s hs d hd; simp [childDigitStrings] at hs; subst hs; simp at hd
  | succ m ih =>
    intro Z s hs d hd
    simp only [childDigitStrings, List.mem_flatMap, List.mem_filter, List.mem_range, List.mem_map] at hs
    obtain ⟨x, ⟨hx, _⟩, t, ht, rfl⟩ := hs
    simp only [List.mem_cons] at hd
    rcases hd with rfl | hd
    · omega
    · exact ih _ t ht d hd

/-- a pentagon string's first non-zero digit is not 1 (`Z` strings never start …0 0 1) -/
theorem strings_lead : ∀ (m : Nat), ∀ s ∈ childDigitStrings true m,
    ∀ pre d suf, s = pre ++ d :: suf → pre.all (· == 0) = true → d ≠ 1 := by
  intro m
  induction m with
  | zero => intro s hs pre d suf e; simp [childDigitStrings] at hs; subst hs; simp at e
  | succ m ih =>
    intro s hs pre d suf e hz
    simp only [childDigitStrings, List.mem_flatMap, List.mem_filter, List.mem_range, List.mem_map] at hs
    obtain ⟨x, ⟨hx, hx1⟩, t, ht, rfl⟩ := hs
    cases pre with
    | nil =>
      simp only [List.nil_append, List.cons.injEq] at e
      obtain ⟨rfl, _⟩ := e
      simpa using hx1
    | cons y pre =>
      simp only [List.cons_append, List.cons.injEq] at e
      obtain ⟨rfl, rfl⟩ := e
      simp only [List.all_cons, Bool.and_eq_true, beq_iff_eq] at hz
      obtain ⟨rfl, hz⟩ := hz
      simp only [Bool.true_and, beq_self_eq_true] at ht
      exact ih _ ht pre d suf rfl hz


theorem strings_len : ∀ (m : Nat) (Z : Bool), ∀ s ∈ childDigitStrings Z m, s.length = m := by
  intro m
  induction m with
  | zero => intro Z s hs; simp [childDigitStrings] at hs; subst hs; rfl
  | succ m ih =>
    intro Z s hs
    simp only [childDigitStrings, List.mem_flatMap, List.mem_filter, List.mem_range, List.mem_map] at hs
    obtain ⟨x, _, t, ht, rfl⟩ := hs
    simp [ih _ t ht]

end H3.Succ
