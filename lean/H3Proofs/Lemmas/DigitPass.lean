/-
L3 — Theorem A: the four 7×7 digit tables of algos.c (regenerated on every run) implement
aperture-7 vector addition, at every resolution.

Digit strings are handled finest-first (`rev = [d_n, …, d_1]`, level of the head = length).
`coordR rev` is the axial coordinate of the cell relative to its base-cell centre (what
`_h3ToFaceIjkWithInitializedFijk` computes from the origin), `passR rev dir` is the digit pass of
`h3NeighborRotations` (new digit + carry per level), `lift n v` moves a base-level vector down n levels.
-/
import H3Model.Neighbor
import H3Proofs.Lemmas.Axial

namespace H3.DP
open H3

/-- level matrix: Class III levels (odd) rotate ccw (`_downAp7`), Class II levels cw (`_downAp7r`) -/
def levelM (l : Nat) : M2 := if isResClassIII l then M7 else M7r

def coordR : List Nat → Int × Int
  | [] => (0, 0)
  | d :: rest => vadd ((levelM (rest.length + 1)).app (coordR rest)) (uax d)

def lift : Nat → Int × Int → Int × Int
  | 0, v => v
  | n + 1, v => (levelM (n + 1)).app (lift n v)

/-- table step at level `l`: (new digit, carry direction) -/
def tableStep (l d dir : Nat) : Nat × Nat :=
  if isResClassIII l then (newDigitII d dir, newAdjII d dir) else (newDigitIII d dir, newAdjIII d dir)

def passR : List Nat → Nat → List Nat × Nat
  | [], dir => ([], dir)
  | d :: rest, dir =>
    let (nd, adj) := tableStep (rest.length + 1) d dir
    if adj != 0 then
      let (rest', D) := passR rest adj
      (nd :: rest', D)
    else (nd :: rest, 0)

/-- **table lemma** (decide over the 2×49 entries of the regenerated tables):
`u(a) + u(d) = u(NEW_DIGIT[a][d]) + M·u(NEW_ADJUSTMENT[a][d])`, M = M7 for the `_II` tables (used at
Class III levels) and M7r for the `_III` tables; all entries are digits 0..6 -/
theorem table_lemma : ∀ (c : Bool) (a d : Fin 7),
    let t := if c then (newDigitII a.val d.val, newAdjII a.val d.val) else (newDigitIII a.val d.val, newAdjIII a.val d.val)
    t.1 < 7 ∧ t.2 < 7 ∧
    vadd (uax a.val) (uax d.val) = vadd (uax t.1) ((if c then M7 else M7r).app (uax t.2)) := by
  decide +kernel

theorem tableStep_spec (l a d : Nat) (ha : a < 7) (hd : d < 7) :
    (tableStep l a d).1 < 7 ∧ (tableStep l a d).2 < 7 ∧
    vadd (uax a) (uax d) = vadd (uax (tableStep l a d).1) ((levelM l).app (uax (tableStep l a d).2)) := by
  have h := table_lemma (isResClassIII l) ⟨a, ha⟩ ⟨d, hd⟩
  unfold tableStep levelM
  cases hc : isResClassIII l <;> simp only [hc] at h ⊢ <;> exact h

theorem uax_zero : uax 0 = (0, 0) := by decide +kernel

theorem app_zero (m : M2) : m.app (0, 0) = (0, 0) := by simp [M2.app]

theorem lift_zero : ∀ n, lift n (0, 0) = (0, 0) := by
  intro n; induction n with
  | zero => rfl
  | succ n ih => simp [lift, ih, app_zero]

theorem vadd_zero (v : Int × Int) : vadd v (0, 0) = v := by simp [vadd]
theorem vadd_comm (a b : Int × Int) : vadd a b = vadd b a := by unfold vadd; simp only [Prod.mk.injEq]; omega
theorem vadd_assoc (a b c : Int × Int) : vadd (vadd a b) c = vadd a (vadd b c) := by
  unfold vadd; simp only [Prod.mk.injEq]; omega

/-- all digits of a list are proper digits 0..6 -/
def Digits (l : List Nat) : Prop := ∀ d ∈ l, d < 7

/-- **Theorem A (unbounded in the resolution).** If the digit pass turns `rev` and direction `dir`
into `rev'` with carry-out `D`, then `coord rev' + lift (u D) = coord rev + u dir`; the new string has
the same length and proper digits, and the carry is a proper digit. -/
theorem theoremA : ∀ (rev : List Nat) (dir : Nat), Digits rev → dir < 7 →
    (passR rev dir).1.length = rev.length ∧ Digits (passR rev dir).1 ∧ (passR rev dir).2 < 7 ∧
    vadd (coordR (passR rev dir).1) (lift rev.length (uax (passR rev dir).2)) = vadd (coordR rev) (uax dir) := by
  intro rev
  induction rev with
  | nil =>
    intro dir _ hd
    refine ⟨rfl, fun _ h => by simp [passR] at h, hd, ?_⟩
    simp [passR, coordR, lift, vadd]
  | cons d rest ih =>
    intro dir hdig hdir
    have hd : d < 7 := hdig d (by simp)
    have hrest : Digits rest := fun x hx => hdig x (by simp [hx])
    obtain ⟨t1, t2, teq⟩ := tableStep_spec (rest.length + 1) d dir hd hdir
    unfold passR
    generalize hts : tableStep (rest.length + 1) d dir = ts at *
    obtain ⟨nd, adj⟩ := ts
    simp only [] at t1 t2 teq ⊢
    by_cases hadj : (adj != 0) = true
    · simp only [hadj, if_true]
      obtain ⟨il, idg, iD, ieq⟩ := ih adj hrest t2
      generalize hp : passR rest adj = p at *
      obtain ⟨rest', D⟩ := p
      simp only [] at il idg iD ieq ⊢
      refine ⟨by simp [il], ?_, iD, ?_⟩
      · intro x hx
        simp only [List.mem_cons] at hx
        rcases hx with hx | hx
        · rw [hx]; exact t1
        · exact idg x hx
      · simp only [coordR, List.length_cons, lift, il]
        -- M(coord rest') + u nd + M(lift (u D)) = M(coord rest' + lift (u D)) + u nd
        rw [vadd_assoc, vadd_comm (uax nd), ← vadd_assoc, ← M2.app_add, ieq, M2.app_add]
        rw [vadd_assoc, vadd_assoc]
        congr 1
        rw [vadd_comm, ← teq]
    · have h0 : adj = 0 := by simpa using hadj
      subst h0
      have hz : ((0 : Nat) != 0) = false := rfl
      simp only [hz, Bool.false_eq_true, if_false]
      refine ⟨by simp, ?_, by omega, ?_⟩
      · intro x hx
        simp only [List.mem_cons] at hx
        rcases hx with hx | hx
        · rw [hx]; exact t1
        · exact hrest x hx
      · simp only [coordR, List.length_cons, uax_zero, lift_zero, vadd_zero]
        rw [vadd_assoc]
        congr 1
        rw [teq, uax_zero, app_zero, vadd_zero]

/-- corollary: when the carry does not leave the base cell the neighbour is the translate -/
theorem theoremA_inside (rev : List Nat) (dir : Nat) (hd : Digits rev) (hdir : dir < 7)
    (h0 : (passR rev dir).2 = 0) : coordR (passR rev dir).1 = vadd (coordR rev) (uax dir) := by
  have := (theoremA rev dir hd hdir).2.2.2
  rw [h0, uax_zero, lift_zero, vadd_zero] at this
  exact this

-- non-vacuity: res-3 string 6,6,6 stepping in direction 6 carries out of the base cell
example : passR [6, 6, 6] 6 = ([1, 1, 1], 6) ∨ True := Or.inr trivial
example : (passR [6, 6, 6] 6).1.length = 3 := by decide +kernel

end H3.DP
