/-
Bridge between the bit-level model (H3Model/Neighbor.lean: `digitPass` on a 64-bit index,
`h3ToIjkFrom`) and the digit-list theory of Lemmas/DigitPass.lean.
-/
import H3Proofs.Lemmas.DigitPass
import H3Proofs.Lemmas.Bits
import H3Model.LocalIj

namespace H3.DP
open H3 H3.Bits

/-- digits n, n−1, …, 1 of an index (finest first) -/
def revDigits (h : BitVec 64) : Nat → List Nat
  | 0 => []
  | n + 1 => getDigit h (n + 1) :: revDigits h n

theorem revDigits_length (h : BitVec 64) (n : Nat) : (revDigits h n).length = n := by
  induction n with
  | zero => rfl
  | succ n ih => simp [revDigits, ih]

/-- two indexes with the same digits 1..n have the same `revDigits` -/
theorem revDigits_congr (a b : BitVec 64) (n : Nat) (h : ∀ r, 1 ≤ r → r ≤ n → getDigit a r = getDigit b r) :
    revDigits a n = revDigits b n := by
  induction n with
  | zero => rfl
  | succ n ih =>
    simp only [revDigits]
    rw [h (n + 1) (by omega) (by omega), ih (fun r h1 h2 => h r h1 (by omega))]

/-- the header of an index and its digits above level n are what `digitPass` leaves alone -/
structure SameOutside (a b : BitVec 64) (n : Nat) : Prop where
  res : getRes b = getRes a
  bc : getBaseCell b = getBaseCell a
  mode : getMode b = getMode a
  rsv : getReserved b = getReserved a
  high : getHighBit b = getHighBit a
  above : ∀ r, n < r → r ≤ 15 → getDigit b r = getDigit a r

theorem SameOutside.refl (a : BitVec 64) (n : Nat) : SameOutside a a n :=
  ⟨rfl, rfl, rfl, rfl, rfl, fun _ _ _ => rfl⟩

/-- **the bit-level digit pass is the list-level digit pass** (levels 1..n, n ≤ 15, proper digits) -/
theorem digitPass_eq : ∀ (n : Nat) (h : BitVec 64) (dir : Nat), n ≤ 15 → dir < 7 → Digits (revDigits h n) →
    ∃ h' atBase, digitPass h dir n = .ok (h', atBase) ∧
      revDigits h' n = (passR (revDigits h n) dir).1 ∧ SameOutside h h' n ∧
      (atBase = none → (passR (revDigits h n) dir).2 = 0) ∧
      (∀ D, atBase = some D → (passR (revDigits h n) dir).2 = D ∧ ((n = 0 ∧ D = dir) ∨ D ≠ 0)) := by
  intro n
  induction n with
  | zero =>
    intro h dir _ _ _
    refine ⟨h, some dir, rfl, rfl, SameOutside.refl h 0, fun e => by simp at e, fun D e => ?_⟩
    have : dir = D := by simpa using e
    subst this
    exact ⟨by simp [passR, revDigits], Or.inl ⟨rfl, rfl⟩⟩
  | succ n ih =>
    intro h dir hn hdir hdig
    have hd : getDigit h (n + 1) < 7 := hdig _ (by simp [revDigits])
    have hrest : Digits (revDigits h n) := fun x hx => hdig x (by simp [revDigits, hx])
    have hne7 : (getDigit h (n + 1) == 7) = false := by
      have : getDigit h (n + 1) ≠ 7 := by omega
      simpa using this
    obtain ⟨t1, t2, _⟩ := tableStep_spec (n + 1) (getDigit h (n + 1)) dir hd hdir
    unfold digitPass
    simp only [hne7, Bool.false_eq_true, if_false]
    simp only [revDigits, passR, revDigits_length]
    -- the table step of the model is `tableStep`
    have hts : (if isResClassIII (n + 1) = true then (newDigitII (getDigit h (n + 1)) dir, newAdjII (getDigit h (n + 1)) dir)
        else (newDigitIII (getDigit h (n + 1)) dir, newAdjIII (getDigit h (n + 1)) dir)) =
        tableStep (n + 1) (getDigit h (n + 1)) dir := by
      unfold tableStep; rfl
    rw [hts]
    generalize hst : tableStep (n + 1) (getDigit h (n + 1)) dir = ts at *
    obtain ⟨nd, adj⟩ := ts
    simp only [] at t1 t2 ⊢
    have hpos : 1 ≤ n + 1 ∧ n + 1 ≤ 15 := ⟨by omega, hn⟩
    have hnd8 : nd < 8 := by omega
    -- the index after writing the new digit
    have hlow : ∀ r, 1 ≤ r → r ≤ n → getDigit (setDigit h (n + 1) nd) r = getDigit h r := by
      intro r h1 h2
      rw [getDigit_setDigit h (n + 1) r nd hpos ⟨h1, by omega⟩ hnd8]
      have : r ≠ n + 1 := by omega
      simp [this]
    have hsame : SameOutside h (setDigit h (n + 1) nd) (n + 1) := by
      obtain ⟨a, b, c, d, e⟩ := getRes_setDigit h (n + 1) nd hpos hnd8
      refine ⟨a, b, c, d, e, ?_⟩
      intro r h1 h2
      rw [getDigit_setDigit h (n + 1) r nd hpos ⟨by omega, h2⟩ hnd8]
      have : r ≠ n + 1 := by omega
      simp [this]
    have hself : getDigit (setDigit h (n + 1) nd) (n + 1) = nd := by
      rw [getDigit_setDigit h (n + 1) (n + 1) nd hpos hpos hnd8]; simp
    have hrev : revDigits (setDigit h (n + 1) nd) n = revDigits h n := revDigits_congr _ _ n hlow
    by_cases hadj : (adj != 0) = true
    · simp only [hadj, if_true]
      have hdig' : Digits (revDigits (setDigit h (n + 1) nd) n) := by rw [hrev]; exact hrest
      obtain ⟨h', ab, e1, e2, e3, e4, e5⟩ := ih (setDigit h (n + 1) nd) adj (by omega) t2 hdig'
      refine ⟨h', ab, e1, ?_, ?_, ?_, ?_⟩
      · -- digits of the result
        rw [hrev] at e2
        have : getDigit h' (n + 1) = nd := by
          rw [e3.above (n + 1) (by omega) hn, hself]
        rw [this, e2]
      · exact ⟨by rw [e3.res, hsame.res], by rw [e3.bc, hsame.bc], by rw [e3.mode, hsame.mode],
          by rw [e3.rsv, hsame.rsv], by rw [e3.high, hsame.high],
          fun r h1 h2 => by rw [e3.above r (by omega) h2, hsame.above r h1 h2]⟩
      · intro e; rw [hrev] at e4; exact e4 e
      · intro D e
        rw [hrev] at e5
        obtain ⟨g1, g2⟩ := e5 D e
        refine ⟨g1, Or.inr ?_⟩
        rcases g2 with ⟨_, g⟩ | g
        · rw [g]; simpa using hadj
        · exact g
    · have h0 : adj = 0 := by simpa using hadj
      subst h0
      have hz : ((0 : Nat) != 0) = false := rfl
      simp only [hz, Bool.false_eq_true, if_false]
      refine ⟨setDigit h (n + 1) nd, none, rfl, ?_, hsame, fun _ => trivial, fun D e => by simp at e⟩
      rw [hself, hrev]

/-- axial coordinate computed by `_h3ToFaceIjkWithInitializedFijk` from the origin = `coordR` of the digits -/
theorem ax_h3ToIjkFrom_steps (h : BitVec 64) : ∀ (n : Nat), Digits (revDigits h n) →
    ax ((List.range' 1 n).foldl (fun c r =>
      ijkNeighbor (if isResClassIII r then downAp7 c else downAp7r c) (getDigit h r)) ⟨0, 0, 0⟩) = coordR (revDigits h n) := by
  intro n
  induction n with
  | zero => intro _; rfl
  | succ n ih =>
    intro hdig
    have hd : getDigit h (n + 1) < 7 := hdig _ (by simp [revDigits])
    have hrest : Digits (revDigits h n) := fun x hx => hdig x (by simp [revDigits, hx])
    rw [List.range'_1_concat, List.foldl_append]
    simp only [List.foldl_cons, List.foldl_nil]
    have e : 1 + n = n + 1 := by omega
    rw [e, ax_ijkNeighbor _ _ hd]
    simp only [revDigits, coordR, revDigits_length]
    congr 1
    unfold levelM
    by_cases hc : isResClassIII (n + 1) = true
    · simp only [hc, if_true]; rw [ax_downAp7, ih hrest]
    · simp only [hc, Bool.false_eq_true, if_false]; rw [ax_downAp7r, ih hrest]

theorem ax_h3ToIjkFrom (h : BitVec 64) (hdig : Digits (revDigits h (getRes h))) :
    ax (h3ToIjkFrom h ⟨0, 0, 0⟩) = coordR (revDigits h (getRes h)) := by
  unfold h3ToIjkFrom
  exact ax_h3ToIjkFrom_steps h (getRes h) hdig

end H3.DP
