/-
`_zeroIndexDigits` (generated from C): zeroes exactly the digits start..end and nothing else —
all 2^64 indexes, symbolic start/end/position.
-/
import H3Proofs.Lemmas.Bits

namespace H3.Bits
open H3 H3.Gen.Bits

theorem zero_digits_bv (h : BitVec 64) (s e r : BitVec 32)
    (hs : BitVec.ule 1#32 s = true ∧ BitVec.ule s 16#32 = true) (he : BitVec.ule e 15#32 = true)
    (hr : BitVec.ule 1#32 r = true ∧ BitVec.ule r 15#32 = true) :
    m_get_digit (H3.Gen.Bits.zeroIndexDigits h s e) r = (if (BitVec.ule s r && BitVec.ule r e) then 0#32 else m_get_digit h r) ∧
    m_get_resolution (H3.Gen.Bits.zeroIndexDigits h s e) = m_get_resolution h ∧
    m_get_base_cell (H3.Gen.Bits.zeroIndexDigits h s e) = m_get_base_cell h ∧
    m_get_mode (H3.Gen.Bits.zeroIndexDigits h s e) = m_get_mode h ∧
    m_get_reserved (H3.Gen.Bits.zeroIndexDigits h s e) = m_get_reserved h ∧
    m_get_high_bit (H3.Gen.Bits.zeroIndexDigits h s e) = m_get_high_bit h := by
  simp only [m_get_digit, m_get_resolution, m_get_base_cell, m_get_mode, m_get_reserved, m_get_high_bit,
    H3.Gen.Bits.zeroIndexDigits] at *
  bv_decide

end H3.Bits

namespace H3.Bits
open H3 H3.Gen.Bits

theorem ule_ofNat (a b : Nat) (ha : a < 2 ^ 32) (hb : b < 2 ^ 32) :
    BitVec.ule (BitVec.ofNat 32 a) (BitVec.ofNat 32 b) = decide (a ≤ b) := by
  rw [BitVec.ule]; simp [BitVec.toNat_ofNat, Nat.mod_eq_of_lt ha, Nat.mod_eq_of_lt hb]

/-- Nat-level: `_zeroIndexDigits(h, p+1, c)` zeroes digits p+1..c and nothing else -/
theorem zeroIndexDigits_spec (h : BitVec 64) (p c : Nat) (hp : p ≤ 15) (hc : c ≤ 15) :
    let z := H3.zeroIndexDigits h ((p : Int) + 1) (c : Int)
    getRes z = getRes h ∧ getBaseCell z = getBaseCell h ∧ getMode z = getMode h ∧
    getReserved z = getReserved h ∧ getHighBit z = getHighBit h ∧
    ∀ r, 1 ≤ r → r ≤ 15 → getDigit z r = if p + 1 ≤ r ∧ r ≤ c then 0 else getDigit h r := by
  intro z
  have es : BitVec.ofInt 32 ((p : Int) + 1) = BitVec.ofNat 32 (p + 1) := by
    have : ((p : Int) + 1) = ((p + 1 : Nat) : Int) := by push_cast; rfl
    rw [this, BitVec.ofInt_natCast]
  have ee : BitVec.ofInt 32 (c : Int) = BitVec.ofNat 32 c := BitVec.ofInt_natCast _ _
  have hz : z = H3.Gen.Bits.zeroIndexDigits h (BitVec.ofNat 32 (p + 1)) (BitVec.ofNat 32 c) := by
    show H3.Gen.Bits.zeroIndexDigits h _ _ = _
    rw [es, ee]
  have hs : BitVec.ule 1#32 (BitVec.ofNat 32 (p + 1)) = true ∧ BitVec.ule (BitVec.ofNat 32 (p + 1)) 16#32 = true := by
    constructor
    · rw [show (1#32 : BitVec 32) = BitVec.ofNat 32 1 from rfl, ule_ofNat _ _ (by omega) (by omega)]; simp
    · rw [show (16#32 : BitVec 32) = BitVec.ofNat 32 16 from rfl, ule_ofNat _ _ (by omega) (by omega)]; simp; omega
  have he : BitVec.ule (BitVec.ofNat 32 c) 15#32 = true := by
    rw [show (15#32 : BitVec 32) = BitVec.ofNat 32 15 from rfl, ule_ofNat _ _ (by omega) (by omega)]; simp; omega
  obtain ⟨_, a2, a3, a4, a5, a6⟩ := zero_digits_bv h _ _ 1#32 hs he (by decide)
  rw [hz]
  refine ⟨by unfold getRes; rw [a2], by unfold getBaseCell; rw [a3], by unfold getMode; rw [a4],
    by unfold getReserved; rw [a5], by unfold getHighBit; rw [a6], ?_⟩
  intro r h1 h15
  obtain ⟨a1, _⟩ := zero_digits_bv h _ _ (BitVec.ofNat 32 r) hs he (ofNat_pos h1 h15)
  unfold getDigit
  rw [a1, ule_ofNat _ _ (by omega) (by omega), ule_ofNat _ _ (by omega) (by omega)]
  by_cases e1 : p + 1 ≤ r <;> by_cases e2 : r ≤ c <;> simp [e1, e2]

end H3.Bits
