/-
L6 — the ideal hexagonal lattice: with the six unit steps of the digit vectors, the hexagonal norm is
the graph distance (every walk from a to b has at least hexNorm (b − a) steps, and a walk with exactly
that many steps exists).
-/
import H3Proofs.Lemmas.Axial

namespace H3.L6
open H3

/-- the six unit steps of the hexagonal lattice in axial coordinates -/
def steps : List (Int × Int) := [(-1, -1), (0, 1), (-1, 0), (1, 0), (0, -1), (1, 1)]

theorem steps_eq_uax : steps = (List.range' 1 6).map uax := by decide +kernel

def vsub (u v : Int × Int) : Int × Int := (u.1 - v.1, u.2 - v.2)

theorem hexNorm_step (v u : Int × Int) (hu : u ∈ steps) :
    hexNorm (vadd v u) ≤ hexNorm v + 1 ∧ hexNorm v ≤ hexNorm (vadd v u) + 1 := by
  simp only [steps, List.mem_cons, List.not_mem_nil, or_false] at hu
  unfold hexNorm vadd
  rcases hu with rfl | rfl | rfl | rfl | rfl | rfl <;> simp only [] <;> omega

theorem hexNorm_descend (v : Int × Int) (hv : v ≠ (0, 0)) :
    ∃ u ∈ steps, hexNorm (vadd v u) + 1 = hexNorm v := by
  obtain ⟨x, y⟩ := v
  have hxy : x ≠ 0 ∨ y ≠ 0 := by
    by_cases hx : x = 0
    · by_cases hy : y = 0
      · exact absurd (by rw [hx, hy]) hv
      · exact Or.inr hy
    · exact Or.inl hx
  have pick : ∀ u : Int × Int, u ∈ steps → hexNorm (vadd (x, y) u) + 1 = hexNorm (x, y) →
      ∃ u ∈ steps, hexNorm (vadd (x, y) u) + 1 = hexNorm (x, y) := fun u h1 h2 => ⟨u, h1, h2⟩
  by_cases hx : 0 < x
  · by_cases hy : 0 < y
    · exact pick (-1, -1) (by simp [steps]) (by unfold hexNorm vadd; simp only []; omega)
    · exact pick (-1, 0) (by simp [steps]) (by unfold hexNorm vadd; simp only []; omega)
  · by_cases hx0 : x = 0
    · by_cases hy : 0 < y
      · exact pick (0, -1) (by simp [steps]) (by unfold hexNorm vadd; simp only []; omega)
      · exact pick (0, 1) (by simp [steps]) (by unfold hexNorm vadd; simp only []; omega)
    · by_cases hy : y < 0
      · exact pick (1, 1) (by simp [steps]) (by unfold hexNorm vadd; simp only []; omega)
      · exact pick (1, 0) (by simp [steps]) (by unfold hexNorm vadd; simp only []; omega)

/-- a walk in the lattice: every element is the previous one plus a unit step -/
def IsWalk : List (Int × Int) → Prop
  | [] => True
  | [_] => True
  | a :: b :: t => (∃ u ∈ steps, b = vadd a u) ∧ IsWalk (b :: t)

theorem hexNorm_zero : hexNorm (0, 0) = 0 := by unfold hexNorm; simp

theorem hexNorm_eq_zero (v : Int × Int) (h : hexNorm v = 0) : v = (0, 0) := by
  obtain ⟨x, y⟩ := v
  unfold hexNorm at h
  simp only [] at h
  have : x = 0 ∧ y = 0 := by omega
  rw [this.1, this.2]

/-- **lower bound**: a walk from a to b has at least hexNorm (b − a) steps -/
theorem walk_lower : ∀ (w : List (Int × Int)) (a b : Int × Int), IsWalk (a :: w) →
    (a :: w).getLast? = some b → hexNorm (vsub b a) ≤ w.length := by
  intro w
  induction w with
  | nil =>
    intro a b _ hl
    simp at hl
    subst hl
    unfold vsub hexNorm; simp
  | cons c t ih =>
    intro a b hw hl
    obtain ⟨⟨u, hu, hc⟩, hw'⟩ := hw
    have hl' : (c :: t).getLast? = some b := by rw [List.getLast?_cons_cons] at hl; exact hl
    have h1 := ih c b hw' hl'
    subst hc
    -- b − a = (b − (a+u)) + u
    have := (hexNorm_step (vsub b (vadd a u)) u hu).1
    have e : vadd (vsub b (vadd a u)) u = vsub b a := by
      unfold vadd vsub; simp only [Prod.mk.injEq]; constructor <;> omega
    rw [e] at this
    simp only [List.length_cons]
    omega

/-- **existence**: there is a walk with exactly hexNorm (b − a) steps -/
theorem walk_exists : ∀ (n : Nat) (a b : Int × Int), hexNorm (vsub b a) = n →
    ∃ w : List (Int × Int), IsWalk (a :: w) ∧ (a :: w).getLast? = some b ∧ w.length = n := by
  intro n
  induction n with
  | zero =>
    intro a b h
    have := hexNorm_eq_zero _ (by exact_mod_cast h)
    unfold vsub at this
    simp only [Prod.mk.injEq] at this
    have hab : b = a := Prod.ext (by omega) (by omega)
    exact ⟨[], trivial, by simp [hab], rfl⟩
  | succ n ih =>
    intro a b h
    have hne : vsub b a ≠ (0, 0) := by
      intro e; rw [e, hexNorm_zero] at h; omega
    obtain ⟨u, hu, hdesc⟩ := hexNorm_descend (vsub b a) hne
    -- step from a by −u … use the opposite step: (b − a) + u has smaller norm, so move a to a − u
    have hopp : (-u.1, -u.2) ∈ steps := by
      simp only [steps, List.mem_cons, List.not_mem_nil, or_false] at hu ⊢
      rcases hu with rfl | rfl | rfl | rfl | rfl | rfl <;> simp
    have e : vsub b (vadd a (-u.1, -u.2)) = vadd (vsub b a) u := by
      unfold vadd vsub; simp only [Prod.mk.injEq]; constructor <;> omega
    obtain ⟨w, hw, hl, hn⟩ := ih (vadd a (-u.1, -u.2)) b (by rw [e]; omega)
    refine ⟨vadd a (-u.1, -u.2) :: w, ⟨⟨_, hopp, rfl⟩, hw⟩, ?_, by simp [hn]⟩
    rw [List.getLast?_cons_cons]; exact hl


end H3.L6

