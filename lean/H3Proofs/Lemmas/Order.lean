/-
Numeric order of indexes from the first differing digit (all 2^64 × 2^64 pairs, symbolic position).
-/
import H3Proofs.Lemmas.Bits

namespace H3.Bits
open H3 H3.Gen.Bits

theorem lt_of_first_diff_bv (a b : BitVec 64) (r : BitVec 32)
    (hr : BitVec.ule 1#32 r = true ∧ BitVec.ule r 15#32 = true)
    (h1 : m_get_high_bit a = m_get_high_bit b) (h2 : m_get_mode a = m_get_mode b)
    (h3 : m_get_reserved a = m_get_reserved b) (h4 : m_get_resolution a = m_get_resolution b)
    (h5 : m_get_base_cell a = m_get_base_cell b)
    (hd : ∀ k : BitVec 32, BitVec.ule 1#32 k = true → BitVec.ult k r = true → m_get_digit a k = m_get_digit b k)
    (hlt : BitVec.ult (m_get_digit a r) (m_get_digit b r) = true) :
    BitVec.ult a b = true := by
  have d1 := hd 1#32 (by decide)
  have d2 := hd 2#32 (by decide)
  have d3 := hd 3#32 (by decide)
  have d4 := hd 4#32 (by decide)
  have d5 := hd 5#32 (by decide)
  have d6 := hd 6#32 (by decide)
  have d7 := hd 7#32 (by decide)
  have d8 := hd 8#32 (by decide)
  have d9 := hd 9#32 (by decide)
  have d10 := hd 10#32 (by decide)
  have d11 := hd 11#32 (by decide)
  have d12 := hd 12#32 (by decide)
  have d13 := hd 13#32 (by decide)
  have d14 := hd 14#32 (by decide)
  clear hd
  simp only [m_get_high_bit, m_get_mode, m_get_reserved, m_get_resolution, m_get_base_cell, m_get_digit] at *
  bv_decide

end H3.Bits

namespace H3.Bits
open H3 H3.Gen.Bits

theorem ult_ofNat32 (a b : Nat) (ha : a < 2 ^ 32) (hb : b < 2 ^ 32) :
    BitVec.ult (BitVec.ofNat 32 a) (BitVec.ofNat 32 b) = decide (a < b) := by
  rw [BitVec.ult]; simp [BitVec.toNat_ofNat, Nat.mod_eq_of_lt ha, Nat.mod_eq_of_lt hb]

/-- Nat level: equal headers, equal digits before position r, smaller digit at r ⇒ smaller index -/
theorem lt_of_first_diff (a b : BitVec 64) (r : Nat) (hr1 : 1 ≤ r) (hr15 : r ≤ 15)
    (h1 : getHighBit a = getHighBit b) (h2 : getMode a = getMode b)
    (h3 : getReserved a = getReserved b) (h4 : getRes a = getRes b) (h5 : getBaseCell a = getBaseCell b)
    (hd : ∀ k, 1 ≤ k → k < r → getDigit a k = getDigit b k)
    (hlt : getDigit a r < getDigit b r) : a.toNat < b.toNat := by
  have := lt_of_first_diff_bv a b (BitVec.ofNat 32 r) (ofNat_pos hr1 hr15)
    (BitVec.eq_of_toNat_eq h1) (BitVec.eq_of_toNat_eq h2) (BitVec.eq_of_toNat_eq h3)
    (BitVec.eq_of_toNat_eq h4) (BitVec.eq_of_toNat_eq h5) ?_ ?_
  · simpa [BitVec.ult] using this
  · intro k hk1 hk2
    have hkr : k.toNat < r := by
      rw [BitVec.ult] at hk2
      simp [BitVec.toNat_ofNat] at hk2
      have : r % 4294967296 = r := Nat.mod_eq_of_lt (by omega)
      omega
    have hk1' : 1 ≤ k.toNat := by
      rw [BitVec.ule] at hk1; simpa using hk1
    have hk : k = BitVec.ofNat 32 k.toNat := by simp
    rw [hk]
    exact BitVec.eq_of_toNat_eq (hd k.toNat hk1' hkr)
  · rw [BitVec.ult]
    simpa [getDigit] using hlt

end H3.Bits
