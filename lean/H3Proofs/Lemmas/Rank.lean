/-
Rank / unrank of digit strings (coarsest digit first) under a hexagon and under a pentagon parent:
the arithmetic content of cellToChildPos / childPosToCell and of the child count formulas.
-/
import Mathlib.Tactic.Ring
import Mathlib.Tactic.Linarith
import Mathlib.Tactic.NormNum

namespace H3.Rank

/-- number of descendants of a pentagon n levels down: 1 + 5(7^n − 1)/6 -/
def pentCount (n : Nat) : Int := 1 + 5 * ((7 : Int) ^ n - 1) / 6

theorem seven_pow_pos (n : Nat) : (0 : Int) < 7 ^ n := by positivity

theorem six_dvd (n : Nat) : (6 : Int) ∣ 7 ^ n - 1 := by
  induction n with
  | zero => simp
  | succ n ih =>
    obtain ⟨k, hk⟩ := ih
    exact ⟨7 * k + 1, by rw [pow_succ]; linarith⟩

theorem pentCount_six (n : Nat) : 6 * pentCount n = 5 * 7 ^ n + 1 := by
  unfold pentCount
  obtain ⟨k, hk⟩ := six_dvd n
  have : 5 * ((7 : Int) ^ n - 1) / 6 = 5 * k := by
    rw [hk]
    have : 5 * (6 * k) = 6 * (5 * k) := by ring
    rw [this, Int.mul_ediv_cancel_left _ (by norm_num)]
  rw [this]; linarith

theorem pentCount_zero : pentCount 0 = 1 := by simp [pentCount]

theorem pentCount_succ (n : Nat) : pentCount (n + 1) = pentCount n + 5 * 7 ^ n := by
  have h1 := pentCount_six (n + 1)
  have h2 := pentCount_six n
  rw [pow_succ] at h1
  linarith

theorem pentCount_pos (n : Nat) : 1 ≤ pentCount n := by
  have := pentCount_six n
  have := seven_pow_pos n
  linarith

theorem pentCount_le (n : Nat) : pentCount n ≤ 7 ^ n := by
  have := pentCount_six n
  have := seven_pow_pos n
  linarith

/-! ### hexagon parent -/

def rankH : List Nat → Int
  | [] => 0
  | d :: ds => (d : Int) * 7 ^ ds.length + rankH ds

def unrankH : Nat → Int → List Nat
  | 0, _ => []
  | m + 1, pos => (pos / 7 ^ m).toNat :: unrankH m (pos % 7 ^ m)

def Digits (l : List Nat) : Prop := ∀ d ∈ l, d < 7

theorem rankH_bounds : ∀ ds : List Nat, Digits ds → 0 ≤ rankH ds ∧ rankH ds < 7 ^ ds.length := by
  intro ds
  induction ds with
  | nil => intro _; simp [rankH]
  | cons d ds ih =>
    intro h
    have hd : d < 7 := h d (by simp)
    obtain ⟨i1, i2⟩ := ih (fun x hx => h x (by simp [hx]))
    have hp := seven_pow_pos ds.length
    have hd' : (d : Int) ≤ 6 := by exact_mod_cast Nat.le_of_lt_succ hd
    have hd0 : (0 : Int) ≤ d := by positivity
    simp only [rankH, List.length_cons, pow_succ]
    constructor
    · nlinarith
    · nlinarith

theorem div_mod_digit (w : Int) (hw : 0 < w) (d : Nat) (r : Int) (hr0 : 0 ≤ r) (hr : r < w) :
    ((d : Int) * w + r) / w = d ∧ ((d : Int) * w + r) % w = r := by
  constructor
  · rw [add_comm, Int.add_mul_ediv_right _ _ (ne_of_gt hw), Int.ediv_eq_zero_of_lt hr0 hr]; simp
  · rw [add_comm, Int.add_mul_emod_self_right, Int.emod_eq_of_lt hr0 hr]

theorem unrankH_rankH : ∀ ds : List Nat, Digits ds → unrankH ds.length (rankH ds) = ds := by
  intro ds
  induction ds with
  | nil => intro _; rfl
  | cons d ds ih =>
    intro h
    have hrest : Digits ds := fun x hx => h x (by simp [hx])
    obtain ⟨i1, i2⟩ := rankH_bounds ds hrest
    obtain ⟨e1, e2⟩ := div_mod_digit (7 ^ ds.length) (seven_pow_pos _) d (rankH ds) i1 i2
    simp only [List.length_cons, unrankH, rankH, e1, e2, ih hrest]
    simp

theorem rankH_unrankH : ∀ (m : Nat) (pos : Int), 0 ≤ pos → pos < 7 ^ m →
    (unrankH m pos).length = m ∧ Digits (unrankH m pos) ∧ rankH (unrankH m pos) = pos := by
  intro m
  induction m with
  | zero =>
    intro pos h0 h1
    simp at h1
    refine ⟨rfl, fun _ h => by simp [unrankH] at h, ?_⟩
    simp [unrankH, rankH]; omega
  | succ m ih =>
    intro pos h0 h1
    have hw := seven_pow_pos m
    have hm0 : 0 ≤ pos % 7 ^ m := Int.emod_nonneg _ (ne_of_gt hw)
    have hm1 : pos % 7 ^ m < 7 ^ m := Int.emod_lt_of_pos _ hw
    obtain ⟨l, dg, rk⟩ := ih (pos % 7 ^ m) hm0 hm1
    have hq0 : 0 ≤ pos / 7 ^ m := Int.ediv_nonneg h0 (le_of_lt hw)
    have hq7 : pos / 7 ^ m < 7 := by
      rw [pow_succ] at h1
      exact Int.ediv_lt_of_lt_mul hw (by linarith)
    refine ⟨by simp [unrankH, l], ?_, ?_⟩
    · intro d hd
      simp only [unrankH, List.mem_cons] at hd
      rcases hd with hd | hd
      · rw [hd]; omega
      · exact dg d hd
    · simp only [unrankH, rankH, l, rk]
      rw [Int.toNat_of_nonneg hq0]
      have := Int.mul_ediv_add_emod pos (7 ^ m)
      linarith [Int.mul_comm (pos / 7 ^ m) (7 ^ m)]

/-! ### pentagon parent: digit strings whose first non-zero digit is not 1 -/

def rankP : List Nat → Int
  | [] => 0
  | 0 :: ds => rankP ds
  | (d + 1) :: ds => pentCount ds.length + ((d : Int) - 1) * 7 ^ ds.length + rankH ds

def unrankP : Nat → Int → List Nat
  | 0, _ => []
  | m + 1, pos =>
    if pos < pentCount m then 0 :: unrankP m pos
    else (((pos - pentCount m) / 7 ^ m).toNat + 2) :: unrankH m ((pos - pentCount m) % 7 ^ m)

/-- valid under a pentagon: all digits 0..6 and the first non-zero digit is not 1 -/
def PentDigits : List Nat → Prop
  | [] => True
  | 0 :: ds => PentDigits ds
  | (d + 1) :: ds => 1 ≤ d ∧ d + 1 < 7 ∧ Digits ds

theorem rankP_bounds : ∀ ds : List Nat, PentDigits ds → 0 ≤ rankP ds ∧ rankP ds < pentCount ds.length := by
  intro ds
  induction ds with
  | nil => intro _; simp [rankP, pentCount_zero]
  | cons d ds ih =>
    intro h
    cases d with
    | zero =>
      obtain ⟨i1, i2⟩ := ih h
      simp only [rankP, List.length_cons, pentCount_succ]
      have := seven_pow_pos ds.length
      constructor <;> linarith
    | succ d =>
      obtain ⟨h1, h2, h3⟩ := h
      obtain ⟨r1, r2⟩ := rankH_bounds ds h3
      have hp := seven_pow_pos ds.length
      have hpc := pentCount_pos ds.length
      have hd1 : (1 : Int) ≤ d := by exact_mod_cast h1
      have hd5n : d ≤ 5 := by omega
      have hd5 : (d : Int) ≤ 5 := by exact_mod_cast hd5n
      simp only [rankP, List.length_cons, pentCount_succ]
      constructor
      · nlinarith
      · nlinarith

theorem unrankP_rankP : ∀ ds : List Nat, PentDigits ds → unrankP ds.length (rankP ds) = ds := by
  intro ds
  induction ds with
  | nil => intro _; rfl
  | cons d ds ih =>
    intro h
    cases d with
    | zero =>
      obtain ⟨i1, i2⟩ := rankP_bounds ds h
      simp only [List.length_cons, unrankP, rankP, i2, if_true, ih h]
    | succ d =>
      obtain ⟨h1, h2, h3⟩ := h
      obtain ⟨r1, r2⟩ := rankH_bounds ds h3
      have hp := seven_pow_pos ds.length
      have hd1 : (1 : Int) ≤ d := by exact_mod_cast h1
      have hnot : ¬ (pentCount ds.length + ((d : Int) - 1) * 7 ^ ds.length + rankH ds < pentCount ds.length) := by
        nlinarith
      simp only [List.length_cons, unrankP, rankP, hnot, if_false]
      have hsub : pentCount ds.length + ((d : Int) - 1) * 7 ^ ds.length + rankH ds - pentCount ds.length =
          ((d - 1 : Nat) : Int) * 7 ^ ds.length + rankH ds := by
        have : ((d - 1 : Nat) : Int) = (d : Int) - 1 := by omega
        rw [this]; ring
      rw [hsub]
      obtain ⟨e1, e2⟩ := div_mod_digit (7 ^ ds.length) hp (d - 1) (rankH ds) r1 r2
      rw [e1, e2, unrankH_rankH ds h3]
      simp only [Int.toNat_natCast]
      congr 1
      omega

theorem rankP_unrankP : ∀ (m : Nat) (pos : Int), 0 ≤ pos → pos < pentCount m →
    (unrankP m pos).length = m ∧ PentDigits (unrankP m pos) ∧ rankP (unrankP m pos) = pos := by
  intro m
  induction m with
  | zero =>
    intro pos h0 h1
    rw [pentCount_zero] at h1
    refine ⟨rfl, trivial, ?_⟩
    simp [unrankP, rankP]; omega
  | succ m ih =>
    intro pos h0 h1
    unfold unrankP
    by_cases hlt : pos < pentCount m
    · simp only [hlt, if_true]
      obtain ⟨l, pd, rk⟩ := ih pos h0 hlt
      exact ⟨by simp [l], pd, by simp [rankP, rk]⟩
    · simp only [hlt, if_false]
      have hw := seven_pow_pos m
      have hp0 : 0 ≤ pos - pentCount m := by linarith
      rw [pentCount_succ] at h1
      have hp1 : pos - pentCount m < 5 * 7 ^ m := by linarith
      have hm0 : 0 ≤ (pos - pentCount m) % 7 ^ m := Int.emod_nonneg _ (ne_of_gt hw)
      have hm1 : (pos - pentCount m) % 7 ^ m < 7 ^ m := Int.emod_lt_of_pos _ hw
      obtain ⟨l, dg, rk⟩ := rankH_unrankH m _ hm0 hm1
      have hq0 : 0 ≤ (pos - pentCount m) / 7 ^ m := Int.ediv_nonneg hp0 (le_of_lt hw)
      have hq5 : (pos - pentCount m) / 7 ^ m < 5 := Int.ediv_lt_of_lt_mul hw (by linarith)
      generalize hq : ((pos - pentCount m) / 7 ^ m).toNat = q at *
      have hqq : (q : Int) = (pos - pentCount m) / 7 ^ m := by rw [← hq, Int.toNat_of_nonneg hq0]
      have hq5' : q < 5 := by omega
      refine ⟨by simp [l], ?_, ?_⟩
      · show PentDigits (((q + 1) + 1) :: _)
        exact ⟨by omega, by omega, dg⟩
      · show rankP (((q + 1) + 1) :: _) = pos
        simp only [rankP, l, rk]
        have := Int.mul_ediv_add_emod (pos - pentCount m) (7 ^ m)
        push_cast
        rw [hqq]
        linarith [Int.mul_comm ((pos - pentCount m) / 7 ^ m) (7 ^ m)]

end H3.Rank
