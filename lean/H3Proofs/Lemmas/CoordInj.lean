/-
L3 — uniqueness of aperture-7 digit expansions: the coordinate of a digit string together with a
carry-out digit determines both.  `coordR rev + lift n (u D) = coordR rev' + lift n (u D')` for digit
strings of equal length n forces `rev = rev'` and `D = D'`.  (The seven digit vectors are a complete
residue system modulo each level matrix, whose determinant is 7.)
-/
import H3Proofs.Lemmas.DigitPass

namespace H3.DP
open H3

/-- adjugate -/
def adjM (m : M2) : M2 := ⟨m.d, -m.b, -m.c, m.a⟩

/-- both level matrices have determinant 7 -/
theorem adj_app (l : Nat) (v : Int × Int) : (adjM (levelM l)).app ((levelM l).app v) = vsmul 7 v := by
  unfold levelM
  split <;> (simp only [adjM, M2.app, vsmul, M7, M7r, Prod.mk.injEq]; constructor <;> omega)

theorem adj_add (m : M2) (u v : Int × Int) : (adjM m).app (vadd u v) = vadd ((adjM m).app u) ((adjM m).app v) :=
  M2.app_add _ _ _

/-- the digit vectors are pairwise incongruent modulo each level matrix -/
theorem digit_residues : ∀ (c : Bool) (a b : Fin 7),
    let m := adjM (if c then M7 else M7r)
    ((m.app (uax a.val)).1 - (m.app (uax b.val)).1) % 7 = 0 →
    ((m.app (uax a.val)).2 - (m.app (uax b.val)).2) % 7 = 0 → a = b := by
  decide +kernel

theorem uax_injective_nat (a b : Nat) (ha : a < 7) (hb : b < 7) (h : uax a = uax b) : a = b := by
  have key : ∀ a b : Fin 7, uax a.val = uax b.val → a = b := by decide +kernel
  exact congrArg Fin.val (key ⟨a, ha⟩ ⟨b, hb⟩ h)

/-- one level: `M X + u d = M X' + u d'` forces `d = d'` and `X = X'` -/
theorem level_unique (l : Nat) (X X' : Int × Int) (d d' : Nat) (hd : d < 7) (hd' : d' < 7)
    (h : vadd ((levelM l).app X) (uax d) = vadd ((levelM l).app X') (uax d')) : d = d' ∧ X = X' := by
  have h2 := congrArg (adjM (levelM l)).app h
  rw [adj_add, adj_add, adj_app, adj_app] at h2
  have hres := digit_residues (isResClassIII l) ⟨d, hd⟩ ⟨d', hd'⟩
  have hm : (if isResClassIII l = true then M7 else M7r) = levelM l := rfl
  simp only [hm] at hres
  unfold vadd vsmul at h2
  simp only [Prod.mk.injEq] at h2
  obtain ⟨e1, e2⟩ := h2
  have hdd : d = d' := by
    have := hres (by omega) (by omega)
    exact congrArg Fin.val this
  subst hdd
  refine ⟨rfl, ?_⟩
  have : X.1 = X'.1 ∧ X.2 = X'.2 := by constructor <;> omega
  exact Prod.ext this.1 this.2

/-- **uniqueness of digit expansions with carry** -/
theorem coord_unique : ∀ (rev rev' : List Nat) (D D' : Nat), rev.length = rev'.length →
    Digits rev → Digits rev' → D < 7 → D' < 7 →
    vadd (coordR rev) (lift rev.length (uax D)) = vadd (coordR rev') (lift rev'.length (uax D')) →
    rev = rev' ∧ D = D' := by
  intro rev
  induction rev with
  | nil =>
    intro rev' D D' hl _ _ hD hD' h
    have : rev' = [] := by
      cases rev' with
      | nil => rfl
      | cons _ _ => simp at hl
    subst this
    simp only [coordR, lift, List.length_nil] at h
    have hz : ∀ v, vadd (0, 0) v = v := by intro v; simp [vadd]
    rw [hz, hz] at h
    have := uax_injective_nat D D' hD hD' h
    exact ⟨rfl, this⟩
  | cons d rest ih =>
    intro rev' D D' hl hdig hdig' hD hD' h
    cases rev' with
    | nil => simp at hl
    | cons d' rest' =>
      have hl' : rest.length = rest'.length := by simpa using hl
      have hd : d < 7 := hdig d (by simp)
      have hd' : d' < 7 := hdig' d' (by simp)
      have hr : Digits rest := fun x hx => hdig x (by simp [hx])
      have hr' : Digits rest' := fun x hx => hdig' x (by simp [hx])
      -- bring both sides to the form  M (coord rest + lift (u D)) + u d
      have key : ∀ (d : Nat) (rest : List Nat) (D : Nat),
          vadd (coordR (d :: rest)) (lift (d :: rest).length (uax D)) =
            vadd ((levelM (rest.length + 1)).app (vadd (coordR rest) (lift rest.length (uax D)))) (uax d) := by
        intro d rest D
        simp only [coordR, List.length_cons, lift]
        rw [M2.app_add, vadd_assoc, vadd_comm (uax d), ← vadd_assoc]
      rw [key, key, ← hl'] at h
      obtain ⟨e1, e2⟩ := level_unique _ _ _ d d' hd hd' h
      rw [hl'] at e2
      obtain ⟨f1, f2⟩ := ih rest' D D' hl' hr hr' hD hD' (by rw [← hl'] at e2 ⊢; exact e2)
      exact ⟨by rw [e1, f1], f2⟩

end H3.DP
