/-
L3 — aperture-7/3 arithmetic in axial coordinates.
`ax (i,j,k) = (i−k, j−k)`; `_ijkNormalize` preserves `ax` and picks the unique representative with
non-negative components and minimum 0; the `_downAp*`, rotation and neighbour steps are linear
maps / translations on `ax`.
-/
import H3Model.Coord

namespace H3

/-- axial coordinates of an ijk triple -/
def ax (c : CoordIJK) : Int × Int := (c.i - c.k, c.j - c.k)

/-- normalised: all components ≥ 0 and at least one is 0 -/
def Normal (c : CoordIJK) : Prop := 0 ≤ c.i ∧ 0 ≤ c.j ∧ 0 ≤ c.k ∧ (c.i = 0 ∨ c.j = 0 ∨ c.k = 0)

theorem normalize_normal (c : CoordIJK) : Normal c.normalize := by
  unfold Normal CoordIJK.normalize
  simp only []
  split <;> split <;> split <;> split <;> simp_all <;> omega

theorem ax_normalize (c : CoordIJK) : ax c.normalize = ax c := by
  unfold ax CoordIJK.normalize
  simp only []
  split <;> split <;> split <;> split <;> simp_all <;> omega

/-- a normal triple is determined by its axial coordinates -/
theorem normal_ext {a b : CoordIJK} (ha : Normal a) (hb : Normal b) (h : ax a = ax b) : a = b := by
  unfold Normal at ha hb
  unfold ax at h
  simp only [Prod.mk.injEq] at h
  cases a; cases b
  simp only [CoordIJK.mk.injEq] at *
  omega

theorem normalize_eq_of_ax {a b : CoordIJK} (h : ax a = ax b) : a.normalize = b.normalize :=
  normal_ext (normalize_normal a) (normalize_normal b) (by rw [ax_normalize, ax_normalize, h])

theorem normalize_of_normal {c : CoordIJK} (h : Normal c) : c.normalize = c :=
  normal_ext (normalize_normal c) h (ax_normalize c)

/-- 2×2 integer matrix acting on axial coordinates -/
structure M2 where
  a : Int
  b : Int
  c : Int
  d : Int
  deriving DecidableEq, Repr

def M2.app (m : M2) (v : Int × Int) : Int × Int := (m.a * v.1 + m.b * v.2, m.c * v.1 + m.d * v.2)

def vadd (u v : Int × Int) : Int × Int := (u.1 + v.1, u.2 + v.2)
def vsmul (s : Int) (v : Int × Int) : Int × Int := (s * v.1, s * v.2)

theorem M2.app_add (m : M2) (u v : Int × Int) : m.app (vadd u v) = vadd (m.app u) (m.app v) := by
  unfold M2.app vadd; simp only [Prod.mk.injEq]
  constructor <;> (simp only [Int.mul_add]; omega)

/-- the linear step `lin iv jv kv` (scale three fixed vectors by i, j, k and add, then normalise)
acts on axial coordinates as a matrix when the three vectors sum to a multiple of (1,1,1) -/
theorem ax_lin (iv jv kv c : CoordIJK) :
    ax (lin iv jv kv c) =
      ((iv.i - iv.k) * c.i + (jv.i - jv.k) * c.j + (kv.i - kv.k) * c.k,
       (iv.j - iv.k) * c.i + (jv.j - jv.k) * c.j + (kv.j - kv.k) * c.k) := by
  unfold lin
  rw [ax_normalize]
  unfold ax CoordIJK.add CoordIJK.scale
  simp only [Prod.mk.injEq]
  constructor <;> (simp only [Int.sub_mul]; omega)

def M7 : M2 := ⟨2, 1, -1, 3⟩      -- _downAp7
def M7r : M2 := ⟨3, -1, 1, 2⟩     -- _downAp7r
def M3 : M2 := ⟨1, 1, -1, 2⟩      -- _downAp3
def M3r : M2 := ⟨2, -1, 1, 1⟩     -- _downAp3r
def Rccw : M2 := ⟨1, -1, 1, 0⟩    -- _ijkRotate60ccw
def Rcw : M2 := ⟨0, 1, -1, 1⟩     -- _ijkRotate60cw

theorem ax_downAp7 (c : CoordIJK) : ax (downAp7 c) = M7.app (ax c) := by
  unfold downAp7; rw [ax_lin]; unfold M2.app M7 ax; simp only [Prod.mk.injEq]; constructor <;> omega

theorem ax_downAp7r (c : CoordIJK) : ax (downAp7r c) = M7r.app (ax c) := by
  unfold downAp7r; rw [ax_lin]; unfold M2.app M7r ax; simp only [Prod.mk.injEq]; constructor <;> omega

theorem ax_downAp3 (c : CoordIJK) : ax (downAp3 c) = M3.app (ax c) := by
  unfold downAp3; rw [ax_lin]; unfold M2.app M3 ax; simp only [Prod.mk.injEq]; constructor <;> omega

theorem ax_downAp3r (c : CoordIJK) : ax (downAp3r c) = M3r.app (ax c) := by
  unfold downAp3r; rw [ax_lin]; unfold M2.app M3r ax; simp only [Prod.mk.injEq]; constructor <;> omega

theorem ax_rotate60ccw (c : CoordIJK) : ax (ijkRotate60ccw c) = Rccw.app (ax c) := by
  unfold ijkRotate60ccw; rw [ax_lin]; unfold M2.app Rccw ax; simp only [Prod.mk.injEq]; constructor <;> omega

theorem ax_rotate60cw (c : CoordIJK) : ax (ijkRotate60cw c) = Rcw.app (ax c) := by
  unfold ijkRotate60cw; rw [ax_lin]; unfold M2.app Rcw ax; simp only [Prod.mk.injEq]; constructor <;> omega

/-- axial unit vector of a digit (regenerated UNIT_VECS) -/
def uax (d : Nat) : Int × Int := ax (unitVec d)

theorem uax_table : (List.range 7).map uax = [(0, 0), (-1, -1), (0, 1), (-1, 0), (1, 0), (0, -1), (1, 1)] := by
  decide +kernel

/-- `_neighbor` is translation by the unit vector (digits 1..6; digit 0 and invalid digits: identity) -/
theorem ax_ijkNeighbor (c : CoordIJK) (d : Nat) (hd : d < 7) : ax (ijkNeighbor c d) = vadd (ax c) (uax d) := by
  unfold ijkNeighbor
  by_cases h0 : d = 0
  · subst h0
    have : uax 0 = (0, 0) := by decide +kernel
    simp [this, vadd, ax]
  · have : (decide (d > 0) && decide (d < 7)) = true := by simp; omega
    simp only [this, if_true]
    rw [ax_normalize]
    unfold uax ax CoordIJK.add vadd
    simp only [Prod.mk.injEq]; constructor <;> omega

/-- `_ijkAdd` followed by normalisation is addition of axial coordinates -/
theorem ax_add (a b : CoordIJK) : ax (a.add b) = vadd (ax a) (ax b) := by
  unfold ax CoordIJK.add vadd; simp only [Prod.mk.injEq]; constructor <;> omega

theorem ax_sub (a b : CoordIJK) : ax (a.sub b) = (( ax a).1 - (ax b).1, (ax a).2 - (ax b).2) := by
  unfold ax CoordIJK.sub; simp only [Prod.mk.injEq]; omega

theorem ax_scale (a : CoordIJK) (s : Int) : ax (a.scale s) = vsmul s (ax a) := by
  unfold ax CoordIJK.scale vsmul; simp only [Prod.mk.injEq]
  constructor <;> simp only [Int.mul_sub, Int.mul_comm]

/-- the hexagonal norm of an axial vector: the value `ijkDistance` computes -/
def hexNorm (v : Int × Int) : Int := max (max v.1.natAbs v.2.natAbs) (v.1 - v.2).natAbs

end H3
