/-
Hierarchy lemmas: the specification-level model of H3Model/HierSpec.lean in terms of the rank /
unrank theory (Lemmas/Rank.lean), lens laws for `writeDigits` / `digitsBetween`, the digit-level
characterisation of `cellToParent` and `isPentagon`.
-/
import H3Model.HierSpec
import H3Proofs.Lemmas.Rank
import H3Proofs.Lemmas.Bits

namespace H3.Hier
open H3 H3.Rank H3.Bits

theorem pentCountI_eq (n : Nat) : pentCountI n = pentCount n := rfl

theorem digitsOfPosH_eq : ∀ (m : Nat) (pos : Int), digitsOfPosH m pos = unrankH m pos := by
  intro m; induction m with
  | zero => intro _; rfl
  | succ m ih => intro pos; simp [digitsOfPosH, unrankH, ih]

theorem digitsOfPosP_eq : ∀ (m : Nat) (pos : Int), digitsOfPosP m pos = unrankP m pos := by
  intro m; induction m with
  | zero => intro _; rfl
  | succ m ih =>
    intro pos
    simp only [digitsOfPosP, unrankP, pentCountI_eq, ih, digitsOfPosH_eq]

theorem posOfDigits_hex : ∀ ds : List Nat, Rank.Digits ds → posOfDigits false ds = .ok (rankH ds) := by
  intro ds
  induction ds with
  | nil => intro _; rfl
  | cons d rest ih =>
    intro h
    have hd : d < 7 := h d (by simp)
    have h7 : (d == 7) = false := by simp; omega
    simp only [posOfDigits, h7, Bool.false_and, Bool.or_false, Bool.false_eq_true, if_false,
      ih (fun x hx => h x (by simp [hx])), rankH]

theorem posOfDigits_pent : ∀ ds : List Nat, PentDigits ds → posOfDigits true ds = .ok (rankP ds) := by
  intro ds
  induction ds with
  | nil => intro _; rfl
  | cons d rest ih =>
    intro h
    cases d with
    | zero =>
      have := ih h
      simp [posOfDigits, this, rankP]
    | succ d =>
      obtain ⟨h1, h2, h3⟩ := h
      have h7 : (d + 1 == 7) = false := by simp; omega
      have h1' : (d + 1 == 1) = false := by simp; omega
      have h0 : (d + 1 == 0) = false := by simp
      simp only [posOfDigits, h7, h1', h0, Bool.true_and, Bool.or_false, Bool.false_eq_true, if_false, if_true,
        posOfDigits_hex rest h3, rankP, pentCountI_eq]
      congr 1
      push_cast
      ring

/-! ### digit strings inside an index -/

theorem digitsBetween_length (h : BitVec 64) (p m : Nat) : (digitsBetween h p m).length = m := by
  simp [digitsBetween]

theorem digitsBetween_succ (h : BitVec 64) (p m : Nat) :
    digitsBetween h p (m + 1) = getDigit h (p + 1) :: digitsBetween h (p + 1) m := by
  simp [digitsBetween, List.range'_succ]

/-- header and digits outside levels p+1..p+len are untouched by `writeDigits` -/
theorem writeDigits_outside : ∀ (ds : List Nat) (h : BitVec 64) (p : Nat), p + ds.length ≤ 15 →
    (∀ d ∈ ds, d < 8) →
    getRes (writeDigits h p ds) = getRes h ∧ getBaseCell (writeDigits h p ds) = getBaseCell h ∧
    getMode (writeDigits h p ds) = getMode h ∧ getReserved (writeDigits h p ds) = getReserved h ∧
    getHighBit (writeDigits h p ds) = getHighBit h ∧
    ∀ r, 1 ≤ r → r ≤ 15 → (r ≤ p ∨ p + ds.length < r) → getDigit (writeDigits h p ds) r = getDigit h r := by
  intro ds
  induction ds with
  | nil => intro h p _ _; exact ⟨rfl, rfl, rfl, rfl, rfl, fun _ _ _ _ => rfl⟩
  | cons d rest ih =>
    intro h p hp hd
    have hpos : 1 ≤ p + 1 ∧ p + 1 ≤ 15 := by simp at hp; omega
    have hd8 : d < 8 := hd d (by simp)
    obtain ⟨a1, a2, a3, a4, a5⟩ := getRes_setDigit h (p + 1) d hpos hd8
    obtain ⟨b1, b2, b3, b4, b5, b6⟩ := ih (setDigit h (p + 1) d) (p + 1) (by simp at hp ⊢; omega)
      (fun x hx => hd x (by simp [hx]))
    simp only [writeDigits]
    refine ⟨by rw [b1, a1], by rw [b2, a2], by rw [b3, a3], by rw [b4, a4], by rw [b5, a5], ?_⟩
    intro r h1 h15 hr
    rw [b6 r h1 h15 (by simp at hr ⊢; omega)]
    rw [getDigit_setDigit h (p + 1) r d hpos ⟨h1, h15⟩ hd8]
    have : r ≠ p + 1 := by simp at hr; omega
    simp [this]

/-- reading back what was written -/
theorem digitsBetween_writeDigits : ∀ (ds : List Nat) (h : BitVec 64) (p : Nat), p + ds.length ≤ 15 →
    (∀ d ∈ ds, d < 8) → digitsBetween (writeDigits h p ds) p ds.length = ds := by
  intro ds
  induction ds with
  | nil => intro h p _ _; rfl
  | cons d rest ih =>
    intro h p hp hd
    have hpos : 1 ≤ p + 1 ∧ p + 1 ≤ 15 := by simp at hp; omega
    have hd8 : d < 8 := hd d (by simp)
    have hrest8 : ∀ x ∈ rest, x < 8 := fun x hx => hd x (by simp [hx])
    have hp' : p + 1 + rest.length ≤ 15 := by simp at hp; omega
    simp only [writeDigits, List.length_cons, digitsBetween_succ]
    rw [ih (setDigit h (p + 1) d) (p + 1) hp' hrest8]
    congr 1
    obtain ⟨_, _, _, _, _, b6⟩ := writeDigits_outside rest (setDigit h (p + 1) d) (p + 1) hp' hrest8
    rw [b6 (p + 1) hpos.1 hpos.2 (Or.inl (le_refl _))]
    rw [getDigit_setDigit h (p + 1) (p + 1) d hpos hpos hd8]
    simp

/-- writing back the digits that are already there changes nothing -/
theorem writeDigits_self : ∀ (m : Nat) (h : BitVec 64) (p : Nat), p + m ≤ 15 →
    writeDigits h p (digitsBetween h p m) = h := by
  intro m
  induction m with
  | zero => intro h p _; rfl
  | succ m ih =>
    intro h p hp
    have hpos : 1 ≤ p + 1 ∧ p + 1 ≤ 15 := by omega
    rw [digitsBetween_succ]
    simp only [writeDigits]
    have hset : setDigit h (p + 1) (getDigit h (p + 1)) = h := by
      have hd8 := getDigit_lt h (p + 1)
      obtain ⟨a1, a2, a3, a4, a5⟩ := getRes_setDigit h (p + 1) (getDigit h (p + 1)) hpos hd8
      apply Bits.ext _ _ a5 a3 a4 a1 a2
      intro r h1 h15
      rw [getDigit_setDigit h (p + 1) r _ hpos ⟨h1, h15⟩ hd8]
      by_cases e : r = p + 1
      · simp [e]
      · simp [e]
    rw [hset]
    exact ih h (p + 1) (by omega)

end H3.Hier

namespace H3.Hier
open H3 H3.Rank H3.Bits

/-! ### cellToParent at the digit level -/

/-- setting digits a, a+1, …, a+n−1 to 7 -/
theorem fold_set7 : ∀ (n a : Nat) (x : BitVec 64), 1 ≤ a → a + n ≤ 16 →
    let y := (List.range' a n).foldl (fun x i => setDigit x i 7) x
    getRes y = getRes x ∧ getBaseCell y = getBaseCell x ∧ getMode y = getMode x ∧
    getReserved y = getReserved x ∧ getHighBit y = getHighBit x ∧
    ∀ r, 1 ≤ r → r ≤ 15 → getDigit y r = if a ≤ r ∧ r < a + n then 7 else getDigit x r := by
  intro n
  induction n with
  | zero =>
    intro a x _ _
    refine ⟨rfl, rfl, rfl, rfl, rfl, fun r _ _ => ?_⟩
    have : ¬ (a ≤ r ∧ r < a + 0) := by omega
    simp [this]
  | succ n ih =>
    intro a x ha hn
    have hpos : 1 ≤ a ∧ a ≤ 15 := by omega
    obtain ⟨a1, a2, a3, a4, a5⟩ := getRes_setDigit x a 7 hpos (by omega)
    obtain ⟨b1, b2, b3, b4, b5, b6⟩ := ih (a + 1) (setDigit x a 7) (by omega) (by omega)
    simp only [List.range'_succ, List.foldl_cons]
    refine ⟨by rw [b1, a1], by rw [b2, a2], by rw [b3, a3], by rw [b4, a4], by rw [b5, a5], ?_⟩
    intro r h1 h15
    rw [b6 r h1 h15, getDigit_setDigit x a r 7 hpos ⟨h1, h15⟩ (by omega)]
    by_cases e1 : a + 1 ≤ r ∧ r < a + 1 + n
    · have : a ≤ r ∧ r < a + (n + 1) := by omega
      simp [e1, this]
    · by_cases e2 : r = a
      · have : a ≤ r ∧ r < a + (n + 1) := by omega
        simp [e1, e2]
      · have : ¬ (a ≤ r ∧ r < a + (n + 1)) := by omega
        simp [e1, e2, this]

/-- **cellToParent at the digit level**: resolution p, digits ≤ p kept, digits p+1..res set to 7,
everything else untouched -/
theorem cellToParent_spec (h : BitVec 64) (p : Nat) (hp : p ≤ getRes h) :
    ∃ q, cellToParent h (p : Int) = .ok q ∧ getRes q = p ∧ getBaseCell q = getBaseCell h ∧
      getMode q = getMode h ∧ getReserved q = getReserved h ∧ getHighBit q = getHighBit h ∧
      ∀ r, 1 ≤ r → r ≤ 15 → getDigit q r = if p < r ∧ r ≤ getRes h then 7 else getDigit h r := by
  have hres := getRes_lt h
  unfold cellToParent
  have h1 : (decide ((p : Int) < 0) || decide ((p : Int) > 15)) = false := by simp; omega
  have h2 : ¬ ((p : Int) > (getRes h : Int)) := by omega
  simp only [h1, Bool.false_eq_true, if_false, h2]
  by_cases heq : p = getRes h
  · have : ((p : Int) == (getRes h : Int)) = true := by simp [heq]
    simp only [this, if_true]
    refine ⟨h, rfl, heq.symm, rfl, rfl, rfl, rfl, fun r _ _ => ?_⟩
    have : ¬ (p < r ∧ r ≤ getRes h) := by omega
    simp [this]
  · have : ((p : Int) == (getRes h : Int)) = false := by simp; omega
    simp only [this, Bool.false_eq_true, if_false, Int.toNat_natCast]
    have hp15 : p < 16 := by omega
    obtain ⟨b1, b2, b3, b4, b5, b6⟩ := fold_set7 (getRes h - p) (p + 1) (setRes h p) (by omega) (by omega)
    refine ⟨_, rfl, ?_, ?_, ?_, ?_, ?_, ?_⟩
    · rw [b1, getRes_setRes h p hp15]
    · rw [b2, (getDigit_setRes h p 1 hp15 ⟨by omega, by omega⟩).2.1]
    · rw [b3, (getDigit_setRes h p 1 hp15 ⟨by omega, by omega⟩).2.2.1]
    · rw [b4, (getDigit_setRes h p 1 hp15 ⟨by omega, by omega⟩).2.2.2.1]
    · rw [b5, (getDigit_setRes h p 1 hp15 ⟨by omega, by omega⟩).2.2.2.2]
    · intro r hr1 hr15
      rw [b6 r hr1 hr15, (getDigit_setRes h p r hp15 ⟨hr1, hr15⟩).1]
      by_cases e : p < r ∧ r ≤ getRes h
      · have : p + 1 ≤ r ∧ r < p + 1 + (getRes h - p) := by omega
        simp [e, this]
      · have : ¬ (p + 1 ≤ r ∧ r < p + 1 + (getRes h - p)) := by omega
        simp [e, this]

/-! ### isPentagon at the digit level -/

theorem leadingGo_zero_iff (h : BitVec 64) : ∀ (fuel r : Nat),
    leadingNonZeroDigit.go h r fuel = 0 ↔ ∀ i, i < fuel → getDigit h (r + i) = 0 := by
  intro fuel
  induction fuel with
  | zero => intro r; simp [leadingNonZeroDigit.go]
  | succ fuel ih =>
    intro r
    unfold leadingNonZeroDigit.go
    by_cases h0 : getDigit h r = 0
    · have : (getDigit h r != 0) = false := by simp [h0]
      simp only [this, Bool.false_eq_true, if_false]
      rw [ih (r + 1)]
      constructor
      · intro hh i hi
        cases i with
        | zero => simpa using h0
        | succ i => have := hh i (by omega); rwa [show r + 1 + i = r + (i + 1) by omega] at this
      · intro hh i hi
        have := hh (i + 1) (by omega); rwa [show r + (i + 1) = r + 1 + i by omega] at this
    · have : (getDigit h r != 0) = true := by simp [h0]
      simp only [this, if_true]
      constructor
      · intro hh; exact absurd hh h0
      · intro hh; exact absurd (by simpa using hh 0 (by omega)) h0

/-- **isPentagon = pentagon base cell ∧ all digits 1..res are 0** -/
theorem isPentagon_iff (h : BitVec 64) :
    isPentagon h = true ↔ isBaseCellPentagon (getBaseCell h) = true ∧ ∀ r, 1 ≤ r → r ≤ getRes h → getDigit h r = 0 := by
  unfold isPentagon leadingNonZeroDigit
  simp only [Bool.and_eq_true, beq_iff_eq]
  rw [leadingGo_zero_iff]
  constructor
  · rintro ⟨a, b⟩
    refine ⟨a, fun r h1 h2 => ?_⟩
    have := b (r - 1) (by omega)
    rwa [show 1 + (r - 1) = r by omega] at this
  · rintro ⟨a, b⟩
    exact ⟨a, fun i hi => b (1 + i) (by omega) (by omega)⟩

end H3.Hier
